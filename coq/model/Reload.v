(** Executable model of easegress' hot update (C11).  No proofs here.

    - part 1 [mx_*]  : pkg/object/httpserver/mux.go   mux.inst (atomic.Value), reload = build a fresh
                       muxInstance then Store; serveHTTP loads the instance ONCE and reads routing
                       rules, MuxMapper, rewrite target, XForwardedFor and body limit from it only.
                       A labelled transition system: request threads advance one critical step at
                       a time, [LStore] publishes a new generation between any two steps.
    - part 2 [pk_*]  : filter kinds whose Inherit is Init (Proxy, Validator, adaptors, Mock, ...):
                       what a generation answers is a function of its own spec and its own request
                       history only.  The RateLimiter filter (the one kind that moves state in
                       Inherit) is modelled in [EG.model.RL] ([fstep], [flt_inherit], [flt_handle]).
    - part 3 [pl_*]  : pkg/object/pipeline/pipeline.go  Init / Inherit (filter-wise Init or Inherit
                       by filter name, then prev.Close) / Handle.
    - part 4 [tc_*]  : pkg/object/trafficcontroller  Create/Update/Apply/Delete/Clean/GetHandler over
                       namespaces.

    Quirk flags (defects of the pinned code, see known_findings/C11.json):
    - [rq_steal]   = RL.q_rl_inherit_steals_limiter: RateLimiter.reload sets [prev.rl = nil];
    - [rq_foreign] : Pipeline.reload calls [filter.Inherit(prev)] whenever a filter of the same NAME
                     existed, even if its kind differs; RateLimiter.Inherit then panics in its type
                     assertion, the half-built pipeline generation is stored and serves nothing. *)
From EG.lib Require Import Base.
From EG.model Require Import RL.
Open Scope Z_scope.

Record rquirks := { rq_steal : bool; rq_foreign : bool }.
Definition rideal : rquirks := {| rq_steal := false; rq_foreign := false |}.
Definition rl_quirks (q : rquirks) : RL.quirks := {| q_rl_inherit_steals_limiter := rq_steal q |}.

(** * Part 1: mux generations and request threads *)

(** what [search] + [rewrite] yield for one request under one generation (oracle row computed by the
    real [muxInstance.search] / [MuxPath.rewrite]) *)
Record mx_comp := { c_code : Z;            (* 0 = routed, else the failure status (403/404/405/400) *)
                    c_backend : string; c_rpath : string; c_plimit : Z }.

Record mx_gen := { gn_mapper : string;     (* identity of the MuxMapper stored in the instance *)
                   gn_xff : bool; gn_limit : Z;
                   gn_comp : list (Z * mx_comp) }.   (* request id -> search result *)

Record mx_req := { rq_id : Z; rq_len : Z;
                   rq_xff_off : string;    (* X-Forwarded-For as sent *)
                   rq_xff_on : string }.   (* after the real appendXForwardedFor (oracle) *)

Record mx_resp := { r_status : Z; r_handler : string; r_path : string; r_xff : string; r_size : Z }.

Definition mx_fail (code : Z) : mx_resp :=
  {| r_status := code; r_handler := ""; r_path := ""; r_xff := ""; r_size := 0 |}.

Inductive mx_pc := PStart | PLoaded | PSearched | PHandler | PRewritten | PXff | PLimit | PDone.

Record mx_thread := { t_req : mx_req; t_pc : mx_pc;
                      t_snap : option mx_gen;      (* the instance loaded by ServeHTTP *)
                      t_comp : mx_comp; t_handler : string; t_path : string; t_xff : string;
                      t_out : option mx_resp }.

Definition comp0 : mx_comp := {| c_code := 404; c_backend := ""; c_rpath := ""; c_plimit := 0 |}.

Definition mx_fresh (r : mx_req) : mx_thread :=
  {| t_req := r; t_pc := PStart; t_snap := None; t_comp := comp0; t_handler := ""; t_path := "";
     t_xff := ""; t_out := None |}.

Fixpoint zlookup {A} (k : Z) (l : list (Z * A)) : option A :=
  match l with
  | [] => None
  | (k', v) :: t => if k =? k' then Some v else zlookup k t
  end.

Definition default_max_payload : Z := 4 * 1024 * 1024.

Definition eff_limit (g : mx_gen) (c : mx_comp) : Z :=
  let l := if c_plimit c =? 0 then gn_limit g else c_plimit c in
  if l =? 0 then default_max_payload else l.

Definition mx_finish (t : mx_thread) (o : mx_resp) : mx_thread :=
  {| t_req := t_req t; t_pc := PDone; t_snap := t_snap t; t_comp := t_comp t; t_handler := t_handler t;
     t_path := t_path t; t_xff := t_xff t; t_out := Some o |}.

(** one critical step of a request thread.  [inst] is the CURRENT content of mux.inst; only the
    first step reads it. *)
Definition mx_tstep (inst : mx_gen) (t : mx_thread) : mx_thread :=
  match t_pc t with
  | PStart =>                                                       (* m.inst.Load() *)
      {| t_req := t_req t; t_pc := PLoaded; t_snap := Some inst; t_comp := t_comp t;
         t_handler := t_handler t; t_path := t_path t; t_xff := t_xff t; t_out := None |}
  | PDone => t
  | pc =>
      match t_snap t with
      | None => t                                                   (* unreachable *)
      | Some g =>
          match pc with
          | PLoaded =>                                              (* mi.search(req) *)
              let c := match zlookup (rq_id (t_req t)) (gn_comp g) with Some c => c | None => comp0 end in
              let t' := {| t_req := t_req t; t_pc := PSearched; t_snap := t_snap t; t_comp := c;
                           t_handler := t_handler t; t_path := t_path t; t_xff := t_xff t; t_out := None |} in
              if c_code c =? 0 then t' else mx_finish t' (mx_fail (c_code c))
          | PSearched =>                                            (* mi.muxMapper.GetHandler(backend) *)
              if String.eqb (c_backend (t_comp t)) "gone" then mx_finish t (mx_fail 503) else
              {| t_req := t_req t; t_pc := PHandler; t_snap := t_snap t; t_comp := t_comp t;
                 t_handler := gn_mapper g ++ "/" ++ c_backend (t_comp t);
                 t_path := t_path t; t_xff := t_xff t; t_out := None |}
          | PHandler =>                                             (* route.path.rewrite(req) *)
              {| t_req := t_req t; t_pc := PRewritten; t_snap := t_snap t; t_comp := t_comp t;
                 t_handler := t_handler t; t_path := c_rpath (t_comp t); t_xff := t_xff t; t_out := None |}
          | PRewritten =>                                           (* mi.spec.XForwardedFor *)
              {| t_req := t_req t; t_pc := PXff; t_snap := t_snap t; t_comp := t_comp t;
                 t_handler := t_handler t; t_path := t_path t;
                 t_xff := if gn_xff g then rq_xff_on (t_req t) else rq_xff_off (t_req t); t_out := None |}
          | PXff =>                                                 (* body limit + FetchPayload *)
              if eff_limit g (t_comp t) <? rq_len (t_req t) then mx_finish t (mx_fail 413) else
              {| t_req := t_req t; t_pc := PLimit; t_snap := t_snap t; t_comp := t_comp t;
                 t_handler := t_handler t; t_path := t_path t; t_xff := t_xff t; t_out := None |}
          | _ =>                                                    (* handler.Handle(ctx) *)
              mx_finish t {| r_status := 200; r_handler := t_handler t; r_path := t_path t;
                             r_xff := t_xff t; r_size := rq_len (t_req t) |}
          end
      end
  end.

(** the sequential meaning of one generation: the request handled with [g] live throughout *)
Definition mx_seq (g : mx_gen) (r : mx_req) (n : nat) : mx_thread := Nat.iter n (mx_tstep g) (mx_fresh r).
Definition mx_serve (g : mx_gen) (r : mx_req) : option mx_resp := t_out (mx_seq g r 8).

Record mx_world := { mw_inst : mx_gen; mw_hist : list mx_gen; mw_threads : list mx_thread }.

Inductive mx_label :=
| LSpawn (r : mx_req)          (* a new request arrives *)
| LStep (i : nat)              (* thread i performs its next critical step *)
| LStore (g : mx_gen).         (* mux.reload: BuildInst (no shared effect) then m.inst.Store(g) *)

Fixpoint upd_nth {A} (n : nat) (f : A -> A) (l : list A) : list A :=
  match n, l with
  | _, [] => []
  | O, a :: t => f a :: t
  | S n', a :: t => a :: upd_nth n' f t
  end.

Definition mx_step (w : mx_world) (l : mx_label) : mx_world :=
  match l with
  | LSpawn r => {| mw_inst := mw_inst w; mw_hist := mw_hist w; mw_threads := mw_threads w ++ [mx_fresh r] |}
  | LStep i => {| mw_inst := mw_inst w; mw_hist := mw_hist w;
                  mw_threads := upd_nth i (mx_tstep (mw_inst w)) (mw_threads w) |}
  | LStore g => {| mw_inst := g; mw_hist := g :: mw_hist w; mw_threads := mw_threads w |}
  end.

Definition mx_run (w : mx_world) (ls : list mx_label) : mx_world := fold_left mx_step ls w.
Definition mx_init (g0 : mx_gen) : mx_world := {| mw_inst := g0; mw_hist := [g0]; mw_threads := [] |}.

(** * Part 2: filter kinds with Inherit = Init *)

Inductive pk_op :=
| KInit (s : nat)
| KInherit (s from : nat)
| KHandle (g r : nat)
| KClose (g : nat).

Record pk_gen := { kg_spec : nat; kg_hist : list nat; kg_closed : bool }.

Section PureKind.
  Context {O : Type}.
  (** [behave spec history]: the answer of an instance built from [spec] by Init alone to the last
      request of [history], having handled the earlier ones before (round-robin position, breaker
      window, cache content ... are functions of that history). *)
  Variable behave : nat -> list nat -> O.

  Definition pk_step (gs : list pk_gen) (o : pk_op) : list pk_gen * option O :=
    match o with
    | KInit s => (gs ++ [{| kg_spec := s; kg_hist := []; kg_closed := false |}], None)
    | KInherit s _ => (gs ++ [{| kg_spec := s; kg_hist := []; kg_closed := false |}], None)
    | KHandle g r =>
        match nth_error gs g with
        | None => (gs, None)
        | Some x =>
            let h := kg_hist x ++ [r] in
            (upd_nth g (fun _ => {| kg_spec := kg_spec x; kg_hist := h; kg_closed := kg_closed x |}) gs,
             Some (behave (kg_spec x) h))
        end
    | KClose g =>
        (upd_nth g (fun x => {| kg_spec := kg_spec x; kg_hist := kg_hist x; kg_closed := true |}) gs, None)
    end.

  Fixpoint pk_run (gs : list pk_gen) (ops : list pk_op) : list (option O) :=
    match ops with
    | [] => []
    | o :: t => let '(gs', r) := pk_step gs o in r :: pk_run gs' t
    end.
End PureKind.

(** * Part 3: Pipeline.Init / Inherit / Handle *)

Inductive pl_kind := KRecA | KRecB | KRL | KMock.
Definition pl_kind_eqb (a b : pl_kind) : bool :=
  match a, b with
  | KRecA, KRecA | KRecB, KRecB | KRL, KRL | KMock, KMock => true
  | _, _ => false
  end.
Definition is_rec (k : pl_kind) : bool := match k with KRecA | KRecB => true | _ => false end.

Record pl_fspec := { pf_name : string; pf_kind : pl_kind; pf_tag : Z }.

(** a filter instance; [pi_rec] = recorder id (creation order among recording instances, -1 else);
    [pi_lim]: a RateLimiter instance still holds its limiter (false = the nil pointer) *)
Record pl_inst := { pi_name : string; pi_kind : pl_kind; pi_tag : Z; pi_rec : Z; pi_lim : bool }.

Record pl_gen := { pg_filters : list (string * nat);   (* p.filters: name -> instance (index in the heap) *)
                   pg_flow : list nat }.               (* p.flow *)

Record pl_world := { pw_insts : list pl_inst; pw_gens : list pl_gen; pw_nrec : Z }.
Definition pl_world0 : pl_world := {| pw_insts := []; pw_gens := []; pw_nrec := 0 |}.

Inductive pl_ev :=
| EInit (id : Z) (name : string)
| EInherit (id : Z) (name : string) (from : Z)
| EClose (id : Z) (name : string)
| EHandle (id : Z) (name : string).

Fixpoint slookup {A} (k : string) (l : list (string * A)) : option A :=
  match l with
  | [] => None
  | (k', v) :: t => if String.eqb k k' then Some v else slookup k t
  end.

Definition set_lim (b : bool) (x : pl_inst) : pl_inst :=
  {| pi_name := pi_name x; pi_kind := pi_kind x; pi_tag := pi_tag x; pi_rec := pi_rec x; pi_lim := b |}.

(** create + Init/Inherit of ONE filter of the new generation.
    Result: (instances, recorder counter, events, panicked). The new instance is appended. *)
Definition pl_one (q : rquirks) (insts : list pl_inst) (nrec : Z) (f : pl_fspec) (prev : option nat)
  : list pl_inst * Z * list pl_ev * bool :=
  let rid := if is_rec (pf_kind f) then nrec else -1 in
  let nrec' := if is_rec (pf_kind f) then nrec + 1 else nrec in
  let mk lim := {| pi_name := pf_name f; pi_kind := pf_kind f; pi_tag := pf_tag f; pi_rec := rid; pi_lim := lim |} in
  let init := (insts ++ [mk true], nrec',
               if is_rec (pf_kind f) then [EInit rid (pf_name f)] else [], false) in
  match prev with
  | None => init
  | Some pi =>
      match nth_error insts pi with
      | None => init
      | Some p =>
          if negb (rq_foreign q) && negb (pl_kind_eqb (pi_kind p) (pf_kind f)) then init   (* fixed: Init when the kind differs *)
          else
          match pf_kind f with
          | KRecA | KRecB => (insts ++ [mk true], nrec', [EInherit rid (pf_name f) (pi_rec p)], false)
          | KMock => (insts ++ [mk true], nrec', [], false)
          | KRL =>
              match pi_kind p with
              | KRL =>
                  if pi_tag p =? pf_tag f then
                    (* same rule + same policy: the limiter is handed over *)
                    if pi_lim p then
                      ((if rq_steal q then upd_nth pi (set_lim false) insts else insts) ++ [mk true], nrec', [], false)
                    else (insts, nrec', [], true)       (* SetStateListener on the nil limiter *)
                  else (insts ++ [mk true], nrec', [], false)
              | _ => (insts, nrec', [], true)           (* type assertion of previousGeneration to RateLimiter *)
              end
          end
      end
  end.

(** the loop of Pipeline.reload over the filter specs *)
Fixpoint pl_loop (q : rquirks) (insts : list pl_inst) (nrec : Z) (fs : list pl_fspec)
  (prev : list (string * nat)) (acc : list (string * nat)) (evs : list pl_ev)
  : list pl_inst * Z * list (string * nat) * list pl_ev * bool :=
  match fs with
  | [] => (insts, nrec, acc, evs, false)
  | f :: t =>
      let '(insts', nrec', e, pk) := pl_one q insts nrec f (slookup (pf_name f) prev) in
      if pk then (insts', nrec', acc, evs ++ e, true)
      else pl_loop q insts' nrec' t prev (acc ++ [(pf_name f, Nat.pred (List.length insts'))]) (evs ++ e)
  end.

Fixpoint insert_z (x : Z * string) (l : list (Z * string)) : list (Z * string) :=
  match l with
  | [] => [x]
  | y :: t => if fst x <=? fst y then x :: l else y :: insert_z x t
  end.

(** prev.Close(): every filter of the previous generation is closed (Go map order; canonical: by id) *)
Definition pl_closes (insts : list pl_inst) (prev : list (string * nat)) : list pl_ev :=
  let recs := fold_right (fun '(_, i) acc =>
                 match nth_error insts i with
                 | Some p => if is_rec (pi_kind p) then insert_z (pi_rec p, pi_name p) acc else acc
                 | None => acc
                 end) [] prev in
  map (fun '(id, n) => EClose id n) recs.

Definition pl_reload (q : rquirks) (w : pl_world) (fs : list pl_fspec) (prev : option pl_gen)
  : pl_world * list pl_ev * bool :=
  let prevf := match prev with Some g => pg_filters g | None => [] end in
  let '(insts, nrec, acc, evs, pk) := pl_loop q (pw_insts w) (pw_nrec w) fs prevf [] [] in
  if pk then
    (* the panic leaves p.flow unset; the entity is stored all the same (InheritWithRecovery) *)
    ({| pw_insts := insts; pw_gens := pw_gens w ++ [{| pg_filters := acc; pg_flow := [] |}]; pw_nrec := nrec |},
     evs, true)
  else
    ({| pw_insts := insts; pw_gens := pw_gens w ++ [{| pg_filters := acc; pg_flow := map snd acc |}]; pw_nrec := nrec |},
     evs ++ match prev with Some g => pl_closes insts (pg_filters g) | None => [] end, false).

Inductive pl_res := PRes (res : string) (status : Z) | PPanic.

Fixpoint pl_flow_run (insts : list pl_inst) (flow : list nat) (evs : list pl_ev) : list pl_ev * pl_res :=
  match flow with
  | [] => (evs, PRes "" 0)
  | i :: t =>
      match nth_error insts i with
      | None => (evs, PPanic)
      | Some p =>
          match pi_kind p with
          | KRecA | KRecB => pl_flow_run insts t (evs ++ [EHandle (pi_rec p) (pi_name p)])
          | KRL => if pi_lim p then pl_flow_run insts t evs else (evs, PPanic)
          | KMock => (evs, PRes "mocked" (200 + pi_tag p))
          end
      end
  end.

Inductive pl_op := PlInit (s : nat) | PlInherit (s from : nat) | PlHandle (g : nat).

Inductive pl_obs :=
| PoLife (panicked : bool) (evs : list pl_ev)
| PoHandle (evs : list pl_ev) (r : pl_res)
| PoBad.

Definition pl_step (q : rquirks) (specs : list (list pl_fspec)) (w : pl_world) (o : pl_op) : pl_world * pl_obs :=
  match o with
  | PlInit s =>
      let '(w', evs, pk) := pl_reload q w (nth s specs []) None in (w', PoLife pk evs)
  | PlInherit s from =>
      match nth_error (pw_gens w) from with
      | None => (w, PoBad)
      | Some g => let '(w', evs, pk) := pl_reload q w (nth s specs []) (Some g) in (w', PoLife pk evs)
      end
  | PlHandle g =>
      match nth_error (pw_gens w) g with
      | None => (w, PoBad)
      | Some x => let '(evs, r) := pl_flow_run (pw_insts w) (pg_flow x) [] in (w, PoHandle evs r)
      end
  end.

Fixpoint pl_run (q : rquirks) (specs : list (list pl_fspec)) (w : pl_world) (ops : list pl_op) : list pl_obs :=
  match ops with
  | [] => []
  | o :: t => let '(w', r) := pl_step q specs w o in r :: pl_run q specs w' t
  end.

(** * Part 4: TrafficController *)

Inductive tc_cat := CP | CG.
Definition tc_cat_eqb (a b : tc_cat) : bool := match a, b with CP, CP | CG, CG => true | _, _ => false end.

Record tc_ent := { e_id : Z; e_tag : Z }.
Record tc_space := { sp_gates : list (string * tc_ent); sp_pipes : list (string * tc_ent) }.
Record tc_state := { ts_spaces : list (string * tc_space); ts_next : Z }.
Definition tc_state0 : tc_state := {| ts_spaces := []; ts_next := 1 |}.

Inductive tc_op :=
| TCreate (c : tc_cat) (ns name : string) (tag : Z)
| TUpdate (c : tc_cat) (ns name : string) (tag : Z)
| TApply (c : tc_cat) (ns name : string) (tag : Z)
| TDelete (c : tc_cat) (ns name : string)
| TClean (ns : string)
| TGet (ns name : string).

Inductive tc_ev :=
| TInit (c : tc_cat) (id : Z) (name : string) (tag : Z)
| TInherit (c : tc_cat) (id : Z) (name : string) (tag : Z) (from : Z)
| TClose (c : tc_cat) (id : Z) (name : string) (tag : Z)
| THandle (id : Z) (name : string) (tag : Z).

Record tc_result := { tr_err : bool; tr_ret : Z; tr_evs : list tc_ev }.

Fixpoint sset {A} (k : string) (v : A) (l : list (string * A)) : list (string * A) :=
  match l with
  | [] => [(k, v)]
  | (k', v') :: t => if String.eqb k k' then (k, v) :: t else (k', v') :: sset k v t
  end.

(** delete: drops every binding of [k] (bindings are unique in every reachable state) *)
Definition sdel {A} (k : string) (l : list (string * A)) : list (string * A) :=
  filter (fun kv => negb (String.eqb k (fst kv))) l.

Definition sp_empty : tc_space := {| sp_gates := []; sp_pipes := [] |}.
Definition sp_get (c : tc_cat) (s : tc_space) := match c with CP => sp_pipes s | CG => sp_gates s end.
Definition sp_put (c : tc_cat) (s : tc_space) (m : list (string * tc_ent)) : tc_space :=
  match c with
  | CP => {| sp_gates := sp_gates s; sp_pipes := m |}
  | CG => {| sp_gates := m; sp_pipes := sp_pipes s |}
  end.

Definition tc_lookup (st : tc_state) (c : tc_cat) (ns name : string) : option tc_ent :=
  match slookup ns (ts_spaces st) with
  | None => None
  | Some s => slookup name (sp_get c s)
  end.

Definition tc_ok (ret : Z) (evs : list tc_ev) : tc_result := {| tr_err := false; tr_ret := ret; tr_evs := evs |}.
Definition tc_err : tc_result := {| tr_err := true; tr_ret := 0; tr_evs := [] |}.

Definition sp_is_empty (s : tc_space) : bool :=
  match sp_gates s, sp_pipes s with [], [] => true | _, _ => false end.

Definition closes_of (c : tc_cat) (m : list (string * tc_ent)) : list tc_ev :=
  map (fun '(id, (n, t)) => TClose c id n t)
      (fold_right (fun '(n, e) acc =>
         (fix ins (x : Z * (string * Z)) (l : list (Z * (string * Z))) :=
            match l with
            | [] => [x]
            | y :: t => if fst x <=? fst y then x :: l else y :: ins x t
            end) (e_id e, (n, e_tag e)) acc) [] m).

Definition tc_step (st : tc_state) (o : tc_op) : tc_state * tc_result :=
  match o with
  | TCreate c ns name tag =>
      if String.eqb ns "" then (st, tc_err) else
      let s := match slookup ns (ts_spaces st) with Some s => s | None => sp_empty end in
      let e := {| e_id := ts_next st; e_tag := tag |} in
      ({| ts_spaces := sset ns (sp_put c s (sset name e (sp_get c s))) (ts_spaces st); ts_next := ts_next st + 1 |},
       tc_ok (e_id e) [TInit c (e_id e) name tag])
  | TUpdate c ns name tag =>
      match slookup ns (ts_spaces st) with
      | None => (st, tc_err)
      | Some s =>
          match slookup name (sp_get c s) with
          | None => (st, tc_err)
          | Some prev =>
              let e := {| e_id := ts_next st; e_tag := tag |} in
              ({| ts_spaces := sset ns (sp_put c s (sset name e (sp_get c s))) (ts_spaces st); ts_next := ts_next st + 1 |},
               tc_ok (e_id e) [TInherit c (e_id e) name tag (e_id prev)])
          end
      end
  | TApply c ns name tag =>
      if String.eqb ns "" then (st, tc_err) else
      let s := match slookup ns (ts_spaces st) with Some s => s | None => sp_empty end in
      match slookup name (sp_get c s) with
      | None =>
          let e := {| e_id := ts_next st; e_tag := tag |} in
          ({| ts_spaces := sset ns (sp_put c s (sset name e (sp_get c s))) (ts_spaces st); ts_next := ts_next st + 1 |},
           tc_ok (e_id e) [TInit c (e_id e) name tag])
      | Some prev =>
          if e_tag prev =? tag then
            (* prev.Spec().Equals(entity.Spec()): nothing changes (the namespace was created above if missing:
               cannot be missing here since prev exists) *)
            (st, tc_ok (e_id prev) [])
          else
            let e := {| e_id := ts_next st; e_tag := tag |} in
            ({| ts_spaces := sset ns (sp_put c s (sset name e (sp_get c s))) (ts_spaces st); ts_next := ts_next st + 1 |},
             tc_ok (e_id e) [TInherit c (e_id e) name tag (e_id prev)])
      end
  | TDelete c ns name =>
      match slookup ns (ts_spaces st) with
      | None => (st, tc_err)
      | Some s =>
          match slookup name (sp_get c s) with
          | None => (st, tc_err)
          | Some e =>
              let s' := sp_put c s (sdel name (sp_get c s)) in
              ({| ts_spaces := if sp_is_empty s' then sdel ns (ts_spaces st) else sset ns s' (ts_spaces st);
                  ts_next := ts_next st |},
               tc_ok 0 [TClose c (e_id e) name (e_tag e)])
          end
      end
  | TClean ns =>
      match slookup ns (ts_spaces st) with
      | None => (st, tc_err)
      | Some s =>
          ({| ts_spaces := sdel ns (ts_spaces st); ts_next := ts_next st |},
           tc_ok 0 (closes_of CG (sp_gates s) ++ closes_of CP (sp_pipes s)))
      end
  | TGet ns name =>
      match tc_lookup st CP ns name with
      | None => (st, tc_err)
      | Some e => (st, tc_ok (e_id e) [THandle (e_id e) name (e_tag e)])
      end
  end.

Fixpoint tc_run (st : tc_state) (ops : list tc_op) : list (tc_state * tc_result) :=
  match ops with
  | [] => []
  | o :: t => let '(st', r) := tc_step st o in (st', r) :: tc_run st' t
  end.

(** An update is a two-step transition: the lifecycle callback (Init / Inherit of the new entity,
    Close of a deleted one) runs while tc.mutex is held, and only then the new entity is published.
    Requests do not take the mutex (Namespace.GetHandler reads the sync.Map): [tc_during] is what they
    see while the callback runs.  Init / Inherit run BEFORE the new entity is stored - the previous
    entity is still served -; Close of a deleted entity runs after it was removed from the map. *)
Definition tc_during (st : tc_state) (o : tc_op) : tc_state :=
  match o with
  | TDelete c ns name =>
      match slookup ns (ts_spaces st) with
      | Some s =>
          match slookup name (sp_get c s) with
          | Some _ => {| ts_spaces := sset ns (sp_put c s (sdel name (sp_get c s))) (ts_spaces st);
                         ts_next := ts_next st |}
          | None => st
          end
      | None => st
      end
  | _ => st
  end.

(** the object an operation is about *)
Definition tc_target (o : tc_op) : option (tc_cat * string * string) :=
  match o with
  | TCreate c ns n _ | TUpdate c ns n _ | TApply c ns n _ | TDelete c ns n => Some (c, ns, n)
  | TClean _ => None
  | TGet ns n => Some (CP, ns, n)
  end.

(** * Part 5: runtime.reload - restart of the listener (pkg/object/httpserver/runtime.go
    needRestartServer).  The spec is split into the part the code compares (everything that is not
    explicitly masked out: port, keepAlive, keepAliveTimeout, https/http3/certificates,
    clientMaxBodySize, globalFilter) and the hot-updatable part it masks out (rules, server-level
    ipFilter, xForwardedFor, cacheSize, tracing, maxConnections). *)
Record rt_listen := { rl_port : Z; rl_keepalive : bool; rl_katimeout : string; rl_maxbody : Z; rl_globalfilter : string;
                      rl_https : bool }.   (* certificates: the harness uses one fixed key pair *)
Record rt_hot := { rh_rules : string; rh_ipfilter : list string; rh_xff : bool; rh_cache : Z; rh_maxconn : Z }.
Record rt_spec := { rs_listen : rt_listen; rs_hot : rt_hot }.

Definition rt_listen_eqb (a b : rt_listen) : bool :=
  (rl_port a =? rl_port b) && Bool.eqb (rl_keepalive a) (rl_keepalive b) &&
  String.eqb (rl_katimeout a) (rl_katimeout b) && (rl_maxbody a =? rl_maxbody b) &&
  String.eqb (rl_globalfilter a) (rl_globalfilter b) && Bool.eqb (rl_https a) (rl_https b).

Definition need_restart (old new : rt_spec) : bool := negb (rt_listen_eqb (rs_listen old) (rs_listen new)).

(** runtime.reload on a running server: (restarts of the listener, the keep-alive connections survive) *)
Definition rt_reload (old new : rt_spec) : Z * bool :=
  if need_restart old new then (1, false) else (0, true).

(** runtime.reload ALWAYS rebuilds the mux from the new spec (mux.reload is unconditional): after
    the update is applied the runtime routes with the generation built from [new], whatever [old]
    was - i.e. like a runtime that only ever had [new]. *)
Definition rt_generation_after (old new : rt_spec) : rt_spec := new.

(** * Part 6: ObjectRegistry.applyConfig (pkg/supervisor/object.go): one synchronisation round.
    A snapshot maps names to a decodable value or to an undecodable entry ([None]: unknown kind,
    malformed YAML, spec failing validation); such an entry is skipped - the object, if the registry
    has one, stays as it is - and everything else in the round is processed. *)
Inductive reg_ev := RNone | RCreate (v : string) | RUpdate (v : string) | RDelete.

Definition reg_event (ents : list (string * string)) (snap : list (string * option string)) (n : string) : reg_ev :=
  match slookup n snap with
  | None => match slookup n ents with Some _ => RDelete | None => RNone end
  | Some None => RNone
  | Some (Some v) =>
      match slookup n ents with
      | None => RCreate v
      | Some v0 => if String.eqb v0 v then RNone else RUpdate v
      end
  end.

Definition reg_after (ents : list (string * string)) (snap : list (string * option string)) (n : string) : option string :=
  match slookup n snap with
  | None => None
  | Some None => slookup n ents
  | Some (Some v) => Some v
  end.

(** the snapshot as the registry would see it if the undecodable entries were not there at all *)
Definition reg_healthy (snap : list (string * option string)) : list (string * option string) :=
  filter (fun kv => match snd kv with Some _ => true | None => false end) snap.
