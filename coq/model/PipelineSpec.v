(** Declarative vocabulary of the C02 theorems (definitions only, no proofs):
    named later nodes, the end point of a run, the pieces of
    HandleWithBeforeAfter, declarative validity of a spec. *)
From EG.lib Require Import Base.
From EG.model Require Import Pipeline.
Open Scope string_scope.
Open Scope list_scope.

(** [j] is a filter node (not END) named [t] located after [i] *)
Definition later_named (flow : list node) (i j : nat) (t : string) : Prop :=
  i < j /\ exists nd, nth_error flow j = Some nd /\ is_end nd = false /\ alias_of nd = t.


(** the first filter node named [t] after [i]: every node strictly in between
    (END nodes included) is not a filter node named [t] *)
Definition first_later_named (flow : list node) (i j : nat) (t : string) : Prop :=
  later_named flow i j t /\
  forall m nd, i < m < j -> nth_error flow m = Some nd -> ~ (is_end nd = false /\ alias_of nd = t).


(** [o] ended at position [i + k] of the flow: either an END node was reached
    there (and everything that ran lies before it), or the filter at that
    position ran last and returned a result that is unmapped or mapped to END;
    nothing at a later position ran, and whatever follows that position is
    irrelevant for the outcome. *)
Definition EndPrefix (q : quirks) (res : nat -> string) (l : list node) (i n : nat)
           (rslt next act : string) (o : run) : Prop :=
  exists k nd, nth_error l k = Some nd /\
    ((is_end nd = true /\ Forall (fun v => fst v < i + k) (visits o)) \/
     (is_end nd = false /\ (exists a, In (i + k, a) (visits o)) /\ result o <> "" /\
      (target nd (result o) = "" \/ target nd (result o) = END))) /\
    Forall (fun v => fst v <= i + k) (visits o) /\
    forall tail', loop q res (firstn (S k) l ++ tail') i n rslt next act = o.


Definition side_run (q : quirks) (res : nat -> string) (o : option (list node)) (n : nat) (act : string) : option run :=
  match o with Some b => Some (do_handle q res b n act) | None => None end.
Definition ended (o : option run) : bool := match o with Some r => saw_end r | None => false end.
Definition n_after (o : option run) (n : nat) : nat := match o with Some r => ninv r | None => n end.
Definition act_after (o : option run) (act : string) : string := match o with Some r => active r | None => act end.
Definition res_after (o : option run) (d : string) : string := match o with Some r => result r | None => d end.
Definition tagv_opt (f : nat) (o : option run) : list (nat * nat * string) :=
  match o with Some r => tagv f r | None => [] end.


(** ** declarative validity *)

(** the filter declarations: distinct names, none reserved, each accepted by
    the generic spec validation and of a registered kind *)
Definition ValidDecls (kinds : kinds_t) (ds : list decl) : Prop :=
  NoDup (map dname ds) /\ forall d, In d ds -> decl_ok kinds d = true /\ dname d <> END.

(** a jump target of node [i]: END (provided no later filter node is itself
    named END), or the name of exactly one later filter node *)
Definition ValidJump (flow : list node) (i : nat) (t : string) : Prop :=
  (t = END /\ forall j, ~ later_named flow i j END) \/
  (t <> END /\ exists j, later_named flow i j t /\ forall j', later_named flow i j' t -> j' = j).

(** every filter node names a declared filter; every jumpIf key is a result
    declared by that filter's kind; every target is a valid jump *)
Definition ValidFlow (kinds : kinds_t) (ds : list decl) (flow : list node) : Prop :=
  forall i nd, nth_error flow i = Some nd -> is_end nd = false ->
    exists d rs, In d ds /\ dname d = fname nd /\ alookup (dkind d) kinds = Some rs /\
      forall r t, In (r, t) (jumpif nd) -> In r rs /\ ValidJump flow i t.


(** a flow node that reuses filter [f] under the alias / namespace [an] *)
Definition reuse_node (f : string) (an : string * string) : node :=
  {| fname := f; falias := fst an; fns := snd an; jumpif := [] |}.

(** validity of an optional (filters, flow) pair *)
Definition valid_opt (kinds : kinds_t) (o : option (list decl * list node)) : Prop :=
  match o with Some s => validate kinds (fst s) (snd s) = true | None => True end.

(** the quirk flags with the END-alias defect switched on *)
Definition quirky : quirks := {| q_end_alias_target := true |}.

