(** C04 - executable model of pkg/filters/proxy load balancing
    (loadbalance.go, pool.go: createLoadBalancer / useService / doHandle).
    No proofs here (proofs/LBProofs.v).

    Conventions
    - a server list is a [list server]; a selection returns the INDEX of the
      chosen server ([Chosen i]), [NoServer] (Go: nil) or [Panic];
    - nondeterminism is explicit: the round-robin ticket (value returned by the
      atomic fetch-add), the draw returned by [rand.Intn], the hash key
      ([req.RealIP()] / [Header.Get key]) are fields of [sel];
    - quirk flags: one boolean per defect site of the pinned code. *)
From EG.lib Require Import Base.
Open Scope Z_scope.

Record quirks := { q_wr_zero_total_panics : bool }.
Definition ideal : quirks := {| q_wr_zero_total_panics := false |}.

Inductive policy := RoundRobin | Random | WeightedRandom | IPHash | HeaderHash.

(** NewLoadBalancer: "" and unknown policies fall back to round robin *)
Definition policy_of_string (s : string) : policy :=
  if String.eqb s "random" then Random
  else if String.eqb s "weightedRandom" then WeightedRandom
  else if String.eqb s "ipHash" then IPHash
  else if String.eqb s "headerHash" then HeaderHash
  else RoundRobin.

Record server := { s_url : string; s_w : Z }.

Inductive outcome := Chosen (i : Z) | NoServer | Panic.

(** what one selection consumes from its environment *)
Record sel := { tk : Z;      (* round robin: counter value before the atomic add, 0 <= tk < 2^64 *)
                dr : Z;      (* random policies: value returned by rand.Intn *)
                ky : string  (* hash policies: RealIP / header value *) }.

(** ** FNV-1 32 bit (hash/fnv New32: multiply, then xor) *)
Definition fnv_offset32 : N := 2166136261%N.
Definition fnv_prime32 : N := 16777619%N.
Definition two32 : N := 4294967296%N.

Fixpoint fnv32_from (h : N) (s : string) : N :=
  match s with
  | EmptyString => h
  | String c t => fnv32_from (N.lxor ((h * fnv_prime32) mod two32) (N_of_ascii c)) t
  end.
Definition fnv32 (s : string) : N := fnv32_from fnv_offset32 s.

(** ** round robin: [lb.Servers[int(counter) % len(lb.Servers)]]
    [counter] is a uint64, [int] is 64 bit two's complement, [%] truncates. *)
Definition two63 : Z := 9223372036854775808.
Definition two64 : Z := 18446744073709551616.
Definition to_int64 (c : Z) : Z := if c <? two63 then c else c - two64.

Definition rr_choose (c n : Z) : outcome :=
  let m := Z.rem (to_int64 c) n in
  if m <? 0 then Panic (* index out of range *) else Chosen m.

(** the plain index function of the claimed domain (tickets below 2^63) *)
Definition rr (n c : Z) : Z := c mod n.

(** ** weighted random: subtract weights until the running value is negative *)
Definition total (ws : list Z) : Z := fold_right Z.add 0 ws.

Fixpoint wr_loop (ws : list Z) (r : Z) (i : Z) : outcome :=
  match ws with
  | [] => Panic (* "BUG: should not run to here" *)
  | w :: t => if r - w <? 0 then Chosen i else wr_loop t (r - w) (i + 1)
  end.

Definition wr_choose (q : quirks) (ws : list Z) (r : Z) : outcome :=
  if total ws <=? 0 then
    (* rand.Intn(totalWeight) panics for totalWeight <= 0; repaired code: uniform choice *)
    (if q_wr_zero_total_panics q then Panic else Chosen r)
  else wr_loop ws r 0.

Definition hash_choose (n : Z) (k : string) : outcome := Chosen (Z.of_N (fnv32 k) mod n).

Definition weights (l : list server) : list Z := map s_w l.

Definition choose (q : quirks) (p : policy) (l : list server) (x : sel) : outcome :=
  let n := Z.of_nat (List.length l) in
  if n =? 0 then NoServer else
  match p with
  | RoundRobin => rr_choose (tk x) n
  | Random => Chosen (dr x)
  | WeightedRandom => wr_choose q (weights l) (dr x)
  | IPHash | HeaderHash => hash_choose n (ky x)
  end.

(** the environment respects the contracts of atomic.AddUint64 / rand.Intn *)
Definition draw_bound (p : policy) (l : list server) : Z :=
  match p with
  | Random => Z.of_nat (List.length l)
  | WeightedRandom => if total (weights l) <=? 0 then Z.of_nat (List.length l) else total (weights l)
  | _ => 1
  end.

Definition sel_ok (p : policy) (l : list server) (x : sel) : Prop :=
  0 <= tk x < two63 /\ 0 <= dr x < draw_bound p l.

(** ** a sequence of selections on one balancer: the j-th selection gets ticket (c0 + j) mod 2^64 *)
Fixpoint run_lb (q : quirks) (p : policy) (l : list server) (c : Z) (xs : list (Z * string)) : list outcome :=
  match xs with
  | [] => []
  | (d, k) :: t => choose q p l {| tk := c; dr := d; ky := k |} :: run_lb q p l ((c + 1) mod two64) t
  end.

(** tickets handed out by k atomic fetch-adds starting from c0 *)
Fixpoint tickets (c0 : Z) (k : nat) : list Z :=
  match k with
  | O => []
  | S k' => c0 :: tickets (c0 + 1) k'
  end.

(** how often index i is chosen by a list of indices *)
Definition count (i : Z) (l : list Z) : Z := Z.of_nat (List.length (filter (Z.eqb i) l)).

(** the indices from, from+1, ..., from+n-1 *)
Fixpoint zseq (from : Z) (n : nat) : list Z :=
  match n with O => [] | S n' => from :: zseq (from + 1) n' end.

(** closed form: number of tickets c in [c0, c0+k) with c mod n = i *)
Definition upto (n i m : Z) : Z := (m - i + n - 1) / n.
Definition rr_count (n c0 k i : Z) : Z := upto n i (c0 + k) - upto n i c0.

(** ** concurrent selectors on one round-robin balancer.
    A schedule is the order in which goroutines perform their atomic add; the
    run gives every goroutine the ticket it obtained. *)
Fixpoint run_sched (c : Z) (sched : list nat) : list (nat * Z) :=
  match sched with
  | [] => []
  | g :: t => (g, c) :: run_sched (c + 1) t
  end.

(** ** the pool's current list (pool.go useService / createLoadBalancer) *)
Record instance := { i_url : string; i_tags : list string; i_w : Z }.

Definition str_in (s : string) (l : list string) : bool := existsb (String.eqb s) l.
Definition has_tag (tags : list string) (i : instance) : bool := existsb (fun t => str_in t (i_tags i)) tags.
Definition inst_server (i : instance) : server := {| s_url := i_url i; s_w := i_w i |}.
Definition tagged (tags : list string) (insts : list instance) : list server :=
  map inst_server (filter (has_tag tags) insts).
Definition pool_list (static tg : list server) : list server :=
  match tg with [] => static | _ => tg end.

(** ** validation: JSON schema of Server/LoadBalanceSpec + ServerPoolSpec.Validate.
    The schema generated from [Weight int `jsonschema:"minimum=0,maximum=100"`] enforces only
    the maximum (a zero minimum is dropped by the schema library): negative weights are accepted. *)
Record pool_spec := { ps_policy : string; ps_static : list server; ps_service : bool; ps_tags : list string }.

Definition policy_enum (s : string) : bool :=
  str_in s [""; "roundRobin"; "random"; "weightedRandom"; "ipHash"; "headerHash"]%string.

Definition count_pos (ws : list Z) : Z := Z.of_nat (List.length (filter (fun w => 0 <? w) ws)).

(** ServerPoolSpec.Validate *)
Definition validate_go (service : bool) (ws : list Z) : bool :=
  (service || negb (Nat.eqb (List.length ws) 0)) &&
  ((count_pos ws =? 0) || (count_pos ws =? Z.of_nat (List.length ws))).

Definition validate (s : pool_spec) : bool :=
  policy_enum (ps_policy s) &&
  forallb (fun w => w <=? 100) (weights (ps_static s)) &&
  validate_go (ps_service s) (weights (ps_static s)).

(** ** the pool as a state machine (sequential view): current list + round-robin counter *)
Record pstate := { cur : list server; ctr : Z }.

Inductive pool_op :=
| PUse (lst : list server)            (* the list useService installed (a permutation chosen by map order) *)
| PReq (d : Z) (k : string).

Definition pool_step (q : quirks) (p : policy) (st : pstate) (op : pool_op) : pstate * option outcome :=
  match op with
  | PUse lst => ({| cur := lst; ctr := 0 |}, None)
  | PReq d k => ({| cur := cur st; ctr := (ctr st + 1) mod two64 |},
                 Some (choose q p (cur st) {| tk := ctr st; dr := d; ky := k |}))
  end.

Fixpoint pool_run (q : quirks) (p : policy) (st : pstate) (ops : list pool_op) : list (option outcome) :=
  match ops with
  | [] => []
  | op :: t => let '(st', o) := pool_step q p st op in o :: pool_run q p st' t
  end.

(** ** list replacement concurrent with selection.
    [sp.LoadBalancer()] is an atomic load of an immutable balancer; a selection is
    Load followed by Choose on the loaded balancer.  Balancers are numbered in the
    order of their creation; each has its own counter. *)
Inductive cev :=
| CReplace (l : list server)
| CLoad (g : nat)
| CChoose (g : nat) (d : Z) (k : string).

Record cstate := { lbs : list (list server * Z);   (* all balancers created so far: list, counter *)
                   curlb : nat;                     (* index of the current one *)
                   regs : list (nat * nat) }.       (* goroutine -> loaded balancer *)

Fixpoint reg_get (g : nat) (r : list (nat * nat)) : option nat :=
  match r with
  | [] => None
  | (g', b) :: t => if Nat.eqb g g' then Some b else reg_get g t
  end.

Fixpoint bump (b : nat) (l : list (list server * Z)) : list (list server * Z) :=
  match l, b with
  | [], _ => []
  | (s, c) :: t, O => (s, (c + 1) mod two64) :: t
  | x :: t, S b' => x :: bump b' t
  end.

(** result of a CChoose: the balancer it ran on and the outcome *)
Definition cstep (q : quirks) (p : policy) (st : cstate) (e : cev) : cstate * option (nat * outcome) :=
  match e with
  | CReplace l => ({| lbs := lbs st ++ [(l, 0)]; curlb := List.length (lbs st); regs := regs st |}, None)
  | CLoad g => ({| lbs := lbs st; curlb := curlb st; regs := (g, curlb st) :: regs st |}, None)
  | CChoose g d k =>
      match reg_get g (regs st) with
      | None => (st, None)
      | Some b =>
          match nth_error (lbs st) b with
          | None => (st, None)
          | Some (l, c) =>
              ({| lbs := bump b (lbs st); curlb := curlb st; regs := regs st |},
               Some (b, choose q p l {| tk := c; dr := d; ky := k |}))
          end
      end
  end.

Fixpoint crun (q : quirks) (p : policy) (st : cstate) (es : list cev) : list (option (nat * outcome)) * cstate :=
  match es with
  | [] => ([], st)
  | e :: t => let '(st', o) := cstep q p st e in
              let '(os, fin) := crun q p st' t in (o :: os, fin)
  end.

Definition cinit (l : list server) : cstate := {| lbs := [(l, 0)]; curlb := 0%nat; regs := [] |}.

(** ** service discovery reports (pool.go watchServers): the initial listing, the priming event
    of the new watcher and every later event each carry the complete instance set and are
    applied by useService in the order of their delivery; the pool's list after a sequence of
    reports (none: the static list installed by createLoadBalancer) *)
Definition watch_list (static : list server) (tags : list string) (reports : list (list instance)) : list server :=
  fold_left (fun _ r => pool_list static (tagged tags r)) reports static.

(** ** a retried request: every attempt is Load followed by Choose (doHandle) *)
Definition attempt (g : nat) (d : Z) (k : string) : list cev := [CLoad g; CChoose g d k].

(** ** one request passing through several balancers (mirror pool next to the main pool, several
    Proxy filters of one pipeline).  A stage is (policy, hash header, list); the key a stage
    extracts from the request is its client address (ipHash) or the value of ITS header
    (headerHash).  A stage's choice is [choose] on its own key and list: nothing else carried by
    the request (what earlier stages hashed, computed or chose) takes part. *)
Record hreq := { q_ip : string; q_hdr : string -> string }.

Definition stage_key (p : policy) (hkey : string) (r : hreq) : string :=
  match p with
  | IPHash => q_ip r
  | HeaderHash => q_hdr r hkey
  | _ => ""%string
  end.

Definition stage := (policy * string * list server)%type.

(** [envs] = per stage the counter ticket and the random draw that stage consumes *)
Fixpoint chain_run (q : quirks) (stages : list stage) (r : hreq) (envs : list (Z * Z)) : list outcome :=
  match stages, envs with
  | (p, hk, l) :: st', (t, d) :: en' =>
      choose q p l {| tk := t; dr := d; ky := stage_key p hk r |} :: chain_run q st' r en'
  | _, _ => []
  end.

(** ** generations of a pool watching the same service (pipeline update: the new generation's
    pool subscribes BEFORE the old generation's pool stops its watcher).
    The registry keeps its service watchers in a map keyed by watcher id; a watcher's stop
    function removes the entry with ITS id.  The id a subscription obtains is explicit in the
    event ([uuid.NewString()] in the code: never issued twice). *)
Inductive wev :=
| WSub (g : nat) (id : nat) (listing : list instance)   (* generation g subscribes, gets id, is primed with the current listing *)
| WStop (g : nat)                                      (* generation g stops its watcher *)
| WReport (r : list instance).                         (* the registry reports the service's instances *)

Record rstate := { subs : list (nat * nat);   (* id -> generation whose watcher is registered under it *)
                   held : list (nat * nat) }. (* generation -> the id its stop function will delete *)

Fixpoint nlookup (k : nat) (l : list (nat * nat)) : option nat :=
  match l with
  | [] => None
  | (k', v) :: t => if Nat.eqb k k' then Some v else nlookup k t
  end.

Definition drop_id (id : nat) (l : list (nat * nat)) : list (nat * nat) :=
  filter (fun x => negb (Nat.eqb (fst x) id)) l.

(** one event: new state and the deliveries (generation, report) it causes *)
Definition rstep (st : rstate) (e : wev) : rstate * list (nat * list instance) :=
  match e with
  | WSub g id l => ({| subs := (id, g) :: drop_id id (subs st); held := (g, id) :: held st |}, [(g, l)])
  | WStop g => match nlookup g (held st) with
               | Some id => ({| subs := drop_id id (subs st); held := held st |}, [])
               | None => (st, [])
               end
  | WReport r => (st, map (fun x => (snd x, r)) (subs st))
  end.

Definition rfinal (st : rstate) (evs : list wev) : rstate := fold_left (fun s e => fst (rstep s e)) evs st.
Definition rinit : rstate := {| subs := []; held := [] |}.
