(** Case types and per-case check functions for C05 (evaluated by vm_compute on
    the traces of the real code).  Result: (corr, prop, class, attributed-flag).

    Group [ipf]  (pkg/util/ipfilter): filters built by ipfilter.New from entry
      strings, IPFilter.Allow / IPFilters.Allow on client strings.
      - corr : [allow]/[chain_allow] of the pinned model = the observed answers,
               and the model's [contains] (ideal) = net.IPNet.Contains on every
               parsed (entry, client) pair;
      - prop : the observed answers = the decision table applied to the
               memberships computed by Go's net.IPNet.Contains (no model involved).
    Group [mux]  (pkg/object/httpserver): one server (filters at the 3 levels),
      one request sequence served by three instances: cache on, cache off, and the
      twin with all filters erased (cache off).
      - corr : the pinned mini-router model = the observed (status, backend) lists
               (a denied request for which no route exists is compared as "some 4xx":
               the property does not distinguish 403 from 404/405 there);
      - prop : on the observed lists only: denied (by an applying filter, decided
               by the ideal IPFilter model on the parsed addresses) -> 4xx, no
               handler, 403 when the twin found a route; not denied -> equals the twin.

    The quirk record [pinned] comes from the open known findings and is supplied by
    the run header; every check function takes it as first argument. *)
From EG.lib Require Import Base.
From EG.model Require Import IPFilter.
Open Scope N_scope.

Definition result := (bool * bool * N * N)%type.

Definition bN (b : bool) (n : N) : N := if b then n else 0.
Definition b2n (b : bool) : N := if b then 1 else 0.

Definition Neqb_pair (a b : N * N) : bool := (fst a =? fst b) && (snd a =? snd b).

Fixpoint somes {A} (l : list (option A)) : list A :=
  match l with
  | [] => []
  | Some x :: t => x :: somes t
  | None :: t => somes t
  end.

(** * group ipf *)

Record fspec_case := {
  fc_default : bool;
  fc_allow : list (option entry);    (* None = string rejected by ParseIP and ParseCIDR (skipped by New) *)
  fc_block : list (option entry);
  fc_std_allow : list (list bool);   (* [entry][client] = net.IPNet.Contains; all false for rejected entries / clients *)
  fc_std_block : list (list bool);
  fc_obs : list N                    (* per client: 0 denied, 1 allowed, 2 panic *)
}.

Record ipf_case := {
  ic_filters : list fspec_case;
  ic_clients : list (option addr);
  ic_chain : list N                  (* IPFilters.Allow over all filters, per client *)
}.

Definition mk_ipf (fc : fspec_case) : ipf :=
  {| f_block_default := fc_default fc; f_allow := somes (fc_allow fc); f_block := somes (fc_block fc) |}.

Definition col (j : nat) (rows : list (list bool)) : bool :=
  existsb (fun row => nth j row false) rows.

(** expected answer from the stdlib memberships: the decision table of the property *)
Definition expected_std (fc : fspec_case) (j : nat) (c : option addr) : bool :=
  match c with
  | None => negb (fc_default fc)
  | Some _ => decide (fc_default fc) (col j (fc_std_allow fc)) (col j (fc_std_block fc))
  end.

Definition indexed {A} (l : list A) : list (nat * A) := combine (seq 0 (List.length l)) l.

Definition expected_list (fc : fspec_case) (cl : list (option addr)) : list N :=
  map (fun '(j, c) => b2n (expected_std fc j c)) (indexed cl).

Definition expected_chain (fcs : list fspec_case) (cl : list (option addr)) : list N :=
  map (fun '(j, c) => b2n (forallb (fun fc => expected_std fc j c) fcs)) (indexed cl).

Definition model_list (q : quirks) (fc : fspec_case) (cl : list (option addr)) : list N :=
  map (fun c => b2n (allow q (mk_ipf fc) c)) cl.

Definition model_chain (q : quirks) (fcs : list fspec_case) (cl : list (option addr)) : list N :=
  map (fun c => b2n (chain_allow q (map mk_ipf fcs) c)) cl.

(** model [contains] against net.IPNet.Contains *)
Definition row_agrees (oe : option entry) (row : list bool) (cl : list (option addr)) : bool :=
  Nat.eqb (List.length row) (List.length cl) &&
  forallb (fun '(j, c) =>
             Bool.eqb (nth j row false)
                      (match oe, c with Some e, Some a => contains e a | _, _ => false end))
          (indexed cl).

Fixpoint rows_agree (es : list (option entry)) (rows : list (list bool)) (cl : list (option addr)) : bool :=
  match es, rows with
  | [], [] => true
  | e :: et, r :: rt => row_agrees e r cl && rows_agree et rt cl
  | _, _ => false
  end.

Definition prop_ipf (c : ipf_case) : bool :=
  forallb (fun fc => list_eqb N.eqb (fc_obs fc) (expected_list fc (ic_clients c))) (ic_filters c) &&
  list_eqb N.eqb (ic_chain c) (expected_chain (ic_filters c) (ic_clients c)).

Definition model_matches (q : quirks) (c : ipf_case) : bool :=
  forallb (fun fc => list_eqb N.eqb (fc_obs fc) (model_list q fc (ic_clients c))) (ic_filters c) &&
  list_eqb N.eqb (ic_chain c) (model_chain q (ic_filters c) (ic_clients c)).

Definition model_ideal_expected (c : ipf_case) : bool :=
  forallb (fun fc => list_eqb N.eqb (model_list ideal fc (ic_clients c)) (expected_list fc (ic_clients c)))
          (ic_filters c) &&
  list_eqb N.eqb (model_chain ideal (ic_filters c) (ic_clients c)) (expected_chain (ic_filters c) (ic_clients c)).

Definition std_agrees (c : ipf_case) : bool :=
  forallb (fun fc => rows_agree (fc_allow fc) (fc_std_allow fc) (ic_clients c) &&
                     rows_agree (fc_block fc) (fc_std_block fc) (ic_clients c)) (ic_filters c).

Definition all_entries (c : ipf_case) : list entry :=
  flat_map (fun fc => somes (fc_allow fc) ++ somes (fc_block fc)) (ic_filters c).

Definition is_v6 (a : option addr) : bool :=
  match a with Some {| a_fam := V6 |} => true | _ => false end.

Definition class_ipf (c : ipf_case) : N :=
  match ic_clients c, ic_filters c with
  | [], _ | _, [] => 0
  | cl, fcs =>
      let obs := flat_map fc_obs fcs in
      let both := existsb (fun fc => existsb (fun '(j, _) => col j (fc_std_allow fc) && col j (fc_std_block fc))
                                             (indexed cl)) fcs in
      1 + bN (existsb is_v6 cl) 1
        + bN (existsb (N.eqb 0) obs && existsb (N.eqb 1) obs) 2
        + bN both 4
        + bN (existsb (fun a => match a with None => true | _ => false end) cl) 8
        + bN (existsb e_mapped (all_entries c)) 16
        + bN (negb (Nat.eqb (List.length fcs) 1)) 32
        + bN (existsb (fun e => negb (e_len e =? fam_bits (e_fam e))) (all_entries c)) 64
  end.

Definition check_ipf (pinned : quirks) (c : ipf_case) : result :=
  let corr := model_matches pinned c && std_agrees c in
  let prop := prop_ipf c in
  let attrib :=
    if negb prop && corr && q_mapped_entry_dead pinned && model_ideal_expected c then 51 else 0 in
  (corr, prop, class_ipf c, attrib).

Definition explain_ipf (pinned : quirks) (c : ipf_case) :=
  (map (fun fc => (model_list pinned fc (ic_clients c), expected_list fc (ic_clients c))) (ic_filters c),
   model_chain pinned (ic_filters c) (ic_clients c), std_agrees c).

(** * group mux *)

Record mux_case := {
  mc_gens : list mserver;            (* generation 0 = the initial spec; reload steps name a generation *)
  mc_steps : list mstep;             (* rq_hit = cache.Contains(key) observed on the cached instance *)
  mc_obs_on : list (N * N);          (* (status, backend id invoked or 0), instance with cacheSize > 0 *)
  mc_obs_off : list (N * N);         (* same server, cacheSize 0 *)
  mc_obs_twin : list (N * N)         (* all filters erased, cacheSize 0 *)
}.

Definition mc_server (c : mux_case) : mserver := nth 0 (mc_gens c) {| ms_filter := None; ms_rules := [] |}.
Definition mc_reqs (c : mux_case) : list mreq := map snd (mc_steps c).
Definition mc_cur (c : mux_case) : list mserver := servers_of (mc_gens c) (mc_server c) (mc_steps c).

Definition is4xx (c : N) : bool := (400 <=? c) && (c <? 500).

(** the twin found a route: handler invoked (200) or backend missing (503) *)
Definition route_exists (t : N * N) : bool := (fst t =? 200) || (fst t =? 503).

Fixpoint wf_bits (rules : list mrule) (m : list (bool * list pbits)) : bool :=
  match rules, m with
  | [], [] => true
  | r :: rt, (_, pbs) :: mt => Nat.eqb (List.length (mr_paths r)) (List.length pbs) && wf_bits rt mt
  | _, _ => false
  end.

(** projected comparison of one (status, backend) observable *)
Definition obs_agree (d : bool) (twin m o : N * N) : bool :=
  if d && negb (route_exists twin)
  then is4xx (fst m) && is4xx (fst o) && (snd m =? 0) && (snd o =? 0)
  else Neqb_pair m o.

Fixpoint obs_agree_all (ds : list bool) (tw ms os : list (N * N)) : bool :=
  match ds, tw, ms, os with
  | [], [], [], [] => true
  | d :: ds', t :: tw', m :: ms', o :: os' => obs_agree d t m o && obs_agree_all ds' tw' ms' os'
  | _, _, _, _ => false
  end.

(** the property on one observed outcome *)
Definition prop_one (d : bool) (twin o : N * N) : bool :=
  if d then is4xx (fst o) && (snd o =? 0) && (if route_exists twin then fst o =? 403 else true)
  else Neqb_pair o twin.

Fixpoint prop_all (ds : list bool) (tw os : list (N * N)) : bool :=
  match ds, tw, os with
  | [], [], [] => true
  | d :: ds', t :: tw', o :: os' => prop_one d t o && prop_all ds' tw' os'
  | _, _, _ => false
  end.

Definition denied_list (c : mux_case) : list bool :=
  map (fun '(s, r) => denied ideal s r) (combine (mc_cur c) (mc_reqs c)).

Definition prop_mux (c : mux_case) : bool :=
  let ds := denied_list c in
  prop_all ds (mc_obs_twin c) (mc_obs_on c) && prop_all ds (mc_obs_twin c) (mc_obs_off c).

Definition with_hit_flag (q : quirks) (b : bool) : quirks :=
  {| q_mapped_entry_dead := q_mapped_entry_dead q; q_hit_skips_visited_rules := b |}.

Definition has_reload (c : mux_case) : bool :=
  existsb (fun st => match fst st with Some _ => true | None => false end) (mc_steps c).

(** a request denied right after a reload on a key that was cached before the reload *)
Fixpoint denied_after_reload (ds : list bool) (steps : list mstep) (seen : list N) (armed : list N) : bool :=
  match ds, steps with
  | d :: ds', (rl, r) :: t =>
      let armed' := match rl with Some _ => seen ++ armed | None => armed end in
      (d && existsb (N.eqb (rq_key r)) armed') ||
      denied_after_reload ds' t (rq_key r :: seen) armed'
  | _, _ => false
  end.

Definition class_mux (c : mux_case) : N :=
  match mc_reqs c with
  | [] => 0
  | rs =>
      let ds := denied_list c in
      let dh := existsb (fun '(d, r) => d && rq_hit r) (combine ds rs) in
      let dr := existsb (fun '(d, t) => d && route_exists t) (combine ds (mc_obs_twin c)) in
      let dn := existsb (fun '(d, t) => d && negb (route_exists t)) (combine ds (mc_obs_twin c)) in
      1 + bN (existsb id ds) 1 + bN (existsb rq_hit rs) 2 + bN dh 4 + bN dr 8 + bN dn 16
        + bN (existsb (fun t => snd t =? 0) (mc_obs_twin c) && existsb (fun t => negb (snd t =? 0)) (mc_obs_twin c)) 32
        + bN (has_reload c) 64 + bN (denied_after_reload ds (mc_steps c) [] []) 128
  end.

Definition model_off (q : quirks) (c : mux_case) : list (N * N) :=
  map (fun '(s, r) => serve s (search_nocache q s r)) (combine (mc_cur c) (mc_reqs c)).

Definition model_twin (q : quirks) (c : mux_case) : list (N * N) :=
  map (fun '(s, r) => serve (erase s) (search_nocache q (erase s) r)) (combine (mc_cur c) (mc_reqs c)).

Definition model_on (q : quirks) (c : mux_case) : list (N * N) :=
  run_steps q (mc_gens c) (mc_server c) [] (mc_steps c).

Definition check_mux (pinned : quirks) (c : mux_case) : result :=
  let ds := denied_list c in
  let tw := mc_obs_twin c in
  let wf := forallb (fun '(s, r) => wf_bits (ms_rules s) (rq_m r)) (combine (mc_cur c) (mc_reqs c)) &&
            negb (Nat.eqb (List.length (mc_gens c)) 0) in
  let corr :=
    wf &&
    list_eqb Neqb_pair (model_twin pinned c) tw &&
    obs_agree_all ds tw (model_off pinned c) (mc_obs_off c) &&
    obs_agree_all ds tw (model_on pinned c) (mc_obs_on c) in
  let prop := prop_mux c in
  let off := with_hit_flag pinned false in
  let attrib :=
    if negb prop && corr && q_hit_skips_visited_rules pinned &&
       prop_all ds tw (model_on off c) && prop_all ds tw (model_off off c)
    then 52 else 0 in
  (corr, prop, class_mux c, attrib).

Definition explain_mux (pinned : quirks) (c : mux_case) :=
  (* (denied per request, cache on, cache off, erased twin) *)
  (denied_list c, model_on pinned c, model_off pinned c, model_twin pinned c).
