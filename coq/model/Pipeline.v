(** Executable model of easegress' pipeline flow (C02).

    - [loop] / [do_handle]   : pkg/object/pipeline/pipeline.go  Pipeline.doHandle
                               (the [next] / alias skipping, END, JumpIf lookup,
                               ctx.UseNamespace per node)
    - [hba]                  : Pipeline.HandleWithBeforeAfter (GlobalFilter.Handle
                               passes its before/after pipelines to it)
    - [validate]             : Spec.Validate / Spec.ValidateJumpIf
    - [eff_flow]             : the flow that [reload] builds when the spec has none
    - [next_spec], [RefWalk] : the DECLARATIVE reference (successor function and
                               its iteration) that the theorems relate [loop] to.

    Filter results are scripted by an oracle [res : nat -> string] indexed by
    the invocation number, so quantifying over [res] covers every assignment of
    results to filter invocations.  The kind registry ([Kind.Results]) is the
    table [kinds].  No proofs here. *)
From EG.lib Require Import Base.
Open Scope string_scope.

Notation "a =s b" := (String.eqb a b) (at level 70, no associativity).

(** one flow node: [FlowNode{FilterName, FilterAlias, Namespace, JumpIf}] *)
Record node := { fname : string; falias : string; fns : string; jumpif : list (string * string) }.

Definition END : string := "END".            (* BuiltInFilterEnd *)
Definition DEFAULT_NS : string := "DEFAULT". (* context.DefaultNamespace *)

Definition is_end (nd : node) : bool := fname nd =s END.
(** FlowNode.filterAlias *)
Definition alias_of (nd : node) : string := if falias nd =s "" then fname nd else falias nd.
(** Context.UseNamespace *)
Definition eff_ns (nd : node) : string := if fns nd =s "" then DEFAULT_NS else fns nd.
(** Go map lookup [node.JumpIf[result]] (missing key = "") *)
Definition target (nd : node) (r : string) : string :=
  match alookup r (jumpif nd) with Some t => t | None => "" end.

(** ** Quirk flags (DESIGN section 5): one boolean per defect site of the real code.

    [q_end_alias_target]: doHandle compares the pending jump target with
    [node.filterAlias()] also for END nodes, so an END node that carries an
    explicit [alias] is a jump target at run time, whereas ValidateJumpIf
    ignores END nodes when it counts the candidate targets. *)
Record quirks := { q_end_alias_target : bool }.
Definition ideal : quirks := {| q_end_alias_target := false |}.

(** the name under which the run-time loop recognises a node as a jump target *)
Definition run_alias (q : quirks) (nd : node) : string :=
  if is_end nd && negb (q_end_alias_target q) then END else alias_of nd.

(** ** The Go loop, transcribed *)

(** outcome of one [doHandle]: visited (node index, namespace active when the
    filter ran), returned result, sawEnd, next invocation number, the pending
    [next] when the loop stopped, active namespace afterwards *)
Record run := {
  visits : list (nat * string);
  result : string;
  saw_end : bool;
  ninv : nat;
  pending : string;
  active : string }.

Definition visit (v : nat * string) (o : run) : run :=
  {| visits := v :: visits o; result := result o; saw_end := saw_end o;
     ninv := ninv o; pending := pending o; active := active o |}.

Definition stop (r : string) (e : bool) (n : nat) (nx act : string) : run :=
  {| visits := []; result := r; saw_end := e; ninv := n; pending := nx; active := act |}.

(** [loop q res l i n result next act]: the remaining nodes [l] start at index
    [i]; [n] filter invocations happened so far; [result]/[next] are the Go
    locals; [act] is ctx.activeNs. *)
Fixpoint loop (q : quirks) (res : nat -> string) (l : list node) (i n : nat)
         (rslt next act : string) : run :=
  match l with
  | [] => stop rslt false n next act
  | nd :: tl =>
      if negb (next =s "") && negb (next =s run_alias q nd) then
        loop q res tl (S i) n rslt next act                          (* continue *)
      else if is_end nd then stop rslt true n next act               (* sawEnd; break *)
      else
        let act' := eff_ns nd in                                     (* ctx.UseNamespace *)
        let r := res n in                                            (* node.filter.Handle *)
        if r =s "" then visit (i, act') (loop q res tl (S i) (S n) r "" act')
        else
          let nx := target nd r in
          if (nx =s "") || (nx =s END) then visit (i, act') (stop r true (S n) nx act')
          else visit (i, act') (loop q res tl (S i) (S n) r nx act')
  end.

Definition do_handle (q : quirks) (res : nat -> string) (flow : list node) (n : nat) (act : string) : run :=
  loop q res flow 0 n "" "" act.

(** ** HandleWithBeforeAfter: visits are tagged 0 = before, 1 = main, 2 = after *)
Record hrun := {
  hvisits : list (nat * nat * string);
  hresult : string;
  hsaw_end : bool;
  hninv : nat }.

Definition tagv (f : nat) (o : run) : list (nat * nat * string) :=
  map (fun v => (f, fst v, snd v)) (visits o).

Definition hba (q : quirks) (res : nat -> string) (before : option (list node)) (main : list node)
           (after : option (list node)) (n : nat) (act : string) : hrun :=
  (* result, sawEnd := "", false;  if before != nil { ... = doHandle(before.flow) } *)
  let s0 := match before with
            | Some b => let o := do_handle q res b n act in
                        (tagv 0 o, result o, saw_end o, ninv o, active o)
            | None => ([], "", false, n, act)
            end in
  let '(v0, r0, e0, n0, a0) := s0 in
  (* if !sawEnd { ... = doHandle(p.flow) } *)
  let s1 := if e0 then s0 else
              let o := do_handle q res main n0 a0 in
              ((v0 ++ tagv 1 o)%list, result o, saw_end o, ninv o, active o) in
  let '(v1, r1, e1, n1, a1) := s1 in
  (* if !sawEnd && after != nil { ... = doHandle(after.flow) } *)
  let s2 := if e1 then s1 else
              match after with
              | Some a => let o := do_handle q res a n1 a1 in
                          ((v1 ++ tagv 2 o)%list, result o, saw_end o, ninv o, active o)
              | None => s1
              end in
  let '(v2, r2, e2, n2, _) := s2 in
  {| hvisits := v2; hresult := r2; hsaw_end := e2; hninv := n2 |}.

(** ** Validation *)

(** one entry of [Spec.Filters]: name, kind, and [dwf] = the oracle bit "the
    generic meta validation of filters.NewSpec (name/kind required, urlname
    format) accepts it", computed by the harness with the real library *)
Record decl := { dname : string; dkind : string; dwf : bool }.

(** the kind registry: kind name -> Kind.Results *)
Definition kinds_t := list (string * list string).

Definition mem (s : string) (l : list string) : bool := existsb (String.eqb s) l.

Definition decl_ok (kinds : kinds_t) (d : decl) : bool :=
  dwf d && match alookup (dkind d) kinds with Some _ => true | None => false end.

(** step 1 of Spec.Validate: NewSpec ok, not built-in, not duplicated *)
Fixpoint validate_decls (kinds : kinds_t) (seen : list string) (ds : list decl) : bool :=
  match ds with
  | [] => true
  | d :: t => decl_ok kinds d && negb (dname d =s END) && negb (mem (dname d) seen)
              && validate_decls kinds (dname d :: seen) t
  end.

Fixpoint find_decl (name : string) (ds : list decl) : option decl :=
  match ds with
  | [] => None
  | d :: t => if name =s dname d then Some d else find_decl name t
  end.

(** [filters.GetKind(specs[name].Kind()).Results] *)
Definition results_of (kinds : kinds_t) (ds : list decl) (name : string) : option (list string) :=
  match find_decl name ds with
  | Some d => alookup (dkind d) kinds
  | None => None
  end.

(** [validTargets[t]] when the backward scan of ValidateJumpIf reaches a node
    whose successors are [later] *)
Definition is_target (t : string) (nd : node) : bool := negb (is_end nd) && (alias_of nd =s t).
Definition count_targets (t : string) (later : list node) : nat :=
  (if t =s END then 1 else 0) + List.length (filter (is_target t) later).

Definition jump_ok (rs : list string) (later : list node) (rt : string * string) : bool :=
  mem (fst rt) rs && Nat.eqb (count_targets (snd rt) later) 1.

Fixpoint validate_flow (kinds : kinds_t) (ds : list decl) (l : list node) : bool :=
  match l with
  | [] => true
  | nd :: tl =>
      validate_flow kinds ds tl &&
      (is_end nd ||
       match results_of kinds ds (fname nd) with
       | None => false                                   (* filter not found *)
       | Some rs => forallb (jump_ok rs tl) (jumpif nd)
       end)
  end.

Definition validate (kinds : kinds_t) (ds : list decl) (flow : list node) : bool :=
  validate_decls kinds [] ds && validate_flow kinds ds flow.

(** the flow [reload] runs: the declared one, or one node per filter *)
Definition auto_node (d : decl) : node := {| fname := dname d; falias := ""; fns := ""; jumpif := [] |}.
Definition eff_flow (ds : list decl) (flow : list node) : list node :=
  match flow with [] => map auto_node ds | _ => flow end.

(** every filter node is bound to an instance ([node.filter != nil]) *)
Definition bindable (ds : list decl) (flow : list node) : bool :=
  forallb (fun nd => is_end nd || match find_decl (fname nd) ds with Some _ => true | None => false end) flow.

(** ** Declarative reference: the successor of a node under a result *)
Inductive succ :=
| SRun (j : nat)     (* the filter of node j runs next *)
| SEnd               (* the pipeline ended (END node reached, result unmapped or mapped to END) *)
| SDone              (* ran past the last node *)
| SFell.             (* a jump whose target does not exist below: loop falls off the end *)

(** arriving at position j *)
Definition arrive (flow : list node) (j : nat) : succ :=
  match nth_error flow j with
  | None => SDone
  | Some nd => if is_end nd then SEnd else SRun j
  end.

Fixpoint find_idx (p : node -> bool) (l : list node) (k : nat) : option nat :=
  match l with
  | [] => None
  | x :: t => if p x then Some k else find_idx p t (S k)
  end.

(** first index >= k whose (run-time) alias is t *)
Definition find_from (q : quirks) (flow : list node) (k : nat) (t : string) : option nat :=
  find_idx (fun nd => run_alias q nd =s t) (skipn k flow) k.

Definition next_spec (q : quirks) (flow : list node) (i : nat) (r : string) : succ :=
  if r =s "" then arrive flow (S i)
  else match nth_error flow i with
       | None => SDone
       | Some nd =>
           let t := target nd r in
           if (t =s "") || (t =s END) then SEnd
           else match find_from q flow (S i) t with
                | Some j => arrive flow j
                | None => SFell
                end
       end.

(** [RefWalk q flow res n s last v r fin n']: starting in status [s] with [n]
    invocations done and [last] the latest result, iterating [next_spec] visits
    exactly the nodes [v], returns [r], stops in the final status [fin] after
    [n'] invocations. *)
Inductive RefWalk (q : quirks) (flow : list node) (res : nat -> string)
  : nat -> succ -> string -> list nat -> string -> succ -> nat -> Prop :=
| RW_stop : forall n s last, (forall j, s <> SRun j) -> RefWalk q flow res n s last [] last s n
| RW_run : forall n j last v r fin n',
    RefWalk q flow res (S n) (next_spec q flow j (res n)) (res n) v r fin n' ->
    RefWalk q flow res n (SRun j) last (j :: v) r fin n'.

(** final status of a run of the Go loop *)
Definition fin_of (o : run) : succ :=
  if saw_end o then SEnd else if pending o =s "" then SDone else SFell.

(** the filter instance a node is bound to: [p.filters[node.FilterName]] *)
Definition bound (ds : list decl) (nd : node) : option string :=
  match find_decl (fname nd) ds with Some d => Some (dname d) | None => None end.
