(** C13 - case type and per-case check function (evaluated by vm_compute on the
    traces of the real code).  Result: (corr, prop, class, attributed-flag).

    - corr : the model ([Schema.v], over the GENERATED schema) reproduces the
             implementation's projected observables: kind known, meta verdict,
             decode error, the normalized document handed to the schema validator,
             schema / format error presence, for the kinds whose Validate() methods
             are modelled also general errors and the final accept/reject, and the
             stage of an escaped panic is one the model allows;
    - prop : accepted -> no panic escaped (implementation's own observables only);
    - class: 0 = did not reach validation; else 1 + 2 * kind index + accepted;
    - attrib: the open known finding that explains a failing [prop]. *)
From EG.lib Require Import Base SchemaTy.
From EG.gen Require Import GenSchema.
From EG.model Require Import Schema.
Open Scope string_scope.
Open Scope Z_scope.

Definition result := (bool * bool * N * N)%type.

Record spec_case := {
  sc_cat : string;
  sc_raw : jvalue;
  sc_orc : orc;
  ob_known : bool; ob_meta : bool; ob_derr : bool;
  ob_norm : option jvalue;
  ob_js : bool; ob_fmt : bool; ob_gen : bool; ob_sys : bool; ob_acc : bool;
  ob_inst : bool;
  ob_panic : N      (* 0 none, 1 create, 2 init, 3 handle, 4 other, 5 crash, 6 hang *)
}.

Definition set_flag (q : quirks) (i : N) (b : bool) : quirks :=
  {| q_wr_zero_total := if (i =? 1)%N then b else q_wr_zero_total q;
     q_rl_zero_period := if (i =? 2)%N then b else q_rl_zero_period q;
     q_sig_no_keystore := if (i =? 3)%N then b else q_sig_no_keystore q;
     q_adaptor_codec := if (i =? 4)%N then b else q_adaptor_codec q;
     q_policy_ref := if (i =? 5)%N then b else q_policy_ref q;
     q_fallback_nil_resp := if (i =? 6)%N then b else q_fallback_nil_resp q;
     q_null_entry := if (i =? 7)%N then b else q_null_entry q;
     q_retry_jitter := if (i =? 8)%N then b else q_retry_jitter q;
     q_builder_template := if (i =? 9)%N then b else q_builder_template q;
     q_topic_index := if (i =? 10)%N then b else q_topic_index q;
     q_flow_namespace := if (i =? 11)%N then b else q_flow_namespace q;
     q_stream_compress := if (i =? 12)%N then b else q_stream_compress q;
     q_mqtt_rules := if (i =? 13)%N then b else q_mqtt_rules q |}.

(** the run-time flags switched off *)
Definition rt_off (q : quirks) : quirks := set_flag (set_flag (set_flag q 1 false) 6 false) 12 false.

Definition stage_init (p : N) : bool := ((p =? 1) || (p =? 2))%N.
Definition stage_handle (p : N) : bool := ((p =? 3) || (p =? 5))%N.

Definition is_pipeline (v : verdict) (raw : jvalue) : bool := String.eqb (raw_kind raw) "Pipeline".

Definition mi (o : orc) (q : quirks) (raw : jvalue) (v : verdict) : bool :=
  if is_pipeline v raw then pipeline_may_init o q (v_image v) else may_init o q (v_ty v) (raw_kind raw) (v_image v).
Definition mh (o : orc) (q : quirks) (raw : jvalue) (v : verdict) : bool :=
  if is_pipeline v raw then pipeline_may_handle o q (v_image v) else may_handle o q (v_ty v) (raw_kind raw) (v_image v).

(** does the model (under [q]) allow a panic in the observed stage? *)
Definition may_stage (o : orc) (q : quirks) (raw : jvalue) (v : verdict) (p : N) : bool :=
  if stage_init p then mi o q raw v else if stage_handle p then mh o q raw v else false.

(** the model fails the property on this case under [q], in the observed stage *)
Definition fails (c : spec_case) (q : quirks) : bool :=
  let v := validate (sc_orc c) q (sc_cat c) (sc_raw c) in
  v_accept v && may_stage (sc_orc c) q (sc_raw c) v (ob_panic c).

Definition matters (c : spec_case) (pinned : quirks) (i : N) : bool :=
  let o := sc_orc c in
  let v := validate o pinned (sc_cat c) (sc_raw c) in
  let q' := set_flag pinned i false in
  let v' := validate o q' (sc_cat c) (sc_raw c) in
  negb (Bool.eqb (v_accept v) (v_accept v')) ||
  negb (Bool.eqb (may_stage o pinned (sc_raw c) v (ob_panic c)) (may_stage o q' (sc_raw c) v' (ob_panic c))) ||
  (((i =? 1) || (i =? 6) || (i =? 12))%N &&
   let qi := set_flag (rt_off pinned) i true in
   negb (Bool.eqb (may_stage o qi (sc_raw c) v (ob_panic c)) (may_stage o (rt_off pinned) (sc_raw c) v (ob_panic c)))).

Fixpoint first_flag (c : spec_case) (pinned : quirks) (is : list N) : N :=
  match is with
  | [] => 0%N
  | i :: t => if flag pinned i && matters c pinned i then i else first_flag c pinned t
  end.

Definition all_flags : list N := [1; 2; 3; 4; 5; 6; 7; 8; 9; 10; 11; 12; 13]%N.

Fixpoint kind_index (cat kind : string) (ks : list kind_info) (i : N) : N :=
  match ks with
  | [] => 0%N
  | k :: t => if String.eqb (k_name k) kind && String.eqb (k_cat k) cat then i else kind_index cat kind t (i + 1)%N
  end.

Definition modelled (kind : string) : bool := in_list kind cv_leaf || String.eqb kind "Pipeline" || String.eqb kind "MQTTProxy".

(** deterministic Init panics of the unchanged code (checked in the other direction) *)
Definition must_init (o : orc) (raw : jvalue) (v : verdict) : bool :=
  let k := raw_kind raw in
  (is_adaptor k && negb (codec_ok (v_image v))) || (is_builder k && tpl_bad o (v_image v)).

Definition check_spec (pinned : quirks) (c : spec_case) : result :=
  let o := sc_orc c in
  let raw := sc_raw c in
  let kind := raw_kind raw in
  let v := validate o pinned (sc_cat c) raw in
  let reached := v_known v && negb (v_decode_err v) in
  let p := ob_panic c in
  let corr_front :=
    Bool.eqb (v_decode_err v) (ob_derr c) && Bool.eqb (v_known v) (ob_known c) &&
    (if v_decode_err v && negb (v_known v) then true else Bool.eqb (v_meta v) (ob_meta c)) in
  let corr_doc :=
    if reached then
      match ob_norm c with
      | Some d => jeqb (trim (v_image v)) d && orc_complete o d
      | None => false
      end &&
      Bool.eqb (v_js v) (ob_js c) && Bool.eqb (v_fmt v) (ob_fmt c)
    else true in
  let corr_acc :=
    if reached && modelled kind then
      Bool.eqb (v_gen v) (ob_gen c || ob_sys c) && Bool.eqb (v_accept v) (ob_acc c)
    else
      (* unmodelled Validate() methods: the verdict must at least be the conjunction of its parts *)
      Bool.eqb (ob_acc c)
        (ob_known c && ob_meta c && negb (ob_derr c) && negb (ob_js c) && negb (ob_fmt c) && negb (ob_gen c) && negb (ob_sys c)) in
  let corr_panic :=
    if (p =? 0)%N then
      negb (ob_inst c && reached && ob_acc c && modelled kind && must_init o raw v)
    else if (p =? 6)%N then true
    else ob_acc c && may_stage o pinned raw v p in
  let corr := corr_front && corr_doc && corr_acc && corr_panic in
  let prop := negb (ob_acc c) || (p =? 0)%N || (p =? 6)%N in
  let cls := if reached then (1 + 2 * kind_index (sc_cat c) kind kinds 0 + (if ob_acc c then 1 else 0))%N else 0%N in
  let attrib :=
    if prop then 0%N
    else if fails c pinned && negb (fails c ideal) then first_flag c pinned all_flags else 0%N in
  (corr, prop, cls, attrib).

(** what the model says about a case (for replay files) *)
Definition explain_spec (pinned : quirks) (c : spec_case) :=
  let v := validate (sc_orc c) pinned (sc_cat c) (sc_raw c) in
  (("kind", raw_kind (sc_raw c)), ("known,meta,decode_err", (v_known v, v_meta v, v_decode_err v)),
   ("js,fmt,gen errors", (v_js v, v_fmt v, v_gen v)), ("accept", v_accept v),
   ("may_init,may_handle", (mi (sc_orc c) pinned (sc_raw c) v, mh (sc_orc c) pinned (sc_raw c) v)),
   ("accept under ideal", v_accept (validate (sc_orc c) ideal (sc_cat c) (sc_raw c))),
   ("normalized", trim (v_image v))).
