(** C06 - case record and per-case check (evaluated by vm_compute on the traces
    of the real Validator filter).  Result: (corr, prop, class, attributed-flag).

    - corr : [handle pinned] on the delivered request = the implementation's
             (result, status, rejecting method);
    - prop : on the IMPLEMENTATION's observables: a rejection is result
             "invalid" with 400 (header rules) / 401 (other methods), a pass
             carries no response; the accept/reject decision equals the one of
             the harness's independent reference verifier (own canonicalisation,
             Go crypto, payload as body, first-colon split, canonical token
             text) AND the one of [handle ideal], for which props/C06.v proves
             soundness, completeness and mutation rejection;
    - class: 0 = request not delivered to the filter; else 1 + 2*kind + accepted;
    - attributed-flag: index of the open known finding that explains a prop failure. *)
From EG.lib Require Import Base.
From EG.model Require Import Validator.
Open Scope string_scope.

Definition result := (bool * bool * N * N)%type.

Record tables := {
  t_ck       : list (string * string);
  t_re       : list (string * list (string * bool));      (* pattern -> value -> match *)
  t_b64std   : list (string * option string);
  t_jhdr     : list (string * option string);
  t_jclaims  : list (string * option (jclaim * jclaim * jclaim));
  t_b64canon : list (string * option string);
  t_jmac     : list (string * list (string * string));    (* alg -> signing input -> text (secret = the configured one) *)
  t_ptime    : list (string * option (Z * string * string));
  t_puint    : list (string * option Z);
  t_sha      : list (string * string);
  t_mac      : list (string * list (string * string))     (* key -> data -> mac, raw bytes *)
}.

Definition MISS : string := "<<oracle-miss>>".

Definition look {A} (d : A) (k : string) (t : list (string * A)) : A :=
  match alookup k t with Some v => v | None => d end.
Definition has {A} (k : string) (t : list (string * A)) : bool :=
  match alookup k t with Some _ => true | None => false end.
Definition look2 {A} (d : A) (k1 k2 : string) (t : list (string * list (string * A))) : A :=
  match alookup k1 t with Some t' => look d k2 t' | None => d end.
Definition has2 {A} (k1 k2 : string) (t : list (string * list (string * A))) : bool :=
  match alookup k1 t with Some t' => has k2 t' | None => false end.

Definition oracle_of (t : tables) : oracle :=
  {| o_ck := fun k => look MISS k (t_ck t);
     o_re := fun p v => look2 false p v (t_re t);
     o_b64std := fun k => look None k (t_b64std t);
     o_jhdr := fun k => look None k (t_jhdr t);
     o_jclaims := fun k => look None k (t_jclaims t);
     o_b64canon := fun k => look None k (t_b64canon t);
     o_jmac := fun alg _ msg => look2 MISS alg msg (t_jmac t);
     o_ptime := fun k => look None k (t_ptime t);
     o_puint := fun k => look None k (t_puint t);
     o_sha := fun k => look MISS k (t_sha t);
     o_mac := fun k d => look2 MISS k d (t_mac t) |}.

Record observed := {
  ob_invalid : bool;   (* Handle returned "invalid" (false: it returned "") *)
  ob_other   : bool;   (* Handle returned some other string *)
  ob_status  : Z;      (* status of the response set on the context, 0 = none *)
  ob_by      : N;      (* rejecting method from the tag prefix, 0 = none *)
  ob_panic   : bool }.

Record vcase := {
  v_cfg : config; v_req : request; v_now : Z; v_jnow : Z; v_tabs : tables;
  v_delivered : bool;       (* false: net/http or FetchPayload refused the request before the filter *)
  v_obs : observed;
  v_expect : bool;          (* accept decision of the harness's reference verifier *)
  v_kind : N                (* generator's label of the case shape (coverage class only) *) }.

(** ** oracle coverage: every table entry the model may consult must be present *)
Definition first_value (o : oracle) (r : request) (key : string) : option string :=
  match mget_all (o_ck o key) (r_headers r) with v :: _ => Some v | [] => None end.

Definition guard_headers (t : tables) (o : oracle) (r : request) (rules : list hrule) : bool :=
  forallb (fun h =>
    has (h_key h) (t_ck t) &&
    (String.eqb (h_regexp h) EmptyString ||
     match first_value o r (h_key h) with Some v => has2 (h_regexp h) v (t_re t) | None => true end)) rules.

Definition guard_jwt (t : tables) (c : jwt_cfg) (r : request) : bool :=
  match jwt_token c r with
  | Some tok =>
      match split_on "."%char tok with
      | [h; cl; s] => has h (t_jhdr t) && has cl (t_jclaims t) && has s (t_b64canon t) &&
                      has2 (j_alg c) (h ++ "." ++ cl) (t_jmac t)
      | _ => true
      end
  | None => true
  end.

Definition guard_basic (t : tables) (r : request) : bool :=
  let h := mget "Authorization" (r_headers r) in
  if String.prefix basic_prefix h then has (sdrop 6 h) (t_b64std t) else true.

Definition guard_sig (t : tables) (o : oracle) (c : sig_cfg) (r : request) : bool :=
  let l := s_lit c in
  has (l_date l) (t_ck t) &&
  (if negb (String.eqb (mget "Authorization" (r_headers r)) EmptyString)
   then has (mget (o_ck o (l_date l)) (r_headers r)) (t_ptime t)
   else has (mget (l_date l) (r_query r)) (t_ptime t) && has (mget (l_expires l) (r_query r)) (t_puint t)) &&
  match init_from_request o l r with
  | Some p => forallb (fun n => String.eqb n "host" || has n (t_ck t)) (split_on ";"%char (p_signed p))
  | None => true
  end.

Definition guard (c : vcase) : bool :=
  let t := v_tabs c in let o := oracle_of t in let r := v_req c in
  match c_headers (v_cfg c) with Some rules => guard_headers t o r rules | None => true end &&
  match c_jwt (v_cfg c) with Some j => guard_jwt t j r | None => true end &&
  match c_sig (v_cfg c) with Some s => guard_sig t o s r | None => true end &&
  match c_basic (v_cfg c) with Some _ => guard_basic t r | None => true end.

Definition hexmiss : string := hex_of_string MISS.

Definition crypto_miss (q : quirks) (c : vcase) : bool :=
  match c_sig (v_cfg c) with
  | Some s => match sig_stage_of q (oracle_of (v_tabs c)) s (v_req c) (v_now c) with
              | SCompare e _ => String.eqb e hexmiss
              | _ => false
              end
  | None => false
  end.

(** the model's outcome on a case *)
Definition run (q : quirks) (c : vcase) : outcome :=
  if negb (guard c) || crypto_miss q c then OracleMiss
  else handle q (oracle_of (v_tabs c)) (v_cfg c) (v_req c) (v_now c) (v_jnow c).

(** ** comparison with the implementation *)
Definition outcome_matches (m : outcome) (ob : observed) : bool :=
  match m with
  | Pass => negb (ob_invalid ob) && negb (ob_other ob) && negb (ob_panic ob) && (ob_status ob =? 0)%Z && (ob_by ob =? 0)%N
  | Reject st b => ob_invalid ob && negb (ob_panic ob) && (ob_status ob =? st)%Z && (ob_by ob =? b)%N
  | Panic => ob_panic ob
  | OracleMiss => false
  end.

Definition is_pass (m : outcome) : bool := match m with Pass => true | _ => false end.

(** the implementation let the request through *)
Definition ob_accepted (ob : observed) : bool :=
  negb (ob_invalid ob) && negb (ob_other ob) && negb (ob_panic ob).

(** a rejection is result "invalid" with 400 exactly for the header rules and
    401 for every other method; a pass carries no response *)
Definition ob_wellformed (ob : observed) : bool :=
  negb (ob_panic ob) && negb (ob_other ob) &&
  (if ob_invalid ob
   then ((ob_status ob =? 400)%Z && (ob_by ob =? 1)%N) ||
        ((ob_status ob =? 401)%Z && ((ob_by ob =? 2) || (ob_by ob =? 3) || (ob_by ob =? 5))%N)
   else (ob_status ob =? 0)%Z).

(** the property on given observables: well-formed, decision = reference = ideal model *)
Definition prop_on (c : vcase) (ob_ok : bool) (accepted : bool) : bool :=
  ob_ok && Bool.eqb accepted (v_expect c) && Bool.eqb accepted (is_pass (run ideal c)) &&
  negb (match run ideal c with OracleMiss => true | _ => false end).

Definition prop_impl (c : vcase) : bool := prop_on c (ob_wellformed (v_obs c)) (ob_accepted (v_obs c)).

(** would the model [m] satisfy the property on this case? *)
Definition prop_model (c : vcase) (m : outcome) : bool :=
  match m with
  | Pass => prop_on c true true
  | Reject st b => prop_on c (((st =? 400)%Z && (b =? 1)%N) || ((st =? 401)%Z && negb (b =? 1)%N)) false
  | _ => false
  end.

Definition flag_off (i : N) (q : quirks) : quirks :=
  {| q_sig_verifies_drained_body := if (i =? 1)%N then false else q_sig_verifies_drained_body q;
     q_basic_split_all_colons := if (i =? 2)%N then false else q_basic_split_all_colons q;
     q_jwt_sig_lenient_b64 := if (i =? 3)%N then false else q_jwt_sig_lenient_b64 q |}.

Definition flag_on (i : N) (q : quirks) : bool :=
  if (i =? 1)%N then q_sig_verifies_drained_body q
  else if (i =? 2)%N then q_basic_split_all_colons q
  else if (i =? 3)%N then q_jwt_sig_lenient_b64 q else false.

(** attribution: the pinned model reproduces the failing observable and the
    pinned model with exactly that flag switched off does not fail *)
Definition attribute (pinned : quirks) (c : vcase) (corr : bool) : N :=
  if negb corr then 0%N else
  match filter (fun i => flag_on i pinned && prop_model c (run (flag_off i pinned) c)) [1; 2; 3]%N with
  | i :: _ => i
  | [] => 0%N
  end.

Definition check_v (pinned : quirks) (c : vcase) : result :=
  if negb (v_delivered c) then (true, true, 0%N, 0%N) else
  let corr := outcome_matches (run pinned c) (v_obs c) in
  let prop := prop_impl c in
  (corr, prop, (1 + 2 * v_kind c + (if ob_accepted (v_obs c) then 1 else 0))%N,
   if prop then 0%N else attribute pinned c corr).

(** ** replay output: what the model computes on a case *)
Definition stage_text (q : quirks) (c : vcase) : string :=
  match c_sig (v_cfg c) with
  | Some s =>
      let o := oracle_of (v_tabs c) in
      match s_keys s with [] => "no key store" | _ =>
      match init_from_request o (s_lit s) (v_req c) with
      | None => "signature parameters not parsed"
      | Some p =>
          let cv := covered_of q o s p (v_req c) in
          "canonical request: <" ++ canonical_request cv ++ "> string to sign: <" ++
          string_to_sign o (s_lit s) p cv ++ "> expected tag: " ++
          match alookup (p_keyid p) (s_keys s) with
          | Some secret => expected_tag o (s_lit s) p secret cv
          | None => "(unknown key id)"
          end ++ " carried tag: " ++ p_tag p ++
          (if time_ok s p (v_now c) then " time ok" else " outside ttl/expiry")
      end end
  | None => "no signature method"
  end.

Definition explain_v (pinned : quirks) (c : vcase) :=
  (("pinned", run pinned c), ("ideal", run ideal c), ("guard", guard c),
   ("expect-accept", v_expect c), ("pinned-sig", stage_text pinned c), ("ideal-sig", stage_text ideal c)).

(** ** group "etcd": histories of user-set updates interleaved with requests *)
Inductive estep :=
| SReload
| SUpdate (l : list ecred)
| SReq (r : request) (ob : observed) (expect : bool).

Record ecase := {
  ec_alive : bool;                (* the initial GetPrefix succeeded *)
  ec_init : list ecred;
  ec_steps : list estep;
  ec_b64 : list (string * option string);
  ec_stuck : bool                 (* an update could not be handed to the watcher *) }.

Definition eoracle (c : ecase) : oracle :=
  oracle_of {| t_ck := []; t_re := []; t_b64std := ec_b64 c; t_jhdr := []; t_jclaims := []; t_b64canon := [];
               t_jmac := []; t_ptime := []; t_puint := []; t_sha := []; t_mac := [] |}.

Definition eops (c : ecase) : list eop :=
  map (fun s => match s with SUpdate l => EUpdate l | SReq r _ _ => EReq r | SReload => EReload end) (ec_steps c).

Fixpoint ereqs (l : list estep) : list (request * observed * bool) :=
  match l with
  | [] => []
  | SUpdate _ :: t => ereqs t
  | SReload :: t => ereqs t
  | SReq r ob e :: t => (r, ob, e) :: ereqs t
  end.

Definition eguard (c : ecase) : bool :=
  forallb (fun x => let r := fst (fst x) in
                    let h := mget "Authorization" (r_headers r) in
                    if String.prefix basic_prefix h then has (sdrop 6 h) (ec_b64 c) else true) (ereqs (ec_steps c)).

Fixpoint all2 {A B} (f : A -> B -> bool) (l1 : list A) (l2 : list B) : bool :=
  match l1, l2 with
  | [], [] => true
  | a :: t1, b :: t2 => f a b && all2 f t1 t2
  | _, _ => false
  end.

Definition has_empty_update (l : list estep) : bool :=
  existsb (fun s => match s with SUpdate [] => true | _ => false end) l.

Definition check_etcd (pinned : quirks) (c : ecase) : result :=
  let o := eoracle c in
  let users0 := if ec_alive c then users_of (ec_init c) else [] in
  let mp := etcd_run pinned o (ec_alive c) users0 (eops c) in
  let mi := etcd_run ideal o (ec_alive c) users0 (eops c) in
  let rs := ereqs (ec_steps c) in
  let ok := eguard c in
  (ok && negb (ec_stuck c) && all2 (fun m x => outcome_matches m (snd (fst x))) mp rs,
   ok && all2 (fun m x => let ob := snd (fst x) in
                          ob_wellformed ob && Bool.eqb (ob_accepted ob) (snd x) && Bool.eqb (ob_accepted ob) (is_pass m)) mi rs,
   match rs with [] => 0%N | _ => (1 + (if has_empty_update (ec_steps c) then 1 else 0) + (if ec_alive c then 0 else 2) + (if existsb (fun s => match s with SReload => true | _ => false end) (ec_steps c) then 4 else 0))%N end,
   0%N).

Definition explain_etcd (pinned : quirks) (c : ecase) :=
  (etcd_run pinned (eoracle c) (ec_alive c) (if ec_alive c then users_of (ec_init c) else []) (eops c), eguard c).

(** ** group "x": the same credentials presented to several instances / generations in sequence;
       every step is a [vcase] whose configuration is the one of the instance at that moment *)
Record xcase := { x_steps : list vcase }.

Definition check_x (pinned : quirks) (c : xcase) : result :=
  let rs := map (check_v pinned) (x_steps c) in
  let corr := forallb (fun r => fst (fst (fst r))) rs in
  let prop := forallb (fun r => snd (fst (fst r))) rs in
  let failing := filter (fun r => negb (snd (fst (fst r)))) rs in
  let delivered := filter v_delivered (x_steps c) in
  (corr, prop,
   match delivered with
   | [] => 0%N
   | _ => (1 + (if existsb (fun s => ob_accepted (v_obs s)) delivered then 1 else 0)
             + (if existsb (fun s => negb (ob_accepted (v_obs s))) delivered then 2 else 0))%N
   end,
   match failing with
   | [] => 0%N
   | r :: _ => if forallb (fun r' => (snd r' =? snd r)%N) failing then snd r else 0%N
   end).

Definition explain_x (pinned : quirks) (c : xcase) :=
  map (fun s => (run pinned s, run ideal s, v_expect s)) (x_steps c).
