(** Case types and per-case check functions for C17 (evaluated by vm_compute on the
    traces of the real code).  Result: (corr, prop, class, attributed-flag).

    Groups:
    - sem     pkg/util/sem: Acquire / Release / SetMaxCount sequences
    - ll      pkg/util/limitlistener: Accept / Offer / Close / SetMaxConnection sequences
    - mq      pkg/object/mqttproxy: two-step connects, aborts, disconnects, takeovers
    - storm   limitlistener concurrent storm (no model run: prop only)
    - mqstorm broker concurrent storm (prop only)

    [corr] compares the model ([Sem.v], quirks = [pinned]) with the observables after EVERY
    operation; [prop] is computed from the implementation's observables and the inputs only.
    Flag indices: 1 q_newsem_unclamped, 2 q_grow_release_unchecked, 3 q_mqtt_connack_fail_leaks. *)
From EG.lib Require Import Base.
From EG.model Require Import Sem.
Open Scope Z_scope.

Definition result := (bool * bool * N * N)%type.
Definition bN (b : bool) (n : N) : N := if b then n else 0%N.

Definition Zlist_eqb (a b : list Z) : bool := list_eqb Z.eqb a b.

Definition set_q (q : quirks) (i : N) (v : bool) : quirks :=
  {| q_newsem_unclamped := if (i =? 1)%N then v else q_newsem_unclamped q;
     q_grow_release_unchecked := if (i =? 2)%N then v else q_grow_release_unchecked q;
     q_mqtt_connack_fail_leaks := if (i =? 3)%N then v else q_mqtt_connack_fail_leaks q |}.

Definition get_q (q : quirks) (i : N) : bool :=
  if (i =? 1)%N then q_newsem_unclamped q
  else if (i =? 2)%N then q_grow_release_unchecked q
  else if (i =? 3)%N then q_mqtt_connack_fail_leaks q else false.

(** attribution: the pinned model reproduces the failing observable ([corr]) and the model
    with that one flag switched off does not fail on the case *)
Definition attribute (pinned : quirks) (corr : bool) (prop_with : quirks -> bool) : N :=
  if negb corr then 0%N
  else if get_q pinned 1 && prop_with (set_q pinned 1 false) then 1%N
  else if get_q pinned 2 && prop_with (set_q pinned 2 false) then 2%N
  else if get_q pinned 3 && prop_with (set_q pinned 3 false) then 3%N
  (* two open findings interacting on one case (e.g. an unclamped NewSem followed by a grow
     to maxCapacity): neither flag alone explains the failure, both together do; attributed to
     the first of the two *)
  else if get_q pinned 1 && get_q pinned 2 && prop_with (set_q (set_q pinned 1 false) 2 false) then 1%N
  else 0%N.

(** * group sem *)

Inductive sop := SAcq | SRel | SSet (n : Z).

Record sstep := { o_cur : Z; o_real : Z; o_held : Z; o_done : Z; o_panics : Z; o_wq : list Z; o_skip : bool }.

Record sem_case := {
  sc_init : Z; sc_M : Z; sc_ops : list sop;
  sc_obs : list sstep; sc_desync : bool; sc_crash : bool
}.

Definition sstep_eqb (a b : sstep) : bool :=
  (o_cur a =? o_cur b) && (o_real a =? o_real b) && (o_held a =? o_held b) && (o_done a =? o_done b)
  && (o_panics a =? o_panics b) && Zlist_eqb (o_wq a) (o_wq b) && Bool.eqb (o_skip a) (o_skip b).

Definition sem_view (s : lstate) (skip : bool) : sstep :=
  {| o_cur := cur (ws s); o_real := real s; o_held := held s; o_done := ndone s; o_panics := panics s;
     o_wq := map snd (wq (ws s)); o_skip := skip |}.

(** harness protocol: a SetMaxCount whose shrink exceeds the semaphore's size (possible only
    after an unclamped NewSem) is not issued - its goroutine would leave no observable trace *)
Definition sop_skipped (s : lstate) (o : sop) : bool :=
  match o with
  | SSet n => size (ws s) <? real s - Z.min n (size (ws s))
  | _ => false
  end.

Definition sop_labels (o : sop) : list label :=
  match o with
  | SAcq => [LAcquire]
  | SRel => [LFail]
  | SSet n => [LSetMax n; LRun 0]
  end.

(** the harness synchronises after every operation: the goroutine of a SetMaxCount has
    reached the semaphore before the next operation starts *)
Fixpoint sem_model (q : quirks) (s : lstate) (ops : list sop) : list sstep * bool :=
  match ops with
  | [] => ([], false)
  | o :: t =>
      let skip := sop_skipped s o in
      let s' := if skip then s else lrun q s (sop_labels o) in
      if crashed s' then ([], true)
      else let '(r, c) := sem_model q s' t in (sem_view s' skip :: r, c)
  end.

(** property checker on observed steps.  cap = the capacity configured last (clamped),
    issued = SetMaxCount calls so far, acq = Acquire calls so far, rel = effective releases *)
Fixpoint prop_sem_steps (M cap issued acq rel prev_held : Z) (ops : list sop) (obs : list sstep) : bool :=
  match ops, obs with
  | _, [] => true                 (* a crash cuts the observation short; judged by the crash flag *)
  | [], _ :: _ => false
  | o :: ot, st :: bt =>
      let cap' := match o with SSet n => if o_skip st then cap else Z.min n M | _ => cap end in
      let issued' := match o with SSet _ => if o_skip st then issued else issued + 1 | _ => issued end in
      let acq' := match o with SAcq => acq + 1 | _ => acq end in
      let rel' := match o with SRel => if 0 <? prev_held then rel + 1 else rel | _ => rel end in
      let settled := o_done st =? issued' in
      let blocked := acq' - (o_held st + rel') in
      (o_panics st =? 0) && (0 <=? o_held st) && (0 <=? blocked) &&
      (* the cap holds once every change has been applied *)
      (if settled then o_held st <=? cap' else true) &&
      (* released / configured capacity is usable: nobody waits while a permit is free *)
      (if settled && (0 <? blocked) then cap' <=? o_held st else true) &&
      prop_sem_steps M cap' issued' acq' rel' (o_held st) ot bt
  end.

Definition prop_sem (M init : Z) (ops : list sop) (obs : list sstep) (desync crash : bool) : bool :=
  negb desync && negb crash &&
  (crash || Nat.eqb (List.length obs) (List.length ops)) &&
  prop_sem_steps M (Z.min init M) 0 0 0 0 ops obs.

Definition has_queue (obs : list sstep) : bool := existsb (fun st => negb (is_nil (o_wq st))) obs.
Definition has_big_waiter (obs : list sstep) : bool := existsb (fun st => existsb (fun w => 1 <? w) (o_wq st)) obs.
Definition has_set (ops : list sop) : bool := existsb (fun o => match o with SSet _ => true | _ => false end) ops.

Definition class_sem (c : sem_case) : N :=
  let over := sc_M c <? sc_init c in
  match sc_ops c with
  | [] => 0%N
  | _ => (1 + bN (has_queue (sc_obs c)) 1 + bN (has_big_waiter (sc_obs c)) 2 + bN (has_set (sc_ops c)) 4
            + bN over 8 + bN (sc_crash c) 16)%N
  end.

Definition check_sem_with (pinned : quirks) (c : sem_case) : result :=
  let model q := sem_model q (linit q (sc_M c) (sc_init c)) (sc_ops c) in
  let '(msteps, mcrash) := model pinned in
  let corr := list_eqb sstep_eqb msteps (sc_obs c) && Bool.eqb mcrash (sc_crash c) && negb (sc_desync c) in
  let prop := prop_sem (sc_M c) (sc_init c) (sc_ops c) (sc_obs c) (sc_desync c) (sc_crash c) in
  let prop_with q := let '(ms, mc) := model q in prop_sem (sc_M c) (sc_init c) (sc_ops c) ms false mc in
  (corr, prop, class_sem c, if prop then 0%N else attribute pinned corr prop_with).

Definition explain_sem_with (pinned : quirks) (c : sem_case) :=
  sem_model pinned (linit pinned (sc_M c) (sc_init c)) (sc_ops c).

(** * group ll *)

(** [OOfferErr]: the inner listener returns a permanent error; [OOfferTmp]: a temporary
    net.Error. Either way Accept gives its permit back and returns the error to its caller
    (no hidden retry): both are [LFail]. *)
Inductive lop := OAccept | OOffer | OOfferErr | OOfferTmp | OClose (c : N) | OSetMax (n : Z)
  | ORead (c : N).   (* a Read on connection c fails while it stays open: no label - only Close releases *)

Record lobs := {
  l_cur : Z; l_real : Z; l_wq : list Z; l_held : Z; l_open : list N; l_blocked : Z;
  l_shr : Z; l_panics : Z; l_dropped : Z
}.

Record ll_case := { lc_init : Z; lc_M : Z; lc_ops : list lop; lc_obs : list lobs; lc_desync : bool }.

Definition Nlist_eqb (a b : list N) : bool := list_eqb N.eqb a b.

Definition lobs_eqb (a b : lobs) : bool :=
  (l_cur a =? l_cur b) && (l_real a =? l_real b) && Zlist_eqb (l_wq a) (l_wq b) && (l_held a =? l_held b)
  && Nlist_eqb (l_open a) (l_open b) && (l_blocked a =? l_blocked b) && (l_shr a =? l_shr b)
  && (l_panics a =? l_panics b) && (l_dropped a =? l_dropped b).

Fixpoint insertN (x : N) (l : list N) : list N :=
  match l with
  | [] => [x]
  | y :: t => if (x <=? y)%N then x :: l else y :: insertN x t
  end.
Definition sortN (l : list N) : list N := fold_right insertN [] l.

Definition ll_view (s : lstate) : lobs :=
  {| l_cur := cur (ws s); l_real := real s; l_wq := map snd (wq (ws s)); l_held := held s;
     l_open := sortN (opened s); l_blocked := count_who WAcc (wq (ws s));
     l_shr := count_who WAdj (wq (ws s)); l_panics := panics s; l_dropped := 0 |}.

Inductive offer := OfConn (c : N) | OfErr.

(** pending offers are handed to permit holders waiting in the inner Accept *)
Fixpoint ll_settle (q : quirks) (fuel : nat) (s : lstate) (offers : list offer) : lstate * list offer :=
  match fuel, offers with
  | S f, o :: t =>
      if (0 <? held s) && negb (crashed s) then
        ll_settle q f (lstep q s (match o with OfConn c => LGot c | OfErr => LFail end)) t
      else (s, offers)
  | _, _ => (s, offers)
  end.

Fixpoint ll_model (q : quirks) (s : lstate) (offers : list offer) (next : N) (ops : list lop) : list lobs :=
  match ops with
  | [] => []
  | o :: t =>
      let '(s1, offers1, next1) :=
        match o with
        | OAccept => (lstep q s LAcquire, offers, next)
        | OOffer => (s, offers ++ [OfConn next], (next + 1)%N)
        | OOfferErr | OOfferTmp => (s, offers ++ [OfErr], next)
        | OClose c => (lstep q s (LClose c), offers, next)
        | OSetMax n => (lrun q s [LSetMax n; LRun 0], offers, next)
        | ORead _ => (s, offers, next)
        end in
      let '(s2, offers2) := ll_settle q (List.length offers1) s1 offers1 in
      ll_view s2 :: ll_model q s2 offers2 next1 t
  end.

Definition subsetN (a b : list N) : bool := forallb (fun x => mem_N x b) a.

(** property checker on observed steps *)
Fixpoint prop_ll_steps (M cap : Z) (prev_open : list N) (ops : list lop) (obs : list lobs) : bool :=
  match ops, obs with
  | [], [] => true
  | o :: ot, st :: bt =>
      let cap' := match o with OSetMax n => Z.min n M | _ => cap end in
      let used := l_held st + Z.of_nat (List.length (l_open st)) in
      let settled := l_shr st =? 0 in
      (l_panics st =? 0) && (l_dropped st =? 0) && (0 <=? l_held st) && (0 <=? l_blocked st) &&
      (* cap, once every capacity change has been applied *)
      (if settled then used <=? cap' else true) &&
      (* released / configured capacity is usable: no acceptor is held back while a permit is free,
         and every permit not in use by an acceptor or an open connection is back in the semaphore *)
      (if settled && (0 <? l_blocked st) then cap' <=? used else true) &&
      (if settled then M - l_cur st =? cap' - used else true) &&
      (* no established connection disappears except by its own Close *)
      forallb (fun c => mem_N c (l_open st) || match o with OClose c' => N.eqb c c' | _ => false end) prev_open &&
      prop_ll_steps M cap' (l_open st) ot bt
  | _, _ => false
  end.

Definition prop_ll (M init : Z) (ops : list lop) (obs : list lobs) (desync : bool) : bool :=
  negb desync && prop_ll_steps M (Z.min init M) [] ops obs.

Definition lhas_queue (obs : list lobs) : bool := existsb (fun st => 0 <? l_blocked st) obs.
Definition lhas_shr (obs : list lobs) : bool := existsb (fun st => 0 <? l_shr st) obs.
Definition lhas_set (ops : list lop) : bool := existsb (fun o => match o with OSetMax _ => true | _ => false end) ops.
Definition lhas_tmp (ops : list lop) : bool := existsb (fun o => match o with OOfferTmp => true | _ => false end) ops.
Definition lhas_open (obs : list lobs) : bool := existsb (fun st => negb (is_nil (l_open st))) obs.

Definition class_ll (c : ll_case) : N :=
  let over := lc_M c <? lc_init c in
  match lc_ops c with
  | [] => 0%N
  | _ => if negb (lhas_open (lc_obs c)) && negb (lhas_queue (lc_obs c)) then 0%N else
         (1 + bN (lhas_queue (lc_obs c)) 1 + bN (lhas_shr (lc_obs c)) 2 + bN (lhas_set (lc_ops c)) 4
            + bN over 8 + bN (lhas_tmp (lc_ops c)) 16)%N
  end.

Definition check_ll_with (pinned : quirks) (c : ll_case) : result :=
  let model q := ll_model q (linit q (lc_M c) (lc_init c)) [] 0%N (lc_ops c) in
  let corr := list_eqb lobs_eqb (model pinned) (lc_obs c) && negb (lc_desync c) in
  let prop := prop_ll (lc_M c) (lc_init c) (lc_ops c) (lc_obs c) (lc_desync c) in
  let prop_with q := prop_ll (lc_M c) (lc_init c) (lc_ops c) (model q) false in
  (corr, prop, class_ll c, if prop then 0%N else attribute pinned corr prop_with).

Definition explain_ll_with (pinned : quirks) (c : ll_case) :=
  ll_model pinned (linit pinned (lc_M c) (lc_init c)) [] 0%N (lc_ops c).

(** * group hs: HTTPServer runtime built from YAML, real net/http accept loop, keep-alive clients *)

Inductive hop := HDial | HClose (c : N) | HReload (n : Z)
  | HRestart      (* a reload that needs a restart, after the harness ended its connections *)
  | HFail         (* Serve fails: state failed *)
  | HRecover      (* failed-check: startServer again *)
  | HDialPark     (* a client whose request stays in flight inside the handler *)
  | HUnpark (c : N) (* its handler returns; the client reads the response and closes *)
  | HRestartIF.   (* a reload that needs a restart while connections (idle, in flight) are open *)

Record hobs := {
  h_decoded : Z; h_served : list N; h_waiting : Z; h_cur : Z; h_real : Z; h_wq : list Z; h_shr : Z;
  h_skip : bool; h_running : bool;
  h_old : Z;          (* connections of a REPLACED listener that are still open *)
  h_blocked : bool    (* HRestartIF: the reload did not return while requests were in flight *)
}.

Record hs_case := {
  hc_init : Z; hc_busy : bool; hc_idle_ok : bool; hc_M : Z; hc_ops : list hop; hc_obs : list hobs;
  hc_desync : bool; hc_bad : bool
}.

Definition hobs_eqb (a b : hobs) : bool :=
  (h_decoded a =? h_decoded b) && Nlist_eqb (h_served a) (h_served b) && (h_waiting a =? h_waiting b)
  && (h_cur a =? h_cur b) && (h_real a =? h_real b) && Zlist_eqb (h_wq a) (h_wq b) && (h_shr a =? h_shr b)
  && Bool.eqb (h_skip a) (h_skip b) && Bool.eqb (h_running a) (h_running b)
  && (h_old a =? h_old b) && Bool.eqb (h_blocked a) (h_blocked b).

(** the single accept loop of net/http: whenever it holds a permit the oldest waiting client
    is accepted and served, and the loop asks for the next permit *)
Fixpoint hs_settle (q : quirks) (fuel : nat) (s : lstate) (backlog : list N) : lstate * list N :=
  match fuel, backlog with
  | S f, c :: t =>
      if (0 <? held s) && negb (crashed s) then hs_settle q f (lrun q s [LGot c; LAcquire]) t
      else (s, backlog)
  | _, _ => (s, backlog)
  end.

(** a (re)started server: NewLimitListener from the spec in force, the accept loop takes its permit *)
Definition hs_fresh (q : quirks) (M cap : Z) : lstate := lstep q (linit q M cap) LAcquire.

(** the harness ends every served connection before the listener is replaced *)
Definition hs_close_all (q : quirks) (s : lstate) : lstate :=
  fold_left (fun s c => lstep q s (LClose c)) (opened s) s.

(** requests in flight: open connections whose request was parked in the handler *)
Definition hs_inflight (parks : list N) (s : lstate) : list N := filter (fun c => mem_N c parks) (opened s).

(** [parks]: ids of the clients dialed with a parked request. The runtime as it is: a listener is
    replaced only after Shutdown has drained it - idle connections are closed by it, and while a
    request is in flight the reload does not return (30 s grace; the harness lets the requests
    finish once it has seen the reload blocked): no connection of the replaced listener is left. *)
Fixpoint hs_model (q : quirks) (M : Z) (idle_ok : bool) (run : bool) (s : lstate) (backlog parks : list N)
         (next : N) (cap : Z) (ops : list hop) : list hobs :=
  match ops with
  | [] => []
  | o :: t =>
      let infl := hs_inflight parks s in
      (* harness protocol: operations that are impossible in the current state are not issued; nor
         is a reload rejected by validation (n < 1) or one that would shrink a running listener's
         capacity by exactly 1; the listener is only replaced while nobody waits *)
      let skip :=
        match o with
        | HDial => negb run || negb idle_ok
        | HDialPark | HClose _ => negb run
        | HReload n => (n <? 1) || (run && (Z.min n (size (ws s)) =? real s - 1))
        | HRestart | HFail => negb run || negb (is_nil backlog) || negb (is_nil infl)
        | HRestartIF => negb run || negb (is_nil backlog)
        | HRecover => run
        | HUnpark _ => false
        end in
      let '(run1, s1, backlog1, parks1, next1, cap1) :=
        if skip then (run, s, backlog, parks, next, cap) else
        match o with
        | HDial => (run, s, backlog ++ [next], parks, (next + 1)%N, cap)
        | HDialPark => (run, s, backlog ++ [next], parks ++ [next], (next + 1)%N, cap)
        | HClose c => (run, if run && mem_N c (opened s) && negb (mem_N c parks) then lstep q s (LClose c) else s,
                       backlog, parks, next, cap)
        | HUnpark c => (run, if run && mem_N c infl then lstep q s (LClose c) else s, backlog, parks, next, cap)
        | HReload n => (run, if run then lrun q s [LSetMax n; LRun 0] else s, backlog, parks, next, n)
        | HRestart | HRestartIF | HRecover => (true, hs_fresh q M cap, [], parks, next, cap)
        | HFail => (false, hs_close_all q s, [], parks, next, cap)
        end in
      let blocked := match o with HRestartIF => negb skip && negb (is_nil infl) | _ => false end in
      let '(s2, backlog2) := if run1 then hs_settle q (List.length backlog1) s1 backlog1 else (s1, backlog1) in
      (if run1 then
         {| h_decoded := cap1; h_served := sortN (opened s2); h_waiting := Z.of_nat (List.length backlog2);
            h_cur := cur (ws s2); h_real := real s2; h_wq := map snd (wq (ws s2));
            h_shr := count_who WAdj (wq (ws s2)); h_skip := skip; h_running := true;
            h_old := 0; h_blocked := blocked |}
       else
         {| h_decoded := cap1; h_served := []; h_waiting := 0; h_cur := 0; h_real := 0; h_wq := [];
            h_shr := 0; h_skip := skip; h_running := false; h_old := 0; h_blocked := blocked |})
      :: hs_model q M idle_ok run1 s2 backlog2 parks1 next1 cap1 t
  end.

(** property checker on observed steps; [cap] is the maxConnections written in the LAST YAML,
    whatever restarts, failures and recoveries happened since *)
Fixpoint prop_hs_steps (M cap : Z) (prev : list N) (ops : list hop) (obs : list hobs) : bool :=
  match ops, obs with
  | [], [] => true
  | o :: ot, st :: bt =>
      let cap' := match o with HReload n => if h_skip st then cap else n | _ => cap end in
      let nserved := Z.of_nat (List.length (h_served st)) in
      let settled := h_shr st =? 0 in
      let replaced := match o with HRestart | HFail | HRecover | HRestartIF => negb (h_skip st) | _ => false end in
      (* the configured value is the one decoded ... *)
      (h_decoded st =? cap') &&
      (if h_running st then
         (* ... and the one in force in the listener, however it came to be (re)built *)
         (h_real st =? Z.min cap' M) &&
         (* the cap on the connections being served: those of the listener in force TOGETHER with
            those still open on a listener it replaced *)
         (if settled then nserved + h_old st <=? Z.min cap' M else true) &&
         (* a waiting client is held back only while the cap is reached *)
         (if settled && (0 <? h_waiting st) then Z.min cap' M <=? nserved + h_old st else true) &&
         (* no established connection is dropped by a hot reload or by another client's traffic
            (a listener replacement ends the idle ones; requests in flight end with Unpark) *)
         (replaced || forallb (fun c => mem_N c (h_served st) ||
                                        match o with HClose c' | HUnpark c' => N.eqb c c' | _ => false end) prev)
       else true) &&
      prop_hs_steps M cap' (h_served st) ot bt
  | _, _ => false
  end.

Definition hs_has (f : hop -> bool) (c : hs_case) : bool := existsb f (hc_ops c).

Definition check_hs_with (pinned : quirks) (c : hs_case) : result :=
  let model q := hs_model q (hc_M c) (hc_idle_ok c) (negb (hc_busy c)) (hs_fresh q (hc_M c) (hc_init c)) [] [] 0%N (hc_init c) (hc_ops c) in
  let ok := negb (hc_desync c) && negb (hc_bad c) in
  let corr := list_eqb hobs_eqb (model pinned) (hc_obs c) && ok in
  let prop := ok && prop_hs_steps (hc_M c) (hc_init c) [] (hc_ops c) (hc_obs c) in
  let waited := existsb (fun st => 0 <? h_waiting st) (hc_obs c) in
  let reloaded := hs_has (fun o => match o with HReload _ => true | _ => false end) c in
  let replaced := hs_has (fun o => match o with HRestart | HFail | HRecover | HRestartIF => true | _ => false end) c in
  let inflight := hs_has (fun o => match o with HRestartIF => true | _ => false end) c && existsb h_blocked (hc_obs c) in
  (corr, prop,
   if existsb (fun st => negb (is_nil (h_served st))) (hc_obs c)
   then (1 + bN waited 1 + bN reloaded 2 + bN replaced 4 + bN (hc_busy c) 8 + bN inflight 16)%N else 0%N,
   if prop then 0%N else attribute pinned corr (fun q => prop_hs_steps (hc_M c) (hc_init c) [] (hc_ops c) (model q))).

Definition explain_hs_with (pinned : quirks) (c : hs_case) :=
  hs_model pinned (hc_M c) (hc_idle_ok c) (negb (hc_busy c)) (hs_fresh pinned (hc_M c) (hc_init c)) [] [] 0%N (hc_init c) (hc_ops c).

(** * group mq *)

(** [QDel cid overlap]: deleteSession(cid) + a reconnect of the same id in a new slot; [overlap]
    is OBSERVED (scheduling oracle): the reconnect ran between the two critical sections of a
    deleteSession that gives up the broker lock while it closes the client *)
Inductive mop := QStart (cid : Z) | QCommit (slot : Z) (ab : bool) | QDisc (slot : Z) | QDel (cid : Z) (overlap : bool).

Record mq_step := { q_code : Z; q_clients : list (Z * Z); q_served : Z }.
Record mq_case := { qc_cap : Z; qc_ops : list mop; qc_obs : list mq_step; qc_desync : bool; qc_alive : Z }.

Definition cid_of_idx (i : Z) : string := String (ascii_of_N (Z.to_N i)) EmptyString.
Definition idx_of_cid (s : string) : Z :=
  match s with String a _ => Z.of_N (N_of_ascii a) | EmptyString => -1 end.

Fixpoint insertP (x : Z * Z) (l : list (Z * Z)) : list (Z * Z) :=
  match l with
  | [] => [x]
  | y :: t => if (fst x <? fst y) || ((fst x =? fst y) && (snd x <=? snd y)) then x :: l else y :: insertP x t
  end.
Definition sortP (l : list (Z * Z)) : list (Z * Z) := fold_right insertP [] l.

Definition mq_view (s : mstate) : list (Z * Z) :=
  sortP (map (fun e => (idx_of_cid (fst e), Z.of_N (snd e))) (clients s)).

Definition mq_step_eqb (a b : mq_step) : bool :=
  (q_code a =? q_code b) && list_eqb Zeqb_pair (q_clients a) (q_clients b) && (q_served a =? q_served b).

Definition code_of (o : mout) : Z :=
  match o with MAccepted => 0 | MRefused => 3 | MPassed => 7 | MNone => 9 end.

(** [cids]: client id index of every slot started so far (slot = position) *)
Fixpoint mq_model (q : quirks) (s : mstate) (cids : list Z) (ops : list mop) : list mq_step * mstate :=
  match ops with
  | [] => ([], s)
  | o :: t =>
      let '(s', code, cids') :=
        match o with
        | QStart cid =>
            let k := N.of_nat (List.length cids) in
            let '(s1, out) := mstep q s (MCheck k) in (s1, code_of out, cids ++ [cid])
        | QCommit slot ab =>
            if (slot <? 0) || (Z.of_nat (List.length cids) <=? slot) then (s, 9, cids) else
            let cid := nth (Z.to_nat slot) cids 0 in
            let '(s1, out) := mstep q s (MCommit (Z.to_N slot) (cid_of_idx cid) ab) in
            (s1, if ab then 9 else code_of out, cids)
        | QDisc slot =>
            if slot <? 0 then (s, 9, cids) else
            let '(s1, _) := mstep q s (MTeardown (Z.to_N slot)) in (s1, 9, cids)
        | QDel cid overlap =>
            let k := N.of_nat (List.length cids) in
            let c := cid_of_idx cid in
            let s0 := fst (mstep q s (if overlap then MDelLookup c else MDelete c)) in
            let '(s1, o1) := mstep q s0 (MCheck k) in
            let '(s2, o2) := mstep q s1 (MCommit k c false) in
            let s3 := if overlap then fst (mstep q s2 (MDelRemove (List.length (dels s2) - 1))) else s2 in
            (s3, match o1 with MRefused => 3 | _ => code_of o2 end, cids ++ [cid])
        end in
      let '(r, sf) := mq_model q s' cids' t in
      ({| q_code := code; q_clients := mq_view s'; q_served := nserved s' |} :: r, sf)
  end.

Definition memZ (x : Z) (l : list Z) : bool := existsb (Z.eqb x) l.

(** property checker on the observed steps.
    [prev]  = observed Broker.clients after the previous operation,
    [cids]  = client id of every slot, [alive] = slots with an accepted CONNACK not yet disconnected,
    [parked] = slots that passed the early check and have not been committed. *)
Fixpoint prop_mq_steps (cap : Z) (prev : list (Z * Z)) (cids alive parked : list Z)
         (ops : list mop) (obs : list mq_step) : bool :=
  match ops, obs with
  | [], [] => true
  | o :: ot, st :: bt =>
      let n_prev := Z.of_nat (List.length prev) in
      let full := (0 <? cap) && (cap <=? n_prev) in
      let slot_new := Z.of_nat (List.length cids) in
      let code := q_code st in
      let '(ok, cids', alive', parked') :=
        match o with
        | QStart cid =>
            (* at the cap the early check may refuse (3) or leave the decision to the locked section (7);
               below the cap a refusal would leave released capacity unused *)
            ((if full then (code =? 3) || (code =? 7) else code =? 7), cids ++ [cid], alive,
             if code =? 7 then slot_new :: parked else parked)
        | QCommit slot ab =>
            if negb (memZ slot parked) then (code =? 9, cids, alive, parked) else
            let cid := nth (Z.to_nat slot) cids 0 in
            let taken := memZ cid (map fst prev) in
            let parked1 := filter (fun x => negb (x =? slot)) parked in
            if ab then (code =? 9, cids, alive, parked1)
            else if negb taken && full then (code =? 3, cids, alive, parked1)
            else (code =? 0, cids, slot :: alive, parked1)
        | QDisc slot =>
            (code =? 9, cids, filter (fun x => negb (x =? slot)) alive, parked)
        | QDel cid _ =>
            (* the reconnect is accepted, or refused only at the cap *)
            ((code =? 0) || ((code =? 3) && full), cids ++ [cid],
             if code =? 0 then slot_new :: alive else alive, parked)
        end in
      ok &&
      (* the connections that are served never exceed the cap *)
      (if 0 <? cap then q_served st <=? cap else true) &&
      (* the cap *)
      (if 0 <? cap then Z.of_nat (List.length (q_clients st)) <=? cap else true) &&
      (* every registered client is a live accepted connection (capacity of closed connections is released) *)
      forallb (fun e => memZ (snd e) alive') (q_clients st) &&
      prop_mq_steps cap (q_clients st) cids' alive' parked' ot bt
  | _, _ => false
  end.

(** [alive]: final census of connections answering PINGREQ (-1 = not taken) *)
Definition prop_mq (cap : Z) (ops : list mop) (obs : list mq_step) (desync : bool) (alive : Z) : bool :=
  negb desync && prop_mq_steps cap [] [] [] [] ops obs && (if 0 <? cap then alive <=? cap else true).

Definition mq_has_code (k : Z) (obs : list mq_step) : bool := existsb (fun st => q_code st =? k) obs.
Definition mq_has_abort (ops : list mop) : bool := existsb (fun o => match o with QCommit _ true => true | _ => false end) ops.
Definition mq_has_del (ops : list mop) : bool := existsb (fun o => match o with QDel _ _ => true | _ => false end) ops.

Definition class_mq (c : mq_case) : N :=
  let unlimited := qc_cap c <=? 0 in
  if negb (mq_has_code 0 (qc_obs c)) then 0%N else
  (1 + bN (mq_has_code 3 (qc_obs c)) 1 + bN (mq_has_abort (qc_ops c)) 2 + bN unlimited 4 + bN (mq_has_del (qc_ops c)) 8)%N.

Definition check_mq_with (pinned : quirks) (c : mq_case) : result :=
  let model q := mq_model q (minit (qc_cap c)) [] (qc_ops c) in
  let '(msteps, mfinal) := model pinned in
  let corr := list_eqb mq_step_eqb msteps (qc_obs c) && negb (qc_desync c) &&
              ((qc_alive c <? 0) || (qc_alive c =? nserved mfinal)) in
  let prop := prop_mq (qc_cap c) (qc_ops c) (qc_obs c) (qc_desync c) (qc_alive c) in
  let prop_with q := let '(ms, mf) := model q in prop_mq (qc_cap c) (qc_ops c) ms false (nserved mf) in
  (corr, prop, class_mq c, if prop then 0%N else attribute pinned corr prop_with).

Definition explain_mq_with (pinned : quirks) (c : mq_case) :=
  let '(ms, mf) := mq_model pinned (minit (qc_cap c)) [] (qc_ops c) in (ms, nserved mf).

(** * storms (no model run; the always-on counters are judged directly) *)

Record storm_case := {
  st_caps : list Z;          (* capacity of each phase (changed only at quiescent points) *)
  st_max : list Z;           (* per phase: maximum of simultaneously open accepted connections *)
  st_accepted : Z; st_closed : Z; st_panics : Z; st_dropped : Z; st_desync : bool;
  st_final_used : Z          (* permits in use after everything was closed *)
}.

Fixpoint all_le (a b : list Z) : bool :=
  match a, b with
  | [], [] => true
  | x :: ta, y :: tb => (x <=? y) && all_le ta tb
  | _, _ => false
  end.

Definition check_storm (c : storm_case) : result :=
  let prop := negb (st_desync c) && all_le (st_max c) (st_caps c) && (st_panics c =? 0) && (st_dropped c =? 0)
              && (st_accepted c =? st_closed c) && (st_final_used c =? 0) in
  let multi := 1 <? Z.of_nat (List.length (st_caps c)) in
  (prop, prop, if 0 <? st_accepted c then (1 + bN multi 1)%N else 0%N, 0%N).

Record mqstorm_case := {
  ms_cap : Z; ms_unique : bool; ms_max_clients : Z; ms_max_live : Z; ms_accepted : Z; ms_refused : Z;
  ms_other : Z; ms_final : Z; ms_refill : Z; ms_samples : Z
}.

Definition check_mqstorm (c : mqstorm_case) : result :=
  let capped := 0 <? ms_cap c in
  let prop := (ms_other c =? 0) && (0 <? ms_samples c) &&
              (if capped then ms_max_clients c <=? ms_cap c else true) &&
              (if capped && ms_unique c then ms_max_live c <=? ms_cap c else true) &&
              (ms_final c =? 0) && (ms_refill c =? (if capped then ms_cap c else 5)) in
  let refused := 0 <? ms_refused c in
  (prop, prop, if 0 <? ms_accepted c then (1 + bN refused 1 + bN (ms_unique c) 2)%N else 0%N, 0%N).
