(** Case types and per-case check functions for C11 (evaluated by vm_compute on the traces of the
    real code).  Result: (corr, prop, class, attributed-flag), see RLCheck.v.

    [pinned] (the quirk flags of the open known findings) is a parameter of every check function;
    the driver's header defines it from known_findings/C11.json.

    Attribution of a failing [prop] to flag i: the pinned model reproduces the observation exactly
    ([corr]), flag i is pinned on, and the model with ONLY flag i switched off no longer fails at
    the first observable that fails in the observation (for [pipe], where two open defects can
    each cause the same first failure, see [check_pipe]). *)
From EG.lib Require Import Base.
From EG.model Require Import RL Reload.
Open Scope Z_scope.

Definition result := (bool * bool * N * N)%type.
Definition bN (b : bool) (n : N) : N := if b then n else 0%N.

Definition opt_eqb {A} (eqb : A -> A -> bool) (a b : option A) : bool :=
  match a, b with
  | Some x, Some y => eqb x y
  | None, None => true
  | _, _ => false
  end.

Definition without_steal (q : rquirks) : rquirks := {| rq_steal := false; rq_foreign := rq_foreign q |}.
Definition without_foreign (q : rquirks) : rquirks := {| rq_steal := rq_steal q; rq_foreign := false |}.

(** index of the first [false] *)
Fixpoint first_false (l : list bool) (i : nat) : option nat :=
  match l with
  | [] => None
  | b :: t => if b then first_false t (S i) else Some i
  end.

(** [later a b]: failure [a] (of the ablated model) comes strictly after failure [b], or not at all *)
Definition later (a b : option nat) : bool :=
  match a, b with
  | None, _ => true
  | Some x, Some y => Nat.ltb y x
  | Some _, None => false
  end.

(** * grp "sched" / "conc": mux *)

Definition resp_eqb (a b : mx_resp) : bool :=
  (r_status a =? r_status b) && String.eqb (r_handler a) (r_handler b) && String.eqb (r_path a) (r_path b) &&
  String.eqb (r_xff a) (r_xff b) && (r_size a =? r_size b).

Record sched_case := {
  sc_gens : list mx_gen;              (* per spec; gn_comp holds request ids 0 (the request) and 1 (the follow-up) *)
  sc_req : mx_req; sc_follow : mx_req;
  sc_reloads : list (Z * nat);        (* (position where it really ran, spec) in program order *)
  sc_got : mx_resp; sc_gotf : mx_resp;            (* observed (status -1 = panic) *)
  sc_expect : list mx_resp; sc_expectf : list mx_resp;   (* per spec: answer of a quiescent mux *)
  sc_bad : bool }.

Definition gen0 : mx_gen := {| gn_mapper := ""; gn_xff := false; gn_limit := 0; gn_comp := [] |}.
Definition resp0 : mx_resp := mx_fail (-2).

Definition stores_at (c : sched_case) (lo hi : Z) : list mx_label :=
  flat_map (fun '(p, s) => if (lo <=? p) && (p <=? hi) then [LStore (nth s (sc_gens c) gen0)] else []) (sc_reloads c).

(** the interleaving that the harness realised, as a trace of the model *)
Definition sched_trace (c : sched_case) : list mx_label :=
  stores_at c 0 0 ++ [LSpawn (sc_req c); LStep 0; LStep 0] ++
  stores_at c 1 1 ++ [LStep 0; LStep 0; LStep 0; LStep 0] ++
  stores_at c 2 3 ++ [LStep 0] ++
  stores_at c 4 4 ++ [LSpawn (sc_follow c)] ++ repeat (LStep 1) 8.

Definition sched_model (c : sched_case) : option mx_resp * option mx_resp :=
  let w := mx_run (mx_init (nth 0 (sc_gens c) gen0)) (sched_trace c) in
  (match nth_error (mw_threads w) 0 with Some t => t_out t | None => None end,
   match nth_error (mw_threads w) 1 with Some t => t_out t | None => None end).

Definition last_spec (rl : list (Z * nat)) : nat := fold_left (fun _ '(_, s) => s) rl O.

(** specs of the generations that were live at some moment of the request *)
Definition live_specs (rl : list (Z * nat)) : list nat :=
  last_spec (filter (fun '(p, _) => p =? 0) rl) ::
  map snd (filter (fun '(p, _) => (1 <=? p) && (p <=? 3)) rl).

(** independent of the quiescent-mux oracle: a handler that ran was handed out by the MuxMapper of
    the generation the answer is attributed to *)
Definition mapper_ok (g : mx_gen) (got : mx_resp) : bool :=
  negb (r_status got =? 200) || String.prefix (gn_mapper g ++ "/") (r_handler got).

Definition sched_prop (c : sched_case) : bool :=
  existsb (fun s => resp_eqb (sc_got c) (nth s (sc_expect c) resp0) && mapper_ok (nth s (sc_gens c) gen0) (sc_got c))
          (live_specs (sc_reloads c)) &&
  resp_eqb (sc_gotf c) (nth (last_spec (sc_reloads c)) (sc_expectf c) resp0) &&
  mapper_ok (nth (last_spec (sc_reloads c)) (sc_gens c) gen0) (sc_gotf c).

Definition check_sched (pinned : rquirks) (c : sched_case) : result :=
  if sc_bad c then (true, true, 0%N, 0%N) else
  let '(m0, m1) := sched_model c in
  let mid := existsb (fun '(p, _) => (1 <=? p) && (p <=? 3)) (sc_reloads c) in
  let ok200 := r_status (sc_got c) =? 200 in
  (opt_eqb resp_eqb m0 (Some (sc_got c)) && opt_eqb resp_eqb m1 (Some (sc_gotf c)),
   sched_prop c,
   (1 + bN (negb (resp_eqb (sc_got c) (nth (last_spec (sc_reloads c)) (sc_expect c) resp0))) 1
      + bN mid 2 + bN ok200 4)%N,
   0%N).

Definition explain_sched (c : sched_case) := sched_model c.

Record conc_case := {
  cc_gens : list mx_gen;              (* gn_comp holds one row per request index *)
  cc_reqs : list mx_req;
  cc_flips : list nat;
  cc_seen : list (Z * nat * mx_resp); (* phase 0 before | 1 during | 2 after the last reload returned *)
  cc_expect : list (list mx_resp);    (* [spec][req] quiescent answers *)
  cc_bad : bool }.

Definition req0 : mx_req := {| rq_id := -1; rq_len := 0; rq_xff_off := ""; rq_xff_on := "" |}.

Definition conc_allowed (c : conc_case) (phase : Z) : list nat :=
  if phase =? 0 then [O]
  else if phase =? 2 then [fold_left (fun _ s => s) (cc_flips c) O]
  else O :: cc_flips c.

Definition conc_corr_one (c : conc_case) (x : Z * nat * mx_resp) : bool :=
  let '(ph, ri, got) := x in
  existsb (fun s => opt_eqb resp_eqb (mx_serve (nth s (cc_gens c) gen0) (nth ri (cc_reqs c) req0)) (Some got))
          (conc_allowed c ph).

Definition conc_prop_one (c : conc_case) (x : Z * nat * mx_resp) : bool :=
  let '(ph, ri, got) := x in
  existsb (fun s => resp_eqb got (nth ri (nth s (cc_expect c) []) resp0) && mapper_ok (nth s (cc_gens c) gen0) got)
          (conc_allowed c ph).

(** did the sample really contain answers of two different generations for one request? *)
Definition conc_two_gens (c : conc_case) : bool :=
  existsb (fun '(ph1, r1, g1) => (ph1 =? 1) &&
     existsb (fun '(ph2, r2, g2) => (ph2 =? 1) && Nat.eqb r1 r2 && negb (resp_eqb g1 g2)) (cc_seen c)) (cc_seen c).

Definition check_conc (pinned : rquirks) (c : conc_case) : result :=
  if cc_bad c then (true, true, 0%N, 0%N) else
  (forallb (conc_corr_one c) (cc_seen c), forallb (conc_prop_one c) (cc_seen c),
   (1 + bN (conc_two_gens c) 1)%N, 0%N).

Definition explain_conc (c : conc_case) :=
  map (fun g => map (fun r => mx_serve g r) (cc_reqs c)) (cc_gens c).

(** * grp "rlf": RateLimiter filter histories (model: RL.fstep) *)

Inductive rl_in :=
| RInit (spec : nat) (dt : Z) (refs : list Z) (pols twin : list (list Z))
| RInherit (spec from : nat) (dt : Z) (panicked : bool) (refs fromrefs : list Z) (pols twin : list (list Z))
| RHandle (g : nat) (dt : Z) (matches : list bool) (code : Z).   (* 0 pass | 1 limited+429 | 2 panic | 3 other *)
(** [pols]: (limitForPeriod, timeout, period) that the limiter object of each rule of the new
    generation enforces; [twin]: the same for a never-inherited filter built from the same spec *)

Record rlf_case := { rc_specs : list fspec; rc_ops : list rl_in; rc_bad : bool }.

Definition ref_code (r : option Z) : Z := match r with Some k => k | None => -1 end.
Definition fout_code (o : fout) : Z := match o with FPass _ _ => 0 | FLimited _ => 1 | FPanic => 2 end.
Definition spec_at (specs : list fspec) (i : nat) : fspec := nth i specs empty_spec.
Definition refs_of (w : fworld) (g : nat) : list Z :=
  match nth_error (w_gens w) g with Some x => map ref_code (g_lims x) | None => [] end.

Definition pol_row (p : policy) : list Z := [pL p; pT p; pP p].
Definition pols_of (h : heap) (refs : list (option Z)) : list (list Z) :=
  map (fun r => match r with
                | Some k => match hget h k with Some x => pol_row (lpol x) | None => [-1; -1; -1] end
                | None => [-1; -1; -1]
                end) refs.
(** what a filter created by Init alone from [s] enforces per rule *)
Definition fresh_pols (s : fspec) : list (list Z) :=
  map (fun u => pol_row (lib_policy (bound_policy s u))) (fs_urls s).

(** the model's own version of the history: same inputs (and oracle rows), its outputs *)
Fixpoint rl_replay (q : RL.quirks) (specs : list fspec) (w : fworld) (now : Z) (ops : list rl_in) : list rl_in :=
  match ops with
  | [] => []
  | RInit si dt _ _ _ :: t =>
      let now' := now + dt in
      let '(w', o) := fstep q w (FInit (spec_at specs si) now') in
      (match o with
       | OGen r => RInit si dt (map ref_code r) (pols_of (w_heap w') r) (fresh_pols (spec_at specs si))
       | _ => RInit si dt [-9] [] []
       end) :: rl_replay q specs w' now' t
  | RInherit si from dt _ _ _ _ _ :: t =>
      let now' := now + dt in
      let '(w', o) := fstep q w (FInherit (spec_at specs si) from now') in
      (match o with
       | OGen r => RInherit si from dt false (map ref_code r) (refs_of w' from) (pols_of (w_heap w') r) (fresh_pols (spec_at specs si))
       | OInheritPanic => RInherit si from dt true [] (refs_of w' from) [] (fresh_pols (spec_at specs si))
       | _ => RInherit si from dt true [-9] [-9] [] []
       end) :: rl_replay q specs w' now' t
  | RHandle g dt m _ :: t =>
      let now' := now + dt in
      let '(w', o) := fstep q w (FHandle g now' m) in
      RHandle g dt m (match o with OHandle r => fout_code r | _ => 3 end) :: rl_replay q specs w' now' t
  end.

(** limiter identities are compared up to renaming: both sides are renumbered in order of first
    appearance (the harness can only number the pointers it sees; a limiter created by an Inherit
    that then panics is never seen) *)
Fixpoint canon_ids (m : list (Z * Z)) (ids : list Z) : list (Z * Z) * list Z :=
  match ids with
  | [] => (m, [])
  | x :: t =>
      if x <? 0 then let '(m', r) := canon_ids m t in (m', x :: r) else
      match zlookup x m with
      | Some y => let '(m', r) := canon_ids m t in (m', y :: r)
      | None =>
          let y := Z.of_nat (List.length m) in
          let '(m', r) := canon_ids ((x, y) :: m) t in (m', y :: r)
      end
  end.

Fixpoint canon_ops (m : list (Z * Z)) (ops : list rl_in) : list rl_in :=
  match ops with
  | [] => []
  | RInit s d refs ps tw :: t => let '(m1, r) := canon_ids m refs in RInit s d r ps tw :: canon_ops m1 t
  | RInherit s f d p refs fr ps tw :: t =>
      let '(m1, r) := canon_ids m refs in
      let '(m2, r2) := canon_ids m1 fr in
      RInherit s f d p r r2 ps tw :: canon_ops m2 t
  | o :: t => o :: canon_ops m t
  end.

Definition rl_in_eqb (a b : rl_in) : bool :=
  match a, b with
  | RInit s1 d1 r1 a1 b1, RInit s2 d2 r2 a2 b2 =>
      Nat.eqb s1 s2 && (d1 =? d2) && list_eqb Z.eqb r1 r2 &&
      list_eqb (list_eqb Z.eqb) a1 a2 && list_eqb (list_eqb Z.eqb) b1 b2
  | RInherit s1 f1 d1 p1 r1 o1 a1 b1, RInherit s2 f2 d2 p2 r2 o2 a2 b2 =>
      Nat.eqb s1 s2 && Nat.eqb f1 f2 && (d1 =? d2) && Bool.eqb p1 p2 && list_eqb Z.eqb r1 r2 && list_eqb Z.eqb o1 o2 &&
      list_eqb (list_eqb Z.eqb) a1 a2 && list_eqb (list_eqb Z.eqb) b1 b2
  | RHandle g1 d1 m1 c1, RHandle g2 d2 m2 c2 =>
      Nat.eqb g1 g2 && (d1 =? d2) && list_eqb Bool.eqb m1 m2 && (c1 =? c2)
  | _, _ => false
  end.

(** property on a history (observed or replayed): per step ok / not ok.
    [known] = limiter identities of every generation as last established. *)
Fixpoint rl_prop_steps (known : list (list Z)) (ops : list rl_in) : list bool :=
  match ops with
  | [] => []
  | RInit _ _ refs ps tw :: t =>
      (negb (existsb (Z.eqb (-1)) refs) && list_eqb (list_eqb Z.eqb) ps tw) :: rl_prop_steps (known ++ [refs]) t
  | RInherit _ from _ pk refs fromrefs ps tw :: t =>
      (* Inherit does not panic, the new generation has a limiter for every rule, the generation
         inherited from still holds every limiter it had, and the new generation enforces exactly the
         limits a freshly created filter with the same spec enforces *)
      (negb pk && negb (existsb (Z.eqb (-1)) refs) && list_eqb Z.eqb fromrefs (nth from known [-8]) &&
       list_eqb (list_eqb Z.eqb) ps tw)
        :: rl_prop_steps (if pk then known else known ++ [refs]) t
  | RHandle _ _ m code :: t =>
      (((code =? 0) || (code =? 1)) && (if existsb (fun b => b) m then true else code =? 0))
        :: rl_prop_steps known t
  end.

Definition is_rinherit (o : rl_in) : bool := match o with RInherit _ _ _ _ _ _ _ _ => true | _ => false end.
Definition is_limited (o : rl_in) : bool := match o with RHandle _ _ _ c => c =? 1 | _ => false end.

(** some request was handled by a generation that had already been inherited from *)
Fixpoint old_handled (inherited : list nat) (ops : list rl_in) : bool :=
  match ops with
  | [] => false
  | RInherit _ from _ _ _ _ _ _ :: t => old_handled (from :: inherited) t
  | RHandle g _ m _ :: t => (existsb (Nat.eqb g) inherited && existsb (fun b => b) m) || old_handled inherited t
  | _ :: t => old_handled inherited t
  end.

Definition check_rlf (pinned : rquirks) (c : rlf_case) : result :=
  if rc_bad c then (true, true, 0%N, 0%N) else
  let corr := list_eqb rl_in_eqb (canon_ops [] (rl_replay (rl_quirks pinned) (rc_specs c) fworld0 0 (rc_ops c)))
                                 (canon_ops [] (rc_ops c)) in
  let ff := first_false (rl_prop_steps [] (rc_ops c)) O in
  let prop := match ff with None => true | Some _ => false end in
  let ablated := first_false (rl_prop_steps [] (rl_replay (rl_quirks (without_steal pinned)) (rc_specs c) fworld0 0 (rc_ops c))) O in
  (corr, prop,
   (1 + bN (existsb is_rinherit (rc_ops c)) 1 + bN (existsb is_limited (rc_ops c)) 2 + bN (old_handled [] (rc_ops c)) 4)%N,
   if negb prop && corr && rq_steal pinned && later ablated ff then 1%N else 0%N).

Definition explain_rlf (pinned : rquirks) (c : rlf_case) :=
  canon_ops [] (rl_replay (rl_quirks pinned) (rc_specs c) fworld0 0 (rc_ops c)).

(** * grp "inh": kinds with Inherit = Init *)

(** (panicked, result, status, digest of the whole context) *)
Definition outcome := (bool * string * Z * string)%type.
Definition outcome_eqb (a b : outcome) : bool :=
  let '(p1, r1, s1, d1) := a in let '(p2, r2, s2, d2) := b in
  Bool.eqb p1 p2 && String.eqb r1 r2 && (s1 =? s2) && String.eqb d1 d2.

Record inh_step := { is_op : pk_op; is_panic : bool; is_out : outcome; is_twin : outcome }.
Record inh_case := { ic_kind : N; ic_steps : list inh_step; ic_bad : bool }.

Definition key := (nat * list nat)%type.
Definition key_eqb (a b : key) : bool := Nat.eqb (fst a) (fst b) && list_eqb Nat.eqb (snd a) (snd b).

Fixpoint klookup (k : key) (l : list (key * outcome)) : option outcome :=
  match l with
  | [] => None
  | (k', v) :: t => if key_eqb k k' then Some v else klookup k t
  end.

(** oracle table of the kind: (spec, request history) -> answer of a never-inherited twin *)
Fixpoint inh_table (gs : list pk_gen) (steps : list inh_step) (tbl : list (key * outcome)) : list (key * outcome) :=
  match steps with
  | [] => tbl
  | s :: t =>
      let tbl' := match is_op s with
                  | KHandle g r =>
                      match nth_error gs g with
                      | Some x => let k := (kg_spec x, kg_hist x ++ [r]) in
                                  match klookup k tbl with Some _ => tbl | None => tbl ++ [(k, is_twin s)] end
                      | None => tbl
                      end
                  | _ => tbl
                  end in
      inh_table (fst (pk_step (fun _ _ => tt) gs (is_op s))) t tbl'
  end.

Definition bad_outcome : outcome := (true, "oracle-miss"%string, -1, ""%string).

Definition inh_model (c : inh_case) : list (option outcome) :=
  let tbl := inh_table [] (ic_steps c) [] in
  pk_run (fun s h => match klookup (s, h) tbl with Some v => v | None => bad_outcome end) [] (map is_op (ic_steps c)).

Definition inh_corr_one (m : option outcome) (s : inh_step) : bool :=
  match is_op s, m with
  | KHandle _ _, Some v => outcome_eqb v (is_out s) && outcome_eqb v (is_twin s)
  | KHandle _ _, None => false
  | _, _ => negb (is_panic s)
  end.

Fixpoint forallb2 {A B} (f : A -> B -> bool) (l1 : list A) (l2 : list B) : bool :=
  match l1, l2 with
  | [], [] => true
  | a :: t1, b :: t2 => f a b && forallb2 f t1 t2
  | _, _ => false
  end.

(** no lifecycle call panics; every answer is the twin's answer *)
Definition inh_prop_one (s : inh_step) : bool :=
  match is_op s with
  | KHandle _ _ => outcome_eqb (is_out s) (is_twin s)
  | _ => negb (is_panic s)
  end.

Fixpoint inh_old_handled (inherited closed : list nat) (ops : list pk_op) : bool * bool :=
  match ops with
  | [] => (false, false)
  | KInherit _ from :: t => inh_old_handled (from :: inherited) closed t
  | KClose g :: t => inh_old_handled inherited (g :: closed) t
  | KHandle g _ :: t =>
      let '(a, b) := inh_old_handled inherited closed t in
      (a || existsb (Nat.eqb g) inherited, b || existsb (Nat.eqb g) closed)
  | _ :: t => inh_old_handled inherited closed t
  end.

Definition check_inh (pinned : rquirks) (c : inh_case) : result :=
  if ic_bad c then (true, true, 0%N, 0%N) else
  let '(oldh, closedh) := inh_old_handled [] [] (map is_op (ic_steps c)) in
  (forallb2 inh_corr_one (inh_model c) (ic_steps c), forallb inh_prop_one (ic_steps c),
   (1 + bN oldh 1 + bN closedh 2 + 4 * ic_kind c)%N, 0%N).

Definition explain_inh (c : inh_case) := inh_model c.

(** * grp "pipe": Pipeline.Init / Inherit / Handle *)

Definition ev_eqb (a b : pl_ev) : bool :=
  match a, b with
  | EInit i n, EInit j m => (i =? j) && String.eqb n m
  | EInherit i n f, EInherit j m g => (i =? j) && String.eqb n m && (f =? g)
  | EClose i n, EClose j m => (i =? j) && String.eqb n m
  | EHandle i n, EHandle j m => (i =? j) && String.eqb n m
  | _, _ => false
  end.

Definition res_eqb (a b : pl_res) : bool :=
  match a, b with
  | PRes r s, PRes r' s' => String.eqb r r' && (s =? s')
  | PPanic, PPanic => true
  | _, _ => false
  end.

Definition obs_eqb (a b : pl_obs) : bool :=
  match a, b with
  | PoLife p e, PoLife p' e' => Bool.eqb p p' && list_eqb ev_eqb e e'
  | PoHandle e r, PoHandle e' r' => list_eqb ev_eqb e e' && res_eqb r r'
  | PoBad, PoBad => true
  | _, _ => false
  end.

Record pipe_case := { pc_specs : list (list pl_fspec); pc_ops : list pl_op; pc_obs : list pl_obs; pc_bad : bool }.

Fixpoint nlookup {A} (k : nat) (l : list (nat * A)) : option A :=
  match l with
  | [] => None
  | (k', v) :: t => if Nat.eqb k k' then Some v else nlookup k t
  end.

(** the observation of the first request handled by generation [g] in a history *)
Fixpoint first_handle (g : nat) (ops : list pl_op) (obs : list pl_obs) : option pl_obs :=
  match ops, obs with
  | PlHandle g' :: ot, b :: bt => if Nat.eqb g' g then Some b else first_handle g ot bt
  | _ :: ot, _ :: bt => first_handle g ot bt
  | _, _ => None
  end.

(** recorder ids of the filter instances CREATED by a lifecycle observation *)
Definition created_ids (b : pl_obs) : list Z :=
  match b with
  | PoLife _ evs => flat_map (fun e => match e with EInit i _ | EInherit i _ _ => [i] | _ => [] end) evs
  | _ => []
  end.

(** per pipeline generation (= per Init/Inherit op, in order): the instances it created *)
Fixpoint pipe_owned (ops : list pl_op) (obs : list pl_obs) : list (list Z) :=
  match ops, obs with
  | PlHandle _ :: ot, _ :: bt => pipe_owned ot bt
  | _ :: ot, b :: bt => created_ids b :: pipe_owned ot bt
  | _, _ => []
  end.

Definition is_ppanic (r : pl_res) : bool := match r with PPanic => true | _ => false end.
Definition handle_ev_in (ids : list Z) (e : pl_ev) : bool :=
  match e with EHandle i _ => existsb (Z.eqb i) ids | _ => false end.

(** property of ONE step of an observed (or model) history [ops0]/[obs0]: no lifecycle panic; a
    request handled by generation [g] does not panic, visits only filter instances created by [g]
    (one generation per request) and is answered exactly like the FIRST request that [g] ever
    handled (same instances in the same order, same result) - in particular after [g] has been
    inherited from and closed. *)
Definition pipe_step_ok (ops0 : list pl_op) (obs0 : list pl_obs) (o : pl_op) (b : pl_obs) : bool :=
  match o, b with
  | PlHandle g, PoHandle evs r =>
      negb (is_ppanic r) && opt_eqb obs_eqb (first_handle g ops0 obs0) (Some b) &&
      forallb (handle_ev_in (nth g (pipe_owned ops0 obs0) [])) evs
  | PlHandle _, _ => false
  | _, PoLife pk _ => negb pk
  | _, _ => false
  end.

Fixpoint pipe_steps_aux (ops0 : list pl_op) (obs0 : list pl_obs) (ops : list pl_op) (obs : list pl_obs) : list bool :=
  match ops, obs with
  | [], [] => []
  | o :: ot, b :: bt => pipe_step_ok ops0 obs0 o b :: pipe_steps_aux ops0 obs0 ot bt
  | _, _ => [false]                      (* an operation without observation or vice versa *)
  end.

Definition pipe_steps (ops : list pl_op) (obs : list pl_obs) : list bool := pipe_steps_aux ops obs ops obs.
Definition pipe_prop (ops : list pl_op) (obs : list pl_obs) : bool :=
  match first_false (pipe_steps ops obs) O with None => true | Some _ => false end.

Fixpoint pipe_old_handled (inherited : list nat) (ops : list pl_op) : bool :=
  match ops with
  | [] => false
  | PlInherit _ from :: t => pipe_old_handled (from :: inherited) t
  | PlHandle g :: t => existsb (Nat.eqb g) inherited || pipe_old_handled inherited t
  | _ :: t => pipe_old_handled inherited t
  end.

Definition has_close (b : pl_obs) : bool :=
  match b with PoLife _ e => existsb (fun x => match x with EClose _ _ => true | _ => false end) e | _ => false end.
Definition has_inherit_ev (b : pl_obs) : bool :=
  match b with PoLife _ e => existsb (fun x => match x with EInherit _ _ _ => true | _ => false end) e | _ => false end.

Definition check_pipe (pinned : rquirks) (c : pipe_case) : result :=
  if pc_bad c then (true, true, 0%N, 0%N) else
  let model q := pl_run q (pc_specs c) pl_world0 (pc_ops c) in
  let corr := list_eqb obs_eqb (model pinned) (pc_obs c) in
  let ff := first_false (pipe_steps (pc_ops c) (pc_obs c)) O in
  let prop := pipe_prop (pc_ops c) (pc_obs c) in
  let ff_of q := first_false (pipe_steps (pc_ops c) (model q)) O in
  (* necessary cause: without flag i alone the first failure disappears (or moves later) *)
  let nec1 := rq_steal pinned && later (ff_of (without_steal pinned)) ff in
  let nec2 := rq_foreign pinned && later (ff_of (without_foreign pinned)) ff in
  (* two open defects can each cause the same first failure (e.g. an update that changes one filter's
     kind AND re-inherits a limiter that was already handed over): then neither is necessary; the
     failure is attributed to a flag that alone is sufficient for it, provided the model without any
     flag does not fail there *)
  let ideal_ok := later (ff_of rideal) ff in
  let suf1 := rq_steal pinned && ideal_ok && opt_eqb Nat.eqb (ff_of (without_foreign pinned)) ff in
  let suf2 := rq_foreign pinned && ideal_ok && opt_eqb Nat.eqb (ff_of (without_steal pinned)) ff in
  (corr, prop,
   (1 + bN (pipe_old_handled [] (pc_ops c)) 1 + bN (existsb has_close (pc_obs c)) 2
      + bN (existsb has_inherit_ev (pc_obs c)) 4)%N,
   if negb prop && corr then
     if nec1 then 1%N else if nec2 then 2%N else if suf1 then 1%N else if suf2 then 2%N else 0%N
   else 0%N).

Definition explain_pipe (pinned : rquirks) (c : pipe_case) := pl_run pinned (pc_specs c) pl_world0 (pc_ops c).

(** * grp "tc": TrafficController *)

Definition tev_eqb (a b : tc_ev) : bool :=
  match a, b with
  | TInit c i n t, TInit c' i' n' t' => tc_cat_eqb c c' && (i =? i') && String.eqb n n' && (t =? t')
  | TInherit c i n t f, TInherit c' i' n' t' f' =>
      tc_cat_eqb c c' && (i =? i') && String.eqb n n' && (t =? t') && (f =? f')
  | TClose c i n t, TClose c' i' n' t' => tc_cat_eqb c c' && (i =? i') && String.eqb n n' && (t =? t')
  | THandle i n t, THandle i' n' t' => (i =? i') && String.eqb n n' && (t =? t')
  | _, _ => false
  end.

Definition snap_ent := (string * tc_cat * string * Z)%type.      (* namespace, category, name, instance id *)
Definition sent_eqb (a b : snap_ent) : bool :=
  let '(n1, c1, m1, i1) := a in let '(n2, c2, m2, i2) := b in
  String.eqb n1 n2 && tc_cat_eqb c1 c2 && String.eqb m1 m2 && (i1 =? i2).
Definition sent_key_eqb (a : snap_ent) (k : tc_cat * string * string) : bool :=
  let '(n1, c1, m1, _) := a in let '(c2, n2, m2) := k in
  String.eqb n1 n2 && tc_cat_eqb c1 c2 && String.eqb m1 m2.
Definition sent_ns (a : snap_ent) : string := let '(n, _, _, _) := a in n.
Definition sent_id (a : snap_ent) : Z := let '(_, _, _, i) := a in i.

Record tc_obs := { to_err : bool; to_panic : bool; to_ret : Z; to_evs : list tc_ev;
                   to_mid : list (list snap_ent);   (* view from inside each lifecycle callback *)
                   to_snap : list snap_ent; to_spaces : list string }.
Record tc_case := { tcc_ops : list tc_op; tcc_obs : list tc_obs; tcc_bad : bool }.

Definition snap_of (st : tc_state) : list snap_ent :=
  flat_map (fun '(ns, s) => map (fun '(n, e) => (ns, CG, n, e_id e)) (sp_gates s) ++
                            map (fun '(n, e) => (ns, CP, n, e_id e)) (sp_pipes s)) (ts_spaces st).

Definition subset {A} (eqb : A -> A -> bool) (a b : list A) : bool := forallb (fun x => existsb (eqb x) b) a.
Definition same_set {A} (eqb : A -> A -> bool) (a b : list A) : bool :=
  subset eqb a b && subset eqb b a && Nat.eqb (List.length a) (List.length b).

(** views from inside the lifecycle callbacks of one op, per the model *)
Definition tc_mids (pre : tc_state) (op : tc_op) (r : tc_result) : list (list snap_ent) :=
  match op with
  | TClean _ | TGet _ _ => []
  | _ => match tr_evs r with [] => [] | _ => [snap_of (tc_during pre op)] end
  end.

Definition tc_corr_one (pre : tc_state) (op : tc_op) (m : tc_state * tc_result) (o : tc_obs) : bool :=
  let '(st, r) := m in
  negb (to_panic o) && Bool.eqb (tr_err r) (to_err o) && (tr_ret r =? to_ret o) &&
  list_eqb tev_eqb (tr_evs r) (to_evs o) && same_set sent_eqb (snap_of st) (to_snap o) &&
  same_set String.eqb (map fst (ts_spaces st)) (to_spaces o) &&
  list_eqb (same_set sent_eqb) (tc_mids pre op r) (to_mid o).

Fixpoint tc_corr_all (pre : tc_state) (ops : list tc_op) (obs : list tc_obs) : bool :=
  match ops, obs with
  | [], [] => true
  | op :: ot, o :: bt =>
      let m := tc_step pre op in
      tc_corr_one pre op m o && tc_corr_all (fst m) ot bt
  | _, _ => false
  end.

Definition ev_tag (e : tc_ev) : option (Z * Z) :=
  match e with TInit _ i _ t | TInherit _ i _ t _ => Some (i, t) | _ => None end.
Definition ev_about (e : tc_ev) (c : tc_cat) (name : string) : bool :=
  match e with
  | TInit c' _ n _ | TInherit c' _ n _ _ | TClose c' _ n _ => tc_cat_eqb c c' && String.eqb n name
  | THandle _ n _ => tc_cat_eqb c CP && String.eqb n name
  end.
Definition ev_is_close_of (ids : list Z) (e : tc_ev) : bool :=
  match e with TClose _ i _ _ => existsb (Z.eqb i) ids | _ => false end.

Definition find_ent (snap : list snap_ent) (k : tc_cat * string * string) : option Z :=
  match filter (fun a => sent_key_eqb a k) snap with
  | a :: _ => Some (sent_id a)
  | [] => None
  end.

(** the property on the implementation's own observations: previous snapshot [prev], tags of the
    live instances [tags] (from the Init/Inherit events seen so far) *)
(** inside the operation: every OTHER object is served as before; and while an object is being
    created over / updated / applied, its previous generation is still served (never unavailable) *)
Definition tc_mid_ok (prev : list snap_ent) (op : tc_op) (m : list snap_ent) : bool :=
  match tc_target op with
  | None => true
  | Some k =>
      same_set sent_eqb (filter (fun a => negb (sent_key_eqb a k)) prev)
                        (filter (fun a => negb (sent_key_eqb a k)) m) &&
      match op with
      | TCreate _ _ _ _ | TUpdate _ _ _ _ | TApply _ _ _ _ =>
          match find_ent prev k with
          | Some i => opt_eqb Z.eqb (find_ent m k) (Some i)
          | None => true
          end
      | _ => true
      end
  end.

Definition tc_prop_one (prev : list snap_ent) (tags : list (Z * Z)) (op : tc_op) (o : tc_obs) : bool :=
  negb (to_panic o) && forallb (tc_mid_ok prev op) (to_mid o) &&
  match op with
  | TClean ns =>
      (* frame: other namespaces untouched; only objects of [ns] are closed *)
      same_set sent_eqb (filter (fun a => negb (String.eqb (sent_ns a) ns)) prev)
                        (filter (fun a => negb (String.eqb (sent_ns a) ns)) (to_snap o)) &&
      forallb (ev_is_close_of (map sent_id (filter (fun a => String.eqb (sent_ns a) ns) prev))) (to_evs o)
  | _ =>
      match tc_target op with
      | None => true
      | Some k =>
          let '(c, ns, name) := k in
          (* frame: every other object keeps its instance; every event is about this object *)
          same_set sent_eqb (filter (fun a => negb (sent_key_eqb a k)) prev)
                            (filter (fun a => negb (sent_key_eqb a k)) (to_snap o)) &&
          forallb (fun e => ev_about e c name) (to_evs o) &&
          match op with
          | TApply _ _ _ tag =>
              match find_ent prev k with
              | Some i =>
                  if opt_eqb Z.eqb (zlookup i tags) (Some tag) then
                    (* unchanged spec: no-op *)
                    negb (to_err o) && (to_ret o =? i) && match to_evs o with [] => true | _ => false end &&
                    same_set sent_eqb prev (to_snap o)
                  else
                    (* changed: the new instance is live, inherited from the previous one *)
                    to_err o || (opt_eqb Z.eqb (find_ent (to_snap o) k) (Some (to_ret o)) && negb (to_ret o =? i))
              | None => to_err o || opt_eqb Z.eqb (find_ent (to_snap o) k) (Some (to_ret o))
              end
          | TCreate _ _ _ _ | TUpdate _ _ _ _ =>
              if to_err o then same_set sent_eqb prev (to_snap o)
              else opt_eqb Z.eqb (find_ent (to_snap o) k) (Some (to_ret o))
          | TDelete _ _ _ =>
              if to_err o then same_set sent_eqb prev (to_snap o)
              else match find_ent (to_snap o) k with None => true | Some _ => false end
          | TGet _ _ =>
              (* a request gets the live instance, and exactly when there is one *)
              same_set sent_eqb prev (to_snap o) &&
              match find_ent prev k with
              | Some i => negb (to_err o) && (to_ret o =? i)
              | None => to_err o
              end
          | TClean _ => true
          end
      end
  end.

Fixpoint tc_prop_all (prev : list snap_ent) (tags : list (Z * Z)) (ops : list tc_op) (obs : list tc_obs) : bool :=
  match ops, obs with
  | [], [] => true
  | op :: ot, o :: bt =>
      tc_prop_one prev tags op o &&
      tc_prop_all (to_snap o)
                  (flat_map (fun e => match ev_tag e with Some x => [x] | None => [] end) (to_evs o) ++ tags) ot bt
  | _, _ => false
  end.

Definition tc_is_noop (op : tc_op) (o : tc_obs) : bool :=
  match op with TApply _ _ _ _ => negb (to_err o) && match to_evs o with [] => true | _ => false end | _ => false end.
Definition tc_has_inherit (o : tc_obs) : bool :=
  existsb (fun e => match e with TInherit _ _ _ _ _ => true | _ => false end) (to_evs o).
Definition tc_has_close (o : tc_obs) : bool :=
  existsb (fun e => match e with TClose _ _ _ _ => true | _ => false end) (to_evs o).

Definition check_tc (pinned : rquirks) (c : tc_case) : result :=
  if tcc_bad c then (true, true, 0%N, 0%N) else
  (tc_corr_all tc_state0 (tcc_ops c) (tcc_obs c),
   tc_prop_all [] [] (tcc_ops c) (tcc_obs c),
   (1 + bN (existsb (fun b => b) (map (fun '(a, b) => tc_is_noop a b) (combine (tcc_ops c) (tcc_obs c)))) 1
      + bN (existsb tc_has_inherit (tcc_obs c)) 2 + bN (existsb tc_has_close (tcc_obs c)) 4)%N,
   0%N).

Fixpoint explain_tc_from (pre : tc_state) (ops : list tc_op) :=
  match ops with
  | [] => []
  | op :: t => let '(st, r) := tc_step pre op in
               (tr_err r, tr_ret r, tr_evs r, tc_mids pre op r, snap_of st) :: explain_tc_from st t
  end.
Definition explain_tc (c : tc_case) := explain_tc_from tc_state0 (tcc_ops c).

(** * grp "restart": runtime.reload and the listener *)
Record restart_case := { rc_old : rt_spec; rc_new : rt_spec;
                         rc_need : bool; rc_delta : Z;       (* observed decision, observed startNum increase *)
                         rc_live : Z;                         (* 0 not tried | 1 same connection reused | 2 new connection | 3 request failed *)
                         rc_equal_after_load : bool;          (* loaded old spec Equals a fresh parse of the same YAML *)
                         rc_after : list mx_resp;             (* probe answers of the updated runtime *)
                         rc_fresh : list mx_resp;             (* ... of a runtime that only ever had the new spec *)
                         rc_rbad : bool }.

Definition hot_eqb (a b : rt_hot) : bool :=
  String.eqb (rh_rules a) (rh_rules b) && list_eqb String.eqb (rh_ipfilter a) (rh_ipfilter b) &&
  Bool.eqb (rh_xff a) (rh_xff b) && (rh_cache a =? rh_cache b) && (rh_maxconn a =? rh_maxconn b).

Definition check_restart (pinned : rquirks) (c : restart_case) : result :=
  if rc_rbad c then (true, true, 0%N, 0%N) else
  let '(d, keeps) := rt_reload (rc_old c) (rc_new c) in
  let hot_only := rt_listen_eqb (rs_listen (rc_old c)) (rs_listen (rc_new c)) in
  let live := negb (rc_live c =? 0) in
  (Bool.eqb (need_restart (rc_old c) (rc_new c)) (rc_need c) && (d =? rc_delta c) &&
   (if live then Bool.eqb keeps (rc_live c =? 1) else true) &&
   (* the model rebuilds the mux from the new spec unconditionally, and parsing is a function of the YAML *)
   list_eqb resp_eqb (rc_after c) (rc_fresh c) && rc_equal_after_load c,
   (* the property: an update of rules / filters / hot options never restarts the listener, never
      drops the keep-alive connection of a client, never fails its next request *)
   (if hot_only then negb (rc_need c) && (rc_delta c =? 0) && (if live then rc_live c =? 1 else true) else true) &&
   (* once the update is applied, requests are answered like a runtime built from the new spec alone;
      an unchanged spec is recognised as unchanged even after the object has compiled it *)
   list_eqb resp_eqb (rc_after c) (rc_fresh c) && rc_equal_after_load c,
   (1 + bN hot_only 1 + bN (negb (hot_eqb (rs_hot (rc_old c)) (rs_hot (rc_new c)))) 2 + bN live 4
      + bN (match rh_ipfilter (rs_hot (rc_old c)), rh_ipfilter (rs_hot (rc_new c)) with [], [] => false | _, _ => true end) 8)%N,
   0%N).

Definition explain_restart (c : restart_case) :=
  (need_restart (rc_old c) (rc_new c), rt_reload (rc_old c) (rc_new c)).

(** * grp "tcreal": ApplyPipeline with real Pipeline objects; model: [tc_step] on [TApply CP],
    a spec's content standing for its tag *)
Record tcreal_case := { trc_ops : list (string * Z);        (* name, canonical spec content id *)
                        trc_obs : list (bool * Z * Z);      (* error/panic, returned entity id, lifecycle calls *)
                        trc_bad : bool }.

Fixpoint tcreal_corr (st : tc_state) (ops : list (string * Z)) (obs : list (bool * Z * Z)) : bool :=
  match ops, obs with
  | [], [] => true
  | (n, sp) :: ot, (err, ret, nev) :: bt =>
      let '(st', r) := tc_step st (TApply CP "n1" n sp) in
      negb err && negb (tr_err r) && (tr_ret r =? ret) &&
      Bool.eqb (match tr_evs r with [] => true | _ => false end) (nev =? 0) &&
      tcreal_corr st' ot bt
  | _, _ => false
  end.

(** on the observations alone: [live] = per name (spec content, entity id) as last returned *)
Fixpoint tcreal_prop (live : list (string * (Z * Z))) (ops : list (string * Z)) (obs : list (bool * Z * Z)) : bool :=
  match ops, obs with
  | [], [] => true
  | (n, sp) :: ot, (err, ret, nev) :: bt =>
      negb err &&
      (match slookup n live with
       | Some (sp0, id0) =>
           if sp0 =? sp then (nev =? 0) && (ret =? id0)          (* unchanged spec: no lifecycle call, same entity *)
           else negb (nev =? 0) && negb (ret =? id0)
       | None => negb (nev =? 0)
       end) &&
      tcreal_prop (sset n (sp, ret) live) ot bt
  | _, _ => false
  end.

Fixpoint has_reapply (live : list (string * Z)) (ops : list (string * Z)) : bool :=
  match ops with
  | [] => false
  | (n, sp) :: t => opt_eqb Z.eqb (slookup n live) (Some sp) || has_reapply (sset n sp live) t
  end.

Definition check_tcreal (pinned : rquirks) (c : tcreal_case) : result :=
  if trc_bad c then (true, true, 0%N, 0%N) else
  (tcreal_corr tc_state0 (trc_ops c) (trc_obs c), tcreal_prop [] (trc_ops c) (trc_obs c),
   (1 + bN (has_reapply [] (trc_ops c)) 1)%N, 0%N).

Definition explain_tcreal (c : tcreal_case) :=
  map (fun '(st, r) => (tr_err r, tr_ret r, tr_evs r))
      (tc_run tc_state0 (map (fun '(n, sp) => TApply CP "n1" n sp) (trc_ops c))).

(** * grp "reg": ObjectRegistry rounds with undecodable entries *)
Record reg_round := { rr_snap : list (string * option string);
                      rr_panic : bool;
                      rr_create : list (string * string); rr_update : list (string * string); rr_delete : list string;
                      rr_tcreate : list (string * string); rr_tupdate : list (string * string); rr_tdelete : list string }.
Record reg_case := { rg_rounds : list reg_round; rg_bad : bool }.

Definition sv_eqb (a b : string * string) : bool := String.eqb (fst a) (fst b) && String.eqb (snd a) (snd b).

Fixpoint dedup (l : list string) : list string :=
  match l with
  | [] => []
  | x :: t => if existsb (String.eqb x) t then dedup t else x :: dedup t
  end.

Fixpoint reg_corr (ents : list (string * string)) (rs : list reg_round) : bool :=
  match rs with
  | [] => true
  | r :: t =>
      let names := dedup (map fst ents ++ map fst (rr_snap r)) in
      let evs := map (fun n => (n, reg_event ents (rr_snap r) n)) names in
      let cr := flat_map (fun '(n, e) => match e with RCreate v => [(n, v)] | _ => [] end) evs in
      let up := flat_map (fun '(n, e) => match e with RUpdate v => [(n, v)] | _ => [] end) evs in
      let de := flat_map (fun '(n, e) => match e with RDelete => [n] | _ => [] end) evs in
      let ents' := flat_map (fun n => match reg_after ents (rr_snap r) n with Some v => [(n, v)] | None => [] end) names in
      negb (rr_panic r) && same_set sv_eqb cr (rr_create r) && same_set sv_eqb up (rr_update r) &&
      same_set String.eqb de (rr_delete r) && reg_corr ents' t
  end.

(** on the observations alone: for every name that has never been undecodable so far, the registry
    delivers exactly what the twin (fed the rounds without the undecodable entries) delivers *)
Fixpoint reg_prop (tainted : list string) (rs : list reg_round) : bool :=
  match rs with
  | [] => true
  | r :: t =>
      let tainted' := flat_map (fun '(n, v) => match v with None => [n] | Some _ => [] end) (rr_snap r) ++ tainted in
      let ok1 (x : string * string) := negb (existsb (String.eqb (fst x)) tainted') in
      let ok2 (x : string) := negb (existsb (String.eqb x) tainted') in
      negb (rr_panic r) &&
      same_set sv_eqb (filter ok1 (rr_create r)) (filter ok1 (rr_tcreate r)) &&
      same_set sv_eqb (filter ok1 (rr_update r)) (filter ok1 (rr_tupdate r)) &&
      same_set String.eqb (filter ok2 (rr_delete r)) (filter ok2 (rr_tdelete r)) &&
      reg_prop tainted' t
  end.

Definition round_has_bad (r : reg_round) : bool := existsb (fun '(_, v) => match v with None => true | _ => false end) (rr_snap r).
Definition round_has_ev (r : reg_round) : bool :=
  match rr_tcreate r, rr_tupdate r, rr_tdelete r with [], [], [] => false | _, _, _ => true end.

Definition check_reg (pinned : rquirks) (c : reg_case) : result :=
  if rg_bad c then (true, true, 0%N, 0%N) else
  (reg_corr [] (rg_rounds c), reg_prop [] (rg_rounds c),
   (1 + bN (existsb (fun r => round_has_bad r && round_has_ev r) (rg_rounds c)) 1)%N, 0%N).

Fixpoint explain_reg_from (ents : list (string * string)) (rs : list reg_round) :=
  match rs with
  | [] => []
  | r :: t =>
      let names := dedup (map fst ents ++ map fst (rr_snap r)) in
      let ents' := flat_map (fun n => match reg_after ents (rr_snap r) n with Some v => [(n, v)] | None => [] end) names in
      map (fun n => (n, reg_event ents (rr_snap r) n)) names :: explain_reg_from ents' t
  end.
Definition explain_reg (c : reg_case) := explain_reg_from [] (rg_rounds c).

(** * grp "storm": k updates of one HTTPServer behind a busy event loop.  Model: the reload events
    are applied in the order of the Inherit calls ([mx_run] over [LStore]s): the live generation
    never goes backwards and ends as the last update. *)
Record storm_case := { sm_k : Z; sm_seq : list Z; sm_final : Z; sm_bad : bool }.

Fixpoint nondecreasing (l : list Z) : bool :=
  match l with
  | a :: ((b :: _) as t) => (a <=? b) && nondecreasing t
  | _ => true
  end.

Definition storm_prop (c : storm_case) : bool :=
  (sm_final c =? sm_k c) && nondecreasing (sm_seq c) && forallb (fun g => (0 <=? g) && (g <=? sm_k c)) (sm_seq c).

Definition storm_gen (n : Z) : mx_gen := {| gn_mapper := "m"; gn_xff := false; gn_limit := n; gn_comp := [] |}.

Definition check_storm (pinned : rquirks) (c : storm_case) : result :=
  if sm_bad c then (true, true, 0%N, 0%N) else
  let w := mx_run (mx_init (storm_gen 0)) (map (fun n => LStore (storm_gen (Z.of_nat n))) (seq 1 (Z.to_nat (sm_k c)))) in
  let over := 10 <? sm_k c in
  ((gn_limit (mw_inst w) =? sm_final c) && nondecreasing (sm_seq c), storm_prop c,
   (1 + bN over 1)%N, 0%N).

Definition explain_storm (c : storm_case) :=
  gn_limit (mw_inst (mx_run (mx_init (storm_gen 0)) (map (fun n => LStore (storm_gen (Z.of_nat n))) (seq 1 (Z.to_nat (sm_k c)))))).
