(** Case types and per-case check functions for C01 (group "route") and C12
    (group "cache"), evaluated by vm_compute on the traces of the real mux.
    Result: (corr, prop, class, attributed-flag) - see AGENT_GUIDE.md. *)
From EG.lib Require Import Base.
From EG.model Require Import Mux.
Open Scope string_scope.

Definition result := (bool * bool * N * N)%type.

(** *** oracle tables (computed by the harness with the real Go libraries) *)
Record tabs := {
  t_re : list (string * string * bool);               (* pattern, subject, MatchString *)
  t_rep : list (string * string * string * string);   (* pattern, src, repl, ReplaceAllString *)
  t_ip : list (N * string * bool) }.                  (* filter id, client ip, Allow *)

Definition tab_re (t : tabs) (p s : string) : option bool :=
  match find (fun x => String.eqb (fst (fst x)) p && String.eqb (snd (fst x)) s) (t_re t) with
  | Some x => Some (snd x) | None => None end.

Definition tab_rep (t : tabs) (p s r : string) : option string :=
  match find (fun x => String.eqb (fst (fst (fst x))) p && String.eqb (snd (fst (fst x))) s
                       && String.eqb (snd (fst x)) r) (t_rep t) with
  | Some x => Some (snd x) | None => None end.

Definition tab_ip (t : tabs) (f : N) (ip : string) : option bool :=
  match find (fun x => N.eqb (fst (fst x)) f && String.eqb (snd (fst x)) ip) (t_ip t) with
  | Some x => Some (snd x) | None => None end.

Definition o_re (t : tabs) (p s : string) : bool := match tab_re t p s with Some b => b | None => false end.
Definition o_rep (t : tabs) (p s r : string) : string := match tab_rep t p s r with Some x => x | None => "" end.
Definition o_ip (t : tabs) (f : N) (ip : string) : bool := match tab_ip t f ip with Some b => b | None => true end.

Definition isSome {A} (o : option A) : bool := match o with Some _ => true | None => false end.

(** every oracle value the model can ask for on this (server, request) is in the tables
    (a miss is a harness defect and makes [corr] false, never a pass) *)
Definition complete_path (t : tabs) (rq : request) (p : path_entry) : bool :=
  (negb (nonempty (pe_regexp p)) || isSome (tab_re t (pe_regexp p) (rq_path rq)))
  && (negb (nonempty (pe_regexp p) && nonempty (pe_rewrite p))
      || isSome (tab_rep t (pe_regexp p) (rq_path rq) (pe_rewrite p)))
  && forallb (fun h => negb (nonempty (hc_regexp h))
                       || isSome (tab_re t (hc_regexp h) (hget (hc_key h) (rq_headers rq)))) (pe_headers p)
  && forallb (fun f => isSome (tab_ip t f (rq_ip rq))) (fl (pe_filter p)).

Definition complete_req (t : tabs) (sv : server) (rq : request) : bool :=
  forallb (fun f => isSome (tab_ip t f (rq_ip rq))) (fl (sv_filter sv))
  && forallb (fun r =>
       (negb (nonempty (ru_host_re r)) || isSome (tab_re t (ru_host_re r) (strip_port (rq_host rq))))
       && forallb (fun f => isSome (tab_ip t f (rq_ip rq))) (fl (ru_filter r))
       && forallb (complete_path t rq) (ru_paths r)) (sv_rules sv).

(** *** observables *)
Definition obs := (Z * string * string * bool * Z * string)%type.
  (* status, handler invoked, path seen, panic, identity (generation) of the handler invoked
     (0 = none), X-Forwarded-For seen by the handler *)

Definition obs_of (m : mapper) (xff : string) (o : outcome) : obs :=
  match o with
  | Dispatched b p => (200%Z, b, p, false, match alookup b m with Some g => Z.of_N g | None => 0%Z end, xff)
  | Failed c => (c, "", "", false, 0%Z, "")
  | Panicked => (0%Z, "", "", true, 0%Z, "")
  end.

Definition obs_eqb (a b : obs) : bool :=
  let '(s1, b1, p1, x1, g1, f1) := a in let '(s2, b2, p2, x2, g2, f2) := b in
  Z.eqb s1 s2 && String.eqb b1 b2 && String.eqb p1 p2 && Bool.eqb x1 x2 && Z.eqb g1 g2 && String.eqb f1 f2.

Definition bN (b : bool) (n : N) : N := if b then n else 0%N.

Definition status_of (o : obs) : Z := fst (fst (fst (fst (fst o)))).
Definition has_status (c : Z) (l : list obs) : bool := existsb (fun o => Z.eqb (status_of o) c) l.

(** the mapper of a server whose pipelines never change: every known backend, generation 1 *)
Definition static_mapper (sv : server) : mapper := map (fun b => (b, 1%N)) (sv_backends sv).

(** ** C01: group "route" (cache off; one mux instance serves the whole request list, the
    MuxMapper content may change between requests) *)
Record route_case := {
  rc_sv : server;
  rc_tabs : tabs;
  rc_reqs : list request;
  rc_mappers : list mapper;        (* MuxMapper content at the time of each request *)
  rc_hostnames : list string;      (* Go: SplitHostPort success case of each request's host *)
  rc_accepted : bool;              (* the real validation accepted the spec *)
  rc_obs : list obs }.

Definition model_route (c : route_case) : list obs :=
  let t := rc_tabs c in
  map (fun x => obs_of (snd x) (forwarded_for (rc_sv c) (fst x))
                       (mux_serve (o_re t) (o_rep t) (o_ip t) (with_mapper (rc_sv c) (snd x)) (fst x)))
      (combine (rc_reqs c) (rc_mappers c)).

Definition spec_route (c : route_case) : list obs :=
  let t := rc_tabs c in
  map (fun x => obs_of (snd x) (forwarded_for (rc_sv c) (fst x))
                       (if reserved_path (fst x) then Failed 404
                        else serve_spec (o_re t) (o_rep t) (o_ip t) (with_mapper (rc_sv c) (snd x)) (fst x)))
      (combine (rc_reqs c) (rc_mappers c)).

Definition rewritten (reqs : list request) (os : list obs) : bool :=
  existsb (fun x => let '(rq, o) := x in
                    let '(s, b, p, _, _, _) := o in Z.eqb s 200 && negb (String.eqb p (rq_path rq)))
          (combine reqs os).

Definition mapper_eqb (a b : mapper) : bool :=
  list_eqb (fun x y => String.eqb (fst x) (fst y) && N.eqb (snd x) (snd y)) a b.

Fixpoint mapper_changes (l : list mapper) : bool :=
  match l with
  | a :: ((b :: _) as t) => negb (mapper_eqb a b) || mapper_changes t
  | _ => false
  end.

Definition class_obs (reqs : list request) (os : list obs) : N :=
  (1 + bN (has_status 200 os) 1 + bN (has_status 400 os) 2 + bN (has_status 405 os) 4
     + bN (has_status 404 os) 8 + bN (has_status 503 os) 16 + bN (has_status 403 os) 32
     + bN (rewritten reqs os) 64 + bN (has_status 413 os) 256)%N.

Definition check_route (c : route_case) : result :=
  if negb (rc_accepted c) then
    (match rc_obs c with [] => true | _ => false end, true, 0%N, 0%N)
  else
    let t := rc_tabs c in
    let ok_tabs := forallb (complete_req t (rc_sv c)) (rc_reqs c) in
    let ok_host := list_eqb String.eqb (map (fun rq => strip_port (rq_host rq)) (rc_reqs c)) (rc_hostnames c) in
    let ok_len := Nat.eqb (List.length (rc_reqs c)) (List.length (rc_mappers c)) in
    (ok_tabs && ok_host && ok_len && valid_server (rc_sv c) && list_eqb obs_eqb (model_route c) (rc_obs c),
     ok_len && list_eqb obs_eqb (spec_route c) (rc_obs c),
     match rc_reqs c with
     | [] => 0%N
     | _ => (class_obs (rc_reqs c) (rc_obs c) + bN (mapper_changes (rc_mappers c)) 128)%N
     end,
     0%N).

Definition explain_route (c : route_case) :=
  (model_route c, spec_route c, map (fun rq => strip_port (rq_host rq)) (rc_reqs c),
   forallb (complete_req (rc_tabs c) (rc_sv c)) (rc_reqs c), valid_server (rc_sv c)).

(** ** C12: group "cache" (twin muxes: cacheSize n and 0; requests interleaved with reloads) *)
Inductive cop :=
| CReq (i : nat) (m : mapper) (o : obs * obs * list key)
    (* request pool[i] while the MuxMapper holds [m]: cached mux, cache-less twin, cache keys afterwards *)
| CReload (s : nat).                          (* both twins reloaded with spec svs[s] *)

Record cache_case := {
  cc_svs : list server;                        (* svs[0] = initial spec, the others are reload targets *)
  cc_tabs : tabs;
  cc_pool : list request;
  cc_hostnames : list string;
  cc_ops : list cop;
  cc_accepted : bool }.

Definition dummy_req : request :=
  {| rq_host := ""; rq_method := ""; rq_path := ""; rq_rawpath := ""; rq_headers := []; rq_ip := ""; rq_body := 0%Z; rq_sni := "" |}.
Definition dummy_sv : server := {| sv_filter := None; sv_rules := []; sv_backends := []; sv_body := 0%Z; sv_xff := false |}.

Definition mem_key (k : key) (l : list key) : bool := existsb (key_eqb k) l.

(** eviction oracle derived from the dumped key set of the real cache.  The dump
    holds keys as the code under test builds them ([pinned]); for an ablated flag
    set [q] a key survives iff it is the [q]-key of a pool request whose real key
    is in the dump (for [q = pinned]: iff it is in the dump). *)
Definition keepf (pinned q : quirks) (pool : list request) (dump : list key) (k : key) : bool :=
  existsb (fun r => key_eqb (mk_key q r) k && mem_key (mk_key pinned r) dump) pool.

Section Crun.
  Variables (t : tabs) (pinned q : quirks) (svs : list server) (pool : list request).

  (** per request: observable, key set after the step (after applying the observed eviction), and
      whether a key stored by this very step is in the observed key set (a cache never drops
      the key it has just been given; "never stored" must not pass for "stored and evicted").
      A reload switches to the new spec with an EMPTY cache. *)
  Fixpoint crun (sv : server) (c : cache) (ops : list cop) : list (obs * list key * bool) :=
    match ops with
    | [] => []
    | CReload s :: rest => crun (nth s svs dummy_sv) [] rest
    | CReq i m (_, _, dump) :: rest =>
        let rq := nth i pool dummy_req in
        let '(r, c') := if reserved_path rq then (Status 404, c)   (* answered before the router: cache untouched *)
                        else search_cached (o_re t) (o_ip t) q sv c rq in
        let c'' := evict (keepf pinned q pool dump) c' in
        let k := mk_key q rq in
        let stored := negb (isSome (clookup k c)) && isSome (clookup k c') in
        (obs_of m (forwarded_for sv rq) (dispatch (o_rep t) (with_mapper sv m) rq r), map fst c'',
         negb stored || isSome (clookup k c'')) :: crun sv c'' rest
    end.

  Fixpoint twin_run (sv : server) (ops : list cop) : list obs :=
    match ops with
    | [] => []
    | CReload s :: rest => twin_run (nth s svs dummy_sv) rest
    | CReq i m _ :: rest =>
        let rq := nth i pool dummy_req in
        obs_of m (forwarded_for sv rq) (mux_serve (o_re t) (o_rep t) (o_ip t) (with_mapper sv m) rq)
          :: twin_run sv rest
    end.
End Crun.

Definition keyset_eqb (a b : list key) : bool :=
  forallb (fun k => mem_key k b) a && forallb (fun k => mem_key k a) b.

Fixpoint req_obs (ops : list cop) : list (obs * obs * list key) :=
  match ops with
  | [] => []
  | CReq _ _ o :: t => o :: req_obs t
  | CReload _ :: t => req_obs t
  end.

(** the prefix of a history that contains its first [n] requests *)
Fixpoint take_reqs (n : nat) (ops : list cop) : list cop :=
  match n, ops with
  | O, _ => []
  | _, [] => []
  | S n', CReq i m o :: t => CReq i m o :: take_reqs n' t
  | S _, CReload s :: t => CReload s :: take_reqs n t
  end.

Definition sv0 (c : cache_case) : server := nth 0 (cc_svs c) dummy_sv.

Definition twin_model (c : cache_case) (ops : list cop) : list obs :=
  twin_run (cc_tabs c) (cc_svs c) (cc_pool c) (sv0 c) ops.

Definition cached_model (pinned q : quirks) (c : cache_case) (ops : list cop) :=
  crun (cc_tabs c) pinned q (cc_svs c) (cc_pool c) (sv0 c) [] ops.

(** index of the first request whose cached observable differs from the twin's *)
Fixpoint first_diff (l : list (obs * obs * list key)) : option nat :=
  match l with
  | [] => None
  | (a, b, _) :: t => if obs_eqb a b then match first_diff t with Some i => Some (S i) | None => None end
                      else Some O
  end.

Definition flag_on (q : quirks) (i : N) : bool :=
  match i with
  | 1%N => q_cache_key_concat q
  | 2%N => q_cache_headerless_after_header q
  | 3%N => q_cache_status_before_ipfilter q
  | 4%N => q_cache_rule_filter_skipped q
  | _ => false
  end.

Definition without (q : quirks) (s : list N) : quirks :=
  let off i := existsb (N.eqb i) s in
  {| q_cache_key_concat := q_cache_key_concat q && negb (off 1%N);
     q_cache_headerless_after_header := q_cache_headerless_after_header q && negb (off 2%N);
     q_cache_status_before_ipfilter := q_cache_status_before_ipfilter q && negb (off 3%N);
     q_cache_rule_filter_skipped := q_cache_rule_filter_skipped q && negb (off 4%N) |}.

(** ablation candidates: single flags first, then pairs, ... (subsets of the pinned flags only) *)
Definition subsets : list (list N) :=
  [[1]; [2]; [3]; [4]; [1;2]; [1;3]; [1;4]; [2;3]; [2;4]; [3;4];
   [1;2;3]; [1;2;4]; [1;3;4]; [2;3;4]; [1;2;3;4]]%N.

(** the model with flag set [q] is transparent on this history *)
Definition transparent_on (pinned q : quirks) (c : cache_case) (ops : list cop) : bool :=
  list_eqb obs_eqb (map (fun x => fst (fst x)) (cached_model pinned q c ops)) (twin_model c ops).

Definition attribute (pinned : quirks) (c : cache_case) : N :=
  match first_diff (req_obs (cc_ops c)) with
  | None => 0%N
  | Some i =>
      let ops := take_reqs (S i) (cc_ops c) in
      match find (fun s => forallb (flag_on pinned) s && transparent_on pinned (without pinned s) c ops) subsets with
      | Some (f :: _) => f
      | _ => 0%N
      end
  end.

(** requests at which the real cache already held the request's key (a reload empties it) *)
Definition count_hits (pinned : quirks) (c : cache_case) : nat :=
  let fix go (prev : list key) (l : list cop) : nat :=
    match l with
    | [] => O
    | CReload _ :: t => go [] t
    | CReq i _ (_, _, dump) :: t =>
        (if mem_key (mk_key pinned (nth i (cc_pool c) dummy_req)) prev then 1 else 0) + go dump t
    end in
  go [] (cc_ops c).

Definition evicted_some (c : cache_case) : bool :=
  let fix go (prev : list key) (l : list cop) : bool :=
    match l with
    | [] => false
    | CReload _ :: t => go [] t
    | CReq _ _ (_, _, dump) :: t => negb (forallb (fun k => mem_key k dump) prev) || go dump t
    end in
  go [] (cc_ops c).

Definition op_mappers (c : cache_case) : list mapper :=
  flat_map (fun o => match o with CReq _ m _ => [m] | CReload _ => [] end) (cc_ops c).

Definition has_reload (c : cache_case) : bool :=
  existsb (fun o => match o with CReload _ => true | _ => false end) (cc_ops c).

Definition check_cache (pinned : quirks) (c : cache_case) : result :=
  if negb (cc_accepted c) then
    (match req_obs (cc_ops c) with [] => true | _ => false end, true, 0%N, 0%N)
  else
    let t := cc_tabs c in
    let ops := cc_ops c in
    let robs := req_obs ops in
    let ok_tabs := forallb (fun sv => forallb (complete_req t sv) (cc_pool c)) (cc_svs c) in
    let ok_host := list_eqb String.eqb (map (fun rq => strip_port (rq_host rq)) (cc_pool c)) (cc_hostnames c) in
    let ok_seq := forallb (fun o => match o with
                                    | CReq i _ _ => Nat.ltb i (List.length (cc_pool c))
                                    | CReload s => Nat.ltb s (List.length (cc_svs c))
                                    end) ops
                  && Nat.ltb 0 (List.length (cc_svs c)) in
    let m := cached_model pinned pinned c ops in
    let corr :=
      ok_tabs && ok_host && ok_seq && forallb valid_server (cc_svs c)
      && list_eqb obs_eqb (map (fun x => fst (fst x)) m) (map (fun x => fst (fst x)) robs)
      && list_eqb obs_eqb (twin_model c ops) (map (fun x => snd (fst x)) robs)
      && list_eqb keyset_eqb (map (fun x => snd (fst x)) m) (map snd robs)
      && forallb (fun x => snd x) m in
    let prop := forallb (fun x => obs_eqb (fst (fst x)) (snd (fst x))) robs in
    let twin := map (fun x => snd (fst x)) robs in
    (corr, prop,
     match robs with
     | [] => 0%N
     | _ => (1 + bN (Nat.ltb 0 (count_hits pinned c)) 1 + bN (evicted_some c) 2 + bN (negb prop) 4
               + bN (has_status 403 twin) 8 + bN (has_status 200 twin) 16
               + bN (has_status 404 twin || has_status 405 twin) 32 + bN (has_status 400 twin) 64
               + bN (has_reload c) 128 + bN (has_status 413 twin) 256
               + bN (mapper_changes (op_mappers c)) 512)%N
     end,
     if prop then 0%N else attribute pinned c).

Definition explain_cache (pinned : quirks) (c : cache_case) :=
  let ops := cc_ops c in
  (cached_model pinned pinned c ops, twin_model c ops,
   first_diff (req_obs ops), attribute pinned c,
   forallb (fun sv => forallb (complete_req (cc_tabs c) sv) (cc_pool c)) (cc_svs c), forallb valid_server (cc_svs c)).
