(** Executable message-level model of easegress' HTTP proxying (C03).

    - [canon_key]          : net/textproto CanonicalMIMEHeaderKey (ASCII)
    - [h_del/h_get/...]    : net/http Header methods (the argument is canonicalised, the map is not)
    - [clone_header]       : pkg/filters/proxy/pool.go cloneHeader + hopHeaders ([GenHop.hop_headers],
                             re-extracted from the source on every run)
    - [request_adaptor]    : pkg/filters/requestadaptor/requestadaptor.go Handle (body/compress/decompress)
    - [forward]            : mux.serveHTTP (request half) + serverPoolContext.prepareRequest
                             (URL assembly, header clone, Host rule) + what net/http's transport
                             adds (User-Agent default, Accept-Encoding: gzip)
    - [transport_response] : net/http transport's view of the backend response (transparent gunzip)
    - [compress]           : pkg/filters/proxy/compression.go compress
    - [build_response]     : ServerPool.buildResponse (compress, FetchPayload from model/Body.v)
    - [response_adaptor]   : pkg/filters/responseadaptor/responseadaptor.go Handle/compress/decompress
    - [write_out]          : mux.serveHTTP deferred write-out + net/http server's Content-Length rules
    - [exchange]           : all of it

    External functions (gzip, gunzip, URL parsing / escaping) are parameters ([fns]); the
    defects of the unchanged code are switched by [quirks] ([ideal] = all off).
    No proofs here. *)
From EG.lib Require Import Base.
From EG.gen Require Import GenHop.
From EG.model Require Import Body BodyCheck.
Open Scope string_scope.
Open Scope Z_scope.

(** ** ASCII / string helpers *)
Definition aN (c : ascii) : N := N_of_ascii c.
Definition is_upper (c : ascii) : bool := (65 <=? aN c)%N && (aN c <=? 90)%N.
Definition is_lower (c : ascii) : bool := (97 <=? aN c)%N && (aN c <=? 122)%N.
Definition is_digit (c : ascii) : bool := (48 <=? aN c)%N && (aN c <=? 57)%N.
Definition to_upper (c : ascii) : ascii := if is_lower c then ascii_of_N (aN c - 32) else c.
Definition to_lower (c : ascii) : ascii := if is_upper c then ascii_of_N (aN c + 32) else c.

(** token characters of RFC 7230 (golang.org/x/net/http/httpguts IsTokenRune) *)
Definition is_token_char (c : ascii) : bool :=
  is_upper c || is_lower c || is_digit c ||
  existsb (fun d => Ascii.eqb c d)
          ["!"; "#"; "$"; "%"; "&"; "'"; "*"; "+"; "-"; "."; "^"; "_"; "`"; "|"; "~"]%char.

Fixpoint str_forall (p : ascii -> bool) (s : string) : bool :=
  match s with EmptyString => true | String c t => p c && str_forall p t end.

Fixpoint canon_go (upper : bool) (s : string) : string :=
  match s with
  | EmptyString => EmptyString
  | String c t =>
      let c' := if upper then to_upper c else to_lower c in
      String c' (canon_go (Ascii.eqb c' "-"%char) t)
  end.

Definition canon_key (s : string) : string :=
  if str_forall is_token_char s then canon_go true s else s.

Fixpoint str_map (f : ascii -> ascii) (s : string) : string :=
  match s with EmptyString => EmptyString | String c t => String (f c) (str_map f t) end.
Definition lower (s : string) : string := str_map to_lower s.

Definition is_space (c : ascii) : bool :=
  existsb (fun d => Ascii.eqb c d) [" "%char; ascii_of_N 9; ascii_of_N 10; ascii_of_N 13].

Fixpoint ltrim (s : string) : string :=
  match s with
  | EmptyString => EmptyString
  | String c t => if is_space c then ltrim t else s
  end.
(** drop trailing spaces: a character is kept iff something non-space follows or it is non-space *)
Fixpoint rtrim (s : string) : string :=
  match s with
  | EmptyString => EmptyString
  | String c t =>
      match rtrim t with
      | EmptyString => if is_space c then EmptyString else String c EmptyString
      | t' => String c t'
      end
  end.
Definition trim (s : string) : string := rtrim (ltrim s).

(** strings.Split(s, ",") *)
Fixpoint split_comma_go (cur : string) (s : string) : list string :=
  match s with
  | EmptyString => [cur]
  | String c t =>
      if Ascii.eqb c ","%char then cur :: split_comma_go EmptyString t
      else split_comma_go (cur ++ String c EmptyString) t
  end.
Definition split_comma (s : string) : list string := split_comma_go EmptyString s.

(** strings.Contains *)
Fixpoint contains (needle hay : string) : bool :=
  prefix needle hay ||
  match hay with EmptyString => false | String _ t => contains needle t end.

Definition nonempty (s : string) : bool := negb (String.eqb s EmptyString).

(** ** http.Header as an association list (keys as stored in the map) *)
Definition headers := list (string * list string).

Definition h_values_exact (k : string) (h : headers) : list string :=
  match alookup k h with Some vs => vs | None => [] end.
Definition h_has_exact (k : string) (h : headers) : bool :=
  match alookup k h with Some _ => true | None => false end.
Definition h_del (k : string) (h : headers) : headers :=
  filter (fun kv => negb (String.eqb (fst kv) (canon_key k))) h.
Definition h_values (k : string) (h : headers) : list string := h_values_exact (canon_key k) h.
Definition h_get (k : string) (h : headers) : string := hd EmptyString (h_values k h).
Definition h_set (k v : string) (h : headers) : headers := (h_del k h ++ [(canon_key k, [v])])%list.
Fixpoint h_add_exact (k v : string) (h : headers) : headers :=
  match h with
  | [] => [(k, [v])]
  | (k', vs) :: t => if String.eqb k k' then (k', (vs ++ [v])%list) :: t else (k', vs) :: h_add_exact k v t
  end.
Definition h_add (k v : string) (h : headers) : headers := h_add_exact (canon_key k) v h.

(** ** cloneHeader *)
Definition connection_tokens (h : headers) : list string :=
  flat_map (fun f => filter nonempty (map trim (split_comma f))) (h_values_exact "Connection" h).

Definition del_all (ks : list string) (h : headers) : headers := fold_left (fun acc k => h_del k acc) ks h.

Definition clone_header (h : headers) : headers :=
  del_all hop_headers (del_all (connection_tokens h) h).

(** ** configuration, quirks, external functions *)
Record quirks := {
  q_compress_keeps_length : bool;     (* compression.compress leaves http.Response.ContentLength *)
  q_adaptor_body_keeps_length : bool; (* ResponseAdaptor body keeps the old Content-Length header *)
  q_proxy_decoded_path : bool;        (* prepareRequest re-parses the decoded path *)
  q_stream_compress_panics : bool;    (* collectMetrics: nil CallbackReader when a streamed body was wrapped by the gzip reader *)
  q_compress_replaces_label : bool    (* compress: Header.Set(Content-Encoding, gzip) drops the codings the body already had *)
}.
Definition ideal : quirks :=
  {| q_compress_keeps_length := false; q_adaptor_body_keeps_length := false;
     q_proxy_decoded_path := false; q_stream_compress_panics := false;
     q_compress_replaces_label := false |}.

Record fns := {
  f_gzip : string -> string;
  f_gunzip : string -> option string;
  f_parse_target : string -> option (string * string);  (* request-target -> decoded path, raw query *)
  f_escaped_path : string -> string;                    (* request-target -> URL.EscapedPath() *)
  f_build_target : string -> string -> option string    (* url.Parse(base ++ path [++ "?" ++ query]).RequestURI() *)
}.

Record adapt := { a_on : bool; a_body : string; a_compress : bool; a_decompress : bool }.

Record pcfg := {
  p_cstream : bool;            (* clientMaxBodySize = -1 *)
  p_pool_max : Z;              (* pool-level serverMaxBodySize *)
  p_proxy_max : Z;             (* proxy-level serverMaxBodySize *)
  p_server_host : string;      (* host[:port] of the server URL *)
  p_host_is_name : bool;       (* Server.addrIsHostName *)
  p_keep_host : bool;
  p_fail_codes : list Z;       (* pool failureCodes: the Proxy reports resultFailureCode, the pipeline ends there *)
  p_minlen : option Z;         (* compression.minLength; None = no compression *)
  p_ra : adapt;                (* RequestAdaptor *)
  p_rs : adapt                 (* ResponseAdaptor *)
}.

(** the response is streamed when the effective serverMaxBodySize (pool-level value unless
    0, then the proxy-level one) is negative *)
Definition p_sstream (c : pcfg) : bool := effective (p_pool_max c) (p_proxy_max c) <? 0.

(** the client's request as net/http hands it to the mux (canonical header keys; Host and
    Transfer-Encoding are not in the map) *)
Record creq := {
  cq_method : string; cq_target : string; cq_host : string;
  cq_headers : headers; cq_body : string
}.
(** what the backend receives (framing headers Content-Length / Transfer-Encoding aside) *)
Record breq := {
  bq_method : string; bq_target : string; bq_host : string;
  bq_headers : headers; bq_body : string
}.
(** the backend's answer on the wire (Content-Length / Transfer-Encoding are in [br_enc]) *)
Record bresp := { br_status : Z; br_headers : headers; br_enc : enc; br_body : string }.

(** a response inside the gateway: [rs_cl] is the Content-Length *header*, [rs_decl]
    http.Response.ContentLength, [rs_stream] whether the payload is a stream *)
Record resp := {
  rs_status : Z; rs_headers : headers; rs_cl : option Z; rs_decl : Z;
  rs_body : string; rs_stream : bool
}.
(** what the client receives *)
Record wresp := {
  w_status : Z; w_headers : headers; w_cl : option Z; w_body : string; w_frame_ok : bool
}.

Inductive req_result :=
| ReqReject (status : Z)                       (* answered by the gateway, nothing forwarded *)
| ReqSent (b : breq) (added_gzip : bool) (cloned : headers).
  (* forwarded; [added_gzip]: the transport asked for gzip itself; [cloned]: the outgoing
     request's own header (what compression.acceptGzip looks at) *)

Inductive outcome :=
| Answered (w : wresp) (b : option breq)
| NoResponse (b : option breq).                (* handler panicked: connection closed without a response *)

Definition CE := "Content-Encoding".

(** label a body that has just been gzip-compressed: the coding is appended to those the
    body already carries (the unchanged code replaces them) *)
Definition label_gzip (q : quirks) (h : headers) : headers :=
  if q_compress_replaces_label q then h_set CE "gzip" h else h_add CE "gzip" h.

(** ** request half *)
Definition request_adaptor (f : fns) (a : adapt) (h : headers) (body : string) : option (headers * string) :=
  if negb (a_on a) then Some (h, body) else
  let '(h1, b1) := if nonempty (a_body a) then (h_del CE h, a_body a) else (h, body) in
  let '(h2, b2) := if a_compress a && String.eqb (h_get CE h1) EmptyString
                   then (h_set CE "gzip" h1, f_gzip f b1) else (h1, b1) in
  if a_decompress a && String.eqb (h_get CE h2) "gzip" then
    match f_gunzip f b2 with
    | Some b3 => Some (h_del CE h2, b3)
    | None => None
    end
  else Some (h2, b2).

Definition transport_request_headers (h : headers) : headers * bool :=
  let h0 := h_del "Content-Length" h in
  (* only the first User-Agent value is written; a default is added when there is none *)
  let h1 := if h_has_exact "User-Agent" h0
            then (if nonempty (h_get "User-Agent" h0) then h_set "User-Agent" (h_get "User-Agent" h0) h0
                  else h_del "User-Agent" h0)
            else h_set "User-Agent" "Go-http-client/1.1" h0 in
  let added := String.eqb (h_get "Accept-Encoding" h1) EmptyString && String.eqb (h_get "Range" h1) EmptyString in
  (if added then h_set "Accept-Encoding" "gzip" h1 else h1, added).

Definition out_host (c : pcfg) (client_host : string) : string :=
  if negb (p_host_is_name c) || p_keep_host c then client_host else p_server_host c.

Definition forward (q : quirks) (f : fns) (c : pcfg) (r : creq) : req_result :=
  match f_parse_target f (cq_target r) with
  | None => ReqReject 400
  | Some (path, query) =>
      match request_adaptor f (p_ra c) (cq_headers r) (cq_body r) with
      | None => ReqReject 503                    (* decompressFailed: no response was produced *)
      | Some (h, body) =>
          let upath := if q_proxy_decoded_path q then path else f_escaped_path f (cq_target r) in
          match f_build_target f upath query with
          | None => ReqReject 500                (* prepareRequest failed *)
          | Some target =>
              let '(hs, added) := transport_request_headers (clone_header h) in
              ReqSent {| bq_method := cq_method r; bq_target := target; bq_host := out_host c (cq_host r);
                         bq_headers := hs; bq_body := body |} added (clone_header h)
          end
      end
  end.

Definition failure_code (c : pcfg) (status : Z) : bool := existsb (Z.eqb status) (p_fail_codes c).

(** ** response half *)
Inductive stage :=
| Ok (r : resp)
| Fail500          (* buildResponse returned an error: failure response, pipeline stops *)
| Panicked.

Definition enc_decl (e : enc) : Z := match e with EncCL d => d | _ => -1 end.
Definition enc_cl (e : enc) : option Z := match e with EncCL d => Some d | _ => None end.

Definition transport_response (f : fns) (added_gzip : bool) (b : bresp) : option resp :=
  if added_gzip && String.eqb (lower (h_get CE (br_headers b))) "gzip" then
    match f_gunzip f (br_body b) with
    | Some d => Some {| rs_status := br_status b; rs_headers := h_del CE (br_headers b); rs_cl := None;
                        rs_decl := -1; rs_body := d; rs_stream := false |}
    | None => None
    end
  else Some {| rs_status := br_status b; rs_headers := br_headers b; rs_cl := enc_cl (br_enc b);
               rs_decl := enc_decl (br_enc b); rs_body := br_body b; rs_stream := false |}.

Definition accept_gzip (req_headers : headers) : bool :=
  match h_values "Accept-Encoding" req_headers with
  | [] => true
  | vs => existsb (fun ae => contains "*/*" ae || contains "gzip" ae) vs
  end.
Definition already_gzipped (h : headers) : bool := existsb (contains "gzip") (h_values CE h).

(** returns the response and whether it was compressed *)
Definition compress (q : quirks) (f : fns) (minlen : Z) (req_headers : headers) (r : resp) : resp * bool :=
  if negb (accept_gzip req_headers) then (r, false)
  else if already_gzipped (rs_headers r) then (r, false)
  else if negb (rs_decl r =? -1) && (rs_decl r <? minlen) then (r, false)
  else ({| rs_status := rs_status r;
           rs_headers := h_add "Vary" CE (label_gzip q (rs_headers r));
           rs_cl := None;
           rs_decl := if q_compress_keeps_length q then rs_decl r else -1;
           rs_body := f_gzip f (rs_body r); rs_stream := false |}, true).

Definition build_response (q : quirks) (f : fns) (c : pcfg) (req_headers : headers) (r0 : resp) : stage :=
  let '(r, compressed) := match p_minlen c with
                          | Some m => compress q f m req_headers r0
                          | None => (r0, false)
                          end in
  match fetch_payload slen stake EmptyString (effective (p_pool_max c) (p_proxy_max c))
                      {| s_decl := rs_decl r; s_bytes := rs_body r; s_clean := true |} with
  | Payload b => Ok {| rs_status := rs_status r; rs_headers := rs_headers r; rs_cl := rs_cl r;
                       rs_decl := rs_decl r; rs_body := b; rs_stream := false |}
  | Streamed =>
      if compressed && q_stream_compress_panics q then Panicked
      else Ok {| rs_status := rs_status r; rs_headers := rs_headers r; rs_cl := rs_cl r;
                 rs_decl := rs_decl r; rs_body := rs_body r; rs_stream := true |}
  | TooLarge | ReadErr => Fail500
  end.

Definition set_body (r : resp) (h : headers) (cl : option Z) (body : string) (stream : bool) : resp :=
  {| rs_status := rs_status r; rs_headers := h; rs_cl := cl; rs_decl := rs_decl r;
     rs_body := body; rs_stream := stream |}.

Definition response_adaptor (q : quirks) (f : fns) (a : adapt) (r : resp) : resp :=
  if negb (a_on a) then r else
  let r1 := if nonempty (a_body a)
            then set_body r (h_del CE (rs_headers r))
                          (if q_adaptor_body_keeps_length q then rs_cl r else Some (slen (a_body a)))
                          (a_body a) false
            else r in
  let r2 := if a_compress a && negb (already_gzipped (rs_headers r1))
            then let z := f_gzip f (rs_body r1) in
                 set_body r1 (label_gzip q (rs_headers r1))
                          (if rs_stream r1 then None else Some (slen z)) z (rs_stream r1)
            else r1 in
  if a_decompress a && String.eqb (h_get CE (rs_headers r2)) "gzip" then
    match f_gunzip f (rs_body r2) with
    | Some d => set_body r2 (h_del CE (rs_headers r2)) (if rs_stream r2 then None else Some (slen d)) d (rs_stream r2)
    | None => r2   (* decompressFailed: the response is left as it is *)
    end
  else r2.

(** mux write-out: header copy, WriteHeader, one Write of the payload; net/http refuses a
    Write that would exceed a declared Content-Length and closes the connection when fewer
    bytes than declared were written *)
Definition write_out (r : resp) : wresp :=
  match rs_cl r with
  | None => {| w_status := rs_status r; w_headers := rs_headers r; w_cl := None; w_body := rs_body r; w_frame_ok := true |}
  | Some n =>
      if slen (rs_body r) <=? n
      then {| w_status := rs_status r; w_headers := rs_headers r; w_cl := Some n; w_body := rs_body r;
              w_frame_ok := slen (rs_body r) =? n |}
      else {| w_status := rs_status r; w_headers := rs_headers r; w_cl := Some n; w_body := EmptyString;
              w_frame_ok := n =? 0 |}
  end.

Definition failure (code : Z) : wresp :=
  {| w_status := code; w_headers := []; w_cl := None; w_body := EmptyString; w_frame_ok := true |}.

Definition respond (q : quirks) (f : fns) (c : pcfg) (req_headers : headers) (added_gzip : bool) (b : bresp) : option wresp :=
  match transport_response f added_gzip b with
  | None => Some (failure 500)       (* the transparent gunzip fails while the payload is fetched *)
  | Some r0 =>
      match build_response q f c req_headers r0 with
      | Fail500 => Some (failure 500)
      | Panicked => None
      | Ok r =>
          (* a status listed in failureCodes makes the Proxy return a result: the filters
             after it (the ResponseAdaptor) do not run, the backend's response goes out as it is *)
          if failure_code c (rs_status r) then Some (write_out r)
          else Some (write_out (response_adaptor q f (p_rs c) r))
      end
  end.

Definition exchange (q : quirks) (f : fns) (c : pcfg) (r : creq) (b : bresp) : outcome :=
  match forward q f c r with
  | ReqReject code => Answered (failure code) None
  | ReqSent br added cloned =>
      match respond q f c cloned added b with
      | Some w => Answered w (Some br)
      | None => NoResponse (Some br)
      end
  end.

(** ** histories: one pipeline instance, a pool with a memoryCache
    - [hdr_edit]   : the `header` section of the ResponseAdaptor (httpheader.Adapt: del, set, add),
                     applied before body / compress / decompress
    - [cache_key], [loadable], [storable] : pkg/filters/proxy/memorycache.go key / Load / Store
    - [step]       : ServerPool.handle with buildResponseFromCache; the cache holds an immutable
                     copy of (status, header, payload) as it left buildResponse, i.e. BEFORE the
                     filters after the Proxy touched it; entries never expire within a history *)
Record hedit := { he_del : list string; he_set : list (string * string); he_add : list (string * string) }.
Definition no_edit : hedit := {| he_del := []; he_set := []; he_add := [] |}.

Definition edit_headers (e : hedit) (h : headers) : headers :=
  fold_left (fun acc kv => h_add (fst kv) (snd kv) acc) (he_add e)
    (fold_left (fun acc kv => h_set (fst kv) (snd kv) acc) (he_set e)
       (fold_left (fun acc k => h_del k acc) (he_del e) h)).

Definition hdr_edit (e : hedit) (r : resp) : resp :=
  {| rs_status := rs_status r; rs_headers := edit_headers e (rs_headers r); rs_cl := rs_cl r;
     rs_decl := rs_decl r; rs_body := rs_body r; rs_stream := rs_stream r |}.

Record cache_spec := { mc_on : bool; mc_codes : list Z; mc_methods : list string; mc_max : Z }.
Record centry := { ce_status : Z; ce_headers : headers; ce_cl : option Z; ce_body : string }.
Definition cache := list (string * centry).

Definition str_mem (s : string) (l : list string) : bool := existsb (String.eqb s) l.
Definition cc_has (words : list string) (h : headers) : bool :=
  existsb (fun v => existsb (fun w => contains w v) words) (h_values "Cache-Control" h).

Definition cache_key (host path method : string) : string := "http" ++ host ++ path ++ method.

Definition loadable (s : cache_spec) (method : string) (req_headers : headers) : bool :=
  mc_on s && str_mem method (mc_methods s) && negb (cc_has ["no-cache"] req_headers).

Definition storable (s : cache_spec) (method : string) (req_headers : headers) (r : resp) : bool :=
  mc_on s && negb (rs_stream r) && (slen (rs_body r) <=? mc_max s) &&
  str_mem method (mc_methods s) && existsb (Z.eqb (rs_status r)) (mc_codes s) &&
  negb (cc_has ["no-store"; "no-cache"] req_headers) &&
  negb (cc_has ["no-store"; "no-cache"; "must-revalidate"] (rs_headers r)).

Definition entry_of (r : resp) : centry :=
  {| ce_status := rs_status r; ce_headers := rs_headers r; ce_cl := rs_cl r; ce_body := rs_body r |}.
Definition resp_of_entry (e : centry) : resp :=
  {| rs_status := ce_status e; rs_headers := ce_headers e; rs_cl := ce_cl e; rs_decl := -1;
     rs_body := ce_body e; rs_stream := false |}.

(** the filters after the Proxy, then the write-out *)
Definition finish (q : quirks) (f : fns) (c : pcfg) (e : hedit) (r : resp) : wresp :=
  write_out (response_adaptor q f (p_rs c) (hdr_edit e r)).

Definition step (q : quirks) (f : fns) (c : pcfg) (e : hedit) (s : cache_spec)
           (st : cache) (r : creq) (b : bresp) : outcome * cache :=
  match f_parse_target f (cq_target r) with
  | None => (Answered (failure 400) None, st)
  | Some (path, _) =>
      match request_adaptor f (p_ra c) (cq_headers r) (cq_body r) with
      | None => (Answered (failure 503) None, st)
      | Some (h, _) =>
          let key := cache_key (cq_host r) path (cq_method r) in
          match (if loadable s (cq_method r) h then alookup key st else None) with
          | Some ent => (Answered (finish q f c e (resp_of_entry ent)) None, st)
          | None =>
              match forward q f c r with
              | ReqReject code => (Answered (failure code) None, st)
              | ReqSent br added cloned =>
                  match transport_response f added b with
                  | None => (Answered (failure 500) (Some br), st)
                  | Some r0 =>
                      match build_response q f c cloned r0 with
                      | Fail500 => (Answered (failure 500) (Some br), st)
                      | Panicked => (NoResponse (Some br), st)
                      | Ok r1 =>
                          (* failure code: neither the later filters nor memoryCache.Store are reached *)
                          if failure_code c (rs_status r1) then (Answered (write_out r1) (Some br), st)
                          else
                          (Answered (finish q f c e r1) (Some br),
                           if storable s (cq_method r) h r1 then (key, entry_of r1) :: st else st)
                      end
                  end
              end
          end
      end
  end.

(** an upload the client cuts off (announced length not reached, chunked stream without its
    last-chunk, connection closed mid-body) is never forwarded as a complete request and never
    answered with a success: buffered, FetchPayload fails (400); streamed, the transport's
    body read fails while the client has gone (499) - see model/Body.v [serve] *)
Definition exchange_cut (q : quirks) (f : fns) (c : pcfg) (cut : bool) (r : creq) (b : bresp) : outcome :=
  if cut then Answered (failure (if p_cstream c then 499 else 400)) None else exchange q f c r b.
