(** C20 - lemmas, part 4: the theorems about whole runs. *)
From EG.lib Require Import Base.
From EG.model Require Import Registry.
From EG.proofs Require Import RegistryProofs RegistryProofsB RegistryProofsC.
Open Scope N_scope.

(** what consumer [w] is meant to see of name [n] along a run *)
Definition snaps_for (w : N) (n : name) (steps : list (sched * snapshot)) : list (option spec) :=
  map (fun x => filt w (snd x n)) steps.

Lemma snaps_for_proj w n steps :
  map (fun x => filt w (cfg_of_step x)) (map (proj n) steps) = snaps_for w n steps.
Proof. unfold snaps_for. rewrite map_map. reflexivity. Qed.

(** *** exactly once *)
Lemma exactly_once pan steps n w :
  w = 0 \/ w = 1 -> good_steps n steps ->
  calls_of w n (snd (run ideal pan steps)) = fst (spec_log 0 n None (snaps_for w n steps)).
Proof.
  intros Hw Hg. rewrite calls_of_ccalls.
  destruct (model_is_per_name ideal pan n steps Hg) as [_ M2]. rewrite M2.
  destruct (cell_exec_ideal pan n (map (proj n) steps) 0 cell0 [] inv_cell0) as [_ E].
  destruct (E w Hw) as [E1 _]. rewrite E1, snaps_for_proj. reflexivity.
Qed.

Lemma live_is_spec_state pan steps n w :
  w = 0 \/ w = 1 -> good_steps n steps ->
  live w (fst (run ideal pan steps) n) = snd (spec_log 0 n None (snaps_for w n steps)).
Proof.
  intros Hw Hg.
  destruct (model_is_per_name ideal pan n steps Hg) as [M1 _]. rewrite M1.
  destruct (cell_exec_ideal pan n (map (proj n) steps) 0 cell0 [] inv_cell0) as [I E].
  rewrite (live_inv _ I w Hw). destruct (E w Hw) as [_ E2]. rewrite E2, snaps_for_proj. reflexivity.
Qed.

(** *** live set = latest snapshot *)
Lemma spec_calls_spec t n old new : option_map e_spec (snd (spec_calls t n old new)) = new.
Proof.
  unfold spec_calls. destruct old as [o|], new as [s|]; cbn; try reflexivity.
  destruct (spec_eqb (e_spec o) s) eqn:E.
  - apply spec_eqb_eq in E. subst. reflexivity.
  - destruct (same_kind (e_spec o) s); reflexivity.
Qed.

Lemma spec_log_last n : forall news t old x,
  option_map e_spec (snd (spec_log t n old (news ++ [x]))) = x.
Proof.
  induction news as [|a r IH]; intros t old x.
  - cbn. pose proof (spec_calls_spec t n old x) as H.
    destruct (spec_calls t n old x) as [cs o']. exact H.
  - cbn [app spec_log]. destruct (spec_calls t n old a) as [cs o'].
    specialize (IH (t + 1) o' x).
    destruct (spec_log (t + 1) n o' (r ++ [x])) as [l fin]. exact IH.
Qed.

(** the registry entry carries the spec of the latest snapshot - for ANY quirks *)
Lemma diff_reg_spec q t r cfgn : option_map e_spec (fst (diff_of q t r cfgn)) = cfgn.
Proof.
  unfold diff_of. destruct r as [p|], cfgn as [s|]; cbn; try reflexivity.
  destruct (spec_eqb (e_spec p) s) eqn:E.
  - apply spec_eqb_eq in E. subst. reflexivity.
  - destruct (q_kind_change_as_update q || same_kind (e_spec p) s); reflexivity.
Qed.

Lemma cell_exec_app q pan n : forall a b t st,
  cell_exec q pan t n (a ++ b) st = cell_exec q pan (t + N.of_nat (List.length a)) n b (cell_exec q pan t n a st).
Proof.
  induction a as [|[[w1f tcf] cfgn] r IH]; intros b t st.
  - cbn. rewrite N.add_0_r. reflexivity.
  - cbn [app cell_exec List.length].
    destruct (cell_step q pan t w1f tcf n cfgn (fst st)) as [c l].
    rewrite IH. f_equal. lia.
Qed.

Lemma cell_exec_one q pan t n x st :
  cell_exec q pan t n [x] st =
  (fst (cell_step_cf q pan t (snd (fst x)) n (snd x) (fst st)),
   snd st ++ snd (cell_step_cf q pan t (snd (fst x)) n (snd x) (fst st))).
Proof.
  destruct x as [[w1f tcf] cfgn]. cbn [cell_exec fst snd]. rewrite cell_step_closed.
  destruct (cell_step_cf q pan t tcf n cfgn (fst st)); reflexivity.
Qed.

Lemma reg_is_snapshot q pan steps sc cfg n :
  good_steps n (steps ++ [(sc, cfg)]) ->
  option_map e_spec (c_reg (fst (run q pan (steps ++ [(sc, cfg)])) n)) = cfg n.
Proof.
  intros Hg. destruct (model_is_per_name q pan n _ Hg) as [M1 _]. rewrite M1.
  rewrite map_app, cell_exec_app. cbn [map]. rewrite cell_exec_one. cbn [fst snd proj].
  unfold cell_step_cf. cbn [fst c_reg]. apply diff_reg_spec.
Qed.

Lemma fl_spec cats r : option_map e_spec (fl cats r) = filtc cats (option_map e_spec r).
Proof. unfold fl, filtc. destruct r as [e|]; cbn; [|reflexivity]. rewrite wfilter_incat. destruct (incat cats (e_spec e)); reflexivity. Qed.

Lemma run_inv pan steps n : good_steps n steps -> inv (fst (run ideal pan steps) n).
Proof.
  intros Hg. destruct (model_is_per_name ideal pan n steps Hg) as [M1 _]. rewrite M1.
  apply (cell_exec_ideal pan n (map (proj n) steps) 0 cell0 [] inv_cell0).
Qed.

Lemma live_equals_snapshot pan steps sc cfg n :
  good_steps n (steps ++ [(sc, cfg)]) ->
  let c := fst (run ideal pan (steps ++ [(sc, cfg)])) n in
  option_map e_spec (c_reg c) = cfg n /\
  option_map e_spec (c_w0 c) = filt 0 (cfg n) /\
  option_map e_spec (c_w1 c) = filt 1 (cfg n) /\
  forall w, w = 0 \/ w = 1 -> option_map e_spec (live w c) = filt w (cfg n).
Proof.
  intros Hg c.
  pose proof (reg_is_snapshot ideal pan steps sc cfg n Hg) as R. fold c in R.
  pose proof (run_inv pan _ n Hg) as I. fold c in I.
  split; [exact R|].
  pose proof I as (I0 & I1 & _).
  split; [|split].
  - rewrite I0, fl_spec, R. reflexivity.
  - rewrite I1, fl_spec, R. reflexivity.
  - intros w Hw. rewrite (live_inv c I w Hw), fl_spec, R. reflexivity.
Qed.

(** *** panic isolation (any quirks): the lifecycle of a name depends on the panic
    oracle only through the oracle's values at that very name *)
Lemma cell_step_pan_ext q pan1 pan2 t a b n cfgn c :
  (forall t op, pan1 t op n = pan2 t op n) ->
  cell_step q pan1 t a b n cfgn c = cell_step q pan2 t a b n cfgn c.
Proof.
  intros H. rewrite !cell_step_closed.
  unfold cell_step_cf, sup_of, tc_of, do_init, do_inherit, do_close. rewrite ?H. reflexivity.
Qed.

Lemma cell_exec_pan_ext q pan1 pan2 n :
  (forall t op, pan1 t op n = pan2 t op n) ->
  forall steps t st, cell_exec q pan1 t n steps st = cell_exec q pan2 t n steps st.
Proof.
  intros H. induction steps as [|[[a b] cfgn] r IH]; intros t st; [reflexivity|].
  cbn [cell_exec]. rewrite (cell_step_pan_ext q pan1 pan2 t a b n cfgn (fst st) H).
  destruct (cell_step q pan2 t a b n cfgn (fst st)). apply IH.
Qed.

Lemma panic_isolated q pan1 pan2 steps n :
  good_steps n steps ->
  (forall t op, pan1 t op n = pan2 t op n) ->
  log_of n (snd (run q pan1 steps)) = log_of n (snd (run q pan2 steps)) /\
  fst (run q pan1 steps) n = fst (run q pan2 steps) n.
Proof.
  intros Hg H.
  destruct (model_is_per_name q pan1 n steps Hg) as [A1 A2].
  destruct (model_is_per_name q pan2 n steps Hg) as [B1 B2].
  rewrite A1, A2, B1, B2, (cell_exec_pan_ext q pan1 pan2 n H). split; reflexivity.
Qed.

(** *** order independence (any quirks) *)
Lemma who_sup pan t n ev s : Forall (fun e => l_who e = 0) (snd (sup_of pan t n ev s)).
Proof.
  unfold sup_of, do_init, do_inherit, do_close.
  destruct ev as [[a|] [b|] [u|]], s as [i|]; cbn; repeat constructor.
Qed.

Lemma who_tc pan t n ev g p : Forall (fun e => l_who e = 1) (snd (tc_of pan t n ev g p)).
Proof.
  unfold tc_of, do_init, do_inherit, do_close.
  destruct ev as [[a|] [b|] [u|]], g as [gi|], p as [pi|]; cbn -[is_pipe];
    repeat (match goal with |- context [is_pipe ?e] => destruct (is_pipe e); cbn -[is_pipe] end);
    repeat constructor.
Qed.

Lemma ccalls_none w v l : w <> v -> Forall (fun e => l_who e = v) l -> ccalls w l = [].
Proof.
  intros Hne. unfold ccalls. induction 1 as [|e l He Hl IH]; cbn; [reflexivity|].
  rewrite He. destruct (N.eqb_spec v w) as [E|E]; [exfalso; apply Hne; symmetry; exact E|]. exact IH.
Qed.

Lemma cf_order q pan t tcf tcf' n cfgn c :
  fst (cell_step_cf q pan t tcf n cfgn c) = fst (cell_step_cf q pan t tcf' n cfgn c) /\
  forall w, ccalls w (snd (cell_step_cf q pan t tcf n cfgn c)) = ccalls w (snd (cell_step_cf q pan t tcf' n cfgn c)).
Proof.
  split; [reflexivity|]. intros w. unfold cell_step_cf. cbn [snd].
  set (ls := snd (sup_of _ _ _ _ _)). set (lt := snd (tc_of _ _ _ _ _ _)).
  assert (Hs : Forall (fun e => l_who e = 0) ls) by apply who_sup.
  assert (Ht : Forall (fun e => l_who e = 1) lt) by apply who_tc.
  destruct tcf, tcf'; try reflexivity; rewrite !ccalls_app.
  - destruct (N.eq_dec w 0) as [->|Hw].
    + rewrite (ccalls_none 0 1 lt) by (discriminate || assumption). rewrite app_nil_r. reflexivity.
    + rewrite (ccalls_none w 0 ls Hw Hs). rewrite app_nil_r. reflexivity.
  - destruct (N.eq_dec w 0) as [->|Hw].
    + rewrite (ccalls_none 0 1 lt) by (discriminate || assumption). rewrite app_nil_r. reflexivity.
    + rewrite (ccalls_none w 0 ls Hw Hs). rewrite app_nil_r. reflexivity.
Qed.

Lemma cell_exec_order q pan n : forall ps ps' t c l l',
  Forall2 (fun a b => cfg_of_step a = cfg_of_step b) ps ps' ->
  (forall w, ccalls w l = ccalls w l') ->
  fst (cell_exec q pan t n ps (c, l)) = fst (cell_exec q pan t n ps' (c, l')) /\
  forall w, ccalls w (snd (cell_exec q pan t n ps (c, l))) = ccalls w (snd (cell_exec q pan t n ps' (c, l'))).
Proof.
  induction ps as [|[[a b] cfgn] r IH]; intros ps' t c l l' HF Hl; inversion HF as [|x y r1 r2 Hxy HF']; subst.
  - cbn. split; [reflexivity|exact Hl].
  - destruct y as [[a' b'] cfgn']. cbn [cfg_of_step snd] in Hxy. subst cfgn'.
    cbn [cell_exec fst snd]. rewrite !cell_step_closed.
    destruct (cf_order q pan t b b' n cfgn c) as [O1 O2].
    destruct (cell_step_cf q pan t b n cfgn c) as [c1 l1].
    destruct (cell_step_cf q pan t b' n cfgn c) as [c2 l2]. cbn [fst snd] in O1, O2. subst c2.
    apply IH; [exact HF'|]. intros w. rewrite !ccalls_app, Hl, O2. reflexivity.
Qed.

Lemma order_independent q pan steps steps' n :
  good_steps n steps -> good_steps n steps' ->
  Forall2 (fun a b => snd a n = snd b n) steps steps' ->
  fst (run q pan steps) n = fst (run q pan steps') n /\
  forall w, calls_of w n (snd (run q pan steps)) = calls_of w n (snd (run q pan steps')).
Proof.
  intros Hg Hg' HF.
  destruct (model_is_per_name q pan n steps Hg) as [A1 A2].
  destruct (model_is_per_name q pan n steps' Hg') as [B1 B2].
  assert (HP : Forall2 (fun a b => cfg_of_step a = cfg_of_step b) (map (proj n) steps) (map (proj n) steps')).
  { clear -HF. induction HF as [|x y l l' Hxy HF IH]; cbn [map]; constructor; [exact Hxy|exact IH]. }
  destruct (cell_exec_order q pan n _ _ 0 cell0 [] [] HP (fun w => eq_refl)) as [O1 O2].
  split.
  - rewrite A1, B1. exact O1.
  - intros w. rewrite !calls_of_ccalls, A2, B2. apply O2.
Qed.

(** with the same consumer order, the whole per-name log is the same *)
Lemma cell_exec_same_sched q pan n : forall steps steps' t st,
  Forall2 (fun a b => snd a n = snd b n /\ tc_first (fst a) = tc_first (fst b)) steps steps' ->
  cell_exec q pan t n (map (proj n) steps) st = cell_exec q pan t n (map (proj n) steps') st.
Proof.
  intros steps steps' t st HF. revert t st.
  induction HF as [|[sc cfg] [sc' cfg'] l l' [H1 H2] HF IH]; intros t st; [reflexivity|].
  cbn [map proj cell_exec fst snd] in *. rewrite !cell_step_closed, H1, H2.
  destruct (cell_step_cf q pan t (tc_first sc') n (cfg' n) (fst st)). apply IH.
Qed.

Lemma order_independent_log q pan steps steps' n :
  good_steps n steps -> good_steps n steps' ->
  Forall2 (fun a b => snd a n = snd b n /\ tc_first (fst a) = tc_first (fst b)) steps steps' ->
  log_of n (snd (run q pan steps)) = log_of n (snd (run q pan steps')).
Proof.
  intros Hg Hg' HF.
  destruct (model_is_per_name q pan n steps Hg) as [_ A2].
  destruct (model_is_per_name q pan n steps' Hg') as [_ B2].
  rewrite A2, B2, (cell_exec_same_sched q pan n steps steps' 0 (cell0, []) HF). reflexivity.
Qed.

(** *** a change of kind *)
Lemma spec_log_app n : forall a b t old,
  spec_log t n old (a ++ b) =
  (fst (spec_log t n old a) ++ fst (spec_log (t + N.of_nat (List.length a)) n (snd (spec_log t n old a)) b),
   snd (spec_log (t + N.of_nat (List.length a)) n (snd (spec_log t n old a)) b)).
Proof.
  induction a as [|x r IH]; intros b t old.
  - cbn. rewrite N.add_0_r. destruct (spec_log t n old b); reflexivity.
  - cbn [app spec_log List.length]. destruct (spec_calls t n old x) as [cs o'].
    rewrite IH. destruct (spec_log (t + 1) n o' r) as [l1 o1]. cbn [fst snd].
    replace (t + 1 + N.of_nat (List.length r)) with (t + N.of_nat (S (List.length r))) by lia.
    rewrite app_assoc. reflexivity.
Qed.

Lemma snaps_for_app w n a b : snaps_for w n (a ++ b) = snaps_for w n a ++ snaps_for w n b.
Proof. apply map_app. Qed.

Lemma snaps_for_length w n a : List.length (snaps_for w n a) = List.length a.
Proof. apply map_length. Qed.

Lemma good_steps_app n a b : good_steps n (a ++ b) -> good_steps n a /\ good_steps n b.
Proof. unfold good_steps. apply Forall_app. Qed.

(** calls and live generation of consumer [w] after one more snapshot *)
Lemma one_more pan steps sc cfg n w :
  w = 0 \/ w = 1 -> good_steps n (steps ++ [(sc, cfg)]) ->
  let t := N.of_nat (List.length steps) in
  let r := spec_calls t n (live w (fst (run ideal pan steps) n)) (filt w (cfg n)) in
  calls_of w n (snd (run ideal pan (steps ++ [(sc, cfg)]))) =
    calls_of w n (snd (run ideal pan steps)) ++ map (pair t) (fst r) /\
  live w (fst (run ideal pan (steps ++ [(sc, cfg)])) n) = snd r.
Proof.
  intros Hw Hg t r. destruct (good_steps_app _ _ _ Hg) as [Hg1 _].
  rewrite (exactly_once pan _ n w Hw Hg), (exactly_once pan _ n w Hw Hg1).
  rewrite (live_is_spec_state pan _ n w Hw Hg). subst r.
  rewrite (live_is_spec_state pan _ n w Hw Hg1).
  rewrite snaps_for_app, spec_log_app, snaps_for_length. cbn [fst snd N.add].
  cbn [snaps_for map spec_log snd]. fold t.
  destruct (spec_calls t n (snd (spec_log 0 n None (snaps_for w n steps))) (filt w (cfg n))) as [cs o'].
  cbn [fst snd]. rewrite app_nil_r. split; reflexivity.
Qed.

Lemma kind_change_is_close_then_init pan steps sc cfg n w old s :
  w = 0 \/ w = 1 -> good_steps n (steps ++ [(sc, cfg)]) ->
  live w (fst (run ideal pan steps) n) = Some old ->
  filt w (cfg n) = Some s ->
  same_kind (e_spec old) s = false ->
  let t := N.of_nat (List.length steps) in
  calls_of w n (snd (run ideal pan (steps ++ [(sc, cfg)]))) =
    calls_of w n (snd (run ideal pan steps)) ++ [(t, Close n old); (t, Init n {| e_spec := s; e_born := t |})] /\
  live w (fst (run ideal pan (steps ++ [(sc, cfg)])) n) = Some {| e_spec := s; e_born := t |}.
Proof.
  intros Hw Hg Hl Hf Hk t.
  destruct (one_more pan steps sc cfg n w Hw Hg) as [O1 O2]. fold t in O1, O2.
  rewrite Hl, Hf in O1, O2. unfold spec_calls in O1, O2.
  assert (Eq : spec_eqb (e_spec old) s = false).
  { destruct (spec_eqb (e_spec old) s) eqn:E; [|reflexivity].
    apply spec_eqb_eq in E. subst s. rewrite same_kind_refl in Hk. discriminate. }
  rewrite Eq, Hk in O1, O2. cbn [fst snd map] in O1, O2. split; assumption.
Qed.

Lemma cats_disjoint e : wfilter cats0 e = true -> wfilter cats1 e = false.
Proof.
  unfold wfilter, cats0, cats1. cbn [existsb]. rewrite !orb_false_r.
  destruct (N.eqb_spec (s_cat (e_spec e)) cat_biz) as [E|E]; [|discriminate].
  intros _. rewrite E. reflexivity.
Qed.

Lemma kind_change_across_consumers pan steps sc cfg n w w' old s :
  (w = 0 /\ w' = 1) \/ (w = 1 /\ w' = 0) -> good_steps n (steps ++ [(sc, cfg)]) ->
  live w (fst (run ideal pan steps) n) = Some old ->
  filt w (cfg n) = None -> filt w' (cfg n) = Some s ->
  let t := N.of_nat (List.length steps) in
  calls_of w n (snd (run ideal pan (steps ++ [(sc, cfg)]))) =
    calls_of w n (snd (run ideal pan steps)) ++ [(t, Close n old)] /\
  live w (fst (run ideal pan (steps ++ [(sc, cfg)])) n) = None /\
  calls_of w' n (snd (run ideal pan (steps ++ [(sc, cfg)]))) =
    calls_of w' n (snd (run ideal pan steps)) ++ [(t, Init n {| e_spec := s; e_born := t |})] /\
  live w' (fst (run ideal pan (steps ++ [(sc, cfg)])) n) = Some {| e_spec := s; e_born := t |}.
Proof.
  intros Hww Hg Hl Hf Hf' t.
  assert (Hw : w = 0 \/ w = 1) by (destruct Hww as [[-> _]|[-> _]]; auto).
  assert (Hw' : w' = 0 \/ w' = 1) by (destruct Hww as [[_ ->]|[_ ->]]; auto).
  destruct (good_steps_app _ _ _ Hg) as [Hg1 _].
  assert (Hl' : live w' (fst (run ideal pan steps) n) = None).
  { pose proof (run_inv pan steps n Hg1) as I.
    rewrite (live_inv _ I w Hw) in Hl. rewrite (live_inv _ I w' Hw').
    unfold fl in *. destruct (c_reg (fst (run ideal pan steps) n)) as [e|]; [|reflexivity].
    destruct Hww as [[-> ->]|[-> ->]]; cbn [cats_of N.eqb] in *.
    - destruct (wfilter cats0 e) eqn:E0; [|discriminate]. rewrite (cats_disjoint e E0). reflexivity.
    - destruct (wfilter cats1 e) eqn:E1; [|discriminate].
      destruct (wfilter cats0 e) eqn:E0; [|reflexivity]. rewrite (cats_disjoint e E0) in E1. discriminate. }
  destruct (one_more pan steps sc cfg n w Hw Hg) as [O1 O2].
  destruct (one_more pan steps sc cfg n w' Hw' Hg) as [P1 P2]. fold t in O1, O2, P1, P2.
  rewrite Hl, Hf in O1, O2. rewrite Hl', Hf' in P1, P2. cbn in O1, O2, P1, P2.
  repeat split; assumption.
Qed.

(** *** untouched when unchanged (any quirks) *)
Lemma cf_unchanged q pan t tcf n c e :
  c_reg c = Some e ->
  snd (cell_step_cf q pan t tcf n (Some (e_spec e)) c) = [] /\
  c_reg (fst (cell_step_cf q pan t tcf n (Some (e_spec e)) c)) = c_reg c /\
  c_sup (fst (cell_step_cf q pan t tcf n (Some (e_spec e)) c)) = c_sup c /\
  c_gate (fst (cell_step_cf q pan t tcf n (Some (e_spec e)) c)) = c_gate c /\
  c_pipe (fst (cell_step_cf q pan t tcf n (Some (e_spec e)) c)) = c_pipe c.
Proof.
  intros H. unfold cell_step_cf. rewrite H. unfold diff_of. rewrite spec_eqb_refl.
  cbn. destruct tcf; repeat split; reflexivity.
Qed.

Lemma cf_absent q pan t tcf n c :
  c_reg c = None ->
  snd (cell_step_cf q pan t tcf n None c) = [] /\
  c_reg (fst (cell_step_cf q pan t tcf n None c)) = c_reg c /\
  c_sup (fst (cell_step_cf q pan t tcf n None c)) = c_sup c /\
  c_gate (fst (cell_step_cf q pan t tcf n None c)) = c_gate c /\
  c_pipe (fst (cell_step_cf q pan t tcf n None c)) = c_pipe c.
Proof.
  intros H. unfold cell_step_cf. rewrite H. cbn. destruct tcf; repeat split; reflexivity.
Qed.

Lemma untouched_when_unchanged q pan steps sc0 cfg0 sc cfg n :
  good_steps n (steps ++ [(sc0, cfg0)] ++ [(sc, cfg)]) ->
  cfg n = cfg0 n ->
  let before := run q pan (steps ++ [(sc0, cfg0)]) in
  let after := run q pan (steps ++ [(sc0, cfg0)] ++ [(sc, cfg)]) in
  log_of n (snd after) = log_of n (snd before) /\
  forall w, live w (fst after n) = live w (fst before n).
Proof.
  intros Hg Hc before after.
  assert (Hg1 : good_steps n (steps ++ [(sc0, cfg0)])).
  { rewrite app_assoc in Hg. apply good_steps_app in Hg. tauto. }
  pose proof (reg_is_snapshot q pan steps sc0 cfg0 n Hg1) as R. fold before in R.
  subst after. rewrite app_assoc in Hg |- *.
  destruct (model_is_per_name q pan n _ Hg) as [A1 A2].
  destruct (model_is_per_name q pan n _ Hg1) as [B1 B2]. fold before in B1, B2.
  rewrite A1, A2. rewrite map_app, cell_exec_app. cbn [map]. rewrite cell_exec_one.
  cbn [fst snd proj]. rewrite <- B1, <- B2, Hc.
  destruct (c_reg (fst before n)) as [e|] eqn:Er; cbn [option_map] in R; rewrite <- R.
  - destruct (cf_unchanged q pan (0 + N.of_nat (List.length (map (proj n) (steps ++ [(sc0, cfg0)])))) (tc_first sc) n
                           (fst before n) e Er) as (U1 & U2 & U3 & U4 & U5).
    rewrite U1, app_nil_r. split; [reflexivity|].
    intros w. unfold live. rewrite U3, U4, U5. reflexivity.
  - destruct (cf_absent q pan (0 + N.of_nat (List.length (map (proj n) (steps ++ [(sc0, cfg0)])))) (tc_first sc) n
                        (fst before n) Er) as (U1 & U2 & U3 & U4 & U5).
    rewrite U1, app_nil_r. split; [reflexivity|].
    intros w. unfold live. rewrite U3, U4, U5. reflexivity.
Qed.

(** *** a watcher that joins late (NewWatcher = one atomic step between two snapshots) *)
Lemma exec_app q pan : forall a b t st,
  exec q pan t (a ++ b) st = exec q pan (t + N.of_nat (List.length a)) b (exec q pan t a st).
Proof.
  induction a as [|[sc cfg] r IH]; intros b t st.
  - cbn. rewrite N.add_0_r. reflexivity.
  - cbn [app exec List.length]. rewrite IH. f_equal. lia.
Qed.

Lemma step_reg_diff q pan t sc cfg st n : visits n (ords sc) ->
  c_reg (fst (step q pan t sc cfg st) n) = fst (diff_of q t (c_reg (fst st n)) (cfg n)) /\
  c_diff (fst (step q pan t sc cfg st) n) = snd (diff_of q t (c_reg (fst st n)) (cfg n)).
Proof.
  intros Hv. destruct (step_spec q pan t sc cfg st n Hv) as [S _].
  rewrite S, cell_step_closed. unfold cell_step_cf. cbn [fst c_reg c_diff]. split; reflexivity.
Qed.

Lemma late_run_ideal pan cats n : forall post t st x,
  good_steps n post ->
  x n = fl cats (c_reg (fst st n)) ->
  late_run ideal pan cats t post st x n = fl cats (c_reg (fst (exec ideal pan t post st) n)).
Proof.
  induction post as [|[sc cfg] r IH]; intros t st x Hg Hx.
  - cbn. exact Hx.
  - inversion Hg as [|a l Hv Hg']; subst. cbn [fst] in Hv.
    cbn [late_run exec]. apply IH; [exact Hg'|].
    unfold late_next. destruct (step_reg_diff ideal pan t sc cfg st n Hv) as [R D].
    rewrite D, R, Hx. apply watch_ents.
Qed.

Lemma join_view_fl cats st n : join_view cats st n = fl cats (c_reg (fst st n)).
Proof. reflexivity. Qed.

Lemma late_watcher_equals_snapshot pan cats pre post sc cfg n :
  good_steps n (pre ++ post ++ [(sc, cfg)]) ->
  (* the first event of a watcher created after the snapshots [pre ++ post ++ [cfg]] ... *)
  option_map e_spec (join_view cats (run ideal pan (pre ++ post ++ [(sc, cfg)])) n) = filtc cats (cfg n) /\
  (* ... and the entities of a watcher created after [pre], once [post ++ [cfg]] have been applied *)
  option_map e_spec (late_run ideal pan cats (N.of_nat (List.length pre)) (post ++ [(sc, cfg)])
                              (run ideal pan pre) (join_view cats (run ideal pan pre)) n) = filtc cats (cfg n).
Proof.
  intros Hg.
  assert (R : option_map e_spec (c_reg (fst (run ideal pan (pre ++ post ++ [(sc, cfg)])) n)) = cfg n).
  { rewrite app_assoc in Hg |- *. apply reg_is_snapshot. exact Hg. }
  split.
  - rewrite join_view_fl, fl_spec, R. reflexivity.
  - destruct (good_steps_app _ _ _ Hg) as [_ Hg2].
    rewrite (late_run_ideal pan cats n _ _ _ _ Hg2 (join_view_fl cats _ n)).
    unfold run in *. rewrite exec_app in R. cbn [N.add] in R. rewrite fl_spec, R. reflexivity.
Qed.

(** *** the Apply API under a reconciling caller follows the same automaton *)
Definition ap_inv (st : ap_state) : Prop :=
  match fst st, snd st with
  | None, None => True
  | Some i, None => is_pipe (i_ent i) = false
  | None, Some i => is_pipe (i_ent i) = true
  | Some _, Some _ => False
  end.

Definition ap_ent (st : ap_state) : option ent := option_map (fun x => i_ent (snd x)) (ap_live st).

Definition scalls (l : list entry) : list (N * call) := map (fun e => (l_step e, l_call e)) l.

Ltac ap_fin :=
  repeat (progress (cbn -[pipek same_kind spec_eqb] in *; rewrite ?is_pipe_pipek in *; cbn [e_spec] in *;
                    repeat match goal with
                           | H : ?x = _ |- context [if ?x then _ else _] => rewrite H
                           end));
  auto.

Lemma applier_spec pan t n new st : ap_inv st ->
  ap_inv (fst (applier pan t n new st)) /\
  scalls (snd (applier pan t n new st)) = map (pair t) (fst (spec_calls t n (ap_ent st) new)) /\
  ap_ent (fst (applier pan t n new st)) = snd (spec_calls t n (ap_ent st) new).
Proof.
  destruct st as [[g|] [p|]]; unfold ap_inv; cbn [fst snd]; intros H; try contradiction;
    unfold applier, ap_ent, ap_live, tc_apply, tc_delete, spec_calls, do_init, do_inherit, do_close, scalls, ap_inv;
    destruct new as [s|]; rewrite ?is_pipe_pipek in *.
  - destruct (spec_eqb (e_spec (i_ent g)) s) eqn:Eq.
    + apply spec_eqb_eq in Eq. subst s.
      pose proof (spec_eqb_refl (e_spec (i_ent g))) as Er. pose proof (same_kind_refl (e_spec (i_ent g))) as Sr.
      ap_fin.
    + destruct (same_kind (e_spec (i_ent g)) s) eqn:Sk.
      * pose proof (pipek_same_kind _ _ Sk) as Pk. rewrite H in Pk. symmetry in Pk. ap_fin.
      * destruct (pipek s) eqn:P; ap_fin.
  - ap_fin.
  - destruct (spec_eqb (e_spec (i_ent p)) s) eqn:Eq.
    + apply spec_eqb_eq in Eq. subst s.
      pose proof (spec_eqb_refl (e_spec (i_ent p))) as Er. pose proof (same_kind_refl (e_spec (i_ent p))) as Sr.
      ap_fin.
    + destruct (same_kind (e_spec (i_ent p)) s) eqn:Sk.
      * pose proof (pipek_same_kind _ _ Sk) as Pk. rewrite H in Pk. symmetry in Pk. ap_fin.
      * destruct (pipek s) eqn:P; ap_fin.
  - ap_fin.
  - destruct (pipek s) eqn:P; ap_fin.
  - ap_fin.
Qed.

Lemma apply_exec_spec pan n : forall news t st l, ap_inv st ->
  scalls (snd (apply_exec pan t n news (st, l))) = scalls l ++ fst (spec_log t n (ap_ent st) news) /\
  ap_ent (fst (apply_exec pan t n news (st, l))) = snd (spec_log t n (ap_ent st) news).
Proof.
  induction news as [|new r IH]; intros t st l Hi.
  - cbn. rewrite app_nil_r. auto.
  - cbn [apply_exec spec_log fst snd].
    destruct (applier_spec pan t n new st Hi) as (I & C & E).
    destruct (IH (t + 1) (fst (applier pan t n new st)) (l ++ snd (applier pan t n new st)) I) as [K1 K2].
    destruct (spec_calls t n (ap_ent st) new) as [cs o']. cbn [fst snd] in C, E.
    rewrite E in K1, K2.
    destruct (spec_log (t + 1) n o' r) as [lg fin]. cbn [fst snd] in *.
    unfold scalls in *. rewrite K1, K2, map_app, C, app_assoc. split; reflexivity.
Qed.

Lemma apply_exactly_once pan n news :
  scalls (snd (apply_exec pan 0 n news ((None, None), []))) = fst (spec_log 0 n None news) /\
  ap_ent (fst (apply_exec pan 0 n news ((None, None), []))) = snd (spec_log 0 n None news).
Proof. exact (apply_exec_spec pan n news 0 (None, None) [] I). Qed.
