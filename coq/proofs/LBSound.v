(** Soundness of the decidable property checkers of model/LBCheck.v: a history that the
    checker accepts satisfies the declarative clauses of C04, with explicit quantifiers. *)
From EG.lib Require Import Base.
From EG.model Require Import LB LBCheck.
From EG.proofs Require Import LBProofs.
From Coq Require Import ZifyBool.
Open Scope Z_scope.

(** * one segment: selections made while one list (weights [ws]) was current *)

Lemma picks_ok_nth p n : forall ts idxs,
  picks_ok p n ts idxs = true ->
  forall j i, nth_error idxs j = Some i ->
  exists t, nth_error ts j = Some t /\ pick_ok p n t i = true.
Proof.
  induction ts as [|t ts IH]; intros [|i0 is'] H j i Hj; cbn [picks_ok] in H; try discriminate.
  - destruct j; discriminate.
  - apply andb_true_iff in H as [H1 H2]. destruct j as [|j]; cbn [nth_error] in *.
    + inversion Hj; subst. exists t. auto.
    + apply (IH is' H2 j i Hj).
Qed.

Lemma tickets64_domain : forall k c0 j t,
  0 <= c0 -> c0 + Z.of_nat k <= two63 ->
  nth_error (tickets64 c0 k) j = Some t -> t < two63.
Proof.
  induction k as [|k IH]; intros c0 j t H0 Hk Hn; cbn [tickets64] in Hn.
  - destruct j; discriminate.
  - destruct j as [|j]; cbn [nth_error] in Hn.
    + inversion Hn; subst. lia.
    + assert (E : (c0 + 1) mod two64 = c0 + 1) by (apply Z.mod_small; unfold two63, two64 in *; lia).
      rewrite E in Hn. apply (IH (c0 + 1) j t); [lia|lia|exact Hn].
Qed.

Lemma policy_eqb_true a b : policy_eqb a b = true -> a = b.
Proof. destruct a, b; cbn; congruence. Qed.

Lemma nth_error_map_snd {A B} (l : list (A * B)) j a b : nth_error l j = Some (a, b) -> nth_error (map snd l) j = Some b.
Proof. intro H. rewrite nth_error_map, H. reflexivity. Qed.

Lemma length_zero_nil {A} (l : list A) : Z.of_nat (List.length l) = 0 <-> l = [].
Proof. destruct l; cbn [List.length]; split; intro H; try reflexivity; try discriminate; lia. Qed.

Lemma sticky_sound : forall picks, sticky picks = true ->
  forall j1 j2 key i1 i2, nth_error picks j1 = Some (key, i1) -> nth_error picks j2 = Some (key, i2) -> i1 = i2.
Proof.
  induction picks as [|[k i] t IH]; intros H j1 j2 key i1 i2 H1 H2.
  - destruct j1; discriminate.
  - cbn [sticky] in H. apply andb_true_iff in H as [Hh Ht]. rewrite forallb_forall in Hh.
    destruct j1 as [|j1], j2 as [|j2]; cbn [nth_error] in H1, H2.
    + congruence.
    + inversion H1; subst. apply nth_error_In in H2. specialize (Hh _ H2). cbn in Hh.
      rewrite String.eqb_refl in Hh. lia.
    + inversion H2; subst. apply nth_error_In in H1. specialize (Hh _ H1). cbn in Hh.
      rewrite String.eqb_refl in Hh. lia.
    + eapply IH; eassumption.
Qed.

Lemma forallb_Forall {A} (f : A -> bool) (P : A -> Prop) l :
  (forall x, P x -> f x = true) -> Forall P l -> forallb f l = true.
Proof. intros H HF. apply forallb_forall. intros x Hx. apply H. rewrite Forall_forall in HF. auto. Qed.

Lemma existsb_Exists {A} (f : A -> bool) (P : A -> Prop) l :
  (forall x, P x -> f x = true) -> Exists P l -> existsb f l = true.
Proof. intros H HE. apply existsb_exists. apply Exists_exists in HE as (x & Hx & Px). exists x. auto. Qed.

Lemma filter_none {A} (f : A -> bool) l : (forall x, In x l -> f x = false) -> filter f l = [].
Proof.
  induction l as [|a t IH]; intro H; [reflexivity|]. cbn [filter].
  rewrite (H a (or_introl eq_refl)). apply IH. intros x Hx. apply H. right. exact Hx.
Qed.

(** the clauses for one segment; [c0] = value of the balancer's counter before the first selection *)
Definition seg_clauses (p : policy) (ws : list Z) (c0 : Z) (picks : list (string * Z)) : Prop :=
  let n := Z.of_nat (List.length ws) in
  let k := Z.of_nat (List.length picks) in
  (* (1) "no server" (-1) is reported exactly when the list is empty; otherwise the chosen index
         designates a member of the list.  Only exception: a round-robin selection whose ticket is
         >= 2^63 (outside the claimed domain) may have panicked (-2) *)
  (forall j key idx, nth_error picks j = Some (key, idx) ->
     (idx = -1 <-> ws = []) /\
     (ws <> [] ->
        (0 <= idx < n /\ exists w, nth_error ws (Z.to_nat idx) = Some w) \/
        (p = RoundRobin /\ idx = -2 /\
         exists t, nth_error (tickets64 c0 (List.length picks)) j = Some t /\ two63 <= t))) /\
  (* ... and never inside the domain *)
  (p <> RoundRobin \/ in_domain c0 k = true ->
   forall key idx, In (key, idx) picks -> ws <> [] ->
     0 <= idx < n /\ exists w, nth_error ws (Z.to_nat idx) = Some w) /\
  (* (2) roundRobin: floor(k/n) or ceil(k/n) selections per server, exactly k mod n at the ceiling *)
  (p = RoundRobin -> ws <> [] -> in_domain c0 k = true ->
     (forall i, 0 <= i < n ->
        count i (map snd picks) = k / n \/ (k mod n <> 0 /\ count i (map snd picks) = k / n + 1)) /\
     Z.of_nat (List.length (filter (fun i => count i (map snd picks) =? k / n + 1) (zseq 0 (Z.to_nat n)))) = k mod n) /\
  (* (3) ipHash / headerHash: equal keys (any key, the empty one included) -> same server *)
  (p = IPHash \/ p = HeaderHash ->
     forall j1 j2 key i1 i2, nth_error picks j1 = Some (key, i1) -> nth_error picks j2 = Some (key, i2) -> i1 = i2) /\
  (* (4) weightedRandom: never a zero-weight server when some weight is positive *)
  (p = WeightedRandom -> Forall (fun w => 0 <= w) ws -> Exists (fun w => 0 < w) ws ->
     forall key idx, In (key, idx) picks -> 0 < nthZ ws idx).

Lemma pick_member p n (ws : list Z) t idx :
  n = Z.of_nat (List.length ws) -> pick_ok p n t idx = true ->
  (idx = -1 <-> ws = []) /\
  (ws <> [] -> (0 <= idx < n /\ exists w, nth_error ws (Z.to_nat idx) = Some w) \/
               (p = RoundRobin /\ idx = -2 /\ two63 <= t)).
Proof.
  intros Hn H. unfold pick_ok in H. destruct (n =? 0) eqn:E0.
  - assert (ws = []) by (apply length_zero_nil; lia). subst ws. split; [split; [reflexivity|lia]|congruence].
  - assert (Hne : ws <> []) by (intro; subst ws; cbn in Hn; lia).
    apply orb_true_iff in H as [H|H].
    + split; [split; [lia|congruence]|]. intros _. left. split; [lia|].
      destruct (nth_error ws (Z.to_nat idx)) as [w|] eqn:En; [eauto|].
      apply nth_error_None in En. lia.
    + apply andb_true_iff in H as [H H3]. apply andb_true_iff in H as [H1 H2].
      apply policy_eqb_true in H1. split; [split; [lia|congruence]|]. intros _. right. repeat split; [exact H1|lia|lia].
Qed.

Theorem prop_sel_sound p ws c0 picks : prop_sel p ws c0 picks = true -> seg_clauses p ws c0 picks.
Proof.
  intro H. unfold prop_sel in H. apply andb_true_iff in H as [Hok Hpol].
  set (n := Z.of_nat (List.length ws)) in *. set (k := Z.of_nat (List.length picks)) in *.
  assert (M : forall j key idx, nth_error picks j = Some (key, idx) ->
              exists t, nth_error (tickets64 c0 (List.length picks)) j = Some t /\ pick_ok p n t idx = true).
  { intros j key idx Hj. eapply picks_ok_nth; [exact Hok|]. eapply nth_error_map_snd; exact Hj. }
  assert (C1 : forall j key idx, nth_error picks j = Some (key, idx) ->
     (idx = -1 <-> ws = []) /\
     (ws <> [] ->
        (0 <= idx < n /\ exists w, nth_error ws (Z.to_nat idx) = Some w) \/
        (p = RoundRobin /\ idx = -2 /\
         exists t, nth_error (tickets64 c0 (List.length picks)) j = Some t /\ two63 <= t))).
  { intros j key idx Hj. destruct (M j key idx Hj) as (t & Ht & Hp).
    destruct (pick_member p n ws t idx eq_refl Hp) as [A B]. split; [exact A|].
    intro Hne. destruct (B Hne) as [B1|(B1 & B2 & B3)]; [left; exact B1|right; eauto]. }
  unfold seg_clauses. fold n k. split; [exact C1|]. split; [|split; [|split]].
  - intros Hd key idx Hin Hne. apply In_nth_error in Hin as (j & Hj).
    destruct (C1 j key idx Hj) as [_ B]. destruct (B Hne) as [B1|(B1 & B2 & t & Ht & Hge)]; [exact B1|exfalso].
    destruct Hd as [Hd|Hd]; [congruence|].
    unfold in_domain in Hd. apply andb_true_iff in Hd as [D1 D2].
    pose proof (tickets64_domain (List.length picks) c0 j t ltac:(lia) ltac:(fold k; lia) Ht). lia.
  - intros -> Hne Hd. rewrite Hd in Hpol.
    assert (Hn : 0 < n) by (destruct ws; [congruence|unfold n; cbn [List.length]; lia]).
    destruct (0 <? n) eqn:E; [|lia]. cbn [andb] in Hpol. unfold balanced in Hpol.
    apply andb_true_iff in Hpol as [Hall Hex]. rewrite forallb_forall in Hall.
    assert (V : forall i, 0 <= i < n -> count i (map snd picks) = k / n \/ count i (map snd picks) = k / n + 1).
    { intros i Hi. specialize (Hall (count i (map snd picks))).
      assert (Hin : In (count i (map snd picks)) (map (fun i0 => count i0 (map snd picks)) (zseq 0 (Z.to_nat n)))).
      { apply in_map_iff. exists i. split; [reflexivity|]. apply zseq_In. lia. }
      specialize (Hall Hin). lia. }
    destruct (k mod n =? 0) eqn:Em.
    + rewrite forallb_forall in Hex.
      assert (W : forall i, 0 <= i < n -> count i (map snd picks) = k / n).
      { intros i Hi. specialize (Hex (count i (map snd picks))).
        assert (Hin : In (count i (map snd picks)) (map (fun i0 => count i0 (map snd picks)) (zseq 0 (Z.to_nat n)))).
        { apply in_map_iff. exists i. split; [reflexivity|]. apply zseq_In. lia. }
        specialize (Hex Hin). lia. }
      split; [intros i Hi; left; apply W; exact Hi|].
      assert (Hf : filter (fun i => count i (map snd picks) =? k / n + 1) (zseq 0 (Z.to_nat n)) = []).
      { apply filter_none. intros i Hi. apply zseq_In in Hi. rewrite (W i) by lia. lia. }
      rewrite Hf. cbn. lia.
    + split.
      * intros i Hi. destruct (V i Hi) as [A|A]; [left; exact A|right; split; [lia|exact A]].
      * rewrite <- filter_map_length with (f := fun i => count i (map snd picks)) (p := fun c => c =? k / n + 1). lia.
  - intros Hp. apply sticky_sound. destruct Hp as [-> | ->]; exact Hpol.
  - intros -> HF HE key idx Hin.
    assert (E1 : forallb (fun w => 0 <=? w) ws = true) by (apply (forallb_Forall _ (fun w => 0 <= w)); [intros x Hx; cbv beta in Hx; lia|exact HF]).
    assert (E2 : existsb (fun w => 0 <? w) ws = true) by (apply (existsb_Exists _ (fun w => 0 < w)); [intros x Hx; cbv beta in Hx; lia|exact HE]).
    rewrite E1, E2 in Hpol. cbn [andb] in Hpol. rewrite forallb_forall in Hpol.
    assert (Hne : ws <> []) by (intro; subst ws; inversion HE).
    apply In_nth_error in Hin as (j & Hj).
    destruct (C1 j key idx Hj) as [_ B]. destruct (B Hne) as [(B1 & _)|(B1 & _)]; [|discriminate].
    specialize (Hpol idx). assert (Hi : In idx (map snd picks)).
    { apply in_map_iff. exists (key, idx). split; [reflexivity|]. eapply nth_error_In; exact Hj. }
    specialize (Hpol Hi). fold n in Hpol. destruct ((0 <=? idx) && (idx <? n)) eqn:E; lia.
Qed.

(** * whole histories (group pool / watch tail): requests interleaved with list replacements *)

(** meaning of the code the checker derives from an observed (status, result, target) *)
Lemma index_of_spec u : forall d i c, index_of u d i = c -> 0 <= i -> 0 <= c ->
  i <= c < i + Z.of_nat (List.length d) /\ exists s, nth_error d (Z.to_nat (c - i)) = Some s /\ s_url s = u /\ In s d.
Proof.
  induction d as [|s t IH]; intros i c H Hi Hc; cbn [index_of] in H; [lia|].
  destruct (String.eqb u (s_url s)) eqn:E.
  - subst c. split; [cbn [List.length]; lia|]. exists s. replace (i - i) with 0 by lia.
    apply String.eqb_eq in E. cbn. auto.
  - destruct (IH (i + 1) c H ltac:(lia) Hc) as (B & s' & H1 & H2 & H3).
    split; [cbn [List.length]; lia|]. exists s'. replace (Z.to_nat (c - i)) with (S (Z.to_nat (c - (i + 1)))) by lia.
    cbn. auto.
Qed.

Lemma index_of_not_m1 u : forall d i, 0 <= i -> index_of u d i <> -1.
Proof. induction d as [|s t IH]; intros i Hi; cbn [index_of]; [lia|]. destruct (String.eqb u (s_url s)); [lia|apply IH; lia]. Qed.

Definition no_server_obs (x : Z * string * string) : Prop := x = (503, "internalError"%string, ""%string).

Lemma obs_code_m1 d x : obs_code d x = -1 <-> no_server_obs x.
Proof.
  destruct x as [[st rs] tg]. unfold obs_code, no_server_obs.
  destruct (st =? -2) eqn:E1; [split; [lia|intro H; inversion H; subst; discriminate]|].
  destruct ((st =? 200) && String.eqb rs "" && negb (String.eqb tg "")) eqn:E2.
  - split; [intro H; exfalso; eapply index_of_not_m1; [|exact H]; lia|].
    intro H; inversion H; subst. cbn in E2. discriminate.
  - destruct ((st =? 503) && String.eqb rs "internalError" && String.eqb tg "") eqn:E3.
    + split; [intros _|reflexivity]. apply andb_true_iff in E3 as [E3 E5]. apply andb_true_iff in E3 as [E3 E4].
      apply String.eqb_eq in E4, E5. subst. f_equal. f_equal. lia.
    + split; [lia|]. intro H; inversion H; subst. cbn in E3. discriminate.
Qed.

Lemma obs_code_member d x c : obs_code d x = c -> 0 <= c ->
  exists s, x = (200, ""%string, s_url s) /\ nth_error d (Z.to_nat c) = Some s /\ In s d.
Proof.
  destruct x as [[st rs] tg]. unfold obs_code. intros H Hc.
  destruct (st =? -2) eqn:E1; [lia|].
  destruct ((st =? 200) && String.eqb rs "" && negb (String.eqb tg "")) eqn:E2.
  - apply andb_true_iff in E2 as [E2 E4]. apply andb_true_iff in E2 as [E2 E3]. apply String.eqb_eq in E3.
    destruct (index_of_spec tg d 0 c H ltac:(lia) Hc) as (_ & s & H1 & H2 & H3).
    exists s. replace (c - 0) with c in H1 by lia. subst. repeat split; try assumption. f_equal. f_equal. lia.
  - destruct ((st =? 503) && String.eqb rs "internalError" && String.eqb tg ""); lia.
Qed.

(** the first segment produced by [segments] is for the list [d] and starts with the picks accumulated so far *)
Lemma segments_head static tags : forall ops d acc trs,
  exists more rest, segments static tags d acc ops trs = (d, rev acc ++ more) :: rest.
Proof.
  induction ops as [|op t IH]; intros d acc trs.
  - exists [], []. cbn. rewrite app_nil_r. reflexivity.
  - destruct op as [insts ol|hn hv key dr st rs tg]; cbn [segments].
    + exists [], (segments static tags (pool_list static (tagged tags insts)) [] t trs). rewrite app_nil_r. reflexivity.
    + destruct trs as [|x trs'].
      * exists [(key, -4)], []. cbn [rev]. reflexivity.
      * destruct (IH d ((key, obs_code d x) :: acc) trs') as (more & rest & E). rewrite E.
        exists ((key, obs_code d x) :: more), rest. cbn [rev]. rewrite <- app_assoc. reflexivity.
Qed.

(** every observed selection lies in a segment whose list is the list current at that selection *)
Lemma req_view_in_segment static tags : forall ops d0 acc trs d key x,
  In (d, key, x) (req_view static tags d0 ops trs) ->
  exists picks, In (d, picks) (segments static tags d0 acc ops trs) /\ In (key, obs_code d x) picks.
Proof.
  induction ops as [|op t IH]; intros d0 acc trs d key x Hin; [destruct Hin|].
  destruct op as [insts ol|hn hv k dr st rs tg]; cbn [req_view segments] in *.
  - destruct (IH _ [] trs d key x Hin) as (picks & H1 & H2). exists picks. split; [right; exact H1|exact H2].
  - destruct trs as [|x0 trs'].
    + destruct Hin as [Hin|[]]. inversion Hin; subst. exists (rev ((key, -4) :: acc)). split; [left; reflexivity|].
      apply in_rev. rewrite rev_involutive. left. reflexivity.
    + destruct Hin as [Hin|Hin].
      * inversion Hin; subst.
        destruct (segments_head static tags t d ((key, obs_code d x) :: acc) trs') as (more & rest & E).
        rewrite E. exists (rev ((key, obs_code d x) :: acc) ++ more). split; [left; reflexivity|].
        apply in_or_app. left. apply in_rev. rewrite rev_involutive. left. reflexivity.
      * apply (IH d0 ((k, obs_code d0 x0) :: acc) trs' d key x Hin).
Qed.

(** segments are no longer than the history *)
Lemma segments_length static tags : forall ops d acc trs dd picks,
  In (dd, picks) (segments static tags d acc ops trs) ->
  (List.length picks <= List.length acc + List.length ops)%nat.
Proof.
  induction ops as [|op t IH]; intros d acc trs dd picks Hin; cbn [segments] in Hin.
  - destruct Hin as [Hin|[]]. inversion Hin; subst. rewrite rev_length. lia.
  - destruct op as [insts ol|hn hv key dr st rs tg].
    + destruct Hin as [Hin|Hin].
      * inversion Hin; subst. rewrite rev_length. cbn [List.length]. lia.
      * apply IH in Hin. cbn [List.length] in *. lia.
    + destruct trs as [|x trs'].
      * destruct Hin as [Hin|[]]. inversion Hin; subst. cbn [rev]. rewrite ?app_length, ?rev_length. cbn [List.length]. lia.
      * apply IH in Hin. cbn [List.length] in *. lia.
Qed.

Definition history_clauses (p : policy) (static : list server) (tags : list string)
           (ops : list pop) (trs : list (Z * string * string)) : Prop :=
  (* every selection, with the list d current at that selection *)
  (forall d key x, In (d, key, x) (req_view static tags static ops trs) ->
     (no_server_obs x <-> d = []) /\
     (d <> [] -> exists s, In s d /\ x = (200, ""%string, s_url s))) /\
  (* every maximal segment with an unchanged list *)
  (forall d picks, In (d, picks) (segments static tags static [] ops trs) -> seg_clauses p (weights d) 0 picks) /\
  (forall d picks, In (d, picks) (segments static tags static [] ops trs) ->
     in_domain 0 (Z.of_nat (List.length picks)) = true).

Theorem prop_pool_sound p static tags ops trs :
  Z.of_nat (List.length ops) <= two63 ->
  prop_pool p static tags ops trs = true -> history_clauses p static tags ops trs.
Proof.
  intros Hlen H. unfold prop_pool in H. rewrite forallb_forall in H.
  assert (S : forall d picks, In (d, picks) (segments static tags static [] ops trs) -> seg_clauses p (weights d) 0 picks).
  { intros d picks Hin. apply prop_sel_sound. apply (H (d, picks) Hin). }
  assert (D : forall d picks, In (d, picks) (segments static tags static [] ops trs) ->
              in_domain 0 (Z.of_nat (List.length picks)) = true).
  { intros d picks Hin. apply segments_length in Hin. cbn [List.length] in Hin. unfold in_domain. lia. }
  split; [|split; [exact S|exact D]].
  intros d key x Hin.
  destruct (req_view_in_segment static tags ops static [] trs d key x Hin) as (picks & Hs & Hp).
  destruct (S d picks Hs) as (_ & C2 & _). specialize (D d picks Hs).
  assert (Hw : weights d = [] <-> d = []) by (unfold weights; destruct d; cbn; split; congruence).
  pose proof Hp as Hp'. apply In_nth_error in Hp' as (j & Hj).
  destruct (S d picks Hs) as (C1 & _). destruct (C1 j key (obs_code d x) Hj) as [A _].
  split.
  - rewrite <- obs_code_m1. rewrite A. exact Hw.
  - intro Hne. assert (Hne' : weights d <> []) by (rewrite Hw; exact Hne).
    destruct (C2 (or_intror D) key (obs_code d x) Hp Hne') as ((B1 & B2) & _).
    destruct (obs_code_member d x (obs_code d x) eq_refl B1) as (s & E1 & _ & E3). exists s. auto.
Qed.

(** * concurrent groups *)

(** rrc: the final per-server totals of k = g * per selections made by g concurrent selectors *)
Lemma fold_right_zsum cs : fold_right Z.add 0 cs = zsum cs.
Proof. reflexivity. Qed.

Theorem balanced_counts_sound n k cs :
  0 < n -> balanced_counts n k cs = true ->
  Z.of_nat (List.length cs) = n /\
  (forall c, In c cs -> c = k / n \/ (k mod n <> 0 /\ c = k / n + 1)) /\
  Z.of_nat (List.length (filter (fun c => c =? k / n + 1) cs)) = k mod n /\
  zsum cs = k.
Proof.
  intros Hn H. unfold balanced_counts in H.
  apply andb_true_iff in H as [H H4]. apply andb_true_iff in H as [H H3]. apply andb_true_iff in H as [H1 H2].
  rewrite forallb_forall in H2.
  assert (E : filter (fun c => negb (c =? k / n)) cs = filter (fun c => c =? k / n + 1) cs).
  { apply filter_ext_in. intros c Hc. specialize (H2 c Hc). lia. }
  rewrite E in H3. repeat split; try (unfold zsum; lia).
  intros c Hc. pose proof (H2 c Hc) as Hv.
  destruct (c =? k / n) eqn:Ec; [left; lia|right]. split; [|lia].
  intro Hm. rewrite Hm in H3.
  assert (Hf : In c (filter (fun c0 => c0 =? k / n + 1) cs)) by (apply filter_In; split; [exact Hc|lia]).
  destruct (filter (fun c0 => c0 =? k / n + 1) cs); [destruct Hf|cbn [List.length] in H3; lia].
Qed.

(** swap: selections concurrent with list replacement *)
Lemma combine_zseq_nth {A} : forall (l : list A) from j x,
  In (j, x) (combine (zseq from (List.length l)) l) ->
  from <= j /\ nth_error l (Z.to_nat (j - from)) = Some x.
Proof.
  induction l as [|a t IH]; intros from j x Hin; cbn [List.length zseq combine] in Hin; [destruct Hin|].
  destruct Hin as [Hin|Hin].
  - inversion Hin; subst. split; [lia|]. replace (j - j) with 0 by lia. reflexivity.
  - apply IH in Hin as [H1 H2]. split; [lia|].
    replace (Z.to_nat (j - from)) with (S (Z.to_nat (j - (from + 1)))) by lia. exact H2.
Qed.

Theorem hist_ok_sound urls hist :
  hist_ok urls hist = true ->
  forall lo hi u n, In (lo, hi, u, n) hist -> 0 < n ->
  exists j l, nth_error urls (Z.to_nat j) = Some l /\ lo <= j <= hi /\ 0 <= j /\
              (u = ""%string -> l = []) /\ (u <> ""%string -> In u l).
Proof.
  intros H lo hi u n Hin Hn. unfold hist_ok in H. rewrite forallb_forall in H.
  specialize (H _ Hin). cbn in H. apply orb_true_iff in H as [H|H]; [lia|].
  unfold in_window in H. apply existsb_exists in H as ([j l] & Hc & Hok).
  apply combine_zseq_nth in Hc as [Hj Hn']. replace (j - 0) with j in Hn' by lia.
  apply andb_true_iff in Hok as [Hr Hm]. exists j, l. split; [exact Hn'|]. split; [lia|]. split; [lia|].
  unfold member_or_empty in Hm. destruct (String.eqb u "") eqn:Eu.
  - apply String.eqb_eq in Eu. split; [intros _; destruct l; [reflexivity|discriminate]|congruence].
  - apply String.eqb_neq in Eu. split; [congruence|]. intros _. apply str_in_spec. exact Hm.
Qed.

(** * the pool's list against the reports of discovery (group watch): equal as multisets *)
Lemma sz_eqb_eq a b : sz_eqb a b = true <-> a = b.
Proof.
  destruct a as [u w], b as [u' w']. unfold sz_eqb. cbn [fst snd]. rewrite andb_true_iff, String.eqb_eq. split.
  - intros [-> H]. f_equal. lia.
  - intro H. inversion H; subst. split; [reflexivity|lia].
Qed.

Lemma occ_zero x l : ~ In x l -> occ x l = 0%nat.
Proof.
  intro H. unfold occ. rewrite filter_none; [reflexivity|].
  intros y Hy. destruct (sz_eqb x y) eqn:E; [|reflexivity]. apply sz_eqb_eq in E. subst. contradiction.
Qed.

Lemma sz_dec (a b : string * Z) : {a = b} + {a <> b}.
Proof. decide equality; [apply Z.eq_dec|apply string_dec]. Qed.

Theorem perm_eqb_sound l1 l2 : perm_eqb l1 l2 = true -> forall x, occ x l1 = occ x l2.
Proof.
  intros H x. unfold perm_eqb in H. apply andb_true_iff in H as [H H2]. apply andb_true_iff in H as [_ H1].
  rewrite forallb_forall in H1, H2.
  destruct (in_dec sz_dec x l1) as [I1|N1]; [apply Nat.eqb_eq, H1, I1|].
  destruct (in_dec sz_dec x l2) as [I2|N2]; [apply Nat.eqb_eq, H2, I2|].
  rewrite !occ_zero by assumption. reflexivity.
Qed.

(** * one request through several balancers (group chain) *)

(** model: a stage's outcome is [choose] on that stage's own key and list *)
Lemma chain_run_nth q : forall stages r envs s p hk l t d,
  nth_error stages s = Some (p, hk, l) -> nth_error envs s = Some (t, d) ->
  nth_error (chain_run q stages r envs) s = Some (choose q p l {| tk := t; dr := d; ky := stage_key p hk r |}).
Proof.
  induction stages as [|[[p0 hk0] l0] st IH]; intros r envs s p hk l t d Hs He; [destruct s; discriminate|].
  destruct envs as [|[t0 d0] en]; [destruct s; discriminate|].
  destruct s as [|s]; cbn [nth_error chain_run] in *.
  - inversion Hs; inversion He; subst. reflexivity.
  - eapply IH; eassumption.
Qed.

Lemma chain_own_key q stages r1 r2 envs1 envs2 s p hk l t1 d1 t2 d2 :
  nth_error stages s = Some (p, hk, l) ->
  p = IPHash \/ p = HeaderHash ->
  nth_error envs1 s = Some (t1, d1) -> nth_error envs2 s = Some (t2, d2) ->
  stage_key p hk r1 = stage_key p hk r2 ->
  nth_error (chain_run q stages r1 envs1) s = nth_error (chain_run q stages r2 envs2) s.
Proof.
  intros Hs Hp H1 H2 Hk.
  rewrite (chain_run_nth q stages r1 envs1 s p hk l t1 d1 Hs H1), (chain_run_nth q stages r2 envs2 s p hk l t2 d2 Hs H2).
  f_equal. apply hash_sticky; [exact Hp|exact Hk].
Qed.

Lemma combine_seq_In {A} : forall (l : list A) from s x,
  nth_error l s = Some x -> In ((from + s)%nat, x) (combine (seq from (List.length l)) l).
Proof.
  induction l as [|a t IH]; intros from s x H; [destruct s; discriminate|].
  cbn [List.length seq combine]. destruct s as [|s]; cbn [nth_error] in H.
  - inversion H; subst. left. f_equal. lia.
  - right. replace (from + S s)%nat with (S from + s)%nat by lia. apply IH. exact H.
Qed.

Theorem prop_chain_sound stages reqs :
  prop_chain stages reqs = true ->
  forall s pol hk n, nth_error stages s = Some (pol, hk, n) ->
    seg_clauses (policy_of_string pol) (stage_ws n) 0 (column s reqs) /\
    (policy_of_string pol = IPHash \/ policy_of_string pol = HeaderHash ->
     (* two requests with the same key AT THIS STAGE got the same server at this stage - whatever
        else the requests carry: other headers, the client address, what the other stages hashed
        or chose before or after *)
     forall j1 j2 r1 r2, nth_error reqs j1 = Some r1 -> nth_error reqs j2 = Some r2 ->
       fst (nth s (snd r1) (""%string, -4)) = fst (nth s (snd r2) (""%string, -4)) ->
       snd (nth s (snd r1) (""%string, -4)) = snd (nth s (snd r2) (""%string, -4))).
Proof.
  intros H s pol hk n Hs. unfold prop_chain in H. apply andb_true_iff in H as [H _].
  rewrite forallb_forall in H.
  pose proof (combine_seq_In stages 0 s (pol, hk, n) Hs) as Hin. cbn [Nat.add] in Hin.
  specialize (H _ Hin). cbn in H. apply prop_sel_sound in H. split; [exact H|].
  intros Hp j1 j2 r1 r2 H1 H2 Hk.
  destruct H as (_ & _ & _ & C3 & _). specialize (C3 Hp).
  set (e1 := nth s (snd r1) (""%string, -4)) in *. set (e2 := nth s (snd r2) (""%string, -4)) in *.
  apply (C3 j1 j2 (fst e1) (snd e1) (snd e2)).
  - unfold column. rewrite nth_error_map, H1. cbn. fold e1. destruct e1; reflexivity.
  - unfold column. rewrite nth_error_map, H2. cbn. fold e2. rewrite Hk. destruct e2; reflexivity.
Qed.
