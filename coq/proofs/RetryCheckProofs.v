(** C10 - the trace checker [prop_retry] used as [prop] is sound for the model:
    applied to the model's own observables (for every validated policy, script,
    cancellation point, breaker mode, draws and select resolution) it answers true.
    So a [prop] failure on an implementation trace is a difference between the
    implementation and every behaviour of the model. *)
From EG.lib Require Import Base.
From EG.model Require Import Retry RetryCheck.
From EG.proofs Require Import RetryProofs.
From Coq Require Import ZifyBool.
Open Scope Z_scope.

Lemma validb_valid : forall p, validb p = true -> valid p.
Proof. intros p H. unfold validb in H. unfold valid. lia. Qed.

Section Waits.
  Variable p : policy.
  Variable h : nat -> outcome.
  Variable draws : nat -> Z.
  Variable cancel_at : option nat.
  Variable pick : nat -> bool.
  Hypothesis Hfd : 0 < p_fden p.
  Hypothesis Hfn : 0 <= p_fnum p <= p_fden p.

  Notation L := (loop p h draws cancel_at pick).

  (** the completed waits are wait_at i, wait_at (i+1), ...; there are at least
      (attempts - 1) and at most (attempts) of them *)
  Lemma loop_waits_shape : forall r i last,
    exists m, waits_of (L r i (base_num p i) (base_den p i) last) = map (wait_at p draws) (seq i m) /\
      (List.length (attempts_of (L r i (base_num p i) (base_den p i) last)) <= m + 1)%nat /\
      (m <= List.length (attempts_of (L r i (base_num p i) (base_den p i) last)))%nat.
  Proof.
    induction r as [|r IH]; intros i last.
    - exists 0%nat. cbn. repeat split; lia.
    - rewrite (loop_S p h draws cancel_at pick Hfd Hfn).
      rewrite attempts_of_attempt, waits_of_attempt.
      destruct (retryable (h i)).
      + destruct (ctx_done cancel_at i && ((0 <? wait_at p draws i) || negb (pick i))).
        * exists 0%nat. cbn. repeat split; lia.
        * destruct (IH (S i) (Some (h i))) as [m [Hw [H1 H2]]].
          exists (S m). rewrite attempts_of_wait, waits_of_wait, Hw. cbn [List.length seq map].
          repeat split; lia.
      + exists 0%nat. cbn. repeat split; lia.
  Qed.
End Waits.

Lemma ge_prefix_lows : forall p draws, fvalid p -> forall k i,
  ge_prefix (map (wait_at p draws) (seq i k)) (map (lo_wait p) (seq i k)) = true.
Proof.
  intros p draws [Hd Hn]. induction k as [|k IH]; intros i; [reflexivity|].
  cbn [seq map ge_prefix]. rewrite IH, andb_true_r.
  pose proof (wait_at_bounds p draws i Hd Hn). lia.
Qed.

Lemma firstn_map_seq : forall (f : nat -> Z) k m i, (k <= m)%nat ->
  firstn k (map f (seq i m)) = map f (seq i k).
Proof.
  induction k as [|k IH]; intros m i Hk; [reflexivity|].
  destruct m as [|m]; [lia|]. cbn [seq map firstn]. f_equal. apply IH. lia.
Qed.

Lemma in_attempts_of : forall tr j, In j (attempts_of tr) -> In (Attempt j) tr.
Proof.
  intros tr j H. unfold attempts_of in H. apply in_flat_map in H as [e [He Hj]].
  destruct e; cbn in Hj; try contradiction. destruct Hj as [<-|[]]. exact He.
Qed.

Lemma script_at_nat : forall s m,
  script_at s (Z.of_nat m) = match nth_error s m with Some k => k | None => 1 end.
Proof.
  intros s m. unfold script_at. destruct (Z.of_nat m <? 0) eqn:E; [lia|]. rewrite Nat2Z.id. reflexivity.
Qed.

Lemma script_outcome_err : forall s m c r,
  script_outcome s m = OErr c r -> is_err_code (script_at s (Z.of_nat m)) = true /\ c = Z.of_nat m.
Proof.
  intros s m c r H. rewrite script_at_nat. unfold script_outcome in H.
  destruct (nth_error s m) as [k|]; [|inversion H; split; reflexivity].
  destruct k as [|q|q]; try discriminate.
  - destruct q as [q|q|]; try destruct q; inversion H; split; reflexivity.
  - inversion H; split; reflexivity.
Qed.

Lemma all_failed_before_intro : forall s n,
  (forall m, (m < n)%nat -> is_err_code (script_at s (Z.of_nat m)) = true) ->
  all_failed_before s n = true.
Proof.
  induction n as [|n IH]; intros H; [reflexivity|].
  cbn [all_failed_before]. rewrite (H n ltac:(lia)), IH; [reflexivity|]. intros m Hm. apply H. lia.
Qed.

Lemma cancel_of_nonneg : forall c, 0 <= c -> cancel_of c = Some (Z.to_nat c).
Proof. intros c H. unfold cancel_of. destruct (c <? 0) eqn:E; [lia|reflexivity]. Qed.

(** the checker accepts every behaviour of the model *)
Theorem prop_retry_sound : forall p script cancel cb draws pick,
  valid p -> cb = 0 \/ cb = 1 \/ cb = 2 ->
  prop_retry (model_retry_case p script cancel cb draws pick) = true.
Proof.
  intros p script cancel cb draws pick Hv Hcb.
  pose proof (valid_fvalid p Hv) as Hfv. destruct Hfv as [Hd Hn].
  assert (Hvb : validb p = true) by (unfold validb; destruct Hv as [? [? ?]]; lia).
  unfold prop_retry, model_retry_case. cbn [rc_pol rc_script rc_cancel rc_cb rc_calls rc_fkind rc_fid
    rc_gaps rc_tail rc_cbt rc_cbf]. rewrite Hvb. cbn [negb].
  set (hh := script_outcome script).
  set (inner := retry_run p hh draws (cancel_of cancel) pick).
  destruct (cb =? 2) eqn:E2.
  - (* forced open *)
    assert (E0 : (cb =? 0) = false) by lia. cbn. rewrite E0. reflexivity.
  - cbn [negb]. destruct (cb_wrap_records_once inner) as [Hrec Hin].
    { unfold inner. destruct (final_is_last_attempt p hh draws (cancel_of cancel) pick Hv) as [Hf _].
      cbv zeta in Hf. rewrite Hf. unfold hh, script_outcome.
      destruct (nth_error script _) as [[|[q|q|]|q]|]; try destruct q; discriminate. }
    assert (Hrej : existsb (fun e => match e with CbReject => true | _ => false end) (cb_wrap true inner) = false).
    { unfold cb_wrap. cbn [negb]. rewrite existsb_app.
      assert (H : forall tr, existsb (fun e => match e with CbReject => true | _ => false end)
                               (map CbInner tr) = false)
        by (induction tr as [|e t IH]; [reflexivity|]; cbn; exact IH).
      rewrite H. destruct (final_of inner) as [[c|c r| |]|]; reflexivity. }
    rewrite Hrej, Hin, Hrec.
    destruct (attempts_le_max p hh draws (cancel_of cancel) pick (conj Hd Hn)) as [Hseq [Hmax Hpos]].
    fold inner in Hseq, Hmax, Hpos. specialize (Hpos ltac:(destruct Hv; lia)).
    set (n := n_attempts inner) in *.
    destruct (final_is_last_attempt p hh draws (cancel_of cancel) pick Hv) as [Hf _].
    cbv zeta in Hf. fold inner in Hf. fold n in Hf.
    assert (Hlast : In (Attempt (n - 1)) inner).
    { apply in_attempts_of. rewrite Hseq. apply in_seq. lia. }
    replace (Z.to_nat (Z.of_nat n - 1)) with (n - 1)%nat by lia.
    replace (Z.of_nat n - 1) with (Z.of_nat (n - 1)) by lia.
    (* clause by clause *)
    assert (C1 : (1 <=? Z.of_nat n) = true) by lia.
    assert (C2 : (Z.of_nat n <=? p_max p) = true) by lia.
    assert (C3 : all_failed_before script (n - 1) = true).
    { apply all_failed_before_intro. intros m Hm.
      destruct (stops_at_first_success p hh draws (cancel_of cancel) pick (conj Hd Hn) m (n - 1)%nat Hlast Hm)
        as [c [r Hc]].
      apply script_outcome_err in Hc. apply Hc. }
    assert (C4 : (if (0 <=? cancel) && (0 <? lo_wait p (Z.to_nat cancel))
                  then Z.of_nat n <=? cancel + 1 else true) = true).
    { destruct ((0 <=? cancel) && (0 <? lo_wait p (Z.to_nat cancel))) eqn:Ec; [|reflexivity].
      assert (H0 : 0 <= cancel) by lia. assert (Hlo : 0 < lo_wait p (Z.to_nat cancel)) by lia.
      unfold inner in Hlast. rewrite (cancel_of_nonneg cancel H0) in Hlast.
      pose proof (no_attempt_after_cancel_lo p hh draws (Z.to_nat cancel) pick (conj Hd Hn) Hlo _ Hlast). lia. }
    assert (C5 : (let k := script_at script (Z.of_nat (n - 1)) in
                  if k =? 0 then fst (final_code (final_of inner)) =? 0
                  else if k =? 2 then fst (final_code (final_of inner)) =? 2
                  else (fst (final_code (final_of inner)) =? 1) &&
                       (snd (final_code (final_of inner)) =? Z.of_nat (n - 1))) = true).
    { cbv zeta. rewrite Hf, script_at_nat. unfold hh, script_outcome.
      destruct (nth_error script (n - 1)) as [k|]; [|cbn; lia].
      destruct k as [|q|q]; [reflexivity| |cbn; lia].
      destruct q as [q|q|]; [cbn; lia| |cbn; lia]. destruct q; cbn; lia. }
    destruct (loop_waits_shape p hh draws (cancel_of cancel) pick Hd Hn (Z.to_nat (p_max p)) 0 None)
      as [m [Hw [Hm1 Hm2]]].
    rewrite <- retry_run_unfold in Hw, Hm1, Hm2. fold inner in Hw, Hm1, Hm2.
    change (List.length (attempts_of inner)) with n in Hm1, Hm2.
    assert (Eg : firstn (n - 1) (waits_of inner) = map (wait_at p draws) (seq 0 (n - 1))).
    { rewrite Hw. apply firstn_map_seq. lia. }
    assert (C6 : (Z.of_nat (List.length (firstn (n - 1) (waits_of inner))) =? Z.of_nat (n - 1)) = true).
    { rewrite Eg, map_length, seq_length. lia. }
    assert (C7 : ge_prefix (firstn (n - 1) (waits_of inner)) (lows p (n - 1)) = true).
    { rewrite Eg. apply ge_prefix_lows. split; assumption. }
    assert (C8 : (if cb =? 1
                  then ((if cb =? 0 then -1 else Z.of_nat (List.length [is_failure (final_of inner)])) =? 1) &&
                       ((if cb =? 0 then -1 else count_true [is_failure (final_of inner)]) =?
                        (if fst (final_code (final_of inner)) =? 0 then 0 else 1))
                  else true) = true).
    { destruct (cb =? 1) eqn:E1; [|reflexivity].
      assert (E0 : (cb =? 0) = false) by lia. rewrite E0. rewrite Hf.
      destruct (hh (n - 1)%nat) as [c|c r| |] eqn:Eh; try reflexivity.
      exfalso. unfold hh, script_outcome in Eh.
      destruct (nth_error script (n - 1)) as [[|[q|q|]|q]|]; try destruct q; discriminate. }
    cbv zeta in C5.
    rewrite C1, C2, C3, C4, C5, C6, C7, C8. reflexivity.
Qed.

(** * group "pool": [prop_pool] is sound for the model *)

Lemma retry_run_facts : forall p h draws c pick, valid p ->
  let tr := retry_run p h draws c pick in
  let n := n_attempts tr in
  (1 <= n)%nat /\ Z.of_nat n <= p_max p /\
  (forall m, (m < n - 1)%nat -> exists code r, h m = OErr code r) /\
  final_of tr = Some (h (n - 1)%nat) /\
  firstn (n - 1) (waits_of tr) = map (wait_at p draws) (seq 0 (n - 1)) /\
  (forall k, c = Some k -> 0 < lo_wait p k -> (n <= k + 1)%nat).
Proof.
  intros p h draws c pick Hv tr n.
  pose proof (valid_fvalid p Hv) as [Hd Hn].
  destruct (attempts_le_max p h draws c pick (conj Hd Hn)) as [Hseq [Hmax Hpos]].
  fold tr in Hseq, Hmax, Hpos. fold n in Hseq, Hmax, Hpos.
  specialize (Hpos ltac:(destruct Hv; lia)).
  assert (Hlast : In (Attempt (n - 1)) tr).
  { apply in_attempts_of. rewrite Hseq. apply in_seq. lia. }
  destruct (final_is_last_attempt p h draws c pick Hv) as [Hf _]. cbv zeta in Hf. fold tr in Hf. fold n in Hf.
  destruct (loop_waits_shape p h draws c pick Hd Hn (Z.to_nat (p_max p)) 0 None) as [m [Hw [Hm1 Hm2]]].
  rewrite <- retry_run_unfold in Hw, Hm1, Hm2. fold tr in Hw, Hm1, Hm2.
  change (List.length (attempts_of tr)) with n in Hm1, Hm2.
  repeat split.
  - exact Hpos.
  - destruct Hv; lia.
  - intros m0 Hm0. exact (stops_at_first_success p h draws c pick (conj Hd Hn) m0 (n - 1)%nat Hlast Hm0).
  - exact Hf.
  - rewrite Hw. apply firstn_map_seq. lia.
  - intros k -> Hlo.
    pose proof (no_attempt_after_cancel_lo p h draws k pick (conj Hd Hn) Hlo _ Hlast). lia.
Qed.

Lemma pscript_at_nat : forall s m,
  pscript_at s (Z.of_nat m) = match nth_error s m with Some k => k | None => (1, 0) end.
Proof.
  intros s m. unfold pscript_at. destruct (Z.of_nat m <? 0) eqn:E; [lia|]. rewrite Nat2Z.id. reflexivity.
Qed.

Lemma tscript_of_char : forall s m,
  tscript_of s m =
  let '(k, code) := pscript_at s (Z.of_nat m) in
  if is_status k then SStatus code else if k =? 2 then SBlock else if k =? 3 then SPanic
  else if (k =? 4) || (k =? 6) then SBodyErr else if k =? 5 then SBodyBlock else SErr.
Proof.
  intros s m. rewrite pscript_at_nat. unfold tscript_of.
  destruct (nth_error s m) as [[k code]|]; [|reflexivity].
  destruct k as [|q|q]; try reflexivity.
  destruct q as [q|q|]; try reflexivity; destruct q as [q|q|]; try reflexivity;
    destruct q as [q|q|]; try reflexivity; destruct q; reflexivity.
Qed.

Lemma ctx_done_cancel_of : forall c i,
  ctx_done (cancel_of c) i = (0 <=? c) && (c <=? Z.of_nat i).
Proof.
  intros c i. unfold ctx_done, cancel_of. destruct (c <? 0) eqn:E; [lia|].
  destruct (Nat.leb_spec (Z.to_nat c) i); lia.
Qed.

Definition xs_t := (bool * list (Z * Z) * Z * (nat -> Z) * (nat -> bool))%type.

Lemma zeqb_pair_refl : forall a b, Zeqb_pair (a, b) (a, b) = true.
Proof. intros. unfold Zeqb_pair. cbn. rewrite !Z.eqb_refl. reflexivity. Qed.

(** an attempt that ended in an error is "failed" for the checker *)
Lemma pfailed_of_err : forall c stream script cancel draws pick q m code r,
  q_script q = script ->
  attempt_outcome (pool_of c) (model_pool_rq (stream, script, cancel, draws, pick)) m = OErr code r ->
  pfailed c q (Z.of_nat m) = true.
Proof.
  intros c stream script cancel draws pick q m code r Hq H.
  unfold attempt_outcome in H. cbn [model_pool_rq rq_script rq_cancel pool_of pl_fcodes pl_timeout] in H.
  rewrite tscript_of_char in H. unfold pfailed. rewrite Hq.
  destruct (pscript_at script (Z.of_nat m)) as [k cd].
  destruct (is_status k); [destruct (zmem cd (k_fcodes c)); [reflexivity|discriminate]|].
  destruct (k =? 2) eqn:E2; [destruct (k =? 3) eqn:E3; [lia|reflexivity]|].
  destruct (k =? 3); [discriminate|reflexivity].
Qed.

(** what the client gets in the model satisfies the checker's clause *)
Lemma visible_clause_model : forall pl rq n (sz : nat -> Z),
  let o := attempt_outcome pl rq (n - 1)%nat in
  let r := fst (presult_code (to_presult (Some o))) in
  let v := visible_code sz (match o with
                         | ONil c | OErr c _ => if publishes (rq_script rq (n - 1)%nat)
                                                then VBackend (n - 1) else VGateway c
                         | _ => VNothing end) in
  (if (r =? 0) || (r =? 4) then (fst v =? Z.of_nat (n - 1)) && (snd v =? sz (n - 1)%nat)
   else if r <? 7 then (fst v =? -1) && (snd v =? 0) && (0 =? 0) else true) = true.
Proof.
  intros pl rq n sz. cbv zeta. unfold attempt_outcome.
  destruct (rq_script rq (n - 1)%nat) as [c| | | | |]; cbn [publishes];
    repeat match goal with |- context [if ?b then _ else _] =>
      match b with
      | zmem _ _ => destruct b
      | ctx_done _ _ => destruct b
      | pl_timeout _ => destruct b
      | (ctx_done _ _ || pl_timeout _)%bool => destruct b
      end end; cbn [fst snd visible_code presult_code to_presult res_code orb]; rewrite ?Z.eqb_refl; reflexivity.
Qed.

(** the checker's expectation for the last attempt is the model's classification *)
Lemma expect_last_model : forall c stream script cancel draws pick q m,
  q_script q = script -> q_cancel q = cancel ->
  expect_last c q (Z.of_nat m) =
  presult_code (to_presult (Some (attempt_outcome (pool_of c)
                   (model_pool_rq (stream, script, cancel, draws, pick)) m))).
Proof.
  intros c stream script cancel draws pick q m Hq Hc.
  unfold attempt_outcome, expect_last.
  cbn [model_pool_rq rq_script rq_cancel pool_of pl_fcodes pl_timeout].
  rewrite tscript_of_char, Hq, Hc, ctx_done_cancel_of.
  destruct (pscript_at script (Z.of_nat m)) as [k cd].
  destruct (is_status k) eqn:E0; [destruct (zmem cd (k_fcodes c)); reflexivity|].
  destruct (k =? 3) eqn:E3.
  - destruct (k =? 2) eqn:E2; [lia|reflexivity].
  - destruct (k =? 2) eqn:E2.
    + assert (E46 : (k =? 4) || (k =? 6) = false) by lia. assert (E5 : (k =? 5) = false) by lia.
      rewrite E46, E5.
      destruct ((0 <=? cancel) && (cancel <=? Z.of_nat m)); try reflexivity.
      destruct (0 <? k_timeout c); reflexivity.
    + destruct ((k =? 4) || (k =? 6)); [reflexivity|].
      destruct (k =? 5).
      * destruct ((0 <=? cancel) && (cancel <=? Z.of_nat m)); cbn [orb]; try reflexivity.
        destruct (0 <? k_timeout c); reflexivity.
      * destruct ((0 <=? cancel) && (cancel <=? Z.of_nat m)); reflexivity.
Qed.

Lemma res_not_hang : forall r, r <> PHang -> (fst (presult_code r) =? 8) = false.
Proof. intros [r s| |] H; [destruct r; reflexivity|reflexivity|contradiction]. Qed.

Lemma prop_req_sound : forall c (x : xs_t),
  (k_retry c = true -> valid (k_pol c)) ->
  po_result (pool_handle (pool_of c) true (model_pool_rq x)) <> PHang ->
  prop_req c (model_pool_req (pool_of c) (k_smax c) x) = true.
Proof.
  intros c x Hv Hh. destruct x as [[[[stream script] cancel] draws] pick].
  unfold model_pool_req. fold (model_pool_rq (stream, script, cancel, draws, pick)).
  set (sz := fun j : nat => bsize (k_smax c) script (Z.of_nat j)).
  set (rq := model_pool_rq (stream, script, cancel, draws, pick)) in *.
  set (pl := pool_of c) in *.
  destruct (pool_handle_permitted pl rq) as [Er Ea]. rewrite Er in Hh. rewrite Er, Ea.
  set (tr := handler_trace pl rq) in *. set (n := n_attempts tr) in *.
  set (h := attempt_outcome pl rq).
  unfold prop_req.
  cbn [q_calls q_stream q_cancel q_res q_status q_gaps q_script q_from q_plen q_bodies q_hdrs].
  rewrite pool_visible_permitted. fold tr. unfold visible_of. fold n.
  (* facts about the handler trace, by cases retried / not retried *)
  assert (F : (1 <= n)%nat /\
              Z.of_nat n <= (if k_retry c && negb stream then p_max (k_pol c) else 1) /\
              (forall m, (m < n - 1)%nat -> exists code r, h m = OErr code r) /\
              final_of tr = Some (h (n - 1)%nat) /\
              firstn (n - 1) (waits_of tr) = map (wait_at (k_pol c) draws) (seq 0 (n - 1)) /\
              (0 <= cancel -> k_retry c && negb stream = true ->
               0 < lo_wait (k_pol c) (Z.to_nat cancel) -> (n <= Z.to_nat cancel + 1)%nat) /\
              (k_retry c && negb stream = false -> n = 1%nat)).
  { unfold n, tr, handler_trace, pl, pool_of. cbn [pl_retry].
    destruct (k_retry c) eqn:Ek; cbn [andb].
    - cbn [rq rq_stream model_pool_rq]. destruct stream; cbn [negb].
      + cbn. repeat split; try lia; try reflexivity; try (intros m Hm; lia).
      + destruct (retry_run_facts (k_pol c) h draws (cancel_of cancel) pick (Hv eq_refl))
          as [F1 [F2 [F3 [F4 [F5 F6]]]]].
        cbn [rq_draws rq_cancel rq_pick]. fold pl. fold rq. fold h.
        repeat split; try assumption; try discriminate.
        intros H0 _ Hlo. apply F6; [apply cancel_of_nonneg; exact H0|exact Hlo].
    - cbn. repeat split; try lia; try reflexivity; try (intros m Hm; lia). }
  destruct F as [F1 [F2 [F3 [F4 [F5 [F6 F7]]]]]].
  replace (Z.to_nat (Z.of_nat n - 1)) with (n - 1)%nat by lia.
  replace (Z.of_nat n - 1) with (Z.of_nat (n - 1)) by lia.
  assert (C1 : (1 <=? Z.of_nat n) = true) by lia.
  assert (C2 : (Z.of_nat n <=? (if k_retry c && negb stream then p_max (k_pol c) else 1)) = true) by lia.
  assert (C3 : forall q, q_script q = script -> pall_failed_before c q (n - 1) = true).
  { intros q Hq. assert (G : forall k, (k <= n - 1)%nat -> pall_failed_before c q k = true).
    { induction k as [|k IH]; intros Hk; [reflexivity|]. cbn [pall_failed_before].
      destruct (F3 k ltac:(lia)) as [code [r Hc]].
      rewrite (pfailed_of_err c stream script cancel draws pick q k code r Hq Hc), IH by lia. reflexivity. }
    apply G. lia. }
  assert (C4 : (if (0 <=? cancel) && (0 <? lo_wait (k_pol c) (Z.to_nat cancel))
                then Z.of_nat n <=? cancel + 1 else true) = true).
  { destruct ((0 <=? cancel) && (0 <? lo_wait (k_pol c) (Z.to_nat cancel))) eqn:Ec; [|reflexivity].
    destruct (k_retry c && negb stream) eqn:Er'.
    - specialize (F6 ltac:(lia) eq_refl ltac:(lia)). lia.
    - specialize (F7 eq_refl). lia. }
  rewrite F4. fold h.
  pose proof (visible_clause_model pl rq n sz) as C9. cbv zeta in C9. fold h in C9.
  cbn [rq rq_script model_pool_rq] in C9.
  set (vis := visible_code sz match h (n - 1)%nat with
                           | ONil c0 | OErr c0 _ =>
                               if publishes (tscript_of script (n - 1)) then VBackend (n - 1) else VGateway c0
                           | _ => VNothing end) in *.
  cbn [rq rq_script model_pool_rq].
  change (visible_code sz match h (n - 1)%nat with
                           | ONil c0 | OErr c0 _ =>
                               if publishes (tscript_of script (n - 1)) then VBackend (n - 1) else VGateway c0
                           | _ => VNothing end) with vis.
  set (q0 := {| q_stream := stream; q_script := script; q_cancel := cancel; q_clen := 0;
                q_mutate := false; q_hdrs := 0; q_cbt := -1; q_cbf := -1;
                q_calls := Z.of_nat n;
                q_res := fst (presult_code (to_presult (Some (h (n - 1)%nat))));
                q_status := snd (presult_code (to_presult (Some (h (n - 1)%nat))));
                q_from := fst vis; q_plen := snd vis; q_bodies := Z.of_nat n;
                q_gaps := firstn (n - 1) (waits_of tr) |}).
  assert (C5 : Zeqb_pair (expect_last c q0 (Z.of_nat (n - 1)))
                 (fst (presult_code (to_presult (Some (h (n - 1)%nat)))),
                  snd (presult_code (to_presult (Some (h (n - 1)%nat))))) = true).
  { rewrite (expect_last_model c stream script cancel draws pick q0 (n - 1) eq_refl eq_refl).
    fold rq. fold pl. fold h. destruct (presult_code _) as [a b]. apply zeqb_pair_refl. }
  assert (C6 : negb (fst (presult_code (to_presult (Some (h (n - 1)%nat)))) =? 8) = true).
  { rewrite F4 in Hh. rewrite (res_not_hang _ Hh). reflexivity. }
  assert (C7 : (Z.of_nat (List.length (firstn (n - 1) (waits_of tr))) =? Z.of_nat (n - 1)) = true).
  { rewrite F5, map_length, seq_length. lia. }
  assert (C8 : ge_prefix (firstn (n - 1) (waits_of tr)) (lows (k_pol c) (n - 1)) = true).
  { destruct (k_retry c && negb stream) eqn:Er'.
    - rewrite F5. apply ge_prefix_lows. apply valid_fvalid. apply Hv.
      destruct (k_retry c); [reflexivity|discriminate].
    - rewrite (F7 eq_refl). reflexivity. }
  specialize (C3 q0 eq_refl).
  change (sz (n - 1)%nat) with (bsize (k_smax c) script (Z.of_nat (n - 1))) in C9.
  fold q0. rewrite C1, C2, C3, C4, C5, C6, C7, C8, C9, Z.eqb_refl. reflexivity.
Qed.

Lemma res_zero_iff_not_failed : forall r,
  negb (fst (presult_code r) =? 0) = presult_failed r.
Proof. intros [r s| |]; [destruct r; reflexivity|reflexivity|reflexivity]. Qed.

Lemma pall_failed_set_cum : forall c q a b n,
  pall_failed_before c (set_cum q a b) n = pall_failed_before c q n.
Proof. induction n as [|n IH]; [reflexivity|]. cbn [pall_failed_before]. rewrite IH. reflexivity. Qed.

Lemma prop_req_set_cum : forall c q a b, prop_req c (set_cum q a b) = prop_req c q.
Proof. intros. unfold prop_req. rewrite pall_failed_set_cum. reflexivity. Qed.

Lemma model_pool_reqs_length : forall pl sm xs t f, List.length (model_pool_reqs pl sm xs t f) = List.length xs.
Proof. intros pl sm. induction xs as [|x r IH]; intros t f; [reflexivity|]. cbn [model_pool_reqs List.length]. rewrite IH. reflexivity. Qed.

Lemma model_pool_reqs_props : forall c (xs : list xs_t) t f,
  (k_retry c = true -> valid (k_pol c)) ->
  (forall x, In x xs -> po_result (pool_handle (pool_of c) true (model_pool_rq x)) <> PHang) ->
  forallb (prop_req c) (model_pool_reqs (pool_of c) (k_smax c) xs t f) = true.
Proof.
  intros c xs. induction xs as [|x r IH]; intros t f Hv Hh; [reflexivity|].
  cbn [model_pool_reqs forallb]. rewrite prop_req_set_cum.
  rewrite (prop_req_sound c x Hv (Hh x (or_introl eq_refl))).
  apply IH; [exact Hv|]. intros y Hy. apply Hh. right. exact Hy.
Qed.

Lemma model_pool_reqs_failed : forall pl sm (xs : list xs_t) t f,
  List.length (filter (fun o => presult_failed (po_result o)) (pool_run pl (map model_pool_rq xs))) =
  List.length (filter (fun q => negb (q_res q =? 0)) (model_pool_reqs pl sm xs t f)).
Proof.
  intros pl sm xs. induction xs as [|x r IH]; intros t f; [reflexivity|].
  cbn [map pool_run filter model_pool_reqs]. fold (pool_run pl (map model_pool_rq r)).
  assert (Ex : negb (q_res (set_cum (model_pool_req pl sm x)
                 (if pl_cb pl then t + Z.of_nat (List.length (po_records (pool_handle pl true (model_pool_rq x)))) else -1)
                 (if pl_cb pl then f + count_true (po_records (pool_handle pl true (model_pool_rq x))) else -1)) =? 0) =
               presult_failed (po_result (pool_handle pl true (model_pool_rq x)))).
  { destruct x as [[[[stream script] cancel] draws] pick]. cbn [set_cum model_pool_req q_res].
    apply res_zero_iff_not_failed. }
  rewrite Ex.
  specialize (IH (t + Z.of_nat (List.length (po_records (pool_handle pl true (model_pool_rq x)))))
                 (f + count_true (po_records (pool_handle pl true (model_pool_rq x))))).
  destruct (presult_failed _); cbn [List.length]; rewrite IH; reflexivity.
Qed.

(** the running totals of the model satisfy the per-request clause *)
Lemma model_pool_reqs_cum : forall pl sm (xs : list xs_t) t f, pool_ok pl ->
  (forall x, In x xs -> po_result (pool_handle pl true (model_pool_rq x)) <> PHang) ->
  prop_cum (pl_cb pl) (model_pool_reqs pl sm xs t f) t f = true.
Proof.
  intros pl sm xs. induction xs as [|x r IH]; intros t f Hok Hh; [reflexivity|].
  cbn [model_pool_reqs prop_cum].
  assert (Hr : forall y, In y r -> po_result (pool_handle pl true (model_pool_rq y)) <> PHang)
    by (intros y Hy; apply Hh; right; exact Hy).
  destruct (pl_cb pl) eqn:Ecb.
  - rewrite (breaker_records_once pl (model_pool_rq x) Ecb Hok (Hh x (or_introl eq_refl))).
    assert (Eres : q_res (set_cum (model_pool_req pl sm x)
                     (t + Z.of_nat (List.length [presult_failed (po_result (pool_handle pl true (model_pool_rq x)))]))
                     (f + count_true [presult_failed (po_result (pool_handle pl true (model_pool_rq x)))])) =
                   fst (presult_code (po_result (pool_handle pl true (model_pool_rq x)))))
      by (destruct x as [[[[stream script] cancel] draws] pick]; reflexivity).
    rewrite Eres. cbn [q_cbt q_cbf set_cum List.length].
    pose proof (res_zero_iff_not_failed (po_result (pool_handle pl true (model_pool_rq x)))) as Hz.
    assert (Ef : count_true [presult_failed (po_result (pool_handle pl true (model_pool_rq x)))] =
                 (if fst (presult_code (po_result (pool_handle pl true (model_pool_rq x)))) =? 0 then 0 else 1)).
    { destruct (fst (presult_code (po_result (pool_handle pl true (model_pool_rq x)))) =? 0);
        cbn [negb] in Hz; rewrite <- Hz; reflexivity. }
    rewrite Ef. change (Z.of_nat 1) with 1. rewrite !Z.eqb_refl. cbn [andb].
    specialize (IH (t + 1) (f + (if fst (presult_code (po_result (pool_handle pl true (model_pool_rq x)))) =? 0 then 0 else 1)) Hok Hr).
    try rewrite Ecb in IH. exact IH.
  - cbn [andb]. clear IH Hh Hr.
    generalize (t + Z.of_nat (List.length (po_records (pool_handle pl true (model_pool_rq x))))).
    generalize (f + count_true (po_records (pool_handle pl true (model_pool_rq x)))).
    generalize (t + 1).
    generalize (f + (if q_res (set_cum (model_pool_req pl sm x) (-1) (-1)) =? 0 then 0 else 1)).
    induction r as [|y r IHr]; intros a b c0 d; [reflexivity|].
    cbn [model_pool_reqs prop_cum]. rewrite ?Ecb. cbn [andb]. apply IHr.
Qed.

Theorem prop_pool_sound : forall retry p timeout cb fcodes smax (xs : list xs_t),
  (retry = true -> valid p) ->
  let c := model_pool_case retry p timeout cb fcodes smax xs in
  (forall x, In x xs -> po_result (pool_handle (pool_of c) true (model_pool_rq x)) <> PHang) ->
  prop_pool c = true.
Proof.
  intros retry p timeout cb fcodes smax xs Hv c Hh.
  unfold prop_pool.
  assert (Ek : k_retry c = retry) by reflexivity. assert (Ep : k_pol c = p) by reflexivity.
  destruct (k_retry c && negb (validb (k_pol c))) eqn:E; [reflexivity|].
  assert (Hv' : k_retry c = true -> valid (k_pol c)) by (rewrite Ek, Ep; exact Hv).
  set (pl := pool_of c) in *.
  assert (Ereqs : k_reqs c = model_pool_reqs pl smax xs 0 0) by reflexivity.
  assert (Hok : pool_ok pl).
  { unfold pool_ok, pl, pool_of. cbn [pl_retry]. destruct (k_retry c) eqn:Er; [apply Hv'; reflexivity|exact I]. }
  assert (A : forallb (prop_req c) (k_reqs c) = true).
  { rewrite Ereqs. change smax with (k_smax c). apply model_pool_reqs_props; assumption. }
  assert (Ecb : k_cb c = cb) by reflexivity.
  assert (Ecb2 : pl_cb pl = cb) by reflexivity.
  assert (B : prop_cum (k_cb c) (k_reqs c) 0 0 = true).
  { rewrite Ereqs, Ecb, <- Ecb2. apply model_pool_reqs_cum; assumption. }
  rewrite A, B. cbn [andb]. rewrite Ecb.
  destruct cb eqn:Ecb'; [|reflexivity].
  assert (Hcbt : k_cbt c = Z.of_nat (total_records (pool_run pl (map model_pool_rq xs)))) by reflexivity.
  assert (Hcbf : k_cbf c = Z.of_nat (failed_records (pool_run pl (map model_pool_rq xs)))) by reflexivity.
  destruct (breaker_run_records pl (map model_pool_rq xs) ltac:(reflexivity) Hok) as [T1 T2].
  { intros rq Hrq. apply in_map_iff in Hrq as [x [<- Hx]]. apply Hh. exact Hx. }
  rewrite Hcbt, Hcbf, T1, T2, Ereqs, model_pool_reqs_length, map_length.
  rewrite Z.eqb_refl. cbn [andb].
  rewrite (model_pool_reqs_failed pl smax xs 0 0). apply Z.eqb_refl.
Qed.

(** with a pool timeout the no-hang hypothesis is automatic *)
Corollary prop_pool_sound_timeout : forall retry p timeout cb fcodes smax (xs : list xs_t),
  (retry = true -> valid p) -> 0 < timeout ->
  prop_pool (model_pool_case retry p timeout cb fcodes smax xs) = true.
Proof.
  intros retry p timeout cb fcodes smax xs Hv Ht. apply prop_pool_sound; [exact Hv|].
  intros x Hx. apply timeout_never_hangs.
  - cbn [pool_of model_pool_case k_retry k_pol pl_retry]. destruct retry; [|exact I].
    apply valid_fvalid. apply Hv. reflexivity.
  - cbn [pool_of model_pool_case k_timeout pl_timeout]. lia.
Qed.
