(** C02 proofs, part 3: the per-run property checker of model/PipelineCheck.v
    is sound with respect to the theorems' vocabulary:
    - [validspec_b] (the checker's own notion of a valid spec, written with
      first/second occurrence searches) decides exactly [validate];
    - every trace accepted by [walk_obs] is the projection of a reference walk
      ([RefWalk ideal]) whose visited nodes match the observed invocations. *)
From EG.lib Require Import Base.
From EG.model Require Import Pipeline PipelineSpec PipelineCheck.
From EG.proofs Require Import PipelineProofs PipelineVProofs.
Open Scope string_scope.
Open Scope list_scope.

Lemma nodupb_spec : forall l, nodupb l = true <-> NoDup l.
Proof.
  induction l as [|x t IH]; simpl.
  - split; [constructor | reflexivity].
  - rewrite andb_true_iff, negb_true_iff, mem_false, IH. split.
    + intros [H1 H2]. constructor; auto.
    + intros H. inversion H; subst. auto.
Qed.

Lemma find_target_some : forall flow k t j,
  find_idx (is_target t) (skipn k flow) k = Some j <->
  (k <= j /\ (exists nd, nth_error flow j = Some nd /\ is_target t nd = true) /\
   forall m nd, k <= m < j -> nth_error flow m = Some nd -> is_target t nd = false).
Proof.
  intros flow k t j. split.
  - intros H. apply find_idx_some in H as (Hle & (x & Hx & Hp) & Hm).
    rewrite nth_error_skipn' in Hx. replace (k + (j - k)) with j in Hx by lia.
    split; auto. split; [eauto|].
    intros m nd [H1 H2] Hnd. apply (Hm (m - k) nd); [lia|].
    rewrite nth_error_skipn'. replace (k + (m - k)) with m by lia. auto.
  - intros (Hle & (nd & Hnd & Hp) & Hm).
    replace j with (k + (j - k)) by lia. apply find_idx_first with (x := nd); auto.
    + rewrite nth_error_skipn'. replace (k + (j - k)) with j by lia. auto.
    + intros m' y Hlt Hy. rewrite nth_error_skipn' in Hy. apply (Hm (k + m') y); [lia | auto].
Qed.

Lemma find_target_none : forall flow k t,
  find_idx (is_target t) (skipn k flow) k = None <->
  forall m nd, k <= m -> nth_error flow m = Some nd -> is_target t nd = false.
Proof.
  intros flow k t. split.
  - intros H m nd Hle Hnd. eapply find_idx_none with (m := m - k) in H; eauto.
    rewrite nth_error_skipn'. replace (k + (m - k)) with m by lia. auto.
  - intros H. apply find_idx_absent. intros m x Hx. rewrite nth_error_skipn' in Hx.
    apply (H (k + m) x); [lia | auto].
Qed.

Lemma later_named_target : forall flow i j t,
  later_named flow i j t <-> (i < j /\ exists nd, nth_error flow j = Some nd /\ is_target t nd = true).
Proof.
  intros. unfold later_named. split; intros (H & nd & Hnd & Hc); split; auto; exists nd; split; auto;
    apply is_target_spec; auto.
Qed.

Lemma no_later_spec : forall flow i t, no_later flow i t = true <-> forall j, ~ later_named flow i j t.
Proof.
  intros flow i t. unfold no_later.
  destruct (find_idx (is_target t) (skipn (S i) flow) (S i)) as [j|] eqn:E.
  - split; [discriminate|]. intros H. exfalso.
    apply find_target_some in E as (Hle & (nd & Hnd & Hp) & _).
    apply (H j). apply later_named_target. split; [lia | eauto].
  - split; auto. intros _ j Hj. apply later_named_target in Hj as (Hlt & nd & Hnd & Hp).
    rewrite find_target_none in E. rewrite (E j nd) in Hp; [discriminate | lia | auto].
Qed.

Lemma uniq_later_spec : forall flow i t,
  uniq_later flow i t = true <->
  exists j, later_named flow i j t /\ forall j', later_named flow i j' t -> j' = j.
Proof.
  intros flow i t. unfold uniq_later.
  destruct (find_idx (is_target t) (skipn (S i) flow) (S i)) as [j|] eqn:E1.
  - apply find_target_some in E1 as (Hle & (nd & Hnd & Hp) & Hm).
    assert (Hj : later_named flow i j t) by (apply later_named_target; split; [lia | eauto]).
    destruct (find_idx (is_target t) (skipn (S j) flow) (S j)) as [j2|] eqn:E2.
    + split; [discriminate|]. intros (j0 & Hj0 & Hu). exfalso.
      apply find_target_some in E2 as (Hle2 & (nd2 & Hnd2 & Hp2) & _).
      assert (Hj2 : later_named flow i j2 t) by (apply later_named_target; split; [lia | eauto]).
      rewrite (Hu j Hj) in Hle2. rewrite (Hu j2 Hj2) in Hle2. lia.
    + split; auto. intros _. exists j. split; auto.
      intros j' Hj'. apply later_named_target in Hj' as (Hlt & nd' & Hnd' & Hp').
      rewrite find_target_none in E2.
      destruct (Nat.lt_trichotomy j' j) as [Hl | [He | Hg]]; auto.
      * rewrite (Hm j' nd') in Hp'; [discriminate | lia | auto].
      * rewrite (E2 j' nd') in Hp'; [discriminate | lia | auto].
  - split; [discriminate|]. intros (j & Hj & _). exfalso.
    apply later_named_target in Hj as (Hlt & nd & Hnd & Hp).
    rewrite find_target_none in E1. rewrite (E1 j nd) in Hp; [discriminate | lia | auto].
Qed.

Lemma valid_jump_b : forall flow i t,
  (if t =s END then no_later flow i END else uniq_later flow i t) = true <-> ValidJump flow i t.
Proof.
  intros flow i t. unfold ValidJump. destruct (String.eqb_spec t END) as [-> | Hne].
  - rewrite no_later_spec. split; [intros H; left; auto | intros [[_ H] | [H _]]; [auto | congruence]].
  - rewrite uniq_later_spec. split; [intros H; right; auto | intros [[H _] | [_ H]]; [congruence | auto]].
Qed.

Lemma validflow_b_spec : forall k ds flow l i,
  validflow_b k ds flow i l = true <->
  forall m nd, nth_error l m = Some nd -> is_end nd = false ->
    exists rs, results_of k ds (fname nd) = Some rs /\
      forall rt, In rt (jumpif nd) -> mem (fst rt) rs = true /\ ValidJump flow (i + m) (snd rt).
Proof.
  intros k ds flow l; induction l as [|nd tl IH]; intros i; simpl.
  - split; auto. intros _ m nd H. destruct m; discriminate.
  - rewrite andb_true_iff, IH. split.
    + intros [Hn Ht] m x Hx He. destruct m; simpl in Hx.
      * inversion Hx; subst x. rewrite He in Hn. simpl in Hn.
        destruct (results_of k ds (fname nd)) as [rs|]; [|discriminate].
        exists rs. split; auto. intros rt Hrt. rewrite forallb_forall in Hn. specialize (Hn rt Hrt).
        apply andb_true_iff in Hn as [H1 H2]. rewrite Nat.add_0_r. split; auto. apply valid_jump_b; auto.
      * replace (i + S m) with (S i + m) by lia. apply (Ht m x Hx He).
    + intros H. split.
      * destruct (is_end nd) eqn:He; auto. simpl.
        destruct (H 0 nd eq_refl He) as (rs & Hrs & Hj). rewrite Hrs.
        apply forallb_forall. intros rt Hrt. destruct (Hj rt Hrt) as [H1 H2].
        rewrite H1. simpl. rewrite Nat.add_0_r in H2. apply valid_jump_b; auto.
      * intros m x Hx He. replace (S i + m) with (i + S m) by lia. apply (H (S m) x Hx He).
Qed.

(** the checker's validity oracle decides exactly Spec.Validate (model) *)
Lemma validspec_b_validate : forall k s, validspec_b k s = validate k (s_decls s) (s_flow s).
Proof.
  intros k s. apply eq_true_iff_eq. unfold validspec_b, validate.
  rewrite !andb_true_iff, nodupb_spec, forallb_forall, validate_decls_spec, validflow_b_spec, validate_flow_spec.
  split.
  - intros [[Hnd Hd] Hf]. split.
    + split; auto. intros d Hin. specialize (Hd d Hin). apply andb_true_iff in Hd as [H1 H2].
      apply negb_true_iff, seqb_neq in H2. repeat split; auto.
    + intros m nd Hnth He. destruct (Hf m nd Hnth He) as (rs & Hrs & Hj). exists rs. split; auto.
      intros rt Hrt. destruct (Hj rt Hrt) as [H1 H2]. split; auto. apply count_targets_valid. exact H2.
  - intros [[Hnd Hd] Hf]. split; [split|]; auto.
    + intros d Hin. destruct (Hd d Hin) as (H1 & H2 & _). rewrite H1. simpl.
      apply negb_true_iff, seqb_neq. auto.
    + intros m nd Hnth He. destruct (Hf m nd Hnth He) as (rs & Hrs & Hj). exists rs. split; auto.
      intros rt Hrt. destruct (Hj rt Hrt) as [H1 H2]. split; auto. apply count_targets_valid. exact H2.
Qed.

(** every trace accepted by [walk_obs] is a reference walk: the consumed entries
    are, one by one, the invocations of the nodes a [RefWalk ideal] visits when
    the results are the observed ones, and it stops in the same status *)
Lemma walk_obs_sound : forall {E} (matches : node -> E -> bool) (eres : E -> string) flow (res : nat -> string)
    (es : list E) s n last fin rest,
  (forall k e, nth_error es k = Some e -> res (n + k) = eres e) ->
  walk_obs matches eres flow s es = Some (fin, rest) ->
  exists v consumed r,
    RefWalk ideal flow res n s last v r fin (n + List.length v) /\
    es = consumed ++ rest /\
    Forall2 (fun j e => exists nd, nth_error flow j = Some nd /\ matches nd e = true) v consumed.
Proof.
  intros E matches eres flow res es; induction es as [|e t IH]; intros s n last fin rest Hres H.
  - destruct s; simpl in H; try discriminate; inversion H; subst;
      exists [], [], last; (split; [rewrite Nat.add_0_r; apply RW_stop; intros j; discriminate | split; [reflexivity | constructor]]).
  - destruct s as [j| | |]; simpl in H.
    2-4: inversion H; subst; exists [], [], last;
         (split; [rewrite Nat.add_0_r; apply RW_stop; intros j; discriminate | split; [reflexivity | constructor]]).
    destruct (nth_error flow j) as [nd|] eqn:Hnd; [|discriminate].
    destruct (matches nd e) eqn:Hm; [|discriminate].
    destruct (match next_spec ideal flow j (eres e) with SRun j' => Nat.ltb j j' | _ => true end); [|discriminate].
    assert (Hr0 : res n = eres e) by (rewrite <- (Hres 0 e eq_refl); f_equal; lia).
    destruct (IH (next_spec ideal flow j (eres e)) (S n) (eres e) fin rest) as (v & consumed & r & Hw & Hes & Hf2); auto.
    { intros k e' Hk. rewrite <- (Hres (S k) e' Hk). f_equal. lia. }
    exists (j :: v), (e :: consumed), r. split; [|split].
    + simpl List.length. replace (n + S (List.length v)) with (S n + List.length v) by lia.
      apply RW_run. rewrite Hr0. exact Hw.
    + simpl. rewrite Hes. reflexivity.
    + constructor; eauto.
Qed.
