(** C17 proofs, part 4: MQTT - the connections the broker still SERVES (accepted, not torn
    down, Client.close() not run) are all registered in Broker.clients, hence never more than
    maxAllowedConnection; deleteSession split in two critical sections keeps this only because
    its removal re-checks the looked-up client. *)
From EG.lib Require Import Base.
From EG.model Require Import Sem.
From EG.proofs Require Import SemProofs SemProofs2 SemProofs3.
From Coq Require Import ZifyBool FinFun.
Open Scope Z_scope.

Lemma alookup_aremove_other {A} c c' (l : list (string * A)) : c' <> c -> alookup c' (aremove c l) = alookup c' l.
Proof.
  intros Hne. induction l as [|[a v] l IH]; cbn [aremove alookup]; auto.
  destruct (String.eqb c a) eqn:E.
  - apply String.eqb_eq in E. subst a. rewrite IH.
    destruct (String.eqb c' c) eqn:F; auto. apply String.eqb_eq in F. congruence.
  - cbn [alookup]. rewrite IH. reflexivity.
Qed.

Lemma alookup_aremove_same {A} c (l : list (string * A)) : alookup c (aremove c l) = None.
Proof.
  induction l as [|[a v] l IH]; cbn [aremove alookup]; auto.
  destruct (String.eqb c a) eqn:E; auto. cbn [alookup]. now rewrite E.
Qed.

Lemma live_cid_None k l : live_cid k l = None <-> ~ In k (map fst l).
Proof.
  induction l as [|[a c] l IH]; cbn [live_cid map fst In]; [tauto|].
  destruct (N.eqb k a) eqn:E.
  - apply N.eqb_eq in E. subst. split; [discriminate|tauto].
  - apply N.eqb_neq in E. rewrite IH. split; [intros H [F|F]; [congruence|tauto] | tauto].
Qed.

Lemma live_cid_In_nodup k c l : NoDup (map fst l) -> In (k, c) l -> live_cid k l = Some c.
Proof.
  induction l as [|[a d] l IH]; cbn [live_cid map fst In]; [tauto|].
  intros Hnd [H|H]; inversion Hnd as [|? ? Hn Hd]; subst.
  - inversion H; subst. now rewrite N.eqb_refl.
  - destruct (N.eqb k a) eqn:E; auto. apply N.eqb_eq in E. subst a.
    exfalso. apply Hn. exact (in_map fst _ _ H).
Qed.

Lemma live_cid_remove_some k k' c l :
  live_cid k' (live_remove k l) = Some c -> k' <> k /\ live_cid k' l = Some c.
Proof.
  intros H. destruct (N.eq_dec k' k) as [->|Hne].
  - exfalso. assert (E : live_cid k (live_remove k l) = None).
    { apply live_cid_None. intros Hin. apply in_map_iff in Hin as ([a d] & Ha & Hin). cbn in Ha. subst a.
      unfold live_remove in Hin. apply filter_In in Hin as [_ F]. cbn in F. rewrite N.eqb_refl in F. discriminate. }
    congruence.
  - split; auto. now rewrite live_cid_remove_other in H.
Qed.

Lemma NoDup_keys_live_remove k l : NoDup (map fst l) -> NoDup (map fst (live_remove k l)).
Proof.
  induction l as [|[a c] l IH]; cbn [live_remove filter map fst]; auto. intros H.
  inversion H as [|? ? Hn Hd]; subst. destruct (N.eqb k a); cbn [negb]; fold (live_remove k l); auto.
  cbn [map fst]. constructor; auto. intros Hin. apply Hn.
  apply in_map_iff in Hin as ([a' d] & Ha & Hin). cbn in Ha. subst a'.
  unfold live_remove in Hin. apply filter_In in Hin as [Hin _]. exact (in_map fst _ _ Hin).
Qed.

Lemma mem_opt_cons_false k o l : mem_N k (opt_cons o l) = false -> mem_N k l = false /\ o <> Some k.
Proof.
  destruct o as [k0|]; cbn [opt_cons]; [|intros H; split; [auto|discriminate]].
  unfold mem_N. cbn [existsb]. intros H. apply orb_false_iff in H as [H1 H2]. split; auto.
  intros E. inversion E; subst. rewrite N.eqb_refl in H1. discriminate.
Qed.

Lemma mem_opt_cons_true k o l : mem_N k l = true -> mem_N k (opt_cons o l) = true.
Proof. destruct o; cbn [opt_cons]; auto. unfold mem_N. cbn [existsb]. intros ->. apply orb_true_r. Qed.

Lemma mem_opt_cons_self k l : mem_N k (opt_cons (Some k) l) = true.
Proof. unfold mem_N. cbn [opt_cons existsb]. now rewrite N.eqb_refl. Qed.

Record MServ (s : mstate) : Prop := {
  sv_checked : forall k, In k (checked s) -> live_cid k (live s) = None;
  sv_nodup : NoDup (map fst (live s));
  sv_reg : forall k cid, live_cid k (live s) = Some cid -> mem_N k (dead s) = false ->
                         alookup cid (clients s) = Some k;
  sv_dels : forall cid k0, In (cid, Some k0) (dels s) -> mem_N k0 (dead s) = true
}.

Lemma mserv_init cap : MServ (minit cap).
Proof. constructor; cbn; try tauto; try discriminate. constructor. Qed.

Lemma In_remove_nth {A} (x : A) : forall i l, In x (remove_nth i l) -> In x l.
Proof.
  induction i as [|i IH]; intros [|y l] H; cbn [remove_nth] in H; auto.
  - now right.
  - destruct H as [->|H]; [now left | right; auto].
Qed.

Lemma mserv_step q s l : MServ s -> MServ (fst (mstep q s l)).
Proof.
  intros [Hc Hnd Hr Hd]. destruct l as [k | k cid wfail | k | cid | cid | i]; cbn [mstep]; unfold mset.
  - (* MCheck *)
    destruct (mem_N k (checked s) || _) eqn:G; [constructor; auto|].
    apply orb_false_iff in G as [G1 G2].
    destruct (at_cap s); [constructor; auto|]. cbn [fst]. constructor; cbn [clients checked live dead dels]; auto.
    intros k' [<-|H]; auto. destruct (live_cid k (live s)); [discriminate|reflexivity].
  - (* MCommit *)
    destruct (mem_N k (checked s)) eqn:G; cbn [negb]; [|constructor; auto].
    apply mem_N_In in G. pose proof (Hc _ G) as Hk.
    assert (Hch : forall k', In k' (remove_N k (checked s)) -> live_cid k' (live s) = None /\ k' <> k).
    { intros k' H. apply In_remove_N in H as [H N]. auto. }
    destruct (negb _ && at_cap s).
    + cbn [fst]. constructor; cbn [clients checked live dead dels]; auto. intros k' H. now apply Hch.
    + (* registered (possibly a takeover): the superseded client is closed *)
      assert (Reg : forall cl', (forall c', c' <> cid -> alookup c' cl' = alookup c' (clients s)) ->
                forall k' c', live_cid k' (live s) = Some c' ->
                  mem_N k' (opt_cons (alookup cid (clients s)) (dead s)) = false ->
                  alookup c' cl' = Some k').
      { intros cl' Hcl k' c' HL HD. apply mem_opt_cons_false in HD as [HD Hne].
        pose proof (Hr _ _ HL HD) as A. destruct (string_dec c' cid) as [->|Hcn]; [congruence|].
        rewrite Hcl; auto. }
      assert (Dl : forall c0 k0, In (c0, Some k0) (dels s) ->
                mem_N k0 (opt_cons (alookup cid (clients s)) (dead s)) = true).
      { intros c0 k0 H. apply mem_opt_cons_true. eauto. }
      destruct wfail; [destruct (q_mqtt_connack_fail_leaks q)|]; cbn [fst];
        constructor; cbn [clients checked live dead dels]; auto;
        try (intros k' H; now apply Hch).
      * apply Reg. intros c' Hne. cbn [alookup]. destruct (String.eqb c' cid) eqn:E;
          [apply String.eqb_eq in E; congruence | now apply alookup_aremove_other].
      * apply Reg. intros c' Hne. cbn [aremove]. rewrite String.eqb_refl.
        rewrite !alookup_aremove_other; auto.
      * intros k' H. apply Hch in H as [H N]. cbn [live_cid]. destruct (N.eqb k' k) eqn:F; auto.
        apply N.eqb_eq in F. congruence.
      * cbn [map fst]. constructor; auto. now apply live_cid_None.
      * intros k' c'. cbn [live_cid]. destruct (N.eqb k' k) eqn:F.
        -- apply N.eqb_eq in F. subst k'. intros E _. inversion E; subst c'.
           cbn [alookup]. now rewrite String.eqb_refl.
        -- apply Reg. intros c'' Hne. cbn [alookup]. destruct (String.eqb c'' cid) eqn:E;
             [apply String.eqb_eq in E; congruence | now apply alookup_aremove_other].
  - (* MTeardown *)
    destruct (live_cid k (live s)) as [cid|] eqn:L; [|constructor; auto]. cbn [fst].
    constructor; cbn [clients checked live dead dels]; auto.
    + intros k' H. apply live_cid_remove_none. auto.
    + now apply NoDup_keys_live_remove.
    + intros k' c' HL HD. apply live_cid_remove_some in HL as [Hne HL].
      pose proof (Hr _ _ HL HD) as A. unfold remove_own.
      destruct (alookup cid (clients s)) as [k0|] eqn:A0; auto.
      destruct (N.eqb k k0) eqn:F; auto. apply N.eqb_eq in F. subst k0.
      destruct (string_dec c' cid) as [->|Hcn]; [congruence|]. now rewrite alookup_aremove_other.
  - (* MDelete: close + removal in one critical section *)
    cbn [fst]. constructor; cbn [clients checked live dead dels]; auto.
    + intros k' c' HL HD. apply mem_opt_cons_false in HD as [HD Hne].
      pose proof (Hr _ _ HL HD) as A. destruct (string_dec c' cid) as [->|Hcn]; [congruence|].
      now rewrite alookup_aremove_other.
    + intros c0 k0 H. apply mem_opt_cons_true. eauto.
  - (* MDelLookup *)
    cbn [fst]. constructor; cbn [clients checked live dead dels]; auto.
    + intros k' c' HL HD. apply mem_opt_cons_false in HD as [HD _]. auto.
    + intros c0 k0 H. apply in_app_or in H as [H|[H|[]]].
      * apply mem_opt_cons_true. eauto.
      * inversion H; subst. rewrite H2. apply mem_opt_cons_self.
  - (* MDelRemove: guarded by the looked-up client *)
    destruct (nth_error (dels s) i) as [[c o]|] eqn:Ei; [|constructor; auto]. cbn [fst].
    constructor; cbn [clients checked live dead dels]; auto.
    + intros k' c' HL HD. pose proof (Hr _ _ HL HD) as A.
      destruct (optN_eqb (alookup c (clients s)) o) eqn:G; auto.
      destruct (string_dec c' c) as [->|Hcn]; [|now rewrite alookup_aremove_other].
      exfalso. rewrite A in G. destruct o as [k0|]; cbn [optN_eqb] in G; [|discriminate].
      apply N.eqb_eq in G. subst k0. apply nth_error_In in Ei. rewrite (Hd _ _ Ei) in HD. discriminate.
    + intros c0 k0 H. apply In_remove_nth in H. eauto.
Qed.

Lemma mserv_run q : forall ls s, MServ s -> MServ (mrun q s ls).
Proof. induction ls as [|l ls IH]; intros s I; cbn [mrun]; auto. apply IH. now apply mserv_step. Qed.

Definition swap (e : N * string) : string * N := (snd e, fst e).

Lemma served_le_clients s : MServ s -> nserved s <= clen s.
Proof.
  intros [Hc Hnd Hr Hd]. unfold nserved, clen.
  assert (ND : NoDup (map swap (served s))).
  { apply Injective_map_NoDup.
    - intros [a b] [c d] E. unfold swap in E. cbn in E. inversion E; subst; reflexivity.
    - unfold served. apply NoDup_filter. eapply NoDup_map_inv. exact Hnd. }
  assert (IN : incl (map swap (served s)) (clients s)).
  { intros [c k] H. apply in_map_iff in H as ([k' c'] & E & H). unfold swap in E. cbn in E. inversion E; subst.
    unfold served in H. apply filter_In in H as [H F]. cbn [fst] in F. apply negb_true_iff in F.
    apply alookup_Some_In. apply Hr; auto. now apply live_cid_In_nodup. }
  pose proof (NoDup_incl_length ND IN) as L. rewrite map_length in L. lia.
Qed.

(** the served connections never exceed the cap: any quirks, any label sequence, including
    deleteSession running as two critical sections around same-id reconnects *)
Theorem mqtt_served_cap q cap ls : 0 < cap -> nserved (mrun q (minit cap) ls) <= cap.
Proof.
  intros H. pose proof (served_le_clients _ (mserv_run q ls _ (mserv_init cap))).
  pose proof (mqtt_cap q cap ls H). lia.
Qed.

Theorem mqtt_served_registered q cap ls k cid :
  let s := mrun q (minit cap) ls in
  live_cid k (live s) = Some cid -> mem_N k (dead s) = false -> alookup cid (clients s) = Some k.
Proof. intros s. apply (sv_reg _ (mserv_run q ls _ (mserv_init cap))). Qed.

(** why the re-check matters: the same sequence with an UNCONDITIONAL removal in the second
    critical section (delete(b.clients, id) after re-taking the lock) drops the entry of the
    reconnected client, which stays served; two more ids then fill the cap of 2: 3 served *)
Definition unguarded_remove (s : mstate) (cid : string) : mstate :=
  mset s (aremove cid (clients s)) (checked s) (live s) (dead s) [].

Lemma unguarded_delete_exceeds_cap :
  let s1 := mrun ideal (minit 2) [MCheck 0%N; MCommit 0%N "x" false; MDelLookup "x"; MCheck 1%N; MCommit 1%N "x" false] in
  let tail := [MCheck 2%N; MCommit 2%N "y" false; MCheck 3%N; MCommit 3%N "z" false] in
  nserved (mrun ideal (unguarded_remove s1 "x") tail) = 3 /\
  nserved (mrun ideal (fst (mstep ideal s1 (MDelRemove 0))) tail) = 2.
Proof. vm_compute. split; reflexivity. Qed.
