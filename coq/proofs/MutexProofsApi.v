(** C18, part 2: admin-API mutations executed under the cluster lock.
    Refinement of the interleaved system to the sequential specification:
    the ghost log of decided mutations is a legal sequential history, the
    store is its replay, versions are gap-free, failures modify nothing. *)
From EG.lib Require Import Base.
From EG.model Require Import Mutex.
From EG.proofs Require Import MutexProofs.
Open Scope Z_scope.

(** *** facts about the sequential specification *)
Lemma spec_result_mut st r :
  is_mut r = true ->
  match precheck (fst st) r with
  | Some c => spec_result st r = RFail c /\ spec_apply st r = st
  | None => spec_result st r = ROk (code_of r) (snd st + 1) /\
            spec_apply st r = (apply_objs r (fst st), snd st + 1)
  end.
Proof.
  unfold spec_result, spec_apply. intros H. rewrite H.
  destruct r; try discriminate; destruct (precheck (fst st) _); auto.
Qed.

Lemma spec_apply_fail st r c : spec_result st r = RFail c -> spec_apply st r = st.
Proof.
  destruct (is_mut r) eqn:Hm.
  - pose proof (spec_result_mut st r Hm) as H. destruct (precheck (fst st) r); destruct H as (H1 & H2); congruence.
  - unfold spec_apply. rewrite Hm. reflexivity.
Qed.

Lemma spec_apply_ok st r c v :
  spec_result st r = ROk c v ->
  spec_apply st r = (apply_objs r (fst st), snd st + 1) /\ v = snd st + 1 /\ c = code_of r.
Proof.
  destruct (is_mut r) eqn:Hm.
  - pose proof (spec_result_mut st r Hm) as H. destruct (precheck (fst st) r); destruct H as (H1 & H2);
      rewrite H1; intros E; inversion E; auto.
  - destruct r; try discriminate; cbn; discriminate.
Qed.

Lemma replay_app st l1 l2 : replay st (l1 ++ l2) = replay (replay st l1) l2.
Proof. unfold replay. apply fold_left_app. Qed.

Lemma legal_app st l e :
  legal st (l ++ [e]) <->
  legal st l /\ entry_ok (replay st l) e /\ is_mut (e_req e) = true.
Proof.
  revert st. induction l as [|x t IH]; intros st; cbn.
  - tauto.
  - rewrite IH. tauto.
Qed.

Lemma replay_cons st e l : replay st (e :: l) = replay (entry_apply st e) l.
Proof. reflexivity. Qed.

(** the four kinds of logged entries *)
Inductive entry_kind (st : store) (e : entry) : Prop :=
| EkFail c : e_res e = RFail c -> entry_apply st e = st -> is_ok e = false -> has_effect e = false ->
             entry_kind st e
| EkOk : e_res e = ROk (code_of (e_req e)) (snd st + 1) ->
         entry_apply st e = (apply_objs (e_req e) (fst st), snd st + 1) ->
         is_ok e = true -> has_effect e = true -> ver_of e = snd st + 1 ->
         precheck (fst st) (e_req e) = None -> entry_kind st e
| EkPartial : e_res e = RErr true ->
         entry_apply st e = (apply_objs (e_req e) (fst st), snd st) ->
         is_ok e = false -> has_effect e = true ->
         precheck (fst st) (e_req e) = None -> entry_kind st e
| EkNone : e_res e = RErr false -> entry_apply st e = st -> is_ok e = false -> has_effect e = false ->
         entry_kind st e.

Lemma entry_cases st e : entry_ok st e -> is_mut (e_req e) = true -> entry_kind st e.
Proof.
  intros Hok Hm. pose proof (spec_result_mut st _ Hm) as Hs.
  unfold entry_ok in Hok. unfold entry_apply, is_ok, has_effect, ver_of.
  destruct (e_res e) as [c v|c|o|[|]|] eqn:Er.
  - destruct (precheck (fst st) (e_req e)) eqn:Ep; destruct Hs as (Hs1 & Hs2); rewrite Hs1 in Hok; inversion Hok; subst.
    apply EkOk; unfold entry_apply, is_ok, has_effect, ver_of; rewrite ?Er; auto.
  - destruct (precheck (fst st) (e_req e)) eqn:Ep; destruct Hs as (Hs1 & Hs2); rewrite Hs1 in Hok; inversion Hok; subst.
    eapply EkFail; unfold entry_apply, is_ok, has_effect; rewrite ?Er; eauto.
  - exfalso. destruct (precheck (fst st) (e_req e)); destruct Hs as (Hs1 & _); rewrite Hs1 in Hok; discriminate.
  - apply EkPartial; unfold entry_apply, is_ok, has_effect; rewrite ?Er; auto.
  - apply EkNone; unfold entry_apply, is_ok, has_effect; rewrite ?Er; auto.
  - exfalso. destruct (precheck (fst st) (e_req e)); destruct Hs as (Hs1 & _); rewrite Hs1 in Hok; discriminate.
Qed.

Lemma legal_versions l : forall st, legal st l ->
  map ver_of (filter is_ok l) = zseq (snd st + 1) (List.length (filter is_ok l)) /\
  snd (replay st l) = snd st + Z.of_nat (List.length (filter is_ok l)).
Proof.
  induction l as [|e t IH]; intros st H.
  - cbn. split; [reflexivity|lia].
  - cbn in H. destruct H as (Hr & Hm & Hl). specialize (IH _ Hl).
    cbn [filter]. rewrite replay_cons.
    destruct (entry_cases _ _ Hr Hm) as [c E Ea Ho He|E Ea Ho He Hv Hp|E Ea Ho He Hp|E Ea Ho He];
      rewrite Ho; rewrite Ea in *; cbn [snd] in IH; try exact IH.
    destruct IH as (IH1 & IH2). cbn [List.length map zseq]. rewrite Hv. split.
    + f_equal. exact IH1.
    + rewrite IH2. lia.
Qed.

(** entries without effect contribute nothing: the replay of the whole log is the replay of the
    successes and of the handlers cut short after their object write *)
Lemma replay_filter_effect l : forall st, legal st l ->
  replay st l = replay st (filter has_effect l).
Proof.
  induction l as [|e t IH]; intros st H; [reflexivity|].
  cbn in H. destruct H as (Hr & Hm & Hl). specialize (IH _ Hl).
  cbn [filter]. rewrite replay_cons.
  destruct (entry_cases _ _ Hr Hm) as [c E Ea Ho He|E Ea Ho He Hv Hp|E Ea Ho He Hp|E Ea Ho He];
    rewrite He; try rewrite replay_cons; rewrite Ea in *; exact IH.
Qed.

Lemma legal_filter_effect l : forall st, legal st l -> legal st (filter has_effect l).
Proof.
  induction l as [|e t IH]; intros st H; [exact I|].
  cbn in H. destruct H as (Hr & Hm & Hl). specialize (IH _ Hl).
  cbn [filter].
  destruct (entry_cases _ _ Hr Hm) as [c E Ea Ho He|E Ea Ho He Hv Hp|E Ea Ho He Hp|E Ea Ho He];
    rewrite He.
  - rewrite Ea in IH. exact IH.
  - cbn [legal]. auto.
  - cbn [legal]. auto.
  - rewrite Ea in IH. exact IH.
Qed.

(** without cut-short handlers the effective entries are exactly the successes *)
Lemma filter_effect_ok l :
  (forall e, In e l -> e_res e <> RErr true) -> filter has_effect l = filter is_ok l.
Proof.
  induction l as [|e t IH]; intros H; [reflexivity|]. cbn [filter].
  rewrite IH by (intros x Hx; apply H; right; exact Hx).
  assert (He : e_res e <> RErr true) by (apply H; left; reflexivity).
  unfold has_effect, is_ok. destruct (e_res e) as [| | |[|]|]; try reflexivity. congruence.
Qed.

Lemma zseq_length a n : List.length (zseq a n) = n.
Proof. revert a; induction n; intros; cbn; auto. Qed.

Lemma zseq_In a n x : In x (zseq a n) <-> a <= x < a + Z.of_nat n.
Proof.
  revert a; induction n as [|n IH]; intros a; cbn [zseq In].
  - lia.
  - rewrite IH. lia.
Qed.

Lemma zseq_NoDup a n : NoDup (zseq a n).
Proof.
  revert a; induction n as [|n IH]; intros a; cbn; constructor; auto.
  rewrite zseq_In. lia.
Qed.

Lemma zseq_nth a n i : (i < n)%nat -> nth i (zseq a n) 0 = a + Z.of_nat i.
Proof.
  revert a i; induction n as [|n IH]; intros a i Hi; [lia|].
  destruct i as [|i]; cbn [zseq nth]; [lia|]. rewrite IH by lia. lia.
Qed.

(** *** the store invariant *)
Definition mid_write (p : pc) : bool :=
  match p with PCs 2%nat | PCs 3%nat => true | _ => false end.

Lemma mid_write_in_cs p : mid_write p = true -> in_cs p = true.
Proof. destruct p as [| | |k| | | |]; cbn; try discriminate. auto. Qed.

Section Api.
Variable cfg : tid -> thr.
Variable st0 : store.

Definition base (s : state) : store := replay st0 (log s).

Definition written (s : state) (t : tid) : Prop :=
  precheck (fst (base s)) (t_req (cfg t)) = None /\ is_mut (t_req (cfg t)) = true /\
  objs s = apply_objs (t_req (cfg t)) (fst (base s)) /\ ver s = snd (base s).

Record InvS (s : state) : Prop := {
  j_inv : Inv cfg s;
  j_base : (forall t, mid_write (pcs s t) = false) -> (objs s, ver s) = base s;
  j_1 : forall t, pcs s t = PCs 1 ->
        precheck (fst (base s)) (t_req (cfg t)) = None /\ is_mut (t_req (cfg t)) = true;
  j_2 : forall t, pcs s t = PCs 2 -> written s t;
  j_3 : forall t, pcs s t = PCs 3 -> written s t /\ reg s t = snd (base s);
  j_legal : legal st0 (log s);
  j_log : forall e, In e (log s) ->
          e_req e = t_req (cfg (e_tid e)) /\ fin_result (pcs s (e_tid e)) = Some (e_res e);
  j_log2 : forall t r, fin_result (pcs s t) = Some r -> is_mut (t_req (cfg t)) = true ->
           In (t, t_req (cfg t), r) (log s);
  j_nodup : NoDup (map e_tid (log s)) }.

Lemma invS_init : InvS (init st0).
Proof.
  constructor; cbn; intros; try discriminate; try contradiction; try exact I.
  - apply inv_init.
  - unfold base. cbn. destruct st0; reflexivity.
  - constructor.
Qed.

(** steps other than handler steps: only the pc of the stepping thread changes, between
    classes that are irrelevant for the store *)
Lemma other_step_shape q s t l s' :
  l <> LCs -> l <> LRegrant -> l <> LFault -> step q cfg s t l = Some s' ->
  objs s' = objs s /\ ver s' = ver s /\ log s' = log s /\ reg s' = reg s /\
  exists p', pcs s' = upd (pcs s) t p' /\
    (forall k, p' <> PCs (S k)) /\ (forall k, pcs s t <> PCs (S k)) /\
    (forall r, fin_result (pcs s t) = Some r -> fin_result p' = Some r) /\
    (forall r, fin_result p' = Some r -> is_mut (t_req (cfg t)) = true -> fin_result (pcs s t) = Some r).
Proof.
  intros Hl Hr Hf H. unfold step in H.
  destruct l; try congruence; destruct (pcs s t) eqn:Ep; try discriminate;
  repeat match type of H with
  | (if ?c then _ else _) = _ => destruct c eqn:?; try discriminate
  | match ?c with _ => _ end = _ => destruct c eqn:?; try discriminate
  end; inversion H; subst; cbn;
  (repeat split; try reflexivity; eexists; split; [reflexivity|]; repeat split;
   intros; cbn in *; try congruence).
Qed.

Lemma mid_write_upd_false s t p' :
  (forall k, p' <> PCs (S k)) ->
  (forall t', mid_write (upd (pcs s) t p' t') = false) ->
  (forall k, pcs s t <> PCs (S k)) ->
  forall t', mid_write (pcs s t') = false.
Proof.
  intros Hp H Ho t'. specialize (H t'). unfold upd in H.
  destruct (Nat.eqb_spec t' t); subst; auto.
  destruct (pcs s t) as [| | |k| | | |]; try reflexivity. destruct k; [reflexivity|]. exfalso. eapply Ho. reflexivity.
Qed.

Lemma invS_other s t l s' :
  l <> LCs -> l <> LFault -> InvS s -> step ideal cfg s t l = Some s' -> InvS s'.
Proof.
  intros Hl Hlf J H.
  destruct (label_eq_dec l LRegrant) as [->|Hnr].
  { rewrite step_regrant_ideal in H. inversion H; subst; assumption. }
  pose proof (inv_step cfg _ _ _ _ (j_inv _ J) H) as I'.
  destruct (other_step_shape _ _ _ _ _ Hl Hnr Hlf H) as (Eo & Ev & Elog & Ereg & p' & Epc & Hp & Ho & Hf1 & Hf2).
  assert (Eb : base s' = base s) by (unfold base; rewrite Elog; reflexivity).
  assert (Hpc : forall t' k, pcs s' t' = PCs (S k) -> t' <> t /\ pcs s t' = PCs (S k)).
  { intros t' k E. rewrite Epc in E. unfold upd in E.
    destruct (Nat.eqb_spec t' t) as [->|Hne]; [exfalso; exact (Hp _ E)|auto]. }
  constructor.
  - assumption.
  - intros Hm. rewrite Eo, Ev, Eb. apply (j_base _ J).
    apply (mid_write_upd_false s t p' Hp); [intros t'; rewrite <- Epc; apply Hm | exact Ho].
  - intros t' E. apply Hpc in E. destruct E as (_ & E). rewrite Eb. apply (j_1 _ J). assumption.
  - intros t' E. apply Hpc in E. destruct E as (_ & E). unfold written. rewrite Eb, Eo, Ev. apply (j_2 _ J). assumption.
  - intros t' E. apply Hpc in E. destruct E as (_ & E). unfold written. rewrite Eb, Eo, Ev, Ereg. apply (j_3 _ J). assumption.
  - rewrite Elog. apply J.
  - intros e Hin. rewrite Elog in Hin. destruct (j_log _ J _ Hin) as (A & B). split; auto.
    rewrite Epc. unfold upd. destruct (Nat.eqb_spec (e_tid e) t) as [E|E]; auto. rewrite E in B. auto.
  - intros t' r E Hm. rewrite Elog. apply (j_log2 _ J); auto.
    rewrite Epc in E. unfold upd in E. destruct (Nat.eqb_spec t' t); subst; auto.
  - rewrite Elog. apply J.
Qed.

Lemma no_mid_write_but s t :
  InvS s -> in_cs (pcs s t) = true -> forall t', t' <> t -> mid_write (pcs s t') = false.
Proof.
  intros J Hc t' Hne. destruct (mid_write (pcs s t')) eqn:E; [|reflexivity].
  exfalso. apply Hne. eapply mutex_of_inv; [apply J| |assumption]. apply mid_write_in_cs. assumption.
Qed.

Lemma not_logged s t k : InvS s -> pcs s t = PCs k -> ~ In t (map e_tid (log s)).
Proof.
  intros J Ep Hin. apply in_map_iff in Hin. destruct Hin as (e & E & Hin).
  destruct (j_log _ J _ Hin) as (_ & B). rewrite E, Ep in B. discriminate.
Qed.

Lemma NoDup_snoc_nat (x : nat) l : NoDup l -> ~ In x l -> NoDup (l ++ [x]).
Proof. apply NoDup_snoc. Qed.

(** appending the decided result of thread [t] (whose pc becomes [PEnd r]) to the log *)
Lemma log_fields_finish s t k r (lg' : list entry) (pcs' : tid -> pc) :
  InvS s -> pcs s t = PCs k -> is_mut (t_req (cfg t)) = true ->
  lg' = log s ++ [(t, t_req (cfg t), r)] -> pcs' = upd (pcs s) t (PEnd r) ->
  (forall e, In e lg' -> e_req e = t_req (cfg (e_tid e)) /\ fin_result (pcs' (e_tid e)) = Some (e_res e)) /\
  (forall t' r', fin_result (pcs' t') = Some r' -> is_mut (t_req (cfg t')) = true ->
                 In (t', t_req (cfg t'), r') lg') /\
  NoDup (map e_tid lg').
Proof.
  intros J Ep Hm -> ->. pose proof (not_logged _ _ _ J Ep) as Hnl. repeat split.
  - apply in_app_iff in H. destruct H as [H|[<-|[]]]; [apply (j_log _ J); assumption|reflexivity].
  - apply in_app_iff in H. destruct H as [H|[<-|[]]].
    + destruct (j_log _ J _ H) as (_ & B). unfold upd.
      destruct (Nat.eqb_spec (e_tid e) t) as [E|E]; auto.
      exfalso. apply Hnl. apply in_map_iff. exists e. auto.
    + cbn. rewrite upd_same. reflexivity.
  - intros t' r' E Hm'. apply in_app_iff. unfold upd in E. destruct (Nat.eqb_spec t' t); subst.
    + right. left. cbn in E. congruence.
    + left. apply (j_log2 _ J); assumption.
  - rewrite map_app. cbn. apply NoDup_snoc; [apply J|assumption].
Qed.

Lemma log_fields_same s t (pcs' : tid -> pc) p' :
  InvS s -> fin_result (pcs s t) = None -> fin_result p' = None -> pcs' = upd (pcs s) t p' ->
  (forall e, In e (log s) -> e_req e = t_req (cfg (e_tid e)) /\ fin_result (pcs' (e_tid e)) = Some (e_res e)) /\
  (forall t' r', fin_result (pcs' t') = Some r' -> is_mut (t_req (cfg t')) = true ->
                 In (t', t_req (cfg t'), r') (log s)).
Proof.
  intros J E1 E2 ->. split.
  - intros e Hin. destruct (j_log _ J _ Hin) as (A & B). split; auto.
    unfold upd. destruct (Nat.eqb_spec (e_tid e) t) as [E|E]; auto. rewrite E in B. congruence.
  - intros t' r' E Hm. apply (j_log2 _ J); auto. unfold upd in E.
    destruct (Nat.eqb_spec t' t); subst; auto. congruence.
Qed.

Lemma base_snoc s e : replay st0 (log s ++ [e]) = entry_apply (base s) e.
Proof. rewrite replay_app. reflexivity. Qed.

Lemma others_not_in_cs s t :
  InvS s -> in_cs (pcs s t) = true -> forall t', t' <> t -> in_cs (pcs s t') = false.
Proof.
  intros J Hc t' Hne. destruct (in_cs (pcs s t')) eqn:E; [|reflexivity].
  exfalso. apply Hne. eapply mutex_of_inv; [apply J|assumption|assumption].
Qed.

Lemma only_t s t p' t' k' :
  InvS s -> in_cs (pcs s t) = true -> upd (pcs s) t p' t' = PCs k' -> t' = t /\ p' = PCs k'.
Proof.
  intros J Hc E. unfold upd in E. destruct (Nat.eqb_spec t' t); subst; auto.
  pose proof (others_not_in_cs _ _ J Hc _ n) as H. rewrite E in H. discriminate.
Qed.

Lemma all_not_mid s t :
  InvS s -> in_cs (pcs s t) = true -> mid_write (pcs s t) = false ->
  forall t', mid_write (pcs s t') = false.
Proof.
  intros J Hc Hm t'. destruct (Nat.eq_dec t' t); subst; auto.
  apply (no_mid_write_but s t); auto.
Qed.

(** the handler steps of a mutation, without the case analysis on the request *)
Definition cs_mut_step (s : state) (t : tid) (rq : req) (k : nat) : option state :=
  match k with
  | O => match precheck (objs s) rq with
         | Some c => Some (finish s t rq (RFail c))
         | None => Some (set_pc s t (PCs 1))
         end
  | 1%nat => Some {| queue := queue s; local := local s; pcs := upd (pcs s) t (PCs 2); reg := reg s;
                     objs := apply_objs rq (objs s); ver := ver s; log := log s |}
  | 2%nat => Some {| queue := queue s; local := local s; pcs := upd (pcs s) t (PCs 3);
                     reg := upd (reg s) t (ver s);
                     objs := objs s; ver := ver s; log := log s |}
  | 3%nat => let v := reg s t + 1 in
             Some {| queue := queue s; local := local s; pcs := upd (pcs s) t (PEnd (ROk (code_of rq) v));
                     reg := reg s; objs := objs s; ver := v;
                     log := log s ++ [(t, rq, ROk (code_of rq) v)] |}
  | _ => None
  end.

Lemma cs_step_mut s t rq k : is_mut rq = true -> cs_step s t rq k = cs_mut_step s t rq k.
Proof. destruct rq; try discriminate; reflexivity. Qed.

Section OneStep.
Variables (s : state) (t : tid) (s' : state).
Hypothesis J : InvS s.
Hypothesis I' : Inv cfg s'.
Let rq := t_req (cfg t).
Hypothesis Hmut : is_mut rq = true.

Lemma invS_cs0 : pcs s t = PCs 0 -> cs_mut_step s t rq 0 = Some s' -> InvS s'.
Proof.
  intros Ep H. cbn [cs_mut_step] in H.
  assert (Hcs : in_cs (pcs s t) = true) by (rewrite Ep; reflexivity).
  assert (Hall : forall t', mid_write (pcs s t') = false)
    by (apply (all_not_mid s t); auto; rewrite Ep; reflexivity).
  pose proof (j_base _ J Hall) as Hb.
  assert (Hfo : objs s = fst (base s)) by (rewrite <- Hb; reflexivity).
  assert (Hfv : ver s = snd (base s)) by (rewrite <- Hb; reflexivity).
  destruct (precheck (objs s) rq) as [c|] eqn:Epre; inversion H; subst s'; clear H.
  - pose proof (spec_result_mut (base s) rq Hmut) as Hs. rewrite <- Hfo, Epre in Hs. destruct Hs as (Hs1 & Hs2).
    assert (Eb : base (finish s t rq (RFail c)) = base s).
    { unfold base. cbn [finish log]. rewrite base_snoc. exact Hs2. }
    destruct (log_fields_finish s t _ (RFail c) _ _ J Ep Hmut eq_refl eq_refl) as (L1 & L2 & L3).
    constructor; try rewrite Eb; cbn [finish objs ver log reg pcs].
    + assumption.
    + intros _; exact Hb.
    + intros t' E; apply (only_t s) in E; auto; destruct E; discriminate.
    + intros t' E; apply (only_t s) in E; auto; destruct E; discriminate.
    + intros t' E; apply (only_t s) in E; auto; destruct E; discriminate.
    + apply legal_app; split; [apply J|split; [cbn; symmetry; exact Hs1|exact Hmut]].
    + exact L1.
    + exact L2.
    + exact L3.
  - assert (Eb : base (set_pc s t (PCs 1)) = base s) by reflexivity.
    destruct (log_fields_same s t (upd (pcs s) t (PCs 1)) (PCs 1) J) as (L1 & L2);
      [rewrite Ep; reflexivity|reflexivity|reflexivity|].
    constructor; try rewrite Eb; cbn [set_pc objs ver log reg pcs].
    + assumption.
    + intros _; exact Hb.
    + intros t' E; apply (only_t s) in E; auto; destruct E as (-> & _). fold rq. rewrite <- Hfo. auto.
    + intros t' E; apply (only_t s) in E; auto; destruct E; discriminate.
    + intros t' E; apply (only_t s) in E; auto; destruct E; discriminate.
    + apply J.
    + exact L1.
    + exact L2.
    + apply J.
Qed.

Lemma invS_cs1 : pcs s t = PCs 1 -> cs_mut_step s t rq 1 = Some s' -> InvS s'.
Proof.
  intros Ep H. cbn [cs_mut_step] in H.
  assert (Hcs : in_cs (pcs s t) = true) by (rewrite Ep; reflexivity).
  assert (Hall : forall t', mid_write (pcs s t') = false)
    by (apply (all_not_mid s t); auto; rewrite Ep; reflexivity).
  pose proof (j_base _ J Hall) as Hb.
  assert (Hfo : objs s = fst (base s)) by (rewrite <- Hb; reflexivity).
  assert (Hfv : ver s = snd (base s)) by (rewrite <- Hb; reflexivity).
  destruct (j_1 _ J _ Ep) as (Hp1 & _).
  inversion H; subst s'; clear H.
  match goal with |- InvS ?S => assert (Eb : base S = base s) by reflexivity end.
  destruct (log_fields_same s t (upd (pcs s) t (PCs 2)) (PCs 2) J) as (L1 & L2);
    [rewrite Ep; reflexivity|reflexivity|reflexivity|].
  constructor; try rewrite Eb; cbn [objs ver log reg pcs].
  - assumption.
  - intros Hm; specialize (Hm t); rewrite upd_same in Hm; discriminate.
  - intros t' E; apply (only_t s) in E; auto; destruct E; discriminate.
  - intros t' E; apply (only_t s) in E; auto; destruct E as (-> & _).
    unfold written; cbn [objs ver]; rewrite Eb; fold rq; rewrite <- Hfo. fold rq in Hp1. rewrite <- Hfo in Hp1. auto.
  - intros t' E; apply (only_t s) in E; auto; destruct E; discriminate.
  - apply J.
  - exact L1.
  - exact L2.
  - apply J.
Qed.

Lemma invS_cs2 : pcs s t = PCs 2 -> cs_mut_step s t rq 2 = Some s' -> InvS s'.
Proof.
  intros Ep H. cbn [cs_mut_step] in H.
  assert (Hcs : in_cs (pcs s t) = true) by (rewrite Ep; reflexivity).
  destruct (j_2 _ J _ Ep) as (W1 & W2 & W3 & W4).
  inversion H; subst s'; clear H.
  match goal with |- InvS ?S => assert (Eb : base S = base s) by reflexivity end.
  destruct (log_fields_same s t (upd (pcs s) t (PCs 3)) (PCs 3) J) as (L1 & L2);
    [rewrite Ep; reflexivity|reflexivity|reflexivity|].
  constructor; try rewrite Eb; cbn [objs ver log reg pcs].
  - assumption.
  - intros Hm; specialize (Hm t); rewrite upd_same in Hm; discriminate.
  - intros t' E; apply (only_t s) in E; auto; destruct E; discriminate.
  - intros t' E; apply (only_t s) in E; auto; destruct E; discriminate.
  - intros t' E; apply (only_t s) in E; auto; destruct E as (-> & _).
    unfold written; cbn [objs ver reg]; rewrite Eb, upd_same; auto.
  - apply J.
  - exact L1.
  - exact L2.
  - apply J.
Qed.

Lemma invS_cs3 : pcs s t = PCs 3 -> cs_mut_step s t rq 3 = Some s' -> InvS s'.
Proof.
  intros Ep H. cbn [cs_mut_step] in H.
  assert (Hcs : in_cs (pcs s t) = true) by (rewrite Ep; reflexivity).
  destruct (j_3 _ J _ Ep) as ((W1 & W2 & W3 & W4) & W5).
  inversion H; subst s'; clear H.
  pose proof (spec_result_mut (base s) rq Hmut) as Hs. fold rq in W1. rewrite W1 in Hs. destruct Hs as (Hs1 & Hs2).
  match goal with |- InvS ?S =>
    assert (Eb : base S = (objs s, reg s t + 1)) end.
  { unfold base. cbn [log]. rewrite base_snoc.
    change (entry_apply (base s) (t, rq, ROk (code_of rq) (reg s t + 1))) with (spec_apply (base s) rq).
    rewrite Hs2, W5. fold rq in W3. rewrite <- W3. reflexivity. }
  destruct (log_fields_finish s t _ (ROk (code_of rq) (reg s t + 1)) _ _ J Ep Hmut eq_refl eq_refl) as (L1 & L2 & L3).
  constructor; try rewrite Eb; cbn [objs ver log reg pcs].
  - assumption.
  - intros _; reflexivity.
  - intros t' E; apply (only_t s) in E; auto; destruct E; discriminate.
  - intros t' E; apply (only_t s) in E; auto; destruct E; discriminate.
  - intros t' E; apply (only_t s) in E; auto; destruct E; discriminate.
  - apply legal_app; split; [apply J|split; [unfold entry_ok; cbn [e_res e_req fst snd]; fold (base s); rewrite Hs1, W5; reflexivity|exact Hmut]].
  - exact L1.
  - exact L2.
  - exact L3.
Qed.
End OneStep.

Lemma invS_cs s t s' : InvS s -> step ideal cfg s t LCs = Some s' -> InvS s'.
Proof.
  intros J H.
  pose proof (inv_step cfg _ _ _ _ (j_inv _ J) H) as I'.
  unfold step in H. destruct (pcs s t) as [| | |k| | | |] eqn:Ep; try discriminate.
  assert (Hcs : in_cs (pcs s t) = true) by (rewrite Ep; reflexivity).
  destruct (is_mut (t_req (cfg t))) eqn:Hmut.
  - rewrite cs_step_mut in H by assumption.
    destruct k as [|[|[|[|k]]]]; try discriminate.
    + eapply invS_cs0; eassumption.
    + eapply invS_cs1; eassumption.
    + eapply invS_cs2; eassumption.
    + eapply invS_cs3; eassumption.
  - unfold cs_step in H.
    destruct (t_req (cfg t)) as [|n0 k0 b0|n0 k0 b0|n0|n0|] eqn:Erq; try discriminate.
    destruct k; [|discriminate]. inversion H; subst; clear H.
    assert (Eb : base (set_pc s t (PEnd RNoopDone)) = base s) by reflexivity.
    constructor; try rewrite Eb; cbn [set_pc objs ver log reg pcs].
    + assumption.
    + intros Hm. apply (j_base _ J). intros t'. specialize (Hm t'). unfold upd in Hm.
      destruct (Nat.eqb_spec t' t); subst; auto. rewrite Ep. reflexivity.
    + intros t' E. apply (only_t s) in E; auto. destruct E; discriminate.
    + intros t' E. apply (only_t s) in E; auto. destruct E; discriminate.
    + intros t' E. apply (only_t s) in E; auto. destruct E; discriminate.
    + apply J.
    + intros e Hin. destruct (j_log _ J _ Hin) as (A & B). split; auto.
      unfold upd. destruct (Nat.eqb_spec (e_tid e) t) as [E|E]; auto. rewrite E, Ep in B. discriminate.
    + intros t' r E Hm. apply (j_log2 _ J); auto. unfold upd in E.
      destruct (Nat.eqb_spec t' t); subst; auto. rewrite Erq in Hm. discriminate.
    + apply J.
Qed.

(** a failing cluster operation cuts the handler short: the object write stays if it was done,
    the version is never written; the entry is logged with that effect *)
Lemma invS_fault s t s' : InvS s -> step ideal cfg s t LFault = Some s' -> InvS s'.
Proof.
  intros J H.
  pose proof (inv_step cfg _ _ _ _ (j_inv _ J) H) as I'.
  unfold step in H. destruct (pcs s t) as [| | |k| | | |] eqn:Ep; try discriminate.
  destruct (is_mut (t_req (cfg t))) eqn:Hmut; [|discriminate].
  destruct (Nat.leb k 3) eqn:Hk; [|discriminate]. cbn [andb] in H.
  inversion H; subst s'; clear H.
  assert (Hcs : in_cs (pcs s t) = true) by (rewrite Ep; reflexivity).
  set (rq := t_req (cfg t)) in *.
  set (r := RErr (Nat.leb 2 k)).
  assert (Hst : entry_ok (base s) (t, rq, r) /\ (objs s, ver s) = entry_apply (base s) (t, rq, r)).
  { destruct k as [|[|[|[|k]]]]; try discriminate; unfold r, entry_ok, entry_apply; cbn [Nat.leb e_res e_req fst snd].
    - split; [exact I|]. apply (j_base _ J). apply (all_not_mid s t); auto. rewrite Ep. reflexivity.
    - split; [exact I|]. apply (j_base _ J). apply (all_not_mid s t); auto. rewrite Ep. reflexivity.
    - destruct (j_2 _ J _ Ep) as (W1 & W2 & W3 & W4). fold rq in W1, W3. split; [exact W1|]. rewrite W3, W4. reflexivity.
    - destruct (j_3 _ J _ Ep) as ((W1 & W2 & W3 & W4) & W5). fold rq in W1, W3. split; [exact W1|]. rewrite W3, W4. reflexivity. }
  destruct Hst as (Hok & Hst).
  assert (Eb : base (finish s t rq r) = (objs s, ver s)).
  { unfold base. cbn [finish log]. rewrite base_snoc. symmetry. exact Hst. }
  destruct (log_fields_finish s t _ r _ _ J Ep Hmut eq_refl eq_refl) as (L1 & L2 & L3).
  change (InvS (finish s t rq r)). change (Inv cfg (finish s t rq r)) in I'.
  constructor; try rewrite Eb; cbn [finish objs ver log reg pcs].
  - assumption.
  - intros _; reflexivity.
  - intros t' E; apply (only_t s) in E; auto; destruct E; discriminate.
  - intros t' E; apply (only_t s) in E; auto; destruct E; discriminate.
  - intros t' E; apply (only_t s) in E; auto; destruct E; discriminate.
  - apply legal_app; split; [apply J|split; [exact Hok|exact Hmut]].
  - exact L1.
  - exact L2.
  - exact L3.
Qed.

Lemma invS_step s t l s' : InvS s -> step ideal cfg s t l = Some s' -> InvS s'.
Proof.
  intros J H. destruct (label_eq_dec l LCs) as [->|Hne].
  - eapply invS_cs; eassumption.
  - destruct (label_eq_dec l LFault) as [->|Hnf].
    + eapply invS_fault; eassumption.
    + eapply invS_other; eassumption.
Qed.

Lemma invS_run sched : forall s s', InvS s -> run ideal cfg s sched = Some s' -> InvS s'.
Proof.
  induction sched as [|[t l] rest IH]; cbn; intros s s' J H.
  - inversion H; subst; assumption.
  - destruct (step ideal cfg s t l) eqn:E; [|discriminate].
    eapply IH; [eapply invS_step; eassumption|assumption].
Qed.

Lemma invS_reach sched s : run ideal cfg (init st0) sched = Some s -> InvS s.
Proof. apply invS_run, invS_init. Qed.

End Api.
