(** C08: the two sliding windows refine their abstract views.

    - [cw_rel n w l]  : the count-based ring buffer [w] of size [n] represents the list
                        [l] (newest first) of ALL results pushed so far; its running totals
                        are the counts over [firstn n l] (the last [n] results);
    - [tw_rel n w log t] : the time-based ring of [n] one-second buckets represents the log
                        of (second, result) pairs pushed so far; its running totals are
                        the counts over the entries of the last [n] seconds. *)
From EG.lib Require Import Base.
From EG.model Require Import CB.
From Coq Require Import ZifyBool.
Open Scope Z_scope.

(** ** generic list facts *)
Lemma list_set_length {A} i (x : A) l : List.length (list_set i x l) = List.length l.
Proof. revert i; induction l as [|h t IH]; intros [|i]; simpl; auto. Qed.

Lemma list_set_app {A} (a : list A) y b x : list_set (List.length a) x (a ++ y :: b) = a ++ x :: b.
Proof. induction a as [|h t IH]; simpl; [reflexivity | now rewrite IH]. Qed.

Lemma nth_error_mid {A} (a : list A) y b : nth_error (a ++ y :: b) (List.length a) = Some y.
Proof. induction a as [|h t IH]; simpl; auto. Qed.

Lemma nth_mid {A} (a : list A) y b d : nth (List.length a) (a ++ y :: b) d = y.
Proof. induction a as [|h t IH]; simpl; auto. Qed.

Lemma rev_repeat {A} (x : A) n : rev (repeat x n) = repeat x n.
Proof.
  induction n as [|n IH]; simpl; [reflexivity|]. rewrite IH.
  clear IH. induction n as [|n IH]; simpl; [reflexivity | now rewrite IH].
Qed.

Lemma firstn_repeat {A} (x : A) k n : (k <= n)%nat -> firstn k (repeat x n) = repeat x k.
Proof.
  revert n; induction k as [|k IH]; intros [|n] H; simpl; try reflexivity; try lia.
  rewrite IH by lia. reflexivity.
Qed.

Lemma rev_removelast_of_rev {A} (c : list A) x T : rev c = x :: T -> rev (removelast c) = T.
Proof.
  intro H. assert (E : c = rev T ++ [x]).
  { rewrite <- (rev_involutive c), H. reflexivity. }
  subst c. rewrite removelast_last. apply rev_involutive.
Qed.

(** ** counting *)
Fixpoint ocnt (f : option res -> Z) (l : list (option res)) : Z :=
  match l with
  | [] => 0
  | o :: t => f o + ocnt f t
  end.

Lemma ocnt_app f a b : ocnt f (a ++ b) = ocnt f a + ocnt f b.
Proof. induction a as [|h t IH]; simpl; [reflexivity | rewrite IH; lia]. Qed.

Lemma ocnt_rev f l : ocnt f (rev l) = ocnt f l.
Proof. induction l as [|h t IH]; simpl; [reflexivity|]. rewrite ocnt_app, IH. simpl. lia. Qed.

Lemma ocnt_repeat_none f n : f None = 0 -> ocnt f (repeat None n) = 0.
Proof. intro H. induction n as [|n IH]; simpl; [reflexivity | rewrite H, IH; reflexivity]. Qed.

Lemma cnt_app f a b : cnt f (a ++ b) = cnt f a + cnt f b.
Proof. induction a as [|h t IH]; simpl; [reflexivity | rewrite IH; lia]. Qed.

Lemma ocnt_tot_some l : ocnt o_tot (map Some l) = Z.of_nat (List.length l).
Proof. induction l as [|h t IH]; [reflexivity|]. cbn [map ocnt List.length o_tot]. rewrite IH. lia. Qed.

Lemma ocnt_slow_some l : ocnt o_slow (map Some l) = cnt is_slow l.
Proof. induction l as [|h t IH]; [reflexivity|]. cbn [map ocnt cnt o_slow]. now rewrite IH. Qed.

Lemma ocnt_fail_some l : ocnt o_fail (map Some l) = cnt is_fail l.
Proof. induction l as [|h t IH]; [reflexivity|]. cbn [map ocnt cnt o_fail]. now rewrite IH. Qed.

Lemma cnt_bounds f l : (forall r, 0 <= f r <= 1) -> 0 <= cnt f l <= Z.of_nat (List.length l).
Proof.
  intro H. induction l as [|h t IH]; cbn [cnt List.length]; [lia|]. specialize (H h). lia.
Qed.

Lemma is_slow_01 r : 0 <= is_slow r <= 1. Proof. destruct r; simpl; lia. Qed.
Lemma is_fail_01 r : 0 <= is_fail r <= 1. Proof. destruct r; simpl; lia. Qed.

(** ** count-based window *)

(** the [n] cells of the ring, newest first, [None] where nothing was pushed yet *)
Definition content (n : nat) (l : list res) : list (option res) :=
  firstn n (map Some l ++ repeat None n).

Lemma content_length n l : List.length (content n l) = n.
Proof. unfold content. rewrite firstn_length, app_length, repeat_length. lia. Qed.

Lemma content_cons n r l : content (S n) (r :: l) = Some r :: removelast (content (S n) l).
Proof.
  unfold content.
  change (map Some (r :: l) ++ repeat None (S n)) with (Some r :: (map Some l ++ repeat None (S n))).
  rewrite firstn_cons. f_equal.
  rewrite removelast_firstn; [reflexivity|]. rewrite app_length, repeat_length. lia.
Qed.

Lemma content_spec n l :
  content n l = map Some (firstn n l) ++ repeat None (n - List.length l).
Proof.
  unfold content. rewrite firstn_app, map_length, firstn_map.
  rewrite firstn_repeat by lia. reflexivity.
Qed.

Lemma content_nil n : content n [] = repeat None n.
Proof. rewrite content_spec, firstn_nil. cbn [map app List.length]. now rewrite Nat.sub_0_r. Qed.

Lemma content_tot n l : ocnt o_tot (content n l) = Z.of_nat (List.length (firstn n l)).
Proof. rewrite content_spec, ocnt_app, ocnt_repeat_none, ocnt_tot_some by reflexivity. lia. Qed.
Lemma content_slow n l : ocnt o_slow (content n l) = cnt is_slow (firstn n l).
Proof. rewrite content_spec, ocnt_app, ocnt_repeat_none, ocnt_slow_some by reflexivity. lia. Qed.
Lemma content_fail n l : ocnt o_fail (content n l) = cnt is_fail (firstn n l).
Proof. rewrite content_spec, ocnt_app, ocnt_repeat_none, ocnt_fail_some by reflexivity. lia. Qed.

Definition cw_rel (n : nat) (w : cwin) (l : list res) : Prop :=
  exists A B, cw_bkt w = A ++ B /\ cw_idx w = List.length A /\ (B <> [] \/ n = O) /\
    B ++ A = rev (content n l) /\
    cw_total w = ocnt o_tot (content n l) /\
    cw_slow w = ocnt o_slow (content n l) /\
    cw_fail w = ocnt o_fail (content n l).

Lemma cw_rel_new n z : Z.to_nat z = n -> cw_rel n (cw_new z) [].
Proof.
  intro E. exists [], (repeat None n). unfold cw_new. rewrite E. cbn [cw_bkt cw_idx cw_total cw_slow cw_fail].
  rewrite content_nil, rev_repeat, app_nil_r.
  repeat split; try reflexivity.
  - destruct n; [right; reflexivity | left; discriminate].
  - now rewrite ocnt_repeat_none.
  - now rewrite ocnt_repeat_none.
  - now rewrite ocnt_repeat_none.
Qed.

Lemma cw_rel_zero_panics w l r : cw_rel O w l -> cw_push r w = None.
Proof.
  intros (A & B & Hb & Hi & _ & Hc & _).
  assert (L : List.length (B ++ A) = O) by (rewrite Hc, rev_length; apply content_length).
  rewrite app_length in L. destruct A; [|simpl in L; lia]. destruct B; [|simpl in L; lia].
  unfold cw_push. rewrite Hb, Hi. reflexivity.
Qed.

Lemma cw_rel_push n w l r :
  cw_rel (S n) w l -> exists w', cw_push r w = Some w' /\ cw_rel (S n) w' (r :: l).
Proof.
  intros (A & B & Hb & Hi & Hne & Hc & Ht & Hs & Hf).
  destruct Hne as [Hne | Hne]; [|discriminate].
  destruct B as [|x B']; [congruence|].
  assert (L : (List.length A + S (List.length B') = S n)%nat).
  { assert (L : List.length ((x :: B') ++ A) = S n) by (rewrite Hc, rev_length; apply content_length).
    rewrite app_length in L. simpl in L. lia. }
  set (T := B' ++ A).
  assert (HT : rev (content (S n) l) = x :: T) by (rewrite <- Hc; reflexivity).
  assert (Hcnt : forall f, ocnt f (content (S n) (r :: l)) = ocnt f (content (S n) l) - f x + f (Some r)).
  { intro f. rewrite content_cons. cbn [ocnt].
    rewrite <- (ocnt_rev f (content (S n) l)), HT. cbn [ocnt].
    rewrite <- (ocnt_rev f (removelast _)), (rev_removelast_of_rev _ _ _ HT). lia. }
  assert (Hrev : rev (content (S n) (r :: l)) = T ++ [Some r]).
  { rewrite content_cons. cbn [rev]. now rewrite (rev_removelast_of_rev _ _ _ HT). }
  unfold cw_push. rewrite Hb, Hi, nth_error_mid, list_set_app.
  eexists; split; [reflexivity|].
  rewrite app_length. cbn [List.length].
  destruct (Nat.leb_spec (List.length A + S (List.length B')) (S (List.length A))) as [Hle | Hgt].
  - (* wrap around *)
    assert (B' = []) by (destruct B'; [reflexivity | simpl in Hle; lia]). subst B'.
    exists [], (A ++ [Some r]).
    cbn [cw_bkt cw_idx cw_total cw_slow cw_fail]. rewrite app_nil_r.
    repeat split.
    + left. destruct A; discriminate.
    + rewrite Hrev. reflexivity.
    + rewrite Hcnt, Ht. reflexivity.
    + rewrite Hcnt, Hs. reflexivity.
    + rewrite Hcnt, Hf. reflexivity.
  - exists (A ++ [Some r]), B'.
    cbn [cw_bkt cw_idx cw_total cw_slow cw_fail].
    repeat split.
    + now rewrite <- app_assoc.
    + rewrite app_length. simpl. lia.
    + left. destruct B'; [simpl in Hgt; lia | discriminate].
    + rewrite Hrev. unfold T. now rewrite app_assoc.
    + rewrite Hcnt, Ht. reflexivity.
    + rewrite Hcnt, Hs. reflexivity.
    + rewrite Hcnt, Hf. reflexivity.
Qed.

Lemma cw_rel_totals n w l :
  cw_rel n w l ->
  cw_total w = Z.of_nat (List.length (firstn n l)) /\
  cw_slow w = cnt is_slow (firstn n l) /\ cw_fail w = cnt is_fail (firstn n l).
Proof.
  intros (A & B & _ & _ & _ & _ & Ht & Hs & Hf).
  now rewrite Ht, Hs, Hf, content_tot, content_slow, content_fail.
Qed.

(** pushing a whole sequence *)
Fixpoint cw_pushes (w : cwin) (rs : list res) : option cwin :=
  match rs with
  | [] => Some w
  | r :: t => match cw_push r w with Some w' => cw_pushes w' t | None => None end
  end.

Lemma count_window_refines : forall (n : nat) (rs : list res),
  (1 <= n)%nat ->
  exists w, cw_pushes (cw_new (Z.of_nat n)) rs = Some w /\
    cw_total w = Z.of_nat (List.length (firstn n (rev rs))) /\
    cw_slow w = cnt is_slow (firstn n (rev rs)) /\
    cw_fail w = cnt is_fail (firstn n (rev rs)).
Proof.
  intros n rs Hn. destruct n as [|n]; [lia|].
  assert (G : forall rs w l, cw_rel (S n) w l ->
            exists w', cw_pushes w rs = Some w' /\ cw_rel (S n) w' (rev rs ++ l)).
  { induction rs0 as [|r t IH]; intros w l H.
    - exists w. split; [reflexivity | exact H].
    - destruct (cw_rel_push _ _ _ r H) as (w1 & E1 & H1).
      destruct (IH _ _ H1) as (w2 & E2 & H2).
      exists w2. cbn [cw_pushes]. rewrite E1. split; [exact E2|].
      cbn [rev]. now rewrite <- app_assoc. }
  destruct (G rs (cw_new (Z.of_nat (S n))) [] (cw_rel_new _ _ (Nat2Z.id _))) as (w & E & H).
  exists w. split; [exact E|]. rewrite app_nil_r in H. now apply cw_rel_totals.
Qed.

(** ** time-based window *)
Definition one (r : res) : Z := 1.

Lemma cnt_one l : cnt one l = Z.of_nat (List.length l).
Proof. induction l as [|h t IH]; cbn [cnt List.length]; [reflexivity | change (one h) with 1; lia]. Qed.

(** counts of the log entries of second [s] / of seconds [>= B] *)
Definition bcnt (f : res -> Z) (s : Z) (log : list (Z * res)) : Z :=
  cnt f (map snd (filter (fun e => fst e =? s) log)).
Definition wcnt (f : res -> Z) (B : Z) (log : list (Z * res)) : Z :=
  cnt f (map snd (filter (fun e => B <=? fst e) log)).

Lemma bcnt_cons f s x r log :
  bcnt f s ((x, r) :: log) = (if x =? s then f r else 0) + bcnt f s log.
Proof. unfold bcnt. cbn [filter fst]. destruct (x =? s); cbn [map snd cnt]; lia. Qed.

Lemma wcnt_cons f B x r log :
  wcnt f B ((x, r) :: log) = (if B <=? x then f r else 0) + wcnt f B log.
Proof. unfold wcnt. cbn [filter fst]. destruct (B <=? x); cbn [map snd cnt]; lia. Qed.

Lemma wcnt_split f B log : wcnt f B log = bcnt f B log + wcnt f (B + 1) log.
Proof.
  induction log as [|[x r] t IH]; [reflexivity|].
  rewrite !wcnt_cons, bcnt_cons, IH. generalize (f r); intro z.
  destruct (B <=? x) eqn:E1, (x =? B) eqn:E2, (B + 1 <=? x) eqn:E3; cbv iota; lia.
Qed.

Lemma bcnt_empty f s log : (forall e, In e log -> fst e <> s) -> bcnt f s log = 0.
Proof.
  induction log as [|[x r] t IH]; intro H; [reflexivity|].
  rewrite bcnt_cons, IH by (intros e He; apply H; now right).
  specialize (H (x, r) (or_introl eq_refl)). cbn [fst] in H.
  generalize (f r); intro z. destruct (x =? s) eqn:E; cbv iota; lia.
Qed.

Lemma wcnt_empty f B log : (forall e, In e log -> fst e < B) -> wcnt f B log = 0.
Proof.
  induction log as [|[x r] t IH]; intro H; [reflexivity|].
  rewrite wcnt_cons, IH by (intros e He; apply H; now right).
  specialize (H (x, r) (or_introl eq_refl)). cbn [fst] in H.
  generalize (f r); intro z. destruct (B <=? x) eqn:E; cbv iota; lia.
Qed.

Definition mkb (s : Z) (log : list (Z * res)) : tbkt :=
  {| tb_total := bcnt one s log; tb_slow := bcnt is_slow s log; tb_fail := bcnt is_fail s log |}.

Lemma mkb_empty s log : (forall e, In e log -> fst e <> s) -> mkb s log = tb0.
Proof. intro H. unfold mkb, tb0. now rewrite !bcnt_empty. Qed.

(** position in the ring of the bucket [j] seconds after the first one *)
Definition ridx (n f j : nat) : nat := if (f + j <? n)%nat then (f + j)%nat else (f + j - n)%nat.

Lemma ridx_inj n f a b : (f < n)%nat -> (a < n)%nat -> (b < n)%nat -> ridx n f a = ridx n f b -> a = b.
Proof.
  unfold ridx. intros Hf Ha Hb.
  destruct (Nat.ltb_spec (f + a) n), (Nat.ltb_spec (f + b) n); lia.
Qed.

Lemma ridx_lt n f j : (f < n)%nat -> (j < n)%nat -> (ridx n f j < n)%nat.
Proof. unfold ridx. intros. destruct (Nat.ltb_spec (f + j) n); lia. Qed.

Lemma succ_mod n f : (f < n)%nat -> Nat.modulo (S f) n = if (S f <? n)%nat then S f else O.
Proof.
  intro H. destruct (Nat.ltb_spec (S f) n) as [Hlt | Hge].
  - now apply Nat.mod_small.
  - assert (S f = n) by lia. subst n. apply Nat.mod_same. lia.
Qed.

Lemma nth_list_set_eq {A} i (x d : A) l : (i < List.length l)%nat -> nth i (list_set i x l) d = x.
Proof. revert i; induction l as [|h t IH]; intros [|i] H; simpl in *; try lia; auto. apply IH. lia. Qed.

Lemma nth_list_set_neq {A} k i (x d : A) l : k <> i -> nth k (list_set i x l) d = nth k l d.
Proof.
  revert k i; induction l as [|h t IH]; intros [|k] [|i] H; simpl; auto; try congruence.
Qed.

Lemma nth_repeat_tb0 k n : nth k (repeat tb0 n) tb0 = tb0.
Proof. revert k; induction n as [|n IH]; intros [|k]; simpl; auto. Qed.

(** the ring [w] holds, for the window starting at second [B], exactly the log's counts *)
Definition tw_core (n : nat) (w : twin) (B : Z) (log : list (Z * res)) : Prop :=
  List.length (tw_bkt w) = n /\ (tw_first w < n)%nat /\
  (forall j, (j < n)%nat -> nth (ridx n (tw_first w) j) (tw_bkt w) tb0 = mkb (B + Z.of_nat j) log) /\
  tw_total w = wcnt one B log /\ tw_slow w = wcnt is_slow B log /\ tw_fail w = wcnt is_fail B log.

Lemma tw_core_evict1 n w B log :
  tw_core n w B log -> (forall e, In e log -> fst e < B + Z.of_nat n) ->
  tw_core n (tw_evict1 w) (B + 1) log /\ tw_begin (tw_evict1 w) = tw_begin w.
Proof.
  intros (Hlen & Hf & Hb & Ht & Hs & Hfl) Hub.
  split; [|reflexivity].
  assert (H0 : nth (tw_first w) (tw_bkt w) tb0 = mkb B log).
  { specialize (Hb O ltac:(lia)). unfold ridx in Hb.
    destruct (Nat.ltb_spec (tw_first w + 0) n); [|lia].
    rewrite Nat.add_0_r, Z.add_0_r in Hb. exact Hb. }
  unfold tw_core, tw_evict1. cbn [tw_bkt tw_first tw_total tw_slow tw_fail].
  rewrite list_set_length, Hlen, H0, succ_mod by exact Hf.
  cbn [mkb tb_total tb_slow tb_fail].
  repeat split.
  - destruct (Nat.ltb_spec (S (tw_first w)) n); lia.
  - intros j Hj.
    destruct (Nat.eq_dec (S j) n) as [Elast | Nlast].
    + (* the freed bucket becomes the last second of the window *)
      assert (E : ridx n (if (S (tw_first w) <? n)%nat then S (tw_first w) else O) j = tw_first w).
      { unfold ridx. destruct (Nat.ltb_spec (S (tw_first w)) n).
        - destruct (Nat.ltb_spec (S (tw_first w) + j) n); lia.
        - destruct (Nat.ltb_spec (0 + j) n); lia. }
      rewrite E, nth_list_set_eq by lia.
      symmetry. apply mkb_empty. intros e He. specialize (Hub e He). lia.
    + assert (E : ridx n (if (S (tw_first w) <? n)%nat then S (tw_first w) else O) j = ridx n (tw_first w) (S j)).
      { unfold ridx. destruct (Nat.ltb_spec (S (tw_first w)) n).
        - destruct (Nat.ltb_spec (S (tw_first w) + j) n), (Nat.ltb_spec (tw_first w + S j) n); lia.
        - destruct (Nat.ltb_spec (0 + j) n), (Nat.ltb_spec (tw_first w + S j) n); lia. }
      rewrite E, nth_list_set_neq.
      * rewrite Hb by lia. f_equal. lia.
      * intro C. assert (ridx n (tw_first w) O = tw_first w).
        { unfold ridx. destruct (Nat.ltb_spec (tw_first w + 0) n); lia. }
        rewrite <- H in C at 2. apply ridx_inj in C; lia.
  - rewrite Ht, (wcnt_split one B). lia.
  - rewrite Hs, (wcnt_split is_slow B). lia.
  - rewrite Hfl, (wcnt_split is_fail B). lia.
Qed.

Lemma tw_core_loop n k : forall w B log,
  tw_core n w B log -> (forall e, In e log -> fst e < B + Z.of_nat n) ->
  tw_core n (tw_evict_loop k w) (B + Z.of_nat k) log /\ tw_begin (tw_evict_loop k w) = tw_begin w.
Proof.
  induction k as [|k IH]; intros w B log H Hub.
  - cbn [tw_evict_loop]. rewrite Z.add_0_r. auto.
  - cbn [tw_evict_loop].
    destruct (tw_core_evict1 _ _ _ _ H Hub) as [H1 E1].
    destruct (IH _ _ _ H1) as [H2 E2].
    { intros e He. specialize (Hub e He). lia. }
    split; [|congruence].
    replace (B + Z.of_nat (S k)) with (B + 1 + Z.of_nat k) by lia. exact H2.
Qed.

Lemma tw_core_shift n w X Y log :
  tw_core n w X log -> (forall e, In e log -> fst e < X) -> X <= Y -> tw_core n w Y log.
Proof.
  intros (Hlen & Hf & Hb & Ht & Hs & Hfl) Hub Hxy.
  repeat split; auto.
  - intros j Hj. rewrite Hb by exact Hj.
    rewrite !mkb_empty; [reflexivity | |]; intros e He; specialize (Hub e He); lia.
  - rewrite Ht, !wcnt_empty; [reflexivity | |]; intros e He; specialize (Hub e He); lia.
  - rewrite Hs, !wcnt_empty; [reflexivity | |]; intros e He; specialize (Hub e He); lia.
  - rewrite Hfl, !wcnt_empty; [reflexivity | |]; intros e He; specialize (Hub e He); lia.
Qed.

Lemma sec_of_mono a b : a <= b -> sec_of a <= sec_of b.
Proof. intro H. unfold sec_of, second. apply Z.div_le_mono; lia. Qed.

Lemma quot_sec now B : B <= sec_of now -> (now - B * second) ÷ second = sec_of now - B.
Proof.
  unfold sec_of, second. intro H.
  assert (0 <= now - B * 1000000000).
  { pose proof (Z.mul_div_le now 1000000000 ltac:(lia)). lia. }
  rewrite Z.quot_div_nonneg by lia.
  replace (now - B * 1000000000) with (now + (- B) * 1000000000) by lia.
  rewrite Z.div_add by lia. lia.
Qed.

Lemma trunc_sec_spec now : trunc_sec now = sec_of now * second.
Proof.
  unfold trunc_sec, sec_of, second.
  pose proof (Z.div_mod now 1000000000 ltac:(lia)). lia.
Qed.

(** [t]: a lower bound of every later clock reading *)
Definition tw_rel (n : nat) (w : twin) (log : list (Z * res)) (t : Z) : Prop :=
  exists B L, tw_core n w B log /\ tw_begin w = B * second /\
    B <= L < B + Z.of_nat n /\ L <= sec_of t /\
    (forall e, In e log -> fst e <= L) /\
    (forall e, In e log -> fst e < B -> fst e + Z.of_nat n <= L).

Lemma tw_rel_mono n w log t t' : tw_rel n w log t -> t <= t' -> tw_rel n w log t'.
Proof.
  intros (B & L & Hc & Hb & HL & Ht & H1 & H2) Hle.
  exists B, L. pose proof (sec_of_mono _ _ Hle).
  split; [exact Hc|]. split; [exact Hb|]. split; [exact HL|]. split; [lia|]. split; assumption.
Qed.

Lemma tw_rel_new n z t : (1 <= n)%nat -> Z.to_nat z = n -> tw_rel n (tw_new z t) [] t.
Proof.
  intros Hn E. exists (sec_of t), (sec_of t). unfold tw_new. rewrite E.
  repeat split; cbn [tw_bkt tw_first tw_total tw_slow tw_fail tw_begin]; try reflexivity; try lia.
  - apply repeat_length.
  - intros j Hj. rewrite nth_repeat_tb0. reflexivity.
  - apply trunc_sec_spec.
  - intros e [].
  - intros e [].
Qed.

Lemma tw_evict_rel n w log t now :
  tw_rel n w log t -> t <= now ->
  exists B', tw_core n (tw_evict now w) B' log /\ tw_begin (tw_evict now w) = B' * second /\
    B' <= sec_of now < B' + Z.of_nat n /\
    (forall e, In e log -> fst e <= sec_of now) /\
    (forall e, In e log -> fst e < B' -> fst e + Z.of_nat n <= sec_of now).
Proof.
  intros (B & L & Hc & Hb & HL & Ht & H1 & H2) Hle.
  pose proof (sec_of_mono _ _ Hle) as Hs.
  assert (Hlen : List.length (tw_bkt w) = n) by apply Hc.
  unfold tw_evict. rewrite Hb, quot_sec, Hlen by lia.
  destruct (Z.ltb_spec (sec_of now - B) (Z.of_nat n)) as [Hlt | Hge].
  - exists B. split; [exact Hc|]. split; [exact Hb|]. split; [lia|]. split.
    + intros e He. specialize (H1 e He). lia.
    + intros e He Hlt'. specialize (H2 e He Hlt'). lia.
  - set (ev := sec_of now - B - Z.of_nat n + 1).
    set (w1 := {| tw_total := tw_total w; tw_slow := tw_slow w; tw_fail := tw_fail w;
                  tw_begin := B * second + ev * second; tw_first := tw_first w; tw_bkt := tw_bkt w |}).
    assert (Hc1 : tw_core n w1 B log) by exact Hc.
    assert (Hub : forall e, In e log -> fst e < B + Z.of_nat n).
    { intros e He. specialize (H1 e He). lia. }
    destruct (tw_core_loop n (Z.to_nat (Z.min ev (Z.of_nat n))) _ _ _ Hc1 Hub) as [Hc2 Eb].
    exists (B + ev). split; [|split; [|split; [unfold ev; lia|split]]].
    + destruct (Z.le_gt_cases ev (Z.of_nat n)) as [Hev | Hev].
      * replace (B + ev) with (B + Z.of_nat (Z.to_nat (Z.min ev (Z.of_nat n)))) by (unfold ev in *; lia).
        exact Hc2.
      * apply (tw_core_shift n _ (B + Z.of_nat (Z.to_nat (Z.min ev (Z.of_nat n))))); [exact Hc2 | | lia].
        intros e He. specialize (Hub e He). lia.
    + rewrite Eb. unfold w1. cbn [tw_begin]. unfold second. lia.
    + intros e He. specialize (H1 e He). lia.
    + intros e He Hlt'. specialize (H1 e He). unfold ev in Hlt'. lia.
Qed.

Lemma rem_ridx (n f d : nat) : (f < n)%nat -> (d < n)%nat ->
  Z.rem (Z.of_nat f + Z.of_nat d) (Z.of_nat n) = Z.of_nat (ridx n f d).
Proof.
  intros Hf Hd. unfold ridx.
  destruct (Nat.ltb_spec (f + d) n) as [Hlt | Hge].
  - rewrite Z.rem_small by lia. lia.
  - rewrite Z.rem_mod_nonneg by lia.
    replace (Z.of_nat f + Z.of_nat d) with (Z.of_nat (f + d - n) + 1 * Z.of_nat n) by lia.
    rewrite Z.mod_add by lia. apply Z.mod_small. lia.
Qed.

Lemma mkb_cons_eq s r log :
  mkb s ((s, r) :: log) =
  {| tb_total := tb_total (mkb s log) + 1; tb_slow := tb_slow (mkb s log) + is_slow r;
     tb_fail := tb_fail (mkb s log) + is_fail r |}.
Proof.
  unfold mkb. cbn [tb_total tb_slow tb_fail]. rewrite !bcnt_cons, Z.eqb_refl.
  change (one r) with 1. f_equal; lia.
Qed.

Lemma mkb_cons_neq s x r log : x <> s -> mkb s ((x, r) :: log) = mkb s log.
Proof.
  intro H. unfold mkb. rewrite !bcnt_cons.
  destruct (x =? s) eqn:E; [lia|]. reflexivity.
Qed.

Lemma tw_rel_push n w log t now r :
  tw_rel n w log t -> t <= now ->
  exists w', tw_push now r w = Some w' /\
    tw_rel n w' ((sec_of now, r) :: log) now /\
    let v := view (KTime (Z.of_nat n)) (sec_of now) ((sec_of now, r) :: log) in
    tw_total w' = Z.of_nat (List.length v) /\ tw_slow w' = cnt is_slow v /\ tw_fail w' = cnt is_fail v.
Proof.
  intros Hrel Hle.
  destruct (tw_evict_rel _ _ _ _ _ Hrel Hle) as (B' & Hc & Hb & HB & H1 & H2).
  pose proof Hc as (Hlen & Hf & Hbk & Ht & Hs & Hfl).
  set (S' := sec_of now) in *. set (log' := (S', r) :: log).
  unfold tw_push. set (w1 := tw_evict now w) in *.
  rewrite Hlen, Hb, quot_sec by (fold S'; lia). fold S'.
  destruct (Z.eqb_spec (Z.of_nat n) 0) as [E0 | _]; [lia|].
  set (d := Z.to_nat (S' - B')).
  assert (Hd : (d < n)%nat) by (unfold d; lia).
  replace (S' - B') with (Z.of_nat d) by (unfold d; lia).
  rewrite rem_ridx by assumption.
  destruct (Z.ltb_spec (Z.of_nat (ridx n (tw_first w1) d)) 0) as [C | _]; [lia|].
  rewrite Nat2Z.id.
  pose proof (ridx_lt n (tw_first w1) d Hf Hd) as Hi.
  assert (Hagree : forall e, In e log' -> (B' <=? fst e) = (S' - Z.of_nat n <? fst e)).
  { intros e [He | He].
    - subst e. cbn [fst]. lia.
    - specialize (H1 e He). specialize (H2 e He). lia. }
  assert (Hw : forall f, wcnt f B' log' = cnt f (view (KTime (Z.of_nat n)) S' log')).
  { intro f. unfold wcnt, view. f_equal. f_equal. apply filter_ext_in. exact Hagree. }
  eexists; split; [reflexivity|]. split; [|cbv zeta; cbn [tw_total tw_slow tw_fail]].
  - exists B', S'.
    split; [|split; [reflexivity|split; [lia|split; [fold S'; lia|split]]]].
    + unfold tw_core. cbn [tw_bkt tw_first tw_total tw_slow tw_fail].
      rewrite list_set_length.
      split; [exact Hlen|]. split; [exact Hf|]. split; [|split; [|split]].
      * intros j Hj. destruct (Nat.eq_dec j d) as [-> | Nj].
        -- rewrite nth_list_set_eq by lia. rewrite Hbk by exact Hd.
           replace (B' + Z.of_nat d) with S' by (unfold d; lia).
           unfold log'. now rewrite mkb_cons_eq.
        -- rewrite nth_list_set_neq.
           ++ rewrite Hbk by exact Hj. unfold log'. rewrite mkb_cons_neq; [reflexivity|]. unfold d in *. lia.
           ++ intro C. apply ridx_inj in C; auto.
      * unfold log'. rewrite wcnt_cons, Ht. destruct (Z.leb_spec B' S'); [|lia]. change (one r) with 1. lia.
      * unfold log'. rewrite wcnt_cons, Hs. destruct (Z.leb_spec B' S'); [|lia]. lia.
      * unfold log'. rewrite wcnt_cons, Hfl. destruct (Z.leb_spec B' S'); [|lia]. lia.
    + intros e [He | He]; [subst e; cbn [fst]; lia | exact (H1 e He)].
    + intros e [He | He] Hlt; [subst e; cbn [fst] in Hlt; lia | exact (H2 e He Hlt)].
  - rewrite <- cnt_one, <- !Hw. unfold log'. rewrite !wcnt_cons, Ht, Hs, Hfl.
    destruct (Z.leb_spec B' S'); [|lia]. change (one r) with 1. lia.
Qed.

(** pushing a whole sequence of (time, result) *)
Fixpoint tw_pushes (w : twin) (ps : list (Z * res)) : option twin :=
  match ps with
  | [] => Some w
  | (now, r) :: t => match tw_push now r w with Some w' => tw_pushes w' t | None => None end
  end.

Fixpoint mono_times (t : Z) (ps : list (Z * res)) : Prop :=
  match ps with
  | [] => True
  | (now, _) :: r => t <= now /\ mono_times now r
  end.

Definition log_of (ps : list (Z * res)) : list (Z * res) := rev (map (fun p => (sec_of (fst p), snd p)) ps).

(** after any sequence of pushes at non-decreasing times the ring's totals are the counts of
    the results pushed within the last [n] seconds (as of the latest push) *)
Lemma time_window_refines : forall (n : nat) (t0 : Z) (ps : list (Z * res)) (now : Z) (r : res),
  (1 <= n)%nat -> mono_times t0 (ps ++ [(now, r)]) ->
  exists w, tw_pushes (tw_new (Z.of_nat n) t0) (ps ++ [(now, r)]) = Some w /\
    let v := view (KTime (Z.of_nat n)) (sec_of now) (log_of (ps ++ [(now, r)])) in
    tw_total w = Z.of_nat (List.length v) /\ tw_slow w = cnt is_slow v /\ tw_fail w = cnt is_fail v.
Proof.
  intros n t0 ps now r Hn.
  assert (G : forall ps w log t now r, tw_rel n w log t -> mono_times t (ps ++ [(now, r)]) ->
            exists w', tw_pushes w (ps ++ [(now, r)]) = Some w' /\
              let v := view (KTime (Z.of_nat n)) (sec_of now) (log_of (ps ++ [(now, r)]) ++ log) in
              tw_total w' = Z.of_nat (List.length v) /\ tw_slow w' = cnt is_slow v /\ tw_fail w' = cnt is_fail v).
  { clear. induction ps as [|[t1 r1] ps IH]; intros w log t now r Hrel Hm.
    - cbn [app mono_times] in Hm. destruct Hm as [Hle _].
      destruct (tw_rel_push _ _ _ _ _ r Hrel Hle) as (w' & E & _ & Hv).
      exists w'. cbn [app tw_pushes]. rewrite E. split; [reflexivity|]. exact Hv.
    - cbn [app mono_times] in Hm. destruct Hm as [Hle Hm].
      destruct (tw_rel_push _ _ _ _ _ r1 Hrel Hle) as (w1 & E & Hrel1 & _).
      destruct (IH _ _ _ _ _ Hrel1 Hm) as (w' & E' & Hv).
      exists w'. cbn [app tw_pushes]. rewrite E. split; [exact E'|].
      unfold log_of in *. cbn [map rev fst snd]. rewrite <- app_assoc. exact Hv. }
  intro Hm.
  destruct (G ps _ [] t0 now r (tw_rel_new n _ t0 Hn (Nat2Z.id n)) Hm) as (w & E & Hv).
  exists w. split; [exact E|]. now rewrite app_nil_r in Hv.
Qed.
