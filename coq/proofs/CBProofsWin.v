(** C08: the two sliding windows refine their abstract views.

    - [cw_rel n w l]  : the count-based ring buffer [w] of size [n] represents the list
                        [l] (newest first) of ALL results pushed so far; its running totals
                        are the counts over [firstn n l] (the last [n] results);
    - [tw_rel n w log t] : the time-based ring of [n] one-second buckets represents the log
                        of (second, result) pairs pushed so far; its running totals are
                        the counts over the entries of the last [n] seconds. *)
From EG.lib Require Import Base.
From EG.model Require Import CB.
From Coq Require Import ZifyBool.
Open Scope Z_scope.

(** ** generic list facts *)
Lemma list_set_length {A} i (x : A) l : List.length (list_set i x l) = List.length l.
Proof. revert i; induction l as [|h t IH]; intros [|i]; simpl; auto. Qed.

Lemma list_set_app {A} (a : list A) y b x : list_set (List.length a) x (a ++ y :: b) = a ++ x :: b.
Proof. induction a as [|h t IH]; simpl; [reflexivity | now rewrite IH]. Qed.

Lemma nth_error_mid {A} (a : list A) y b : nth_error (a ++ y :: b) (List.length a) = Some y.
Proof. induction a as [|h t IH]; simpl; auto. Qed.

Lemma nth_mid {A} (a : list A) y b d : nth (List.length a) (a ++ y :: b) d = y.
Proof. induction a as [|h t IH]; simpl; auto. Qed.

Lemma rev_repeat {A} (x : A) n : rev (repeat x n) = repeat x n.
Proof.
  induction n as [|n IH]; simpl; [reflexivity|]. rewrite IH.
  clear IH. induction n as [|n IH]; simpl; [reflexivity | now rewrite IH].
Qed.

Lemma firstn_repeat {A} (x : A) k n : (k <= n)%nat -> firstn k (repeat x n) = repeat x k.
Proof.
  revert n; induction k as [|k IH]; intros [|n] H; simpl; try reflexivity; try lia.
  rewrite IH by lia. reflexivity.
Qed.

Lemma rev_removelast_of_rev {A} (c : list A) x T : rev c = x :: T -> rev (removelast c) = T.
Proof.
  intro H. assert (E : c = rev T ++ [x]).
  { rewrite <- (rev_involutive c), H. reflexivity. }
  subst c. rewrite removelast_last. apply rev_involutive.
Qed.

(** ** counting *)
Fixpoint ocnt (f : option res -> Z) (l : list (option res)) : Z :=
  match l with
  | [] => 0
  | o :: t => f o + ocnt f t
  end.

Lemma ocnt_app f a b : ocnt f (a ++ b) = ocnt f a + ocnt f b.
Proof. induction a as [|h t IH]; simpl; [reflexivity | rewrite IH; lia]. Qed.

Lemma ocnt_rev f l : ocnt f (rev l) = ocnt f l.
Proof. induction l as [|h t IH]; simpl; [reflexivity|]. rewrite ocnt_app, IH. simpl. lia. Qed.

Lemma ocnt_repeat_none f n : f None = 0 -> ocnt f (repeat None n) = 0.
Proof. intro H. induction n as [|n IH]; simpl; [reflexivity | rewrite H, IH; reflexivity]. Qed.

Lemma cnt_app f a b : cnt f (a ++ b) = cnt f a + cnt f b.
Proof. induction a as [|h t IH]; simpl; [reflexivity | rewrite IH; lia]. Qed.

Lemma ocnt_tot_some l : ocnt o_tot (map Some l) = Z.of_nat (List.length l).
Proof. induction l as [|h t IH]; [reflexivity|]. cbn [map ocnt List.length o_tot]. rewrite IH. lia. Qed.

Lemma ocnt_slow_some l : ocnt o_slow (map Some l) = cnt is_slow l.
Proof. induction l as [|h t IH]; [reflexivity|]. cbn [map ocnt cnt o_slow]. now rewrite IH. Qed.

Lemma ocnt_fail_some l : ocnt o_fail (map Some l) = cnt is_fail l.
Proof. induction l as [|h t IH]; [reflexivity|]. cbn [map ocnt cnt o_fail]. now rewrite IH. Qed.

Lemma cnt_bounds f l : (forall r, 0 <= f r <= 1) -> 0 <= cnt f l <= Z.of_nat (List.length l).
Proof.
  intro H. induction l as [|h t IH]; cbn [cnt List.length]; [lia|]. specialize (H h). lia.
Qed.

Lemma is_slow_01 r : 0 <= is_slow r <= 1. Proof. destruct r; simpl; lia. Qed.
Lemma is_fail_01 r : 0 <= is_fail r <= 1. Proof. destruct r; simpl; lia. Qed.

(** ** count-based window *)

(** the [n] cells of the ring, newest first, [None] where nothing was pushed yet *)
Definition content (n : nat) (l : list res) : list (option res) :=
  firstn n (map Some l ++ repeat None n).

Lemma content_length n l : List.length (content n l) = n.
Proof. unfold content. rewrite firstn_length, app_length, repeat_length. lia. Qed.

Lemma content_cons n r l : content (S n) (r :: l) = Some r :: removelast (content (S n) l).
Proof.
  unfold content.
  change (map Some (r :: l) ++ repeat None (S n)) with (Some r :: (map Some l ++ repeat None (S n))).
  rewrite firstn_cons. f_equal.
  rewrite removelast_firstn; [reflexivity|]. rewrite app_length, repeat_length. lia.
Qed.

Lemma content_spec n l :
  content n l = map Some (firstn n l) ++ repeat None (n - List.length l).
Proof.
  unfold content. rewrite firstn_app, map_length, firstn_map.
  rewrite firstn_repeat by lia. reflexivity.
Qed.

Lemma content_nil n : content n [] = repeat None n.
Proof. rewrite content_spec, firstn_nil. cbn [map app List.length]. now rewrite Nat.sub_0_r. Qed.

Lemma content_tot n l : ocnt o_tot (content n l) = Z.of_nat (List.length (firstn n l)).
Proof. rewrite content_spec, ocnt_app, ocnt_repeat_none, ocnt_tot_some by reflexivity. lia. Qed.
Lemma content_slow n l : ocnt o_slow (content n l) = cnt is_slow (firstn n l).
Proof. rewrite content_spec, ocnt_app, ocnt_repeat_none, ocnt_slow_some by reflexivity. lia. Qed.
Lemma content_fail n l : ocnt o_fail (content n l) = cnt is_fail (firstn n l).
Proof. rewrite content_spec, ocnt_app, ocnt_repeat_none, ocnt_fail_some by reflexivity. lia. Qed.

Definition cw_rel (n : nat) (w : cwin) (l : list res) : Prop :=
  exists A B, cw_bkt w = A ++ B /\ cw_idx w = List.length A /\ (B <> [] \/ n = O) /\
    B ++ A = rev (content n l) /\
    cw_total w = ocnt o_tot (content n l) /\
    cw_slow w = ocnt o_slow (content n l) /\
    cw_fail w = ocnt o_fail (content n l).

Lemma cw_rel_new n z : Z.to_nat z = n -> cw_rel n (cw_new z) [].
Proof.
  intro E. exists [], (repeat None n). unfold cw_new. rewrite E. cbn [cw_bkt cw_idx cw_total cw_slow cw_fail].
  rewrite content_nil, rev_repeat, app_nil_r.
  repeat split; try reflexivity.
  - destruct n; [right; reflexivity | left; discriminate].
  - now rewrite ocnt_repeat_none.
  - now rewrite ocnt_repeat_none.
  - now rewrite ocnt_repeat_none.
Qed.

Lemma cw_rel_zero_panics w l r : cw_rel O w l -> cw_push r w = None.
Proof.
  intros (A & B & Hb & Hi & _ & Hc & _).
  assert (L : List.length (B ++ A) = O) by (rewrite Hc, rev_length; apply content_length).
  rewrite app_length in L. destruct A; [|simpl in L; lia]. destruct B; [|simpl in L; lia].
  unfold cw_push. rewrite Hb, Hi. reflexivity.
Qed.

Lemma cw_rel_push n w l r :
  cw_rel (S n) w l -> exists w', cw_push r w = Some w' /\ cw_rel (S n) w' (r :: l).
Proof.
  intros (A & B & Hb & Hi & Hne & Hc & Ht & Hs & Hf).
  destruct Hne as [Hne | Hne]; [|discriminate].
  destruct B as [|x B']; [congruence|].
  assert (L : (List.length A + S (List.length B') = S n)%nat).
  { assert (L : List.length ((x :: B') ++ A) = S n) by (rewrite Hc, rev_length; apply content_length).
    rewrite app_length in L. simpl in L. lia. }
  set (T := B' ++ A).
  assert (HT : rev (content (S n) l) = x :: T) by (rewrite <- Hc; reflexivity).
  assert (Hcnt : forall f, ocnt f (content (S n) (r :: l)) = ocnt f (content (S n) l) - f x + f (Some r)).
  { intro f. rewrite content_cons. cbn [ocnt].
    rewrite <- (ocnt_rev f (content (S n) l)), HT. cbn [ocnt].
    rewrite <- (ocnt_rev f (removelast _)), (rev_removelast_of_rev _ _ _ HT). lia. }
  assert (Hrev : rev (content (S n) (r :: l)) = T ++ [Some r]).
  { rewrite content_cons. cbn [rev]. now rewrite (rev_removelast_of_rev _ _ _ HT). }
  unfold cw_push. rewrite Hb, Hi, nth_error_mid, list_set_app.
  eexists; split; [reflexivity|].
  rewrite app_length. cbn [List.length].
  destruct (Nat.leb_spec (List.length A + S (List.length B')) (S (List.length A))) as [Hle | Hgt].
  - (* wrap around *)
    assert (B' = []) by (destruct B'; [reflexivity | simpl in Hle; lia]). subst B'.
    exists [], (A ++ [Some r]).
    cbn [cw_bkt cw_idx cw_total cw_slow cw_fail]. rewrite app_nil_r.
    repeat split.
    + left. destruct A; discriminate.
    + rewrite Hrev. reflexivity.
    + rewrite Hcnt, Ht. reflexivity.
    + rewrite Hcnt, Hs. reflexivity.
    + rewrite Hcnt, Hf. reflexivity.
  - exists (A ++ [Some r]), B'.
    cbn [cw_bkt cw_idx cw_total cw_slow cw_fail].
    repeat split.
    + now rewrite <- app_assoc.
    + rewrite app_length. simpl. lia.
    + left. destruct B'; [simpl in Hgt; lia | discriminate].
    + rewrite Hrev. unfold T. now rewrite app_assoc.
    + rewrite Hcnt, Ht. reflexivity.
    + rewrite Hcnt, Hs. reflexivity.
    + rewrite Hcnt, Hf. reflexivity.
Qed.

Lemma cw_rel_totals n w l :
  cw_rel n w l ->
  cw_total w = Z.of_nat (List.length (firstn n l)) /\
  cw_slow w = cnt is_slow (firstn n l) /\ cw_fail w = cnt is_fail (firstn n l).
Proof.
  intros (A & B & _ & _ & _ & _ & Ht & Hs & Hf).
  now rewrite Ht, Hs, Hf, content_tot, content_slow, content_fail.
Qed.

(** pushing a whole sequence *)
Fixpoint cw_pushes (w : cwin) (rs : list res) : option cwin :=
  match rs with
  | [] => Some w
  | r :: t => match cw_push r w with Some w' => cw_pushes w' t | None => None end
  end.

Lemma count_window_refines : forall (n : nat) (rs : list res),
  (1 <= n)%nat ->
  exists w, cw_pushes (cw_new (Z.of_nat n)) rs = Some w /\
    cw_total w = Z.of_nat (List.length (firstn n (rev rs))) /\
    cw_slow w = cnt is_slow (firstn n (rev rs)) /\
    cw_fail w = cnt is_fail (firstn n (rev rs)).
Proof.
  intros n rs Hn. destruct n as [|n]; [lia|].
  assert (G : forall rs w l, cw_rel (S n) w l ->
            exists w', cw_pushes w rs = Some w' /\ cw_rel (S n) w' (rev rs ++ l)).
  { induction rs0 as [|r t IH]; intros w l H.
    - exists w. split; [reflexivity | exact H].
    - destruct (cw_rel_push _ _ _ r H) as (w1 & E1 & H1).
      destruct (IH _ _ H1) as (w2 & E2 & H2).
      exists w2. cbn [cw_pushes]. rewrite E1. split; [exact E2|].
      cbn [rev]. now rewrite <- app_assoc. }
  destruct (G rs (cw_new (Z.of_nat (S n))) [] (cw_rel_new _ _ (Nat2Z.id _))) as (w & E & H).
  exists w. split; [exact E|]. rewrite app_nil_r in H. now apply cw_rel_totals.
Qed.
