(** Proofs about the load-balancing model (C04). *)
From EG.lib Require Import Base.
From EG.model Require Import LB.
From Coq Require Import ZifyBool Permutation.
Open Scope Z_scope.

(** * arithmetic of contiguous tickets *)

Lemma div_bounds a b : 0 < b -> b * (a / b) <= a < b * (a / b) + b.
Proof. intros. pose proof (Z.mul_div_le a b). pose proof (Z.mul_succ_div_gt a b). lia. Qed.

Lemma div_unique_lt a b q : 0 < b -> b * q <= a < b * q + b -> a / b = q.
Proof. intros Hb H. symmetry. apply (Z.div_unique a b q (a - b * q)); lia. Qed.

(** [upto n i m] counts the c < m (from wherever both counts start) with c mod n = i: one more
    exactly when the ticket m itself is congruent to i *)
Lemma upto_step n i m :
  0 < n -> 0 <= i < n ->
  upto n i (m + 1) - upto n i m = if i =? m mod n then 1 else 0.
Proof.
  intros Hn Hi. unfold upto.
  pose proof (div_bounds (m + 1 - i + n - 1) n Hn) as B1.
  pose proof (div_bounds (m - i + n - 1) n Hn) as B2.
  pose proof (div_bounds m n Hn) as B3.
  pose proof (Z.mod_pos_bound m n Hn) as B4.
  pose proof (Z.div_mod m n ltac:(lia)) as B5.
  set (a := (m + 1 - i + n - 1) / n) in *. set (b := (m - i + n - 1) / n) in *.
  set (q := m / n) in *. set (r := m mod n) in *.
  destruct (i =? r) eqn:E.
  - assert (i = r) by lia. subst i.
    assert (a = q + 1) by nia. assert (b = q) by nia. lia.
  - assert (i <> r) by lia.
    destruct (Z_lt_ge_dec r i).
    + assert (a = q) by nia. assert (b = q) by nia. lia.
    + assert (a = q + 1) by nia. assert (b = q + 1) by nia. lia.
Qed.

Lemma count_nil i : count i [] = 0.
Proof. reflexivity. Qed.

Lemma count_cons i x l : count i (x :: l) = (if i =? x then 1 else 0) + count i l.
Proof. unfold count. cbn [filter]. destruct (i =? x); cbn [List.length]; lia. Qed.

Lemma count_nonneg i l : 0 <= count i l.
Proof. unfold count. lia. Qed.

Lemma count_app i l1 l2 : count i (l1 ++ l2) = count i l1 + count i l2.
Proof. induction l1 as [|x t IH]; [rewrite count_nil; reflexivity|]. cbn [app]. rewrite !count_cons, IH. lia. Qed.

(** the closed form is the count *)
Lemma rr_count_correct n i : 0 < n -> 0 <= i < n ->
  forall k c0, count i (map (rr n) (tickets c0 k)) = rr_count n c0 (Z.of_nat k) i.
Proof.
  intros Hn Hi. induction k as [|k IH]; intro c0.
  - cbn [tickets map]. rewrite count_nil. unfold rr_count. replace (c0 + Z.of_nat 0) with c0 by lia. lia.
  - cbn [tickets map]. rewrite count_cons, IH. unfold rr_count, rr.
    pose proof (upto_step n i c0 Hn Hi) as S1.
    replace (c0 + Z.of_nat (S k)) with (c0 + 1 + Z.of_nat k) by lia.
    destruct (i =? c0 mod n); lia.
Qed.

Lemma rr_count_floor_ceil n c0 k i : 0 < n -> 0 <= k ->
  rr_count n c0 k i = k / n \/ rr_count n c0 k i = k / n + 1.
Proof.
  intros Hn Hk. unfold rr_count, upto.
  set (a := c0 - i + n - 1). replace (c0 + k - i + n - 1) with (a + k) by (unfold a; lia).
  pose proof (div_bounds (a + k) n Hn) as B1.
  pose proof (div_bounds a n Hn) as B2.
  pose proof (div_bounds k n Hn) as B3.
  set (x := (a + k) / n) in *. set (y := a / n) in *. set (z := k / n) in *.
  assert (H1 : 0 < n * (x - y - z + 1)) by lia.
  assert (H2 : 0 < n * (z + 2 - (x - y))) by lia.
  assert (0 < x - y - z + 1) by nia. assert (0 < z + 2 - (x - y)) by nia. lia.
Qed.

(** sums *)
Definition zsum (l : list Z) : Z := fold_right Z.add 0 l.

Lemma zsum_cons x l : zsum (x :: l) = x + zsum l.
Proof. reflexivity. Qed.

Lemma zsum_map_add {A} (f g : A -> Z) l :
  zsum (map (fun x => f x + g x) l) = zsum (map f l) + zsum (map g l).
Proof. induction l as [|x t IH]; [reflexivity|]. cbn [map]. rewrite !zsum_cons, IH. lia. Qed.

Lemma zsum_map_ext {A} (f g : A -> Z) l : (forall x, f x = g x) -> zsum (map f l) = zsum (map g l).
Proof. intro H. induction l as [|x t IH]; [reflexivity|]. cbn [map]. rewrite !zsum_cons, IH, H. reflexivity. Qed.

Lemma zsum_map_zero {A} (l : list A) : zsum (map (fun _ => 0) l) = 0.
Proof. induction l as [|x t IH]; [reflexivity|]. cbn [map]. rewrite zsum_cons, IH. lia. Qed.

Lemma zseq_length from n : List.length (zseq from n) = n.
Proof. revert from. induction n as [|n IH]; intro from; cbn [zseq List.length]; [reflexivity|]. rewrite IH. reflexivity. Qed.

Lemma zseq_In from n x : In x (zseq from n) <-> from <= x < from + Z.of_nat n.
Proof.
  revert from. induction n as [|n IH]; intro from; cbn [zseq In].
  - lia.
  - rewrite IH. lia.
Qed.

Lemma indicator_sum x n : forall from,
  zsum (map (fun i => if i =? x then 1 else 0) (zseq from n)) =
  if (from <=? x) && (x <? from + Z.of_nat n) then 1 else 0.
Proof.
  induction n as [|n IH]; intro from; cbn [zseq map].
  - cbn [zsum fold_right]. destruct ((from <=? x) && (x <? from + Z.of_nat 0)) eqn:E; lia.
  - rewrite zsum_cons, IH.
    destruct (from =? x) eqn:E1;
    destruct ((from + 1 <=? x) && (x <? from + 1 + Z.of_nat n)) eqn:E2;
    destruct ((from <=? x) && (x <? from + Z.of_nat (S n))) eqn:E3; lia.
Qed.

(** every ticket is counted for exactly one index *)
Lemma sum_counts n l :
  (forall x, In x l -> 0 <= x < Z.of_nat n) ->
  zsum (map (fun i => count i l) (zseq 0 n)) = Z.of_nat (List.length l).
Proof.
  induction l as [|x t IH]; intro H.
  - rewrite (zsum_map_ext _ (fun _ => 0)) by (intro; apply count_nil). rewrite zsum_map_zero. reflexivity.
  - rewrite (zsum_map_ext _ (fun i => (if i =? x then 1 else 0) + count i t)) by (intro; apply count_cons).
    rewrite zsum_map_add, IH by (intros y Hy; apply H; right; exact Hy).
    rewrite indicator_sum. specialize (H x (or_introl eq_refl)).
    destruct ((0 <=? x) && (x <? 0 + Z.of_nat n)) eqn:E; cbn [List.length]; lia.
Qed.

(** a list whose values are q or q+1 *)
Lemma two_values q l :
  (forall v, In v l -> v = q \/ v = q + 1) ->
  zsum l = q * Z.of_nat (List.length l) + Z.of_nat (List.length (filter (fun v => v =? q + 1) l)).
Proof.
  induction l as [|v t IH]; intro H.
  - cbn. lia.
  - rewrite zsum_cons, IH by (intros w Hw; apply H; right; exact Hw).
    cbn [filter List.length]. destruct (H v (or_introl eq_refl)) as [E|E]; subst v.
    + destruct (q =? q + 1) eqn:E; [lia|]. lia.
    + destruct (q + 1 =? q + 1) eqn:E; [|lia]. cbn [List.length]. lia.
Qed.

Lemma filter_map_length {A B} (f : A -> B) (p : B -> bool) l :
  List.length (filter p (map f l)) = List.length (filter (fun x => p (f x)) l).
Proof. induction l as [|x t IH]; [reflexivity|]. cbn [map filter]. destruct (p (f x)); cbn [List.length]; rewrite IH; reflexivity. Qed.

Lemma tickets_length c0 k : List.length (tickets c0 k) = k.
Proof. revert c0. induction k as [|k IH]; intro c0; cbn [tickets List.length]; [reflexivity|]. rewrite IH. reflexivity. Qed.

Lemma tickets_In c0 k x : In x (tickets c0 k) <-> c0 <= x < c0 + Z.of_nat k.
Proof.
  revert c0. induction k as [|k IH]; intro c0; cbn [tickets In].
  - lia.
  - rewrite IH. lia.
Qed.

(** ** C04_rr_balanced *)
Lemma rr_balanced n c0 k i :
  0 < n -> 0 <= i < n ->
  let cs := map (rr n) (tickets c0 k) in
  let q := Z.of_nat k / n in
  (count i cs = q \/ count i cs = q + 1) /\
  Z.of_nat (List.length (filter (fun j => count j cs =? q + 1) (zseq 0 (Z.to_nat n)))) = Z.of_nat k mod n.
Proof.
  intros Hn Hi cs q. split.
  - unfold cs. rewrite rr_count_correct by assumption. apply rr_count_floor_ceil; lia.
  - pose proof (sum_counts (Z.to_nat n) cs) as HS.
    assert (Hin : forall x, In x cs -> 0 <= x < Z.of_nat (Z.to_nat n)).
    { intros x Hx. unfold cs in Hx. apply in_map_iff in Hx as (c & <- & _). unfold rr.
      pose proof (Z.mod_pos_bound c n Hn). lia. }
    specialize (HS Hin).
    assert (HL : List.length cs = k) by (unfold cs; rewrite map_length, tickets_length; reflexivity).
    rewrite HL in HS.
    pose proof (two_values q (map (fun j => count j cs) (zseq 0 (Z.to_nat n)))) as HT.
    assert (Hv : forall v, In v (map (fun j => count j cs) (zseq 0 (Z.to_nat n))) -> v = q \/ v = q + 1).
    { intros v Hv. apply in_map_iff in Hv as (j & <- & Hj). apply zseq_In in Hj.
      unfold cs. rewrite rr_count_correct by lia. apply rr_count_floor_ceil; lia. }
    specialize (HT Hv). rewrite map_length, zseq_length in HT.
    rewrite filter_map_length in HT. rewrite HS in HT.
    rewrite Z2Nat.id in HT by lia.
    rewrite (Z.mod_eq (Z.of_nat k) n) by lia. fold q. lia.
Qed.

(** the model's round-robin selection is [rr] on tickets below 2^63 *)
Lemma rr_choose_domain c n : 0 <= c < two63 -> 0 < n -> rr_choose c n = Chosen (c mod n).
Proof.
  intros Hc Hn. unfold rr_choose, to_int64.
  destruct (c <? two63) eqn:E; [|lia].
  rewrite Z.rem_mod_nonneg by lia.
  pose proof (Z.mod_pos_bound c n Hn). destruct (c mod n <? 0) eqn:E2; [lia|reflexivity].
Qed.

Lemma run_lb_rr q l : l <> [] ->
  forall xs c0, 0 <= c0 -> c0 + Z.of_nat (List.length xs) <= two63 ->
  run_lb q RoundRobin l c0 xs = map (fun c => Chosen (rr (Z.of_nat (List.length l)) c)) (tickets c0 (List.length xs)).
Proof.
  intros Hl. assert (Hn : 0 < Z.of_nat (List.length l)) by (destruct l; [congruence|cbn [List.length]; lia]).
  induction xs as [|[d k] t IH]; intros c0 H0 Hk; [reflexivity|].
  cbn [run_lb List.length tickets map]. cbn [List.length] in Hk.
  f_equal.
  - unfold choose. destruct (Z.of_nat (List.length l) =? 0) eqn:E; [lia|]. cbn [tk].
    apply rr_choose_domain; [unfold two63 in *; lia|lia].
  - assert (Hm : (c0 + 1) mod two64 = c0 + 1) by (apply Z.mod_small; unfold two63, two64 in *; lia).
    rewrite Hm. apply IH; lia.
Qed.

(** ** schedules: the tickets handed out do not depend on who obtains them *)
Lemma run_sched_tickets sched : forall c0, map snd (run_sched c0 sched) = tickets c0 (List.length sched).
Proof. induction sched as [|g t IH]; intro c0; [reflexivity|]. cbn [run_sched map snd List.length tickets]. rewrite IH. reflexivity. Qed.

Lemma count_perm i l l' : Permutation l l' -> count i l = count i l'.
Proof.
  induction 1 as [|x l l' _ IH|x y l|l l' l'' _ IH1 _ IH2].
  - reflexivity.
  - rewrite !count_cons, IH. reflexivity.
  - rewrite !count_cons. lia.
  - congruence.
Qed.

Lemma rr_schedule_independent n c0 sched l i :
  0 < n -> 0 <= i < n ->
  Permutation l (map snd (run_sched c0 sched)) ->
  count i (map (rr n) l) = rr_count n c0 (Z.of_nat (List.length sched)) i.
Proof.
  intros Hn Hi HP. rewrite run_sched_tickets in HP.
  rewrite (count_perm i _ _ (Permutation_map (rr n) HP)).
  apply rr_count_correct; assumption.
Qed.

(** * single selections *)

Lemma total_cons w t : total (w :: t) = w + total t.
Proof. reflexivity. Qed.

Lemma wr_loop_spec ws : forall r i,
  0 <= r < total ws ->
  exists j, wr_loop ws r i = Chosen j /\ i <= j < i + Z.of_nat (List.length ws) /\
            0 < nth (Z.to_nat (j - i)) ws 0.
Proof.
  induction ws as [|w t IH]; intros r i Hr.
  - cbn in Hr. lia.
  - rewrite total_cons in Hr. cbn [wr_loop].
    destruct (r - w <? 0) eqn:E.
    + exists i. split; [reflexivity|]. split; [cbn [List.length]; lia|].
      replace (i - i) with 0 by lia. cbn. lia.
    + destruct (IH (r - w) (i + 1) ltac:(lia)) as (j & Hj & Hb & Hw).
      exists j. split; [exact Hj|]. split; [cbn [List.length]; lia|].
      replace (Z.to_nat (j - i)) with (S (Z.to_nat (j - (i + 1)))) by lia.
      exact Hw.
Qed.

Lemma wr_loop_range ws : forall r i j, wr_loop ws r i = Chosen j -> i <= j < i + Z.of_nat (List.length ws).
Proof.
  induction ws as [|w t IH]; intros r i j H; cbn [wr_loop] in H; [discriminate|].
  destruct (r - w <? 0).
  - inversion H; subst. cbn [List.length]. lia.
  - apply IH in H. cbn [List.length]. lia.
Qed.

Lemma wr_loop_not_noserver ws : forall r i, wr_loop ws r i <> NoServer.
Proof.
  induction ws as [|w t IH]; intros r i; cbn [wr_loop]; [discriminate|].
  destruct (r - w <? 0); [discriminate|apply IH].
Qed.

Lemma weights_length l : List.length (weights l) = List.length l.
Proof. apply map_length. Qed.

(** ** C04_wr_never_zero_weight *)
Lemma wr_never_zero_weight q ws r :
  0 < total ws -> 0 <= r < total ws ->
  exists j, wr_choose q ws r = Chosen j /\ 0 <= j < Z.of_nat (List.length ws) /\ 0 < nth (Z.to_nat j) ws 0.
Proof.
  intros Ht Hr. unfold wr_choose. destruct (total ws <=? 0) eqn:E; [lia|].
  destruct (wr_loop_spec ws r 0 Hr) as (j & Hj & Hb & Hw).
  exists j. replace (j - 0) with j in Hw by lia. repeat split; try assumption; lia.
Qed.

Lemma total_nonneg ws : Forall (fun w => 0 <= w) ws -> 0 <= total ws.
Proof. induction 1 as [|w t Hw _ IH]; [cbn; lia|]. rewrite total_cons. lia. Qed.

Lemma total_pos ws : Forall (fun w => 0 <= w) ws -> Exists (fun w => 0 < w) ws -> 0 < total ws.
Proof.
  intros HF HE. induction HE as [w t Hw|w t _ IH]; inversion HF as [|? ? H1 H2]; subst; rewrite total_cons.
  - pose proof (total_nonneg t H2). lia.
  - specialize (IH H2). lia.
Qed.

Lemma nth_weights l j : nth j (weights l) 0 = match nth_error l j with Some s => s_w s | None => 0 end.
Proof. revert j. induction l as [|s t IH]; intros [|j]; cbn; try reflexivity. apply IH. Qed.

Lemma wr_positive_server q l x :
  Forall (fun s => 0 <= s_w s) l -> Exists (fun s => 0 < s_w s) l ->
  sel_ok WeightedRandom l x ->
  exists i s, choose q WeightedRandom l x = Chosen i /\ nth_error l (Z.to_nat i) = Some s /\ In s l /\ 0 < s_w s.
Proof.
  intros HF HE (_ & Hd).
  assert (Ht : 0 < total (weights l)).
  { apply total_pos; unfold weights; [apply Forall_map; exact HF|apply Exists_map; exact HE]. }
  unfold draw_bound in Hd. destruct (total (weights l) <=? 0) eqn:E; [lia|].
  destruct (wr_never_zero_weight q (weights l) (dr x) Ht Hd) as (j & Hj & Hb & Hw).
  assert (Hl : l <> []) by (intro; subst; cbn in Ht; lia).
  unfold choose. destruct (Z.of_nat (List.length l) =? 0) eqn:E0; [destruct l; [congruence|cbn [List.length] in E0; lia]|].
  rewrite nth_weights in Hw. destruct (nth_error l (Z.to_nat j)) as [s|] eqn:En; [|lia].
  exists j, s. repeat split; try assumption. eapply nth_error_In; exact En.
Qed.

(** ** C04_choice_in_list *)
Lemma rr_choose_range c n j : 0 < n -> rr_choose c n = Chosen j -> 0 <= j < n.
Proof.
  intros Hn H. unfold rr_choose in H.
  destruct (Z.rem (to_int64 c) n <? 0) eqn:E; [discriminate|]. inversion H; subst.
  pose proof (Z.rem_bound_abs (to_int64 c) n ltac:(lia)). lia.
Qed.

Lemma choice_in_list q p l x i :
  sel_ok p l x -> choose q p l x = Chosen i ->
  0 <= i < Z.of_nat (List.length l) /\ exists s, nth_error l (Z.to_nat i) = Some s /\ In s l.
Proof.
  intros (Ht & Hd) H.
  assert (R : 0 <= i < Z.of_nat (List.length l)).
  { unfold choose in H. destruct (Z.of_nat (List.length l) =? 0) eqn:E0; [discriminate|].
    assert (Hn : 0 < Z.of_nat (List.length l)) by lia.
    destruct p.
    - eapply rr_choose_range; eassumption.
    - inversion H; subst. cbn [draw_bound] in Hd. lia.
    - unfold wr_choose in H. cbn [draw_bound] in Hd.
      destruct (total (weights l) <=? 0) eqn:E.
      + destruct (q_wr_zero_total_panics q); [discriminate|]. inversion H; subst. lia.
      + apply wr_loop_range in H. rewrite weights_length in H. lia.
    - unfold hash_choose in H. inversion H; subst. apply Z.mod_pos_bound; lia.
    - unfold hash_choose in H. inversion H; subst. apply Z.mod_pos_bound; lia. }
  split; [exact R|].
  destruct (nth_error l (Z.to_nat i)) as [s|] eqn:En.
  - exists s. split; [reflexivity|]. eapply nth_error_In; exact En.
  - apply nth_error_None in En. lia.
Qed.

(** ** C04_no_server_iff_empty *)
Lemma no_server_iff_empty q p l x : choose q p l x = NoServer <-> l = [].
Proof.
  split.
  - intro H. destruct l as [|s t]; [reflexivity|exfalso].
    unfold choose in H. cbn [List.length] in H.
    destruct (Z.of_nat (S (List.length t)) =? 0) eqn:E; [lia|].
    destruct p.
    + unfold rr_choose in H. destruct (Z.rem _ _ <? 0); discriminate.
    + discriminate.
    + unfold wr_choose in H. destruct (total _ <=? 0).
      * destruct (q_wr_zero_total_panics q); discriminate.
      * eapply wr_loop_not_noserver; exact H.
    + discriminate.
    + discriminate.
  - intros ->. reflexivity.
Qed.

(** ** C04_hash_sticky *)
Lemma hash_sticky q p l x1 x2 :
  p = IPHash \/ p = HeaderHash -> ky x1 = ky x2 -> choose q p l x1 = choose q p l x2.
Proof. intros [-> | ->] H; unfold choose; rewrite H; reflexivity. Qed.

(** ** no panic (repaired code) *)
Lemma never_panics_ideal p l x : sel_ok p l x -> choose ideal p l x <> Panic.
Proof.
  intros (Ht & Hd). unfold choose. destruct (Z.of_nat (List.length l) =? 0) eqn:E0; [discriminate|].
  assert (Hn : 0 < Z.of_nat (List.length l)) by lia.
  destruct p; try discriminate.
  - rewrite rr_choose_domain by assumption. discriminate.
  - unfold wr_choose. cbn [draw_bound] in Hd. destruct (total (weights l) <=? 0) eqn:E.
    + cbn. discriminate.
    + destruct (wr_loop_spec (weights l) (dr x) 0 Hd) as (j & -> & _). discriminate.
Qed.

(** * the pool's list *)
Lemma str_in_spec s l : str_in s l = true <-> In s l.
Proof.
  unfold str_in. rewrite existsb_exists. split.
  - intros (y & Hy & E). apply String.eqb_eq in E. subst. exact Hy.
  - intro H. exists s. split; [exact H|apply String.eqb_refl].
Qed.

Lemma has_tag_spec tags i : has_tag tags i = true <-> exists t, In t tags /\ In t (i_tags i).
Proof.
  unfold has_tag. rewrite existsb_exists. split; intros (t & H1 & H2); exists t; (split; [exact H1|]); apply str_in_spec; exact H2.
Qed.

Lemma tagged_In tags insts s :
  In s (tagged tags insts) <-> exists i, In i insts /\ has_tag tags i = true /\ s = inst_server i.
Proof.
  unfold tagged. rewrite in_map_iff. split.
  - intros (i & <- & Hi). apply filter_In in Hi as (H1 & H2). exists i. auto.
  - intros (i & H1 & H2 & ->). exists i. split; [reflexivity|]. apply filter_In. auto.
Qed.

Lemma tagged_nil tags insts : tagged tags insts = [] <-> forall i, In i insts -> has_tag tags i = false.
Proof.
  split.
  - intros H i Hi. destruct (has_tag tags i) eqn:E; [|reflexivity].
    assert (Hin : In (inst_server i) (tagged tags insts)) by (apply tagged_In; exists i; auto).
    rewrite H in Hin. destruct Hin.
  - intro H. destruct (tagged tags insts) as [|s t] eqn:E; [reflexivity|].
    assert (Hin : In s (tagged tags insts)) by (rewrite E; left; reflexivity).
    apply tagged_In in Hin as (i & H1 & H2 & _). rewrite (H i H1) in H2. discriminate.
Qed.

Lemma filter_perm {A} (f : A -> bool) l l' : Permutation l l' -> Permutation (filter f l) (filter f l').
Proof.
  induction 1 as [|x l l' _ IH|x y l|l l' l'' _ IH1 _ IH2].
  - constructor.
  - cbn [filter]. destruct (f x); [constructor|]; exact IH.
  - cbn [filter]. destruct (f x), (f y); try apply Permutation_refl. constructor.
  - eapply Permutation_trans; eassumption.
Qed.

Lemma pool_list_spec static tags insts :
  (forall s, In s (pool_list static (tagged tags insts)) <->
             (exists i, In i insts /\ (exists t, In t tags /\ In t (i_tags i)) /\ s = inst_server i) \/
             ((forall i, In i insts -> ~ exists t, In t tags /\ In t (i_tags i)) /\ In s static)) /\
  (forall insts', Permutation insts insts' ->
                  Permutation (pool_list static (tagged tags insts)) (pool_list static (tagged tags insts'))).
Proof.
  split.
  - intro s. unfold pool_list. destruct (tagged tags insts) as [|s0 t0] eqn:E.
    + pose proof (proj1 (tagged_nil tags insts) E) as Hn. split.
      * intro Hs. right. split; [|exact Hs]. intros i Hi Ht. apply has_tag_spec in Ht. rewrite (Hn i Hi) in Ht. discriminate.
      * intros [(i & Hi & Ht & _)|(_ & Hs)]; [|exact Hs].
        apply has_tag_spec in Ht. rewrite (Hn i Hi) in Ht. discriminate.
    + rewrite <- E. split.
      * intro Hs. left. apply tagged_In in Hs as (i & H1 & H2 & H3). exists i. rewrite <- has_tag_spec. auto.
      * intros [(i & Hi & Ht & ->)|(Hn & _)].
        -- apply tagged_In. exists i. rewrite has_tag_spec. auto.
        -- exfalso. assert (Hin : In s0 (tagged tags insts)) by (rewrite E; left; reflexivity).
           apply tagged_In in Hin as (i & H1 & H2 & _). apply (Hn i H1). apply has_tag_spec. exact H2.
  - intros insts' HP.
    assert (HT : Permutation (tagged tags insts) (tagged tags insts')).
    { unfold tagged. apply Permutation_map. apply filter_perm. exact HP. }
    unfold pool_list. destruct (tagged tags insts) as [|a b] eqn:E1; destruct (tagged tags insts') as [|a' b'] eqn:E2.
    + apply Permutation_refl.
    + apply Permutation_nil in HT. discriminate.
    + apply Permutation_sym, Permutation_nil in HT. discriminate.
    + exact HT.
Qed.

(** ** C04_validated_never_panics / refutation *)
Lemma validated_never_panics spec insts x :
  validate spec = true ->
  let l := pool_list (ps_static spec) (tagged (ps_tags spec) insts) in
  let p := policy_of_string (ps_policy spec) in
  sel_ok p l x -> choose ideal p l x <> Panic.
Proof. intros _ l p. apply never_panics_ideal. Qed.

Definition pinned_code : quirks := {| q_wr_zero_total_panics := true |}.

Definition wit_spec : pool_spec :=
  {| ps_policy := "weightedRandom"; ps_service := false; ps_tags := [];
     ps_static := [ {| s_url := "http://st0.test"; s_w := 0 |}; {| s_url := "http://st1.test"; s_w := 0 |} ] |}.

Lemma refuted_wr_zero_total :
  exists spec x,
    validate spec = true /\
    (let l := pool_list (ps_static spec) (tagged (ps_tags spec) []) in
     let p := policy_of_string (ps_policy spec) in
     sel_ok p l x /\ choose pinned_code p l x = Panic /\ choose ideal p l x <> Panic).
Proof.
  exists wit_spec, {| tk := 0; dr := 1; ky := "" |}.
  split; [vm_compute; reflexivity|]. cbv zeta. split; [|split].
  - unfold sel_ok. vm_compute. repeat split; congruence.
  - vm_compute. reflexivity.
  - vm_compute. discriminate.
Qed.

(** * list replacement concurrent with selection *)
Fixpoint replaced (es : list cev) : list (list server) :=
  match es with
  | [] => []
  | CReplace l :: t => l :: replaced t
  | _ :: t => replaced t
  end.

Lemma map_fst_bump b : forall l, map fst (bump b l) = map fst l.
Proof.
  induction b as [|b IH]; intros [|[s c] t]; cbn [bump map fst]; try reflexivity.
  rewrite IH. reflexivity.
Qed.

Lemma cstep_lists q p st e :
  map fst (lbs (fst (cstep q p st e))) = map fst (lbs st) ++ replaced [e].
Proof.
  destruct e as [l|g|g d k]; cbn [cstep replaced].
  - cbn [fst lbs]. rewrite map_app. reflexivity.
  - cbn [fst lbs]. rewrite app_nil_r. reflexivity.
  - rewrite app_nil_r. destruct (reg_get g (regs st)) as [b|]; [|reflexivity].
    destruct (nth_error (lbs st) b) as [[l c]|]; [|reflexivity].
    cbn [fst lbs]. apply map_fst_bump.
Qed.

Lemma replaced_cons e t : replaced (e :: t) = replaced [e] ++ replaced t.
Proof. destruct e; reflexivity. Qed.

(** every selection is [choose] applied to a list that had been installed before the selection,
    namely the one its goroutine loaded *)
Lemma crun_choice q p : forall es st os fin,
  crun q p st es = (os, fin) ->
  forall j b o, nth_error os j = Some (Some (b, o)) ->
  exists l g c d k,
    nth_error es j = Some (CChoose g d k) /\
    nth_error (map fst (lbs st) ++ replaced (firstn j es)) b = Some l /\
    o = choose q p l {| tk := c; dr := d; ky := k |}.
Proof.
  induction es as [|e t IH]; intros st os fin H j b o Hj.
  - cbn in H. inversion H; subst. destruct j; discriminate.
  - cbn [crun] in H. destruct (cstep q p st e) as [st' o1] eqn:Es.
    destruct (crun q p st' t) as [os' fin'] eqn:Er. inversion H; subst os fin; clear H.
    destruct j as [|j].
    + cbn [nth_error] in Hj. inversion Hj; subst o1; clear Hj.
      destruct e as [l|g|g d k]; cbn [cstep] in Es; try (inversion Es; fail).
      destruct (reg_get g (regs st)) as [b'|] eqn:Eg; [|inversion Es].
      destruct (nth_error (lbs st) b') as [[l c]|] eqn:En; [|inversion Es].
      inversion Es; subst. exists l, g, c, d, k. cbn [nth_error firstn replaced]. rewrite app_nil_r.
      split; [reflexivity|]. split; [|reflexivity].
      rewrite nth_error_map, En. reflexivity.
    + cbn [nth_error] in Hj. destruct (IH st' os' fin' Er j b o Hj) as (l & g & c & d & k & H1 & H2 & H3).
      exists l, g, c, d, k. cbn [nth_error firstn]. split; [exact H1|]. split; [|exact H3].
      pose proof (cstep_lists q p st e) as HL. rewrite Es in HL. cbn [fst] in HL.
      rewrite HL in H2. rewrite replaced_cons, app_assoc. exact H2.
Qed.

Lemma replace_choice_in_loaded_list q p l0 es os fin j b o :
  crun q p (cinit l0) es = (os, fin) ->
  nth_error os j = Some (Some (b, o)) ->
  exists l g c d k,
    nth_error es j = Some (CChoose g d k) /\
    nth_error (l0 :: replaced (firstn j es)) b = Some l /\
    o = choose q p l {| tk := c; dr := d; ky := k |} /\
    (o = NoServer <-> l = []) /\
    (forall i, sel_ok p l {| tk := c; dr := d; ky := k |} -> o = Chosen i ->
               exists s, nth_error l (Z.to_nat i) = Some s /\ In s l).
Proof.
  intros H Hj. destruct (crun_choice q p es (cinit l0) os fin H j b o Hj) as (l & g & c & d & k & H1 & H2 & H3).
  exists l, g, c, d, k. split; [exact H1|]. split; [exact H2|]. split; [exact H3|]. split.
  - subst o. apply no_server_iff_empty.
  - intros i Hok Hi. subst o. eapply choice_in_list; eassumption.
Qed.

(** ** which list: the one current at the goroutine's most recent load *)
Definition run_state (q : quirks) (p : policy) (st : cstate) (es : list cev) : cstate := snd (crun q p st es).

Lemma run_state_cons q p st e t : run_state q p st (e :: t) = run_state q p (fst (cstep q p st e)) t.
Proof.
  unfold run_state. cbn [crun]. destruct (cstep q p st e) as [st' o1]. cbn [fst].
  destruct (crun q p st' t) as [os fin]. reflexivity.
Qed.

Lemma bump_length b : forall l, List.length (bump b l) = List.length l.
Proof. induction b as [|b IH]; intros [|[s c] t]; cbn [bump List.length]; try reflexivity. rewrite IH. reflexivity. Qed.

Lemma cstep_inv q p st e :
  S (curlb st) = List.length (lbs st) ->
  S (curlb (fst (cstep q p st e))) = List.length (lbs (fst (cstep q p st e))).
Proof.
  intro H. destruct e as [l|g|g d k]; cbn [cstep].
  - cbn [fst lbs curlb]. rewrite app_length. cbn [List.length]. lia.
  - exact H.
  - destruct (reg_get g (regs st)) as [b|]; [|exact H].
    destruct (nth_error (lbs st) b) as [[l c]|]; [|exact H].
    cbn [fst lbs curlb]. rewrite bump_length. exact H.
Qed.

Lemma run_state_inv q p : forall es st,
  S (curlb st) = List.length (lbs st) ->
  S (curlb (run_state q p st es)) = List.length (lbs (run_state q p st es)).
Proof.
  induction es as [|e t IH]; intros st H; [exact H|].
  rewrite run_state_cons. apply IH. apply cstep_inv. exact H.
Qed.

Lemma run_state_lists q p : forall es st,
  map fst (lbs (run_state q p st es)) = map fst (lbs st) ++ replaced es.
Proof.
  induction es as [|e t IH]; intro st.
  - cbn. rewrite app_nil_r. reflexivity.
  - rewrite (replaced_cons e t), app_assoc, run_state_cons, IH, cstep_lists. reflexivity.
Qed.

Lemma curlb_cinit q p l0 es : curlb (run_state q p (cinit l0) es) = List.length (replaced es).
Proof.
  pose proof (run_state_inv q p es (cinit l0) eq_refl) as H1.
  pose proof (f_equal (@List.length _) (run_state_lists q p es (cinit l0))) as H2.
  rewrite map_length, app_length in H2. cbn [cinit lbs map List.length] in H2. lia.
Qed.

Lemma cstep_regs q p st e g :
  reg_get g (regs (fst (cstep q p st e))) =
  match e with
  | CLoad g' => if Nat.eqb g g' then Some (curlb st) else reg_get g (regs st)
  | _ => reg_get g (regs st)
  end.
Proof.
  destruct e as [l|g'|g' d k]; cbn [cstep]; try reflexivity.
  destruct (reg_get g' (regs st)) as [b|]; [|reflexivity].
  destruct (nth_error (lbs st) b) as [[l c]|]; reflexivity.
Qed.

Lemma crun_loaded q p : forall es st os fin j b o g d k,
  crun q p st es = (os, fin) ->
  nth_error os j = Some (Some (b, o)) ->
  nth_error es j = Some (CChoose g d k) ->
  (exists m, (m < j)%nat /\ nth_error es m = Some (CLoad g) /\
             (forall m', (m < m' < j)%nat -> nth_error es m' <> Some (CLoad g)) /\
             b = curlb (run_state q p st (firstn m es))) \/
  ((forall m', (m' < j)%nat -> nth_error es m' <> Some (CLoad g)) /\ reg_get g (regs st) = Some b).
Proof.
  induction es as [|e t IH]; intros st os fin j b o g d k H Hj He.
  - destruct j; discriminate.
  - cbn [crun] in H. destruct (cstep q p st e) as [st' o1] eqn:Es.
    destruct (crun q p st' t) as [os' fin'] eqn:Er. inversion H; subst os fin; clear H.
    destruct j as [|j].
    + right. cbn [nth_error] in Hj, He. inversion He; subst e. inversion Hj; subst o1. clear Hj He.
      split; [intros m' Hm'; lia|].
      cbn [cstep] in Es. destruct (reg_get g (regs st)) as [b'|] eqn:Eg; [|inversion Es].
      destruct (nth_error (lbs st) b') as [[l c]|]; inversion Es; subst. reflexivity.
    + cbn [nth_error] in Hj, He.
      destruct (IH st' os' fin' j b o g d k Er Hj He) as [(m & Hm & Hl & Hno & Hb)|(Hno & Hr)].
      * left. exists (S m). split; [lia|]. split; [exact Hl|]. split.
        -- intros [|m'] Hm'; [lia|]. cbn [nth_error]. apply Hno. lia.
        -- cbn [firstn]. rewrite run_state_cons, Es. exact Hb.
      * pose proof (cstep_regs q p st e g) as HR. rewrite Es in HR. cbn [fst] in HR. rewrite Hr in HR.
        destruct e as [l|g'|g' d' k'].
        -- right. split; [|congruence]. intros [|m'] Hm'; [cbn; discriminate|]. cbn [nth_error]. apply Hno. lia.
        -- destruct (Nat.eqb g g') eqn:Eg.
           ++ apply Nat.eqb_eq in Eg. subst g'. left. exists 0%nat. split; [lia|]. split; [reflexivity|]. split.
              ** intros [|m'] Hm'; [lia|]. cbn [nth_error]. apply Hno. lia.
              ** cbn [firstn]. unfold run_state. cbn. congruence.
           ++ right. split; [|congruence]. intros [|m'] Hm'.
              ** cbn [nth_error]. intro HH. inversion HH. subst. rewrite Nat.eqb_refl in Eg. discriminate.
              ** cbn [nth_error]. apply Hno. lia.
        -- right. split; [|congruence]. intros [|m'] Hm'; [cbn; discriminate|]. cbn [nth_error]. apply Hno. lia.
Qed.

Lemma replace_choice_current_at_load q p l0 es os fin j b o :
  crun q p (cinit l0) es = (os, fin) ->
  nth_error os j = Some (Some (b, o)) ->
  exists g d k m,
    nth_error es j = Some (CChoose g d k) /\
    (m < j)%nat /\ nth_error es m = Some (CLoad g) /\
    (forall m', (m < m' < j)%nat -> nth_error es m' <> Some (CLoad g)) /\
    b = List.length (replaced (firstn m es)).
Proof.
  intros H Hj.
  destruct (crun_choice q p es (cinit l0) os fin H j b o Hj) as (l & g & c & d & k & H1 & _ & _).
  destruct (crun_loaded q p es (cinit l0) os fin j b o g d k H Hj H1) as [(m & Hm & Hl & Hno & Hb)|(_ & Hr)].
  - exists g, d, k, m. repeat split; try assumption. rewrite Hb. apply curlb_cinit.
  - cbn in Hr. discriminate.
Qed.

(** * service discovery reports: the pool's list is determined by the LAST report *)
Lemma watch_list_app static tags reports r :
  watch_list static tags (reports ++ [r]) = pool_list static (tagged tags r).
Proof. unfold watch_list. rewrite fold_left_app. reflexivity. Qed.

Lemma watch_list_last static tags reports :
  watch_list static tags reports =
  match reports with
  | [] => static
  | _ => pool_list static (tagged tags (last reports []))
  end.
Proof.
  induction reports as [|r0 t _] using rev_ind; [reflexivity|].
  rewrite watch_list_app, last_last. destruct t; reflexivity.
Qed.

(** * a retried request: an attempt that loads immediately before choosing uses the list that is
    current at that moment *)
Lemma last_cons_default {A} (t : list A) : forall a x y, last (a :: t) x = last (a :: t) y.
Proof.
  induction t as [|b t IH]; intros a x y; [reflexivity|].
  change (last (a :: b :: t) x) with (last (b :: t) x). change (last (a :: b :: t) y) with (last (b :: t) y). apply IH.
Qed.

Lemma nth_error_last {A} (l : list A) : forall x, nth_error (x :: l) (List.length l) = Some (last l x).
Proof.
  induction l as [|y t IH]; intro x; [reflexivity|].
  cbn [List.length nth_error]. rewrite IH. f_equal.
  destruct t as [|a t]; [reflexivity|]. change (last (y :: a :: t) x) with (last (a :: t) x). apply last_cons_default.
Qed.

Lemma replaced_firstn_load g : forall es j,
  nth_error es j = Some (CLoad g) -> replaced (firstn (S j) es) = replaced (firstn j es).
Proof.
  induction es as [|e t IH]; intros [|j] Hl; try discriminate.
  - cbn in Hl. inversion Hl; subst. destruct t; reflexivity.
  - cbn [nth_error] in Hl. specialize (IH j Hl).
    change (firstn (S (S j)) (e :: t)) with (e :: firstn (S j) t).
    change (firstn (S j) (e :: t)) with (e :: firstn j t).
    rewrite (replaced_cons e (firstn (S j) t)), (replaced_cons e (firstn j t)), IH. reflexivity.
Qed.

Lemma attempt_uses_current_list q p l0 es os fin j g d k b o :
  crun q p (cinit l0) es = (os, fin) ->
  nth_error es j = Some (CLoad g) ->
  nth_error es (S j) = Some (CChoose g d k) ->
  nth_error os (S j) = Some (Some (b, o)) ->
  b = List.length (replaced (firstn j es)) /\
  exists c, o = choose q p (last (replaced (firstn j es)) l0) {| tk := c; dr := d; ky := k |}.
Proof.
  intros H Hl Hc Ho.
  destruct (replace_choice_current_at_load q p l0 es os fin (S j) b o H Ho) as (g' & d' & k' & m & H1 & Hm & Hlm & Hno & Hb).
  rewrite Hc in H1. inversion H1; subst g' d' k'. clear H1.
  assert (m = j).
  { destruct (Nat.eq_dec m j) as [E|E]; [exact E|]. exfalso. apply (Hno j); [lia|exact Hl]. }
  subst m. split; [exact Hb|].
  destruct (crun_choice q p es (cinit l0) os fin H (S j) b o Ho) as (l & g' & c & d' & k' & H1 & H2 & H3).
  rewrite Hc in H1. inversion H1; subst g' d' k'. exists c. rewrite H3. f_equal.
  cbn [cinit lbs map fst app] in H2.
  pose proof (replaced_firstn_load g es j Hl) as E.
  rewrite E, Hb in H2. rewrite nth_error_last in H2. inversion H2. reflexivity.
Qed.

(** * generations: what the live generation receives is not disturbed by other generations *)
Definition other_ids_differ (g i : nat) (st : rstate) : Prop :=
  forall g' i', nlookup g' (held st) = Some i' -> g' <> g -> i' <> i.

Definition quiet_for (g i : nat) (e : wev) : Prop :=
  match e with
  | WSub g' i' _ => g' <> g /\ i' <> i   (* other generations, with other ids *)
  | WStop g' => g' <> g                  (* the live generation does not stop itself *)
  | WReport _ => True
  end.

Lemma drop_id_keeps id i g l : id <> i -> In (i, g) l -> In (i, g) (drop_id id l).
Proof.
  intros Hne Hin. unfold drop_id. apply filter_In. split; [exact Hin|]. cbn.
  destruct (Nat.eqb i id) eqn:E; [apply Nat.eqb_eq in E; congruence|reflexivity].
Qed.

Lemma rstep_keeps g i st e :
  In (i, g) (subs st) -> other_ids_differ g i st -> quiet_for g i e ->
  In (i, g) (subs (fst (rstep st e))) /\ other_ids_differ g i (fst (rstep st e)).
Proof.
  intros Hin Hd Hq. destruct e as [g' i' l|g'|r]; cbn [rstep quiet_for] in *.
  - destruct Hq as [Hg Hi]. cbn [fst subs held]. split.
    + right. apply drop_id_keeps; [exact Hi|exact Hin].
    + intros g2 i2 H2 Hne. cbn [held nlookup] in H2. destruct (Nat.eqb g2 g') eqn:E.
      * inversion H2; subst. exact Hi.
      * eapply Hd; eassumption.
  - destruct (nlookup g' (held st)) as [id|] eqn:E; cbn [fst subs held]; [|auto].
    split; [|exact Hd]. apply drop_id_keeps; [|exact Hin]. eapply Hd; eassumption.
  - auto.
Qed.

Lemma rfinal_keeps g i : forall evs st,
  In (i, g) (subs st) -> other_ids_differ g i st -> Forall (quiet_for g i) evs ->
  In (i, g) (subs (rfinal st evs)) /\ other_ids_differ g i (rfinal st evs).
Proof.
  induction evs as [|e t IH]; intros st Hin Hd HF; [auto|].
  inversion HF as [|? ? Hq Ht]; subst. destruct (rstep_keeps g i st e Hin Hd Hq) as [H1 H2].
  unfold rfinal. cbn [fold_left]. apply IH; assumption.
Qed.

(** after generation g subscribed with id i, whatever OTHER generations do with OTHER ids
    (subscribe, stop - in any order, any number of times), every report made is delivered to g *)
Lemma live_generation_receives g i l st pre r :
  other_ids_differ g i st -> Forall (quiet_for g i) pre ->
  In (g, r) (snd (rstep (rfinal (fst (rstep st (WSub g i l))) pre) (WReport r))).
Proof.
  intros Hd HF.
  assert (H0 : In (i, g) (subs (fst (rstep st (WSub g i l))))) by (cbn; left; reflexivity).
  assert (H1 : other_ids_differ g i (fst (rstep st (WSub g i l)))).
  { intros g2 i2 H2 Hne. cbn [rstep fst held nlookup] in H2. destruct (Nat.eqb g2 g) eqn:E; [apply Nat.eqb_eq in E; congruence|].
    eapply Hd; eassumption. }
  destruct (rfinal_keeps g i pre _ H0 H1 HF) as [Hin _].
  cbn [rstep snd]. apply in_map_iff. exists (i, g). split; [reflexivity|exact Hin].
Qed.

(** any number of sibling watchers (other generations, other ids) subscribing and stopping *)
Definition siblings (l : list instance) (sibs : list (nat * nat)) : list wev :=
  flat_map (fun x => [WSub (fst x) (snd x) l; WStop (fst x)]) sibs.

Lemma siblings_quiet g i l sibs :
  (forall g' i', In (g', i') sibs -> g' <> g /\ i' <> i) -> Forall (quiet_for g i) (siblings l sibs).
Proof.
  intro H. induction sibs as [|[g' i'] t IH]; [constructor|].
  destruct (H g' i' (or_introl eq_refl)) as [Hg Hi]. cbn [siblings flat_map app fst snd].
  constructor; [cbn; auto|]. constructor; [cbn; exact Hg|].
  apply IH. intros g2 i2 H2. apply H. right. exact H2.
Qed.

Lemma siblings_harmless g i l l' st sibs r :
  other_ids_differ g i st ->
  (forall g' i', In (g', i') sibs -> g' <> g /\ i' <> i) ->
  In (g, r) (snd (rstep (rfinal (fst (rstep st (WSub g i l))) (siblings l' sibs)) (WReport r))).
Proof. intros Hd H. apply live_generation_receives; [exact Hd|apply siblings_quiet; exact H]. Qed.
