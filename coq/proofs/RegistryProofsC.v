(** C20 - lemmas, part 3: for the ideal model one snapshot moves every name
    along the lifecycle automaton of each consumer. *)
From EG.lib Require Import Base.
From EG.model Require Import Registry.
From EG.proofs Require Import RegistryProofs RegistryProofsB.
Open Scope N_scope.

Lemma spec_eqb_eq a b : spec_eqb a b = true -> a = b.
Proof.
  destruct a as [k c v], b as [k' c' v']. unfold spec_eqb. cbn [s_kind s_cat s_v].
  rewrite !andb_true_iff, !N.eqb_eq. intros [[-> ->] ->]. reflexivity.
Qed.

Lemma spec_eqb_refl a : spec_eqb a a = true.
Proof. unfold spec_eqb. rewrite !N.eqb_refl. reflexivity. Qed.

Lemma same_kind_true a b : same_kind a b = true -> s_kind a = s_kind b /\ s_cat a = s_cat b.
Proof. unfold same_kind. rewrite andb_true_iff, !N.eqb_eq. tauto. Qed.

Lemma same_kind_refl a : same_kind a a = true.
Proof. unfold same_kind. rewrite !N.eqb_refl. reflexivity. Qed.

(** what a consumer with category filter [cats] should hold when the registry holds [r] *)
Definition fl (cats : list N) (r : option ent) : option ent :=
  match r with Some e => if wfilter cats e then Some e else None | None => None end.
Definition flg (r : option ent) : option ent :=
  match r with Some e => if wfilter cats1 e && negb (is_pipe e) then Some e else None | None => None end.
Definition flp (r : option ent) : option ent :=
  match r with Some e => if wfilter cats1 e && is_pipe e then Some e else None | None => None end.

Definition inv (c : cell) : Prop :=
  c_w0 c = fl cats0 (c_reg c) /\ c_w1 c = fl cats1 (c_reg c) /\
  option_map i_ent (c_sup c) = fl cats0 (c_reg c) /\
  option_map i_ent (c_gate c) = flg (c_reg c) /\
  option_map i_ent (c_pipe c) = flp (c_reg c).

Definition incat (cats : list N) (s : spec) : bool := existsb (N.eqb (s_cat s)) cats.
Definition filtc (cats : list N) (s : option spec) : option spec :=
  match s with Some x => if incat cats x then Some x else None | None => None end.

Lemma filt_filtc w s : filt w s = filtc (cats_of w) s.
Proof. reflexivity. Qed.

Lemma wfilter_incat cats e : wfilter cats e = incat cats (e_spec e).
Proof. reflexivity. Qed.

Lemma incat_same_kind cats a b : same_kind a b = true -> incat cats a = incat cats b.
Proof. intros H. apply same_kind_true in H as [_ H]. unfold incat. rewrite H. reflexivity. Qed.

Definition ccalls (w : N) (l : list entry) : list (N * call) :=
  map (fun e => (l_step e, l_call e)) (filter (fun e => l_who e =? w) l).

Lemma ccalls_app w l1 l2 : ccalls w (l1 ++ l2) = ccalls w l1 ++ ccalls w l2.
Proof. unfold ccalls. rewrite filter_app, map_app. reflexivity. Qed.

Lemma filter_andb {A} (f g : A -> bool) l :
  filter (fun x => f x && g x) l = filter f (filter g l).
Proof.
  induction l as [|a l IH]; simpl; [reflexivity|].
  destruct (g a); simpl; destruct (f a); simpl; rewrite ?IH; reflexivity.
Qed.

Lemma calls_of_ccalls w n l : calls_of w n l = ccalls w (log_of n l).
Proof. unfold calls_of, ccalls, log_of. rewrite filter_andb. reflexivity. Qed.

(** registry: tracks the snapshot as the (unfiltered) automaton does *)
Lemma diff_reg t n r cfgn :
  fst (diff_of ideal t r cfgn) = snd (spec_calls t n r cfgn).
Proof.
  unfold diff_of, spec_calls. destruct r as [e|], cfgn as [s|]; cbn; try reflexivity.
  destruct (spec_eqb (e_spec e) s); [reflexivity|].
  destruct (same_kind (e_spec e) s); reflexivity.
Qed.

(** watcher entities follow the registry, filtered *)
Lemma watch_ents cats t r cfgn :
  fst (watch_of cats (snd (diff_of ideal t r cfgn)) (fl cats r)) = fl cats (fst (diff_of ideal t r cfgn)).
Proof.
  unfold diff_of, watch_of, fl. destruct r as [e|], cfgn as [s|]; cbn -[wfilter]; try reflexivity.
  - destruct (spec_eqb (e_spec e) s); cbn -[wfilter]; [reflexivity|].
    destruct (same_kind (e_spec e) s) eqn:Sk; cbn -[wfilter].
    + rewrite !wfilter_incat. cbn [e_spec mk_ent]. rewrite (incat_same_kind cats _ _ Sk).
      destruct (incat cats s); reflexivity.
    + destruct (wfilter cats e), (wfilter cats (mk_ent s t)); reflexivity.
  - destruct (wfilter cats e); reflexivity.
  - destruct (wfilter cats (mk_ent s t)); reflexivity.
Qed.

(** the automaton state of a consumer is the filtered registry entry *)
Lemma auto_state cats t n r cfgn :
  fl cats (snd (spec_calls t n r cfgn)) = snd (spec_calls t n (fl cats r) (filtc cats cfgn)).
Proof.
  unfold spec_calls, fl, filtc. destruct r as [e|], cfgn as [s|]; cbn -[wfilter incat]; try reflexivity.
  - rewrite !wfilter_incat.
    destruct (spec_eqb (e_spec e) s) eqn:Eq.
    + apply spec_eqb_eq in Eq. subst s. cbn -[incat]. rewrite wfilter_incat.
      destruct (incat cats (e_spec e)); cbn -[incat]; rewrite ?spec_eqb_refl; reflexivity.
    + destruct (same_kind (e_spec e) s) eqn:Sk; cbn -[incat]; rewrite wfilter_incat; cbn [e_spec].
      * rewrite (incat_same_kind cats _ _ Sk). destruct (incat cats s); cbn; rewrite ?Eq, ?Sk; reflexivity.
      * destruct (incat cats (e_spec e)), (incat cats s); cbn; rewrite ?Eq, ?Sk; reflexivity.
  - destruct (wfilter cats e); reflexivity.
  - rewrite wfilter_incat. cbn [e_spec]. destruct (incat cats s); reflexivity.
Qed.

Definition pipek (s : spec) : bool := s_kind s =? kind_pipeline.
Lemma is_pipe_pipek e : is_pipe e = pipek (e_spec e).
Proof. reflexivity. Qed.
Lemma pipek_same_kind a b : same_kind a b = true -> pipek a = pipek b.
Proof. intros H. apply same_kind_true in H as [H _]. unfold pipek. rewrite H. reflexivity. Qed.

Ltac inv_opt H :=
  cbn [option_map] in H; first [discriminate H | injection H as H | idtac].

Ltac norm := cbn -[wfilter incat is_pipe pipek] in *; rewrite ?wfilter_incat, ?is_pipe_pipek in *; cbn [e_spec mk_ent] in *.
Ltac fin :=
  repeat (norm; match goal with
          | H : ?x = _ |- context [if ?x then _ else _] => rewrite H
          | H : ?x = _ |- context [match ?x with _ => _ end] => rewrite H
          end);
  norm; unfold mk_ent in *; repeat split; congruence.


Lemma sup_ideal pan t n r cfgn s :
  option_map i_ent s = fl cats0 r ->
  let ev := snd (watch_of cats0 (snd (diff_of ideal t r cfgn)) (fl cats0 r)) in
  let res := sup_of pan t n ev s in
  option_map i_ent (fst res) = fl cats0 (fst (diff_of ideal t r cfgn)) /\
  ccalls 0 (snd res) = map (pair t) (fst (spec_calls t n (fl cats0 r) (filtc cats0 cfgn))) /\
  ccalls 1 (snd res) = [].
Proof.
  intros H. cbv zeta.
  unfold diff_of, watch_of, sup_of, spec_calls, fl, filtc, do_init, do_inherit, do_close, ccalls in *.
  destruct r as [e|], cfgn as [sp|]; norm.
  - destruct (spec_eqb (e_spec e) sp) eqn:Eq.
    + apply spec_eqb_eq in Eq. subst sp. norm.
      destruct (incat cats0 (e_spec e)) eqn:I0; destruct s as [i|]; inv_opt H; 
        pose proof (spec_eqb_refl (e_spec e)) as Er; fin.
    + destruct (same_kind (e_spec e) sp) eqn:Sk; norm.
      * pose proof (incat_same_kind cats0 _ _ Sk) as Ik.
        destruct (incat cats0 (e_spec e)) eqn:I0; symmetry in Ik; destruct s as [i|]; inv_opt H; fin. 
      * destruct (incat cats0 (e_spec e)) eqn:I0, (incat cats0 sp) eqn:I1; destruct s as [i|]; inv_opt H; fin.
  - destruct (incat cats0 (e_spec e)) eqn:I0; destruct s as [i|]; inv_opt H; fin.
  - destruct (incat cats0 sp) eqn:I0; destruct s as [i|]; inv_opt H; fin.
  - destruct s as [i|]; inv_opt H; fin.
Qed.

Lemma tc_ideal pan t n r cfgn g p :
  option_map i_ent g = flg r -> option_map i_ent p = flp r ->
  let ev := snd (watch_of cats1 (snd (diff_of ideal t r cfgn)) (fl cats1 r)) in
  let res := tc_of pan t n ev g p in
  option_map i_ent (fst (fst res)) = flg (fst (diff_of ideal t r cfgn)) /\
  option_map i_ent (snd (fst res)) = flp (fst (diff_of ideal t r cfgn)) /\
  ccalls 1 (snd res) = map (pair t) (fst (spec_calls t n (fl cats1 r) (filtc cats1 cfgn))) /\
  ccalls 0 (snd res) = [].
Proof.
  intros H G. cbv zeta.
  unfold diff_of, watch_of, tc_of, spec_calls, fl, flg, flp, filtc, do_init, do_inherit, do_close, ccalls in *.
  destruct r as [e|], cfgn as [sp|]; norm.
  - destruct (spec_eqb (e_spec e) sp) eqn:Eq.
    + apply spec_eqb_eq in Eq. subst sp. norm.
      pose proof (spec_eqb_refl (e_spec e)) as Er.
      destruct (incat cats1 (e_spec e)) eqn:I0, (pipek (e_spec e)) eqn:P0; destruct g as [gi|], p as [pi|];
        inv_opt H; inv_opt G; fin.
    + destruct (same_kind (e_spec e) sp) eqn:Sk; norm.
      * pose proof (incat_same_kind cats1 _ _ Sk) as Ik. pose proof (pipek_same_kind _ _ Sk) as Pk.
        symmetry in Ik, Pk.
        destruct (incat cats1 (e_spec e)) eqn:I0, (pipek (e_spec e)) eqn:P0; destruct g as [gi|], p as [pi|];
          inv_opt H; inv_opt G; fin.
      * destruct (incat cats1 (e_spec e)) eqn:I0, (pipek (e_spec e)) eqn:P0,
                 (incat cats1 sp) eqn:I1, (pipek sp) eqn:P1; destruct g as [gi|], p as [pi|];
          inv_opt H; inv_opt G; fin.
  - destruct (incat cats1 (e_spec e)) eqn:I0, (pipek (e_spec e)) eqn:P0; destruct g as [gi|], p as [pi|];
      inv_opt H; inv_opt G; fin.
  - destruct (incat cats1 sp) eqn:I0, (pipek sp) eqn:P0; destruct g as [gi|], p as [pi|];
      inv_opt H; inv_opt G; fin.
  - destruct g as [gi|], p as [pi|]; inv_opt H; inv_opt G; fin.
Qed.

Lemma live_inv c : inv c -> forall w, w = 0 \/ w = 1 -> live w c = fl (cats_of w) (c_reg c).
Proof.
  intros (_ & _ & Hs & Hg & Hp) w [-> | ->]; unfold live; cbn [N.eqb cats_of].
  - exact Hs.
  - unfold flg, flp, fl in *. destruct (c_reg c) as [e|].
    + destruct (wfilter cats1 e), (is_pipe e); cbn [andb negb] in *;
        destruct (c_pipe c) as [pi|], (c_gate c) as [gi|]; cbn [option_map] in *; congruence.
    + destruct (c_pipe c) as [pi|], (c_gate c) as [gi|]; cbn [option_map] in *; congruence.
Qed.

Lemma inv_cell0 : inv cell0.
Proof. repeat split. Qed.

(** one snapshot, ideal model, one name *)
Lemma cf_ideal pan t tcf n cfgn c : inv c ->
  inv (fst (cell_step_cf ideal pan t tcf n cfgn c)) /\
  c_reg (fst (cell_step_cf ideal pan t tcf n cfgn c)) = snd (spec_calls t n (c_reg c) cfgn) /\
  forall w, w = 0 \/ w = 1 ->
    ccalls w (snd (cell_step_cf ideal pan t tcf n cfgn c)) =
    map (pair t) (fst (spec_calls t n (fl (cats_of w) (c_reg c)) (filt w cfgn))).
Proof.
  intros (H0 & H1 & Hs & Hg & Hp).
  unfold cell_step_cf. cbn [fst snd c_reg c_w0 c_w1 c_sup c_gate c_pipe].
  rewrite H0, H1.
  destruct (sup_ideal pan t n (c_reg c) cfgn (c_sup c) Hs) as (S1 & S2 & S3).
  destruct (tc_ideal pan t n (c_reg c) cfgn (c_gate c) (c_pipe c) Hg Hp) as (T1 & T2 & T3 & T4).
  cbv zeta in S1, S2, S3, T1, T2, T3, T4.
  split; [|split].
  - unfold inv. cbn [c_reg c_w0 c_w1 c_sup c_gate c_pipe].
    rewrite !watch_ents. repeat split; assumption.
  - apply diff_reg.
  - intros w [-> | ->]; rewrite filt_filtc; cbn [cats_of N.eqb];
      destruct tcf; rewrite ccalls_app, ?S2, ?S3, ?T3, ?T4, ?app_nil_r; reflexivity.
Qed.

Definition cfg_of_step (x : bool * bool * option spec) : option spec := snd x.

Lemma cell_exec_ideal pan n : forall steps t c l, inv c ->
  inv (fst (cell_exec ideal pan t n steps (c, l))) /\
  forall w, w = 0 \/ w = 1 ->
    ccalls w (snd (cell_exec ideal pan t n steps (c, l))) =
      ccalls w l ++ fst (spec_log t n (fl (cats_of w) (c_reg c)) (map (fun x => filt w (cfg_of_step x)) steps)) /\
    fl (cats_of w) (c_reg (fst (cell_exec ideal pan t n steps (c, l)))) =
      snd (spec_log t n (fl (cats_of w) (c_reg c)) (map (fun x => filt w (cfg_of_step x)) steps)).
Proof.
  induction steps as [|[[w1f tcf] cfgn] r IH]; intros t c l Hi.
  - cbn. split; [exact Hi|]. intros w _. rewrite app_nil_r. split; reflexivity.
  - cbn [cell_exec map fst snd cfg_of_step spec_log].
    rewrite cell_step_closed.
    destruct (cf_ideal pan t tcf n cfgn c Hi) as (I1 & I2 & I3).
    destruct (cell_step_cf ideal pan t tcf n cfgn c) as [c' l'] eqn:Ec. cbn [fst snd] in *.
    destruct (IH (t + 1) c' (l ++ l') I1) as [J1 J2].
    split; [exact J1|]. intros w Hw.
    destruct (J2 w Hw) as [K1 K2]. specialize (I3 w Hw).
    pose proof (auto_state (cats_of w) t n (c_reg c) cfgn) as A.
    rewrite <- I2, <- filt_filtc in A.
    destruct (spec_calls t n (fl (cats_of w) (c_reg c)) (filt w cfgn)) as [cs o'] eqn:Es.
    cbn [fst snd] in *. rewrite A in K1, K2.
    destruct (spec_log (t + 1) n o' (map (fun x => filt w (cfg_of_step x)) r)) as [lg fin] eqn:El.
    cbn [fst snd] in *. rewrite K1, K2, ccalls_app, I3, app_assoc. split; reflexivity.
Qed.
