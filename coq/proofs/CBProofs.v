(** C08: basic facts about the contract automaton [spec]. *)
From EG.lib Require Import Base.
From EG.model Require Import CB.
From Coq Require Import ZifyBool.
Open Scope Z_scope.

Lemma closed_passes : forall pol now s,
  s_state s = Closed -> sp_acquire pol now s = (true, s).
Proof. intros pol now s H. unfold sp_acquire. rewrite H. reflexivity. Qed.

Lemma stale_ignored_local : forall pol now id r s,
  id <> s_id s -> sp_record pol now id r s = (false, s).
Proof.
  intros pol now id r s H. unfold sp_record.
  destruct (id =? s_id s) eqn:E; [lia | reflexivity].
Qed.
