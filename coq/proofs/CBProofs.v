(** C08: the clauses of the contract, proved on the automaton [spec] for every state /
    every history, and soundness of the trace checker [chk_run] used as [prop]. *)
From EG.lib Require Import Base.
From EG.model Require Import CB CBCheck.
From EG.proofs Require Import CBProofsWin CBProofsRef.
From Coq Require Import ZifyBool.
Open Scope Z_scope.

(** ** one-step characterisation of the automaton *)

Lemma closed_passes : forall pol now s,
  s_state s = Closed -> sp_acquire pol now s = (true, s).
Proof. intros pol now s H. unfold sp_acquire. rewrite H. reflexivity. Qed.

Lemma acq_open_wait pol now s :
  s_state s = Open -> now - s_transit s < p_wait pol -> sp_acquire pol now s = (false, s).
Proof.
  intros H Hw. unfold sp_acquire. rewrite H.
  destruct (Z.ltb_spec (now - s_transit s) (p_wait pol)); [reflexivity | lia].
Qed.

(** the state entered when the wait has elapsed; the entering call is the first trial *)
Definition half_open_entry (pol : policy) (now : Z) (s : spec) : spec :=
  {| s_state := HalfOpen; s_id := s_id s + 1; s_transit := now;
     s_trials := if 0 <? p_perm pol then 1 else 0; s_kind := KCount (p_perm pol); s_log := [] |}.

Lemma acq_open_elapsed pol now s :
  s_state s = Open -> p_wait pol <= now - s_transit s ->
  sp_acquire pol now s = ((0 <? p_perm pol), half_open_entry pol now s).
Proof.
  intros H Hw. unfold sp_acquire. rewrite H.
  destruct (Z.ltb_spec (now - s_transit s) (p_wait pol)); [lia|].
  unfold sp_transit. rewrite H. cbn [st_eqb].
  unfold sp_half_acquire, half_open_entry. cbn [s_trials s_transit].
  destruct (0 <? p_perm pol); [reflexivity|].
  destruct (Z.ltb_spec 0 (p_maxwait pol)), (Z.ltb_spec (p_maxwait pol) (now - now)); cbn [andb]; try reflexivity; lia.
Qed.

Lemma acq_half pol now s : s_state s = HalfOpen -> sp_acquire pol now s = sp_half_acquire pol now s.
Proof. intro H. unfold sp_acquire. now rewrite H. Qed.

Lemma acq_half_admit pol now s :
  s_state s = HalfOpen -> s_trials s < p_perm pol ->
  sp_acquire pol now s = (true, sp_set_trials s (s_trials s + 1)).
Proof.
  intros H Ht. rewrite acq_half by exact H. unfold sp_half_acquire.
  destruct (Z.ltb_spec (s_trials s) (p_perm pol)); [reflexivity | lia].
Qed.

Definition reopened (now : Z) (s : spec) : spec :=
  {| s_state := Open; s_id := s_id s + 1; s_transit := now; s_trials := s_trials s;
     s_kind := s_kind s; s_log := s_log s |}.

Lemma acq_half_reopen pol now s :
  s_state s = HalfOpen -> p_perm pol <= s_trials s ->
  0 < p_maxwait pol -> p_maxwait pol < now - s_transit s ->
  sp_acquire pol now s = (false, reopened now s).
Proof.
  intros H Ht H0 H1. rewrite acq_half by exact H. unfold sp_half_acquire.
  destruct (Z.ltb_spec (s_trials s) (p_perm pol)); [lia|].
  destruct (Z.ltb_spec 0 (p_maxwait pol)); [|lia].
  destruct (Z.ltb_spec (p_maxwait pol) (now - s_transit s)); [|lia].
  cbn [andb]. unfold sp_transit. rewrite H. reflexivity.
Qed.

Lemma acq_half_reject pol now s :
  s_state s = HalfOpen -> p_perm pol <= s_trials s ->
  (p_maxwait pol <= 0 \/ now - s_transit s <= p_maxwait pol) ->
  sp_acquire pol now s = (false, s).
Proof.
  intros H Ht H0. rewrite acq_half by exact H. unfold sp_half_acquire.
  destruct (Z.ltb_spec (s_trials s) (p_perm pol)); [lia|].
  destruct (Z.ltb_spec 0 (p_maxwait pol)), (Z.ltb_spec (p_maxwait pol) (now - s_transit s));
    cbn [andb]; try reflexivity; lia.
Qed.

Lemma stale_ignored_local : forall pol now id r s,
  id <> s_id s -> sp_record pol now id r s = (false, s).
Proof.
  intros pol now id r s H. unfold sp_record.
  destruct (Z.eqb_spec id (s_id s)); [lia | reflexivity].
Qed.

Lemma rec_zero_size pol now r s :
  kind_size (s_kind s) <= 0 -> sp_record pol now (s_id s) r s = (true, s).
Proof.
  intro H. unfold sp_record. rewrite Z.eqb_refl. cbn [negb].
  destruct (Z.leb_spec (kind_size (s_kind s)) 0); [reflexivity | lia].
Qed.

Definition opened (now : Z) (s : spec) (log' : list (Z * res)) : spec :=
  {| s_state := Open; s_id := s_id s + 1; s_transit := now; s_trials := s_trials s;
     s_kind := s_kind s; s_log := log' |}.

Definition recovered (pol : policy) (now : Z) (s : spec) : spec :=
  {| s_state := Closed; s_id := s_id s + 1; s_transit := now; s_trials := s_trials s;
     s_kind := pol_kind pol; s_log := [] |}.

(** recording a result with the current id, window of positive size *)
Lemma rec_current pol now r s :
  0 < kind_size (s_kind s) ->
  let log' := (sec_of now, r) :: s_log s in
  let v := view (s_kind s) (sec_of now) log' in
  sp_record pol now (s_id s) r s =
  (false,
   if Z.of_nat (List.length v) <? min_calls pol (s_state s) then sp_set_log s log'
   else match s_state s with
        | Open => sp_set_log s log'
        | Closed => if trips pol v then opened now s log' else sp_set_log s log'
        | HalfOpen => if trips pol v then opened now s log' else recovered pol now s
        end).
Proof.
  intro H. cbv zeta. unfold sp_record. rewrite Z.eqb_refl. cbn [negb].
  destruct (Z.leb_spec (kind_size (s_kind s)) 0); [lia|].
  destruct (_ <? _); [reflexivity|].
  unfold sp_transit, opened, recovered. cbn [s_state sp_set_log s_id s_trials s_kind s_log].
  destruct (trips pol _), (s_state s); reflexivity.
Qed.

(** ** reachable states are well formed: the window kind is determined by the state *)
Definition sp_wf (pol : policy) (s : spec) : Prop :=
  match s_state s with
  | Closed => s_kind s = pol_kind pol
  | HalfOpen => s_kind s = KCount (p_perm pol)
  | Open => True
  end.

Lemma sp_wf_transit pol now target s : sp_wf pol s -> sp_wf pol (sp_transit pol now target s).
Proof.
  intro H. unfold sp_transit. destruct (st_eqb target (s_state s)); [exact H|].
  unfold sp_wf. cbn [s_state s_kind]. destruct target; auto.
Qed.

Lemma sp_wf_half_acquire pol now s : sp_wf pol s -> sp_wf pol (snd (sp_half_acquire pol now s)).
Proof.
  intro H. unfold sp_half_acquire. destruct (_ <? _); [exact H|].
  destruct (_ && _); cbn [snd]; [now apply sp_wf_transit | exact H].
Qed.

Lemma sp_wf_step pol o s : sp_wf pol s -> sp_wf pol (snd (sp_step pol o s)).
Proof.
  intro H. destruct o as [now | now id err dur]; cbn [sp_step].
  - destruct (sp_acquire pol now s) as [b s'] eqn:E. cbn [snd].
    replace s' with (snd (sp_acquire pol now s)) by now rewrite E.
    unfold sp_acquire. destruct (s_state s) eqn:Es; cbn [snd]; auto.
    + now apply sp_wf_half_acquire.
    + destruct (_ <? _); cbn [snd]; auto. apply sp_wf_half_acquire. now apply sp_wf_transit.
  - destruct (sp_record pol now id (classify pol err dur) s) as [b s'] eqn:E. cbn [snd].
    replace s' with (snd (sp_record pol now id (classify pol err dur) s)) by now rewrite E.
    unfold sp_record. destruct (negb _); cbn [snd]; auto.
    destruct (_ <=? 0); cbn [snd]; auto.
    assert (W : sp_wf pol (sp_set_log s ((sec_of now, classify pol err dur) :: s_log s))) by exact H.
    destruct (_ <? _); cbn [snd]; auto.
    destruct (trips pol _); cbn [snd]; [now apply sp_wf_transit|].
    destruct (s_state s) eqn:Es; cbn [snd]; auto. now apply sp_wf_transit.
Qed.

Lemma sp_wf_new pol t0 : sp_wf pol (sp_new pol t0).
Proof. reflexivity. Qed.

Lemma sp_wf_final pol : forall ops s, sp_wf pol s -> sp_wf pol (sp_final pol s ops).
Proof. induction ops as [|o t IH]; intros s H; cbn [sp_final]; auto using sp_wf_step. Qed.

(** ** clause: after a record in CLOSED, OPEN iff enough calls and a rate at/above threshold *)
Lemma opens_at_threshold pol now r s :
  sp_wf pol s -> s_state s = Closed -> 0 < p_size pol ->
  let log' := (sec_of now, r) :: s_log s in
  let v := view (pol_kind pol) (sec_of now) log' in
  let n := Z.of_nat (List.length v) in
  let s' := snd (sp_record pol now (s_id s) r s) in
  fst (sp_record pol now (s_id s) r s) = false /\
  (s_state s' = Open <->
     p_min pol <= n /\ (p_fthr pol <= 100 * cnt is_fail v / n \/ p_sthr pol <= 100 * cnt is_slow v / n)) /\
  (s_state s' = Open -> s_id s' = s_id s + 1 /\ s_transit s' = now) /\
  (s_state s' <> Open -> s' = sp_set_log s log').
Proof.
  intros W Hc Hs. cbv zeta. unfold sp_wf in W. rewrite Hc in W.
  rewrite rec_current by (rewrite W; unfold pol_kind; destruct (p_time pol); exact Hs).
  rewrite W, Hc. cbn [fst snd min_calls].
  set (v := view (pol_kind pol) (sec_of now) ((sec_of now, r) :: s_log s)).
  destruct (Z.ltb_spec (Z.of_nat (List.length v)) (p_min pol)) as [Hlt | Hge].
  - cbn [s_state sp_set_log]. rewrite Hc. repeat split; try congruence. intros [? _]. lia.
  - unfold trips, srate.
    destruct (Z.leb_spec (p_fthr pol) (100 * cnt is_fail v / Z.of_nat (List.length v))) as [F | F];
    destruct (Z.leb_spec (p_sthr pol) (100 * cnt is_slow v / Z.of_nat (List.length v))) as [S | S];
    cbn [orb opened s_state s_id s_transit sp_set_log]; try rewrite Hc;
    repeat split; try congruence; try tauto; try lia.
Qed.

(** ** clause: OPEN short-circuits every call until the wait has elapsed *)
Lemma rec_in_open pol now id r s :
  s_state s = Open ->
  let s' := snd (sp_record pol now id r s) in
  s_state s' = Open /\ s_id s' = s_id s /\ s_transit s' = s_transit s.
Proof.
  intro H. cbv zeta. destruct (Z.eq_dec id (s_id s)) as [-> | N].
  - destruct (Z.le_gt_cases (kind_size (s_kind s)) 0) as [K | K].
    + rewrite rec_zero_size by exact K. auto.
    + rewrite rec_current by lia. rewrite H. cbn [snd]. destruct (_ <? _); auto.
  - rewrite stale_ignored_local by exact N. auto.
Qed.

Definition is_acq (o : op) : bool := match o with OAcq _ => true | _ => false end.

Lemma open_short_circuits pol : forall ops s,
  s_state s = Open -> (forall o, In o ops -> op_now o - s_transit s < p_wait pol) ->
  Forall2 (fun o ob => snd (fst ob) = Open /\ snd ob = s_id s /\ (is_acq o = true -> fst (fst ob) = false))
          ops (sp_run pol s ops) /\
  s_state (sp_final pol s ops) = Open /\ s_id (sp_final pol s ops) = s_id s /\
  s_transit (sp_final pol s ops) = s_transit s.
Proof.
  induction ops as [|o t IH]; intros s Ho Hw.
  - cbn. auto.
  - cbn [sp_run sp_final].
    assert (Hw' : op_now o - s_transit s < p_wait pol) by (apply Hw; now left).
    destruct o as [now | now id err dur]; cbn [sp_step op_now] in *.
    + rewrite acq_open_wait by assumption. cbn [snd].
      destruct (IH s Ho) as (F & G). { intros o Hin. apply Hw. now right. }
      split; [|exact G]. constructor; [|exact F]. cbn [fst snd]. auto.
    + destruct (rec_in_open pol now id (classify pol err dur) s Ho) as (R1 & R2 & R3).
      destruct (sp_record pol now id (classify pol err dur) s) as [b s'] eqn:E. cbn [snd] in *.
      destruct (IH s' R1) as (F & G1 & G2 & G3).
      { intros o Hin. rewrite R3. apply Hw. now right. }
      split; [|rewrite G2, G3; auto].
      constructor; [cbn [fst snd is_acq]; intuition congruence|].
      rewrite R2 in F. exact F.
Qed.

(** ** clause: in a half-open epoch exactly the first [permitted] acquisitions are admitted *)
Fixpoint epoch_admits (pol : policy) (id : Z) (s : spec) (ops : list op) : list bool :=
  match ops with
  | [] => []
  | o :: t =>
      if s_id s =? id then
        let '(ob, s') := sp_step pol o s in
        match o with
        | OAcq _ => fst (fst ob) :: epoch_admits pol id s' t
        | _ => epoch_admits pol id s' t
        end
      else []
  end.

Lemma epoch_admits_over pol id s ops : s_id s <> id -> epoch_admits pol id s ops = [].
Proof. intro H. destruct ops; cbn [epoch_admits]; [reflexivity|]. destruct (Z.eqb_spec (s_id s) id); [lia | reflexivity]. Qed.

Lemma rec_in_half pol now id r s :
  s_state s = HalfOpen ->
  let s' := snd (sp_record pol now id r s) in
  (s_state s' = HalfOpen /\ s_id s' = s_id s /\ s_trials s' = s_trials s) \/ s_id s' = s_id s + 1.
Proof.
  intro H. cbv zeta. destruct (Z.eq_dec id (s_id s)) as [-> | N].
  - destruct (Z.le_gt_cases (kind_size (s_kind s)) 0) as [K | K].
    + rewrite rec_zero_size by exact K. auto.
    + rewrite rec_current by lia. rewrite H. cbn [snd]. destruct (_ <? _); [left; auto|].
      destruct (trips pol _); right; reflexivity.
  - rewrite stale_ignored_local by exact N. auto.
Qed.

Lemma half_open_admits pol : forall ops s i b,
  s_state s = HalfOpen ->
  nth_error (epoch_admits pol (s_id s) s ops) i = Some b ->
  b = (s_trials s + Z.of_nat i <? p_perm pol).
Proof.
  induction ops as [|o t IH]; intros s i b Hs Hn.
  - destruct i; discriminate.
  - cbn [epoch_admits] in Hn. rewrite Z.eqb_refl in Hn.
    destruct o as [now | now id err dur]; cbn [sp_step] in Hn.
    + destruct (Z.lt_ge_cases (s_trials s) (p_perm pol)) as [Hlt | Hge].
      * rewrite acq_half_admit in Hn by assumption. cbn [fst] in Hn.
        destruct i as [|i]; cbn [nth_error] in Hn.
        -- injection Hn as <-. lia.
        -- apply (IH (sp_set_trials s (s_trials s + 1))) in Hn; [|exact Hs].
           cbn [s_trials sp_set_trials] in Hn. subst b. lia.
      * destruct (Z.lt_ge_cases 0 (p_maxwait pol)) as [M0 | M0];
        [destruct (Z.lt_ge_cases (p_maxwait pol) (now - s_transit s)) as [M1 | M1]|].
        -- rewrite acq_half_reopen in Hn by assumption. cbn [fst] in Hn.
           rewrite epoch_admits_over in Hn by (cbn; lia).
           destruct i as [|[|i]]; cbn [nth_error] in Hn; try discriminate. injection Hn as <-. lia.
        -- rewrite acq_half_reject in Hn by (auto; lia). cbn [fst] in Hn.
           destruct i as [|i]; cbn [nth_error] in Hn; [injection Hn as <-; lia|].
           apply (IH s) in Hn; [|exact Hs]. subst b. lia.
        -- rewrite acq_half_reject in Hn by (auto; lia). cbn [fst] in Hn.
           destruct i as [|i]; cbn [nth_error] in Hn; [injection Hn as <-; lia|].
           apply (IH s) in Hn; [|exact Hs]. subst b. lia.
    + pose proof (rec_in_half pol now id (classify pol err dur) s Hs) as R.
      destruct (sp_record pol now id (classify pol err dur) s) as [f s'] eqn:E. cbn [snd] in R.
      destruct R as [(R1 & R2 & R3) | R].
      * rewrite <- R2 in Hn. apply (IH s') in Hn; [|exact R1]. rewrite R3 in Hn. exact Hn.
      * rewrite epoch_admits_over in Hn by lia. destruct i; discriminate.
Qed.

(** ** clause: the trials' recorded results close the breaker or reopen it *)
Lemma trials_decide pol now r s :
  sp_wf pol s -> s_state s = HalfOpen -> 0 < p_perm pol ->
  let log' := (sec_of now, r) :: s_log s in
  let v := view (KCount (p_perm pol)) (sec_of now) log' in
  let n := Z.of_nat (List.length v) in
  let tripped := p_fthr pol <= 100 * cnt is_fail v / n \/ p_sthr pol <= 100 * cnt is_slow v / n in
  let s' := snd (sp_record pol now (s_id s) r s) in
  fst (sp_record pol now (s_id s) r s) = false /\
  (n < Z.min (p_min pol) (p_perm pol) -> s' = sp_set_log s log') /\
  (Z.min (p_min pol) (p_perm pol) <= n -> tripped -> s' = opened now s log') /\
  (Z.min (p_min pol) (p_perm pol) <= n -> ~ tripped -> s' = recovered pol now s).
Proof.
  intros W Hh Hp. cbv zeta. unfold sp_wf in W. rewrite Hh in W.
  rewrite rec_current by (rewrite W; exact Hp).
  rewrite W, Hh. cbn [fst snd min_calls].
  set (v := view (KCount (p_perm pol)) (sec_of now) ((sec_of now, r) :: s_log s)).
  split; [reflexivity|].
  destruct (Z.ltb_spec (Z.of_nat (List.length v)) (Z.min (p_min pol) (p_perm pol))) as [Hlt | Hge].
  - repeat split; auto; lia.
  - unfold trips, srate.
    destruct (Z.leb_spec (p_fthr pol) (100 * cnt is_fail v / Z.of_nat (List.length v))) as [F | F];
    destruct (Z.leb_spec (p_sthr pol) (100 * cnt is_slow v / Z.of_nat (List.length v))) as [S | S];
    cbn [orb]; repeat split; auto; try lia; try tauto.
Qed.

(** ** clause: maxWaitDurationInHalfOpenState reopens a stalled half-open breaker *)
Lemma max_wait_reopens pol now s :
  s_state s = HalfOpen -> p_perm pol <= s_trials s ->
  (0 < p_maxwait pol -> p_maxwait pol < now - s_transit s ->
     sp_acquire pol now s = (false, reopened now s)) /\
  (p_maxwait pol <= 0 \/ now - s_transit s <= p_maxwait pol ->
     sp_acquire pol now s = (false, s)).
Proof.
  intros H Ht. split; intros.
  - now apply acq_half_reopen.
  - now apply acq_half_reject.
Qed.

(** ** clause: results of calls admitted in an earlier state are ignored *)
Lemma transit_cases pol now target s :
  sp_transit pol now target s = s \/
  (s_id (sp_transit pol now target s) = s_id s + 1 /\ s_state (sp_transit pol now target s) = target /\
   target <> s_state s /\ s_transit (sp_transit pol now target s) = now).
Proof.
  unfold sp_transit. destruct (st_eqb target (s_state s)) eqn:E; [left; reflexivity|].
  right. cbn [s_id s_state s_transit]. repeat split. intro C. subst target.
  destruct (s_state s); discriminate.
Qed.

Definition unchanged (s s' : spec) : Prop :=
  s_id s' = s_id s /\ s_state s' = s_state s /\ s_transit s' = s_transit s.
Definition transited (now : Z) (s s' : spec) : Prop :=
  s_id s' = s_id s + 1 /\ s_state s' <> s_state s /\ s_transit s' = now.

Lemma step_id pol o s :
  unchanged s (snd (sp_step pol o s)) \/ transited (op_now o) s (snd (sp_step pol o s)).
Proof.
  unfold unchanged, transited.
  destruct o as [now | now id err dur]; cbn [sp_step op_now].
  - destruct (s_state s) eqn:Es.
    + rewrite closed_passes by exact Es. cbn. auto.
    + destruct (Z.lt_ge_cases (s_trials s) (p_perm pol)) as [Hlt | Hge].
      * rewrite acq_half_admit by assumption. cbn. auto.
      * destruct (Z.lt_ge_cases 0 (p_maxwait pol)) as [M0 | M0];
        [destruct (Z.lt_ge_cases (p_maxwait pol) (now - s_transit s)) as [M1 | M1]|].
        -- rewrite acq_half_reopen by assumption. cbn. right. try rewrite Es. repeat split; congruence.
        -- rewrite acq_half_reject by (auto; lia). cbn. auto.
        -- rewrite acq_half_reject by (auto; lia). cbn. auto.
    + destruct (Z.lt_ge_cases (now - s_transit s) (p_wait pol)) as [Hw | Hw].
      * rewrite acq_open_wait by assumption. cbn. auto.
      * rewrite acq_open_elapsed by assumption. cbn. right. try rewrite Es. repeat split; congruence.
  - destruct (Z.eq_dec id (s_id s)) as [-> | N]; [|rewrite stale_ignored_local by exact N; cbn; auto].
    destruct (Z.le_gt_cases (kind_size (s_kind s)) 0) as [K | K]; [rewrite rec_zero_size by exact K; cbn; auto|].
    rewrite rec_current by lia. cbn [snd]. destruct (_ <? _); [cbn; auto|].
    destruct (s_state s) eqn:Es; [destruct (trips pol _) | destruct (trips pol _) |]; cbn; auto;
      right; repeat split; congruence.
Qed.

Lemma sp_id_mono pol : forall ops s, s_id s <= s_id (sp_final pol s ops).
Proof.
  induction ops as [|o t IH]; intro s; cbn [sp_final]; [lia|].
  specialize (IH (snd (sp_step pol o s))).
  destruct (step_id pol o s) as [(U & _) | (T & _)]; lia.
Qed.

(** an unchanged id means that no transition happened at all in between *)
Lemma same_id_no_transition pol : forall ops s,
  s_id (sp_final pol s ops) = s_id s ->
  Forall (fun ob => snd (fst ob) = s_state s /\ snd ob = s_id s) (sp_run pol s ops) /\
  s_state (sp_final pol s ops) = s_state s /\ s_transit (sp_final pol s ops) = s_transit s.
Proof.
  induction ops as [|o t IH]; intros s H; cbn [sp_final sp_run] in *; [auto|].
  pose proof (sp_id_mono pol t (snd (sp_step pol o s))) as M.
  destruct (step_id pol o s) as [(U1 & U2 & U3) | (T1 & _)]; [|lia].
  assert (E : snd (fst (fst (sp_step pol o s))) = s_state (snd (sp_step pol o s)) /\
              snd (fst (sp_step pol o s)) = s_id (snd (sp_step pol o s))).
  { destruct o as [now | now id err dur]; cbn [sp_step].
    - destruct (sp_acquire pol now s); auto.
    - destruct (sp_record pol now id (classify pol err dur) s); auto. }
  destruct (sp_step pol o s) as [ob s'] eqn:Est. cbn [fst snd] in *.
  destruct (IH s') as (F & G1 & G2); [lia|].
  rewrite U1, U2 in F. rewrite G1, G2, U2, U3. split; [|auto].
  constructor; [|exact F]. destruct E as [E1 E2]. rewrite E1, E2. auto.
Qed.

Lemma stale_results_ignored pol : forall ops s now r,
  (exists ob, In ob (sp_run pol s ops) /\ (snd (fst ob) <> s_state s \/ snd ob <> s_id s)) ->
  sp_record pol now (s_id s) r (sp_final pol s ops) = (false, sp_final pol s ops).
Proof.
  intros ops s now r (ob & Hin & Hne).
  apply stale_ignored_local. intro C. symmetry in C.
  destruct (same_id_no_transition pol ops s C) as (F & _).
  rewrite Forall_forall in F. specialize (F ob Hin). tauto.
Qed.

(** ** the wrapper and the pool mapping *)
Lemma wrapper_one_record : forall h,
  wrap_records h = [match h with HOk => false | _ => true end].
Proof. intros []; reflexivity. Qed.

Lemma wrapper_call_shape pol now h c :
  let '(ok, c1) := cb_acquire pol now c in
  wrap_call pol now h c =
  if ok then (wrap_result h,
              snd (cb_record pol now (c_id c1) (classify pol (match h with HOk => false | _ => true end) 0) c1))
  else (WShort, c1).
Proof.
  unfold wrap_call. destruct (cb_acquire pol now c) as [ok c1].
  destruct ok; [|reflexivity]. rewrite wrapper_one_record. reflexivity.
Qed.

Lemma short_circuit_503 pol now h c b :
  fst (cb_acquire pol now c) = false ->
  fst (wrap_call pol now h c) = WShort /\
  snd (wrap_call pol now h c) = snd (cb_acquire pol now c) /\
  pool_result (fst (wrap_call pol now h c)) b = (503, "shortCircuited"%string) /\
  wrap_handler_runs (fst (wrap_call pol now h c)) = 0.
Proof.
  intro H. unfold wrap_call. destruct (cb_acquire pol now c) as [ok c1]. cbn [fst] in H. subst ok.
  cbn. auto.
Qed.

Lemma admitted_not_short pol now h c :
  fst (cb_acquire pol now c) = true ->
  fst (wrap_call pol now h c) = wrap_result h /\ wrap_handler_runs (fst (wrap_call pol now h c)) = 1.
Proof.
  intro H. unfold wrap_call. destruct (cb_acquire pol now c) as [ok c1]. cbn [fst] in H. subst ok.
  cbn [fst]. destruct h; auto.
Qed.

(** for every request shape (stream or buffered body, retry configured or not) a
    short-circuited request contacts no server, an admitted one at least one *)
Lemma short_circuit_every_shape pol now h c retry stream b :
  (fst (cb_acquire pol now c) = false -> pool_contacts retry stream (fst (wrap_call pol now h c)) b = 0) /\
  (fst (cb_acquire pol now c) = true -> 1 <= pool_contacts retry stream (fst (wrap_call pol now h c)) b).
Proof.
  unfold wrap_call. destruct (cb_acquire pol now c) as [ok c1]. cbn [fst].
  split; intro E; subst ok; cbn [fst]; [reflexivity|].
  unfold pool_contacts.
  destruct h; cbn [wrap_result]; destruct b; try lia;
    destruct (Z.ltb_spec 0 retry), stream; cbn [andb negb]; lia.
Qed.

(** whatever the state of the call's context (live, cancelled before or during the call,
    deadline exceeded): an admitted call records exactly one result - a failure iff the
    handler returned an error or panicked - and a rejected call records none *)
Lemma wrapper_context_independent pol now cx h c :
  wrap_call_ctx pol now cx h c = wrap_call pol now h c /\
  wrap_records h = [match h with HOk => false | _ => true end] /\
  (fst (cb_acquire pol now c) = true ->
     snd (wrap_call_ctx pol now cx h c) =
     snd (cb_record pol now (c_id (snd (cb_acquire pol now c)))
            (classify pol (match h with HOk => false | _ => true end) 0) (snd (cb_acquire pol now c)))) /\
  (fst (cb_acquire pol now c) = false ->
     wrap_call_ctx pol now cx h c = (WShort, snd (cb_acquire pol now c))).
Proof.
  split; [reflexivity|]. split; [apply wrapper_one_record|].
  unfold wrap_call_ctx. pose proof (wrapper_call_shape pol now h c) as S.
  destruct (cb_acquire pol now c) as [ok c1]. cbn [fst snd]. rewrite S.
  split; intro E; subst ok; reflexivity.
Qed.

(** several breakers created from one policy are independent: what instance [k] shows in a
    joint run is what it shows when run alone on its own calls *)
Lemma instances_independent pol k : forall idx calls f,
  pick k idx (wrapm_run pol f idx calls) = wrap_run pol (f k) (pick k idx calls).
Proof.
  induction idx as [|i it IH]; intros calls f; [reflexivity|].
  destruct calls as [|[[now h] cx] t]; cbn [wrapm_run pick].
  - destruct (i =? k); reflexivity.
  - destruct (wrap_call_ctx pol now cx h (f i)) as [r c'] eqn:E. cbn [pick].
    destruct (Z.eqb_spec i k) as [-> | N].
    + cbn [wrap_run]. rewrite E. f_equal. rewrite IH. unfold upd. now rewrite Z.eqb_refl.
    + rewrite IH. unfold upd. destruct (Z.eqb_spec k i); [lia | reflexivity].
Qed.
