(** C18, part 3: the property lemmas in the form used by props/C18.v. *)
From EG.lib Require Import Base.
From EG.model Require Import Mutex.
From EG.proofs Require Import MutexProofs MutexProofsApi.
Open Scope Z_scope.

Lemma NoDup_map_inj {A B} (f : A -> B) (l : list A) x y :
  NoDup (map f l) -> In x l -> In y l -> f x = f y -> x = y.
Proof.
  induction l as [|a t IH]; cbn; intros Hn Hx Hy E; [contradiction|].
  inversion Hn as [|? ? Hnin Hn']; subst.
  destruct Hx as [<-|Hx]; destruct Hy as [<-|Hy]; auto.
  - exfalso. apply Hnin. rewrite E. apply in_map. assumption.
  - exfalso. apply Hnin. rewrite <- E. apply in_map. assumption.
Qed.

Section Thm.
Variable cfg : tid -> thr.
Variable st0 : store.

(** *** once all attempts have ended the lock is free and can be taken *)
Lemma quiescent_lock_is_free sched s :
  run ideal cfg (init st0) sched = Some s ->
  (forall t, quiescent (pcs s t) = true) ->
  queue s = [] /\ (forall m h, local s m h = None) /\
  (forall t, pcs s t = PIdle -> is_get (t_req (cfg t)) = false ->
     exists s', run ideal cfg s [(t, LLocalLock); (t, LPut); (t, LAcquire)] = Some s' /\
                in_cs (pcs s' t) = true).
Proof.
  intros R Q. destruct (quiescent_free cfg st0 sched s R Q) as (A & B).
  repeat split; auto. intros t Ep Eg. apply free_acquirable; auto.
Qed.

(** *** versions *)
Lemma versions_gap_free sched s :
  run ideal cfg (init st0) sched = Some s ->
  let oks := filter is_ok (log s) in
  (* the successful mutations, in the order they were decided, got v0+1, v0+2, ... *)
  map ver_of oks = zseq (snd st0 + 1) (List.length oks) /\
  NoDup (map ver_of oks) /\
  (* the log is exactly the decided results of the mutating threads, each thread at most once *)
  NoDup (map e_tid (log s)) /\
  (forall t r, is_mut (t_req (cfg t)) = true ->
     (fin_result (pcs s t) = Some r <-> In (t, t_req (cfg t), r) (log s))) /\
  (* two different requests never return the same version *)
  (forall t1 t2 c1 c2 v1 v2,
     is_mut (t_req (cfg t1)) = true -> is_mut (t_req (cfg t2)) = true ->
     fin_result (pcs s t1) = Some (ROk c1 v1) -> fin_result (pcs s t2) = Some (ROk c2 v2) ->
     t1 <> t2 -> v1 <> v2) /\
  (* the stored version counts the successes *)
  ((forall t, mid_write (pcs s t) = false) -> ver s = snd st0 + Z.of_nat (List.length oks)).
Proof.
  intros R oks. pose proof (invS_reach cfg st0 _ _ R) as J.
  destruct (legal_versions _ _ (j_legal _ _ _ J)) as (Hv & Hlen). fold oks in Hv, Hlen.
  assert (Hnd : NoDup (map ver_of oks)) by (rewrite Hv; apply zseq_NoDup).
  assert (Hiff : forall t r, is_mut (t_req (cfg t)) = true ->
     (fin_result (pcs s t) = Some r <-> In (t, t_req (cfg t), r) (log s))).
  { intros t r Hm. split; intros H.
    - apply (j_log2 _ _ _ J); assumption.
    - apply (j_log _ _ _ J) in H. apply H. }
  repeat split; auto.
  - apply J.
  - apply Hiff; assumption.
  - apply Hiff; assumption.
  - intros t1 t2 c1 c2 v1 v2 M1 M2 F1 F2 Hne E. subst v2.
    apply Hiff in F1; auto. apply Hiff in F2; auto.
    assert (I1 : In (t1, t_req (cfg t1), ROk c1 v1) oks) by (apply filter_In; split; auto).
    assert (I2 : In (t2, t_req (cfg t2), ROk c2 v1) oks) by (apply filter_In; split; auto).
    pose proof (NoDup_map_inj ver_of oks _ _ Hnd I1 I2 eq_refl) as E. inversion E. contradiction.
  - intros Hm. pose proof (j_base _ _ _ J Hm) as Hb. unfold base in Hb.
    rewrite <- Hlen. rewrite <- Hb. reflexivity.
Qed.

(** *** the store is the sequential replay of the successes in version order *)
Lemma store_is_replay sched s :
  run ideal cfg (init st0) sched = Some s ->
  let oks := filter is_ok (log s) in
  (* every decided result (success, 409/400/404, handler cut short by a failed cluster operation) is
     the one a sequential execution in log order gives *)
  legal st0 (log s) /\
  (* the entries with an effect replay legally on their own; the successes among them carry
     increasing versions in that order *)
  legal st0 (filter has_effect (log s)) /\
  map ver_of oks = zseq (snd st0 + 1) (List.length oks) /\
  (* whenever no handler is between _putObject and the version write, objects and version are the replay
     of the successes (in version order) and of the object writes of the cut-short handlers *)
  ((forall t, mid_write (pcs s t) = false) ->
     (objs s, ver s) = replay st0 (filter has_effect (log s)) /\
     (* no cluster operation failed after an object write: exactly the successful requests *)
     ((forall e, In e (log s) -> e_res e <> RErr true) -> (objs s, ver s) = replay st0 oks)).
Proof.
  intros R oks. pose proof (invS_reach cfg st0 _ _ R) as J.
  pose proof (j_legal _ _ _ J) as L. repeat split.
  - assumption.
  - apply legal_filter_effect. assumption.
  - apply (legal_versions _ _ L).
  - rewrite (j_base _ _ _ J H). unfold base. apply replay_filter_effect. assumption.
  - intros Hne. rewrite (j_base _ _ _ J H). unfold base. unfold oks.
    rewrite <- (filter_effect_ok _ Hne). apply replay_filter_effect. assumption.
Qed.

(** a schedule without fault steps logs no error entries *)
Lemma step_no_fault_log q s t l s' :
  l <> LFault -> step q cfg s t l = Some s' ->
  (forall e, In e (log s) -> forall b, e_res e <> RErr b) ->
  (forall e, In e (log s') -> forall b, e_res e <> RErr b).
Proof.
  intros Hl H Hs.
  destruct (label_eq_dec l LRegrant) as [->|Hnr].
  { unfold step in H.
    assert (E : log s' = log s).
    { destruct (pcs s t); destruct (q_regrant_revokes q); inversion H; reflexivity. }
    rewrite E. exact Hs. }
  unfold step in H.
  destruct l; try congruence; destruct (pcs s t) as [| | |k| r| r| r|] eqn:Ep; try discriminate.
  all: try (unfold cs_step in H; destruct (t_req (cfg t)); try discriminate;
            repeat (destruct k as [|k]; try discriminate)).
  all: repeat match type of H with
  | (if ?c then _ else _) = _ => destruct c eqn:?; try discriminate
  | match ?c with _ => _ end = _ => destruct c eqn:?; try discriminate
  end; inversion H; subst; cbn [log set_pc finish] in *; auto.
  all: intros e Hin bb; apply in_app_iff in Hin; destruct Hin as [Hin|[<-|[]]]; [apply Hs; assumption|cbn; discriminate].
Qed.

Lemma run_no_fault_log q sched : forall s s',
  (forall t, ~ In (t, LFault) sched) -> run q cfg s sched = Some s' ->
  (forall e, In e (log s) -> forall b, e_res e <> RErr b) ->
  (forall e, In e (log s') -> forall b, e_res e <> RErr b).
Proof.
  induction sched as [|[t l] rest IH]; cbn; intros s s' Hn H Hs.
  - inversion H; subst; assumption.
  - destruct (step q cfg s t l) eqn:E; [|discriminate].
    eapply IH; [|eassumption|].
    + intros t' Hin. apply (Hn t'). right. assumption.
    + eapply step_no_fault_log; [|eassumption|assumption].
      intros ->. apply (Hn t). left. reflexivity.
Qed.

(** the property as stated (no failing cluster operation in the schedule): the stored objects and
    version are the replay of the successful requests in version order *)
Lemma store_is_replay_no_fault sched s :
  run ideal cfg (init st0) sched = Some s ->
  (forall t, ~ In (t, LFault) sched) ->
  (forall t, mid_write (pcs s t) = false) ->
  (objs s, ver s) = replay st0 (filter is_ok (log s)).
Proof.
  intros R Hn Hm. destruct (store_is_replay _ _ R) as (_ & _ & _ & H).
  destruct (H Hm) as (_ & H2). apply H2.
  intros e Hin. eapply (run_no_fault_log ideal sched (init st0) s Hn R); [|eassumption].
  cbn. intros ? [].
Qed.

(** in quiescent states in particular *)
Lemma quiescent_not_mid p : quiescent p = true -> mid_write p = false.
Proof. destruct p; cbn; try discriminate; reflexivity. Qed.

(** *** failures modify nothing *)
Definition succ_path (p : pc) : bool :=
  match p with
  | PCs (S _) => true
  | PEnd (ROk _ _) | PUnl (ROk _ _) | PDone (ROk _ _) => true
  | PEnd (RErr _) | PUnl (RErr _) | PDone (RErr _) => true
  | _ => false
  end.

Lemma step_regrant_frame q s t s' :
  step q cfg s t LRegrant = Some s' -> pcs s' = pcs s /\ objs s' = objs s /\ ver s' = ver s.
Proof.
  unfold step. intros H.
  assert (E : Some (if q_regrant_revokes q then
              {| queue := remove_m (t_mem (cfg t)) (queue s); local := local s; pcs := pcs s;
                 reg := reg s; objs := objs s; ver := ver s; log := log s |} else s) = Some s')
    by (destruct (pcs s t); exact H).
  destruct (q_regrant_revokes q); inversion E; subst; auto.
Qed.

Lemma step_succ_path_pres q s t l s' t' :
  step q cfg s t l = Some s' -> succ_path (pcs s t') = true -> succ_path (pcs s' t') = true.
Proof.
  intros H Hs. destruct (label_eq_dec l LRegrant) as [->|Hnr].
  { destruct (step_regrant_frame _ _ _ _ H) as (E & _). rewrite E. assumption. }
  unfold step in H.
  destruct l; try congruence; destruct (pcs s t) as [| | |k| r| r| r|] eqn:Ep; try discriminate;
  try (destruct (Nat.eq_dec t' t) as [->|Hne];
       [rewrite Ep in Hs; try discriminate|]).
  all: try (unfold cs_step in H; destruct (t_req (cfg t)); try discriminate;
            repeat (destruct k as [|k]; try discriminate)).
  all: repeat match type of H with
  | (if ?c then _ else _) = _ => destruct c eqn:?; try discriminate
  | match ?c with _ => _ end = _ => destruct c eqn:?; try discriminate
  end; inversion H; subst; cbn; unfold upd;
    try rewrite Nat.eqb_refl; try (destruct (Nat.eqb_spec t' t); [congruence|]); auto.
  all: try (destruct r; cbn in *; congruence).
Qed.

Lemma run_succ_path_pres q sched : forall s s' t',
  run q cfg s sched = Some s' -> succ_path (pcs s t') = true -> succ_path (pcs s' t') = true.
Proof.
  induction sched as [|[t l] rest IH]; cbn; intros s s' t' H Hs.
  - inversion H; subst; assumption.
  - destruct (step q cfg s t l) eqn:E; [|discriminate].
    eapply IH; [eassumption|]. eapply step_succ_path_pres; eassumption.
Qed.

Lemma step_not_succ_unchanged q s t l s' :
  step q cfg s t l = Some s' -> succ_path (pcs s' t) = false -> objs s' = objs s /\ ver s' = ver s.
Proof.
  intros H Hs. destruct (label_eq_dec l LRegrant) as [->|Hnr].
  { destruct (step_regrant_frame _ _ _ _ H) as (_ & E). exact E. }
  unfold step in H.
  destruct l; try congruence; destruct (pcs s t) as [| | |k| r| r| r|] eqn:Ep; try discriminate.
  all: try (unfold cs_step in H; destruct (t_req (cfg t)); try discriminate;
            repeat (destruct k as [|k]; try discriminate)).
  all: repeat match type of H with
  | (if ?c then _ else _) = _ => destruct c eqn:?; try discriminate
  | match ?c with _ => _ end = _ => destruct c eqn:?; try discriminate
  end; inversion H; subst; cbn in *; auto.
  all: unfold upd in Hs; rewrite Nat.eqb_refl in Hs; discriminate.
Qed.

(** no step of a request that ends with 409/400/404 changes the objects or the version *)
Lemma failures_modify_nothing q pre t l post s0 s1 s2 s3 c :
  run q cfg s0 pre = Some s1 -> step q cfg s1 t l = Some s2 -> run q cfg s2 post = Some s3 ->
  fin_result (pcs s3 t) = Some (RFail c) ->
  objs s2 = objs s1 /\ ver s2 = ver s1.
Proof.
  intros _ Hstep Hpost Hres.
  destruct (succ_path (pcs s2 t)) eqn:E.
  - exfalso. pose proof (run_succ_path_pres _ _ _ _ _ Hpost E) as Hs.
    destruct (pcs s3 t) as [| | |k| r| r| r|]; cbn in Hres; try discriminate;
      inversion Hres; subst; discriminate.
  - eapply step_not_succ_unchanged; eassumption.
Qed.

End Thm.

(** *** the pinned defect: with one process-local lock per HANDLE two threads of one member hold the lock *)
Definition quirk_local_per_handle : quirks := {| q_local_per_handle := true; q_regrant_revokes := false |}.

Definition refute_cfg : tid -> thr := fun t => {| t_mem := O; t_hnd := t; t_req := RNoop; t_to := false |}.
Definition refute_sched : list (tid * label) :=
  [(0, LLocalLock); (0, LPut); (0, LAcquire); (1, LLocalLock); (1, LPut); (1, LAcquire)]%nat.

Lemma refuted_local_per_handle :
  exists cfg sched s,
    run quirk_local_per_handle cfg (init ([], 0)) sched = Some s /\
    in_cs (pcs s 0%nat) = true /\ in_cs (pcs s 1%nat) = true /\
    (* the same configuration and schedule is not executable without the quirk *)
    run ideal cfg (init ([], 0)) sched = None.
Proof.
  exists refute_cfg, refute_sched.
  destruct (run quirk_local_per_handle refute_cfg (init ([], 0)) refute_sched) as [s|] eqn:E.
  - exists s. split; [reflexivity|].
    vm_compute in E. inversion E; subst; clear E. vm_compute. auto.
  - vm_compute in E. discriminate.
Qed.

(** *** why the lease re-grant must leave the lock key in place: if it dropped the key of the
    member (session replaced, old lease revoked) a thread of another member gets in *)
Definition quirk_regrant_revokes : quirks := {| q_local_per_handle := false; q_regrant_revokes := true |}.

Definition regrant_cfg : tid -> thr := fun t => {| t_mem := t; t_hnd := O; t_req := RNoop; t_to := false |}.
Definition regrant_sched : list (tid * label) :=
  [(0, LLocalLock); (0, LPut); (0, LAcquire); (0, LRegrant); (1, LLocalLock); (1, LPut); (1, LAcquire)]%nat.

Lemma refuted_regrant_revokes :
  exists cfg sched s,
    run quirk_regrant_revokes cfg (init ([], 0)) sched = Some s /\
    in_cs (pcs s 0%nat) = true /\ in_cs (pcs s 1%nat) = true /\
    run ideal cfg (init ([], 0)) sched = None.
Proof.
  exists regrant_cfg, regrant_sched.
  destruct (run quirk_regrant_revokes regrant_cfg (init ([], 0)) regrant_sched) as [s|] eqn:E.
  - exists s. split; [reflexivity|].
    vm_compute in E. inversion E; subst; clear E. vm_compute. auto.
  - vm_compute in E. discriminate.
Qed.

(** *** non-vacuity: two members, four requests, interleaved schedule *)
Definition ex_cfg : tid -> thr := fun t =>
  match t with
  | 0%nat => {| t_mem := 0%nat; t_hnd := 0%nat; t_req := RCreate "a" "K1" "x"; t_to := false |}
  | 1%nat => {| t_mem := 1%nat; t_hnd := 0%nat; t_req := RCreate "a" "K1" "y"; t_to := false |}
  | 2%nat => {| t_mem := 0%nat; t_hnd := 0%nat; t_req := RUpdate "a" "K2" "z"; t_to := false |}
  | 3%nat => {| t_mem := 1%nat; t_hnd := 0%nat; t_req := RDelete "a"; t_to := true |}
  | _ => {| t_mem := 2%nat; t_hnd := 0%nat; t_req := RUpdate "a" "K1" "w"; t_to := true |}
  end.

Definition ex_sched : list (tid * label) :=
  [(0, LLocalLock); (1, LLocalLock); (1, LPut); (0, LPut); (4, LLocalLock); (4, LPut);
   (1, LAcquire); (1, LCs); (1, LRegrant); (4, LTimeout); (1, LCs); (1, LCs); (1, LCs); (1, LEtcdUnlock);
   (0, LAcquire); (1, LLocalUnlock); (3, LLocalLock); (0, LCs); (3, LPut); (0, LEtcdUnlock);
   (0, LLocalUnlock); (2, LLocalLock); (2, LPut); (3, LAcquire); (3, LCs); (3, LCs); (3, LCs); (3, LCs);
   (3, LEtcdUnlock); (3, LLocalUnlock); (2, LAcquire); (2, LCs); (2, LEtcdUnlock); (2, LLocalUnlock)]%nat.

Example nonvacuous :
  match run ideal ex_cfg (init ([], 7)) ex_sched with
  | Some s => map e_res (log s) = [ROk 201 8; RFail 409; ROk 200 9; RFail 404] /\
              map e_tid (log s) = [1; 0; 3; 2]%nat /\ objs s = [] /\ ver s = 9 /\ pcs s 4%nat = PFail /\
              queue s = []
  | None => False
  end.
Proof. vm_compute. repeat split; reflexivity. Qed.

(** with a failing cluster operation: thread 0 creates "a" (version 8); thread 2's update is cut short
    after its object write (no version), thread 3's delete is cut short at its first read *)
Definition ex_fault_sched : list (tid * label) :=
  (full_ok 0 4 ++ full_fault 2 2 ++ full_fault 3 0 ++ full_ok 1 1)%nat.

Example nonvacuous_fault :
  match run ideal (fun t => match t with 2%nat => {| t_mem := 0%nat; t_hnd := 0%nat; t_req := RUpdate "a" "K1" "z"; t_to := false |} | _ => ex_cfg t end)
            (init ([], 7)) ex_fault_sched with
  | Some s => map e_res (log s) = [ROk 201 8; RErr true; RErr false; RFail 409] /\
              objs s = [("a"%string, ("K1"%string, "z"%string))] /\ ver s = 8 /\ queue s = []
  | None => False
  end.
Proof. vm_compute. repeat split; reflexivity. Qed.
