(** Soundness of the decidable trace checker [prop_unit] (model/RLCheck.v) for the
    model: every unit-count history of the model passes the checker, so the checker
    cannot raise an alarm on an implementation that behaves like the model. *)
From EG.lib Require Import Base.
From EG.model Require Import RL RLCheck.
From EG.proofs Require Import RLProofs.
From Coq Require Import ZifyBool.
Open Scope Z_scope.

Definition clamp (L x : Z) : Z := Z.min L (Z.max 0 x).

Lemma count_eq_acc k l : forall a, fold_left (fun a x => if x =? k then a + 1 else a) l a
                               = a + fold_left (fun a x => if x =? k then a + 1 else a) l 0.
Proof.
  induction l as [|x t IH]; intros a; cbn [fold_left]; [lia|].
  rewrite IH. rewrite (IH (if x =? k then 0 + 1 else 0)). destruct (x =? k); lia.
Qed.

Lemma count_eq_cons k x l : count_eq k (x :: l) = (if x =? k then 1 else 0) + count_eq k l.
Proof. unfold count_eq. cbn [fold_left]. rewrite count_eq_acc. destruct (x =? k); lia. Qed.

(** checker invariant: for every period k from the state's cycle on, the number of
    releases recorded for k is the number of slots of block k below the next free slot *)
Definition cinv (p : policy) (s : rl) (hist : list Z) : Prop :=
  forall k, cyc s <= k -> count_eq k hist = clamp (pL p) (next_slot p s - k * pL p).

Lemma horizon_full_true p hist c n :
  (forall k, c <= k <= c + Z.of_nat n -> count_eq k hist = pL p) ->
  horizon_full p hist c n = true.
Proof.
  revert c. induction n as [|n IH]; intros c H; cbn [horizon_full].
  - rewrite (H c) by lia. rewrite Z.eqb_refl. reflexivity.
  - rewrite (H c) by lia. rewrite Z.eqb_refl. cbn [andb]. apply IH. intros k Hk. apply H. lia.
Qed.

Lemma checker_sound p : valid p -> forall els s lo hist,
  0 <= lo -> nondecr lo els -> inv p s lo -> cinv p s hist ->
  prop_unit p hist (map (fun el => (el, 1)) els) (map out_code (run p s (map (fun el => (el, 1)) els))) = true.
Proof.
  intros Hv. pose proof Hv as (HP & HL & HT).
  induction els as [|el t IH]; intros s lo hist Hlo Hnd Hinv Hc; cbn [map run prop_unit]; [reflexivity|].
  destruct Hnd as (Hle & Hnd). assert (Hel : 0 <= el) by lia.
  pose proof (inv_mono p s lo el Hv Hle Hinv) as Hinv'.
  destruct (acquire p s el 1) as [s' o] eqn:E. cbn [map out_code].
  rewrite (quot_div el (pP p)) by lia.
  set (cycle := el / pP p) in *.
  destruct Hinv' as (Hi1 & Hi2). fold cycle in Hi1.
  pose proof E as E0. rewrite acquire_spec in E0 by assumption. cbv zeta in E0. fold cycle in E0.
  set (tokens := cur_tokens p s cycle) in *.
  assert (Htok : tokens = Z.max 0 (next_slot p s - cycle * pL p)) by (unfold tokens, cur_tokens, next_slot; lia).
  pose proof (div_bounds (pT p) (pP p) HP) as BT.
  assert (0 <= pT p / pP p) by (apply Z.div_pos; lia).
  destruct (pL p * (pT p / pP p + 1) <=? tokens) eqn:E1.
  - (* rejected *)
    inversion E0; subst s' o; clear E0. cbn [out_code].
    replace (0 =? 1) with false by reflexivity. replace (0 =? 0) with true by reflexivity.
    rewrite (quot_div (pT p) (pP p)) by lia.
    rewrite horizon_full_true.
    + cbn [andb]. apply (IH s el); try assumption. split; assumption.
    + intros k Hk. rewrite Z2Nat.id in Hk by lia. rewrite Hc by lia. unfold clamp. nia.
  - destruct (tokens <? pL p) eqn:E2; inversion E0; subst s' o; clear E0; cbn [out_code].
    + (* immediate *)
      replace (1 =? 1) with true by reflexivity.
      rewrite Z.add_0_r. rewrite (quot_div el (pP p)) by lia. fold cycle.
      assert (Hcnt : count_eq cycle hist = tokens) by (rewrite Hc by lia; unfold clamp; lia).
      rewrite Hcnt. rewrite E2. rewrite Z.eqb_refl.
      replace (0 <=? 0) with true by reflexivity. replace (0 <=? pT p) with true by lia.
      cbn [andb]. apply (IH _ el); try assumption.
      * unfold inv; cbn [cyc tok]. fold cycle. lia.
      * intros k Hk. cbn [cyc] in Hk. rewrite count_eq_cons. rewrite Hc by lia.
        unfold next_slot; cbn [cyc tok]. unfold clamp.
        destruct (cycle =? k) eqn:Ek.
        -- assert (k = cycle) by lia. subst k. unfold next_slot in Htok. lia.
        -- unfold next_slot in Htok. nia.
    + (* waiting *)
      replace (1 =? 1) with true by reflexivity.
      pose proof (wait_bound p s el 1 _ _ Hv Hel E) as (Hw0 & HwT).
      pose proof (release_period p s el _ _ Hv Hel E) as (Hrp & _).
      rewrite (quot_div (el + _) (pP p)) by lia. rewrite Hrp.
      unfold slot_of. fold cycle. fold tokens.
      pose proof (div_bounds tokens (pL p) HL) as B2.
      assert (Hq : (cycle * pL p + tokens) / pL p = cycle + tokens / pL p) by (rewrite Z.div_add_l by lia; reflexivity).
      rewrite Hq. set (q := tokens / pL p) in *.
      assert (1 <= q) by nia.
      assert (Hns : next_slot p s = cycle * pL p + tokens) by lia.
      assert (Hc1 : count_eq cycle hist = pL p) by (rewrite Hc by lia; unfold clamp; nia).
      assert (Hc2 : count_eq (cycle + q) hist = tokens - q * pL p) by (rewrite Hc by lia; unfold clamp; nia).
      rewrite Hc1, Hc2. rewrite Z.ltb_irrefl.
      replace (0 <=? _) with true by lia. replace (_ <=? pT p) with true by lia.
      replace (tokens - q * pL p <? pL p) with true by nia.
      cbn [andb]. apply (IH _ el); try assumption.
      * unfold inv; cbn [cyc tok]. fold cycle. lia.
      * intros k Hk. cbn [cyc] in Hk. rewrite count_eq_cons. rewrite Hc by lia.
        unfold next_slot at 2; cbn [cyc tok]. rewrite Hns. unfold clamp.
        destruct (cycle + q =? k) eqn:Ek.
        -- assert (k = cycle + q) by lia. subst k. nia.
        -- assert (k < cycle + q \/ cycle + q < k) as [Hlt|Hgt] by lia; nia.
Qed.

Theorem model_passes_checker p els :
  valid p -> nondecr 0 els ->
  prop_unit p [] (map (fun el => (el, 1)) els) (map out_code (run p rl0 (map (fun el => (el, 1)) els))) = true.
Proof.
  intros Hv Hnd. pose proof Hv as (HP & HL & HT).
  apply (checker_sound p Hv els rl0 0 []); try assumption; try lia.
  - unfold inv; cbn [cyc tok rl0]; rewrite Z.div_0_l by lia; lia.
  - intros k Hk. cbn [cyc rl0] in Hk. unfold count_eq, next_slot, clamp; cbn [fold_left cyc tok rl0]. nia.
Qed.

(** ** Soundness of the trace checker against the declarative property

    The converse direction: whatever produced the observed trace [obs] for the
    arrivals [ops] (the implementation, not the model), if [prop_unit] accepts it
    then the clauses of the property hold of that trace, stated with explicit
    quantifiers over its positions. *)
Fixpoint releases (p : policy) (ops obs : list (Z * Z)) : list Z :=
  match ops, obs with
  | (el, _) :: ot, (code, w) :: bt =>
      if code =? 1 then ((el + w) ÷ pP p) :: releases p ot bt else releases p ot bt
  | _, _ => []
  end.

Lemma count_eq_nonneg k l : 0 <= count_eq k l.
Proof.
  induction l as [|x t IH]; [unfold count_eq; cbn [fold_left]; lia|].
  rewrite count_eq_cons. destruct (x =? k); lia.
Qed.

Lemma horizon_full_inv p hist c n :
  horizon_full p hist c n = true ->
  forall k, c <= k <= c + Z.of_nat n -> count_eq k hist = pL p.
Proof.
  revert c. induction n as [|n IH]; intros c H k Hk; cbn [horizon_full] in H;
    apply andb_true_iff in H as (H0 & H1); apply Z.eqb_eq in H0.
  - assert (k = c) by lia. subst k. exact H0.
  - destruct (Z.eq_dec k c) as [->|Hne]; [exact H0|]. apply (IH (c + 1) H1). lia.
Qed.

(** (1) per-period release bound: no period receives more than L releases *)
Lemma checker_release_bound p : forall ops obs hist,
  prop_unit p hist ops obs = true ->
  (forall k, count_eq k hist <= pL p) ->
  forall k, count_eq k hist + count_eq k (releases p ops obs) <= pL p.
Proof.
  induction ops as [|[el c] ot IH]; intros [|[code w] bt] hist H Hh k; cbn [prop_unit releases] in *;
    try discriminate.
  - unfold count_eq at 2; cbn [fold_left]. specialize (Hh k). lia.
  - destruct (code =? 1) eqn:E1.
    + apply andb_true_iff in H as (H & Hrest). apply andb_true_iff in H as (H & Hcnt).
      apply Z.ltb_lt in Hcnt.
      rewrite count_eq_cons.
      assert (Hh' : forall k0, count_eq k0 (((el + w) ÷ pP p) :: hist) <= pL p).
      { intros k0. rewrite count_eq_cons. destruct ((el + w) ÷ pP p =? k0) eqn:E.
        - apply Z.eqb_eq in E. subst k0. lia.
        - specialize (Hh k0). lia. }
      specialize (IH bt _ Hrest Hh' k). rewrite count_eq_cons in IH. lia.
    + destruct (code =? 0) eqn:E0; [|discriminate].
      apply andb_true_iff in H as (_ & Hrest). exact (IH bt hist Hrest Hh k).
Qed.

(** (2) every arrival is either admitted with a wait in [0, T] or rejected; the trace is complete *)
Lemma checker_wait_bound p : forall ops obs hist,
  prop_unit p hist ops obs = true ->
  Forall2 (fun (_ : Z * Z) (o : Z * Z) => (fst o = 1 /\ 0 <= snd o <= pT p) \/ fst o = 0) ops obs.
Proof.
  induction ops as [|[el c] ot IH]; intros [|[code w] bt] hist H; cbn [prop_unit] in *; try discriminate.
  - constructor.
  - destruct (code =? 1) eqn:E1.
    + apply Z.eqb_eq in E1. apply andb_true_iff in H as (H & Hrest).
      apply andb_true_iff in H as (H & _). apply andb_true_iff in H as (H & _).
      apply andb_true_iff in H as (Hw0 & HwT). constructor; [left; cbn [fst snd]; lia | exact (IH bt _ Hrest)].
    + destruct (code =? 0) eqn:E0; [|discriminate]. apply Z.eqb_eq in E0.
      apply andb_true_iff in H as (_ & Hrest). constructor; [right; exact E0 | exact (IH bt _ Hrest)].
Qed.

(** (3) position-wise: at every position of the trace, with [cnt k] = number of earlier admitted
    requests released in period k: an admitted request arriving while its own period has a spare
    permit waits 0; a request is rejected only when every period from its own up to the timeout
    horizon is fully reserved *)
Lemma checker_positions p : forall ops1 obs1 hist el c ops2 code w obs2,
  List.length ops1 = List.length obs1 ->
  prop_unit p hist (ops1 ++ (el, c) :: ops2) (obs1 ++ (code, w) :: obs2) = true ->
  let cnt k := count_eq k hist + count_eq k (releases p ops1 obs1) in
  (code = 1 -> cnt (el ÷ pP p) < pL p -> w = 0) /\
  (code = 1 -> cnt ((el + w) ÷ pP p) < pL p) /\
  (code = 0 -> forall k, el ÷ pP p <= k <= el ÷ pP p + Z.of_nat (Z.to_nat (pT p ÷ pP p)) -> cnt k = pL p).
Proof.
  induction ops1 as [|[el0 c0] ot IH]; intros [|[code0 w0] bt] hist el c ops2 code w obs2 Hlen H;
    cbn [List.length] in Hlen; try discriminate; cbn [app prop_unit releases] in *.
  - assert (Hz : forall k, count_eq k hist + count_eq k [] = count_eq k hist)
      by (intros k; unfold count_eq at 2; cbn [fold_left]; lia).
    destruct (code =? 1) eqn:E1.
    + apply andb_true_iff in H as (H & _). apply andb_true_iff in H as (H & Hcnt).
      apply andb_true_iff in H as (_ & Hsp). apply Z.ltb_lt in Hcnt.
      repeat split.
      * intros _ Hlt. rewrite Hz in Hlt. apply Z.ltb_lt in Hlt. rewrite Hlt in Hsp. apply Z.eqb_eq in Hsp. exact Hsp.
      * intros _. rewrite Hz. exact Hcnt.
      * intros ->. discriminate E1.
    + destruct (code =? 0) eqn:E0; [|discriminate].
      apply andb_true_iff in H as (Hf & _).
      repeat split; try (intros ->; discriminate E1).
      intros _ k Hk. rewrite Hz. apply (horizon_full_inv p hist _ _ Hf k). exact Hk.
  - injection Hlen as Hlen.
    destruct (code0 =? 1) eqn:E1.
    + apply andb_true_iff in H as (_ & Hrest).
      specialize (IH bt _ el c ops2 code w obs2 Hlen Hrest). cbv zeta in IH.
      assert (Hc : forall k, count_eq k (((el0 + w0) ÷ pP p) :: hist) + count_eq k (releases p ot bt)
                        = count_eq k hist + count_eq k (((el0 + w0) ÷ pP p) :: releases p ot bt))
        by (intros k; rewrite !count_eq_cons; lia).
      destruct IH as (I1 & I2 & I3). repeat split.
      * intros Hc1 Hlt. apply I1; [exact Hc1|]. rewrite Hc. exact Hlt.
      * intros Hc1. rewrite <- Hc. apply I2. exact Hc1.
      * intros Hc0 k Hk. rewrite <- Hc. apply I3; assumption.
    + destruct (code0 =? 0) eqn:E0; [|discriminate].
      apply andb_true_iff in H as (_ & Hrest).
      exact (IH bt _ el c ops2 code w obs2 Hlen Hrest).
Qed.

Theorem trace_checker_sound p ops obs :
  prop_unit p [] ops obs = true -> 0 <= pL p ->
  (forall k, count_eq k (releases p ops obs) <= pL p) /\
  Forall2 (fun (_ : Z * Z) (o : Z * Z) => (fst o = 1 /\ 0 <= snd o <= pT p) \/ fst o = 0) ops obs /\
  (forall ops1 obs1 el c ops2 code w obs2,
     ops = ops1 ++ (el, c) :: ops2 -> obs = obs1 ++ (code, w) :: obs2 -> List.length ops1 = List.length obs1 ->
     let cnt k := count_eq k (releases p ops1 obs1) in
     (code = 1 -> cnt (el ÷ pP p) < pL p -> w = 0) /\
     (code = 1 -> cnt ((el + w) ÷ pP p) < pL p) /\
     (code = 0 -> forall k, el ÷ pP p <= k <= el ÷ pP p + Z.of_nat (Z.to_nat (pT p ÷ pP p)) -> cnt k = pL p)).
Proof.
  intros H HL. split; [|split].
  - intros k. pose proof (checker_release_bound p ops obs [] H) as B.
    assert (Hh : forall k0, count_eq k0 [] <= pL p) by (intros k0; unfold count_eq; cbn [fold_left]; lia).
    specialize (B Hh k). unfold count_eq at 1 in B. cbn [fold_left] in B. lia.
  - exact (checker_wait_bound p ops obs [] H).
  - intros ops1 obs1 el c ops2 code w obs2 -> -> Hlen.
    pose proof (checker_positions p ops1 obs1 [] el c ops2 code w obs2 Hlen H) as P. cbv zeta in P.
    assert (Hz : forall k, count_eq k [] + count_eq k (releases p ops1 obs1) = count_eq k (releases p ops1 obs1))
      by (intros k; unfold count_eq at 1; cbn [fold_left]; lia).
    cbv zeta. destruct P as (P1 & P2 & P3). repeat split.
    + intros Hc Hlt. apply P1; [exact Hc|]. rewrite Hz. exact Hlt.
    + intros Hc. rewrite <- Hz. apply P2. exact Hc.
    + intros Hc k Hk. rewrite <- Hz. apply P3; assumption.
Qed.
