(** Soundness of the decidable trace checker [prop_unit] (model/RLCheck.v) for the
    model: every unit-count history of the model passes the checker, so the checker
    cannot raise an alarm on an implementation that behaves like the model. *)
From EG.lib Require Import Base.
From EG.model Require Import RL RLCheck.
From EG.proofs Require Import RLProofs.
From Coq Require Import ZifyBool.
Open Scope Z_scope.

Definition clamp (L x : Z) : Z := Z.min L (Z.max 0 x).

Lemma count_eq_acc k l : forall a, fold_left (fun a x => if x =? k then a + 1 else a) l a
                               = a + fold_left (fun a x => if x =? k then a + 1 else a) l 0.
Proof.
  induction l as [|x t IH]; intros a; cbn [fold_left]; [lia|].
  rewrite IH. rewrite (IH (if x =? k then 0 + 1 else 0)). destruct (x =? k); lia.
Qed.

Lemma count_eq_cons k x l : count_eq k (x :: l) = (if x =? k then 1 else 0) + count_eq k l.
Proof. unfold count_eq. cbn [fold_left]. rewrite count_eq_acc. destruct (x =? k); lia. Qed.

(** checker invariant: for every period k from the state's cycle on, the number of
    releases recorded for k is the number of slots of block k below the next free slot *)
Definition cinv (p : policy) (s : rl) (hist : list Z) : Prop :=
  forall k, cyc s <= k -> count_eq k hist = clamp (pL p) (next_slot p s - k * pL p).

Lemma horizon_full_true p hist c n :
  (forall k, c <= k <= c + Z.of_nat n -> count_eq k hist = pL p) ->
  horizon_full p hist c n = true.
Proof.
  revert c. induction n as [|n IH]; intros c H; cbn [horizon_full].
  - rewrite (H c) by lia. rewrite Z.eqb_refl. reflexivity.
  - rewrite (H c) by lia. rewrite Z.eqb_refl. cbn [andb]. apply IH. intros k Hk. apply H. lia.
Qed.

Lemma checker_sound p : valid p -> forall els s lo hist,
  0 <= lo -> nondecr lo els -> inv p s lo -> cinv p s hist ->
  prop_unit p hist (map (fun el => (el, 1)) els) (map out_code (run p s (map (fun el => (el, 1)) els))) = true.
Proof.
  intros Hv. pose proof Hv as (HP & HL & HT).
  induction els as [|el t IH]; intros s lo hist Hlo Hnd Hinv Hc; cbn [map run prop_unit]; [reflexivity|].
  destruct Hnd as (Hle & Hnd). assert (Hel : 0 <= el) by lia.
  pose proof (inv_mono p s lo el Hv Hle Hinv) as Hinv'.
  destruct (acquire p s el 1) as [s' o] eqn:E. cbn [map out_code].
  rewrite (quot_div el (pP p)) by lia.
  set (cycle := el / pP p) in *.
  destruct Hinv' as (Hi1 & Hi2). fold cycle in Hi1.
  pose proof E as E0. rewrite acquire_spec in E0 by assumption. cbv zeta in E0. fold cycle in E0.
  set (tokens := cur_tokens p s cycle) in *.
  assert (Htok : tokens = Z.max 0 (next_slot p s - cycle * pL p)) by (unfold tokens, cur_tokens, next_slot; lia).
  pose proof (div_bounds (pT p) (pP p) HP) as BT.
  assert (0 <= pT p / pP p) by (apply Z.div_pos; lia).
  destruct (pL p * (pT p / pP p + 1) <=? tokens) eqn:E1.
  - (* rejected *)
    inversion E0; subst s' o; clear E0. cbn [out_code].
    replace (0 =? 1) with false by reflexivity. replace (0 =? 0) with true by reflexivity.
    rewrite (quot_div (pT p) (pP p)) by lia.
    rewrite horizon_full_true.
    + cbn [andb]. apply (IH s el); try assumption. split; assumption.
    + intros k Hk. rewrite Z2Nat.id in Hk by lia. rewrite Hc by lia. unfold clamp. nia.
  - destruct (tokens <? pL p) eqn:E2; inversion E0; subst s' o; clear E0; cbn [out_code].
    + (* immediate *)
      replace (1 =? 1) with true by reflexivity.
      rewrite Z.add_0_r. rewrite (quot_div el (pP p)) by lia. fold cycle.
      assert (Hcnt : count_eq cycle hist = tokens) by (rewrite Hc by lia; unfold clamp; lia).
      rewrite Hcnt. rewrite E2. rewrite Z.eqb_refl.
      replace (0 <=? 0) with true by reflexivity. replace (0 <=? pT p) with true by lia.
      cbn [andb]. apply (IH _ el); try assumption.
      * unfold inv; cbn [cyc tok]. fold cycle. lia.
      * intros k Hk. cbn [cyc] in Hk. rewrite count_eq_cons. rewrite Hc by lia.
        unfold next_slot; cbn [cyc tok]. unfold clamp.
        destruct (cycle =? k) eqn:Ek.
        -- assert (k = cycle) by lia. subst k. unfold next_slot in Htok. lia.
        -- unfold next_slot in Htok. nia.
    + (* waiting *)
      replace (1 =? 1) with true by reflexivity.
      pose proof (wait_bound p s el 1 _ _ Hv Hel E) as (Hw0 & HwT).
      pose proof (release_period p s el _ _ Hv Hel E) as (Hrp & _).
      rewrite (quot_div (el + _) (pP p)) by lia. rewrite Hrp.
      unfold slot_of. fold cycle. fold tokens.
      pose proof (div_bounds tokens (pL p) HL) as B2.
      assert (Hq : (cycle * pL p + tokens) / pL p = cycle + tokens / pL p) by (rewrite Z.div_add_l by lia; reflexivity).
      rewrite Hq. set (q := tokens / pL p) in *.
      assert (1 <= q) by nia.
      assert (Hns : next_slot p s = cycle * pL p + tokens) by lia.
      assert (Hc1 : count_eq cycle hist = pL p) by (rewrite Hc by lia; unfold clamp; nia).
      assert (Hc2 : count_eq (cycle + q) hist = tokens - q * pL p) by (rewrite Hc by lia; unfold clamp; nia).
      rewrite Hc1, Hc2. rewrite Z.ltb_irrefl.
      replace (0 <=? _) with true by lia. replace (_ <=? pT p) with true by lia.
      replace (tokens - q * pL p <? pL p) with true by nia.
      cbn [andb]. apply (IH _ el); try assumption.
      * unfold inv; cbn [cyc tok]. fold cycle. lia.
      * intros k Hk. cbn [cyc] in Hk. rewrite count_eq_cons. rewrite Hc by lia.
        unfold next_slot at 2; cbn [cyc tok]. rewrite Hns. unfold clamp.
        destruct (cycle + q =? k) eqn:Ek.
        -- assert (k = cycle + q) by lia. subst k. nia.
        -- assert (k < cycle + q \/ cycle + q < k) as [Hlt|Hgt] by lia; nia.
Qed.

Theorem model_passes_checker p els :
  valid p -> nondecr 0 els ->
  prop_unit p [] (map (fun el => (el, 1)) els) (map out_code (run p rl0 (map (fun el => (el, 1)) els))) = true.
Proof.
  intros Hv Hnd. pose proof Hv as (HP & HL & HT).
  apply (checker_sound p Hv els rl0 0 []); try assumption; try lia.
  - unfold inv; cbn [cyc tok rl0]; rewrite Z.div_0_l by lia; lia.
  - intros k Hk. cbn [cyc rl0] in Hk. unfold count_eq, next_slot, clamp; cbn [fold_left cyc tok rl0]. nia.
Qed.
