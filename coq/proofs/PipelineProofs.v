(** C02 proofs, part 1: the transcribed loop against the declarative reference.

    Main results: [loop_refwalk] (the Go loop IS the iteration of [next_spec]),
    [next_spec_declarative] (what [next_spec ideal] means), forward-only,
    nothing after END, result of the last filter, namespace per node,
    before/after composition. *)
From EG.lib Require Import Base.
From EG.model Require Import Pipeline PipelineSpec.
From Coq Require Import Sorting.Sorted.
Open Scope string_scope.
Open Scope list_scope.

(** ** small helpers *)
Lemma seqb_eq : forall a b, (a =s b) = true <-> a = b.
Proof. intros; apply String.eqb_eq. Qed.
Lemma seqb_neq : forall a b, (a =s b) = false <-> a <> b.
Proof. intros; apply String.eqb_neq. Qed.

Lemma nth_error_skipn' : forall {A} k (l : list A) m, nth_error (skipn k l) m = nth_error l (k + m).
Proof.
  intros A k; induction k as [|k IH]; intros [|x l] m; simpl; auto.
  destruct m; reflexivity.
Qed.

Lemma nth_error_mid : forall {A} (pre : list A) x tl, nth_error (pre ++ x :: tl) (List.length pre) = Some x.
Proof.
  intros. rewrite nth_error_app2 by lia. rewrite Nat.sub_diag. reflexivity.
Qed.

Lemma skipn_mid : forall {A} (pre : list A) l, skipn (List.length pre) (pre ++ l) = l.
Proof. intros A pre; induction pre; simpl; auto. Qed.

(** ** [find_idx] / [find_from] *)
Lemma find_idx_some : forall p l k j, find_idx p l k = Some j ->
  k <= j /\ (exists x, nth_error l (j - k) = Some x /\ p x = true) /\
  (forall m x, m < j - k -> nth_error l m = Some x -> p x = false).
Proof.
  intros p l; induction l as [|a t IH]; intros k j H; simpl in H; [discriminate|].
  destruct (p a) eqn:Ep.
  - inversion H; subst. rewrite Nat.sub_diag. repeat split; [lia | exists a; auto | intros; lia].
  - apply IH in H as (Hle & (x & Hx & Hp) & Hm).
    split; [lia|]. split.
    + exists x. replace (j - k) with (S (j - S k)) by lia. simpl. auto.
    + intros m y Hlt Hy. destruct m as [|m]; simpl in Hy.
      * inversion Hy; subst; auto.
      * apply (Hm m y); [lia | auto].
Qed.

Lemma find_idx_none : forall p l k, find_idx p l k = None ->
  forall m x, nth_error l m = Some x -> p x = false.
Proof.
  intros p l; induction l as [|a t IH]; intros k H m x Hx; simpl in H.
  - destruct m; discriminate.
  - destruct (p a) eqn:Ep; [discriminate|].
    destruct m; simpl in Hx; [inversion Hx; subst; auto | eapply IH; eauto].
Qed.

Lemma find_idx_first : forall p l k m x,
  nth_error l m = Some x -> p x = true ->
  (forall m' y, m' < m -> nth_error l m' = Some y -> p y = false) ->
  find_idx p l k = Some (k + m).
Proof.
  intros p l; induction l as [|a t IH]; intros k m x Hx Hp Hb.
  - destruct m; discriminate.
  - simpl. destruct m as [|m]; simpl in Hx.
    + inversion Hx; subst. rewrite Hp. f_equal; lia.
    + rewrite (Hb 0 a) by (simpl; auto; lia).
      rewrite (IH (S k) m x); auto.
      * f_equal; lia.
      * intros m' y Hlt Hy. apply (Hb (S m') y); [lia | auto].
Qed.

Lemma find_idx_absent : forall p l k,
  (forall m x, nth_error l m = Some x -> p x = false) -> find_idx p l k = None.
Proof.
  intros p l; induction l as [|a t IH]; intros k H; simpl; auto.
  rewrite (H 0 a) by reflexivity. apply IH. intros m x Hx. apply (H (S m) x). auto.
Qed.

Lemma find_from_skip : forall q pre nd tl t,
  (run_alias q nd =s t) = false ->
  find_from q (pre ++ nd :: tl) (List.length pre) t = find_from q (pre ++ nd :: tl) (S (List.length pre)) t.
Proof.
  intros q pre nd tl t H. unfold find_from.
  rewrite skipn_mid. replace (pre ++ nd :: tl) with ((pre ++ [nd]) ++ tl) by (rewrite <- app_assoc; reflexivity).
  replace (S (List.length pre)) with (List.length (pre ++ [nd])) by (rewrite app_length; simpl; lia).
  rewrite skipn_mid. simpl. rewrite H. rewrite app_length. simpl.
  replace (List.length pre + 1) with (S (List.length pre)) by lia. reflexivity.
Qed.

Lemma find_from_hit : forall q pre nd tl t,
  (run_alias q nd =s t) = true ->
  find_from q (pre ++ nd :: tl) (List.length pre) t = Some (List.length pre).
Proof.
  intros q pre nd tl t H. unfold find_from. rewrite skipn_mid. simpl. rewrite H. reflexivity.
Qed.

(** ** the Go loop is the iteration of [next_spec] *)

(** status of the loop when it is about to look at position [i] with the
    pending jump target [next] ("" = none) *)
Definition here (q : quirks) (flow : list node) (i : nat) (next : string) : succ :=
  if next =s "" then arrive flow i
  else match find_from q flow i next with Some j => arrive flow j | None => SFell end.

Lemma visits_visit : forall v o, map fst (visits (visit v o)) = fst v :: map fst (visits o).
Proof. reflexivity. Qed.

Lemma fin_of_visit : forall v o, fin_of (visit v o) = fin_of o.
Proof. reflexivity. Qed.

Lemma loop_refwalk : forall q res flow l pre i n rslt next act,
  flow = pre ++ l -> i = List.length pre ->
  let o := loop q res l i n rslt next act in
  RefWalk q flow res n (here q flow i next) rslt (map fst (visits o)) (result o) (fin_of o) (ninv o).
Proof.
  intros q res flow l; induction l as [|nd tl IH]; intros pre i n rslt next act Hf Hi; cbn zeta.
  - (* fell off the list *)
    simpl. unfold here, fin_of; simpl.
    assert (Harr : arrive flow i = SDone).
    { unfold arrive. subst. rewrite app_nil_r. replace (nth_error pre (List.length pre)) with (@None node); auto.
      symmetry. apply nth_error_None. lia. }
    destruct (next =s "") eqn:En.
    + rewrite Harr. apply RW_stop. intros j; discriminate.
    + unfold find_from. subst. rewrite app_nil_r. rewrite skipn_all. simpl.
      apply RW_stop. intros j; discriminate.
  - assert (Hnth : nth_error flow i = Some nd) by (subst; apply nth_error_mid).
    assert (Hf' : flow = (pre ++ [nd]) ++ tl) by (subst; rewrite <- app_assoc; reflexivity).
    assert (Hi' : S i = List.length (pre ++ [nd])) by (subst; rewrite app_length; simpl; lia).
    simpl loop.
    destruct (negb (next =s "") && negb (next =s run_alias q nd)) eqn:Eskip.
    + (* continue *)
      apply andb_true_iff in Eskip as [E1 E2]. apply negb_true_iff in E1, E2.
      assert (Hh : here q flow i next = here q flow (S i) next).
      { unfold here. rewrite E1. subst flow i. rewrite find_from_skip; auto.
        rewrite String.eqb_sym. exact E2. }
      rewrite Hh. apply (IH (pre ++ [nd])); auto.
    + (* this node is looked at *)
      assert (Hh : here q flow i next = arrive flow i).
      { unfold here. destruct (next =s "") eqn:E1; auto.
        simpl in Eskip. apply negb_false_iff in Eskip.
        subst flow i. rewrite find_from_hit; auto. rewrite String.eqb_sym. exact Eskip. }
      rewrite Hh. unfold arrive. rewrite Hnth.
      destruct (is_end nd) eqn:Eend.
      * simpl. apply RW_stop. intros j; discriminate.
      * destruct (res n =s "") eqn:Er.
        -- rewrite visits_visit, fin_of_visit. simpl fst. apply RW_run.
           assert (Hn : next_spec q flow i (res n) = here q flow (S i) "").
           { unfold next_spec, here. rewrite Er. reflexivity. }
           rewrite Hn.
           apply (IH (pre ++ [nd])); auto.
        -- destruct ((target nd (res n) =s "") || (target nd (res n) =s END)) eqn:Et.
           ++ rewrite visits_visit, fin_of_visit. simpl. apply RW_run.
              unfold next_spec. rewrite Er, Hnth, Et. apply RW_stop. intros j; discriminate.
           ++ rewrite visits_visit, fin_of_visit. simpl fst. apply RW_run.
              assert (Hn : next_spec q flow i (res n) = here q flow (S i) (target nd (res n))).
              { unfold next_spec, here. rewrite Er, Hnth, Et.
                apply orb_false_iff in Et as [Et1 _]. rewrite Et1. reflexivity. }
              rewrite Hn. apply (IH (pre ++ [nd])); auto.
Qed.

Lemma do_handle_refwalk : forall q res flow n act,
  let o := do_handle q res flow n act in
  RefWalk q flow res n (arrive flow 0) "" (map fst (visits o)) (result o) (fin_of o) (ninv o).
Proof.
  intros. unfold o, do_handle.
  apply (loop_refwalk q res flow flow [] 0 n "" "" act); reflexivity.
Qed.

(** the reference walk is a function of its inputs *)
Lemma refwalk_functional : forall q flow res n s last v r fin n',
  RefWalk q flow res n s last v r fin n' ->
  forall v2 r2 fin2 n2, RefWalk q flow res n s last v2 r2 fin2 n2 ->
  v2 = v /\ r2 = r /\ fin2 = fin /\ n2 = n'.
Proof.
  intros q flow res n s last v r fin n' H; induction H as [n s last Hs | n j last v r fin n' H IH];
    intros v2 r2 fin2 n2 H2.
  - inversion H2; subst; auto. exfalso. eapply Hs; reflexivity.
  - inversion H2; subst.
    + exfalso. match goal with Hs : forall j0, SRun j <> SRun j0 |- _ => eapply Hs; reflexivity end.
    + match goal with Hw : RefWalk _ _ _ (S n) _ _ _ _ _ _ |- _ => apply IH in Hw as (-> & -> & -> & ->) end. auto.
Qed.

(** the final status of a walk is never [SRun] *)
Lemma refwalk_fin : forall q flow res n s last v r fin n',
  RefWalk q flow res n s last v r fin n' -> forall j, fin <> SRun j.
Proof. intros q flow res n s last v r fin n' H; induction H; auto. Qed.

(** ** what [next_spec ideal] means *)

Lemma run_alias_ideal : forall nd t, t <> END ->
  (run_alias ideal nd =s t) = true <-> (is_end nd = false /\ alias_of nd = t).
Proof.
  intros nd t Ht. unfold run_alias, ideal. cbn [q_end_alias_target negb]. rewrite andb_true_r.
  destruct (is_end nd).
  - rewrite seqb_eq. split; [intros E; congruence | intros [E _]; discriminate].
  - rewrite seqb_eq. tauto.
Qed.

Lemma is_target_spec : forall t nd, is_target t nd = true <-> (is_end nd = false /\ alias_of nd = t).
Proof.
  intros. unfold is_target. rewrite andb_true_iff, negb_true_iff, seqb_eq. tauto.
Qed.

Lemma find_from_ideal_some : forall flow k t j, t <> END ->
  find_from ideal flow k t = Some j <->
  (k <= j /\ (exists nd, nth_error flow j = Some nd /\ is_end nd = false /\ alias_of nd = t) /\
   forall m nd, k <= m < j -> nth_error flow m = Some nd -> ~ (is_end nd = false /\ alias_of nd = t)).
Proof.
  intros flow k t j Ht. unfold find_from. split.
  - intros H. apply find_idx_some in H as (Hle & (x & Hx & Hp) & Hm).
    rewrite nth_error_skipn' in Hx. replace (k + (j - k)) with j in Hx by lia.
    split; auto. split.
    + exists x. split; auto. apply run_alias_ideal; auto.
    + intros m nd [H1 H2] Hnd Hc. apply run_alias_ideal in Hc; auto.
      specialize (Hm (m - k) nd). rewrite nth_error_skipn' in Hm.
      replace (k + (m - k)) with m in Hm by lia. rewrite Hm in Hc; [discriminate | lia | auto].
  - intros (Hle & (nd & Hnd & Hc) & Hm).
    replace j with (k + (j - k)) by lia. apply find_idx_first with (x := nd).
    + rewrite nth_error_skipn'. replace (k + (j - k)) with j by lia. auto.
    + apply run_alias_ideal; auto.
    + intros m' y Hlt Hy. rewrite nth_error_skipn' in Hy.
      destruct (run_alias ideal y =s t) eqn:E; auto. apply run_alias_ideal in E; auto.
      exfalso. apply (Hm (k + m') y); [lia | auto | auto].
Qed.

Lemma find_from_ideal_none : forall flow k t, t <> END ->
  find_from ideal flow k t = None <->
  forall m nd, k <= m -> nth_error flow m = Some nd -> ~ (is_end nd = false /\ alias_of nd = t).
Proof.
  intros flow k t Ht. unfold find_from. split.
  - intros H m nd Hle Hnd Hc. apply run_alias_ideal in Hc; auto.
    eapply find_idx_none with (m := m - k) (x := nd) in H.
    + rewrite H in Hc; discriminate.
    + rewrite nth_error_skipn'. replace (k + (m - k)) with m by lia. auto.
  - intros H. apply find_idx_absent. intros m x Hx. rewrite nth_error_skipn' in Hx.
    destruct (run_alias ideal x =s t) eqn:E; auto. apply run_alias_ideal in E; auto.
    exfalso. apply (H (k + m) x); [lia | auto | auto].
Qed.

Lemma next_spec_declarative : forall flow i nd r,
  nth_error flow i = Some nd ->
  (r = "" -> next_spec ideal flow i r = arrive flow (S i)) /\
  (r <> "" -> (target nd r = "" \/ target nd r = END) -> next_spec ideal flow i r = SEnd) /\
  (r <> "" -> target nd r <> "" -> target nd r <> END ->
     (exists j, first_later_named flow i j (target nd r) /\ next_spec ideal flow i r = SRun j) \/
     ((forall j, ~ later_named flow i j (target nd r)) /\ next_spec ideal flow i r = SFell)).
Proof.
  intros flow i nd r Hnd. unfold next_spec. rewrite Hnd. repeat split.
  - intros ->. reflexivity.
  - intros Hr Ht. apply seqb_neq in Hr. rewrite Hr.
    destruct Ht as [-> | ->]; [rewrite String.eqb_refl | rewrite (String.eqb_refl END), orb_true_r]; reflexivity.
  - intros Hr H1 H2. apply seqb_neq in Hr. rewrite Hr.
    apply seqb_neq in H1 as H1'. apply seqb_neq in H2 as H2'. rewrite H1', H2'. simpl.
    destruct (find_from ideal flow (S i) (target nd r)) as [j|] eqn:Ef.
    + left. exists j. apply find_from_ideal_some in Ef as (Hle & (ndj & Hj & He & Ha) & Hm); auto.
      split.
      * split; [split; [lia | exists ndj; auto] |].
        intros m x Hlt Hx. apply (Hm m x); [lia | auto].
      * unfold arrive. rewrite Hj, He. reflexivity.
    + right. split; auto. intros j (Hlt & ndj & Hj & Hc).
      rewrite find_from_ideal_none in Ef by auto. apply (Ef j ndj); [lia | auto | auto].
Qed.

Lemma next_spec_forward : forall q flow i r j, next_spec q flow i r = SRun j -> i < j.
Proof.
  intros q flow i r j. unfold next_spec.
  destruct (r =s "").
  - unfold arrive. destruct (nth_error flow (S i)) as [nd|]; [|discriminate].
    destruct (is_end nd); [discriminate|]. intros H; inversion H; lia.
  - destruct (nth_error flow i) as [nd|]; [|discriminate].
    destruct ((target nd r =s "") || (target nd r =s END)); [discriminate|].
    destruct (find_from q flow (S i) (target nd r)) as [k|] eqn:Ef; [|discriminate].
    unfold find_from in Ef. apply find_idx_some in Ef as [Hle _].
    unfold arrive. destruct (nth_error flow k) as [ndk|]; [|discriminate].
    destruct (is_end ndk); [discriminate|]. intros H; inversion H; lia.
Qed.

(** every [SRun j] produced by [arrive] / [next_spec] designates a filter node *)
Definition good (flow : list node) (s : succ) : Prop :=
  forall j, s = SRun j -> exists nd, nth_error flow j = Some nd /\ is_end nd = false.

Lemma arrive_good : forall flow j, good flow (arrive flow j).
Proof.
  intros flow j k. unfold arrive. destruct (nth_error flow j) as [nd|] eqn:E; [|discriminate].
  destruct (is_end nd) eqn:Ee; [discriminate|]. intros H; inversion H; subst. eauto.
Qed.

Lemma next_spec_good : forall q flow i r, good flow (next_spec q flow i r).
Proof.
  intros q flow i r. unfold next_spec. destruct (r =s ""); [apply arrive_good|].
  destruct (nth_error flow i) as [nd|]; [|intros j; discriminate].
  destruct ((target nd r =s "") || (target nd r =s END)); [intros j; discriminate|].
  destruct (find_from q flow (S i) (target nd r)); [apply arrive_good | intros j; discriminate].
Qed.

(** ** direct facts about the loop *)

(** visited indices lie in [i, i + |l|) and strictly increase; each is a filter
    node that ran in its configured namespace *)
Lemma loop_visits : forall q res l i n rslt next act,
  let o := loop q res l i n rslt next act in
  StronglySorted lt (map fst (visits o)) /\
  Forall (fun v => i <= fst v /\
                   exists nd, nth_error l (fst v - i) = Some nd /\ is_end nd = false /\ snd v = eff_ns nd)
         (visits o).
Proof.
  intros q res l; induction l as [|nd tl IH]; intros i n rslt next act; cbn zeta.
  - simpl. split; constructor.
  - simpl loop.
    assert (Hshift : forall o', Forall (fun v => S i <= fst v /\ exists nd0, nth_error tl (fst v - S i) = Some nd0 /\ is_end nd0 = false /\ snd v = eff_ns nd0) (visits o') ->
       Forall (fun v => i <= fst v /\ exists nd0, nth_error (nd :: tl) (fst v - i) = Some nd0 /\ is_end nd0 = false /\ snd v = eff_ns nd0) (visits o')).
    { intros o' H. eapply Forall_impl; [|exact H]. intros v [Hle (nd0 & Hn & He)].
      split; [lia|]. exists nd0. replace (fst v - i) with (S (fst v - S i)) by lia. simpl. auto. }
    destruct (negb (next =s "") && negb (next =s run_alias q nd)).
    { destruct (IH (S i) n rslt next act) as [H1 H2]. split; auto. }
    destruct (is_end nd) eqn:Ee.
    { simpl. split; constructor. }
    assert (Hcons : forall o', StronglySorted lt (map fst (visits o')) ->
        Forall (fun v => S i <= fst v /\ exists nd0, nth_error tl (fst v - S i) = Some nd0 /\ is_end nd0 = false /\ snd v = eff_ns nd0) (visits o') ->
        StronglySorted lt (map fst (visits (visit (i, eff_ns nd) o'))) /\
        Forall (fun v => i <= fst v /\ exists nd0, nth_error (nd :: tl) (fst v - i) = Some nd0 /\ is_end nd0 = false /\ snd v = eff_ns nd0) (visits (visit (i, eff_ns nd) o'))).
    { intros o' H1 H2. split.
      - rewrite visits_visit. simpl fst. constructor; auto.
        rewrite Forall_map. eapply Forall_impl; [|exact H2]. intros v [Hle _]. lia.
      - simpl visits. constructor.
        + simpl. split; [lia|]. exists nd. rewrite Nat.sub_diag. simpl. auto.
        + apply Hshift; auto. }
    destruct (res n =s "").
    { destruct (IH (S i) (S n) (res n) "" (eff_ns nd)) as [H1 H2]. apply Hcons; auto. }
    destruct ((target nd (res n) =s "") || (target nd (res n) =s END)).
    { apply Hcons; simpl; constructor. }
    destruct (IH (S i) (S n) (res n) (target nd (res n)) (eff_ns nd)) as [H1 H2]. apply Hcons; auto.
Qed.

(** invocation count and result *)
Lemma loop_result : forall q res l i n rslt next act,
  let o := loop q res l i n rslt next act in
  ninv o = n + List.length (visits o) /\
  result o = match List.length (visits o) with 0 => rslt | S k => res (n + k) end.
Proof.
  intros q res l; induction l as [|nd tl IH]; intros i n rslt next act; cbn zeta.
  - simpl. split; [lia | reflexivity].
  - simpl loop.
    destruct (negb (next =s "") && negb (next =s run_alias q nd)); [apply IH|].
    destruct (is_end nd); [simpl; split; [lia | reflexivity]|].
    assert (Hcons : forall o', ninv o' = S n + List.length (visits o') ->
              result o' = match List.length (visits o') with 0 => res n | S k => res (S n + k) end ->
              ninv (visit (i, eff_ns nd) o') = n + List.length (visits (visit (i, eff_ns nd) o')) /\
              result (visit (i, eff_ns nd) o') =
                match List.length (visits (visit (i, eff_ns nd) o')) with 0 => rslt | S k => res (n + k) end).
    { intros o' H1 H2. simpl. split; [lia|]. rewrite H2.
      destruct (List.length (visits o')) as [|k]; [f_equal; lia | f_equal; lia]. }
    destruct (res n =s "").
    { destruct (IH (S i) (S n) (res n) "" (eff_ns nd)) as [H1 H2]. apply Hcons; auto. }
    destruct ((target nd (res n) =s "") || (target nd (res n) =s END)).
    { apply Hcons; simpl; auto. }
    destruct (IH (S i) (S n) (res n) (target nd (res n)) (eff_ns nd)) as [H1 H2]. apply Hcons; auto.
Qed.

(** a flow that completes (neither END nor a pending jump) returns "" unless nothing ran *)
Lemma loop_done_result : forall q res l i n rslt next act,
  let o := loop q res l i n rslt next act in
  saw_end o = false -> pending o = "" ->
  (visits o = [] /\ result o = rslt /\ next = "") \/ (visits o <> [] /\ result o = "").
Proof.
  intros q res l; induction l as [|nd tl IH]; intros i n rslt next act; cbn zeta.
  - simpl. intros _ H. left. auto.
  - simpl loop.
    destruct (negb (next =s "") && negb (next =s run_alias q nd)); [apply IH|].
    destruct (is_end nd); [simpl; discriminate|].
    destruct (res n =s "") eqn:Er.
    { simpl. intros H1 H2. right. split; [discriminate|].
      destruct (IH (S i) (S n) (res n) "" (eff_ns nd) H1 H2) as [(_ & Hr & _) | (_ & Hr)].
      - rewrite Hr. apply seqb_eq; auto.
      - exact Hr. }
    destruct ((target nd (res n) =s "") || (target nd (res n) =s END)) eqn:Et; [simpl; discriminate|].
    simpl. intros H1 H2. right. split; [discriminate|].
    destruct (IH (S i) (S n) (res n) (target nd (res n)) (eff_ns nd) H1 H2) as [(_ & _ & Hn) | (_ & Hr)].
    + apply orb_false_iff in Et as [Et _]. apply seqb_neq in Et. contradiction.
    + exact Hr.
Qed.

(** ** nothing after END *)

Lemma end_prefix_visit : forall q res nd tl i n rslt next act r nx,
  (forall l', loop q res (nd :: l') i n rslt next act =
              visit (i, eff_ns nd) (loop q res l' (S i) (S n) r nx (eff_ns nd))) ->
  EndPrefix q res tl (S i) (S n) r nx (eff_ns nd) (loop q res tl (S i) (S n) r nx (eff_ns nd)) ->
  EndPrefix q res (nd :: tl) i n rslt next act
            (visit (i, eff_ns nd) (loop q res tl (S i) (S n) r nx (eff_ns nd))).
Proof.
  intros q res nd tl i n rslt next act r nx Hstep (k & ndk & Hk & Hc & Hle & Heq).
  exists (S k), ndk. replace (i + S k) with (S i + k) by lia. split; [exact Hk|]. split; [|split].
  - destruct Hc as [[H1 H2] | (H1 & [a Ha] & H3 & H4)].
    + left. split; auto. simpl visits. constructor; [simpl; lia | auto].
    + right. split; auto. split; [exists a; simpl; auto | auto].
  - simpl visits. constructor; [simpl; lia | auto].
  - intros tail'. change (firstn (S (S k)) (nd :: tl) ++ tail') with (nd :: (firstn (S k) tl ++ tail')).
    rewrite Hstep, Heq. reflexivity.
Qed.

Lemma loop_end_prefix : forall q res l i n rslt next act,
  saw_end (loop q res l i n rslt next act) = true ->
  EndPrefix q res l i n rslt next act (loop q res l i n rslt next act).
Proof.
  intros q res l; induction l as [|nd tl IH]; intros i n rslt next act.
  - simpl. discriminate.
  - simpl loop.
    destruct (negb (next =s "") && negb (next =s run_alias q nd)) eqn:Eskip.
    { intros Hs. destruct (IH (S i) n rslt next act Hs) as (k & ndk & Hk & Hc & Hle & Heq).
      exists (S k), ndk. replace (i + S k) with (S i + k) by lia.
      repeat split; auto.
      intros tail'. change (firstn (S (S k)) (nd :: tl) ++ tail') with (nd :: (firstn (S k) tl ++ tail')).
      simpl loop. rewrite Eskip. apply Heq. }
    destruct (is_end nd) eqn:Ee.
    { intros _. exists 0, nd. simpl. repeat split; auto.
      intros tail'. rewrite Eskip, Ee. reflexivity. }
    destruct (res n =s "") eqn:Er.
    { intros Hs. apply end_prefix_visit.
      - intros l'. simpl loop. rewrite Eskip, Ee, Er. reflexivity.
      - apply IH. exact Hs. }
    destruct ((target nd (res n) =s "") || (target nd (res n) =s END)) eqn:Et.
    { intros _. exists 0, nd. split; [reflexivity|]. split; [|split].
      - right. split; auto. split; [exists (eff_ns nd); left; f_equal; lia|].
        split; [apply seqb_neq; auto|]. simpl.
        apply orb_true_iff in Et as [Et | Et]; apply seqb_eq in Et; auto.
      - simpl. constructor; [simpl; lia | constructor].
      - intros tail'. simpl. rewrite Eskip, Ee, Er, Et. reflexivity. }
    intros Hs. apply end_prefix_visit.
    + intros l'. simpl loop. rewrite Eskip, Ee, Er, Et. reflexivity.
    + apply IH. exact Hs.
Qed.

(** ** HandleWithBeforeAfter *)
Local Opaque do_handle.
Lemma hba_composition : forall q res before main after n act,
  let ob := side_run q res before n act in
  let om := do_handle q res main (n_after ob n) (act_after ob act) in
  let oa := side_run q res after (ninv om) (active om) in
  let h := hba q res before main after n act in
  (ended ob = true ->
     hvisits h = tagv_opt 0 ob /\ hsaw_end h = true /\ hresult h = res_after ob "" /\ hninv h = n_after ob n) /\
  (ended ob = false -> saw_end om = true ->
     hvisits h = tagv_opt 0 ob ++ tagv 1 om /\ hsaw_end h = true /\ hresult h = result om /\ hninv h = ninv om) /\
  (ended ob = false -> saw_end om = false ->
     hvisits h = tagv_opt 0 ob ++ tagv 1 om ++ tagv_opt 2 oa /\ hsaw_end h = ended oa /\
     hresult h = res_after oa (result om) /\ hninv h = n_after oa (ninv om)).
Proof.
  intros q res before main after n act. cbn zeta. unfold hba.
  destruct before as [b|]; simpl side_run; simpl ended; simpl n_after; simpl act_after; simpl tagv_opt; simpl res_after.
  - destruct (saw_end (do_handle q res b n act)) eqn:Eb.
    + split; [|split]; [intros _ | discriminate | discriminate]. simpl. auto.
    + match goal with |- context [if saw_end ?x then _ else _] => destruct (saw_end x) eqn:Em end.
      * split; [|split]; [discriminate | intros _ _ | intros _; discriminate]. simpl. auto.
      * split; [|split]; [discriminate | intros _; discriminate | intros _ _].
        destruct after as [a|]; simpl.
        -- rewrite app_assoc. auto.
        -- rewrite app_nil_r. try rewrite Em. auto.
  - match goal with |- context [if saw_end ?x then _ else _] => destruct (saw_end x) eqn:Em end.
    + split; [|split]; [discriminate | intros _ _ | intros _; discriminate]. simpl. auto.
    + split; [|split]; [discriminate | intros _; discriminate | intros _ _].
      destruct after as [a|]; simpl.
      * auto.
      * rewrite app_nil_r. try rewrite Em. auto.
Qed.
Local Transparent do_handle.

(** result of the last filter, across the three flows *)
Lemma do_handle_result : forall q res flow n act,
  let o := do_handle q res flow n act in
  ninv o = n + List.length (visits o) /\
  result o = match List.length (visits o) with 0 => "" | S k => res (n + k) end.
Proof. intros. apply loop_result. Qed.

Lemma do_handle_done_result : forall q res flow n act,
  fin_of (do_handle q res flow n act) = SDone -> result (do_handle q res flow n act) = "".
Proof.
  intros q res flow n act H. unfold fin_of in H.
  destruct (saw_end (do_handle q res flow n act)) eqn:Es; [discriminate|].
  destruct (pending (do_handle q res flow n act) =s "") eqn:Ep; [|discriminate].
  apply seqb_eq in Ep.
  destruct (loop_done_result q res flow 0 n "" "" act Es Ep) as [(_ & Hr & _) | (_ & Hr)]; exact Hr.
Qed.

Lemma nofell_done : forall o, saw_end o = false -> fin_of o <> SFell -> fin_of o = SDone.
Proof.
  intros o Hs Hf. unfold fin_of in *. rewrite Hs in *. destruct (pending o =s ""); congruence.
Qed.

Lemma last_res_app : forall (res : nat -> string) n L1 L2 r2,
  match L1 with 0 => "" | S k => res (n + k) end = "" ->
  r2 = match L2 with 0 => "" | S k => res (n + L1 + k) end ->
  r2 = match L1 + L2 with 0 => "" | S k => res (n + k) end.
Proof.
  intros res n L1 L2 r2 H1 H2. destruct L2 as [|k].
  - rewrite Nat.add_0_r. congruence.
  - rewrite H2. replace (L1 + S k) with (S (L1 + k)) by lia. f_equal. lia.
Qed.

Lemma tagv_length : forall f o, List.length (tagv f o) = List.length (visits o).
Proof. intros. unfold tagv. apply map_length. Qed.

Lemma hba_result : forall q res before main after n act,
  let ob := side_run q res before n act in
  let om := do_handle q res main (n_after ob n) (act_after ob act) in
  let h := hba q res before main after n act in
  match ob with Some r => fin_of r <> SFell | None => True end ->
  (ended ob = false -> fin_of om <> SFell) ->
  hninv h = n + List.length (hvisits h) /\
  hresult h = match List.length (hvisits h) with 0 => "" | S k => res (n + k) end.
Proof.
  intros q res before main after n act. cbn zeta.
  pose proof (hba_composition q res before main after n act) as HC. cbn zeta in HC.
  set (ob := side_run q res before n act) in *.
  set (om := do_handle q res main (n_after ob n) (act_after ob act)) in *.
  set (oa := side_run q res after (ninv om) (active om)) in *.
  set (h := hba q res before main after n act) in *.
  intros Hb Hm. destruct HC as (HA & HB1 & HB2).
  (* facts about the before flow *)
  assert (Fb : n_after ob n = n + List.length (tagv_opt 0 ob) /\
               res_after ob "" = match List.length (tagv_opt 0 ob) with 0 => "" | S k => res (n + k) end).
  { unfold ob, side_run. destruct before as [b|]; simpl.
    - rewrite tagv_length. apply do_handle_result.
    - split; [lia | reflexivity]. }
  destruct Fb as [Fb1 Fb2].
  destruct (ended ob) eqn:Eb.
  - destruct (HA eq_refl) as (-> & _ & -> & ->). auto.
  - assert (Eb0 : match List.length (tagv_opt 0 ob) with 0 => "" | S k => res (n + k) end = "").
    { rewrite <- Fb2. unfold ob, side_run in *. destruct before as [b|]; simpl in *; auto.
      apply do_handle_done_result. apply nofell_done; auto. }
    destruct (do_handle_result q res main (n_after ob n) (act_after ob act)) as [Fm1 Fm2].
    fold om in Fm1, Fm2. rewrite Fb1 in Fm1, Fm2.
    assert (Fm2' : result om = match List.length (tagv_opt 0 ob) + List.length (visits om) with 0 => "" | S k => res (n + k) end).
    { apply last_res_app; auto. }
    destruct (saw_end om) eqn:Em.
    + destruct (HB1 eq_refl eq_refl) as (-> & _ & -> & ->).
      rewrite app_length, tagv_length. split; [lia | exact Fm2'].
    + destruct (HB2 eq_refl eq_refl) as (-> & _ & -> & ->).
      assert (Em0 : result om = "").
      { apply do_handle_done_result. apply nofell_done; auto. }
      rewrite !app_length, tagv_length.
      unfold oa, side_run. destruct after as [a|]; simpl.
      * rewrite tagv_length.
        destruct (do_handle_result q res a (ninv om) (active om)) as [Fa1 Fa2].
        split; [lia|]. rewrite Nat.add_assoc.
        apply last_res_app.
        -- rewrite <- Fm2'. exact Em0.
        -- rewrite Fa2. destruct (List.length (visits (do_handle q res a (ninv om) (active om)))); auto.
           rewrite Fm1. f_equal. lia.
      * rewrite Nat.add_0_r. split; [lia | exact Fm2'].
Qed.
