(** Proofs about the IP filter model (C05). *)
From EG.lib Require Import Base.
From EG.model Require Import IPFilter.
Open Scope N_scope.

(** * 1. [contains] is bit-prefix equality *)

Definition wf_entry (e : entry) : Prop :=
  e_len e <= fam_bits (e_fam e) /\ e_pre e < 2 ^ fam_bits (e_fam e).
Definition wf_addr (a : addr) : Prop := a_val a < 2 ^ fam_bits (a_fam a).

(** textbook definition: the [len] most significant of [bits] bits agree
    (bit [bits-1] is the first bit of the address as written) *)
Definition prefix_agree (bits len a p : N) : Prop :=
  forall i, i < len -> N.testbit a (bits - 1 - i) = N.testbit p (bits - 1 - i).

Lemma testbit_high : forall a b m, a < 2 ^ b -> b <= m -> N.testbit a m = false.
Proof.
  intros a b m Ha Hm. rewrite <- (N.mod_small a (2 ^ b)) by assumption.
  apply N.mod_pow2_bits_high. assumption.
Qed.

Lemma shiftr_eq_iff_prefix : forall bits len a p,
  len <= bits -> a < 2 ^ bits -> p < 2 ^ bits ->
  (N.shiftr a (bits - len) = N.shiftr p (bits - len) <-> prefix_agree bits len a p).
Proof.
  intros bits len a p Hl Ha Hp. split.
  - intros H i Hi.
    assert (E : bits - 1 - i = (len - 1 - i) + (bits - len)) by lia.
    rewrite E, <- !N.shiftr_spec', H. reflexivity.
  - intros H. apply N.bits_inj. intro n. rewrite !N.shiftr_spec'.
    destruct (N.ltb_spec (n + (bits - len)) bits) as [Hlt | Hge].
    + specialize (H (bits - 1 - (n + (bits - len)))).
      replace (bits - 1 - (bits - 1 - (n + (bits - len)))) with (n + (bits - len)) in H by lia.
      apply H. lia.
    + rewrite (testbit_high a bits), (testbit_high p bits); auto.
Qed.

Lemma fam_eqb_eq : forall a b, fam_eqb a b = true <-> a = b.
Proof. intros [] []; cbn; split; congruence. Qed.

Lemma contains_prefix : forall e a, wf_entry e -> wf_addr a ->
  (contains e a = true <->
   e_fam e = a_fam a /\ prefix_agree (fam_bits (e_fam e)) (e_len e) (a_val a) (e_pre e)).
Proof.
  intros e a [Hl Hp] Ha. unfold contains, wf_addr in *.
  rewrite andb_true_iff, fam_eqb_eq, N.eqb_eq. split.
  - intros [Hf H]. split; [exact Hf|]. rewrite Hf in *.
    apply shiftr_eq_iff_prefix; assumption.
  - intros [Hf H]. split; [exact Hf|]. rewrite <- Hf in Ha.
    apply shiftr_eq_iff_prefix; assumption.
Qed.

(** the mask form used by Go (ip & mask == network number), for a masked prefix *)
Lemma contains_mask_form : forall e a,
  e_len e <= fam_bits (e_fam e) ->
  N.shiftl (N.shiftr (e_pre e) (fam_bits (e_fam e) - e_len e)) (fam_bits (e_fam e) - e_len e) = e_pre e ->
  (contains e a = true <->
   e_fam e = a_fam a /\
   N.shiftl (N.shiftr (a_val a) (fam_bits (e_fam e) - e_len e)) (fam_bits (e_fam e) - e_len e) = e_pre e).
Proof.
  intros e a Hl Hm. unfold contains.
  rewrite andb_true_iff, fam_eqb_eq, N.eqb_eq. split; intros [Hf H]; split; auto.
  - rewrite H. exact Hm.
  - rewrite <- Hm in H. apply (f_equal (fun x => N.shiftr x (fam_bits (e_fam e) - e_len e))) in H.
    rewrite !N.shiftr_shiftl_l, !N.sub_diag, !N.shiftl_0_r in H by lia. exact H.
Qed.

(** * 2. the decision table *)

Definition lies_in_q (q : quirks) (es : list entry) (a : addr) : Prop :=
  exists e, In e es /\ contains_q q e a = true.

(** membership in a list of address/CIDR entries, standard prefix semantics *)
Definition lies_in (es : list entry) (a : addr) : Prop :=
  exists e, In e es /\ contains e a = true.

Lemma in_any_spec : forall q es a, in_any q es a = true <-> lies_in_q q es a.
Proof. intros. unfold in_any, lies_in_q. apply existsb_exists. Qed.

Lemma contains_q_ideal : forall e a, contains_q ideal e a = contains e a.
Proof. reflexivity. Qed.

Lemma in_any_ideal : forall es a, in_any ideal es a = true <-> lies_in es a.
Proof. intros. apply in_any_spec. Qed.

Lemma decision_table_q : forall q f a,
  allow q f (Some a) = false <->
  (lies_in_q q (f_block f) a /\ ~ lies_in_q q (f_allow f) a) \/
  (((~ lies_in_q q (f_block f) a /\ ~ lies_in_q q (f_allow f) a) \/
    (lies_in_q q (f_block f) a /\ lies_in_q q (f_allow f) a)) /\ f_block_default f = true).
Proof.
  intros q f a. rewrite <- !in_any_spec. unfold allow, decide.
  destruct (in_any q (f_allow f) a), (in_any q (f_block f) a), (f_block_default f);
    cbn; intuition congruence.
Qed.

Lemma decision_table : forall f a,
  allow ideal f (Some a) = false <->
  (lies_in (f_block f) a /\ ~ lies_in (f_allow f) a) \/
  (((~ lies_in (f_block f) a /\ ~ lies_in (f_allow f) a) \/
    (lies_in (f_block f) a /\ lies_in (f_allow f) a)) /\ f_block_default f = true).
Proof. intros. apply (decision_table_q ideal). Qed.

Lemma unparsable_default : forall q f, allow q f None = negb (f_block_default f).
Proof. reflexivity. Qed.

(** * 3. chains *)

Lemma chain_allow_spec : forall q fs oa,
  chain_allow q fs oa = true <-> forall f, In f fs -> allow q f oa = true.
Proof. intros. unfold chain_allow. apply forallb_forall. Qed.

Lemma chain_denied_spec : forall q fs oa,
  chain_allow q fs oa = false <-> exists f, In f fs /\ allow q f oa = false.
Proof.
  intros q fs oa. induction fs as [|f t IH]; cbn.
  - split; [discriminate | intros [? [[] _]]].
  - destruct (allow q f oa) eqn:E; cbn.
    + rewrite IH. split; intros [g [Hin Hg]]; exists g; split; auto.
      destruct Hin as [->|]; [congruence | assumption].
    + split; auto. intros _. exists f. auto.
Qed.

Lemma chain_allow_app : forall q fs gs oa,
  chain_allow q (fs ++ gs) oa = chain_allow q fs oa && chain_allow q gs oa.
Proof. intros. unfold chain_allow. apply forallb_app. Qed.

(** * 4. enforcement by the cache-less router (mini router) *)

Definition deny (q : quirks) (ip : option addr) (f : option ipf) : bool := negb (allow_opt q f ip).

Definition zrule := (mrule * (bool * list pbits))%type.

Lemma paths_loop_find : forall l i hm mm,
  match paths_loop l i hm mm with
  | PHit _ p => exists b, find path_matches l = Some (p, b)
  | PMiss _ _ => find path_matches l = None
  end.
Proof.
  induction l as [|[p b] t IH]; intros i hm mm; cbn [paths_loop find]; auto.
  unfold path_matches at 1 3. cbn [fst snd].
  destruct (pb_path b); cbn; [|apply IH].
  destruct (pb_method b); cbn; [|apply IH].
  destruct (mp_has_hdr p); cbn.
  - destruct (pb_hdr b); cbn; [eexists; reflexivity | apply IH].
  - eexists; reflexivity.
Qed.

Lemma rules_loop_forbidden_iff : forall q ip (rs : list zrule) ri hm mm,
  fst (rules_loop q ip rs ri hm mm) = OForbidden <->
  existsb (deny q ip) (applying_rules rs) = true.
Proof.
  intros q ip rs. induction rs as [|[r [hostm pbs]] t IH]; intros ri hm mm; cbn [rules_loop applying_rules].
  - destruct hm; [|destruct mm]; cbn; split; discriminate.
  - destruct hostm; cbn [negb]; [|apply IH].
    unfold deny. destruct (allow_opt q (mr_filter r) ip) eqn:Er; cbn [negb fst].
    + pose proof (paths_loop_find (combine (mr_paths r) pbs) 0 hm mm) as Hf.
      destruct (paths_loop (combine (mr_paths r) pbs) 0 hm mm) as [pi p | hm' mm'].
      * destruct Hf as [b ->]. cbn [existsb]. unfold deny. rewrite Er. cbn [negb orb].
        destruct (allow_opt q (mp_filter p) ip); cbn; split; congruence.
      * rewrite Hf. cbn [existsb]. unfold deny. rewrite Er. cbn [negb orb]. apply IH.
    + split; auto. intros _.
      destruct (find path_matches (combine (mr_paths r) pbs)) as [[p b]|]; cbn [existsb];
        unfold deny; rewrite Er; reflexivity.
Qed.

Lemma nocache_forbidden_iff_denied : forall q s r,
  search_nocache q s r = OForbidden <-> denied q s r = true.
Proof.
  intros q s r. unfold search_nocache, search_miss, denied, applying. cbn [existsb].
  destruct (allow_opt q (ms_filter s) (rq_ip r)); cbn [negb orb fst].
  - apply rules_loop_forbidden_iff.
  - split; reflexivity.
Qed.

(** erasing the filters *)
Definition erase_z (z : zrule) : zrule := (erase_rule (fst z), snd z).

Lemma combine_erase_rules : forall rs (m : list (bool * list pbits)),
  combine (map erase_rule rs) m = map erase_z (combine rs m).
Proof.
  induction rs as [|r t IH]; intros [|x m]; cbn; auto. rewrite IH. reflexivity.
Qed.

Lemma paths_loop_erase : forall ps (pbs : list pbits) i hm mm,
  paths_loop (combine (map erase_path ps) pbs) i hm mm =
  match paths_loop (combine ps pbs) i hm mm with
  | PHit pi p => PHit pi (erase_path p)
  | PMiss a b => PMiss a b
  end.
Proof.
  induction ps as [|p t IH]; intros [|b pbs] i hm mm; cbn [map combine paths_loop]; auto.
  cbn [erase_path mp_has_hdr].
  destruct (pb_path b); cbn; [|apply IH].
  destruct (pb_method b); cbn; [|apply IH].
  destruct (mp_has_hdr p && negb (pb_hdr b)); [apply IH | reflexivity].
Qed.

Lemma rules_loop_unaffected : forall q ip (rs : list zrule) ri hm mm,
  existsb (deny q ip) (applying_rules rs) = false ->
  fst (rules_loop q ip rs ri hm mm) = fst (rules_loop q ip (map erase_z rs) ri hm mm).
Proof.
  intros q ip rs. induction rs as [|[r [hostm pbs]] t IH]; intros ri hm mm Hd;
    cbn [rules_loop applying_rules map erase_z fst snd] in *; auto.
  destruct hostm; cbn [negb] in *; [|apply IH; assumption].
  cbn [erase_rule mr_filter mr_paths allow_opt negb].
  rewrite paths_loop_erase.
  pose proof (paths_loop_find (combine (mr_paths r) pbs) 0 hm mm) as Hf.
  destruct (paths_loop (combine (mr_paths r) pbs) 0 hm mm) as [pi p | hm' mm'].
  - destruct Hf as [b Hb]. rewrite Hb in Hd. cbn [existsb] in Hd. unfold deny in Hd.
    destruct (allow_opt q (mr_filter r) ip); cbn in Hd; [|discriminate].
    destruct (allow_opt q (mp_filter p) ip); cbn in Hd; [|discriminate].
    cbn [erase_path mp_filter mp_has_hdr allow_opt negb].
    destruct (mp_has_hdr p); reflexivity.
  - rewrite Hf in Hd. cbn [existsb] in Hd. unfold deny in Hd.
    destruct (allow_opt q (mr_filter r) ip); cbn in Hd; [|discriminate].
    cbn [negb]. apply IH. assumption.
Qed.

Lemma nocache_not_denied_unaffected : forall q s r,
  denied q s r = false -> search_nocache q s r = search_nocache q (erase s) r.
Proof.
  intros q s r Hd. unfold denied, applying in Hd. cbn [existsb] in Hd.
  apply orb_false_iff in Hd as [Hs Hr].
  unfold search_nocache, search_miss. cbn [erase ms_filter ms_rules allow_opt negb].
  rewrite combine_erase_rules.
  destruct (allow_opt q (ms_filter s) (rq_ip r)); cbn in Hs; [|discriminate].
  cbn [negb]. apply rules_loop_unaffected. exact Hr.
Qed.

Lemma serve_erase : forall s o, serve (erase s) o = serve s o.
Proof.
  intros s [| c | ri pi |]; cbn [serve]; auto.
  cbn [erase ms_rules]. rewrite nth_error_map.
  destruct (nth_error (ms_rules s) ri) as [rule|]; cbn [option_map]; auto.
  cbn [erase_rule mr_paths]. rewrite nth_error_map.
  destruct (nth_error (mr_paths rule) pi) as [p|]; cbn [option_map]; auto.
Qed.

(** filters never change the erased twin (quirks only act through filters) *)
Lemma erased_quirk_independent_rules : forall q q' ip ip' (rs : list zrule) ri hm mm,
  rules_loop q ip (map erase_z rs) ri hm mm = rules_loop q' ip' (map erase_z rs) ri hm mm.
Proof.
  intros q q' ip ip' rs. induction rs as [|[r [hostm pbs]] t IH]; intros ri hm mm;
    cbn [rules_loop map erase_z fst snd]; auto.
  destruct hostm; cbn [negb]; [|apply IH].
  cbn [erase_rule mr_filter mr_paths allow_opt negb]. rewrite paths_loop_erase.
  destruct (paths_loop (combine (mr_paths r) pbs) 0 hm mm); [reflexivity | apply IH].
Qed.

(** the two clauses of the property for the cache-less server *)
Lemma nocache_denied_refused : forall q s r,
  denied q s r = true -> serve s (search_nocache q s r) = (403, 0).
Proof. intros q s r H. apply nocache_forbidden_iff_denied in H. rewrite H. reflexivity. Qed.

Lemma nocache_not_denied_as_twin : forall q s r,
  denied q s r = false ->
  serve s (search_nocache q s r) = serve (erase s) (search_nocache q (erase s) r).
Proof.
  intros q s r H. rewrite serve_erase, <- nocache_not_denied_unaffected by assumption. reflexivity.
Qed.

(** * 5. the route cache: a hit re-evaluates the applying filters

    Everything here is for quirk records whose cache-hit flag is off (in particular
    [ideal]).  [twin_out] is the routing decision of the filter-less, cache-less twin. *)

Lemma paths_loop_nth : forall l i hm mm pi p,
  paths_loop l i hm mm = PHit pi p ->
  exists n b, pi = (i + n)%nat /\ nth_error l n = Some (p, b).
Proof.
  induction l as [|[p0 b0] t IH]; intros i hm mm pi p H; cbn [paths_loop] in H; [discriminate|].
  destruct (negb (pb_path b0)).
  { apply IH in H as (n & b & -> & Hn). exists (S n), b. split; [lia | exact Hn]. }
  destruct (negb (pb_method b0)).
  { apply IH in H as (n & b & -> & Hn). exists (S n), b. split; [lia | exact Hn]. }
  destruct (mp_has_hdr p0 && negb (pb_hdr b0)).
  { apply IH in H as (n & b & -> & Hn). exists (S n), b. split; [lia | exact Hn]. }
  inversion H; subst. exists 0%nat, b0. split; [lia | reflexivity].
Qed.

Lemma nth_error_combine_fst : forall {A B} (l1 : list A) (l2 : list B) n a b,
  nth_error (combine l1 l2) n = Some (a, b) -> nth_error l1 n = Some a.
Proof.
  induction l1 as [|x t IH]; intros [|y l2] [|n] a b H; cbn in *; try discriminate.
  - inversion H; reflexivity.
  - eapply IH; eassumption.
Qed.

Lemma erased_route_shape : forall q ip (rs : list zrule) k hm mm ri pi put,
  rules_loop q ip (map erase_z rs) k hm mm = (ORoute ri pi, put) ->
  exists n rule hostm pbs p,
    ri = (k + n)%nat /\ nth_error rs n = Some (rule, (hostm, pbs)) /\
    nth_error (mr_paths rule) pi = Some p /\
    forall q' ip', existsb (deny q' ip') (applying_rules rs) =
                   negb (visited_allow q' ip' rs (S n) && allow_opt q' (mp_filter p) ip').
Proof.
  intros q ip rs. induction rs as [|[r [hostm pbs]] t IH]; intros k hm mm ri pi put H;
    cbn [rules_loop map erase_z fst snd] in H.
  - destruct hm; [|destruct mm]; discriminate.
  - destruct hostm; cbn [negb] in H.
    + cbn [erase_rule mr_filter mr_paths allow_opt negb] in H. rewrite paths_loop_erase in H.
      pose proof (paths_loop_find (combine (mr_paths r) pbs) 0 hm mm) as Hf.
      destruct (paths_loop (combine (mr_paths r) pbs) 0 hm mm) as [pi0 p0 | hm' mm'] eqn:Ep.
      * cbn [erase_path mp_filter allow_opt] in H. inversion H; subst ri pi. clear H.
        apply paths_loop_nth in Ep as (n & b & -> & Hn). apply nth_error_combine_fst in Hn.
        destruct Hf as [b' Hb'].
        exists 0%nat, r, true, pbs, p0. repeat split; [lia | exact Hn |].
        intros q' ip'. cbn [applying_rules negb]. rewrite Hb'. cbn [existsb visited_allow]. unfold deny.
        destruct (allow_opt q' (mr_filter r) ip'), (allow_opt q' (mp_filter p0) ip'); reflexivity.
      * apply IH in H as (n & rule & hostm' & pbs' & p & -> & Hn & Hp & Happ).
        exists (S n), rule, hostm', pbs', p. repeat split; [lia | exact Hn | exact Hp |].
        intros q' ip'. cbn [applying_rules negb]. rewrite Hf. cbn [existsb]. rewrite Happ.
        cbn [visited_allow]. unfold deny.
        destruct (allow_opt q' (mr_filter r) ip'); reflexivity.
    + apply IH in H as (n & rule & hostm' & pbs' & p & -> & Hn & Hp & Happ).
      exists (S n), rule, hostm', pbs', p. repeat split; [lia | exact Hn | exact Hp |].
      intros q' ip'. cbn [applying_rules negb]. rewrite Happ. cbn [visited_allow]. reflexivity.
Qed.

Lemma hit_route : forall q q' s r ri pi,
  q_hit_skips_visited_rules q = false ->
  search_nocache q' (erase s) r = ORoute ri pi ->
  search_hit q s r (CRoute ri pi) = if denied q s r then OForbidden else ORoute ri pi.
Proof.
  intros q q' s r ri pi Hq H. unfold search_nocache, search_miss in H.
  cbn [erase ms_filter ms_rules allow_opt negb] in H. rewrite combine_erase_rules in H.
  destruct (rules_loop q' (rq_ip r) (map erase_z (combine (ms_rules s) (rq_m r))) 0 false false)
    as [o put] eqn:E. cbn [fst] in H. subst o.
  apply erased_route_shape in E as (n & rule & hostm & pbs & p & Hri & Hn & Hp & Happ).
  cbn in Hri. subst ri. apply nth_error_combine_fst in Hn.
  unfold search_hit. rewrite Hn, Hp, Hq. unfold denied, applying. cbn [existsb].
  pose proof (Happ q (rq_ip r)) as Ha. unfold deny in Ha. rewrite Ha.
  destruct (allow_opt q (ms_filter s) (rq_ip r)),
           (visited_allow q (rq_ip r) (combine (ms_rules s) (rq_m r)) (S n)),
           (allow_opt q (mp_filter p) (rq_ip r)); reflexivity.
Qed.

Lemma rules_loop_put_sound : forall q ip q' ip' (rs : list zrule) k hm mm o v,
  rules_loop q ip rs k hm mm = (o, Some v) ->
  fst (rules_loop q' ip' (map erase_z rs) k hm mm) =
  match v with CStatus c => OStatus c | CRoute ri pi => ORoute ri pi end.
Proof.
  intros q ip q' ip' rs. induction rs as [|[r [hostm pbs]] t IH]; intros k hm mm o v H;
    cbn [rules_loop map erase_z fst snd] in *.
  - destruct hm; [discriminate|]. destruct mm; inversion H; reflexivity.
  - destruct hostm; cbn [negb] in *; [|eapply IH; eassumption].
    cbn [erase_rule mr_filter mr_paths allow_opt negb]. rewrite paths_loop_erase.
    destruct (allow_opt q (mr_filter r) ip); cbn [negb] in H; [|discriminate].
    destruct (paths_loop (combine (mr_paths r) pbs) 0 hm mm) as [pi0 p0 | hm' mm'].
    + cbn [erase_path mp_filter mp_has_hdr allow_opt].
      destruct (mp_has_hdr p0); destruct (allow_opt q (mp_filter p0) ip); inversion H; reflexivity.
    + eapply IH; eassumption.
Qed.

Lemma rules_loop_status : forall q ip (rs : list zrule) k hm mm c,
  fst (rules_loop q ip rs k hm mm) = OStatus c -> c = 400 \/ c = 405 \/ c = 404.
Proof.
  intros q ip rs. induction rs as [|[r [hostm pbs]] t IH]; intros k hm mm c H; cbn [rules_loop] in H.
  - destruct hm; [|destruct mm]; cbn in H; inversion H; auto.
  - destruct hostm; cbn [negb] in H; [|eapply IH; eassumption].
    destruct (allow_opt q (mr_filter r) ip); cbn [negb fst] in H; [|discriminate].
    destruct (paths_loop (combine (mr_paths r) pbs) 0 hm mm) as [pi0 p0 | hm' mm'].
    + destruct (allow_opt q (mp_filter p0) ip); cbn in H; discriminate.
    + eapply IH; eassumption.
Qed.

Section History.
  Variable q : quirks.
  Hypothesis Hq : q_hit_skips_visited_rules q = false.

  Definition twin_out (s : mserver) (r : mreq) : mout := search_nocache q (erase s) r.

  (** a cached value is sound for a request: it is the twin's routing decision *)
  Definition sound (s : mserver) (r : mreq) (v : cval) : Prop :=
    twin_out s r = match v with CStatus c => OStatus c | CRoute ri pi => ORoute ri pi end.

  Definition cache_ok (s : mserver) (c : cache) (fut : list mreq) : Prop :=
    forall r v, In r fut -> cache_get (rq_key r) c = Some v -> sound s r v.

  (** the routing decision of the twin depends on the cache key only (no key
      collisions, no header-dependent answer under one key: property C12) *)
  Definition key_det (s : mserver) (reqs : list mreq) : Prop :=
    forall r1 r2, In r1 reqs -> In r2 reqs -> rq_key r1 = rq_key r2 -> twin_out s r1 = twin_out s r2.

  (** the eviction oracle reports a hit only for a key that was put before; it may
      report a miss for any key (arbitrary eviction) *)
  Fixpoint hits_present (s : mserver) (c : cache) (reqs : list mreq) : Prop :=
    match reqs with
    | [] => True
    | r :: t => (rq_hit r = true -> cache_get (rq_key r) c <> None) /\
                hits_present s (snd (search q s c r)) t
    end.

  (** the property for one request and its outcome (status, backend invoked or 0) *)
  Definition good (s : mserver) (r : mreq) (out : N * N) : Prop :=
    (denied q s r = true ->
       400 <= fst out < 500 /\ snd out = 0 /\
       (forall ri pi, twin_out s r = ORoute ri pi -> fst out = 403)) /\
    (denied q s r = false -> out = serve (erase s) (twin_out s r)).

  Lemma miss_put_sound : forall s r o v, search_miss q s r = (o, Some v) -> sound s r v.
  Proof.
    intros s r o v H. unfold sound, twin_out, search_nocache, search_miss in *.
    cbn [erase ms_filter ms_rules allow_opt negb]. rewrite combine_erase_rules.
    destruct (allow_opt q (ms_filter s) (rq_ip r)); cbn [negb] in H; [|discriminate].
    eapply rules_loop_put_sound. eassumption.
  Qed.

  Lemma twin_status_4xx : forall s r c, twin_out s r = OStatus c -> 400 <= c < 500.
  Proof.
    intros s r c H. unfold twin_out, search_nocache, search_miss in H.
    cbn [erase ms_filter allow_opt negb] in H. apply rules_loop_status in H. lia.
  Qed.

  Lemma good_miss : forall s r, good s r (serve s (search_nocache q s r)).
  Proof.
    intros s r. split; intro Hd.
    - rewrite nocache_denied_refused by assumption. cbn. split; [lia | split; [reflexivity | intros; reflexivity]].
    - apply nocache_not_denied_as_twin. assumption.
  Qed.

  Lemma good_hit : forall s r v, sound s r v -> good s r (serve s (search_hit q s r v)).
  Proof.
    intros s r [c | ri pi] Hs; unfold sound in Hs.
    - cbn [search_hit serve fst snd]. split; intro Hd.
      + pose proof (twin_status_4xx s r c Hs) as H4. split; [exact H4 | split; [reflexivity|]].
        intros ri pi Hr. rewrite Hr in Hs. discriminate.
      + rewrite Hs. reflexivity.
    - rewrite (hit_route q q s r ri pi Hq Hs). split; intro Hd; rewrite Hd.
      + cbn. split; [lia | split; [reflexivity | intros; reflexivity]].
      + rewrite Hs, serve_erase. reflexivity.
  Qed.

  Lemma key_det_tail : forall s r t, key_det s (r :: t) -> key_det s t.
  Proof. intros s r t H r1 r2 H1 H2. apply H; right; assumption. Qed.

  Theorem run_enforced : forall s reqs c,
    key_det s reqs -> cache_ok s c reqs -> hits_present s c reqs ->
    Forall2 (good s) reqs (run q s c reqs).
  Proof.
    intros s reqs. induction reqs as [|r t IH]; intros c Hk Hc Hh; cbn [run]; [constructor|].
    destruct Hh as [Hhit Hh]. unfold search in *.
    destruct (rq_hit r) eqn:Eh.
    - destruct (cache_get (rq_key r) c) as [v|] eqn:Eg; [|exfalso; apply Hhit; reflexivity].
      cbn [snd] in Hh. constructor.
      + apply good_hit. apply Hc; [left; reflexivity | exact Eg].
      + apply IH; [eapply key_det_tail; eassumption | | exact Hh].
        intros r' v' Hin. apply Hc. right. exact Hin.
    - destruct (search_miss q s r) as [o put] eqn:Em. cbn [snd] in Hh. constructor.
      + replace o with (search_nocache q s r) by (unfold search_nocache; rewrite Em; reflexivity).
        apply good_miss.
      + apply IH; [eapply key_det_tail; eassumption | | exact Hh].
        intros r' v' Hin Hg. destruct put as [v0|]; cbn [cache_put] in Hg.
        * cbn [cache_get] in Hg. destruct (rq_key r' =? rq_key r) eqn:Ek.
          -- inversion Hg; subst v'. apply N.eqb_eq in Ek.
             pose proof (miss_put_sound s r o v0 Em) as Hs. unfold sound in *.
             rewrite (Hk r' r); [exact Hs | right; exact Hin | left; reflexivity | exact Ek].
          -- apply Hc; [right; exact Hin | exact Hg].
        * apply Hc; [right; exact Hin | exact Hg].
  Qed.
End History.

(** * 6. refutations: with one defect flag on, the property fails on a concrete input *)

Definition q_mapped : quirks := {| q_mapped_entry_dead := true; q_hit_skips_visited_rules := false |}.
Definition q_hitskip : quirks := {| q_mapped_entry_dead := false; q_hit_skips_visited_rules := true |}.

(** allowIPs [::ffff:1.2.3.4], blockByDefault: the client 1.2.3.4 lies in an allowed
    entry and in no blocked one, yet it is denied *)
Lemma refuted_mapped :
  exists f a, lies_in (f_allow f) a /\ ~ lies_in (f_block f) a /\ allow q_mapped f (Some a) = false.
Proof.
  set (e := {| e_fam := V4; e_pre := 16909060; e_len := 32; e_mapped := true |}).
  exists {| f_block_default := true; f_allow := [e]; f_block := [] |}, {| a_fam := V4; a_val := 16909060 |}.
  split; [|split].
  - exists e. split; [left; reflexivity | vm_compute; reflexivity].
  - intros [x [[] _]].
  - vm_compute. reflexivity.
Qed.

(** rules [host-matching rule with filter "block 10.0.0.8" and no matching path;
    rule with the route to backend 2]: after an allowed client cached the route, the
    blocked client is dispatched (200, backend 2) although the cache-less server
    refuses it with 403 *)
Definition wit_block8 : ipf :=
  {| f_block_default := false; f_allow := [];
     f_block := [{| e_fam := V4; e_pre := 167772168; e_len := 32; e_mapped := false |}] |}.
Definition wit_server : mserver :=
  {| ms_filter := None;
     ms_rules := [ {| mr_filter := Some wit_block8; mr_paths := [] |};
                   {| mr_filter := None;
                      mr_paths := [ {| mp_filter := None; mp_has_hdr := false; mp_backend := 2 |} ] |} ] |}.
Definition wit_bits : list (bool * list pbits) :=
  [(true, []); (true, [ {| pb_path := true; pb_method := true; pb_hdr := false |} ])].
Definition wit_req (ip : N) (hit : bool) : mreq :=
  {| rq_ip := Some {| a_fam := V4; a_val := ip |}; rq_key := 1; rq_hit := hit; rq_m := wit_bits |}.
Definition wit_reqs : list mreq := [wit_req 872480001 false; wit_req 167772168 true].

Lemma refuted_hitskip :
  exists s reqs r,
    nth_error reqs 1 = Some r /\ denied ideal s r = true /\
    nth_error (run q_hitskip s [] reqs) 1 = Some (200, 2) /\
    nth_error (run_nocache q_hitskip s reqs) 1 = Some (403, 0) /\
    nth_error (run ideal s [] reqs) 1 = Some (403, 0).
Proof.
  exists wit_server, wit_reqs, (wit_req 167772168 true). vm_compute. repeat split; reflexivity.
Qed.

(** non-vacuity of [run_enforced]: the witness history satisfies its hypotheses *)
Lemma run_enforced_nonvacuous :
  key_det ideal wit_server wit_reqs /\ cache_ok ideal wit_server [] wit_reqs /\
  hits_present ideal wit_server [] wit_reqs /\
  run ideal wit_server [] wit_reqs = [(200, 2); (403, 0)].
Proof.
  split; [|split; [|split]].
  - intros r1 r2 [<-|[<-|[]]] [<-|[<-|[]]] _; reflexivity.
  - intros r v _ H. discriminate.
  - cbn. split; [discriminate|]. split; [discriminate | exact I].
  - vm_compute. reflexivity.
Qed.

Lemma cache_ok_empty : forall q s reqs, cache_ok q s [] reqs.
Proof. intros q s reqs r v _ H. discriminate. Qed.

Lemma run_enforced_ideal : forall s reqs,
  key_det ideal s reqs -> hits_present ideal s [] reqs ->
  Forall2 (good ideal s) reqs (run ideal s [] reqs).
Proof.
  intros s reqs Hk Hh. apply run_enforced; auto. apply cache_ok_empty.
Qed.
