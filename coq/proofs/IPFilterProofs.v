(** Proofs about the IP filter model (C05). *)
From EG.lib Require Import Base.
From EG.model Require Import IPFilter.
Open Scope N_scope.

(** * 1. [contains] is bit-prefix equality *)

Definition wf_entry (e : entry) : Prop :=
  e_len e <= fam_bits (e_fam e) /\ e_pre e < 2 ^ fam_bits (e_fam e).
Definition wf_addr (a : addr) : Prop := a_val a < 2 ^ fam_bits (a_fam a).

(** textbook definition: the [len] most significant of [bits] bits agree
    (bit [bits-1] is the first bit of the address as written) *)
Definition prefix_agree (bits len a p : N) : Prop :=
  forall i, i < len -> N.testbit a (bits - 1 - i) = N.testbit p (bits - 1 - i).

Lemma testbit_high : forall a b m, a < 2 ^ b -> b <= m -> N.testbit a m = false.
Proof.
  intros a b m Ha Hm. rewrite <- (N.mod_small a (2 ^ b)) by assumption.
  apply N.mod_pow2_bits_high. assumption.
Qed.

Lemma shiftr_eq_iff_prefix : forall bits len a p,
  len <= bits -> a < 2 ^ bits -> p < 2 ^ bits ->
  (N.shiftr a (bits - len) = N.shiftr p (bits - len) <-> prefix_agree bits len a p).
Proof.
  intros bits len a p Hl Ha Hp. split.
  - intros H i Hi.
    assert (E : bits - 1 - i = (len - 1 - i) + (bits - len)) by lia.
    rewrite E, <- !N.shiftr_spec', H. reflexivity.
  - intros H. apply N.bits_inj. intro n. rewrite !N.shiftr_spec'.
    destruct (N.ltb_spec (n + (bits - len)) bits) as [Hlt | Hge].
    + specialize (H (bits - 1 - (n + (bits - len)))).
      replace (bits - 1 - (bits - 1 - (n + (bits - len)))) with (n + (bits - len)) in H by lia.
      apply H. lia.
    + rewrite (testbit_high a bits), (testbit_high p bits); auto.
Qed.

Lemma fam_eqb_eq : forall a b, fam_eqb a b = true <-> a = b.
Proof. intros [] []; cbn; split; congruence. Qed.

Lemma contains_prefix : forall e a, wf_entry e -> wf_addr a ->
  (contains e a = true <->
   e_fam e = a_fam a /\ prefix_agree (fam_bits (e_fam e)) (e_len e) (a_val a) (e_pre e)).
Proof.
  intros e a [Hl Hp] Ha. unfold contains, wf_addr in *.
  rewrite andb_true_iff, fam_eqb_eq, N.eqb_eq. split.
  - intros [Hf H]. split; [exact Hf|]. rewrite Hf in *.
    apply shiftr_eq_iff_prefix; assumption.
  - intros [Hf H]. split; [exact Hf|]. rewrite <- Hf in Ha.
    apply shiftr_eq_iff_prefix; assumption.
Qed.

(** the mask form used by Go (ip & mask == network number), for a masked prefix *)
Lemma contains_mask_form : forall e a,
  e_len e <= fam_bits (e_fam e) ->
  N.shiftl (N.shiftr (e_pre e) (fam_bits (e_fam e) - e_len e)) (fam_bits (e_fam e) - e_len e) = e_pre e ->
  (contains e a = true <->
   e_fam e = a_fam a /\
   N.shiftl (N.shiftr (a_val a) (fam_bits (e_fam e) - e_len e)) (fam_bits (e_fam e) - e_len e) = e_pre e).
Proof.
  intros e a Hl Hm. unfold contains.
  rewrite andb_true_iff, fam_eqb_eq, N.eqb_eq. split; intros [Hf H]; split; auto.
  - rewrite H. exact Hm.
  - rewrite <- Hm in H. apply (f_equal (fun x => N.shiftr x (fam_bits (e_fam e) - e_len e))) in H.
    rewrite !N.shiftr_shiftl_l, !N.sub_diag, !N.shiftl_0_r in H by lia. exact H.
Qed.

(** * 2. the decision table *)

Definition lies_in_q (q : quirks) (es : list entry) (a : addr) : Prop :=
  exists e, In e es /\ contains_q q e a = true.

(** membership in a list of address/CIDR entries, standard prefix semantics *)
Definition lies_in (es : list entry) (a : addr) : Prop :=
  exists e, In e es /\ contains e a = true.

Lemma in_any_spec : forall q es a, in_any q es a = true <-> lies_in_q q es a.
Proof. intros. unfold in_any, lies_in_q. apply existsb_exists. Qed.

Lemma contains_q_ideal : forall e a, contains_q ideal e a = contains e a.
Proof. reflexivity. Qed.

Lemma in_any_ideal : forall es a, in_any ideal es a = true <-> lies_in es a.
Proof. intros. apply in_any_spec. Qed.

Lemma decision_table_q : forall q f a,
  allow q f (Some a) = false <->
  (lies_in_q q (f_block f) a /\ ~ lies_in_q q (f_allow f) a) \/
  (((~ lies_in_q q (f_block f) a /\ ~ lies_in_q q (f_allow f) a) \/
    (lies_in_q q (f_block f) a /\ lies_in_q q (f_allow f) a)) /\ f_block_default f = true).
Proof.
  intros q f a. rewrite <- !in_any_spec. unfold allow, decide.
  destruct (in_any q (f_allow f) a), (in_any q (f_block f) a), (f_block_default f);
    cbn; intuition congruence.
Qed.

Lemma decision_table : forall f a,
  allow ideal f (Some a) = false <->
  (lies_in (f_block f) a /\ ~ lies_in (f_allow f) a) \/
  (((~ lies_in (f_block f) a /\ ~ lies_in (f_allow f) a) \/
    (lies_in (f_block f) a /\ lies_in (f_allow f) a)) /\ f_block_default f = true).
Proof. intros. apply (decision_table_q ideal). Qed.

Lemma unparsable_default : forall q f, allow q f None = negb (f_block_default f).
Proof. reflexivity. Qed.

(** * 3. chains *)

Lemma chain_allow_spec : forall q fs oa,
  chain_allow q fs oa = true <-> forall f, In f fs -> allow q f oa = true.
Proof. intros. unfold chain_allow. apply forallb_forall. Qed.

Lemma chain_denied_spec : forall q fs oa,
  chain_allow q fs oa = false <-> exists f, In f fs /\ allow q f oa = false.
Proof.
  intros q fs oa. induction fs as [|f t IH]; cbn.
  - split; [discriminate | intros [? [[] _]]].
  - destruct (allow q f oa) eqn:E; cbn.
    + rewrite IH. split; intros [g [Hin Hg]]; exists g; split; auto.
      destruct Hin as [->|]; [congruence | assumption].
    + split; auto. intros _. exists f. auto.
Qed.

Lemma chain_allow_app : forall q fs gs oa,
  chain_allow q (fs ++ gs) oa = chain_allow q fs oa && chain_allow q gs oa.
Proof. intros. unfold chain_allow. apply forallb_app. Qed.

(** * 4. enforcement by the cache-less router (mini router) *)

Definition deny (q : quirks) (ip : option addr) (f : option ipf) : bool := negb (allow_opt q f ip).

Definition zrule := (mrule * (bool * list pbits))%type.

Lemma paths_loop_find : forall l i hm mm,
  match paths_loop l i hm mm with
  | PHit _ p => exists b, find path_matches l = Some (p, b)
  | PMiss _ _ => find path_matches l = None
  end.
Proof.
  induction l as [|[p b] t IH]; intros i hm mm; cbn [paths_loop find]; auto.
  unfold path_matches at 1 3. cbn [fst snd].
  destruct (pb_path b); cbn; [|apply IH].
  destruct (pb_method b); cbn; [|apply IH].
  destruct (mp_has_hdr p); cbn.
  - destruct (pb_hdr b); cbn; [eexists; reflexivity | apply IH].
  - eexists; reflexivity.
Qed.

Lemma rules_loop_forbidden_iff : forall q ip (rs : list zrule) ri hm mm,
  fst (rules_loop q ip rs ri hm mm) = OForbidden <->
  existsb (deny q ip) (applying_rules rs) = true.
Proof.
  intros q ip rs. induction rs as [|[r [hostm pbs]] t IH]; intros ri hm mm; cbn [rules_loop applying_rules].
  - destruct hm; [|destruct mm]; cbn; split; discriminate.
  - destruct hostm; cbn [negb]; [|apply IH].
    unfold deny. destruct (allow_opt q (mr_filter r) ip) eqn:Er; cbn [negb fst].
    + pose proof (paths_loop_find (combine (mr_paths r) pbs) 0 hm mm) as Hf.
      destruct (paths_loop (combine (mr_paths r) pbs) 0 hm mm) as [pi p | hm' mm'].
      * destruct Hf as [b ->]. cbn [existsb]. unfold deny. rewrite Er. cbn [negb orb].
        destruct (allow_opt q (mp_filter p) ip); cbn; split; congruence.
      * rewrite Hf. cbn [existsb]. unfold deny. rewrite Er. cbn [negb orb]. apply IH.
    + split; auto. intros _.
      destruct (find path_matches (combine (mr_paths r) pbs)) as [[p b]|]; cbn [existsb];
        unfold deny; rewrite Er; reflexivity.
Qed.

Lemma nocache_forbidden_iff_denied : forall q s r,
  search_nocache q s r = OForbidden <-> denied q s r = true.
Proof.
  intros q s r. unfold search_nocache, search_miss, denied, applying. cbn [existsb].
  destruct (allow_opt q (ms_filter s) (rq_ip r)); cbn [negb orb fst].
  - apply rules_loop_forbidden_iff.
  - split; reflexivity.
Qed.

(** erasing the filters *)
Definition erase_z (z : zrule) : zrule := (erase_rule (fst z), snd z).

Lemma combine_erase_rules : forall rs (m : list (bool * list pbits)),
  combine (map erase_rule rs) m = map erase_z (combine rs m).
Proof.
  induction rs as [|r t IH]; intros [|x m]; cbn; auto. rewrite IH. reflexivity.
Qed.

Lemma paths_loop_erase : forall ps (pbs : list pbits) i hm mm,
  paths_loop (combine (map erase_path ps) pbs) i hm mm =
  match paths_loop (combine ps pbs) i hm mm with
  | PHit pi p => PHit pi (erase_path p)
  | PMiss a b => PMiss a b
  end.
Proof.
  induction ps as [|p t IH]; intros [|b pbs] i hm mm; cbn [map combine paths_loop]; auto.
  cbn [erase_path mp_has_hdr].
  destruct (pb_path b); cbn; [|apply IH].
  destruct (pb_method b); cbn; [|apply IH].
  destruct (mp_has_hdr p && negb (pb_hdr b)); [apply IH | reflexivity].
Qed.

Lemma rules_loop_unaffected : forall q ip (rs : list zrule) ri hm mm,
  existsb (deny q ip) (applying_rules rs) = false ->
  fst (rules_loop q ip rs ri hm mm) = fst (rules_loop q ip (map erase_z rs) ri hm mm).
Proof.
  intros q ip rs. induction rs as [|[r [hostm pbs]] t IH]; intros ri hm mm Hd;
    cbn [rules_loop applying_rules map erase_z fst snd] in *; auto.
  destruct hostm; cbn [negb] in *; [|apply IH; assumption].
  cbn [erase_rule mr_filter mr_paths allow_opt negb].
  rewrite paths_loop_erase.
  pose proof (paths_loop_find (combine (mr_paths r) pbs) 0 hm mm) as Hf.
  destruct (paths_loop (combine (mr_paths r) pbs) 0 hm mm) as [pi p | hm' mm'].
  - destruct Hf as [b Hb]. rewrite Hb in Hd. cbn [existsb] in Hd. unfold deny in Hd.
    destruct (allow_opt q (mr_filter r) ip); cbn in Hd; [|discriminate].
    destruct (allow_opt q (mp_filter p) ip); cbn in Hd; [|discriminate].
    cbn [erase_path mp_filter mp_has_hdr allow_opt negb].
    destruct (mp_has_hdr p); reflexivity.
  - rewrite Hf in Hd. cbn [existsb] in Hd. unfold deny in Hd.
    destruct (allow_opt q (mr_filter r) ip); cbn in Hd; [|discriminate].
    cbn [negb]. apply IH. assumption.
Qed.

Lemma nocache_not_denied_unaffected : forall q s r,
  denied q s r = false -> search_nocache q s r = search_nocache q (erase s) r.
Proof.
  intros q s r Hd. unfold denied, applying in Hd. cbn [existsb] in Hd.
  apply orb_false_iff in Hd as [Hs Hr].
  unfold search_nocache, search_miss. cbn [erase ms_filter ms_rules allow_opt negb].
  rewrite combine_erase_rules.
  destruct (allow_opt q (ms_filter s) (rq_ip r)); cbn in Hs; [|discriminate].
  cbn [negb]. apply rules_loop_unaffected. exact Hr.
Qed.

Lemma serve_erase : forall s o, serve (erase s) o = serve s o.
Proof.
  intros s [| c | ri pi |]; cbn [serve]; auto.
  cbn [erase ms_rules]. rewrite nth_error_map.
  destruct (nth_error (ms_rules s) ri) as [rule|]; cbn [option_map]; auto.
  cbn [erase_rule mr_paths]. rewrite nth_error_map.
  destruct (nth_error (mr_paths rule) pi) as [p|]; cbn [option_map]; auto.
Qed.

(** filters never change the erased twin (quirks only act through filters) *)
Lemma erased_quirk_independent_rules : forall q q' ip ip' (rs : list zrule) ri hm mm,
  rules_loop q ip (map erase_z rs) ri hm mm = rules_loop q' ip' (map erase_z rs) ri hm mm.
Proof.
  intros q q' ip ip' rs. induction rs as [|[r [hostm pbs]] t IH]; intros ri hm mm;
    cbn [rules_loop map erase_z fst snd]; auto.
  destruct hostm; cbn [negb]; [|apply IH].
  cbn [erase_rule mr_filter mr_paths allow_opt negb]. rewrite paths_loop_erase.
  destruct (paths_loop (combine (mr_paths r) pbs) 0 hm mm); [reflexivity | apply IH].
Qed.

(** the two clauses of the property for the cache-less server *)
Lemma nocache_denied_refused : forall q s r,
  denied q s r = true -> serve s (search_nocache q s r) = (403, 0).
Proof. intros q s r H. apply nocache_forbidden_iff_denied in H. rewrite H. reflexivity. Qed.

Lemma nocache_not_denied_as_twin : forall q s r,
  denied q s r = false ->
  serve s (search_nocache q s r) = serve (erase s) (search_nocache q (erase s) r).
Proof.
  intros q s r H. rewrite serve_erase, <- nocache_not_denied_unaffected by assumption. reflexivity.
Qed.
