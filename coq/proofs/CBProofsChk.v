(** C08: soundness of the trace checker used as [prop]: every trace of the contract
    automaton (hence, by refinement, of the concrete model) is accepted by [chk_run]. *)
From EG.lib Require Import Base.
From EG.model Require Import CB CBCheck.
From EG.proofs Require Import CBProofsWin CBProofsRef CBProofs.
From Coq Require Import ZifyBool.
Open Scope Z_scope.

Definition cinv (pol : policy) (h : chk) (s : spec) : Prop :=
  h_state h = s_state s /\ h_id h = s_id s /\ h_transit h = s_transit s /\
  (s_state s = HalfOpen -> h_trials h = s_trials s) /\
  (s_state s <> Open -> h_log h = s_log s) /\ sp_wf pol s.

Ltac zb :=
  repeat match goal with
  | |- context [Z.eqb ?a ?b] => destruct (Z.eqb_spec a b); try lia
  | |- context [Z.ltb ?a ?b] => destruct (Z.ltb_spec a b); try lia
  | |- context [Z.leb ?a ?b] => destruct (Z.leb_spec a b); try lia
  end.

Ltac fin :=
  try match goal with W : sp_wf _ ?s, E : s_state ?s = _ |- _ => unfold sp_wf in W; rewrite E in W end;
  unfold cinv, sp_wf;
  cbn [h_state h_id h_transit h_trials h_log s_state s_id s_transit s_trials s_log s_kind
       sp_set_log sp_set_trials reopened opened recovered half_open_entry];
  repeat match goal with E : s_state _ = _ |- _ => rewrite ?E end;
  repeat split; auto; try congruence; try discriminate;
  try match goal with H : _ <> Open -> h_log _ = _ |- _ => apply H; congruence end.

Lemma st_eqb_refl a : st_eqb a a = true.
Proof. destruct a; reflexivity. Qed.

Lemma chk_acquire_ok pol now h s b s' :
  cinv pol h s -> sp_acquire pol now s = (b, s') ->
  chk_acquire pol now h (b, s_state s', s_id s') = true /\
  cinv pol (chk_next now (OAcq now) pol h (b, s_state s', s_id s')) s'.
Proof.
  intros (H1 & H2 & H3 & H4 & H5 & W) E.
  unfold chk_acquire, chk_next, same, moved. rewrite H1, H2, H3.
  destruct (s_state s) eqn:Es.
  - (* closed *)
    rewrite closed_passes in E by exact Es. injection E as <- <-.
    rewrite Es, Z.eqb_refl. cbn [st_eqb andb negb orb]. split; [reflexivity|].
    fin.
  - (* half open *)
    rewrite (H4 eq_refl).
    destruct (Z.lt_ge_cases (s_trials s) (p_perm pol)) as [Hlt | Hge].
    + rewrite acq_half_admit in E by assumption. injection E as <- <-.
      cbn [s_state s_id sp_set_trials]. rewrite Es, Z.eqb_refl. cbn [st_eqb andb negb orb].
      destruct (Z.ltb_spec (s_trials s) (p_perm pol)); [|lia]. split; [reflexivity|].
      fin.
    + destruct (Z.ltb_spec (s_trials s) (p_perm pol)); [lia|].
      destruct (Z.lt_ge_cases 0 (p_maxwait pol)) as [M0 | M0];
      [destruct (Z.lt_ge_cases (p_maxwait pol) (now - s_transit s)) as [M1 | M1]|].
      * rewrite acq_half_reopen in E by assumption. injection E as <- <-.
        cbn [s_state s_id reopened].
        destruct (Z.ltb_spec 0 (p_maxwait pol)); [|lia].
        destruct (Z.ltb_spec (p_maxwait pol) (now - s_transit s)); [|lia].
        rewrite Z.eqb_refl. cbn [st_eqb andb negb orb]. split; [reflexivity|].
        destruct (Z.eqb_spec (s_id s + 1) (s_id s)); [lia|]. cbn [negb orb].
        fin.
      * rewrite acq_half_reject in E by (auto; lia). injection E as <- <-.
        rewrite Es, Z.eqb_refl. cbn [st_eqb andb negb orb].
        destruct (Z.ltb_spec 0 (p_maxwait pol)); [|lia].
        destruct (Z.ltb_spec (p_maxwait pol) (now - s_transit s)); [lia|]. cbn [andb].
        split; [reflexivity|].
        fin.
      * rewrite acq_half_reject in E by (auto; lia). injection E as <- <-.
        rewrite Es, Z.eqb_refl. cbn [st_eqb andb negb orb].
        destruct (Z.ltb_spec 0 (p_maxwait pol)); [lia|]. cbn [andb].
        split; [reflexivity|].
        fin.
  - (* open *)
    destruct (Z.lt_ge_cases (now - s_transit s) (p_wait pol)) as [Hw | Hw].
    + rewrite acq_open_wait in E by assumption. injection E as <- <-.
      destruct (Z.ltb_spec (now - s_transit s) (p_wait pol)); [|lia].
      rewrite Es, Z.eqb_refl. cbn [st_eqb andb negb orb]. split; [reflexivity|].
      fin.
    + rewrite acq_open_elapsed in E by assumption. injection E as <- <-.
      destruct (Z.ltb_spec (now - s_transit s) (p_wait pol)); [lia|].
      cbn [s_state s_id half_open_entry]. rewrite Z.eqb_refl, eqb_reflx. cbn [st_eqb andb].
      split; [reflexivity|].
      destruct (Z.eqb_spec (s_id s + 1) (s_id s)); [lia|]. cbn [negb orb].
      fin.
Qed.

Lemma chk_record_ok pol now id r h s b s' :
  cinv pol h s -> sp_record pol now id r s = (b, s') ->
  match chk_record pol now id r h (b, s_state s', s_id s') with Some x => x = true | None => True end /\
  forall err dur, classify pol err dur = r ->
    cinv pol (chk_next now (ORec now id err dur) pol h (b, s_state s', s_id s')) s'.
Proof.
  intros (H1 & H2 & H3 & H4 & H5 & W) E.
  unfold chk_record, chk_next, same, moved. rewrite H1, H2.
  destruct (Z.eqb_spec id (s_id s)) as [-> | N]; cbn [negb].
  2:{ rewrite stale_ignored_local in E by exact N. injection E as <- <-.
      rewrite st_eqb_refl, Z.eqb_refl. cbn [andb negb orb]. split; [reflexivity|]. intros err dur _.
      fin. }
  destruct (Z.le_gt_cases (kind_size (s_kind s)) 0) as [K | K].
  { (* zero-sized window: the recording panics, nothing changes *)
    rewrite rec_zero_size in E by exact K. injection E as <- <-.
    rewrite st_eqb_refl, Z.eqb_refl. cbn [andb negb orb].
    split.
    - unfold sp_wf in W. destruct (s_state s) eqn:Es; auto.
      + rewrite W in K. unfold pol_kind in K. destruct (p_time pol); cbn [kind_size] in K;
          (destruct (Z.leb_spec (p_size pol) 0); [reflexivity | lia]).
      + rewrite W in K. cbn [kind_size] in K. destruct (Z.leb_spec (p_perm pol) 0); [reflexivity | lia].
    - intros err dur _. fin. }
  rewrite rec_current in E by exact K. injection E as <- <-.
  unfold sp_wf in W.
  destruct (s_state s) eqn:Es.
  - (* closed *)
    rewrite W in *. assert (Hsz : 0 < p_size pol) by (unfold pol_kind in K; destruct (p_time pol); exact K).
    destruct (Z.leb_spec (p_size pol) 0); [lia|].
    rewrite (H5 ltac:(congruence)). cbn [min_calls].
    set (log' := (sec_of now, r) :: s_log s). set (v := view (pol_kind pol) (sec_of now) log').
    destruct (Z.ltb_spec (Z.of_nat (List.length v)) (p_min pol)) as [Hlt | Hge].
    + destruct (Z.leb_spec (p_min pol) (Z.of_nat (List.length v))); [lia|]. cbn [andb negb].
      cbn [s_state s_id sp_set_log]. rewrite Es, Z.eqb_refl. cbn [st_eqb andb negb orb].
      split; [reflexivity|]. intros err dur Hr. rewrite Hr.
      fin.
    + destruct (Z.leb_spec (p_min pol) (Z.of_nat (List.length v))); [|lia]. cbn [andb negb].
      destruct (trips pol v).
      * cbn [s_state s_id opened]. rewrite Z.eqb_refl. cbn [st_eqb andb]. split; [reflexivity|].
        intros err dur Hr.
        destruct (Z.eqb_spec (s_id s + 1) (s_id s)); [lia|]. cbn [negb orb].
        fin.
      * cbn [s_state s_id sp_set_log]. rewrite Es, Z.eqb_refl. cbn [st_eqb andb negb orb].
        split; [reflexivity|]. intros err dur Hr. rewrite Hr.
        fin.
  - (* half open *)
    rewrite W in *. cbn [kind_size] in K.
    destruct (Z.leb_spec (p_perm pol) 0); [lia|].
    rewrite (H5 ltac:(congruence)). cbn [min_calls].
    set (log' := (sec_of now, r) :: s_log s). set (v := view (KCount (p_perm pol)) (sec_of now) log').
    destruct (Z.ltb_spec (Z.of_nat (List.length v)) (Z.min (p_min pol) (p_perm pol))) as [Hlt | Hge].
    + cbn [s_state s_id sp_set_log negb andb]. rewrite Es, Z.eqb_refl. cbn [st_eqb andb negb orb].
      split; [reflexivity|]. intros err dur Hr. rewrite Hr.
      fin.
    + destruct (trips pol v).
      * cbn [s_state s_id opened negb andb]. rewrite Z.eqb_refl. cbn [st_eqb andb]. split; [reflexivity|].
        intros err dur Hr.
        destruct (Z.eqb_spec (s_id s + 1) (s_id s)); [lia|]. cbn [negb orb].
        fin.
      * cbn [s_state s_id recovered negb andb]. rewrite Z.eqb_refl. cbn [st_eqb andb]. split; [reflexivity|].
        intros err dur Hr.
        destruct (Z.eqb_spec (s_id s + 1) (s_id s)); [lia|]. cbn [negb orb].
        fin.
  - (* open: the contract is silent, the state stays open *)
    assert (X : forall (c : bool) (x : spec), (if c then x else x) = x) by (intros [] ?; reflexivity).
    rewrite X. cbn [s_state s_id sp_set_log]. rewrite Es, Z.eqb_refl. cbn [st_eqb andb negb orb].
    split; [reflexivity|]. intros err dur Hr.
    fin.
Qed.

Lemma chk_step_ok pol o h s :
  cinv pol h s ->
  fst (chk_step pol o h (fst (sp_step pol o s))) = true /\
  cinv pol (snd (chk_step pol o h (fst (sp_step pol o s)))) (snd (sp_step pol o s)).
Proof.
  intro H. destruct o as [now | now id err dur]; cbn [sp_step]; unfold chk_step; cbn [op_now].
  - destruct (sp_acquire pol now s) as [b s'] eqn:E. cbn [fst snd].
    exact (chk_acquire_ok _ _ _ _ _ _ H E).
  - destruct (sp_record pol now id (classify pol err dur) s) as [b s'] eqn:E. cbn [fst snd].
    destruct (chk_record_ok _ _ _ _ _ _ _ _ H E) as [A B]. split; [|now apply B].
    destruct (chk_record pol now id (classify pol err dur) h (b, s_state s', s_id s')); auto.
Qed.

Theorem checker_accepts_gen pol : forall ops h s,
  cinv pol h s -> chk_run pol h ops (sp_run pol s ops) = true.
Proof.
  induction ops as [|o t IH]; intros h s H; [reflexivity|].
  cbn [sp_run chk_run].
  destruct (chk_step_ok pol o h s H) as [A B].
  destruct (sp_step pol o s) as [ob s']. cbn [fst snd] in *.
  destruct (chk_step pol o h ob) as [ok h']. cbn [fst snd] in *. subst ok.
  cbn [andb]. now apply IH.
Qed.

Theorem checker_accepts_spec : forall pol t0 ops,
  chk_run pol (chk_init t0) ops (sp_run pol (sp_new pol t0) ops) = true.
Proof.
  intros. apply checker_accepts_gen. unfold cinv, chk_init, sp_new, sp_wf. cbn. repeat split; auto.
Qed.

(** ... and therefore every trace of the concrete model (ring buffers, uint arithmetic) *)
Theorem checker_accepts_model : forall pol t0 ops,
  mono t0 ops ->
  p_perm pol < bound -> (p_time pol = false -> p_size pol < bound) ->
  (p_time pol = true -> Z.of_nat (List.length ops) < bound) ->
  chk_run pol (chk_init t0) ops (cb_run pol (cb_new pol t0) ops) = true.
Proof.
  intros. rewrite refines_spec by assumption. apply checker_accepts_spec.
Qed.
