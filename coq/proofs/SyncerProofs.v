(** Lemmas about the syncer model (C19): isDataEqual is map equality; every event
    list yields snapshots that are store states in non-decreasing order, pairwise
    different, starting with the content at the first pull and ending (after a pull
    that follows the last write) with the final content; the trace checker accepts
    exactly the model's outputs. *)
From EG.lib Require Import Base.
From EG.model Require Import Syncer.

(** * association lists *)

Lemma alookup_none_iff {A} k (d : list (string * A)) : alookup k d = None <-> ~ In k (map fst d).
Proof.
  induction d as [|[k' v] t IH]; simpl.
  - split; [intros _ []| reflexivity].
  - destruct (String.eqb_spec k k') as [->|N].
    + split; [discriminate| intros H; exfalso; apply H; left; reflexivity].
    + rewrite IH. split.
      * intros H [E|I]; [congruence | exact (H I)].
      * intros H I. apply H. right. exact I.
Qed.

Lemma alookup_some_in {A} k (v : A) d : alookup k d = Some v -> In (k, v) d.
Proof.
  induction d as [|[k' v'] t IH]; simpl; [discriminate|].
  destruct (String.eqb_spec k k') as [->|N].
  - intros E; inversion E; subst. left; reflexivity.
  - intros E. right. apply IH, E.
Qed.

Lemma alookup_nodup {A} k (v : A) d : NoDup (map fst d) -> In (k, v) d -> alookup k d = Some v.
Proof.
  induction d as [|[k' v'] t IH]; simpl; [intros _ []|].
  intros ND [E|I].
  - inversion E; subst. rewrite String.eqb_refl. reflexivity.
  - inversion ND as [|? ? NI ND']; subst.
    destruct (String.eqb_spec k k') as [->|N].
    + exfalso. apply NI. change k' with (fst (k', v)). apply in_map, I.
    + apply IH; assumption.
Qed.

Lemma all_in_spec d1 d2 :
  all_in d1 d2 = true <-> (forall k v, In (k, v) d1 -> alookup k d2 = Some v).
Proof.
  induction d1 as [|[k v] t IH]; simpl.
  - split; [intros _ ? ? []| reflexivity].
  - split.
    + intros H k0 v0 [E|I].
      * inversion E; subst. destruct (alookup k0 d2) as [v2|]; [|discriminate].
        apply andb_true_iff in H as [H1 _]. apply String.eqb_eq in H1. congruence.
      * destruct (alookup k d2) as [v2|]; [|discriminate].
        apply andb_true_iff in H as [_ H2]. apply (proj1 IH H2), I.
    + intros H. rewrite (H k v (or_introl eq_refl)). rewrite String.eqb_refl. simpl.
      apply IH. intros k0 v0 I. apply H. right. exact I.
Qed.

Lemma is_data_equal_fwd d1 d2 :
  wf d1 -> is_data_equal d1 d2 = true -> forall k, alookup k d1 = alookup k d2.
Proof.
  unfold wf, is_data_equal. intros ND H k.
  apply andb_true_iff in H as [HL HA]. apply Nat.eqb_eq in HL.
  assert (HA' := proj1 (all_in_spec d1 d2) HA).
  assert (INC : incl (map fst d1) (map fst d2)).
  { intros x Ix. apply in_map_iff in Ix as [[k0 v0] [<- I0]]. simpl.
    specialize (HA' _ _ I0). apply alookup_some_in in HA'.
    change k0 with (fst (k0, v0)). apply in_map, HA'. }
  assert (INC' : incl (map fst d2) (map fst d1)).
  { apply NoDup_length_incl; [exact ND| rewrite !map_length; lia | exact INC]. }
  destruct (alookup k d1) as [v|] eqn:E1.
  - symmetry. apply HA'. apply alookup_some_in, E1.
  - destruct (alookup k d2) as [v2|] eqn:E2; [|reflexivity].
    exfalso. apply alookup_none_iff in E1. apply E1, INC'.
    apply alookup_some_in in E2. change k with (fst (k, v2)). apply in_map, E2.
Qed.

Lemma is_data_equal_bwd d1 d2 :
  wf d1 -> wf d2 -> (forall k, alookup k d1 = alookup k d2) -> is_data_equal d1 d2 = true.
Proof.
  unfold wf, is_data_equal. intros ND1 ND2 H.
  assert (I12 : incl (map fst d1) (map fst d2)).
  { intros k Ik. destruct (alookup k d2) eqn:E.
    - apply alookup_some_in in E. change k with (fst (k, s)). apply in_map, E.
    - rewrite <- H in E. apply alookup_none_iff in E. contradiction. }
  assert (I21 : incl (map fst d2) (map fst d1)).
  { intros k Ik. destruct (alookup k d1) eqn:E.
    - apply alookup_some_in in E. change k with (fst (k, s)). apply in_map, E.
    - rewrite H in E. apply alookup_none_iff in E. contradiction. }
  apply andb_true_iff; split.
  - apply Nat.eqb_eq.
    pose proof (NoDup_incl_length ND1 I12) as L1. pose proof (NoDup_incl_length ND2 I21) as L2.
    rewrite !map_length in L1, L2. lia.
  - apply all_in_spec. intros k v I. rewrite <- H. apply alookup_nodup; assumption.
Qed.

Lemma is_data_equal_spec d1 d2 :
  wf d1 -> wf d2 -> (is_data_equal d1 d2 = true <-> forall k, alookup k d1 = alookup k d2).
Proof.
  intros W1 W2; split; [apply is_data_equal_fwd, W1 | apply is_data_equal_bwd; assumption].
Qed.

Lemma is_data_equal_refl d : wf d -> is_data_equal d d = true.
Proof. intros W. apply is_data_equal_bwd; auto. Qed.

(** * content equality *)

Lemma kv_eqb_spec a b : kv_eqb a b = true <-> a = b.
Proof.
  destruct a as [k v], b as [k' v']. unfold kv_eqb; simpl. rewrite andb_true_iff, !String.eqb_eq.
  split; [intros [-> ->]; reflexivity | intros E; inversion E; auto].
Qed.

Lemma content_eqb_spec a b : content_eqb a b = true <-> a = b.
Proof. apply list_eqb_spec, kv_eqb_spec. Qed.

Lemma content_eqb_refl a : content_eqb a a = true.
Proof. apply content_eqb_spec; reflexivity. Qed.

(** * the run loop *)

Lemma last_cons_default {A} (l : list A) a d : last (a :: l) d = last l a.
Proof.
  revert a d. induction l as [|b t IH]; intros a d; [reflexivity|].
  change (last (a :: b :: t) d) with (last (b :: t) d). rewrite (IH b d), (IH b a). reflexivity.
Qed.

Lemma last_app_default {A} (l1 l2 : list A) d : last (l1 ++ l2) d = last l2 (last l1 d).
Proof.
  revert d. induction l1 as [|a t IH]; intros d; [reflexivity|].
  rewrite <- app_comm_cons, !last_cons_default. apply IH.
Qed.

Lemma run_from_app st a b : run_from st (a ++ b) = run_from st a ++ run_from (final_state st a) b.
Proof.
  revert st. induction a as [|e t IH]; intros st; simpl; [reflexivity|].
  rewrite IH, app_assoc. reflexivity.
Qed.

Lemma final_state_app st a b : final_state st (a ++ b) = final_state (final_state st a) b.
Proof. revert st. induction a as [|e t IH]; intros st; simpl; [reflexivity| apply IH]. Qed.

Lemma writes_app a b : writes (a ++ b) = writes a ++ writes b.
Proof.
  induction a as [|e t IH]; simpl; [reflexivity|]. destruct e; simpl; rewrite IH; reflexivity.
Qed.

Lemma writes_map_Write l : writes (map Write l) = l.
Proof. induction l as [|a t IH]; simpl; [reflexivity| rewrite IH; reflexivity]. Qed.

(** one step, by cases: a write, an ineffective event, a pull that sends or not *)
Lemma step_cases st e :
  (exists s, e = Write s /\ step st e = ({| store := s; data := data st |}, [])) \/
  (is_pull e = false /\ writes [e] = [] /\ step st e = (st, [])) \/
  (is_pull e = true /\ writes [e] = [] /\ is_data_equal (data st) (store st) = true /\ step st e = (st, [])) \/
  (is_pull e = true /\ writes [e] = [] /\ is_data_equal (data st) (store st) = false /\
   step st e = ({| store := store st; data := store st |}, [store st])).
Proof.
  assert (P : forall e', is_pull e' = true -> writes [e'] = [] -> step st e' = pull_compare_send st ->
     (is_pull e' = true /\ writes [e'] = [] /\ is_data_equal (data st) (store st) = true /\ step st e' = (st, [])) \/
     (is_pull e' = true /\ writes [e'] = [] /\ is_data_equal (data st) (store st) = false /\
      step st e' = ({| store := store st; data := store st |}, [store st]))).
  { intros e' P W E. rewrite E. unfold pull_compare_send.
    destruct (is_data_equal (data st) (store st)); [left|right]; auto. }
  destruct e.
  - left. eexists; split; reflexivity.
  - right; right. apply P; reflexivity.
  - right; left; auto.
  - right; right. apply P; reflexivity.
  - right; left; auto.
  - right; right. apply P; reflexivity.
Qed.

Lemma writes_cons e t : writes (e :: t) = writes [e] ++ writes t.
Proof. change (e :: t) with ([e] ++ t). apply writes_app. Qed.

Lemma store_final st evs : store (final_state st evs) = last (writes evs) (store st).
Proof.
  revert st. induction evs as [|e t IH]; intros st; [reflexivity|].
  simpl final_state. rewrite IH, (writes_cons e t).
  destruct (step_cases st e) as [[s [-> ->]]|[[_ [W ->]]|[[_ [W [_ ->]]]|[_ [W [_ ->]]]]]];
    try (rewrite W); simpl fst; simpl store; try reflexivity.
  simpl app. rewrite last_cons_default. reflexivity.
Qed.

Lemma data_final st evs : data (final_state st evs) = last (run_from st evs) (data st).
Proof.
  revert st. induction evs as [|e t IH]; intros st; [reflexivity|].
  simpl final_state. simpl run_from. rewrite IH.
  destruct (step_cases st e) as [[s [-> ->]]|[[_ [_ ->]]|[[_ [_ [_ ->]]]|[_ [_ [_ ->]]]]]];
    simpl fst; simpl snd; simpl app; simpl data; try reflexivity.
  rewrite last_cons_default. reflexivity.
Qed.

(** ** snapshots are store states, in non-decreasing store order *)

Fixpoint nondecr_from (lo : nat) (l : list nat) : Prop :=
  match l with
  | [] => True
  | i :: t => lo <= i /\ nondecr_from i t
  end.

Lemma nondecr_shift lo l : nondecr_from lo l -> nondecr_from (S lo) (map S l).
Proof.
  revert lo. induction l as [|i t IH]; intros lo; simpl; [auto|].
  intros [H1 H2]. split; [lia| apply IH, H2].
Qed.

Lemma nondecr_weaken lo lo' l : lo' <= lo -> nondecr_from lo l -> nondecr_from lo' l.
Proof. destruct l as [|i t]; simpl; [auto|]. intros H [H1 H2]. split; [lia| exact H2]. Qed.

Lemma run_monotone st evs :
  exists idx, Forall2 (fun i x => nth_error (store st :: writes evs) i = Some x) idx (run_from st evs)
              /\ nondecr_from 0 idx.
Proof.
  revert st. induction evs as [|e t IH]; intros st.
  - exists []. split; constructor.
  - simpl run_from. rewrite (writes_cons e t).
    destruct (step_cases st e) as [[s [-> ->]]|[[_ [W ->]]|[[_ [W [_ ->]]]|[_ [W [_ ->]]]]]];
      try rewrite W; simpl fst; simpl snd; simpl app.
    + destruct (IH {| store := s; data := data st |}) as [idx [F N]]. simpl store in F.
      exists (map S idx). split.
      * clear N. induction F; simpl; constructor; auto.
      * apply nondecr_weaken with 1; [lia|]. apply nondecr_shift, N.
    + apply IH.
    + apply IH.
    + destruct (IH {| store := store st; data := store st |}) as [idx [F N]]. simpl store in F.
      exists (0 :: idx). split; [constructor; [reflexivity| exact F] | simpl; split; [lia| exact N]].
Qed.

Lemma run_in_states st evs x : In x (run_from st evs) -> In x (store st :: writes evs).
Proof.
  intros I. destruct (run_monotone st evs) as [idx [F _]].
  induction F as [|i y li lx H F' IH]; [destruct I|].
  destruct I as [<-|I]; [eapply nth_error_In, H | apply IH, I].
Qed.

(** ** consecutive snapshots differ (also the first from the implicit empty one) *)

Fixpoint adj_differ (d : content) (l : list content) : Prop :=
  match l with
  | [] => True
  | x :: t => is_data_equal d x = false /\ adj_differ x t
  end.

Lemma run_adj_differ st evs : adj_differ (data st) (run_from st evs).
Proof.
  revert st. induction evs as [|e t IH]; intros st; [exact I|].
  simpl run_from.
  destruct (step_cases st e) as [[s [-> ->]]|[[_ [_ ->]]|[[_ [_ [_ ->]]]|[_ [_ [D ->]]]]]];
    simpl fst; simpl snd; simpl app.
  - apply (IH {| store := s; data := data st |}).
  - apply IH.
  - apply IH.
  - split; [exact D|]. apply (IH {| store := store st; data := store st |}).
Qed.

Lemma adj_differ_split d l pre a b post :
  adj_differ d l -> d :: l = pre ++ a :: b :: post -> is_data_equal a b = false.
Proof.
  revert d l. induction pre as [|p pre IH]; intros d l H E.
  - simpl in E. inversion E; subst. destruct H as [H _]. exact H.
  - simpl in E. inversion E as [[E1 E2]]. subst p.
    destruct l as [|x t]; [destruct pre; discriminate|].
    destruct H as [_ H]. eapply IH; [exact H| exact E2].
Qed.

(** ** the first snapshot *)

(** the event list up to the first message *)
Lemma first_send_split st evs x rest :
  run_from st evs = x :: rest ->
  exists pre e post,
    evs = pre ++ e :: post /\ is_pull e = true /\ run_from st pre = [] /\
    x = last (writes pre) (store st) /\ is_data_equal (data st) x = false /\
    rest = run_from {| store := x; data := x |} post.
Proof.
  revert st. induction evs as [|e t IH]; intros st H; [discriminate|].
  simpl run_from in H.
  destruct (step_cases st e) as [[s [-> E]]|[[P [W E]]|[[P [W [D E]]]|[P [W [D E]]]]]];
    rewrite E in H; simpl fst in H; simpl snd in H; simpl app in H.
  - destruct (IH _ H) as [pre [e' [post [-> [P' [R [X [D' R']]]]]]]].
    exists (Write s :: pre), e', post. simpl store in X. simpl data in D'.
    split; [reflexivity|]. split; [exact P'|]. split; [simpl run_from; exact R|].
    split; [simpl writes; rewrite last_cons_default; exact X|]. split; [exact D'| exact R'].
  - destruct (IH _ H) as [pre [e' [post [-> [P' [R [X [D' R']]]]]]]].
    exists (e :: pre), e', post.
    split; [reflexivity|]. split; [exact P'|]. split; [simpl run_from; rewrite E; exact R|].
    split; [rewrite (writes_cons e pre), W; exact X|]. split; [exact D'| exact R'].
  - destruct (IH _ H) as [pre [e' [post [-> [P' [R [X [D' R']]]]]]]].
    exists (e :: pre), e', post.
    split; [reflexivity|]. split; [exact P'|]. split; [simpl run_from; rewrite E; exact R|].
    split; [rewrite (writes_cons e pre), W; exact X|]. split; [exact D'| exact R'].
  - inversion H; subst. exists [], e, t.
    split; [reflexivity|]. split; [exact P|]. split; [reflexivity|].
    split; [reflexivity|]. split; [exact D| reflexivity].
Qed.

Lemma no_pull_silent st evs :
  forallb (fun e => negb (is_pull e)) evs = true ->
  run_from st evs = [] /\ data (final_state st evs) = data st.
Proof.
  revert st. induction evs as [|e t IH]; intros st H; [split; reflexivity|].
  simpl in H. apply andb_true_iff in H as [H1 H2]. apply negb_true_iff in H1.
  simpl run_from. simpl final_state.
  destruct (step_cases st e) as [[s [-> E]]|[[P [W E]]|[[P [W [D E]]]|[P [W [D E]]]]]];
    try congruence; rewrite E; simpl fst; simpl snd; simpl app.
  - destruct (IH {| store := s; data := data st |} H2) as [R Dt]. split; [exact R| exact Dt].
  - apply IH, H2.
Qed.

Lemma first_pull_delivers st pre e post :
  is_pull e = true -> forallb (fun e => negb (is_pull e)) pre = true ->
  is_data_equal (data st) (last (writes pre) (store st)) = false ->
  hd_error (run_from st (pre ++ e :: post)) = Some (last (writes pre) (store st)).
Proof.
  intros P NP D. rewrite run_from_app. destruct (no_pull_silent st pre NP) as [R Dt].
  rewrite R. simpl app. simpl run_from.
  pose proof (store_final st pre) as SF.
  destruct (step_cases (final_state st pre) e) as [[s [-> E]]|[[P' [W E]]|[[P' [W [D' E]]]|[P' [W [D' E]]]]]];
    try (simpl in P; congruence).
  rewrite E. simpl. rewrite SF. reflexivity.
Qed.

(** ** convergence *)

Lemma pulled_app b a c : pulled b (a ++ c) = pulled (pulled b a) c.
Proof.
  revert b. induction a as [|e t IH]; intros b; [reflexivity|].
  simpl. destruct e; apply IH.
Qed.

Lemma pulled_true evs b : pulled b evs = true -> pulled true evs = true.
Proof.
  revert b. induction evs as [|e t IH]; intros b H; [reflexivity|].
  simpl in *. destruct e; simpl in *; try exact H; eapply IH; exact H.
Qed.

Lemma pulled_mono b evs : pulled false evs = true -> pulled b evs = true.
Proof. destruct b; [apply pulled_true | auto]. Qed.

Lemma is_pull_writes e t : is_pull e = true -> writes (e :: t) = writes t.
Proof. destruct e; simpl; intros H; try discriminate; reflexivity. Qed.

Lemma pulled_pull b e t : is_pull e = true -> pulled b (e :: t) = pulled true t.
Proof. destruct e; simpl; intros H; try discriminate; rewrite orb_true_r; reflexivity. Qed.


(** once a pull has happened after the last write, later write-free events keep that *)
Lemma pulled_true_nowrite t : writes t = [] -> pulled true t = true.
Proof.
  induction t as [|e t IH]; intros W; [reflexivity|].
  destruct e; simpl in *; try discriminate; apply IH, W.
Qed.

Lemma pulled_tail b evs : writes evs = [] -> existsb is_pull evs = true -> pulled b evs = true.
Proof.
  revert b. induction evs as [|e t IH]; intros b W P; [discriminate|].
  destruct (is_pull e) eqn:PE.
  - rewrite (pulled_pull b e t PE). apply pulled_true_nowrite.
    rewrite (is_pull_writes e t PE) in W. exact W.
  - simpl in P. rewrite PE in P. simpl in P.
    destruct e; simpl in *; try discriminate; rewrite ?orb_false_r; apply IH; assumption.
Qed.

Lemma pulled_split evs :
  pulled false evs = true <->
  exists e1 e2, evs = e1 ++ e2 /\ writes e2 = [] /\ existsb is_pull e2 = true.
Proof.
  split.
  - assert (G : forall evs b, pulled b evs = true ->
              (b = true /\ writes evs = []) \/
              exists e1 e2, evs = e1 ++ e2 /\ writes e2 = [] /\ existsb is_pull e2 = true).
    { clear evs. induction evs as [|e t IH]; intros b H.
      - left. split; [exact H| reflexivity].
      - destruct (is_pull e) eqn:PE.
        + rewrite (pulled_pull b e t PE) in H.
          destruct (IH _ H) as [[_ W]|[e1 [e2 [-> [W P]]]]].
          * right. exists [], (e :: t). split; [reflexivity|]. split.
            { rewrite (is_pull_writes e t PE). exact W. }
            { simpl. rewrite PE. reflexivity. }
          * right. exists (e :: e1), e2. split; [reflexivity| split; assumption].
        + destruct e; simpl in PE; try discriminate; simpl in H; rewrite ?orb_false_r in H.
          * destruct (IH _ H) as [[F _]|[e1 [e2 [-> [W P]]]]]; [discriminate|].
            right. exists (Write s :: e1), e2. split; [reflexivity| split; assumption].
          * destruct (IH _ H) as [[B W]|[e1 [e2 [-> [W P]]]]].
            { left. split; [exact B| exact W]. }
            { right. exists (PullFails :: e1), e2. split; [reflexivity| split; assumption]. }
          * destruct (IH _ H) as [[B W]|[e1 [e2 [-> [W P]]]]].
            { left. split; [exact B| exact W]. }
            { right. exists (WatchCanceled :: e1), e2. split; [reflexivity| split; assumption]. } }
    intros H. destruct (G evs false H) as [[F _]|X]; [discriminate| exact X].
  - intros [e1 [e2 [-> [W P]]]]. rewrite pulled_app. apply pulled_tail; assumption.
Qed.

(** a run that sends nothing although a pull follows its last write: the local data
    already equals the final store content *)
Lemma silent_pulled evs : forall st b,
  run_from st evs = [] -> pulled b evs = true ->
  (b = true -> is_data_equal (data st) (store st) = true) ->
  is_data_equal (data st) (last (writes evs) (store st)) = true.
Proof.
  induction evs as [|e t IH]; intros st b R P B.
  - simpl in *. apply B, P.
  - simpl run_from in R. rewrite (writes_cons e t).
    destruct (step_cases st e) as [[s [-> E]]|[[PE [W E]]|[[PE [W [D E]]]|[PE [W [D E]]]]]];
      rewrite E in R; simpl fst in R; simpl snd in R; simpl app in R.
    + simpl app. rewrite last_cons_default. simpl pulled in P.
      apply (IH {| store := s; data := data st |} false R P). discriminate.
    + rewrite W. simpl app.
      destruct e; simpl in PE; try discriminate; simpl in P; rewrite ?orb_false_r in P;
        apply (IH st b R P B).
    + rewrite W. simpl app. rewrite (pulled_pull b e t PE) in P. apply (IH st true R P). intros _. exact D.
    + discriminate.
Qed.

Lemma converges_state evs : forall st b,
  pulled b evs = true -> (b = true -> is_data_equal (data st) (store st) = true) ->
  Forall wf (store st :: writes evs) ->
  is_data_equal (data (final_state st evs)) (store (final_state st evs)) = true.
Proof.
  induction evs as [|e t IH]; intros st b P B WF.
  - simpl in *. apply B, P.
  - simpl final_state. rewrite (writes_cons e t) in WF.
    destruct (step_cases st e) as [[s [-> E]]|[[PE [W E]]|[[PE [W [D E]]]|[PE [W [D E]]]]]];
      rewrite E; simpl fst.
    + simpl in P. apply (IH _ false P); [discriminate|]. simpl. inversion WF; assumption.
    + rewrite W in WF. simpl app in WF.
      destruct e; simpl in PE; try discriminate; simpl in P; rewrite ?orb_false_r in P;
        apply (IH st b P B WF).
    + rewrite W in WF. rewrite (pulled_pull b e t PE) in P. apply (IH st true P); [intros _; exact D| exact WF].
    + rewrite W in WF. rewrite (pulled_pull b e t PE) in P. apply (IH _ true P).
      * intros _. simpl. apply is_data_equal_refl. inversion WF; assumption.
      * simpl. exact WF.
Qed.

Lemma last_in {A} (l : list A) d : l <> [] -> In (last l d) l.
Proof.
  induction l as [|a t IH]; intros N; [congruence|].
  destruct t as [|b t']; [left; reflexivity|]. right. apply IH. discriminate.
Qed.


Lemma last_in_cons {A} (l : list A) d : In (last l d) (d :: l).
Proof.
  revert d. induction l as [|a t IH]; intros d; [left; reflexivity|].
  rewrite last_cons_default. right. apply IH.
Qed.

Lemma last_indep {A} (l : list A) d d' : l <> [] -> last l d = last l d'.
Proof.
  induction l as [|a t IH]; intros N; [congruence|].
  destruct t as [|b t']; [reflexivity|]. apply IH. discriminate.
Qed.

Lemma wf_last_run st evs :
  wf (data st) -> Forall wf (store st :: writes evs) -> wf (last (run_from st evs) (data st)).
Proof.
  intros WD WF. destruct (run_from st evs) as [|x l] eqn:E; [exact WD|].
  rewrite Forall_forall in WF. apply WF. apply (run_in_states st evs). rewrite E.
  apply last_in. discriminate.
Qed.

Lemma wf_nil : wf [].
Proof. constructor. Qed.

Lemma converges st evs1 evs2 :
  wf (data st) -> Forall wf (store st :: writes (evs1 ++ evs2)) ->
  writes evs2 = [] -> existsb is_pull evs2 = true ->
  forall k, alookup k (last (run_from st (evs1 ++ evs2)) (data st))
            = alookup k (last (writes (evs1 ++ evs2)) (store st)).
Proof.
  intros WD WF W P.
  assert (PU : pulled false (evs1 ++ evs2) = true) by (apply pulled_split; eauto).
  pose proof (converges_state (evs1 ++ evs2) st false PU) as C.
  rewrite data_final, store_final in C.
  apply is_data_equal_fwd; [apply wf_last_run; assumption|].
  apply C; [discriminate| exact WF].
Qed.

(** * the trace checker *)

Lemma find_state_hit x cur rest : content_eqb cur x = true -> find_state x cur rest = Some (cur, rest).
Proof. intros H. destruct rest; simpl; rewrite H; reflexivity. Qed.

Lemma find_state_miss x cur s r : content_eqb cur x = false -> find_state x cur (s :: r) = find_state x s r.
Proof. intros H. simpl. rewrite H. reflexivity. Qed.

Lemma find_state_some x rest : forall cur c' r',
  find_state x cur rest = Some (c', r') ->
  c' = x /\ exists mid, rest = mid ++ r' /\ c' = last mid cur.
Proof.
  induction rest as [|s r IH]; intros cur c' r' H.
  - simpl in H. destruct (content_eqb cur x) eqn:E; [|discriminate].
    inversion H; subst. split; [apply content_eqb_spec, E|]. exists []. split; reflexivity.
  - destruct (content_eqb cur x) eqn:E.
    + rewrite (find_state_hit _ _ _ E) in H. inversion H; subst.
      split; [apply content_eqb_spec, E|]. exists []. split; reflexivity.
    + rewrite (find_state_miss _ _ _ _ E) in H. destruct (IH _ _ _ H) as [X [mid [-> L]]].
      split; [exact X|]. exists (s :: mid). split; [reflexivity|].
      rewrite last_cons_default. exact L.
Qed.

(** searching from an earlier position finds the state at or before the later hit *)
Lemma find_state_earlier x post c' r' : forall mid cur,
  find_state x (last mid cur) post = Some (c', r') ->
  exists c2 r2 mid3, find_state x cur (mid ++ post) = Some (c2, r2) /\ r2 = mid3 ++ r' /\ c' = last mid3 c2.
Proof.
  induction mid as [|s m IH]; intros cur H.
  - exists c', r', []. simpl in *. auto.
  - rewrite last_cons_default in H. destruct (content_eqb cur x) eqn:E.
    + destruct (find_state_some _ _ _ _ _ H) as [_ [mid2 [-> L]]].
      exists cur, ((s :: m) ++ mid2 ++ r'), ((s :: m) ++ mid2).
      split; [apply find_state_hit, E|]. split; [rewrite app_assoc; reflexivity|].
      rewrite <- app_comm_cons, last_cons_default, last_app_default. exact L.
    + rewrite <- app_comm_cons, (find_state_miss _ _ _ _ E). apply IH, H.
Qed.

Lemma check_skip fin obs : forall cur mid post d,
  check_from fin (last mid cur) post d obs = true -> check_from fin cur (mid ++ post) d obs = true.
Proof.
  induction obs as [|x obs' IH]; intros cur mid post d H.
  - simpl in *. rewrite last_app_default. exact H.
  - simpl in *. apply andb_true_iff in H as [H1 H2]. rewrite H1. simpl.
    destruct (find_state x (last mid cur) post) as [[c' r']|] eqn:F; [|discriminate].
    destruct (find_state_earlier _ _ _ _ _ _ F) as [c2 [r2 [mid3 [F2 [-> L]]]]].
    rewrite F2. apply IH. rewrite <- L. exact H2.
Qed.

Lemma writes_silent l : forall st,
  run_from st (map Write l) = [] /\
  final_state st (map Write l) = {| store := last l (store st); data := data st |}.
Proof.
  induction l as [|s t IH]; intros st.
  - split; [reflexivity|]. destruct st; reflexivity.
  - cbn -[last]. destruct (IH {| store := s; data := data st |}) as [R F]. split; [exact R|].
    rewrite F. cbn -[last]. rewrite last_cons_default. reflexivity.
Qed.

Lemma check_complete_fwd fin obs : forall cur rest d,
  check_from fin cur rest d obs = true ->
  exists evs, writes evs = rest /\ run_from {| store := cur; data := d |} evs = obs /\
              (fin = true -> pulled false evs = true).
Proof.
  induction obs as [|x obs' IH]; intros cur rest d H.
  - simpl in H. destruct fin.
    + exists (map Write rest ++ [Tick]).
      destruct (writes_silent rest {| store := cur; data := d |}) as [R F].
      split; [rewrite writes_app, writes_map_Write; apply app_nil_r|].
      split.
      * rewrite run_from_app, R, F. simpl. unfold pull_compare_send. simpl. rewrite H. reflexivity.
      * intros _. rewrite pulled_app. apply pulled_pull. reflexivity.
    + exists (map Write rest). destruct (writes_silent rest {| store := cur; data := d |}) as [R F].
      split; [apply writes_map_Write|]. split; [exact R| discriminate].
  - simpl in H. apply andb_true_iff in H as [H1 H2]. apply negb_true_iff in H1.
    destruct (find_state x cur rest) as [[c' r']|] eqn:F; [|discriminate].
    destruct (find_state_some _ _ _ _ _ F) as [-> [mid [-> L]]].
    destruct (IH _ _ _ H2) as [evs' [W [R P]]].
    exists (map Write mid ++ Tick :: evs').
    destruct (writes_silent mid {| store := cur; data := d |}) as [R0 F0].
    split; [rewrite writes_app, writes_map_Write; simpl; rewrite W; reflexivity|].
    split.
    + rewrite run_from_app, R0, F0. simpl. unfold pull_compare_send. simpl.
      rewrite <- L, H1. simpl. rewrite R. reflexivity.
    + intros Fin. rewrite pulled_app, (pulled_pull _ Tick evs' eq_refl). apply pulled_mono, P, Fin.
Qed.

Lemma Forall_app_r {A} (P : A -> Prop) l1 l2 : Forall P (l1 ++ l2) -> Forall P l2.
Proof. intros H. apply Forall_app in H. tauto. Qed.

Lemma check_complete_bwd fin obs : forall cur rest d evs b,
  Forall wf (cur :: rest) ->
  writes evs = rest -> run_from {| store := cur; data := d |} evs = obs ->
  (fin = true -> pulled b evs = true) -> (b = true -> is_data_equal d cur = true) ->
  check_from fin cur rest d obs = true.
Proof.
  induction obs as [|x obs' IH]; intros cur rest d evs b WF W R P B.
  - simpl. destruct fin; [|reflexivity]. rewrite <- W.
    apply (silent_pulled evs {| store := cur; data := d |} b R (P eq_refl) B).
  - destruct (first_send_split _ _ _ _ R) as [pre [e [post [-> [PE [R0 [X [D R']]]]]]]].
    simpl store in X. simpl data in D.
    rewrite writes_app, (is_pull_writes e post PE) in W. subst rest.
    apply check_skip. rewrite <- X. simpl. rewrite D. simpl.
    rewrite (find_state_hit x x (writes post) (content_eqb_refl x)).
    assert (WX : wf x).
    { rewrite Forall_forall in WF. apply WF. rewrite X.
      pose proof (last_in_cons (writes pre) cur) as I. destruct I as [I|I]; [left; exact I|].
      right. apply in_or_app. left. exact I. }
    apply (IH x (writes post) x post true).
    + constructor; [exact WX|]. inversion WF; subst. eapply Forall_app_r; eassumption.
    + reflexivity.
    + symmetry. exact R'.
    + intros Fin. specialize (P Fin). rewrite pulled_app, (pulled_pull _ e post PE) in P. exact P.
    + intros _. apply is_data_equal_refl, WX.
Qed.

(** * the property clauses, for [run] *)

Lemma nondecr_lb l : forall lo, nondecr_from lo l -> forall i a, nth_error l i = Some a -> lo <= a.
Proof.
  induction l as [|h t IH]; intros lo N i a E; [destruct i; discriminate|].
  destruct N as [N1 N2]. destruct i as [|i]; simpl in E.
  - inversion E; subst. exact N1.
  - specialize (IH _ N2 _ _ E). lia.
Qed.

Lemma nondecr_pairs l : forall lo, nondecr_from lo l ->
  forall i j a b, i < j -> nth_error l i = Some a -> nth_error l j = Some b -> a <= b.
Proof.
  induction l as [|h t IH]; intros lo N i j a b Lt Ei Ej; [destruct i; discriminate|].
  destruct N as [N1 N2]. destruct j as [|j]; [lia|]. simpl in Ej.
  destruct i as [|i]; simpl in Ei.
  - inversion Ei; subst. eapply nondecr_lb; eassumption.
  - eapply (IH _ N2 i j); [lia| eassumption| eassumption].
Qed.

Theorem snapshots_are_store_states s0 evs x : In x (run s0 evs) -> In x (s0 :: writes evs).
Proof. apply (run_in_states (init_state s0)). Qed.

Theorem monotone s0 evs :
  exists idx : list nat,
    Forall2 (fun i x => nth_error (s0 :: writes evs) i = Some x) idx (run s0 evs) /\
    (forall i j a b, i < j -> nth_error idx i = Some a -> nth_error idx j = Some b -> a <= b).
Proof.
  destruct (run_monotone (init_state s0) evs) as [idx [F N]]. exists idx. split; [exact F|].
  apply (nondecr_pairs idx 0 N).
Qed.

Theorem consecutive_differ s0 evs pre a b post :
  [] :: run s0 evs = pre ++ a :: b :: post -> is_data_equal a b = false.
Proof. apply (adj_differ_split [] (run s0 evs)). apply (run_adj_differ (init_state s0)). Qed.

Theorem consecutive_differ_maps s0 evs pre a b post :
  Forall wf (s0 :: writes evs) ->
  [] :: run s0 evs = pre ++ a :: b :: post -> ~ (forall k, alookup k a = alookup k b).
Proof.
  intros WF E H.
  assert (WA : forall x, In x ([] :: run s0 evs) -> wf x).
  { intros x [<-|I]; [apply wf_nil|]. rewrite Forall_forall in WF. apply WF.
    apply snapshots_are_store_states, I. }
  assert (D := consecutive_differ _ _ _ _ _ _ E).
  rewrite is_data_equal_bwd in D; [discriminate| | |exact H]; apply WA; rewrite E;
    apply in_or_app; right; simpl; auto.
Qed.

Theorem first_is_pulled_content s0 evs x rest :
  run s0 evs = x :: rest ->
  exists pre e post, evs = pre ++ e :: post /\ is_pull e = true /\ run s0 pre = [] /\
                     x = store_after s0 pre.
Proof.
  intros H. destruct (first_send_split _ _ _ _ H) as [pre [e [post [E [P [R [X _]]]]]]].
  exists pre, e, post. auto.
Qed.

Theorem first_pull_delivers_current s0 pre e post :
  is_pull e = true -> forallb (fun e => negb (is_pull e)) pre = true ->
  is_data_equal [] (store_after s0 pre) = false ->
  hd_error (run s0 (pre ++ e :: post)) = Some (store_after s0 pre).
Proof. apply (first_pull_delivers (init_state s0)). Qed.

Theorem converges_run s0 evs1 evs2 :
  Forall wf (s0 :: writes (evs1 ++ evs2)) ->
  writes evs2 = [] -> existsb is_pull evs2 = true ->
  forall k, alookup k (last (run s0 (evs1 ++ evs2)) []) = alookup k (store_after s0 (evs1 ++ evs2)).
Proof. intros WF. apply (converges (init_state s0)); [apply wf_nil| exact WF]. Qed.

Theorem checker_complete fin s0 ws obs :
  Forall wf (s0 :: ws) ->
  (check_trace fin s0 ws obs = true <->
   exists evs, writes evs = ws /\ run s0 evs = obs /\ (fin = true -> pulled false evs = true)).
Proof.
  intros WF. split.
  - apply check_complete_fwd.
  - intros [evs [W [R P]]]. apply (check_complete_bwd fin obs s0 ws [] evs false WF W R P). discriminate.
Qed.

(** what an accepted trace satisfies, clause by clause *)
Theorem checker_sound s0 ws obs :
  Forall wf (s0 :: ws) -> check_trace true s0 ws obs = true ->
  (exists idx : list nat,
      Forall2 (fun i x => nth_error (s0 :: ws) i = Some x) idx obs /\
      (forall i j a b, i < j -> nth_error idx i = Some a -> nth_error idx j = Some b -> a <= b)) /\
  (forall pre a b post, [] :: obs = pre ++ a :: b :: post -> ~ (forall k, alookup k a = alookup k b)) /\
  (forall k, alookup k (last obs []) = alookup k (last ws s0)).
Proof.
  intros WF H. apply (checker_complete true s0 ws obs WF) in H as [evs [<- [<- P]]].
  split; [apply monotone|]. split.
  - intros pre a b post. apply consecutive_differ_maps, WF.
  - apply pulled_split in P as [e1 [e2 [-> [W PE]]]]; [|reflexivity].
    apply converges_run; assumption.
Qed.

Theorem consecutive_differ_both s0 evs pre a b post :
  Forall wf (s0 :: writes evs) ->
  [] :: run s0 evs = pre ++ a :: b :: post ->
  is_data_equal a b = false /\ ~ (forall k, alookup k a = alookup k b).
Proof.
  intros WF E. split; [exact (consecutive_differ s0 evs pre a b post E)
                      | exact (consecutive_differ_maps s0 evs pre a b post WF E)].
Qed.

Theorem first_is_current s0 :
  (forall evs x rest, run s0 evs = x :: rest ->
     exists pre e post, evs = pre ++ e :: post /\ is_pull e = true /\ run s0 pre = [] /\
                        x = store_after s0 pre) /\
  (forall pre e post,
     is_pull e = true -> forallb (fun e => negb (is_pull e)) pre = true ->
     is_data_equal [] (store_after s0 pre) = false ->
     hd_error (run s0 (pre ++ e :: post)) = Some (store_after s0 pre)).
Proof. split; [exact (first_is_pulled_content s0) | exact (first_pull_delivers_current s0)]. Qed.

(** * multi-member store: a client that knows every member reaches a live one whenever the
    store has its quorum; a client pinned to one member does not *)

Lemma existsb_eqb_in e l : existsb (Nat.eqb e) l = true <-> In e l.
Proof.
  rewrite existsb_exists. split.
  - intros [x [I E]]. apply Nat.eqb_eq in E. subst. exact I.
  - intros I. exists e. split; [exact I| apply Nat.eqb_refl].
Qed.

Lemma all_endpoints_reach n down :
  NoDup down -> quorum n (List.length down) = true -> reachable (all_members n) down = true.
Proof.
  intros ND Q. unfold quorum in Q. apply Nat.ltb_lt in Q.
  unfold reachable, all_members.
  destruct (existsb (fun e => negb (existsb (Nat.eqb e) down)) (seq 0 n)) eqn:E; [reflexivity|].
  exfalso.
  assert (INC : incl (seq 0 n) down).
  { intros x Ix. apply existsb_eqb_in.
    destruct (existsb (Nat.eqb x) down) eqn:Ex; [reflexivity|].
    assert (existsb (fun e => negb (existsb (Nat.eqb e) down)) (seq 0 n) = true) as C.
    { apply existsb_exists. exists x. split; [exact Ix| rewrite Ex; reflexivity]. }
    congruence. }
  pose proof (NoDup_incl_length (seq_NoDup n 0) INC) as L. rewrite seq_length in L. lia.
Qed.

Lemma single_endpoint_unreachable :
  quorum 3 1 = true /\ reachable [1] [1] = false /\ reachable (all_members 3) [1] = true.
Proof. vm_compute. auto. Qed.

(** * the linear-time comparison used for big contents *)

Lemma all_in_same_keys d2 : NoDup (map fst d2) ->
  forall t1 t2, map fst t1 = map fst t2 -> incl t2 d2 -> all_in t1 d2 = list_eqb kv_eqb t1 t2.
Proof.
  intros ND. induction t1 as [|[k v1] t1 IH]; intros [|[k2 v2] t2] E I; try discriminate; [reflexivity|].
  simpl in E. inversion E as [[E1 E2]]. subst k2. simpl.
  rewrite (alookup_nodup k v2 d2 ND) by (apply I; left; reflexivity).
  unfold kv_eqb at 1. simpl. rewrite String.eqb_refl. simpl.
  rewrite (IH t2 E2); [reflexivity|]. intros x Ix. apply I. right. exact Ix.
Qed.

Lemma fast_equal_eq d1 d2 : wf d1 -> fast_equal d1 d2 = is_data_equal d1 d2.
Proof.
  intros W. unfold fast_equal.
  destruct (Nat.eqb (List.length d1) (List.length d2)) eqn:EL; simpl;
    [|unfold is_data_equal; rewrite EL; reflexivity].
  destruct (list_eqb String.eqb (map fst d1) (map fst d2)) eqn:E; [|reflexivity].
  apply (list_eqb_spec String.eqb String.eqb_eq) in E.
  unfold is_data_equal, content_eqb.
  assert (L : List.length d1 = List.length d2) by (rewrite <- (map_length fst d1), E, map_length; reflexivity).
  rewrite L, Nat.eqb_refl. simpl. symmetry. apply all_in_same_keys.
  - unfold wf in W. rewrite <- E. exact W.
  - exact E.
  - apply incl_refl.
Qed.

Lemma check_from_fast_eq fin obs : forall cur rest d,
  wf d -> Forall wf (cur :: rest) ->
  check_from_fast fin cur rest d obs = check_from fin cur rest d obs.
Proof.
  induction obs as [|x obs' IH]; intros cur rest d WD WF; simpl.
  - destruct fin; [apply fast_equal_eq, WD| reflexivity].
  - rewrite (fast_equal_eq d x WD). destruct (find_state x cur rest) as [[c' r']|] eqn:F; [|reflexivity].
    destruct (find_state_some _ _ _ _ _ F) as [X [mid [-> L]]].
    assert (WC : wf c').
    { rewrite Forall_forall in WF. apply WF. rewrite L.
      pose proof (last_in_cons mid cur) as I. destruct I as [I|I]; [left; exact I|].
      right. apply in_or_app. left. exact I. }
    f_equal. subst x. apply IH; [exact WC|].
    constructor; [exact WC|]. inversion WF; subst. eapply Forall_app_r; eassumption.
Qed.

Theorem check_trace_fast_eq fin s0 ws obs :
  Forall wf (s0 :: ws) -> check_trace_fast fin s0 ws obs = check_trace fin s0 ws obs.
Proof. intros WF. apply check_from_fast_eq; [apply wf_nil| exact WF]. Qed.
