(** C18, part 1: the lock protocol.  Invariant of the transition system of
    model/Mutex.v (ideal quirks) over ALL configurations (any number of threads
    on any number of members) and ALL schedules; mutual exclusion; a failed
    acquisition leaves the lock free. *)
From EG.lib Require Import Base.
From EG.model Require Import Mutex.
Open Scope Z_scope.

(** *** list helpers *)
Lemma memb_In m l : memb m l = true <-> In m l.
Proof.
  induction l as [|x t IH]; cbn; [split; [discriminate|tauto]|].
  rewrite orb_true_iff, IH, Nat.eqb_eq. tauto.
Qed.

Lemma memb_false m l : memb m l = false <-> ~ In m l.
Proof. rewrite <- memb_In. destruct (memb m l); split; intros; congruence. Qed.

Lemma remove_m_In x m l : In x (remove_m m l) <-> In x l /\ x <> m.
Proof.
  induction l as [|y t IH]; cbn; [tauto|].
  destruct (Nat.eqb_spec y m); subst; cbn; rewrite IH; intuition congruence.
Qed.

Lemma remove_m_NoDup m l : NoDup l -> NoDup (remove_m m l).
Proof.
  induction 1 as [|y t Hn Hd IH]; cbn; [constructor|].
  destruct (Nat.eqb_spec y m); [assumption|]. constructor; [|assumption].
  rewrite remove_m_In. tauto.
Qed.

Lemma is_head_In m l : is_head m l = true -> In m l.
Proof. destruct l; cbn; [discriminate|]. rewrite Nat.eqb_eq. auto. Qed.

Lemma is_head_app m l x : is_head m l = true -> is_head m (l ++ [x]) = true.
Proof. destruct l; cbn; [discriminate|auto]. Qed.

Lemma is_head_remove m' m l : is_head m' l = true -> m' <> m -> is_head m' (remove_m m l) = true.
Proof.
  destruct l as [|y t]; cbn; [discriminate|]. rewrite Nat.eqb_eq. intros -> Hne.
  destruct (Nat.eqb_spec m' m); [contradiction|]. cbn. apply Nat.eqb_refl.
Qed.

Lemma is_head_unique m1 m2 l : is_head m1 l = true -> is_head m2 l = true -> m1 = m2.
Proof. destruct l; cbn; [discriminate|]. rewrite !Nat.eqb_eq. congruence. Qed.

Lemma NoDup_snoc (x : nat) l : NoDup l -> ~ In x l -> NoDup (l ++ [x]).
Proof.
  induction 1 as [|y t Hn Hd IH]; cbn; intros Hx.
  - constructor; [tauto|constructor].
  - constructor.
    + rewrite in_app_iff. cbn. intuition congruence.
    + apply IH. tauto.
Qed.

(** *** the invariant *)
Definition holds_local (p : pc) : bool :=
  match p with PLocal | PWait | PCs _ | PEnd _ | PUnl _ => true | _ => false end.
Definition has_key (p : pc) : bool :=
  match p with PWait | PCs _ | PEnd _ => true | _ => false end.

Lemma in_cs_has_key p : in_cs p = true -> has_key p = true.
Proof. destruct p; cbn; congruence. Qed.
Lemma has_key_holds p : has_key p = true -> holds_local p = true.
Proof. destruct p; cbn; congruence. Qed.

Lemma label_eq_dec (a b : label) : {a = b} + {a <> b}.
Proof. decide equality. Qed.

(** the lease re-grant of a member changes nothing the lock depends on *)
Lemma step_regrant_ideal cfg s t : step ideal cfg s t LRegrant = Some s.
Proof. unfold step. destruct (pcs s t); reflexivity. Qed.

Section Lock.
Variable cfg : tid -> thr.

Record Inv (s : state) : Prop := {
  i_nodup : NoDup (queue s);
  (* a held local lock is held by a thread of that member which is inside Lock..Unlock *)
  i_loc : forall m h t, local s m h = Some t ->
          t_mem (cfg t) = m /\ h = O /\ holds_local (pcs s t) = true;
  i_loc2 : forall t, holds_local (pcs s t) = true -> local s (t_mem (cfg t)) O = Some t;
  (* a member's etcd key exists exactly while one of its threads is between Put and Unlock *)
  i_key : forall m, In m (queue s) -> exists t, t_mem (cfg t) = m /\ has_key (pcs s t) = true;
  i_key2 : forall t, has_key (pcs s t) = true -> In (t_mem (cfg t)) (queue s);
  (* a thread in its critical section is on the member whose key is the oldest *)
  i_own : forall t, in_cs (pcs s t) = true -> is_head (t_mem (cfg t)) (queue s) = true }.

Lemma inv_init st : Inv (init st).
Proof.
  constructor; cbn; intros; try discriminate; try contradiction. constructor.
Qed.

(** two threads of one member cannot both be inside Lock..Unlock *)
Lemma local_unique s t1 t2 :
  Inv s -> holds_local (pcs s t1) = true -> holds_local (pcs s t2) = true ->
  t_mem (cfg t1) = t_mem (cfg t2) -> t1 = t2.
Proof.
  intros I H1 H2 E. apply (i_loc2 _ I) in H1. apply (i_loc2 _ I) in H2.
  rewrite E in H1. congruence.
Qed.

Lemma mutex_of_inv s t1 t2 :
  Inv s -> in_cs (pcs s t1) = true -> in_cs (pcs s t2) = true -> t1 = t2.
Proof.
  intros I H1 H2.
  apply (local_unique s); auto using has_key_holds, in_cs_has_key.
  eapply is_head_unique; eapply (i_own _ I); eassumption.
Qed.

(** pcs of the other threads are unchanged by [upd] *)
Lemma upd_same {A} (f : nat -> A) t v : upd f t v t = v.
Proof. unfold upd. rewrite Nat.eqb_refl. reflexivity. Qed.
Lemma upd_other {A} (f : nat -> A) t v x : x <> t -> upd f t v x = f x.
Proof. unfold upd. intros H. destruct (Nat.eqb_spec x t); congruence. Qed.

Lemma upd2_same {A} (f : nat -> nat -> A) m h v : upd2 f m h v m h = v.
Proof. unfold upd2. rewrite !Nat.eqb_refl. reflexivity. Qed.
Lemma upd2_other {A} (f : nat -> nat -> A) m h v x y : (x <> m \/ y <> h) -> upd2 f m h v x y = f x y.
Proof.
  unfold upd2. intros H. destruct (Nat.eqb_spec x m); destruct (Nat.eqb_spec y h); cbn; try reflexivity.
  subst. destruct H; congruence.
Qed.

(** generic preservation when only the pc of [t] changes and the lock-relevant
    classification of the pc is the same *)
Lemma inv_same_class s t p' s' :
  Inv s ->
  queue s' = queue s -> local s' = local s -> pcs s' = upd (pcs s) t p' ->
  holds_local p' = holds_local (pcs s t) ->
  has_key p' = has_key (pcs s t) ->
  (in_cs p' = true -> in_cs (pcs s t) = true) ->
  Inv s'.
Proof.
  intros I Eq El Ep Hh Hk Hc.
  constructor; rewrite ?Eq, ?El, ?Ep.
  - apply I.
  - intros m h t' Hl. destruct (i_loc _ I _ _ _ Hl) as (A & B & C). repeat split; auto.
    unfold upd. destruct (Nat.eqb_spec t' t); subst; congruence.
  - intros t' Hl. apply (i_loc2 _ I). unfold upd in Hl. destruct (Nat.eqb_spec t' t); subst; congruence.
  - intros m Hin. destruct (i_key _ I _ Hin) as (t' & A & B). exists t'. split; auto.
    unfold upd. destruct (Nat.eqb_spec t' t); subst; congruence.
  - intros t' Hl. apply (i_key2 _ I). unfold upd in Hl. destruct (Nat.eqb_spec t' t); subst; congruence.
  - intros t' Hl. apply (i_own _ I). unfold upd in Hl. destruct (Nat.eqb_spec t' t); subst; auto.
Qed.

Lemma cs_step_shape s t rq k s' :
  cs_step s t rq k = Some s' ->
  queue s' = queue s /\ local s' = local s /\
  exists p', pcs s' = upd (pcs s) t p' /\ in_cs p' = true.
Proof.
  unfold cs_step. intros H.
  destruct rq; try discriminate;
    repeat (destruct k as [|k]; try discriminate);
    try (destruct (precheck (objs s) _)); inversion H; subst; cbn;
    repeat split; eexists; split; try reflexivity; reflexivity.
Qed.

Lemma inv_step s t l s' : Inv s -> step ideal cfg s t l = Some s' -> Inv s'.
Proof.
  intros I H. destruct (label_eq_dec l LRegrant) as [->|Hnr].
  { rewrite step_regrant_ideal in H. inversion H; subst; assumption. }
  unfold step in H. cbn [lslot ideal q_local_per_handle] in H.
  set (m := t_mem (cfg t)) in *.
  destruct l; try congruence; destruct (pcs s t) eqn:Ep; try discriminate.
  - (* LLocalLock *)
    destruct (is_get (t_req (cfg t))); [discriminate|].
    destruct (local s m O) eqn:El; [discriminate|]. inversion H; subst; clear H.
    constructor; cbn.
    + apply I.
    + intros m' h t' Hl. unfold upd2 in Hl.
      destruct (Nat.eqb_spec m' m); destruct (Nat.eqb_spec h O); cbn in Hl; subst.
      * inversion Hl; subst. rewrite upd_same. auto.
      * destruct (i_loc _ I _ _ _ Hl) as (A & B & C). congruence.
      * destruct (i_loc _ I _ _ _ Hl) as (A & B & C). repeat split; auto.
        unfold upd. destruct (Nat.eqb_spec t' t); subst; auto.
      * destruct (i_loc _ I _ _ _ Hl) as (A & B & C). congruence.
    + intros t' Hl. unfold upd in Hl. destruct (Nat.eqb_spec t' t); subst.
      * fold m. apply upd2_same.
      * pose proof (i_loc2 _ I _ Hl) as Hx. rewrite upd2_other; auto.
        left. intros E. rewrite E in Hx. congruence.
    + intros m' Hin. destruct (i_key _ I _ Hin) as (t' & A & B). exists t'. split; auto.
      rewrite upd_other; auto. intros ->. rewrite Ep in B. discriminate.
    + intros t' Hl. apply (i_key2 _ I). unfold upd in Hl. destruct (Nat.eqb_spec t' t); subst; [discriminate|auto].
    + intros t' Hl. apply (i_own _ I). unfold upd in Hl. destruct (Nat.eqb_spec t' t); subst; [discriminate|auto].
  - (* LPut *)
    inversion H; subst; clear H.
    assert (Hnot : ~ In m (queue s)).
    { intros Hin. destruct (i_key _ I _ Hin) as (t' & A & B).
      assert (t' = t).
      { apply (local_unique s); auto using has_key_holds. rewrite Ep. reflexivity. }
      subst. rewrite Ep in B. discriminate. }
    apply memb_false in Hnot as Hm. rewrite Hm.
    constructor; cbn.
    + apply NoDup_snoc; [apply I|assumption].
    + intros m' h t' Hl. destruct (i_loc _ I _ _ _ Hl) as (A & B & C). repeat split; auto.
      unfold upd. destruct (Nat.eqb_spec t' t); subst; auto.
    + intros t' Hl. apply (i_loc2 _ I). unfold upd in Hl. destruct (Nat.eqb_spec t' t); subst; auto.
      rewrite Ep. reflexivity.
    + intros m' Hin. apply in_app_iff in Hin. destruct Hin as [Hin|[<-|[]]].
      * destruct (i_key _ I _ Hin) as (t' & A & B). exists t'. split; auto.
        rewrite upd_other; auto. intros ->. rewrite Ep in B. discriminate.
      * exists t. split; auto. rewrite upd_same. reflexivity.
    + intros t' Hl. apply in_app_iff. unfold upd in Hl. destruct (Nat.eqb_spec t' t); subst.
      * right. left. reflexivity.
      * left. apply (i_key2 _ I). assumption.
    + intros t' Hl. unfold upd in Hl. destruct (Nat.eqb_spec t' t); subst; [discriminate|].
      apply is_head_app. apply (i_own _ I). assumption.
  - (* LAcquire *)
    destruct (is_head m (queue s)) eqn:Eh; [|discriminate]. inversion H; subst; clear H.
    constructor; cbn.
    + apply I.
    + intros m' h t' Hl. destruct (i_loc _ I _ _ _ Hl) as (A & B & C). repeat split; auto.
      unfold upd. destruct (Nat.eqb_spec t' t); subst; auto.
    + intros t' Hl. apply (i_loc2 _ I). unfold upd in Hl. destruct (Nat.eqb_spec t' t); subst; auto.
      rewrite Ep. reflexivity.
    + intros m' Hin. destruct (i_key _ I _ Hin) as (t' & A & B). exists t'. split; auto.
      unfold upd. destruct (Nat.eqb_spec t' t); subst; auto.
    + intros t' Hl. apply (i_key2 _ I). unfold upd in Hl. destruct (Nat.eqb_spec t' t); subst; auto.
      rewrite Ep. reflexivity.
    + intros t' Hl. unfold upd in Hl. destruct (Nat.eqb_spec t' t); subst; auto.
      apply (i_own _ I). assumption.
  - (* LTimeout, PLocal *)
    destruct (t_to (cfg t)); [|discriminate]. inversion H; subst; clear H.
    constructor; cbn.
    + apply I.
    + intros m' h t' Hl. unfold upd2 in Hl.
      destruct (Nat.eqb m' m && Nat.eqb h O) eqn:E; [discriminate|].
      destruct (i_loc _ I _ _ _ Hl) as (A & B & C). repeat split; auto.
      unfold upd. destruct (Nat.eqb_spec t' t); subst; auto.
      exfalso. fold m in E. rewrite !Nat.eqb_refl in E. discriminate.
    + intros t' Hl. unfold upd in Hl. destruct (Nat.eqb_spec t' t); subst; [discriminate|].
      rewrite upd2_other; [apply (i_loc2 _ I); assumption|].
      left. intros E. apply n. apply (local_unique s); auto. rewrite Ep. reflexivity.
    + intros m' Hin. destruct (i_key _ I _ Hin) as (t' & A & B). exists t'. split; auto.
      rewrite upd_other; auto. intros ->. rewrite Ep in B. discriminate.
    + intros t' Hl. apply (i_key2 _ I). unfold upd in Hl. destruct (Nat.eqb_spec t' t); subst; [discriminate|auto].
    + intros t' Hl. apply (i_own _ I). unfold upd in Hl. destruct (Nat.eqb_spec t' t); subst; [discriminate|auto].
  - (* LTimeout, PWait *)
    destruct (t_to (cfg t)); [|discriminate]. inversion H; subst; clear H.
    assert (Hoth : forall t', t' <> t -> holds_local (pcs s t') = true -> t_mem (cfg t') <> m).
    { intros t' Hne Hh E. apply Hne. apply (local_unique s); auto. rewrite Ep. reflexivity. }
    constructor; cbn.
    + apply remove_m_NoDup. apply I.
    + intros m' h t' Hl. unfold upd2 in Hl.
      destruct (Nat.eqb m' m && Nat.eqb h O) eqn:E; [discriminate|].
      destruct (i_loc _ I _ _ _ Hl) as (A & B & C). repeat split; auto.
      unfold upd. destruct (Nat.eqb_spec t' t); subst; auto.
      exfalso. fold m in E. rewrite !Nat.eqb_refl in E. discriminate.
    + intros t' Hl. unfold upd in Hl. destruct (Nat.eqb_spec t' t); subst; [discriminate|].
      rewrite upd2_other; [apply (i_loc2 _ I); assumption|]. left. auto.
    + intros m' Hin. apply remove_m_In in Hin. destruct Hin as (Hin & Hne).
      destruct (i_key _ I _ Hin) as (t' & A & B). exists t'. split; auto.
      rewrite upd_other; auto. intros ->. fold m in A. congruence.
    + intros t' Hl. unfold upd in Hl. destruct (Nat.eqb_spec t' t); subst; [discriminate|].
      apply remove_m_In. split; [apply (i_key2 _ I); assumption|]. auto using has_key_holds.
    + intros t' Hl. unfold upd in Hl. destruct (Nat.eqb_spec t' t); subst; [discriminate|].
      apply is_head_remove; [apply (i_own _ I); assumption|]. auto using has_key_holds, in_cs_has_key.
  - (* LExpired, PWait: not enabled in reachable states (own key is present) *)
    destruct (memb m (queue s)) eqn:Em; [discriminate|]. exfalso.
    apply memb_false in Em. apply Em. apply (i_key2 _ I). rewrite Ep. reflexivity.
  - (* LCs *)
    destruct (cs_step_shape _ _ _ _ _ H) as (Eq & El & p' & Epc & Hc).
    eapply inv_same_class; eauto; rewrite Ep; destruct p'; cbn in *; congruence.
  - (* LEtcdUnlock *)
    inversion H; subst; clear H.
    assert (Hoth : forall t', t' <> t -> holds_local (pcs s t') = true -> t_mem (cfg t') <> m).
    { intros t' Hne Hh E. apply Hne. apply (local_unique s); auto. rewrite Ep. reflexivity. }
    constructor; cbn.
    + apply remove_m_NoDup. apply I.
    + intros m' h t' Hl. destruct (i_loc _ I _ _ _ Hl) as (A & B & C). repeat split; auto.
      unfold upd. destruct (Nat.eqb_spec t' t); subst; auto.
    + intros t' Hl. apply (i_loc2 _ I). unfold upd in Hl. destruct (Nat.eqb_spec t' t); subst; auto.
      rewrite Ep. reflexivity.
    + intros m' Hin. apply remove_m_In in Hin. destruct Hin as (Hin & Hne).
      destruct (i_key _ I _ Hin) as (t' & A & B). exists t'. split; auto.
      rewrite upd_other; auto. intros ->. fold m in A. congruence.
    + intros t' Hl. unfold upd in Hl. destruct (Nat.eqb_spec t' t); subst; [discriminate|].
      apply remove_m_In. split; [apply (i_key2 _ I); assumption|]. auto using has_key_holds.
    + intros t' Hl. unfold upd in Hl. destruct (Nat.eqb_spec t' t); subst; [discriminate|].
      exfalso. apply n. apply (mutex_of_inv s); auto. rewrite Ep. reflexivity.
  - (* LLocalUnlock *)
    inversion H; subst; clear H.
    constructor; cbn.
    + apply I.
    + intros m' h t' Hl. unfold upd2 in Hl.
      destruct (Nat.eqb m' m && Nat.eqb h O) eqn:E; [discriminate|].
      destruct (i_loc _ I _ _ _ Hl) as (A & B & C). repeat split; auto.
      unfold upd. destruct (Nat.eqb_spec t' t); subst; auto.
      exfalso. fold m in E. rewrite !Nat.eqb_refl in E. discriminate.
    + intros t' Hl. unfold upd in Hl. destruct (Nat.eqb_spec t' t); subst; [discriminate|].
      rewrite upd2_other; [apply (i_loc2 _ I); assumption|].
      left. intros E. apply n. apply (local_unique s); auto. rewrite Ep. reflexivity.
    + intros m' Hin. destruct (i_key _ I _ Hin) as (t' & A & B). exists t'. split; auto.
      rewrite upd_other; auto. intros ->. rewrite Ep in B. discriminate.
    + intros t' Hl. apply (i_key2 _ I). unfold upd in Hl. destruct (Nat.eqb_spec t' t); subst; [discriminate|auto].
    + intros t' Hl. apply (i_own _ I). unfold upd in Hl. destruct (Nat.eqb_spec t' t); subst; [discriminate|auto].
  - (* LGet *)
    destruct (t_req (cfg t)); try discriminate; inversion H; subst; clear H.
    + eapply (inv_same_class s t (PDone (RRead (alookup n (objs s))))); eauto; rewrite Ep; cbn; congruence.
    + eapply (inv_same_class s t (PDone RNoopDone)); eauto; rewrite Ep; cbn; congruence.
  - (* LFault *)
    destruct (is_mut (t_req (cfg t)) && Nat.leb k 3); [|discriminate]. inversion H; subst; clear H.
    eapply (inv_same_class s t (PEnd (RErr (Nat.leb 2 k)))); eauto; rewrite Ep; cbn; congruence.
Qed.

Lemma inv_run sched : forall s s', Inv s -> run ideal cfg s sched = Some s' -> Inv s'.
Proof.
  induction sched as [|[t l] rest IH]; cbn; intros s s' I H.
  - inversion H; subst; assumption.
  - destruct (step ideal cfg s t l) eqn:E; [|discriminate].
    eapply IH; [eapply inv_step; eassumption|assumption].
Qed.

Lemma inv_reach st sched s : run ideal cfg (init st) sched = Some s -> Inv s.
Proof. apply inv_run, inv_init. Qed.

(** *** mutual exclusion *)
Lemma mutual_exclusion st sched s t1 t2 :
  run ideal cfg (init st) sched = Some s ->
  in_cs (pcs s t1) = true -> in_cs (pcs s t2) = true -> t1 = t2.
Proof. intros R. apply mutex_of_inv. eapply inv_reach; eassumption. Qed.

(** *** failed acquisition leaves the lock free *)
Definition is_fail_label (l : label) : bool := match l with LTimeout | LExpired => true | _ => false end.

Lemma failed_step_releases st sched s t l s' :
  run ideal cfg (init st) sched = Some s ->
  is_fail_label l = true -> step ideal cfg s t l = Some s' ->
  pcs s' t = PFail /\
  local s' (t_mem (cfg t)) O = None /\
  ~ In (t_mem (cfg t)) (queue s') /\
  objs s' = objs s /\ ver s' = ver s.
Proof.
  intros R Hl H. pose proof (inv_reach _ _ _ R) as I.
  unfold step in H. cbn [lslot ideal q_local_per_handle] in H.
  destruct l; try discriminate; destruct (pcs s t) eqn:Ep; try discriminate.
  - destruct (t_to (cfg t)); [|discriminate]. inversion H; subst; clear H. cbn.
    rewrite upd_same, upd2_same. repeat split; auto.
    intros Hin. destruct (i_key _ I _ Hin) as (t' & A & B).
    assert (t' = t) by (apply (local_unique s); auto using has_key_holds; rewrite Ep; reflexivity).
    subst. rewrite Ep in B. discriminate.
  - destruct (t_to (cfg t)); [|discriminate]. inversion H; subst; clear H. cbn.
    rewrite upd_same, upd2_same. repeat split; auto.
    rewrite remove_m_In. tauto.
  - destruct (memb (t_mem (cfg t)) (queue s)) eqn:Em; [discriminate|]. inversion H; subst; clear H. cbn.
    rewrite upd_same, upd2_same. repeat split; auto. apply memb_false. assumption.
Qed.

(** when every attempt has ended (with success or with an error) nothing is held *)
Lemma quiescent_free st sched s :
  run ideal cfg (init st) sched = Some s ->
  (forall t, quiescent (pcs s t) = true) ->
  queue s = [] /\ forall m h, local s m h = None.
Proof.
  intros R Hq. pose proof (inv_reach _ _ _ R) as I. split.
  - destruct (queue s) as [|m q] eqn:E; [reflexivity|]. exfalso.
    destruct (i_key _ I m) as (t & A & B); [rewrite E; left; reflexivity|].
    specialize (Hq t). destruct (pcs s t); discriminate.
  - intros m h. destruct (local s m h) as [t|] eqn:E; [|reflexivity]. exfalso.
    destruct (i_loc _ I _ _ _ E) as (A & B & C).
    specialize (Hq t). destruct (pcs s t); discriminate.
Qed.

(** a thread whose Lock failed holds nothing, in every later state *)
Lemma failed_holds_nothing st sched s t :
  run ideal cfg (init st) sched = Some s -> pcs s t = PFail ->
  (forall m h, local s m h <> Some t) /\
  (In (t_mem (cfg t)) (queue s) ->
     exists t', t' <> t /\ t_mem (cfg t') = t_mem (cfg t) /\ has_key (pcs s t') = true).
Proof.
  intros R Ep. pose proof (inv_reach _ _ _ R) as I. split.
  - intros m h E. destruct (i_loc _ I _ _ _ E) as (A & B & C). rewrite Ep in C. discriminate.
  - intros Hin. destruct (i_key _ I _ Hin) as (t' & A & B). exists t'. repeat split; auto.
    intros ->. rewrite Ep in B. discriminate.
Qed.

(** a free lock can be taken by any idle thread *)
Lemma free_acquirable s t :
  queue s = [] -> local s (t_mem (cfg t)) O = None -> pcs s t = PIdle -> is_get (t_req (cfg t)) = false ->
  exists s', run ideal cfg s [(t, LLocalLock); (t, LPut); (t, LAcquire)] = Some s' /\
             in_cs (pcs s' t) = true.
Proof.
  intros Eq El Ep Eg. cbn [run]. unfold step at 1. cbn [lslot ideal q_local_per_handle].
  rewrite Ep, Eg, El.
  unfold step at 1. cbn [pcs queue local]. rewrite upd_same. rewrite Eq. cbn [memb app].
  unfold step at 1. cbn [pcs queue local]. rewrite upd_same. cbn [is_head]. rewrite Nat.eqb_refl.
  eexists. split; [reflexivity|]. cbn. rewrite upd_same. reflexivity.
Qed.

End Lock.
