(** C20 - lemmas about the registry / lifecycle model, part 1:
    keyed loops decompose per name ("the model is per-name"). *)
From EG.lib Require Import Base.
From EG.model Require Import Registry.
Open Scope N_scope.

Definition pinned_q : quirks := {| q_kind_change_as_update := true |}.

(** a loop body only ever emits callbacks of the key it is visiting *)
Definition named (b : body) : Prop :=
  forall n cfgn c, Forall (fun e => entry_name e = n) (snd (b n cfgn c)).

Lemma log_of_app n l1 l2 : log_of n (l1 ++ l2) = log_of n l1 ++ log_of n l2.
Proof. unfold log_of. apply filter_app. Qed.

Lemma log_of_named_same n l : Forall (fun e => entry_name e = n) l -> log_of n l = l.
Proof.
  unfold log_of. induction 1 as [|e l He Hl IH]; simpl; [reflexivity|].
  rewrite He, N.eqb_refl, IH. reflexivity.
Qed.

Lemma log_of_named_other n m l : m <> n -> Forall (fun e => entry_name e = m) l -> log_of n l = [].
Proof.
  unfold log_of. intros Hne. induction 1 as [|e l He Hl IH]; simpl; [reflexivity|].
  rewrite He. destruct (N.eqb_spec m n) as [E|E]; [contradiction|]. exact IH.
Qed.

Lemma upd_same f n c : upd f n c n = c.
Proof. unfold upd. rewrite N.eqb_refl. reflexivity. Qed.

Lemma upd_other f n c m : m <> n -> upd f n c m = f m.
Proof. unfold upd. intros H. destruct (N.eqb_spec m n); [contradiction|reflexivity]. Qed.

Lemma keyloop_notin cfg b (Hb : named b) n : forall ord st,
  ~ In n ord ->
  fst (keyloop cfg b ord st) n = fst st n /\
  log_of n (snd (keyloop cfg b ord st)) = log_of n (snd st).
Proof.
  induction ord as [|a r IH]; intros st Hn; simpl; [split; reflexivity|].
  assert (Ha : a <> n) by (intro E; apply Hn; left; exact E).
  assert (Hr : ~ In n r) by (intro E; apply Hn; right; exact E).
  unfold keyloop in *. simpl.
  destruct (b a (cfg a) (fst st a)) as [c l] eqn:Eb.
  destruct (IH (upd (fst st) a c, snd st ++ l) Hr) as [I1 I2].
  rewrite I1, I2. simpl. split.
  - apply upd_other. intro E; apply Ha; symmetry; exact E.
  - rewrite log_of_app. rewrite (log_of_named_other n a l Ha).
    + apply app_nil_r.
    + specialize (Hb a (cfg a) (fst st a)). rewrite Eb in Hb. exact Hb.
Qed.

Lemma keyloop_in cfg b (Hb : named b) n : forall ord st,
  NoDup ord -> In n ord ->
  fst (keyloop cfg b ord st) n = fst (b n (cfg n) (fst st n)) /\
  log_of n (snd (keyloop cfg b ord st)) = log_of n (snd st) ++ snd (b n (cfg n) (fst st n)).
Proof.
  induction ord as [|a r IH]; intros st Hnd Hin; [destruct Hin|].
  inversion Hnd as [|a' r' Hnotin Hnd']; subst.
  change (keyloop cfg b (a :: r) st) with
    (keyloop cfg b r (let '(c, l) := b a (cfg a) (fst st a) in (upd (fst st) a c, snd st ++ l))).
  destruct (N.eq_dec a n) as [E|E].
  - subst a. destruct (b n (cfg n) (fst st n)) as [c l] eqn:Eb.
    destruct (keyloop_notin cfg b Hb n r (upd (fst st) n c, snd st ++ l) Hnotin) as [I1 I2].
    rewrite I1, I2. simpl. rewrite upd_same. split; [reflexivity|].
    rewrite log_of_app. f_equal. apply log_of_named_same.
    specialize (Hb n (cfg n) (fst st n)). rewrite Eb in Hb. exact Hb.
  - destruct Hin as [Hin|Hin]; [contradiction|].
    destruct (b a (cfg a) (fst st a)) as [c l] eqn:Eb.
    destruct (IH (upd (fst st) a c, snd st ++ l) Hnd' Hin) as [I1 I2].
    rewrite I1, I2. simpl.
    rewrite (upd_other (fst st) a c n) by (intro X; apply E; symmetry; exact X).
    split; [reflexivity|].
    rewrite log_of_app. rewrite (log_of_named_other n a l E).
    + rewrite app_nil_r. reflexivity.
    + specialize (Hb a (cfg a) (fst st a)). rewrite Eb in Hb. exact Hb.
Qed.

(** the per-name fold with an explicit accumulator *)
Definition cell_acc (bs : list body) (n : name) (cfgn : option spec) (st : cell * list entry) : cell * list entry :=
  fold_left (fun '(c, l) (b : body) => let '(c', l') := b n cfgn c in (c', l ++ l')) bs st.

Lemma cell_bodies_is_acc bs n cfgn c : cell_bodies bs n cfgn c = cell_acc bs n cfgn (c, []).
Proof. reflexivity. Qed.

Lemma cell_acc_cons b r n cfgn c l :
  cell_acc (b :: r) n cfgn (c, l) = cell_acc r n cfgn (fst (b n cfgn c), l ++ snd (b n cfgn c)).
Proof. unfold cell_acc. simpl. destruct (b n cfgn c); reflexivity. Qed.

Lemma cell_bodies_acc bs n cfgn : forall c l,
  cell_acc bs n cfgn (c, l) = (fst (cell_bodies bs n cfgn c), l ++ snd (cell_bodies bs n cfgn c)).
Proof.
  induction bs as [|b r IH]; intros c l.
  - unfold cell_bodies, cell_acc. simpl. rewrite app_nil_r. reflexivity.
  - rewrite cell_bodies_is_acc, !cell_acc_cons, !IH. simpl. rewrite app_assoc. reflexivity.
Qed.

Lemma cell_bodies_cons b r n cfgn c :
  cell_bodies (b :: r) n cfgn c =
  (fst (cell_bodies r n cfgn (fst (b n cfgn c))), snd (b n cfgn c) ++ snd (cell_bodies r n cfgn (fst (b n cfgn c)))).
Proof. rewrite cell_bodies_is_acc, cell_acc_cons, cell_bodies_acc. reflexivity. Qed.

Lemma cell_bodies_nil n cfgn c : cell_bodies [] n cfgn c = (c, []).
Proof. reflexivity. Qed.

Lemma cell_bodies_app b1 b2 n cfgn c :
  cell_bodies (b1 ++ b2) n cfgn c =
  (fst (cell_bodies b2 n cfgn (fst (cell_bodies b1 n cfgn c))),
   snd (cell_bodies b1 n cfgn c) ++ snd (cell_bodies b2 n cfgn (fst (cell_bodies b1 n cfgn c)))).
Proof.
  revert c. induction b1 as [|b r IH]; intros c.
  - cbn [app]. rewrite cell_bodies_nil. cbn [fst snd app]. destruct (cell_bodies b2 n cfgn c); reflexivity.
  - cbn [app]. rewrite !cell_bodies_cons. rewrite IH. cbn [fst snd]. rewrite app_assoc. reflexivity.
Qed.

Definition visits (n : name) (ords : nat -> list name) : Prop :=
  forall i, NoDup (ords i) /\ In n (ords i).

Lemma run_loops_spec cfg n : forall bs ords i st,
  Forall named bs -> visits n ords ->
  fst (run_loops cfg bs ords i st) n = fst (cell_bodies bs n (cfg n) (fst st n)) /\
  log_of n (snd (run_loops cfg bs ords i st)) = log_of n (snd st) ++ snd (cell_bodies bs n (cfg n) (fst st n)).
Proof.
  induction bs as [|b r IH]; intros ords i st Hb Hv; simpl.
  - rewrite app_nil_r. split; reflexivity.
  - inversion Hb as [|b' r' Hb1 Hb2]; subst.
    destruct (Hv i) as [Hnd Hin].
    destruct (keyloop_in cfg b Hb1 n (ords i) st Hnd Hin) as [K1 K2].
    destruct (IH ords (S i) (keyloop cfg b (ords i) st) Hb2 Hv) as [I1 I2].
    rewrite I1, I2, K1, K2, cell_bodies_cons. simpl. rewrite app_assoc. split; reflexivity.
Qed.

(** every loop body of the model is [named] *)
Ltac named_tac :=
  intros n cfgn c; cbv beta iota zeta delta [scan_entities scan_config w0_del w0_cre w0_upd w1_del w1_cre w1_upd
                                  sup_del sup_cre sup_upd tc_del tc_cre tc_upd do_init do_inherit do_close];
  repeat (match goal with |- context [match ?x with _ => _ end] => destruct x; cbv beta iota zeta end);
  cbn [fst snd]; repeat constructor.

Lemma named_scan_entities : named scan_entities. Proof. named_tac. Qed.
Lemma named_scan_config q t : named (scan_config q t). Proof. named_tac. Qed.
Lemma named_w0_del : named w0_del. Proof. named_tac. Qed.
Lemma named_w0_cre : named w0_cre. Proof. named_tac. Qed.
Lemma named_w0_upd : named w0_upd. Proof. named_tac. Qed.
Lemma named_w1_del : named w1_del. Proof. named_tac. Qed.
Lemma named_w1_cre : named w1_cre. Proof. named_tac. Qed.
Lemma named_w1_upd : named w1_upd. Proof. named_tac. Qed.
Lemma named_sup_del pan t : named (sup_del pan t). Proof. named_tac. Qed.
Lemma named_sup_cre pan t : named (sup_cre pan t). Proof. named_tac. Qed.
Lemma named_sup_upd pan t : named (sup_upd pan t). Proof. named_tac. Qed.
Lemma named_tc_del pan t : named (tc_del pan t). Proof. named_tac. Qed.
Lemma named_tc_cre pan t : named (tc_cre pan t). Proof. named_tac. Qed.
Lemma named_tc_upd pan t : named (tc_upd pan t). Proof. named_tac. Qed.

Lemma bodies_named q pan t a b : Forall named (bodies q pan t a b).
Proof.
  unfold bodies; destruct a, b; cbn [app];
    repeat (constructor;
            [first [apply named_scan_entities | apply named_scan_config | apply named_w0_del | apply named_w0_cre
                   | apply named_w0_upd | apply named_w1_del | apply named_w1_cre | apply named_w1_upd
                   | apply named_sup_del | apply named_sup_cre | apply named_sup_upd
                   | apply named_tc_del | apply named_tc_cre | apply named_tc_upd]|]);
    constructor.
Qed.

Lemma step_spec q pan t sc cfg st n : visits n (ords sc) ->
  fst (step q pan t sc cfg st) n = fst (cell_step q pan t (w1_first sc) (tc_first sc) n (cfg n) (fst st n)) /\
  log_of n (snd (step q pan t sc cfg st)) =
    log_of n (snd st) ++ snd (cell_step q pan t (w1_first sc) (tc_first sc) n (cfg n) (fst st n)).
Proof.
  intros Hv. unfold step, cell_step.
  exact (run_loops_spec cfg n _ (ords sc) 0%nat (fun m => clear_cell (fst st m), snd st)
                        (bodies_named q pan t _ _) Hv).
Qed.

(** what of a snapshot (and of its scheduling) matters for name [n] *)
Definition proj (n : name) (x : sched * snapshot) : bool * bool * option spec :=
  (w1_first (fst x), tc_first (fst x), snd x n).

Definition good_steps (n : name) (steps : list (sched * snapshot)) : Prop :=
  Forall (fun x => visits n (ords (fst x))) steps.

Lemma exec_spec q pan n : forall steps t st,
  good_steps n steps ->
  fst (exec q pan t steps st) n = fst (cell_exec q pan t n (map (proj n) steps) (fst st n, log_of n (snd st))) /\
  log_of n (snd (exec q pan t steps st)) = snd (cell_exec q pan t n (map (proj n) steps) (fst st n, log_of n (snd st))).
Proof.
  induction steps as [|[sc cfg] r IH]; intros t st Hg.
  - simpl. split; reflexivity.
  - inversion Hg as [|x r' Hv Hg']; subst. cbn [fst] in Hv.
    cbn [exec map proj cell_exec fst snd].
    destruct (step_spec q pan t sc cfg st n Hv) as [S1 S2].
    destruct (cell_step q pan t (w1_first sc) (tc_first sc) n (cfg n) (fst st n)) as [c l] eqn:Ec.
    cbn [fst snd] in S1, S2.
    destruct (IH (t + 1) (step q pan t sc cfg st) Hg') as [I1 I2].
    rewrite S1, S2 in I1, I2. split; assumption.
Qed.

(** the model is per-name: the cell and the log of a name after any run are
    those of running the same loop bodies on that name alone *)
Lemma model_is_per_name q pan n steps :
  good_steps n steps ->
  fst (run q pan steps) n = fst (cell_exec q pan 0 n (map (proj n) steps) (cell0, [])) /\
  log_of n (snd (run q pan steps)) = snd (cell_exec q pan 0 n (map (proj n) steps) (cell0, [])).
Proof. intros Hg. exact (exec_spec q pan n steps 0 init_state Hg). Qed.
