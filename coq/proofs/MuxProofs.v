(** Lemmas about the cache-less router model: refinement of the search loops to
    the declarative first-match specification (C01), rewrite, 503, header
    semantics, port stripping, and the router-level IP filter clauses (C05). *)
From EG.lib Require Import Base.
From EG.model Require Import Mux.
Open Scope string_scope.

(** ** strings *)
Lemma is_prefix_app : forall p t, is_prefix p (p ++ t) = true.
Proof.
  induction p as [|a p IH]; intro t; cbn; [reflexivity|].
  rewrite Ascii.eqb_refl, IH. reflexivity.
Qed.

Lemma is_prefix_spec : forall p s, is_prefix p s = true <-> exists t, s = p ++ t.
Proof.
  induction p as [|a p IH]; intro s; cbn.
  - split; [intros _; exists s; reflexivity | reflexivity].
  - destruct s as [|b s].
    + split; [discriminate | intros [t Ht]; discriminate].
    + split.
      * intro H. apply andb_true_iff in H as [H1 H2]. apply Ascii.eqb_eq in H1. subst b.
        apply IH in H2 as [t Ht]. exists t. cbn. now rewrite Ht.
      * intros [t Ht]. cbn in Ht. inversion Ht; subst. rewrite Ascii.eqb_refl. cbn. apply is_prefix_app.
Qed.

Lemma sdrop_app : forall p t, sdrop (String.length p) (p ++ t) = t.
Proof. induction p as [|a p IH]; intro t; cbn; [reflexivity | apply IH]. Qed.

Lemma stake_app : forall p t, stake (String.length p) (p ++ t) = p.
Proof. induction p as [|a p IH]; intro t; cbn; [reflexivity | now rewrite IH]. Qed.

Lemma shas_app : forall c a b, shas c (a ++ b) = shas c a || shas c b.
Proof.
  intros c a b. unfold shas. induction a as [|x a IH]; cbn; [reflexivity|].
  destruct (Ascii.eqb x c); [reflexivity|].
  destruct (sindex c (a ++ b)), (sindex c a), (sindex c b); cbn in *; try reflexivity; discriminate.
Qed.

Lemma slast_index_none : forall c s, shas c s = false -> slast_index c s = None.
Proof.
  intros c s. unfold shas. induction s as [|x s IH]; cbn; [reflexivity|].
  destruct (Ascii.eqb x c); [discriminate|].
  destruct (sindex c s); [discriminate|]. intros _. now rewrite IH.
Qed.

Lemma slast_index_single : forall c a b,
  shas c b = false -> slast_index c (a ++ String c b) = Some (String.length a).
Proof.
  intros c a b Hb. induction a as [|x a IH]; cbn.
  - rewrite (slast_index_none c b Hb), Ascii.eqb_refl. reflexivity.
  - rewrite IH. reflexivity.
Qed.

Lemma strip_port_nobracket : forall hp i,
  slast_index ":" hp = Some i -> (forall t, hp <> String "[" t) ->
  strip_port hp =
    if shas ":" (stake i hp) then hp
    else if shas "[" hp || shas "]" hp then hp else stake i hp.
Proof.
  intros hp i H Hn. unfold strip_port. rewrite H.
  destruct hp as [|x t]; [reflexivity|].
  destruct x as [b0 b1 b2 b3 b4 b5 b6 b7].
  destruct b0, b1, b2, b3, b4, b5, b6, b7; try reflexivity.
  exfalso. apply (Hn t). reflexivity.
Qed.

(** net.SplitHostPort on [name:port] (no colon or bracket in either part) *)
Lemma strip_port_name_port : forall h p,
  shas ":" h = false -> shas "[" h = false -> shas "]" h = false ->
  shas ":" p = false -> shas "[" p = false -> shas "]" p = false ->
  strip_port (h ++ ":" ++ p) = h.
Proof.
  intros h p H1 H2 H3 H4 H5 H6.
  change (h ++ ":" ++ p) with (h ++ String ":" p).
  assert (Hb1 : shas "[" (h ++ String ":" p) = false).
  { rewrite shas_app, H2. cbn. unfold shas in *. cbn. destruct (sindex "[" p); [discriminate | reflexivity]. }
  assert (Hb2 : shas "]" (h ++ String ":" p) = false).
  { rewrite shas_app, H3. cbn. unfold shas in *. cbn. destruct (sindex "]" p); [discriminate | reflexivity]. }
  rewrite (strip_port_nobracket _ _ (slast_index_single ":" h p H4)).
  - rewrite stake_app, H1, Hb1, Hb2. reflexivity.
  - intros t E. rewrite E in Hb1. unfold shas in Hb1. cbn in Hb1. discriminate.
Qed.

Lemma strip_port_no_colon : forall h, shas ":" h = false -> strip_port h = h.
Proof. intros h H. unfold strip_port. now rewrite (slast_index_none ":" h H). Qed.

(** ** generic list facts *)
Lemma find_app {A} (f : A -> bool) (l1 l2 : list A) :
  find f (l1 ++ l2)%list = match find f l1 with Some x => Some x | None => find f l2 end.
Proof. induction l1 as [|a l1 IH]; cbn; [reflexivity|]. destruct (f a); [reflexivity | apply IH]. Qed.

Lemma find_map {A B} (f : B -> bool) (g : A -> B) (l : list A) :
  find f (map g l) = option_map g (find (fun x => f (g x)) l).
Proof. induction l as [|a l IH]; cbn; [reflexivity|]. destruct (f (g a)); [reflexivity | apply IH]. Qed.

Lemma find_ext {A} (f g : A -> bool) (l : list A) :
  (forall x, f x = g x) -> find f l = find g l.
Proof. intro H. induction l as [|a l IH]; cbn; [reflexivity|]. rewrite H, IH. reflexivity. Qed.

Lemma find_none_false {A} (f : A -> bool) (l : list A) :
  (forall x, f x = false) -> find f l = None.
Proof. intro H. induction l as [|a l IH]; cbn; [reflexivity|]. now rewrite H. Qed.

Lemma existsb_false_all {A} (f : A -> bool) (l : list A) :
  (forall x, f x = false) -> existsb f l = false.
Proof. intro H. induction l as [|a l IH]; cbn; [reflexivity|]. now rewrite H. Qed.

Lemma existsb_map {A B} (f : B -> bool) (g : A -> B) (l : list A) :
  existsb f (map g l) = existsb (fun x => f (g x)) l.
Proof. induction l as [|a l IH]; cbn; [reflexivity|]. now rewrite IH. Qed.

Lemma find_first {A} (f : A -> bool) (l : list A) (x : A) :
  find f l = Some x <->
  exists l1 l2, l = (l1 ++ x :: l2)%list /\ f x = true /\ (forall y, In y l1 -> f y = false).
Proof.
  induction l as [|a l IH]; cbn.
  - split; [discriminate | intros (l1 & l2 & E & _); destruct l1; discriminate].
  - destruct (f a) eqn:Ea.
    + split.
      * intro H. inversion H; subst. exists [], l. repeat split; [assumption | intros y []].
      * intros (l1 & l2 & E & Hx & Hl1). destruct l1 as [|b l1]; cbn in E; inversion E; subst.
        -- reflexivity.
        -- rewrite (Hl1 b (or_introl eq_refl)) in Ea. discriminate.
    + rewrite IH. split.
      * intros (l1 & l2 & E & Hx & Hl1). exists (a :: l1), l2. subst l. repeat split; [assumption|].
        intros y [Hy | Hy]; [now subst | now apply Hl1].
      * intros (l1 & l2 & E & Hx & Hl1). destruct l1 as [|b l1]; cbn in E; inversion E; subst.
        -- rewrite Hx in Ea. discriminate.
        -- exists l1, l2. repeat split; [assumption|]. intros y Hy. apply Hl1. now right.
Qed.

Lemma find_none_iff {A} (f : A -> bool) (l : list A) :
  find f l = None <-> forall y, In y l -> f y = false.
Proof.
  induction l as [|a l IH]; cbn.
  - split; [intros _ y [] | reflexivity].
  - destruct (f a) eqn:Ea.
    + split; [discriminate|]. intro H. rewrite (H a (or_introl eq_refl)) in Ea. discriminate.
    + rewrite IH. split.
      * intros H y [Hy | Hy]; [now subst | now apply H].
      * intros H y Hy. apply H. now right.
Qed.

Lemma existsb_ext' {A} (f g : A -> bool) l : (forall x, f x = g x) -> existsb f l = existsb g l.
Proof. intro H. induction l as [|a l IH]; cbn; [reflexivity | now rewrite H, IH]. Qed.

Section MuxProofs.
  Variable re_match : string -> string -> bool.
  Variable re_replace : string -> string -> string -> string.
  Variable ip_allow : N -> string -> bool.

  Local Notation host_match := (host_match re_match).
  Local Notation path_match := (path_match re_match).
  Local Notation headers_match := (headers_match re_match).
  Local Notation headers_ok := (headers_ok re_match).
  Local Notation entry_match := (entry_match re_match).
  Local Notation full_match := (full_match re_match).
  Local Notation pm_match := (pm_match re_match).
  Local Notation p_match := (p_match re_match).
  Local Notation allow_all := (allow_all ip_allow).
  Local Notation paths_dec := (paths_dec re_match).
  Local Notation rules_dec := (rules_dec re_match ip_allow).
  Local Notation search_dec := (search_dec re_match ip_allow).
  Local Notation result_of := (result_of ip_allow).
  Local Notation search_nocache := (search_nocache re_match ip_allow).
  Local Notation search_spec := (search_spec re_match).
  Local Notation rule_filters := (rule_filters re_match).
  Local Notation applying := (applying re_match).
  Local Notation denied := (denied re_match ip_allow).
  Local Notation rewrite_path := (rewrite re_replace).
  Local Notation dispatch := (dispatch re_replace).
  Local Notation serve_nocache := (serve_nocache re_match re_replace ip_allow).
  Local Notation serve_spec := (serve_spec re_match re_replace ip_allow).

  (** *** the path loop *)
  Definition pmh (rq : request) (p : path_entry) : bool := path_match p rq && method_match p rq.
  Definition pnm (rq : request) (p : path_entry) : bool := path_match p rq && negb (method_match p rq).

  Lemma paths_dec_hit : forall rq ps hm mm p,
    find (entry_match rq) ps = Some p -> exists hm', paths_dec rq ps hm mm = PHit p hm'.
  Proof.
    intros rq ps. induction ps as [|a ps IH]; intros hm mm p H; cbn in H; [discriminate|].
    cbn [Mux.paths_dec]. unfold Mux.entry_match, Mux.headers_ok in H.
    destruct (path_match a rq); cbn in *; [|now apply IH].
    destruct (method_match a rq); cbn in *; [|now apply IH].
    destruct (no_headers a); cbn in *.
    - inversion H; subst. now exists hm.
    - destruct (headers_match a rq); cbn in *; [|now apply IH].
      inversion H; subst. now exists hm.
  Qed.

  Lemma paths_dec_none : forall rq ps hm mm,
    find (entry_match rq) ps = None ->
    paths_dec rq ps hm mm = PNone (hm || existsb (pmh rq) ps) (mm || existsb (pnm rq) ps).
  Proof.
    intros rq ps. induction ps as [|a ps IH]; intros hm mm H; cbn in H.
    - cbn. now rewrite !orb_false_r.
    - cbn [Mux.paths_dec existsb]. unfold Mux.entry_match, Mux.headers_ok, pmh, pnm in *.
      destruct (path_match a rq); cbn in *; [|now apply IH].
      destruct (method_match a rq); cbn in *.
      + destruct (no_headers a); cbn in *; [discriminate|].
        destruct (headers_match a rq); cbn in *; [discriminate|].
        rewrite (IH true mm H). now rewrite orb_true_r.
      + rewrite (IH hm true H). now rewrite orb_true_r.
  Qed.

  (** *** the rule loop against the declarative reference, with generalised flags *)
  Definition ents (rs : list rule) : list (rule * path_entry) :=
    flat_map (fun r => map (fun p => (r, p)) (ru_paths r)) rs.

  Definition pnm_match (rq : request) (e : rule * path_entry) : bool :=
    host_match (fst e) rq && pnm rq (snd e).

  Definition spec_rules (rq : request) (rs : list rule) (hm mm : bool) : res :=
    match find (full_match rq) (ents rs) with
    | Some e => Route (snd e)
    | None => Status (fail_code (hm || existsb (pm_match rq) (ents rs)) (mm || existsb (pnm_match rq) (ents rs)))
    end.

  Lemma result_of_add_vis : forall rq f d, result_of rq (add_vis f d) = result_of rq d.
  Proof. intros rq f []; reflexivity. Qed.

  Lemma allow_all_app : forall a b rq, allow_all (a ++ b)%list rq = allow_all a rq && allow_all b rq.
  Proof. intros a b rq. unfold Mux.allow_all. apply forallb_app. Qed.

  Lemma rules_dec_spec : forall rq rs hm mm,
    result_of rq (rules_dec rq rs hm mm) =
    if allow_all (rule_filters rq rs) rq then spec_rules rq rs hm mm else Status 403.
  Proof.
    intros rq rs. induction rs as [|r t IH]; intros hm mm.
    - cbn. unfold spec_rules. cbn. now rewrite !orb_false_r.
    - cbn [Mux.rules_dec Mux.rule_filters]. unfold spec_rules, ents. cbn [flat_map].
      fold (ents t). rewrite find_app, !existsb_app, find_map, !existsb_map.
      destruct (host_match r rq) eqn:Hh; cbn [negb].
      + rewrite allow_all_app.
        destruct (allow_all (fl (ru_filter r)) rq) eqn:Hf; cbn [negb andb]; [|reflexivity].
        rewrite (find_ext (fun x => full_match rq (r, x)) (entry_match rq)).
        2:{ intro x. unfold Mux.full_match, Mux.entry_match. cbn [fst snd]. rewrite Hh. reflexivity. }
        destruct (find (entry_match rq) (ru_paths r)) as [p|] eqn:Hfind.
        * destruct (paths_dec_hit rq _ hm mm p Hfind) as [hm' ->]. cbn. reflexivity.
        * rewrite (paths_dec_none rq _ hm mm Hfind). rewrite result_of_add_vis, IH.
          destruct (allow_all (rule_filters rq t) rq); [|reflexivity].
          unfold spec_rules. cbn [option_map].
          destruct (find (full_match rq) (ents t)); [reflexivity|].
          do 2 f_equal.
          -- rewrite <- orb_assoc. do 2 f_equal. apply existsb_ext'. intro x.
             unfold Mux.pm_match, pmh. cbn. rewrite Hh. cbn. reflexivity.
          -- rewrite <- orb_assoc. do 2 f_equal. apply existsb_ext'. intro x.
             unfold pnm_match, pnm. cbn. rewrite Hh. reflexivity.
      + rewrite IH. destruct (allow_all (rule_filters rq t) rq); [|reflexivity].
        rewrite (find_none_false (fun x => full_match rq (r, x))).
        2:{ intro x. unfold Mux.full_match. cbn. now rewrite Hh. }
        cbn [option_map]. unfold spec_rules.
        rewrite (existsb_false_all (fun x => pm_match rq (r, x))).
        2:{ intro x. unfold Mux.pm_match. cbn. now rewrite Hh. }
        rewrite (existsb_false_all (fun x => pnm_match rq (r, x))).
        2:{ intro x. unfold pnm_match. cbn. now rewrite Hh. }
        reflexivity.
  Qed.

  (** when nothing matches path+method, "some path matches" = "some path matches with another method" *)
  Lemma no_pm_then_p_is_pnm : forall rq (es : list (rule * path_entry)),
    existsb (pm_match rq) es = false -> existsb (pnm_match rq) es = existsb (p_match rq) es.
  Proof.
    intros rq es. induction es as [|e es IH]; cbn; [reflexivity|].
    intro H. apply orb_false_iff in H as [H1 H2]. rewrite (IH H2). f_equal.
    unfold Mux.pm_match, pnm_match, Mux.p_match, pnm in *.
    destruct (host_match (fst e) rq), (path_match (snd e) rq), (method_match (snd e) rq);
      cbn in *; try reflexivity; discriminate.
  Qed.

  Lemma spec_rules_search_spec : forall sv rq,
    spec_rules rq (sv_rules sv) false false = search_spec sv rq.
  Proof.
    intros sv rq. unfold spec_rules, Mux.search_spec, Mux.entries. fold (ents (sv_rules sv)).
    destruct (find (full_match rq) (ents (sv_rules sv))); [reflexivity|]. cbn [orb].
    unfold fail_code.
    destruct (existsb (pm_match rq) (ents (sv_rules sv))) eqn:E; [reflexivity|].
    rewrite (no_pm_then_p_is_pnm _ _ E). destruct (existsb (p_match rq) (ents (sv_rules sv))); reflexivity.
  Qed.

  (** C01 main refinement (with the IP filters: 403 iff an applying filter denies) *)
  Theorem loop_refines_spec : forall sv rq,
    search_nocache sv rq = if denied sv rq then Status 403 else search_spec sv rq.
  Proof.
    intros sv rq. unfold Mux.search_nocache, Mux.search_dec, Mux.denied, Mux.applying.
    rewrite allow_all_app.
    destruct (allow_all (fl (sv_filter sv)) rq); cbn [negb andb]; [|reflexivity].
    rewrite result_of_add_vis, rules_dec_spec.
    destruct (allow_all (rule_filters rq (sv_rules sv)) rq); cbn [negb]; [|reflexivity].
    apply spec_rules_search_spec.
  Qed.

  Theorem serve_refines_spec : forall sv rq, serve_nocache sv rq = serve_spec sv rq.
  Proof.
    intros sv rq. unfold Mux.serve_nocache, Mux.serve_spec. rewrite loop_refines_spec.
    destruct (denied sv rq); reflexivity.
  Qed.

  (** *** C01 clauses *)
  Theorem first_match : forall sv rq p,
    denied sv rq = false ->
    (search_nocache sv rq = Route p <->
     exists l1 r l2, entries sv = (l1 ++ (r, p) :: l2)%list /\ full_match rq (r, p) = true /\
                     (forall e, In e l1 -> full_match rq e = false)).
  Proof.
    intros sv rq p Hd. rewrite loop_refines_spec, Hd. unfold Mux.search_spec. split.
    - destruct (find (full_match rq) (entries sv)) as [[r p']|] eqn:Hf.
      + intro H. inversion H; subst. apply find_first in Hf as (l1 & l2 & E & Hx & Hl).
        now exists l1, r, l2.
      + destruct (existsb _ _); [discriminate|]. destruct (existsb _ _); discriminate.
    - intros (l1 & r & l2 & E & Hx & Hl).
      assert (Hf : find (full_match rq) (entries sv) = Some (r, p)).
      { apply find_first. now exists l1, l2. }
      now rewrite Hf.
  Qed.

  Theorem failure_precedence : forall sv rq,
    denied sv rq = false ->
    (forall e, In e (entries sv) -> full_match rq e = false) ->
    search_nocache sv rq =
      Status (if existsb (pm_match rq) (entries sv) then 400
              else if existsb (p_match rq) (entries sv) then 405 else 404).
  Proof.
    intros sv rq Hd Hn. rewrite loop_refines_spec, Hd. unfold Mux.search_spec.
    apply find_none_iff in Hn. rewrite Hn.
    destruct (existsb (pm_match rq) (entries sv)); [reflexivity|].
    destruct (existsb (p_match rq) (entries sv)); reflexivity.
  Qed.

  (** a failure status is produced only when no entry matches fully *)
  Theorem status_only_without_match : forall sv rq c,
    denied sv rq = false -> search_nocache sv rq = Status c ->
    forall e, In e (entries sv) -> full_match rq e = false.
  Proof.
    intros sv rq c Hd. rewrite loop_refines_spec, Hd. unfold Mux.search_spec.
    destruct (find (full_match rq) (entries sv)) eqn:Hf; [discriminate|].
    intros _. now apply find_none_iff.
  Qed.

  Lemma nonempty_false : forall s, nonempty s = false -> s = "".
  Proof. intros s H. unfold nonempty in H. apply negb_false_iff in H. now apply String.eqb_eq in H. Qed.

  Lemma nonempty_true : forall s, s <> "" -> nonempty s = true.
  Proof.
    intros s H. unfold nonempty. apply negb_true_iff. apply String.eqb_neq. exact H.
  Qed.

  Theorem rewrite_none : forall p path, pe_rewrite p = "" -> rewrite_path p path = Some path.
  Proof. intros p path H. unfold Mux.rewrite. rewrite H. reflexivity. Qed.

  Theorem rewrite_exact : forall p path,
    pe_rewrite p <> "" -> pe_path p <> "" -> pe_path p = path ->
    rewrite_path p path = Some (pe_rewrite p).
  Proof.
    intros p path H1 H2 H3. unfold Mux.rewrite.
    rewrite (nonempty_true _ H1), (nonempty_true _ H2), H3, String.eqb_refl. reflexivity.
  Qed.

  Theorem rewrite_prefix : forall p path rest,
    pe_rewrite p <> "" -> (pe_path p = "" \/ pe_path p <> path) ->
    pe_prefix p <> "" -> path = pe_prefix p ++ rest ->
    rewrite_path p path = Some (pe_rewrite p ++ rest).
  Proof.
    intros p path rest H1 H2 H3 H4. unfold Mux.rewrite.
    rewrite (nonempty_true _ H1), (nonempty_true _ H3). cbn [negb andb].
    assert (E : nonempty (pe_path p) && String.eqb (pe_path p) path = false).
    { destruct H2 as [H2 | H2]; [rewrite H2; reflexivity|].
      apply String.eqb_neq in H2. rewrite H2. apply andb_false_r. }
    rewrite E, H4, is_prefix_app, sdrop_app. reflexivity.
  Qed.

  Theorem rewrite_regexp : forall p path,
    pe_rewrite p <> "" -> (pe_path p = "" \/ pe_path p <> path) ->
    (pe_prefix p = "" \/ is_prefix (pe_prefix p) path = false) ->
    pe_regexp p <> "" ->
    rewrite_path p path = Some (re_replace (pe_regexp p) path (pe_rewrite p)).
  Proof.
    intros p path H1 H2 H3 H4. unfold Mux.rewrite.
    rewrite (nonempty_true _ H1), (nonempty_true _ H4). cbn [negb].
    assert (E : nonempty (pe_path p) && String.eqb (pe_path p) path = false).
    { destruct H2 as [H2 | H2]; [rewrite H2; reflexivity|].
      apply String.eqb_neq in H2. rewrite H2. apply andb_false_r. }
    assert (E2 : nonempty (pe_prefix p) && is_prefix (pe_prefix p) path = false).
    { destruct H3 as [H3 | H3]; [rewrite H3; reflexivity | rewrite H3; apply andb_false_r]. }
    rewrite E, E2. reflexivity.
  Qed.

  Theorem dispatch_backend_and_path : forall sv rq p,
    search_nocache sv rq = Route p ->
    str_in (pe_backend p) (sv_backends sv) = true ->
    serve_nocache sv rq =
      match rewrite_path p (rq_path rq) with
      | Some path' => if too_large sv p rq then Failed 413 else Dispatched (pe_backend p) path'
      | None => Panicked
      end.
  Proof.
    intros sv rq p H Hb. unfold Mux.serve_nocache. rewrite H. cbn [Mux.dispatch]. now rewrite Hb.
  Qed.

  (** the body limit: 413 iff the client sends more bytes than the effective limit (path's
      clientMaxBodySize, else the server's, else 4 MiB; negative = unlimited) *)
  Theorem too_large_iff : forall sv p rq,
    too_large sv p rq = true <->
    (0 <= body_limit sv p < rq_body rq)%Z.
  Proof.
    intros sv p rq. unfold too_large. rewrite andb_true_iff, Z.leb_le, Z.ltb_lt. tauto.
  Qed.

  Theorem unknown_backend_503 : forall sv rq p,
    search_nocache sv rq = Route p ->
    str_in (pe_backend p) (sv_backends sv) = false ->
    serve_nocache sv rq = Failed 503.
  Proof.
    intros sv rq p H Hb. unfold Mux.serve_nocache. rewrite H. cbn [Mux.dispatch]. now rewrite Hb.
  Qed.

  Lemma str_in_In : forall s l, str_in s l = true <-> In s l.
  Proof.
    intros s l. unfold str_in. rewrite existsb_exists. split.
    - intros (x & Hx & E). apply String.eqb_eq in E. now subst.
    - intro H. exists s. split; [assumption | apply String.eqb_refl].
  Qed.

  (** matchAllHeader = conjunction over the conditions (a condition with an empty value list
      does not constrain the value; one with an empty regexp does not constrain by regexp);
      otherwise disjunction (an empty value list never matches by value) *)
  Theorem match_all_header_semantics : forall p rq,
    let v h := hget (hc_key h) (rq_headers rq) in
    (pe_match_all p = true ->
       (headers_match p rq = true <->
        forall h, In h (pe_headers p) ->
          (hc_values h = [] \/ In (v h) (hc_values h)) /\
          (hc_regexp h = "" \/ re_match (hc_regexp h) (v h) = true))) /\
    (pe_match_all p = false ->
       (headers_match p rq = true <->
        exists h, In h (pe_headers p) /\
          (In (v h) (hc_values h) \/ (hc_regexp h <> "" /\ re_match (hc_regexp h) (v h) = true)))).
  Proof.
    intros p rq v. split; intro Hm; unfold Mux.headers_match; rewrite Hm.
    - rewrite forallb_forall. split; intros H h Hh; specialize (H h Hh).
      + unfold Mux.cond_all in H. fold (v h) in H. apply andb_true_iff in H as [H1 H2]. split.
        * destruct (hc_values h) as [|a l] eqn:E; [now left|]. right. now apply str_in_In.
        * destruct (nonempty (hc_regexp h)) eqn:E; [now right|]. left. now apply nonempty_false.
      + destruct H as [H1 H2]. unfold Mux.cond_all. fold (v h). apply andb_true_iff. split.
        * destruct (hc_values h) as [|a l] eqn:E; [reflexivity|].
          destruct H1 as [H1 | H1]; [discriminate|]. now apply str_in_In.
        * destruct H2 as [H2 | H2]; [rewrite H2; reflexivity|].
          destruct (nonempty (hc_regexp h)); [assumption | reflexivity].
    - rewrite existsb_exists. split; intros (h & Hh & H); exists h; (split; [assumption|]).
      + unfold Mux.cond_any in H. fold (v h) in H. apply orb_true_iff in H as [H | H].
        * left. now apply str_in_In.
        * apply andb_true_iff in H as [H1 H2]. right. split; [|assumption].
          intro E. rewrite E in H1. discriminate.
      + unfold Mux.cond_any. fold (v h). apply orb_true_iff. destruct H as [H | [H1 H2]].
        * left. now apply str_in_In.
        * right. now rewrite (nonempty_true _ H1), H2.
  Qed.

  (** "port ignored": a request for [name:port] is matched against rules exactly like one for [name] *)
  Theorem port_ignored : forall r rq1 rq2 name port,
    shas ":" name = false -> shas "[" name = false -> shas "]" name = false ->
    shas ":" port = false -> shas "[" port = false -> shas "]" port = false ->
    rq_host rq1 = name ++ ":" ++ port -> rq_host rq2 = name ->
    host_match r rq1 = host_match r rq2.
  Proof.
    intros r rq1 rq2 name port H1 H2 H3 H4 H5 H6 E1 E2. unfold Mux.host_match.
    rewrite E1, E2, (strip_port_name_port name port H1 H2 H3 H4 H5 H6), (strip_port_no_colon name H1).
    reflexivity.
  Qed.

  (** the exact rule host is compared byte for byte (case-sensitively) with the port-stripped Host *)
  Theorem host_exact : forall r rq,
    ru_host r <> "" -> ru_host_re r = "" ->
    (host_match r rq = true <-> ru_host r = strip_port (rq_host rq)).
  Proof.
    intros r rq Hh Hre. unfold Mux.host_match. rewrite (nonempty_true _ Hh), Hre. cbn.
    rewrite orb_false_r. apply String.eqb_eq.
  Qed.

  (** validated configurations never reach the nil-regexp dereference of rewrite *)
  Lemma in_entries : forall rs r p, In (r, p) (ents rs) -> In r rs /\ In p (ru_paths r).
  Proof.
    intros rs r p H. unfold ents in H. apply in_flat_map in H as (r' & Hr & Hp).
    apply in_map_iff in Hp as (p' & E & Hp). inversion E; subst. now split.
  Qed.

  Theorem valid_never_panics : forall sv rq,
    valid_server sv = true -> serve_nocache sv rq <> Panicked.
  Proof.
    intros sv rq Hv. rewrite serve_refines_spec. unfold Mux.serve_spec.
    destruct (denied sv rq); [discriminate|].
    unfold Mux.search_spec.
    destruct (find (full_match rq) (entries sv)) as [[r p]|] eqn:Hf.
    2:{ destruct (existsb _ _); [discriminate|]. destruct (existsb _ _); discriminate. }
    apply find_first in Hf as (l1 & l2 & E & Hx & _).
    assert (Hin : In (r, p) (entries sv)) by (rewrite E; apply in_or_app; right; now left).
    apply in_entries in Hin as [Hr Hp].
    unfold valid_server in Hv. rewrite forallb_forall in Hv. specialize (Hv r Hr).
    rewrite forallb_forall in Hv. specialize (Hv p Hp).
    cbn [snd Mux.dispatch]. destruct (str_in (pe_backend p) (sv_backends sv)); [|discriminate].
    unfold Mux.full_match in Hx. cbn [fst snd] in Hx.
    apply andb_true_iff in Hx as [Hx _]. apply andb_true_iff in Hx as [Hx _].
    apply andb_true_iff in Hx as [_ Hpm].
    unfold valid_path in Hv. apply andb_true_iff in Hv as [Hv _].
    unfold Mux.path_match in Hpm. unfold Mux.rewrite.
    destruct (nonempty (pe_rewrite p)); cbn [negb]; [|destruct (too_large sv p rq); discriminate].
    destruct (nonempty (pe_path p)) eqn:E1, (nonempty (pe_prefix p)) eqn:E2, (nonempty (pe_regexp p)) eqn:E3;
      cbn in *; try discriminate;
      repeat match goal with
             | |- context [if ?b then _ else _] => destruct b eqn:?; cbn in *; try discriminate
             end.
  Qed.

  (** *** histories with a changing MuxMapper: the answer depends on the mapper at the time of
      the request only, whatever was registered (and served) before *)
  Lemma str_in_mapper : forall b (m : mapper),
    str_in b (map fst m) = match alookup b m with Some _ => true | None => false end.
  Proof.
    intros b m. induction m as [|[k v] m IH]; cbn; [reflexivity|].
    destruct (String.eqb b k); [reflexivity | exact IH].
  Qed.

  Theorem mapper_history_503 : forall sv pre m rq p,
    search_nocache sv rq = Route p -> alookup (pe_backend p) m = None ->
    last (serve_hist re_match re_replace ip_allow sv (pre ++ [(m, rq)])%list) (Panicked, None)
      = (Failed 503, None).
  Proof.
    intros sv pre m rq p H Hm. unfold serve_hist. rewrite map_app. cbn [map fst snd]. rewrite last_last.
    unfold serve_mapped, Mux.serve_nocache.
    change (Mux.search_nocache re_match ip_allow (with_mapper sv m) rq) with (search_nocache sv rq).
    rewrite H. cbn [Mux.dispatch with_mapper sv_backends]. rewrite str_in_mapper, Hm. reflexivity.
  Qed.

  Theorem mapper_history_dispatch : forall sv pre m rq p h path',
    search_nocache sv rq = Route p -> alookup (pe_backend p) m = Some h ->
    rewrite_path p (rq_path rq) = Some path' -> too_large sv p rq = false ->
    last (serve_hist re_match re_replace ip_allow sv (pre ++ [(m, rq)])%list) (Panicked, None)
      = (Dispatched (pe_backend p) path', Some h).
  Proof.
    intros sv pre m rq p h path' H Hm Hr Hb. unfold serve_hist. rewrite map_app. cbn [map fst snd]. rewrite last_last.
    unfold serve_mapped, Mux.serve_nocache.
    change (Mux.search_nocache re_match ip_allow (with_mapper sv m) rq) with (search_nocache sv rq).
    rewrite H. cbn [Mux.dispatch with_mapper sv_backends]. rewrite str_in_mapper, Hm, Hr.
    change (too_large (with_mapper sv m) p rq) with (too_large sv p rq). rewrite Hb.
    cbn [handler_of]. now rewrite Hm.
  Qed.

  (** *** the router never looks at URL.RawPath: two requests that agree on host, method,
      decoded path, headers and client address are answered alike (and share the cache key) *)
  Definition same_but_raw (a b : request) : Prop :=
    rq_host a = rq_host b /\ rq_method a = rq_method b /\ rq_path a = rq_path b /\
    rq_headers a = rq_headers b /\ rq_ip a = rq_ip b /\ rq_body a = rq_body b.

  Lemma paths_dec_raw : forall a b ps hm mm, same_but_raw a b -> paths_dec a ps hm mm = paths_dec b ps hm mm.
  Proof.
    intros a b ps hm mm (H1 & H2 & H3 & H4 & H5 & H6). revert hm mm.
    induction ps as [|p ps IH]; intros hm mm; cbn [Mux.paths_dec]; [reflexivity|].
    unfold Mux.path_match, method_match, Mux.headers_match, Mux.cond_all, Mux.cond_any.
    rewrite H2, H3, H4, !IH. reflexivity.
  Qed.

  Lemma rules_dec_raw : forall a b rs hm mm, same_but_raw a b -> rules_dec a rs hm mm = rules_dec b rs hm mm.
  Proof.
    intros a b rs hm mm H. revert hm mm.
    induction rs as [|r rs IH]; intros hm mm; cbn [Mux.rules_dec]; [reflexivity|].
    rewrite (paths_dec_raw a b _ hm mm H), !IH.
    destruct H as (H1 & H2 & H3 & H4 & H5 & H6).
    unfold Mux.host_match, Mux.allow_all. rewrite H1, H5.
    destruct (paths_dec b (ru_paths r) hm mm); [reflexivity|]. now rewrite IH.
  Qed.

  Theorem rawpath_irrelevant : forall sv a b,
    same_but_raw a b ->
    serve_nocache sv a = serve_nocache sv b /\ (forall q, mk_key q a = mk_key q b).
  Proof.
    intros sv a b H. split.
    - unfold Mux.serve_nocache, Mux.search_nocache, Mux.search_dec.
      rewrite (rules_dec_raw a b _ false false H).
      destruct H as (H1 & H2 & H3 & H4 & H5 & H6).
      unfold Mux.allow_all. rewrite H5.
      destruct (forallb _ (fl (sv_filter sv))); cbn [negb]; [|reflexivity].
      destruct (rules_dec b (sv_rules sv) false false) as [p own vis hm'| |]; cbn [add_vis Mux.result_of]; try reflexivity.
      unfold Mux.allow_all. rewrite H5.
      destruct (forallb _ (fl (pe_filter p))); [|reflexivity].
      cbn [Mux.dispatch]. unfold too_large. now rewrite H3, H6.
    - intro q. destruct H as (H1 & H2 & H3 & _). unfold mk_key. now rewrite H1, H2, H3.
  Qed.

  (** *** xForwardedFor: routing sees the request as received, the backend sees the appended header *)
  Theorem xff_option_irrelevant : forall b sv rq,
    serve_nocache (set_xff b sv) rq = serve_nocache sv rq.
  Proof. reflexivity. Qed.

  Theorem forwarded_for_spec : forall sv rq,
    (sv_xff sv = false -> forwarded_for sv rq = hget "X-Forwarded-For" (rq_headers rq)) /\
    (sv_xff sv = true -> alookup "X-Forwarded-For" (rq_headers rq) = None -> forwarded_for sv rq = rq_ip rq) /\
    (sv_xff sv = true -> forall v, alookup "X-Forwarded-For" (rq_headers rq) = Some v -> v <> "" ->
       forwarded_for sv rq = if str_contains (rq_ip rq) v then v else v ++ "," ++ rq_ip rq).
  Proof.
    intros sv rq. unfold forwarded_for, hget. repeat split.
    - intros ->. reflexivity.
    - intros -> ->. reflexivity.
    - intros -> v -> Hv. cbn [negb]. rewrite (nonempty_true _ Hv). reflexivity.
  Qed.

  (** *** the reserved ACME prefix is exactly "/.well-known/acme-challenge/" (with the slash) *)
  Theorem reserved_exact : forall sv rq,
    (reserved_path rq = true <-> exists rest, rq_path rq = acme_prefix ++ rest) /\
    (reserved_path rq = false -> mux_serve re_match re_replace ip_allow sv rq = serve_nocache sv rq).
  Proof.
    intros sv rq. split.
    - unfold reserved_path. apply is_prefix_spec.
    - intro H. unfold mux_serve. now rewrite H.
  Qed.

  (** *** router-level C05 clauses, cache-less *)
  Theorem denied_403_nocache : forall sv rq,
    denied sv rq = true -> serve_nocache sv rq = Failed 403.
  Proof.
    intros sv rq H. rewrite serve_refines_spec. unfold Mux.serve_spec. now rewrite H.
  Qed.

  Lemma host_match_erase : forall r rq, host_match (erase_rule r) rq = host_match r rq.
  Proof. reflexivity. Qed.

  Lemma ents_erase : forall rs,
    ents (map erase_rule rs) = map (fun e => (erase_rule (fst e), erase_path (snd e))) (ents rs).
  Proof.
    induction rs as [|r t IH]; [reflexivity|].
    unfold ents in *. cbn [map flat_map]. rewrite map_app, IH. f_equal.
    cbn [erase_rule ru_paths]. rewrite !map_map. reflexivity.
  Qed.

  Lemma search_spec_erase : forall sv rq,
    search_spec (erase_filters sv) rq =
    match search_spec sv rq with Route p => Route (erase_path p) | Status c => Status c end.
  Proof.
    intros sv rq. unfold Mux.search_spec, Mux.entries. fold (ents (sv_rules (erase_filters sv))).
    fold (ents (sv_rules sv)). cbn [erase_filters sv_rules]. rewrite ents_erase, find_map, !existsb_map.
    rewrite (find_ext _ (full_match rq)) by (intros [r p]; reflexivity).
    rewrite (existsb_ext' (fun x => pm_match rq (erase_rule (fst x), erase_path (snd x))) (pm_match rq))
      by (intros [r p]; reflexivity).
    rewrite (existsb_ext' (fun x => p_match rq (erase_rule (fst x), erase_path (snd x))) (p_match rq))
      by (intros [r p]; reflexivity).
    destruct (find (full_match rq) (ents (sv_rules sv))) as [[r p]|]; cbn; [reflexivity|].
    destruct (existsb _ _); [reflexivity|]. destruct (existsb _ _); reflexivity.
  Qed.

  Lemma denied_erase : forall sv rq, denied (erase_filters sv) rq = false.
  Proof.
    intros sv rq. unfold Mux.denied, Mux.applying. cbn [erase_filters sv_filter sv_rules fl app].
    assert (H : forall rs, rule_filters rq (map erase_rule rs) = []).
    { induction rs as [|r t IH]; cbn [map Mux.rule_filters]; [reflexivity|].
      rewrite host_match_erase. destruct (host_match r rq); [|exact IH].
      cbn [erase_rule ru_filter fl app ru_paths].
      destruct (find (entry_match rq) (map erase_path (ru_paths r))) as [p|] eqn:Hf; [|exact IH].
      rewrite find_map in Hf. destruct (find _ (ru_paths r)); cbn in Hf; [|discriminate].
      inversion Hf; subst. reflexivity. }
    rewrite H. reflexivity.
  Qed.

  Theorem not_denied_unaffected_nocache : forall sv rq,
    denied sv rq = false -> serve_nocache sv rq = serve_nocache (erase_filters sv) rq.
  Proof.
    intros sv rq H. rewrite !serve_refines_spec. unfold Mux.serve_spec.
    rewrite H, denied_erase, search_spec_erase.
    destruct (search_spec sv rq) as [p|c]; reflexivity.
  Qed.
End MuxProofs.
