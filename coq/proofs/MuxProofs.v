(** Lemmas about the router model (C01, mux-level C05). *)
From EG.lib Require Import Base.
From EG.model Require Import Mux.
Open Scope string_scope.

Section MuxProofs.
  Variable re_match : string -> string -> bool.
  Variable re_replace : string -> string -> string -> string.
  Variable ip_allow : N -> string -> bool.

  Lemma unknown_backend_503 : forall sv rq p,
    search_nocache re_match ip_allow sv rq = Route p ->
    str_in (pe_backend p) (sv_backends sv) = false ->
    serve_nocache re_match re_replace ip_allow sv rq = Failed 503.
  Proof.
    intros sv rq p H Hb. unfold serve_nocache. rewrite H. cbn [dispatch]. rewrite Hb. reflexivity.
  Qed.
End MuxProofs.
