(** Soundness of the trace-level property checkers of C11 (coq/model/ReloadCheck.v): what
    [prop = true] on an observed history means, with explicit quantifiers over its positions.
    Nothing here refers to the executable model of the implementation - these are statements about
    the checkers applied to ARBITRARY observed histories of any length. *)
From EG.lib Require Import Base.
From EG.model Require Import RL Reload ReloadCheck.
Open Scope Z_scope.

(** * generic facts *)

Lemma first_false_none : forall l i, first_false l i = None -> forall k b, nth_error l k = Some b -> b = true.
Proof.
  induction l as [|x t IH]; intros i H k b Hk; [destruct k; discriminate|].
  simpl in H. destruct x; [|discriminate]. destruct k; simpl in Hk.
  - inversion Hk; reflexivity.
  - eapply IH; eassumption.
Qed.

Lemma list_eqb_sound {A} (eqb : A -> A -> bool) :
  (forall a b, eqb a b = true -> a = b) -> forall l1 l2, list_eqb eqb l1 l2 = true -> l1 = l2.
Proof.
  intros H l1; induction l1 as [|a t IH]; intros [|b t2] E; simpl in E; try discriminate; [reflexivity|].
  apply andb_true_iff in E as [E1 E2]. f_equal; [apply H; exact E1 | apply IH; exact E2].
Qed.

Lemma subset_sound {A} (eqb : A -> A -> bool) :
  (forall a b, eqb a b = true -> a = b) -> forall a b, subset eqb a b = true -> forall x, In x a -> In x b.
Proof.
  intros H a b S x Hx. unfold subset in S. rewrite forallb_forall in S. specialize (S x Hx).
  apply existsb_exists in S as [y [Hy E]]. apply H in E. subst y. exact Hy.
Qed.

Lemma same_set_sound {A} (eqb : A -> A -> bool) :
  (forall a b, eqb a b = true -> a = b) -> forall a b, same_set eqb a b = true -> forall x, In x a <-> In x b.
Proof.
  intros H a b S x. unfold same_set in S. apply andb_true_iff in S as [S _]. apply andb_true_iff in S as [S1 S2].
  split; eapply subset_sound; eassumption.
Qed.

Lemma opt_eqb_some {A} (eqb : A -> A -> bool) :
  (forall a b, eqb a b = true -> a = b) -> forall x y, opt_eqb eqb x (Some y) = true -> x = Some y.
Proof. intros H [x|] y E; simpl in E; [f_equal; apply H; exact E | discriminate]. Qed.

Lemma Zeqb_sound : forall a b, (a =? b) = true -> a = b.
Proof. intros a b; apply Z.eqb_eq. Qed.
Lemma Seqb_sound : forall a b, String.eqb a b = true -> a = b.
Proof. intros a b; apply String.eqb_eq. Qed.
Lemma Neqb_sound : forall a b, Nat.eqb a b = true -> a = b.
Proof. intros a b; apply Nat.eqb_eq. Qed.
Lemma Beqb_sound : forall a b, Bool.eqb a b = true -> a = b.
Proof. intros [] []; simpl; intro H; try reflexivity; discriminate. Qed.

Lemma nth_error_same_length {A B} : forall (l1 : list A) (l2 : list B) i a,
  List.length l1 = List.length l2 -> nth_error l1 i = Some a -> exists b, nth_error l2 i = Some b.
Proof.
  intros l1 l2 i a HL H. destruct (nth_error l2 i) as [b|] eqn:E; [exists b; reflexivity|].
  apply nth_error_None in E. assert (i < List.length l1)%nat by (apply nth_error_Some; rewrite H; discriminate). lia.
Qed.

(** * grp "pipe" *)

Lemma ev_eqb_sound : forall a b, ev_eqb a b = true -> a = b.
Proof.
  intros [] []; simpl; intro H; try discriminate;
    repeat match goal with H : _ && _ = true |- _ => apply andb_true_iff in H as [? ?] end;
    repeat match goal with
           | H : (_ =? _) = true |- _ => apply Z.eqb_eq in H
           | H : String.eqb _ _ = true |- _ => apply String.eqb_eq in H
           end; subst; reflexivity.
Qed.

Lemma res_eqb_sound : forall a b, res_eqb a b = true -> a = b.
Proof.
  intros [] []; simpl; intro H; try discriminate; try reflexivity.
  apply andb_true_iff in H as [H1 H2]. apply String.eqb_eq in H1. apply Z.eqb_eq in H2. subst; reflexivity.
Qed.

Lemma obs_eqb_sound : forall a b, obs_eqb a b = true -> a = b.
Proof.
  intros [] []; simpl; intro H; try discriminate; try reflexivity;
    apply andb_true_iff in H as [H1 H2].
  - apply Beqb_sound in H1. apply (list_eqb_sound _ ev_eqb_sound) in H2. subst; reflexivity.
  - apply (list_eqb_sound _ ev_eqb_sound) in H1. apply res_eqb_sound in H2. subst; reflexivity.
Qed.

Lemma pipe_steps_aux_nth : forall ops0 obs0 ops obs k0,
  first_false (pipe_steps_aux ops0 obs0 ops obs) k0 = None ->
  List.length ops = List.length obs /\
  forall i o b, nth_error ops i = Some o -> nth_error obs i = Some b -> pipe_step_ok ops0 obs0 o b = true.
Proof.
  intros ops0 obs0 ops; induction ops as [|o t IH]; intros [|b bt] k0 H; simpl in H; try discriminate.
  - split; [reflexivity | intros [|i] ? ? ?; discriminate].
  - destruct (pipe_step_ok ops0 obs0 o b) eqn:E; [|discriminate].
    destruct (IH bt _ H) as [L N]. split; [simpl; f_equal; exact L|].
    intros [|i] o' b' Ho Hb; simpl in Ho, Hb.
    + inversion Ho; inversion Hb; subst; exact E.
    + eapply N; eassumption.
Qed.

(** soundness of [pipe_prop] *)
Theorem pipe_prop_sound : forall ops obs, pipe_prop ops obs = true ->
  List.length ops = List.length obs /\
  (* no Init / Inherit of a pipeline generation panics *)
  (forall i o, nth_error ops i = Some o -> (forall g, o <> PlHandle g) ->
     exists evs, nth_error obs i = Some (PoLife false evs)) /\
  (forall i g, nth_error ops i = Some (PlHandle g) ->
     exists evs r, nth_error obs i = Some (PoHandle evs r) /\
       (* the request completes: no panic *)
       r <> PPanic /\
       (* ONE generation per request: every filter invocation of this request is an invocation of an
          instance created by generation [g] itself *)
       (forall e, In e evs -> exists id n, e = EHandle id n /\ In id (nth g (pipe_owned ops obs) [])) /\
       (* whatever updates (Inherit from [g], Close of [g], younger generations) happened before, in
          between or after: every request handled by [g] at any position [j] of the history has the
          very same observation - same instances visited in the same order, same result *)
       (forall j, nth_error ops j = Some (PlHandle g) -> nth_error obs j = nth_error obs i)).
Proof.
  intros ops obs H. unfold pipe_prop in H.
  destruct (first_false (pipe_steps ops obs) 0) eqn:F; [discriminate|].
  destruct (pipe_steps_aux_nth _ _ _ _ _ F) as [L N]. split; [exact L|]. split.
  - intros i o Ho Hn. destruct (nth_error_same_length _ obs _ _ L Ho) as [b Hb].
    pose proof (N i o b Ho Hb) as S. unfold pipe_step_ok in S.
    destruct o as [s | s from | g]; try (exfalso; eapply Hn; reflexivity);
      destruct b as [pk evs | evs r |]; try discriminate;
      destruct pk; try discriminate; exists evs; exact Hb.
  - intros i g Ho. destruct (nth_error_same_length _ obs _ _ L Ho) as [b Hb].
    pose proof (N i _ b Ho Hb) as S. unfold pipe_step_ok in S.
    destruct b as [pk evs | evs r |]; try discriminate.
    apply andb_true_iff in S as [S S3]. apply andb_true_iff in S as [S1 S2].
    exists evs, r. split; [exact Hb|]. split; [destruct r; [discriminate | simpl in S1; discriminate]|]. split.
    + intros e He. rewrite forallb_forall in S3. specialize (S3 e He). unfold handle_ev_in in S3.
      destruct e as [| | |id n]; try discriminate. exists id, n. split; [reflexivity|].
      apply existsb_exists in S3 as [y [Hy E]]. apply Z.eqb_eq in E. subst y. exact Hy.
    + intros j Hj. destruct (nth_error_same_length _ obs _ _ L Hj) as [b' Hb'].
      pose proof (N j _ b' Hj Hb') as S'. unfold pipe_step_ok in S'.
      destruct b' as [pk' evs' | evs' r' |]; try discriminate.
      apply andb_true_iff in S' as [S' _]. apply andb_true_iff in S' as [_ S2'].
      apply (opt_eqb_some _ obs_eqb_sound) in S2. apply (opt_eqb_some _ obs_eqb_sound) in S2'.
      rewrite Hb, Hb'. rewrite S2 in S2'. exact (eq_sym S2').
Qed.

(** * grp "conc" (and the single-request form used by "sched") *)

Lemma resp_eqb_sound : forall a b, resp_eqb a b = true -> a = b.
Proof.
  intros [s1 h1 p1 x1 z1] [s2 h2 p2 x2 z2] H. unfold resp_eqb in H; simpl in H.
  repeat match goal with H : _ && _ = true |- _ => apply andb_true_iff in H as [H ?] end.
  apply Z.eqb_eq in H.
  repeat match goal with
         | H : (_ =? _) = true |- _ => apply Z.eqb_eq in H
         | H : String.eqb _ _ = true |- _ => apply String.eqb_eq in H
         end. subst; reflexivity.
Qed.

Definition last_flip (c : conc_case) : nat := fold_left (fun _ s => s) (cc_flips c) O.

(** every response sampled while clients and reloads run concurrently is ENTIRELY the answer of
    one single generation [s] (status, handler and mapper identity, rewritten path, XFF, body size
    all equal that generation's quiescent answer); before the first reload that generation is the
    initial one, after the last reload has returned it is the last one, in between it is one of
    those that were stored *)
Theorem conc_prop_sound : forall c, forallb (conc_prop_one c) (cc_seen c) = true ->
  forall k ph ri got, nth_error (cc_seen c) k = Some (ph, ri, got) ->
    exists s, got = nth ri (nth s (cc_expect c) []) resp0 /\
              mapper_ok (nth s (cc_gens c) gen0) got = true /\
              (ph = 0 -> s = O) /\ (ph = 2 -> s = last_flip c) /\
              (s = O \/ In s (cc_flips c)).
Proof.
  intros c H k ph ri got Hk. rewrite forallb_forall in H.
  specialize (H _ (nth_error_In _ _ Hk)). unfold conc_prop_one in H.
  apply existsb_exists in H as [s [Hs E]]. apply andb_true_iff in E as [E1 E2].
  apply resp_eqb_sound in E1. exists s. split; [exact E1|]. split; [exact E2|].
  unfold conc_allowed in Hs. split; [|split].
  - intros ->. simpl in Hs. destruct Hs as [<- | []]. reflexivity.
  - intros ->. simpl in Hs. destruct Hs as [<- | []]. reflexivity.
  - destruct (ph =? 0); [destruct Hs as [<- | []]; left; reflexivity|].
    destruct (ph =? 2).
    + destruct Hs as [<- | []]. unfold last_flip.
      assert (G : forall l a, fold_left (fun _ s : nat => s) l a = a \/ In (fold_left (fun _ s : nat => s) l a) l).
      { induction l as [|x t IH]; intro a; simpl; [left; reflexivity|].
        destruct (IH x) as [E | I]; [right; left; symmetry; exact E | right; right; exact I]. }
      destruct (G (cc_flips c) O) as [E | I]; [left; exact E | right; exact I].
    + destruct Hs as [<- | I]; [left; reflexivity | right; exact I].
Qed.

(** * grp "tc" *)

Lemma cat_eqb_sound : forall a b, tc_cat_eqb a b = true -> a = b.
Proof. intros [] []; simpl; intro H; try reflexivity; discriminate. Qed.

Lemma sent_eqb_sound : forall a b, sent_eqb a b = true -> a = b.
Proof.
  intros [[[n1 c1] m1] i1] [[[n2 c2] m2] i2] H. unfold sent_eqb in H.
  repeat match goal with H : _ && _ = true |- _ => apply andb_true_iff in H as [H ?] end.
  apply String.eqb_eq in H.
  repeat match goal with
         | H : (_ =? _) = true |- _ => apply Z.eqb_eq in H
         | H : String.eqb _ _ = true |- _ => apply String.eqb_eq in H
         | H : tc_cat_eqb _ _ = true |- _ => apply cat_eqb_sound in H
         end. subst; reflexivity.
Qed.

Definition tags_of (o : tc_obs) : list (Z * Z) :=
  flat_map (fun e => match ev_tag e with Some x => [x] | None => [] end) (to_evs o).

(** the checker's context before position [i]: the snapshot of all live (namespace, category, name,
    instance) entries left by operation [i-1], and the spec tag of every instance initialised so far *)
Fixpoint tc_ctx (prev : list snap_ent) (tags : list (Z * Z)) (obs : list tc_obs) (i : nat)
  : list snap_ent * list (Z * Z) :=
  match i, obs with
  | S i', o :: bt => tc_ctx (to_snap o) (tags_of o ++ tags) bt i'
  | _, _ => (prev, tags)
  end.

Lemma tc_prop_all_nth : forall ops obs prev tags, tc_prop_all prev tags ops obs = true ->
  List.length ops = List.length obs /\
  forall i op o, nth_error ops i = Some op -> nth_error obs i = Some o ->
    tc_prop_one (fst (tc_ctx prev tags obs i)) (snd (tc_ctx prev tags obs i)) op o = true.
Proof.
  induction ops as [|op t IH]; intros [|o bt] prev tags H; simpl in H; try discriminate.
  - split; [reflexivity | intros [|i] ? ? ?; discriminate].
  - apply andb_true_iff in H as [H1 H2]. destruct (IH _ _ _ H2) as [L N].
    split; [simpl; f_equal; exact L|]. intros [|i] op' o' Ho Hb; simpl in Ho, Hb.
    + inversion Ho; inversion Hb; subst. exact H1.
    + simpl. apply N; assumption.
Qed.

Lemma tc_ctx_next : forall obs prev tags i o, nth_error obs i = Some o ->
  fst (tc_ctx prev tags obs (S i)) = to_snap o.
Proof.
  induction obs as [|x t IH]; intros prev tags [|i] o H; simpl in H; try discriminate.
  - inversion H; subst. destruct t; reflexivity.
  - simpl. apply (IH (to_snap x) (tags_of x ++ tags) i o H).
Qed.

Definition is_put (op : tc_op) : Prop :=
  match op with TCreate _ _ _ _ | TUpdate _ _ _ _ | TApply _ _ _ _ => True | _ => False end.

Lemma filter_other_iff : forall (k : tc_cat * string * string) (l1 l2 : list snap_ent),
  same_set sent_eqb (filter (fun a => negb (sent_key_eqb a k)) l1) (filter (fun a => negb (sent_key_eqb a k)) l2) = true ->
  forall a, sent_key_eqb a k = false -> (In a l1 <-> In a l2).
Proof.
  intros k l1 l2 S a Ha. pose proof (same_set_sound _ sent_eqb_sound _ _ S a) as I.
  rewrite !filter_In in I. rewrite Ha in I. simpl in I. tauto.
Qed.

(** soundness of [tc_prop_all]: for EVERY position [i] of an accepted TrafficController history,
    with [prev] the live entries before operation [i] *)
Theorem tc_prop_sound : forall ops obs, tc_prop_all [] [] ops obs = true ->
  List.length ops = List.length obs /\
  forall i op o, nth_error ops i = Some op -> nth_error obs i = Some o ->
    let prev := fst (tc_ctx [] [] obs i) in
    let tags := snd (tc_ctx [] [] obs i) in
    (* the operation does not panic, and the next operation starts from what this one left *)
    to_panic o = false /\ fst (tc_ctx [] [] obs (S i)) = to_snap o /\
    (* objects not named in the operation keep their generation (instance): after it ... *)
    (forall k, tc_target op = Some k -> forall a, sent_key_eqb a k = false -> (In a prev <-> In a (to_snap o))) /\
    (forall ns, op = TClean ns -> forall a, sent_ns a <> ns -> (In a prev <-> In a (to_snap o))) /\
    (* ... and at every instant INSIDE it (seen from its lifecycle callbacks) *)
    (forall k m, tc_target op = Some k -> In m (to_mid o) ->
       (forall a, sent_key_eqb a k = false -> (In a prev <-> In a m)) /\
       (* there is no instant during a create-over / update / apply at which the name resolves to
          nothing: it resolves to the PREVIOUS generation until the new one is published *)
       (is_put op -> forall id, find_ent prev k = Some id -> find_ent m k = Some id)) /\
    (* ... and once a create / update / changed apply has returned successfully the name resolves to
       the generation it returned *)
    (forall k, tc_target op = Some k -> is_put op -> to_err o = false ->
       (exists id, find_ent prev k = Some id /\ (exists tag c ns n, op = TApply c ns n tag /\ zlookup id tags = Some tag)) \/
       find_ent (to_snap o) k = Some (to_ret o)) /\
    (* applying an unchanged config creates no new generation: no Init, no Inherit, no Close, the live
       instance is returned and every entry stays *)
    (forall c ns n tag id, op = TApply c ns n tag -> find_ent prev (c, ns, n) = Some id -> zlookup id tags = Some tag ->
       to_err o = false /\ to_ret o = id /\ to_evs o = [] /\ forall a, In a prev <-> In a (to_snap o)) /\
    (* a request (GetHandler) is served by the live generation - after an update has returned that is
       the new one - and fails exactly when the name is not there *)
    (forall ns n, op = TGet ns n ->
       (forall id, find_ent prev (CP, ns, n) = Some id -> to_err o = false /\ to_ret o = id) /\
       (find_ent prev (CP, ns, n) = None -> to_err o = true)).
Proof.
  intros ops obs H. destruct (tc_prop_all_nth _ _ _ _ H) as [L N]. split; [exact L|].
  intros i op o Ho Hb prev tags. pose proof (N i op o Ho Hb) as P. fold prev in P. fold tags in P.
  unfold tc_prop_one in P. apply andb_true_iff in P as [P P3]. apply andb_true_iff in P as [P1 P2].
  split; [destruct (to_panic o); [discriminate | reflexivity]|].
  split; [apply tc_ctx_next; exact Hb|].
  rewrite forallb_forall in P2.
  assert (FrameAfter : forall k, tc_target op = Some k -> forall a, sent_key_eqb a k = false -> (In a prev <-> In a (to_snap o))).
  { intros k Hk a Ha. destruct op as [c ns n tag | c ns n tag | c ns n tag | c ns n | ns | ns n]; simpl in Hk; inversion Hk; subst k;
      simpl in P3; apply andb_true_iff in P3 as [P3 _]; apply andb_true_iff in P3 as [P3 _];
      eapply filter_other_iff; eassumption. }
  split; [exact FrameAfter|]. split.
  { intros ns -> a Ha. simpl in P3. apply andb_true_iff in P3 as [P3 _].
    pose proof (same_set_sound _ sent_eqb_sound _ _ P3 a) as I. rewrite !filter_In in I.
    assert (E : negb (String.eqb (sent_ns a) ns) = true).
    { destruct (String.eqb (sent_ns a) ns) eqn:E; [apply String.eqb_eq in E; contradiction | reflexivity]. }
    rewrite E in I. tauto. }
  split.
  { intros k m Hk Hm. specialize (P2 m Hm). unfold tc_mid_ok in P2. rewrite Hk in P2.
    apply andb_true_iff in P2 as [Q1 Q2]. split.
    - intros a Ha. eapply filter_other_iff; eassumption.
    - intros Hput id Hid. destruct op; simpl in Hput; try contradiction; rewrite Hid in Q2;
        apply (opt_eqb_some _ Zeqb_sound) in Q2; exact Q2. }
  split.
  { intros k Hk Hput He.
    destruct op as [c ns n tag | c ns n tag | c ns n tag | c ns n | ns | ns n]; simpl in Hput; try contradiction;
      simpl in Hk; inversion Hk; subst k; simpl in P3;
      apply andb_true_iff in P3 as [_ P3].
    - rewrite He in P3. right. apply (opt_eqb_some _ Zeqb_sound). exact P3.
    - rewrite He in P3. right. apply (opt_eqb_some _ Zeqb_sound). exact P3.
    - destruct (find_ent prev (c, ns, n)) as [id|] eqn:F.
      + destruct (opt_eqb Z.eqb (zlookup id tags) (Some tag)) eqn:T.
        * left. exists id. split; [reflexivity|]. exists tag, c, ns, n. split; [reflexivity|].
          apply (opt_eqb_some _ Zeqb_sound). exact T.
        * right. rewrite He in P3. simpl in P3. apply andb_true_iff in P3 as [P3 _].
          apply (opt_eqb_some _ Zeqb_sound). exact P3.
      + right. rewrite He in P3. simpl in P3. apply (opt_eqb_some _ Zeqb_sound). exact P3. }
  split.
  { intros c ns n tag id -> F T. simpl in P3. apply andb_true_iff in P3 as [_ P3]. rewrite F in P3.
    assert (T' : opt_eqb Z.eqb (zlookup id tags) (Some tag) = true) by (rewrite T; simpl; apply Z.eqb_refl).
    rewrite T' in P3.
    repeat match goal with H : _ && _ = true |- _ => apply andb_true_iff in H as [H ?] end.
    split; [destruct (to_err o); [discriminate | reflexivity]|].
    split; [apply Z.eqb_eq; assumption|].
    split; [destruct (to_evs o); [reflexivity | discriminate]|].
    apply (same_set_sound _ sent_eqb_sound). assumption. }
  { intros ns n ->. simpl in P3. apply andb_true_iff in P3 as [_ P3]. apply andb_true_iff in P3 as [_ P3]. split.
    - intros id F. rewrite F in P3. apply andb_true_iff in P3 as [Q1 Q2].
      split; [destruct (to_err o); [discriminate | reflexivity] | apply Z.eqb_eq; exact Q2].
    - intros F. rewrite F in P3. exact P3. }
Qed.

(** * grp "tcreal" *)

(** per name: (content of the spec applied last, entity returned then), before position [i] *)
Fixpoint tcreal_ctx (live : list (string * (Z * Z))) (ops : list (string * Z)) (obs : list (bool * Z * Z)) (i : nat)
  : list (string * (Z * Z)) :=
  match i, ops, obs with
  | S i', (n, sp) :: ot, (_, ret, _) :: bt => tcreal_ctx (sset n (sp, ret) live) ot bt i'
  | _, _, _ => live
  end.

(** soundness of [tcreal_prop] (real Pipeline objects, fresh Spec parsed from YAML per call): at every
    position, re-applying the spec content that is live under that name causes NO filter Init /
    Inherit / Close and returns the live entity (no new generation); applying another content causes
    lifecycle calls and returns another entity *)
Theorem tcreal_prop_sound : forall ops obs live, tcreal_prop live ops obs = true ->
  List.length ops = List.length obs /\
  forall i n sp err ret nev, nth_error ops i = Some (n, sp) -> nth_error obs i = Some (err, ret, nev) ->
    err = false /\
    match slookup n (tcreal_ctx live ops obs i) with
    | Some (sp0, id0) => (sp0 = sp -> nev = 0 /\ ret = id0) /\ (sp0 <> sp -> nev <> 0 /\ ret <> id0)
    | None => nev <> 0
    end.
Proof.
  induction ops as [|[n0 sp0] t IH]; intros [|[[e0 r0] v0] bt] live H; simpl in H; try discriminate.
  - split; [reflexivity | intros [|i] ? ? ? ? ? ?; discriminate].
  - apply andb_true_iff in H as [H H2]. apply andb_true_iff in H as [H0 H1].
    destruct (IH _ _ H2) as [L N]. split; [simpl; f_equal; exact L|].
    intros [|i] n sp err ret nev Ho Hb; simpl in Ho, Hb.
    + inversion Ho; inversion Hb; subst. simpl.
      split; [destruct err; [discriminate | reflexivity]|].
      destruct (slookup n live) as [[s1 i1]|].
      * destruct (s1 =? sp) eqn:E.
        -- apply Z.eqb_eq in E. apply andb_true_iff in H1 as [A B]. apply Z.eqb_eq in A, B.
           split; [intros _; split; assumption | intro X; contradiction].
        -- apply Z.eqb_neq in E. apply andb_true_iff in H1 as [A B].
           split; [intro X; contradiction | intros _; split; apply Z.eqb_neq; [destruct (nev =? 0) | destruct (ret =? i1)]; try discriminate; reflexivity].
      * apply Z.eqb_neq. destruct (nev =? 0); [discriminate | reflexivity].
    + simpl. apply N; assumption.
Qed.

(** * grp "reg" *)

Lemma sv_eqb_sound : forall a b, sv_eqb a b = true -> a = b.
Proof.
  intros [a1 a2] [b1 b2] H. unfold sv_eqb in H; simpl in H. apply andb_true_iff in H as [H1 H2].
  apply String.eqb_eq in H1, H2. subst; reflexivity.
Qed.

Definition bad_names (r : reg_round) : list string :=
  flat_map (fun '(n, v) => match v with None => [n] | Some _ => [] end) (rr_snap r).

(** names that had an undecodable entry in some round up to and including round [i] *)
Fixpoint reg_tainted (tainted : list string) (rs : list reg_round) (i : nat) : list string :=
  match rs with
  | [] => tainted
  | r :: t => match i with
              | O => bad_names r ++ tainted
              | S i' => reg_tainted (bad_names r ++ tainted) t i'
              end
  end.

Lemma not_tainted_true : forall n l, ~ In n l -> negb (existsb (String.eqb n) l) = true.
Proof.
  intros n l H. destruct (existsb (String.eqb n) l) eqn:E; [|reflexivity].
  apply existsb_exists in E as [y [Hy Ey]]. apply String.eqb_eq in Ey. subst y. contradiction.
Qed.

(** soundness of [reg_prop]: in EVERY round of an accepted registry history, every object whose
    entry has never been undecodable receives exactly the event (create / update with that value /
    delete / nothing) that a registry which never saw the undecodable entries delivers *)
Theorem reg_prop_sound : forall rs tainted, reg_prop tainted rs = true ->
  forall i r, nth_error rs i = Some r ->
    rr_panic r = false /\
    forall n, ~ In n (reg_tainted tainted rs i) ->
      (forall v, In (n, v) (rr_create r) <-> In (n, v) (rr_tcreate r)) /\
      (forall v, In (n, v) (rr_update r) <-> In (n, v) (rr_tupdate r)) /\
      (In n (rr_delete r) <-> In n (rr_tdelete r)).
Proof.
  induction rs as [|r0 t IH]; intros tainted H i r Hi; [destruct i; discriminate|].
  simpl in H. fold (bad_names r0) in H.
  apply andb_true_iff in H as [H Hrest]. apply andb_true_iff in H as [H Hd].
  apply andb_true_iff in H as [H Hu]. apply andb_true_iff in H as [Hp Hc].
  destruct i as [|i]; simpl in Hi.
  - inversion Hi; subst r. split; [destruct (rr_panic r0); [discriminate | reflexivity]|].
    intros n Hn. simpl in Hn. pose proof (not_tainted_true _ _ Hn) as T.
    split; [|split].
    + intro v. pose proof (same_set_sound _ sv_eqb_sound _ _ Hc (n, v)) as I.
      rewrite !filter_In in I. simpl in I. rewrite T in I. tauto.
    + intro v. pose proof (same_set_sound _ sv_eqb_sound _ _ Hu (n, v)) as I.
      rewrite !filter_In in I. simpl in I. rewrite T in I. tauto.
    + pose proof (same_set_sound _ Seqb_sound _ _ Hd n) as I.
      rewrite !filter_In in I. rewrite T in I. tauto.
  - simpl. eapply IH; eassumption.
Qed.

(** * Non-vacuity: concrete non-trivial histories that the checkers accept *)

Example pipe_prop_nonvacuous :
  let ops := [PlInit 0; PlHandle 0; PlInherit 1 0; PlHandle 0; PlHandle 1] in
  let obs := [PoLife false [EInit 0 "f0"]; PoHandle [EHandle 0 "f0"] (PRes "" 0);
              PoLife false [EInherit 1 "f0" 0; EClose 0 "f0"];
              PoHandle [EHandle 0 "f0"] (PRes "" 0); PoHandle [EHandle 1 "f0"] (PRes "" 0)] in
  pipe_prop ops obs = true /\
  (* and a request of the old generation that visits an instance of the new one is rejected *)
  pipe_prop ops [PoLife false [EInit 0 "f0"]; PoHandle [EHandle 0 "f0"] (PRes "" 0);
                 PoLife false [EInherit 1 "f0" 0; EClose 0 "f0"];
                 PoHandle [EHandle 1 "f0"] (PRes "" 0); PoHandle [EHandle 1 "f0"] (PRes "" 0)] = false.
Proof. split; vm_compute; reflexivity. Qed.

Example tc_prop_nonvacuous :
  let e1 := ("n1"%string, CP, "a"%string, 1) in
  let e2 := ("n1"%string, CP, "a"%string, 2) in
  let ops := [TApply CP "n1" "a" 0; TApply CP "n1" "a" 0; TApply CP "n1" "a" 1; TGet "n1" "a"] in
  let obs := [ {| to_err := false; to_panic := false; to_ret := 1; to_evs := [TInit CP 1 "a" 0]; to_mid := [[]]; to_snap := [e1]; to_spaces := ["n1"%string] |};
               {| to_err := false; to_panic := false; to_ret := 1; to_evs := []; to_mid := []; to_snap := [e1]; to_spaces := ["n1"%string] |};
               {| to_err := false; to_panic := false; to_ret := 2; to_evs := [TInherit CP 2 "a" 1 1]; to_mid := [[e1]]; to_snap := [e2]; to_spaces := ["n1"%string] |};
               {| to_err := false; to_panic := false; to_ret := 2; to_evs := [THandle 2 "a" 1]; to_mid := []; to_snap := [e2]; to_spaces := ["n1"%string] |} ] in
  tc_prop_all [] [] ops obs = true /\
  (* the same history with the name missing while the update inherits is rejected *)
  tc_prop_all [] [] ops
    [ {| to_err := false; to_panic := false; to_ret := 1; to_evs := [TInit CP 1 "a" 0]; to_mid := [[]]; to_snap := [e1]; to_spaces := ["n1"%string] |};
      {| to_err := false; to_panic := false; to_ret := 1; to_evs := []; to_mid := []; to_snap := [e1]; to_spaces := ["n1"%string] |};
      {| to_err := false; to_panic := false; to_ret := 2; to_evs := [TInherit CP 2 "a" 1 1]; to_mid := [[]]; to_snap := [e2]; to_spaces := ["n1"%string] |};
      {| to_err := false; to_panic := false; to_ret := 2; to_evs := [THandle 2 "a" 1]; to_mid := []; to_snap := [e2]; to_spaces := ["n1"%string] |} ] = false.
Proof. split; vm_compute; reflexivity. Qed.

Example tcreal_reg_nonvacuous :
  tcreal_prop [] [("a"%string, 0); ("a"%string, 0); ("a"%string, 1)] [(false, 1, 1); (false, 1, 0); (false, 2, 3)] = true /\
  tcreal_prop [] [("a"%string, 0); ("a"%string, 0)] [(false, 1, 1); (false, 2, 3)] = false /\
  reg_prop [] [ {| rr_snap := [("a"%string, Some "v1"%string); ("x"%string, None)]; rr_panic := false;
                   rr_create := [("a"%string, "v1"%string)]; rr_update := []; rr_delete := [];
                   rr_tcreate := [("a"%string, "v1"%string)]; rr_tupdate := []; rr_tdelete := [] |} ] = true /\
  reg_prop [] [ {| rr_snap := [("a"%string, Some "v1"%string); ("x"%string, None)]; rr_panic := false;
                   rr_create := []; rr_update := []; rr_delete := [];
                   rr_tcreate := [("a"%string, "v1"%string)]; rr_tupdate := []; rr_tdelete := [] |} ] = false.
Proof. repeat split; vm_compute; reflexivity. Qed.
