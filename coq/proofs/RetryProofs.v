(** C10 - lemmas about the Retry / CircuitBreaker-wrapper / ServerPool model. *)
From EG.lib Require Import Base.
From EG.model Require Import Retry.
From Coq Require Import ZifyBool.
Open Scope Z_scope.

(** * arithmetic of one back-off computation *)

Lemma div_add_floor : forall a b D, 0 < D -> a / D + b / D <= (a + b) / D.
Proof.
  intros a b D HD.
  pose proof (Z.div_mod a D ltac:(lia)) as Ea. pose proof (Z.mod_pos_bound a D HD) as Ba.
  pose proof (Z.div_mod b D ltac:(lia)) as Eb. pose proof (Z.mod_pos_bound b D HD) as Bb.
  apply Z.div_le_lower_bound; [exact HD|]. nia.
Qed.

Lemma draw_bound_pos : forall bn bd fn fd,
  0 < bn -> 0 < bd -> 0 < fd -> 0 <= fn ->
  draw_bound bn bd fn fd = (2 * bn * fn) / (bd * fd) + 1 /\ 1 <= draw_bound bn bd fn fd.
Proof.
  intros bn bd fn fd Hbn Hbd Hfd Hfn. unfold draw_bound.
  assert (HD : 0 < bd * fd) by nia.
  assert (Hn : 0 <= 2 * bn * fn) by nia.
  rewrite Z.quot_div_nonneg by lia.
  replace (2 * bn * fn + bd * fd) with (2 * bn * fn + 1 * (bd * fd)) by ring.
  rewrite Z.div_add by lia.
  pose proof (Z.div_pos (2 * bn * fn) (bd * fd) Hn HD). lia.
Qed.

Lemma wait_val_bounds : forall bn bd fn fd draw,
  0 < bn -> 0 < bd -> 0 < fd -> 0 <= fn <= fd ->
  (bn * (fd - fn)) / (bd * fd) <= wait_val bn bd fn fd draw <= (bn * (fd + fn)) / (bd * fd)
  /\ 0 <= wait_val bn bd fn fd draw.
Proof.
  intros bn bd fn fd draw Hbn Hbd Hfd Hfn.
  destruct (draw_bound_pos bn bd fn fd Hbn Hbd Hfd ltac:(lia)) as [Eb Hb1].
  unfold wait_val, wait_lo.
  assert (HD : 0 < bd * fd) by nia.
  assert (Hlo : 0 <= bn * (fd - fn)) by nia.
  rewrite Z.quot_div_nonneg by lia.
  pose proof (Z.mod_pos_bound draw (draw_bound bn bd fn fd) ltac:(lia)) as Hm.
  pose proof (Z.div_pos (bn * (fd - fn)) (bd * fd) Hlo HD) as Hq.
  pose proof (div_add_floor (bn * (fd - fn)) (2 * bn * fn) (bd * fd) HD) as Hs.
  replace (bn * (fd - fn) + 2 * bn * fn) with (bn * (fd + fn)) in Hs by ring.
  lia.
Qed.

(** * closed form of the base *)

Lemma base_num_pos : forall p i, 0 < base_num p i.
Proof.
  intros p i. unfold base_num, eff_wait.
  assert (0 < 3 ^ Z.of_nat i) by (apply Z.pow_pos_nonneg; lia).
  destruct (p_expo p); destruct (p_wait p <=? 0) eqn:E; nia.
Qed.

Lemma base_den_pos : forall p i, 0 < base_den p i.
Proof.
  intros p i. unfold base_den.
  assert (0 < 2 ^ Z.of_nat i) by (apply Z.pow_pos_nonneg; lia).
  destruct (p_expo p); lia.
Qed.

Lemma base_num_succ : forall p i,
  base_num p (S i) = if p_expo p then 3 * base_num p i else base_num p i.
Proof.
  intros p i. unfold base_num. destruct (p_expo p); [|reflexivity].
  rewrite Nat2Z.inj_succ, Z.pow_succ_r by lia. ring.
Qed.

Lemma base_den_succ : forall p i,
  base_den p (S i) = if p_expo p then 2 * base_den p i else base_den p i.
Proof.
  intros p i. unfold base_den. destruct (p_expo p); [|reflexivity].
  rewrite Nat2Z.inj_succ, Z.pow_succ_r by lia. ring.
Qed.

Lemma wait_at_bounds : forall p draws i,
  0 < p_fden p -> 0 <= p_fnum p <= p_fden p ->
  lo_wait p i <= wait_at p draws i <= hi_wait p i /\ 0 <= wait_at p draws i.
Proof.
  intros p draws i Hd Hn. unfold wait_at, lo_wait, hi_wait.
  apply wait_val_bounds; auto using base_num_pos, base_den_pos.
Qed.

Lemma lo_wait_nonneg : forall p i, 0 < p_fden p -> 0 <= p_fnum p <= p_fden p -> 0 <= lo_wait p i.
Proof.
  intros p i Hd Hn. unfold lo_wait.
  pose proof (base_num_pos p i). pose proof (base_den_pos p i).
  apply Z.div_pos; nia.
Qed.

(** * the attempt loop *)

Lemma last_some_cons : forall (t : list nat) a, exists j, List.last (map Some (a :: t)) None = Some j.
Proof.
  induction t as [|b t IH]; intros a; [exists a; reflexivity|].
  destruct (IH b) as [j Ej]. exists j. rewrite <- Ej. reflexivity.
Qed.

Lemma attempts_of_attempt : forall i t, attempts_of (Attempt i :: t) = i :: attempts_of t.
Proof. reflexivity. Qed.
Lemma attempts_of_wait : forall d t, attempts_of (Wait d :: t) = attempts_of t.
Proof. reflexivity. Qed.
Lemma waits_of_attempt : forall i t, waits_of (Attempt i :: t) = waits_of t.
Proof. reflexivity. Qed.
Lemma waits_of_wait : forall d t, waits_of (Wait d :: t) = d :: waits_of t.
Proof. reflexivity. Qed.

Section Loop.
  Variable p : policy.
  Variable h : nat -> outcome.
  Variable draws : nat -> Z.
  Variable cancel_at : option nat.
  Variable pick : nat -> bool.

  Hypothesis Hfd : 0 < p_fden p.
  Hypothesis Hfn : 0 <= p_fnum p <= p_fden p.

  Notation L := (loop p h draws cancel_at pick).

  (** unfolding of one iteration under the closed-form invariant *)
  Lemma loop_S : forall r i last,
    L (S r) i (base_num p i) (base_den p i) last =
    Attempt i ::
      if retryable (h i) then
        if ctx_done cancel_at i && ((0 <? wait_at p draws i) || negb (pick i))
        then [Abort; Return (Some (h i))]
        else Wait (wait_at p draws i) ::
             L r (S i) (base_num p (S i)) (base_den p (S i)) (Some (h i))
      else [Return (Some (h i))].
  Proof.
    intros r i last. cbn [loop].
    destruct (draw_bound_pos (base_num p i) (base_den p i) (p_fnum p) (p_fden p)
                (base_num_pos p i) (base_den_pos p i) Hfd ltac:(lia)) as [_ Hb].
    destruct (draw_bound (base_num p i) (base_den p i) (p_fnum p) (p_fden p) <=? 0) eqn:E; [lia|].
    rewrite base_num_succ, base_den_succ. reflexivity.
  Qed.

  Lemma loop_0 : forall i bn bd last, L 0 i bn bd last = [Return last].
  Proof. reflexivity. Qed.

  (** attempts are numbered consecutively and there are at most [r] of them *)
  Lemma loop_attempts : forall r i last,
    exists n, (n <= r)%nat /\ (0 < r -> 0 < n)%nat /\
      attempts_of (L r i (base_num p i) (base_den p i) last) = seq i n.
  Proof.
    induction r as [|r IH]; intros i last.
    - exists 0%nat. repeat split; try lia.
    - rewrite loop_S.
      destruct (retryable (h i)).
      + destruct (ctx_done cancel_at i && ((0 <? wait_at p draws i) || negb (pick i))).
        * exists 1%nat. repeat split; try lia.
        * destruct (IH (S i) (Some (h i))) as [n [Hn [_ Ha]]].
          exists (S n). repeat split; try lia.
          rewrite attempts_of_attempt, attempts_of_wait, Ha. reflexivity.
      + exists 1%nat. repeat split; try lia.
  Qed.

  (** every attempt before an attempted one was a (retryable) failure *)
  Lemma loop_prefix_failed : forall r i last j,
    In (Attempt j) (L r i (base_num p i) (base_den p i) last) ->
    (i <= j)%nat /\ forall m, (i <= m < j)%nat -> retryable (h m) = true.
  Proof.
    induction r as [|r IH]; intros i last j Hin.
    - cbn in Hin. destruct Hin as [Hin|[]]; discriminate.
    - rewrite loop_S in Hin. destruct Hin as [Hin|Hin].
      + inversion Hin; subst. split; [lia|]. intros m Hm; lia.
      + destruct (retryable (h i)) eqn:Er.
        * destruct (ctx_done cancel_at i && ((0 <? wait_at p draws i) || negb (pick i))).
          -- cbn in Hin. destruct Hin as [Hin|[Hin|[]]]; discriminate.
          -- destruct Hin as [Hin|Hin]; [discriminate|].
             apply IH in Hin as [Hle Hall]. split; [lia|].
             intros m Hm. destruct (Nat.eq_dec m i) as [->|Hne]; [exact Er|].
             apply Hall; lia.
        * cbn in Hin. destruct Hin as [Hin|[]]; discriminate.
  Qed.

  (** the returned outcome is the outcome of the last attempt *)
  Lemma loop_final : forall r i last,
    final_of (L r i (base_num p i) (base_den p i) last) =
    match List.last (map Some (attempts_of (L r i (base_num p i) (base_den p i) last))) None with
    | None => last
    | Some j => Some (h j)
    end.
  Proof.
    induction r as [|r IH]; intros i last.
    - reflexivity.
    - rewrite loop_S.
      destruct (retryable (h i)).
      + destruct (ctx_done cancel_at i && ((0 <? wait_at p draws i) || negb (pick i))).
        * reflexivity.
        * rewrite attempts_of_attempt, attempts_of_wait. cbn [final_of].
          specialize (IH (S i) (Some (h i))).
          rewrite IH.
          destruct (attempts_of (L r (S i) (base_num p (S i)) (base_den p (S i)) (Some (h i))))
            as [|a t] eqn:Ea.
          -- reflexivity.
          -- destruct (last_some_cons t a) as [j Ej].
             change (List.last (map Some (i :: a :: t)) None) with (List.last (map Some (a :: t)) None).
             rewrite Ej. reflexivity.
      + reflexivity.
  Qed.

  (** the trace ends in exactly one Return; nothing follows it *)
  Lemma loop_ends_with_return : forall r i last,
    exists pre o, L r i (base_num p i) (base_den p i) last = pre ++ [Return o] /\
                  forall e, In e pre -> match e with Return _ => False | _ => True end.
  Proof.
    induction r as [|r IH]; intros i last.
    - exists [], last. split; [reflexivity|]. intros e [].
    - rewrite loop_S. destruct (retryable (h i)).
      + destruct (ctx_done cancel_at i && ((0 <? wait_at p draws i) || negb (pick i))).
        * exists [Attempt i; Abort], (Some (h i)). split; [reflexivity|].
          intros e [<-|[<-|[]]]; exact I.
        * destruct (IH (S i) (Some (h i))) as [pre [o [E Hp]]].
          exists (Attempt i :: Wait (wait_at p draws i) :: pre), o. rewrite E. split; [reflexivity|].
          intros e [<-|[<-|Hin]]; try exact I. apply Hp; exact Hin.
      + exists [Attempt i], (Some (h i)). split; [reflexivity|]. intros e [<-|[]]; exact I.
  Qed.

  (** an attempt other than the first of the loop is directly preceded by a
      completed wait of the computed length, itself preceded by the previous attempt *)
  Lemma loop_gap : forall r i last k j,
    nth_error (L r i (base_num p i) (base_den p i) last) k = Some (Attempt (S j)) ->
    (k = 0%nat /\ S j = i) \/
    (2 <= k)%nat /\
    nth_error (L r i (base_num p i) (base_den p i) last) (k - 1) = Some (Wait (wait_at p draws j)) /\
    nth_error (L r i (base_num p i) (base_den p i) last) (k - 2) = Some (Attempt j).
  Proof.
    induction r as [|r IH]; intros i last k j Hk.
    - apply nth_error_In in Hk. cbn in Hk. destruct Hk as [Hk|[]]; discriminate.
    - rewrite loop_S in *.
      destruct k as [|k].
      + cbn in Hk. inversion Hk. left. split; reflexivity.
      + right. cbn [nth_error] in Hk.
        destruct (retryable (h i)).
        * destruct (ctx_done cancel_at i && ((0 <? wait_at p draws i) || negb (pick i))).
          -- apply nth_error_In in Hk. cbn in Hk. destruct Hk as [Hk|[Hk|[]]]; discriminate.
          -- destruct k as [|k]; [cbn in Hk; discriminate|].
             cbn [nth_error] in Hk.
             apply IH in Hk as [[-> Hj]|[Hk2 [Hw Ha]]].
             ++ inversion Hj; subst. repeat split; try lia; reflexivity.
             ++ split; [lia|].
                replace (S (S k) - 1)%nat with (S (S (k - 1))) by lia.
                replace (S (S k) - 2)%nat with (S (S (k - 2))) by lia.
                cbn [nth_error]. split; assumption.
        * apply nth_error_In in Hk. cbn in Hk. destruct Hk as [Hk|[]]; discriminate.
  Qed.

  (** every completed wait has the computed length (also the one after the last attempt) *)
  Lemma loop_waits : forall r i last m d,
    nth_error (waits_of (L r i (base_num p i) (base_den p i) last)) m = Some d ->
    d = wait_at p draws (i + m).
  Proof.
    induction r as [|r IH]; intros i last m d Hm.
    - destruct m; discriminate.
    - rewrite loop_S in Hm. rewrite waits_of_attempt in Hm.
      destruct (retryable (h i)).
      + destruct (ctx_done cancel_at i && ((0 <? wait_at p draws i) || negb (pick i))).
        * destruct m; discriminate.
        * rewrite waits_of_wait in Hm.
          destruct m as [|m].
          -- cbn in Hm. inversion Hm. f_equal. lia.
          -- cbn [nth_error] in Hm. apply IH in Hm. subst. f_equal. lia.
      + destruct m; discriminate.
  Qed.

  (** no attempt after the select that saw the cancelled context, unless the
      timer was due at once (wait 0) and the select picked it *)
  Lemma loop_cancel : forall k, cancel_at = Some k ->
    (0 < wait_at p draws k \/ pick k = false) ->
    forall r i last j, (i <= k)%nat ->
    In (Attempt j) (L r i (base_num p i) (base_den p i) last) -> (j <= k)%nat.
  Proof.
    intros k Hc Hw. induction r as [|r IH]; intros i last j Hik Hin.
    - cbn in Hin. destruct Hin as [Hin|[]]; discriminate.
    - rewrite loop_S in Hin. destruct Hin as [Hin|Hin].
      + inversion Hin; subst; lia.
      + destruct (retryable (h i)).
        * destruct (ctx_done cancel_at i && ((0 <? wait_at p draws i) || negb (pick i))) eqn:Ec.
          -- cbn in Hin. destruct Hin as [Hin|[Hin|[]]]; discriminate.
          -- destruct Hin as [Hin|Hin]; [discriminate|].
             destruct (Nat.eq_dec i k) as [->|Hne].
             ++ exfalso. unfold ctx_done in Ec. rewrite Hc in Ec.
                rewrite Nat.leb_refl in Ec. cbn [andb] in Ec.
                destruct Hw as [Hw|Hw]; [|rewrite Hw in Ec; cbn in Ec; rewrite orb_true_r in Ec; discriminate].
                assert (E : (0 <? wait_at p draws k) = true) by lia.
                rewrite E in Ec. discriminate.
             ++ apply (IH (S i) (Some (h i)) j); [lia|exact Hin].
        * cbn in Hin. destruct Hin as [Hin|[]]; discriminate.
  Qed.

  (** range of the final outcome (used for "never hangs") *)
  Lemma loop_final_range : forall r i last,
    final_of (L r i (base_num p i) (base_den p i) last) = last \/
    exists j, final_of (L r i (base_num p i) (base_den p i) last) = Some (h j).
  Proof.
    intros r i last. rewrite loop_final.
    destruct (List.last _ None); [right; eexists; reflexivity | left; reflexivity].
  Qed.
End Loop.

(** * statements about [retry_run] *)

Lemma retry_run_unfold : forall p h draws c pick,
  retry_run p h draws c pick =
  loop p h draws c pick (Z.to_nat (p_max p)) 0 (base_num p 0) (base_den p 0) None.
Proof.
  intros. unfold retry_run, base_num, base_den. cbn [Z.of_nat].
  rewrite Z.pow_0_r. destruct (p_expo p); rewrite ?Z.mul_1_r; reflexivity.
Qed.

Definition fvalid (p : policy) : Prop := 0 < p_fden p /\ 0 <= p_fnum p <= p_fden p.

Lemma valid_fvalid : forall p, valid p -> fvalid p.
Proof. intros p [_ [H1 H2]]. split; assumption. Qed.

Lemma last_seq : forall n i, List.last (map Some (seq i (S n))) None = Some (i + n)%nat.
Proof.
  induction n as [|n IH]; intros i.
  - cbn. f_equal. lia.
  - change (seq i (S (S n))) with (i :: seq (S i) (S n)).
    change (seq (S i) (S n)) with (S i :: seq (S (S i)) n) at 1.
    change (List.last (map Some (i :: S i :: seq (S (S i)) n)) None)
      with (List.last (map Some (S i :: seq (S (S i)) n)) None).
    change (S i :: seq (S (S i)) n) with (seq (S i) (S n)).
    rewrite IH. f_equal. lia.
Qed.

(** attempts <= maxAttempts, numbered 0..n-1, at least one when maxAttempts >= 1 *)
Lemma attempts_le_max : forall p h draws c pick, fvalid p ->
  attempts_of (retry_run p h draws c pick) = seq 0 (n_attempts (retry_run p h draws c pick)) /\
  Z.of_nat (n_attempts (retry_run p h draws c pick)) <= Z.max 0 (p_max p) /\
  (1 <= p_max p -> (1 <= n_attempts (retry_run p h draws c pick))%nat).
Proof.
  intros p h draws c pick [Hd Hn]. unfold n_attempts. rewrite retry_run_unfold.
  destruct (loop_attempts p h draws c pick Hd Hn (Z.to_nat (p_max p)) 0 None) as [n [Hle [Hpos Ha]]].
  rewrite Ha, seq_length. repeat split; lia.
Qed.

(** no attempt follows a non-failing (successful / panicking / hanging) one:
    every attempt before an attempted one returned an error *)
Lemma stops_at_first_success : forall p h draws c pick, fvalid p ->
  forall i j, In (Attempt j) (retry_run p h draws c pick) -> (i < j)%nat ->
  exists code r, h i = OErr code r.
Proof.
  intros p h draws c pick [Hd Hn] i j Hin Hlt. rewrite retry_run_unfold in Hin.
  apply (loop_prefix_failed p h draws c pick Hd Hn) in Hin as [_ Hall].
  specialize (Hall i ltac:(lia)). destruct (h i); try discriminate. eauto.
Qed.

Lemma final_is_last_attempt : forall p h draws c pick, valid p ->
  let tr := retry_run p h draws c pick in
  final_of tr = Some (h (n_attempts tr - 1)%nat) /\
  exists pre, tr = pre ++ [Return (Some (h (n_attempts tr - 1)%nat))] /\
              forall e, In e pre -> match e with Return _ => False | _ => True end.
Proof.
  intros p h draws c pick Hv tr. pose proof (valid_fvalid p Hv) as [Hd Hn].
  destruct (attempts_le_max p h draws c pick (conj Hd Hn)) as [Ha [_ Hpos]].
  specialize (Hpos ltac:(destruct Hv; lia)). fold tr in Ha, Hpos.
  assert (Hf : final_of tr = Some (h (n_attempts tr - 1)%nat)).
  { unfold tr at 1. rewrite retry_run_unfold, (loop_final p h draws c pick Hd Hn).
    rewrite <- retry_run_unfold. fold tr. rewrite Ha.
    destruct (n_attempts tr) as [|n]; [lia|]. rewrite last_seq. do 2 f_equal. lia. }
  split; [exact Hf|].
  destruct (loop_ends_with_return p h draws c pick Hd Hn (Z.to_nat (p_max p)) 0 None) as [pre [o [E Hp]]].
  rewrite <- retry_run_unfold in E. fold tr in E.
  remember (Some (h (n_attempts tr - 1)%nat)) as tgt eqn:Et. clear Et.
  exists pre. split; [|exact Hp].
  rewrite E in Hf |- *. assert (Eo : o = tgt); [|rewrite Eo; reflexivity].
  clear - Hf Hp.
  induction pre as [|e pre IH]; cbn in *.
  - exact Hf.
  - pose proof (Hp e (or_introl eq_refl)) as He.
    assert (Hp' : forall e0, In e0 pre -> match e0 with Return _ => False | _ => True end)
      by (intros e0 H0; apply Hp; right; exact H0).
    destruct e; try contradiction; apply IH; assumption.
Qed.

Lemma backoff_lower_bound : forall p h draws c pick, fvalid p ->
  let tr := retry_run p h draws c pick in
  forall k j, nth_error tr k = Some (Attempt (S j)) ->
  exists d, nth_error tr (k - 1) = Some (Wait d) /\ nth_error tr (k - 2) = Some (Attempt j) /\
            (2 <= k)%nat /\ d = wait_at p draws j /\ lo_wait p j <= d <= hi_wait p j.
Proof.
  intros p h draws c pick [Hd Hn] tr k j Hk. unfold tr in *. rewrite retry_run_unfold in *.
  apply (loop_gap p h draws c pick Hd Hn) in Hk as [[_ Hj]|[Hk2 [Hw Ha]]]; [discriminate|].
  exists (wait_at p draws j). repeat split; try assumption; apply wait_at_bounds; assumption.
Qed.

Lemma all_waits_bounded : forall p h draws c pick, fvalid p ->
  forall m d, nth_error (waits_of (retry_run p h draws c pick)) m = Some d ->
  d = wait_at p draws m /\ lo_wait p m <= d <= hi_wait p m.
Proof.
  intros p h draws c pick [Hd Hn] m d Hm. rewrite retry_run_unfold in Hm.
  apply (loop_waits p h draws c pick Hd Hn) in Hm. cbn in Hm. subst.
  split; [reflexivity|]. apply wait_at_bounds; assumption.
Qed.

Lemma no_attempt_after_cancel : forall p h draws k pick, fvalid p ->
  (0 < wait_at p draws k \/ pick k = false) ->
  forall j, In (Attempt j) (retry_run p h draws (Some k) pick) -> (j <= k)%nat.
Proof.
  intros p h draws k pick [Hd Hn] Hw j Hin. rewrite retry_run_unfold in Hin.
  eapply (loop_cancel p h draws (Some k) pick Hd Hn k eq_refl Hw); [|exact Hin]. lia.
Qed.

Lemma no_attempt_after_cancel_lo : forall p h draws k pick, fvalid p ->
  0 < lo_wait p k ->
  forall j, In (Attempt j) (retry_run p h draws (Some k) pick) -> (j <= k)%nat.
Proof.
  intros p h draws k pick Hv Hlo. apply no_attempt_after_cancel; [exact Hv|].
  left. destruct Hv as [Hd Hn]. pose proof (wait_at_bounds p draws k Hd Hn). lia.
Qed.

(** the explicit exception: wait 0 and the select picks the timer *)
Definition race_policy : policy :=
  {| p_max := 3; p_wait := 1; p_fnum := 1; p_fden := 4; p_expo := false |}.

Lemma zero_wait_select_race :
  exists p h draws k pick,
    valid p /\ wait_at p draws k = 0 /\
    In (Attempt (S k)) (retry_run p h draws (Some k) pick).
Proof.
  exists race_policy, (fun i => OErr (Z.of_nat i) RNone), (fun _ => 0), 0%nat, (fun _ => true).
  split; [unfold valid, race_policy; cbn; lia|].
  split; [vm_compute; reflexivity|]. vm_compute. right. right. left. reflexivity.
Qed.

(** * CircuitBreaker wrapper *)

Lemma records_of_app : forall a b, records_of (a ++ b) = records_of a ++ records_of b.
Proof. intros. unfold records_of. apply flat_map_app. Qed.

Lemma records_of_inner : forall tr, records_of (map CbInner tr) = [].
Proof. induction tr as [|e t IH]; [reflexivity|]. cbn. exact IH. Qed.

Lemma inner_of_app : forall a b, inner_of (a ++ b) = inner_of a ++ inner_of b.
Proof. intros. unfold inner_of. apply flat_map_app. Qed.

Lemma inner_of_inner : forall tr, inner_of (map CbInner tr) = tr.
Proof. induction tr as [|e t IH]; [reflexivity|]. cbn. f_equal. exact IH. Qed.

Definition is_failure (o : option outcome) : bool :=
  match o with Some (OErr _ _) | Some OPanic => true | _ => false end.

(** exactly one RecordResult per permitted call that comes back (normally or by
    panic), whatever the inner trace - in particular however many attempts it has *)
Lemma cb_wrap_records_once : forall inner,
  final_of inner <> Some OHang ->
  records_of (cb_wrap true inner) = [is_failure (final_of inner)] /\
  inner_of (cb_wrap true inner) = inner.
Proof.
  intros inner Hh. unfold cb_wrap. cbn [negb].
  rewrite records_of_app, records_of_inner, inner_of_app, inner_of_inner.
  destruct (final_of inner) as [[c|c r| |]|]; cbn; try (split; [reflexivity|apply app_nil_r]).
  contradiction.
Qed.

Lemma cb_wrap_rejected : forall inner,
  records_of (cb_wrap false inner) = [] /\ inner_of (cb_wrap false inner) = [].
Proof. intros. split; reflexivity. Qed.

Lemma cb_wrap_inner : forall b inner, b = true -> inner_of (cb_wrap b inner) = inner.
Proof.
  intros b inner ->. unfold cb_wrap. cbn [negb].
  rewrite inner_of_app, inner_of_inner.
  destruct (final_of inner) as [[c|c r| |]|]; cbn; apply app_nil_r.
Qed.

(** * ServerPool.handle *)

Definition pool_ok (pl : pool) : Prop :=
  match pl_retry pl with Some p => valid p | None => True end.

Lemma pool_inner : forall pl rq,
  inner_of (pool_trace pl true rq) = handler_trace pl rq.
Proof.
  intros pl rq. unfold pool_trace. destruct (pl_cb pl).
  - apply cb_wrap_inner. reflexivity.
  - apply inner_of_inner.
Qed.

Lemma pool_not_rejected : forall pl rq,
  existsb (fun e => match e with CbReject => true | _ => false end) (pool_trace pl true rq) = false.
Proof.
  intros pl rq. unfold pool_trace, cb_wrap. cbn [negb].
  assert (H : forall tr, existsb (fun e => match e with CbReject => true | _ => false end)
                           (map CbInner tr) = false).
  { induction tr as [|e t IH]; [reflexivity|]. cbn. exact IH. }
  destruct (pl_cb pl); [|apply H].
  rewrite existsb_app, H. destruct (final_of _) as [[c|c r| |]|]; reflexivity.
Qed.

Lemma pool_handle_permitted : forall pl rq,
  po_result (pool_handle pl true rq) = to_presult (final_of (handler_trace pl rq)) /\
  po_attempts (pool_handle pl true rq) = n_attempts (handler_trace pl rq).
Proof.
  intros pl rq. unfold pool_handle. cbn [po_result po_attempts].
  rewrite pool_not_rejected, pool_inner. split; reflexivity.
Qed.

(** stream bodies: exactly one attempt, whatever the retry policy *)
Lemma stream_single_attempt : forall pl rq,
  rq_stream rq = true -> po_attempts (pool_handle pl true rq) = 1%nat.
Proof.
  intros pl rq Hs. destruct (pool_handle_permitted pl rq) as [_ ->].
  unfold handler_trace. rewrite Hs. destruct (pl_retry pl); reflexivity.
Qed.

(** the final outcome of the handler trace *)
Lemma handler_final : forall pl rq, pool_ok pl ->
  final_of (handler_trace pl rq) =
  Some (attempt_outcome pl rq (n_attempts (handler_trace pl rq) - 1)).
Proof.
  intros pl rq Hok. unfold handler_trace, pool_ok in *.
  destruct (pl_retry pl) as [p|]; [|reflexivity].
  destruct (rq_stream rq); [reflexivity|].
  apply final_is_last_attempt. exact Hok.
Qed.

(** with a pool timeout, an attempt whose backend never answers ends as 408 / timeout *)
Lemma timeout_is_408 : forall pl rq, pool_ok pl -> pl_timeout pl = true ->
  rq_script rq (po_attempts (pool_handle pl true rq) - 1)%nat = SBlock ->
  ctx_done (rq_cancel rq) (po_attempts (pool_handle pl true rq) - 1)%nat = false ->
  po_result (pool_handle pl true rq) = PResult RTimeout 408.
Proof.
  intros pl rq Hok Ht Hs Hc.
  destruct (pool_handle_permitted pl rq) as [Er Ea]. rewrite Er. rewrite Ea in Hs, Hc.
  rewrite (handler_final pl rq Hok). unfold attempt_outcome. rewrite Hs, Hc, Ht. reflexivity.
Qed.

Lemma attempt_never_hangs : forall pl rq i, pl_timeout pl = true -> attempt_outcome pl rq i <> OHang.
Proof.
  intros pl rq i Ht. unfold attempt_outcome. rewrite Ht.
  destruct (rq_script rq i) as [c| | | | |]; destruct (ctx_done (rq_cancel rq) i); cbn [orb];
    try discriminate; destruct (zmem c (pl_fcodes pl)); discriminate.
Qed.

Lemma handler_never_hangs : forall pl rq,
  (match pl_retry pl with Some p => fvalid p | None => True end) ->
  pl_timeout pl = true -> final_of (handler_trace pl rq) <> Some OHang.
Proof.
  intros pl rq Hv Ht. unfold handler_trace.
  assert (Hs : final_of (single_run (attempt_outcome pl rq)) <> Some OHang).
  { cbn. intro E. inversion E as [E']. exact (attempt_never_hangs pl rq 0%nat Ht E'). }
  destruct (pl_retry pl) as [p|]; [|exact Hs].
  destruct (rq_stream rq); [exact Hs|].
  destruct Hv as [Hd Hn]. rewrite retry_run_unfold.
  destruct (loop_final_range p (attempt_outcome pl rq) (rq_draws rq) (rq_cancel rq) (rq_pick rq)
              Hd Hn (Z.to_nat (p_max p)) 0 None) as [E|[j E]]; rewrite E.
  - discriminate.
  - intro E'. inversion E' as [E'']. exact (attempt_never_hangs pl rq j Ht E'').
Qed.

Lemma timeout_never_hangs : forall pl rq,
  (match pl_retry pl with Some p => fvalid p | None => True end) ->
  pl_timeout pl = true -> po_result (pool_handle pl true rq) <> PHang.
Proof.
  intros pl rq Hv Ht. destruct (pool_handle_permitted pl rq) as [-> _].
  pose proof (handler_never_hangs pl rq Hv Ht) as H.
  destruct (final_of (handler_trace pl rq)) as [[c|c r| |]|]; cbn; try discriminate.
  contradiction.
Qed.

Definition presult_failed (r : presult) : bool :=
  match r with PResult RNone _ => false | _ => true end.

Lemma attempt_outcome_err : forall pl rq i c r, attempt_outcome pl rq i = OErr c r -> r <> RNone.
Proof.
  intros pl rq i c r E. unfold attempt_outcome in E.
  destruct (rq_script rq i);
    repeat match type of E with context [if ?b then _ else _] => destruct b end;
    inversion E; discriminate.
Qed.

(** exactly one breaker record per client request, for any number of attempts;
    it says "failure" iff the client request did not end with the empty result *)
Lemma breaker_records_once : forall pl rq, pl_cb pl = true -> pool_ok pl ->
  po_result (pool_handle pl true rq) <> PHang ->
  po_records (pool_handle pl true rq) = [presult_failed (po_result (pool_handle pl true rq))].
Proof.
  intros pl rq Hcb Hok Hh.
  destruct (pool_handle_permitted pl rq) as [Er _]. rewrite Er in *.
  unfold pool_handle. cbn [po_records]. unfold pool_trace. rewrite Hcb.
  assert (Hf : final_of (handler_trace pl rq) <> Some OHang).
  { intro E. rewrite E in Hh. apply Hh. reflexivity. }
  destruct (cb_wrap_records_once (handler_trace pl rq) Hf) as [-> _].
  rewrite (handler_final pl rq Hok) in *.
  destruct (attempt_outcome pl rq _) as [c|c r| |] eqn:E; try reflexivity.
  - apply attempt_outcome_err in E. destruct r; try reflexivity. contradiction.
  - exfalso. apply Hf. reflexivity.
Qed.

Lemma breaker_rejected : forall pl rq, pl_cb pl = true ->
  po_result (pool_handle pl false rq) = PResult RShortCircuited 503 /\
  po_attempts (pool_handle pl false rq) = 0%nat /\
  po_records (pool_handle pl false rq) = [].
Proof. intros pl rq Hcb. unfold pool_handle, pool_trace. rewrite Hcb. repeat split; reflexivity. Qed.

(** a run of client requests: as many records as client requests *)
Lemma breaker_run_records : forall pl rqs, pl_cb pl = true -> pool_ok pl ->
  (forall rq, In rq rqs -> po_result (pool_handle pl true rq) <> PHang) ->
  total_records (pool_run pl rqs) = List.length rqs /\
  failed_records (pool_run pl rqs) =
    List.length (filter (fun o => presult_failed (po_result o)) (pool_run pl rqs)).
Proof.
  intros pl rqs Hcb Hok. unfold total_records, failed_records, pool_run.
  induction rqs as [|rq t IH]; intros Hh; [split; reflexivity|].
  cbn [map flat_map]. rewrite (breaker_records_once pl rq Hcb Hok (Hh rq (or_introl eq_refl))).
  destruct (IH (fun r Hr => Hh r (or_intror Hr))) as [IH1 IH2].
  cbn [app List.length filter]. split; [rewrite IH1; reflexivity|].
  destruct (presult_failed (po_result (pool_handle pl true rq))); cbn [List.length]; rewrite IH2; reflexivity.
Qed.

(** * the response the client gets *)

Lemma pool_visible_permitted : forall pl rq,
  po_visible (pool_handle pl true rq) = visible_of rq (handler_trace pl rq).
Proof.
  intros pl rq. unfold pool_handle. cbn [po_visible]. rewrite pool_not_rejected, pool_inner. reflexivity.
Qed.

(** whenever a request ends with a failure result other than failureCode, the client gets
    the gateway's own failure response for that result - never the backend response of
    any attempt (in particular not a response whose body could not be fetched) *)
Lemma failure_response_is_gateways : forall pl rq r s, pool_ok pl ->
  po_result (pool_handle pl true rq) = PResult r s -> r <> RNone -> r <> RFailureCode ->
  po_visible (pool_handle pl true rq) = VGateway s.
Proof.
  intros pl rq r s Hok Hr Hn Hf.
  rewrite pool_visible_permitted. destruct (pool_handle_permitted pl rq) as [Er _].
  rewrite Er in Hr. unfold visible_of. rewrite (handler_final pl rq Hok) in *.
  unfold attempt_outcome in *.
  destruct (rq_script rq (n_attempts (handler_trace pl rq) - 1)) as [c| | | | |]; cbn [publishes].
  - destruct (zmem c (pl_fcodes pl)); cbn in Hr; inversion Hr; subst; contradiction.
  - destruct (ctx_done _ _); cbn in Hr; inversion Hr; reflexivity.
  - destruct (ctx_done _ _); [cbn in Hr; inversion Hr; reflexivity|].
    destruct (pl_timeout pl); cbn in Hr; inversion Hr; reflexivity.
  - cbn in Hr. discriminate.
  - cbn in Hr. inversion Hr. reflexivity.
  - destruct (ctx_done _ _ || pl_timeout pl); cbn in Hr; inversion Hr; reflexivity.
Qed.

(** and a backend response reaches the client only as the response of the LAST attempt, with
    the empty result or failureCode *)
Lemma backend_response_is_last_attempts : forall pl rq j, pool_ok pl ->
  po_visible (pool_handle pl true rq) = VBackend j ->
  j = (po_attempts (pool_handle pl true rq) - 1)%nat /\
  exists s, po_result (pool_handle pl true rq) = PResult RNone s \/
            po_result (pool_handle pl true rq) = PResult RFailureCode s.
Proof.
  intros pl rq j Hok Hv.
  rewrite pool_visible_permitted in Hv. destruct (pool_handle_permitted pl rq) as [Er Ea].
  rewrite Er, Ea. unfold visible_of in Hv. rewrite (handler_final pl rq Hok) in *.
  unfold attempt_outcome in *.
  destruct (rq_script rq (n_attempts (handler_trace pl rq) - 1)) as [c| | | | |]; cbn [publishes] in Hv.
  - destruct (zmem c (pl_fcodes pl)); inversion Hv; split; try reflexivity; exists c; cbn; auto.
  - destruct (ctx_done _ _); discriminate.
  - destruct (ctx_done _ _); [discriminate|]. destruct (pl_timeout pl); discriminate.
  - discriminate.
  - discriminate.
  - destruct (ctx_done _ _ || pl_timeout pl); discriminate.
Qed.
