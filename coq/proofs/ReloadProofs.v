(** Proofs for C11 (hot update) over the models in EG.model.Reload and EG.model.RL. *)
From EG.lib Require Import Base.
From EG.model Require Import RL Reload.
Open Scope Z_scope.

(** * generic list lemmas *)

Lemma nth_error_upd_nth_same {A} (f : A -> A) : forall l n a,
  nth_error l n = Some a -> nth_error (upd_nth n f l) n = Some (f a).
Proof.
  induction l as [|x t IH]; intros [|n] a H; simpl in *; try discriminate.
  - inversion H; reflexivity.
  - apply IH; exact H.
Qed.

Lemma nth_error_upd_nth_other {A} (f : A -> A) : forall l n m,
  n <> m -> nth_error (upd_nth n f l) m = nth_error l m.
Proof.
  induction l as [|x t IH]; intros [|n] [|m] H; simpl; try reflexivity.
  - exfalso; apply H; reflexivity.
  - apply IH; intro E; apply H; f_equal; exact E.
Qed.

Lemma nth_error_upd_nth_none {A} (f : A -> A) : forall l n,
  nth_error l n = None -> upd_nth n f l = l.
Proof.
  induction l as [|x t IH]; intros [|n] H; simpl in *; try reflexivity; try discriminate.
  f_equal; apply IH; exact H.
Qed.

Lemma length_upd_nth {A} (f : A -> A) : forall l n, List.length (upd_nth n f l) = List.length l.
Proof. induction l as [|x t IH]; intros [|n]; simpl; try reflexivity. f_equal; apply IH. Qed.

Lemma Forall_upd_nth {A} (P : A -> Prop) (f : A -> A) : forall l n,
  Forall P l -> (forall a, P a -> P (f a)) -> Forall P (upd_nth n f l).
Proof.
  induction l as [|x t IH]; intros [|n] HF Hf; simpl; try exact HF.
  - inversion HF; subst; constructor; [apply Hf; assumption | assumption].
  - inversion HF; subst; constructor; [assumption | apply IH; assumption].
Qed.

(** * Part 1: every request is served under exactly one generation *)

Lemma tstep_req : forall i t, t_req (mx_tstep i t) = t_req t.
Proof.
  intros i t. unfold mx_tstep, mx_finish.
  destruct (t_pc t); simpl; try reflexivity;
    destruct (t_snap t); simpl; try reflexivity;
    repeat match goal with |- context [if ?c then _ else _] => destruct c; simpl end; reflexivity.
Qed.

(** once the instance is loaded, a step never looks at mux.inst again *)
Lemma tstep_loaded : forall i g t, t_pc t <> PStart -> mx_tstep i t = mx_tstep g t.
Proof. intros i g t H. unfold mx_tstep. destruct (t_pc t); try reflexivity. exfalso; apply H; reflexivity. Qed.

Lemma tstep_keeps_snap : forall i g t, t_snap t = Some g -> t_pc t <> PStart ->
  t_snap (mx_tstep i t) = Some g /\ t_pc (mx_tstep i t) <> PStart.
Proof.
  intros i g t Hs Hp. unfold mx_tstep, mx_finish.
  destruct (t_pc t) eqn:E; try (exfalso; apply Hp; reflexivity); rewrite Hs; simpl;
    repeat match goal with |- context [if ?c then _ else _] => destruct c; simpl end;
    try rewrite E; split; try assumption; try discriminate; try reflexivity.
Qed.

Lemma seq_S : forall g r n, mx_seq g r (S n) = mx_tstep g (mx_seq g r n).
Proof. reflexivity. Qed.

Lemma seq_loaded : forall g r n,
  t_snap (mx_seq g r (S n)) = Some g /\ t_pc (mx_seq g r (S n)) <> PStart /\ t_req (mx_seq g r (S n)) = r.
Proof.
  intros g r n; induction n as [|n IH].
  - unfold mx_seq; simpl. unfold mx_tstep; simpl. repeat split; discriminate.
  - destruct IH as [Hs [Hp Hr]]. rewrite seq_S.
    destruct (tstep_keeps_snap g g _ Hs Hp) as [A B]. repeat split; try assumption.
    rewrite tstep_req. exact Hr.
Qed.

Definition thread_inv (hist : list mx_gen) (t : mx_thread) : Prop :=
  t = mx_fresh (t_req t) \/
  exists g n, In g hist /\ t_snap t = Some g /\ t = mx_seq g (t_req t) (S n).

Lemma thread_inv_step : forall hist inst t, In inst hist -> thread_inv hist t -> thread_inv hist (mx_tstep inst t).
Proof.
  intros hist inst t Hin [Hf | [g [n [Hg [Hs Ht]]]]].
  - right. exists inst, O. rewrite tstep_req. split; [exact Hin|].
    remember (t_req t) as r eqn:Er. subst t. split; reflexivity.
  - right. exists g, (S n). rewrite tstep_req. split; [exact Hg|].
    destruct (seq_loaded g (t_req t) n) as [A [B _]]. rewrite <- Ht in A, B.
    destruct (tstep_keeps_snap inst g t A B) as [C _]. split; [exact C|].
    rewrite (tstep_loaded inst g t B). rewrite seq_S. rewrite <- Ht. reflexivity.
Qed.

Lemma thread_inv_mono : forall h g t, thread_inv h t -> thread_inv (g :: h) t.
Proof.
  intros h g t [Hf | [g' [n [Hg R]]]]; [left; exact Hf | right; exists g', n; split; [right; exact Hg | exact R]].
Qed.

Definition world_inv (w : mx_world) : Prop :=
  In (mw_inst w) (mw_hist w) /\ Forall (thread_inv (mw_hist w)) (mw_threads w).

Lemma world_inv_step : forall w l, world_inv w -> world_inv (mx_step w l).
Proof.
  intros w l [Hi Ht]. destruct l as [r | i | g]; unfold world_inv; simpl.
  - split; [exact Hi|]. apply Forall_app; split; [exact Ht|]. constructor; [left; reflexivity | constructor].
  - split; [exact Hi|]. apply Forall_upd_nth; [exact Ht|]. intros a Ha. apply thread_inv_step; assumption.
  - split; [left; reflexivity|]. eapply Forall_impl; [|exact Ht]. intros a Ha. apply thread_inv_mono; exact Ha.
Qed.

Lemma world_inv_run : forall ls w, world_inv w -> world_inv (mx_run w ls).
Proof.
  induction ls as [|l t IH]; intros w H; simpl; [exact H|]. apply IH. apply world_inv_step. exact H.
Qed.

Lemma world_inv_init : forall g0, world_inv (mx_init g0).
Proof. intro g0. split; simpl; [left; reflexivity | constructor]. Qed.

(** a handled request ends after at most eight critical steps, and stays ended *)
Definition rank (p : mx_pc) : nat :=
  match p with PStart => 0 | PLoaded => 1 | PSearched => 2 | PHandler => 3 | PRewritten => 4 | PXff => 5
          | PLimit => 6 | PDone => 7 end.

Lemma tstep_done : forall i t, t_pc t = PDone -> mx_tstep i t = t.
Proof. intros i t H. unfold mx_tstep. rewrite H. reflexivity. Qed.

Lemma tstep_progress : forall g t, t_snap t = Some g -> t_pc t <> PStart ->
  (t_pc t = PDone \/ rank (t_pc t) < rank (t_pc (mx_tstep g t)))%nat.
Proof.
  intros g t Hs Hp. unfold mx_tstep, mx_finish.
  destruct (t_pc t) eqn:E; try (exfalso; apply Hp; reflexivity); try (left; reflexivity); right;
    rewrite Hs; simpl;
    repeat match goal with |- context [if ?c then _ else _] => destruct c; simpl end.
  all: try lia.
Qed.

Lemma seq_rank : forall g r n, (Nat.min 7 (S n) <= rank (t_pc (mx_seq g r (S n))))%nat.
Proof.
  intros g r n; induction n as [|n IH]; [cbn; lia|].
  destruct (seq_loaded g r n) as [Hs [Hp _]].
  rewrite seq_S. destruct (tstep_progress g _ Hs Hp) as [Hd | Hl].
  - rewrite tstep_done by exact Hd. rewrite Hd. cbn [rank]. lia.
  - lia.
Qed.

Lemma seq8_done : forall g r, t_pc (mx_seq g r 8) = PDone.
Proof.
  intros g r. pose proof (seq_rank g r 7) as H. simpl Nat.min in H.
  destruct (t_pc (mx_seq g r 8)); simpl in H; try lia. reflexivity.
Qed.

Lemma iter_done : forall g k t, t_pc t = PDone -> Nat.iter k (mx_tstep g) t = t.
Proof.
  intros g k t H; induction k as [|k IH]; simpl; [reflexivity|]. rewrite IH. apply tstep_done; exact H.
Qed.

Lemma seq_add : forall g r a b, mx_seq g r (a + b) = Nat.iter a (mx_tstep g) (mx_seq g r b).
Proof. intros g r a b. unfold mx_seq. induction a as [|a IH]; simpl; [reflexivity|]. rewrite IH. reflexivity. Qed.

Lemma seq_done_is_serve : forall g r n, t_pc (mx_seq g r n) = PDone -> t_out (mx_seq g r n) = mx_serve g r.
Proof.
  intros g r n H. unfold mx_serve.
  destruct (Nat.le_gt_cases n 8) as [L | L].
  - replace 8%nat with ((8 - n) + n)%nat by lia. rewrite seq_add. rewrite iter_done by exact H. reflexivity.
  - replace n with ((n - 8) + 8)%nat by lia. rewrite seq_add. rewrite iter_done by apply seq8_done. reflexivity.
Qed.

(** C11_one_generation_per_request: for every interleaving of request steps, new requests and
    instance stores, the complete state of every request thread (routing result, handler, rewritten
    path, XFF, body-limit verdict, response) is the state of a SEQUENTIAL execution under one single
    generation [g] that was published at some time - the one the thread loaded; a finished request
    has exactly the answer [mx_serve g] of that generation. *)
Theorem one_generation_per_request : forall g0 ls t,
  In t (mw_threads (mx_run (mx_init g0) ls)) ->
  t = mx_fresh (t_req t) \/
  exists g n, In g (mw_hist (mx_run (mx_init g0) ls)) /\ t_snap t = Some g /\
              t = mx_seq g (t_req t) (S n) /\
              (t_pc t = PDone -> t_out t = mx_serve g (t_req t)).
Proof.
  intros g0 ls t Hin.
  destruct (world_inv_run ls _ (world_inv_init g0)) as [_ HF].
  rewrite Forall_forall in HF. destruct (HF t Hin) as [Hf | [g [n [Hg [Hs Ht]]]]]; [left; exact Hf|].
  right. exists g, n. repeat split; try assumption.
  intro Hd. rewrite Ht in Hd |- *. rewrite (proj2 (proj2 (seq_loaded g (t_req t) n))).
  apply seq_done_is_serve. exact Hd.
Qed.

(** requests that load the instance after a store see the stored generation *)
Definition no_store (l : mx_label) : Prop := match l with LStore _ => False | _ => True end.

Definition sees (g : mx_gen) (i : nat) (w : mx_world) : Prop :=
  mw_inst w = g /\
  match nth_error (mw_threads w) i with
  | None => True
  | Some t => t_pc t = PStart \/ t_snap t = Some g
  end.

Lemma tstep_start : forall inst t, t_pc t = PStart -> t_snap (mx_tstep inst t) = Some inst.
Proof. intros inst t H. unfold mx_tstep. rewrite H. reflexivity. Qed.

Lemma sees_step : forall g i w l, no_store l -> sees g i w -> sees g i (mx_step w l).
Proof.
  intros g i w l Hl [Hi Ht]. destruct l as [r | j | g']; simpl in Hl; try contradiction; unfold sees; simpl.
  - split; [exact Hi|]. destruct (nth_error (mw_threads w) i) as [t|] eqn:E.
    + rewrite nth_error_app1 by (apply nth_error_Some; rewrite E; discriminate). rewrite E. exact Ht.
    + destruct (nth_error (mw_threads w ++ [mx_fresh r]) i) as [t|] eqn:E2; [|exact I].
      apply nth_error_None in E. rewrite nth_error_app2 in E2 by exact E.
      destruct (i - List.length (mw_threads w))%nat as [|k]; simpl in E2.
      * inversion E2; subst. left; reflexivity.
      * destruct k; discriminate.
  - split; [exact Hi|]. destruct (Nat.eq_dec j i) as [-> | N].
    + destruct (nth_error (mw_threads w) i) as [t|] eqn:E.
      * rewrite (nth_error_upd_nth_same _ _ _ _ E). destruct Ht as [Hp | Hs].
        -- right. rewrite <- Hi. apply tstep_start. exact Hp.
        -- destruct (t_pc t) eqn:Ep.
           ++ right. rewrite <- Hi. apply tstep_start. exact Ep.
           ++ right. apply (tstep_keeps_snap (mw_inst w) g t Hs). rewrite Ep; discriminate.
           ++ right. apply (tstep_keeps_snap (mw_inst w) g t Hs). rewrite Ep; discriminate.
           ++ right. apply (tstep_keeps_snap (mw_inst w) g t Hs). rewrite Ep; discriminate.
           ++ right. apply (tstep_keeps_snap (mw_inst w) g t Hs). rewrite Ep; discriminate.
           ++ right. apply (tstep_keeps_snap (mw_inst w) g t Hs). rewrite Ep; discriminate.
           ++ right. apply (tstep_keeps_snap (mw_inst w) g t Hs). rewrite Ep; discriminate.
           ++ right. apply (tstep_keeps_snap (mw_inst w) g t Hs). rewrite Ep; discriminate.
      * rewrite (nth_error_upd_nth_none _ _ _ E). rewrite E. exact I.
    + rewrite nth_error_upd_nth_other by exact N. exact Ht.
Qed.

Lemma sees_run : forall g i ls w, Forall no_store ls -> sees g i w -> sees g i (mx_run w ls).
Proof.
  intros g i ls; induction ls as [|l t IH]; intros w HF H; simpl; [exact H|].
  inversion HF; subst. apply IH; [assumption|]. apply sees_step; assumption.
Qed.

(** C11_new_requests_see_new: after [LStore g] (mux.reload has returned), as long as no further
    store happens, every thread that had not yet loaded the instance when the store happened (or
    did not exist yet) and has loaded it since, holds exactly [g]. *)
Theorem new_requests_see_new : forall g0 ls1 g ls2 i t,
  Forall no_store ls2 ->
  let w1 := mx_step (mx_run (mx_init g0) ls1) (LStore g) in
  match nth_error (mw_threads w1) i with None => True | Some t1 => t_pc t1 = PStart end ->
  nth_error (mw_threads (mx_run w1 ls2)) i = Some t ->
  t_pc t <> PStart -> t_snap t = Some g.
Proof.
  intros g0 ls1 g ls2 i t HF w1 H1 H2 Hp.
  assert (S1 : sees g i w1).
  { split; [reflexivity|]. destruct (nth_error (mw_threads w1) i); [left; exact H1 | exact I]. }
  destruct (sees_run g i ls2 w1 HF S1) as [_ S2]. rewrite H2 in S2.
  destruct S2 as [S2 | S2]; [contradiction | exact S2].
Qed.

(** * Part 2: kinds whose Inherit is Init *)

Section PureKindProofs.
  Context {O : Type}.
  Variable behave : nat -> list nat -> O.

  (** answers of a lone instance of spec [s] that has already handled [h] to the requests [rs] *)
  Fixpoint solo_from (s : nat) (h : list nat) (rs : list nat) : list O :=
    match rs with
    | [] => []
    | r :: t => behave s (h ++ [r]) :: solo_from s (h ++ [r]) t
    end.

  (** the requests that generation [g] is asked to handle by a history ([ngen] generations exist) *)
  Fixpoint handled (g ngen : nat) (ops : list pk_op) : list nat :=
    match ops with
    | [] => []
    | KInit _ :: t | KInherit _ _ :: t => handled g (S ngen) t
    | KHandle g' r :: t => if Nat.eqb g' g && Nat.ltb g ngen then r :: handled g ngen t else handled g ngen t
    | KClose _ :: t => handled g ngen t
    end.

  (** what generation [g] answered in a run *)
  Fixpoint answers (g : nat) (ops : list pk_op) (res : list (option O)) : list O :=
    match ops, res with
    | KHandle g' _ :: t, Some o :: rt => if Nat.eqb g' g then o :: answers g t rt else answers g t rt
    | _ :: t, _ :: rt => answers g t rt
    | _, _ => []
    end.

  Theorem pure_kind_generation_is_solo : forall ops gs g x,
    nth_error gs g = Some x ->
    answers g ops (pk_run behave gs ops) = solo_from (kg_spec x) (kg_hist x) (handled g (List.length gs) ops).
  Proof.
    induction ops as [|o t IH]; intros gs g x Hx; [reflexivity|].
    assert (Hlt : (g < List.length gs)%nat) by (apply nth_error_Some; rewrite Hx; discriminate).
    destruct o as [s | s from | g' r | g']; cbn [pk_run pk_step].
    - cbn [answers handled].
      rewrite (IH (gs ++ [_]) g x) by (rewrite nth_error_app1 by exact Hlt; exact Hx).
      rewrite app_length; simpl. rewrite Nat.add_1_r. reflexivity.
    - cbn [answers handled].
      rewrite (IH (gs ++ [_]) g x) by (rewrite nth_error_app1 by exact Hlt; exact Hx).
      rewrite app_length; simpl. rewrite Nat.add_1_r. reflexivity.
    - destruct (nth_error gs g') as [x'|] eqn:E.
      + cbn [answers handled]. destruct (Nat.eqb g' g) eqn:Eg.
        * apply Nat.eqb_eq in Eg; subst g'. rewrite E in Hx; inversion Hx; subst x'.
          assert (Hl : Nat.ltb g (List.length gs) = true) by (apply Nat.ltb_lt; exact Hlt).
          rewrite Hl. cbn [andb solo_from]. f_equal.
          erewrite IH by (apply nth_error_upd_nth_same; exact E). rewrite length_upd_nth. reflexivity.
        * cbn [andb]. apply Nat.eqb_neq in Eg.
          erewrite IH by (rewrite nth_error_upd_nth_other by exact Eg; exact Hx).
          rewrite length_upd_nth. reflexivity.
      + cbn [answers handled]. assert (Eg : Nat.eqb g' g = false).
        { apply Nat.eqb_neq. intro; subst. rewrite E in Hx; discriminate. }
        rewrite Eg. cbn [andb]. apply IH. exact Hx.
    - cbn [answers handled]. destruct (Nat.eq_dec g' g) as [-> | N].
      + erewrite IH by (apply nth_error_upd_nth_same; exact Hx). rewrite length_upd_nth. reflexivity.
      + erewrite IH by (rewrite nth_error_upd_nth_other by exact N; exact Hx). rewrite length_upd_nth. reflexivity.
  Qed.
End PureKindProofs.

(** * The RateLimiter filter (model: RL.fstep): the one kind whose Inherit moves state *)

Lemma hget_hset_same : forall h k v, hget (hset h k v) k = Some v.
Proof.
  induction h as [|[k' v'] t IH]; intros k v; simpl.
  - rewrite Z.eqb_refl. reflexivity.
  - destruct (k =? k') eqn:E; simpl; [rewrite Z.eqb_refl; reflexivity | rewrite E; apply IH].
Qed.

Lemma hget_hset_other : forall h k k2 v, k <> k2 -> hget (hset h k v) k2 = hget h k2.
Proof.
  induction h as [|[k' v'] t IH]; intros k k2 v N; simpl.
  - destruct (k2 =? k) eqn:E; [apply Z.eqb_eq in E; exfalso; apply N; symmetry; exact E | reflexivity].
  - destruct (k =? k') eqn:E; simpl.
    + apply Z.eqb_eq in E; subst k'. destruct (k2 =? k) eqn:E2; [apply Z.eqb_eq in E2; exfalso; apply N; symmetry; exact E2 | reflexivity].
    + destruct (k2 =? k'); [reflexivity | apply IH; exact N].
Qed.

Definition cell_ok (h : heap) (next : Z) (r : option Z) : Prop :=
  exists k x, r = Some k /\ k < next /\ hget h k = Some x /\ pP (lpol x) <> 0.

(** a URL rule is bound to a policy with a non-zero refresh period (Spec.Validate guarantees the
    binding; the zero period is C13's business) *)
Definition url_ok (s : fspec) (u : furl) : Prop := pP (lib_policy (bound_policy s u)) <> 0.
Definition spec_ok (s : fspec) : Prop := Forall (url_ok s) (fs_urls s).

Lemma cell_ok_mono : forall h next h' n r,
  cell_ok h next r -> next <= n -> (forall k, k < next -> hget h' k = hget h k) -> cell_ok h' n r.
Proof.
  intros h next h' n r [k [x [E [L [G P]]]]] Hn Hh. exists k, x. repeat split; try assumption; try lia.
  rewrite Hh by exact L. exact G.
Qed.

Lemma in_snd_combine {A B} : forall (a : list A) (b : list B) y, In y (map snd (combine a b)) -> In y b.
Proof.
  induction a as [|x a IH]; intros [|z b] y H; simpl in *; try contradiction.
  destruct H as [H | H]; [left; exact H | right; apply IH; exact H].
Qed.

Lemma find_prev_in : forall snew sold u olds i j pl,
  find_prev snew sold u olds i = Some (j, pl) -> In pl (map snd olds).
Proof.
  intros snew sold u olds; induction olds as [|[pu pl'] t IH]; intros i j pl H; simpl in *; [discriminate|].
  destruct (furl_eqb u pu && is_same_policy snew sold (fu_ref u)).
  - inversion H; subst. left; reflexivity.
  - right. eapply IH. exact H.
Qed.

Lemma reload_ideal : forall snew sold now urls h oldl next h' r o n pk,
  Forall (cell_ok h next) oldl -> Forall (url_ok snew) urls ->
  reload_urls ideal snew sold now urls h oldl next = (h', r, o, n, pk) ->
  pk = false /\ o = oldl /\ next <= n /\ Forall (cell_ok h' n) r /\
  (forall k, k < next -> hget h' k = hget h k).
Proof.
  intros snew sold now urls; induction urls as [|u t IH]; intros h oldl next h' r o n pk Hold Hu H; simpl in H.
  - inversion H; subst. repeat split; try reflexivity; try lia. constructor.
  - inversion Hu as [|? ? Hu1 Hu2]; subst.
    destruct (find_prev snew sold u (combine (fs_urls sold) oldl) 0) as [[i pl]|] eqn:F.
    + assert (Hin : In pl oldl) by (eapply in_snd_combine; eapply find_prev_in; exact F).
      rewrite Forall_forall in Hold. pose proof (Hold pl Hin) as Hc.
      destruct Hc as [k [x [E [L [G P]]]]]. subst pl. cbn [q_rl_inherit_steals_limiter ideal] in H.
      destruct (reload_urls ideal snew sold now t h oldl next) as [[[[h1 r1] o1] n1] pk1] eqn:R.
      inversion H; subst.
      assert (Hold' : Forall (cell_ok h next) oldl) by (apply Forall_forall; exact Hold).
      destruct (IH _ _ _ _ _ _ _ _ Hold' Hu2 R) as [A [B [C [D E]]]].
      repeat split; try assumption. constructor; [|exact D].
      eapply cell_ok_mono; [exists k, x; repeat split; eassumption | exact C | exact E].
    + destruct (reload_urls ideal snew sold now t
                  (hset h next {| lstart := now; lpol := lib_policy (bound_policy snew u); lst := rl0 |})
                  oldl (next + 1)) as [[[[h1 r1] o1] n1] pk1] eqn:R.
      inversion H; subst.
      assert (Hold' : Forall (cell_ok (hset h next {| lstart := now; lpol := lib_policy (bound_policy snew u); lst := rl0 |}) (next + 1)) oldl).
      { eapply Forall_impl; [|exact Hold]. intros a Ha. eapply cell_ok_mono; [exact Ha | lia |].
        intros k Hk. apply hget_hset_other. lia. }
      destruct (IH _ _ _ _ _ _ _ _ Hold' Hu2 R) as [A [B [C [D E]]]].
      repeat split; try assumption; try lia.
      * constructor; [|exact D]. eexists next, _. repeat split; try lia.
        -- rewrite E by lia. apply hget_hset_same.
        -- exact Hu1.
      * intros k Hk. rewrite E by lia. apply hget_hset_other. lia.
Qed.

Definition fwf (w : fworld) : Prop :=
  Forall (fun g => Forall (cell_ok (w_heap w) (w_next w)) (g_lims g)) (w_gens w).

Lemma acquire_not_panic : forall p s el c, pP p <> 0 -> snd (acquire p s el c) <> Panic.
Proof.
  intros p s el c H. unfold acquire. destruct (pP p =? 0) eqn:E; [apply Z.eqb_eq in E; contradiction|].
  destruct (max_tokens p <=? cur_tokens p s (el ÷ pP p)); simpl; [discriminate|].
  destruct (cur_tokens p s (el ÷ pP p) <? pL p); simpl; discriminate.
Qed.

Lemma handle_aux_ok : forall next lims h now m i h' o,
  Forall (cell_ok h next) lims -> flt_handle_aux h now lims m i = (h', o) ->
  o <> FPanic /\ (forall r, cell_ok h next r -> cell_ok h' next r).
Proof.
  intros next lims; induction lims as [|l lt IH]; intros h now m i h' o HF H; simpl in H.
  - inversion H; subst. split; [discriminate | auto].
  - destruct m as [|b mt]; [inversion H; subst; split; [discriminate | auto]|].
    inversion HF as [|? ? Hl Ht]; subst. destruct b.
    + destruct Hl as [k [x [E [L [G P]]]]]. subst l. rewrite G in H.
      pose proof (acquire_not_panic (lpol x) (lst x) (now - lstart x) 1 P) as NP.
      destruct (acquire (lpol x) (lst x) (now - lstart x) 1) as [s' oo] eqn:A. simpl in NP.
      assert (Hpres : forall r, cell_ok h next r ->
                cell_ok (hset h k {| lstart := lstart x; lpol := lpol x; lst := s' |}) next r).
      { intros r [k2 [x2 [E2 [L2 [G2 P2]]]]]. destruct (Z.eq_dec k k2) as [-> | N].
        - exists k2, {| lstart := lstart x; lpol := lpol x; lst := s' |}.
          rewrite G in G2. inversion G2; subst x2.
          split; [exact E2 | split; [exact L2 | split; [apply hget_hset_same | exact P2]]].
        - exists k2, x2. repeat split; try assumption. rewrite hget_hset_other by exact N. exact G2. }
      destruct oo; inversion H; subst; try (split; [discriminate | exact Hpres]).
      exfalso; apply NP; reflexivity.
    + eapply IH; eassumption.
Qed.

Lemma Forall_set_nth {A} (P : A -> Prop) : forall l n x, Forall P l -> P x -> Forall P (set_nth n x l).
Proof.
  induction l as [|a t IH]; intros [|n] x HF Hx; simpl; try exact HF.
  - inversion HF; subst; constructor; assumption.
  - inversion HF; subst; constructor; [assumption | apply IH; assumption].
Qed.

Lemma set_nth_same {A} : forall (l : list A) n x, nth_error l n = Some x -> set_nth n x l = l.
Proof.
  induction l as [|a t IH]; intros [|n] x H; simpl in *; try discriminate.
  - inversion H; reflexivity.
  - f_equal; apply IH; exact H.
Qed.

Definition op_ok (o : fop) : Prop :=
  match o with FInit s _ | FInherit s _ _ => spec_ok s | FHandle _ _ _ => True end.

Lemma gen_eta : forall g, {| g_spec := g_spec g; g_lims := g_lims g |} = g.
Proof. intros [s l]; reflexivity. Qed.

Lemma fstep_ideal : forall w o w' ob, fwf w -> op_ok o -> fstep ideal w o = (w', ob) ->
  fwf w' /\ ob <> OHandle FPanic /\ ob <> OInheritPanic.
Proof.
  intros w o w' ob Hw Ho H. destruct o as [s now | s from now | gi now m]; simpl in H.
  - unfold flt_init in H.
    destruct (reload_urls ideal s empty_spec now (fs_urls s) (w_heap w) [] (w_next w)) as [[[[h1 r1] o1] n1] pk1] eqn:R.
    inversion H; subst. destruct (reload_ideal _ _ _ _ _ _ _ _ _ _ _ _ (Forall_nil _) Ho R) as [A [B [C [D E]]]].
    split; [|split; discriminate]. unfold fwf; simpl. apply Forall_app; split.
    + eapply Forall_impl; [|exact Hw]. intros g Hg. eapply Forall_impl; [|exact Hg].
      intros a Ha. eapply cell_ok_mono; eassumption.
    + constructor; [exact D | constructor].
  - destruct (nth_error (w_gens w) from) as [old|] eqn:E.
    2:{ inversion H; subst. split; [exact Hw | split; discriminate]. }
    unfold flt_inherit in H.
    destruct (reload_urls ideal s (g_spec old) now (fs_urls s) (w_heap w) (g_lims old) (w_next w)) as [[[[h1 r1] o1] n1] pk1] eqn:R.
    assert (Hold : Forall (cell_ok (w_heap w) (w_next w)) (g_lims old)).
    { unfold fwf in Hw. rewrite Forall_forall in Hw. apply Hw. eapply nth_error_In; exact E. }
    destruct (reload_ideal _ _ _ _ _ _ _ _ _ _ _ _ Hold Ho R) as [A [B [C [D F]]]]. subst pk1 o1.
    inversion H; subst. split; [|split; discriminate]. unfold fwf; simpl.
    rewrite gen_eta. rewrite (set_nth_same _ _ _ E). apply Forall_app; split.
    + eapply Forall_impl; [|exact Hw]. intros g Hg. eapply Forall_impl; [|exact Hg].
      intros a Ha. eapply cell_ok_mono; eassumption.
    + constructor; [exact D | constructor].
  - destruct (nth_error (w_gens w) gi) as [g|] eqn:E.
    2:{ inversion H; subst. split; [exact Hw | split; discriminate]. }
    unfold flt_handle in H. destruct (flt_handle_aux (w_heap w) now (g_lims g) m 0) as [h1 r1] eqn:A.
    inversion H; subst.
    assert (Hg : Forall (cell_ok (w_heap w) (w_next w)) (g_lims g)).
    { unfold fwf in Hw. rewrite Forall_forall in Hw. apply Hw. eapply nth_error_In; exact E. }
    destruct (handle_aux_ok _ _ _ _ _ _ _ _ Hg A) as [NP Pres].
    split; [|split; [intro X; inversion X; subst; apply NP; reflexivity | discriminate]].
    unfold fwf; simpl. eapply Forall_impl; [|exact Hw]. intros g' Hg'. eapply Forall_impl; [|exact Hg'].
    intros a Ha. apply Pres. exact Ha.
Qed.

Lemma fwf0 : fwf fworld0.
Proof. constructor. Qed.

(** no history of Init / Inherit / Handle operations (valid specs, any generation handled at any
    time, any clock) makes the ideal filter panic: neither in Handle - in particular not on a
    generation that has been inherited from - nor inside Inherit *)
Theorem rl_ideal_never_panics : forall ops w, fwf w -> Forall op_ok ops ->
  Forall (fun ob => ob <> OHandle FPanic /\ ob <> OInheritPanic) (frun ideal w ops).
Proof.
  induction ops as [|o t IH]; intros w Hw Ho; simpl; [constructor|].
  inversion Ho; subst. destruct (fstep ideal w o) as [w' ob] eqn:E.
  destruct (fstep_ideal _ _ _ _ Hw H1 E) as [A B]. constructor; [exact B | apply IH; assumption].
Qed.

Lemma handle_aux_ext : forall lims h1 h2 now m i,
  (forall k, In (Some k) lims -> hget h1 k = hget h2 k) ->
  snd (flt_handle_aux h1 now lims m i) = snd (flt_handle_aux h2 now lims m i).
Proof.
  induction lims as [|l lt IH]; intros h1 h2 now m i H; simpl; [reflexivity|].
  destruct m as [|b mt]; [reflexivity|]. destruct b.
  - destruct l as [k|]; [|reflexivity]. rewrite (H k) by (left; reflexivity).
    destruct (hget h2 k) as [x|]; [|reflexivity].
    destruct (acquire (lpol x) (lst x) (now - lstart x) 1) as [s' oo]. destruct oo; reflexivity.
  - apply IH. intros k Hk. apply H. right; exact Hk.
Qed.

(** Inherit (ideal) is invisible to every existing generation: it still is the same generation
    (same limiter references) and answers the next request exactly as it would have without the
    Inherit. *)
Theorem rl_inherit_frame : forall w s from now w' ob,
  fwf w -> spec_ok s -> fstep ideal w (FInherit s from now) = (w', ob) ->
  forall gi g, nth_error (w_gens w) gi = Some g ->
    nth_error (w_gens w') gi = Some g /\
    forall now' m, snd (flt_handle (w_heap w') g now' m) = snd (flt_handle (w_heap w) g now' m).
Proof.
  intros w s from now w' ob Hw Hs H gi g Hg. simpl in H.
  destruct (nth_error (w_gens w) from) as [old|] eqn:E.
  2:{ inversion H; subst. split; [exact Hg | reflexivity]. }
  unfold flt_inherit in H.
  destruct (reload_urls ideal s (g_spec old) now (fs_urls s) (w_heap w) (g_lims old) (w_next w)) as [[[[h1 r1] o1] n1] pk1] eqn:R.
  assert (Hold : Forall (cell_ok (w_heap w) (w_next w)) (g_lims old)).
  { unfold fwf in Hw. rewrite Forall_forall in Hw. apply Hw. eapply nth_error_In; exact E. }
  destruct (reload_ideal _ _ _ _ _ _ _ _ _ _ _ _ Hold Hs R) as [A [B [C [D F]]]]. subst pk1 o1.
  inversion H; subst; simpl. rewrite gen_eta. rewrite (set_nth_same _ _ _ E). split.
  - rewrite nth_error_app1 by (apply nth_error_Some; rewrite Hg; discriminate). exact Hg.
  - intros now' m. unfold flt_handle. apply handle_aux_ext. intros k Hk. apply F.
    unfold fwf in Hw. rewrite Forall_forall in Hw. pose proof (Hw g (nth_error_In _ _ Hg)) as Hc.
    rewrite Forall_forall in Hc. destruct (Hc _ Hk) as [k2 [x [E2 [L _]]]]. inversion E2; subst. exact L.
Qed.

(** * Part 3: pipeline generations *)

Definition pl_insts_ok (insts : list pl_inst) : Prop := Forall (fun p => pi_lim p = true) insts.
Definition flow_ok (insts : list pl_inst) (flow : list nat) : Prop :=
  Forall (fun i => (i < List.length insts)%nat) flow.
Definition pl_wf (w : pl_world) : Prop :=
  pl_insts_ok (pw_insts w) /\ Forall (fun g => flow_ok (pw_insts w) (pg_flow g)) (pw_gens w).

Lemma kind_eqb_eq : forall a b, pl_kind_eqb a b = true -> a = b.
Proof. intros [] []; simpl; intro H; try reflexivity; discriminate. Qed.

Lemma pl_one_ideal : forall insts nrec f prev insts' nrec' e pk,
  pl_insts_ok insts -> pl_one rideal insts nrec f prev = (insts', nrec', e, pk) ->
  pk = false /\ exists x, insts' = insts ++ [x] /\ pi_lim x = true.
Proof.
  intros insts nrec f prev insts' nrec' e pk Hok H. unfold pl_one in H.
  assert (Init : forall a b c, (insts ++ [{| pi_name := pf_name f; pi_kind := pf_kind f; pi_tag := pf_tag f;
                                            pi_rec := a; pi_lim := true |}], b, c, false) = (insts', nrec', e, pk) ->
                 pk = false /\ exists x, insts' = insts ++ [x] /\ pi_lim x = true).
  { intros a b c E. inversion E; subst. split; [reflexivity | eexists; split; reflexivity]. }
  destruct prev as [pi|]; [|eapply Init; exact H].
  destruct (nth_error insts pi) as [p|] eqn:E; [|eapply Init; exact H].
  cbn [rq_foreign rq_steal rideal negb andb] in H.
  destruct (pl_kind_eqb (pi_kind p) (pf_kind f)) eqn:K; cbn [negb] in H; [|eapply Init; exact H].
  apply kind_eqb_eq in K.
  destruct (pf_kind f) eqn:F; try (eapply Init; exact H).
  rewrite K in H.
  destruct (pi_tag p =? pf_tag f); [|eapply Init; exact H].
  assert (L : pi_lim p = true).
  { unfold pl_insts_ok in Hok. rewrite Forall_forall in Hok. apply Hok. eapply nth_error_In; exact E. }
  rewrite L in H. eapply Init; exact H.
Qed.

Lemma pl_loop_ideal : forall fs insts nrec prev acc evs insts' nrec' acc' evs' pk,
  pl_insts_ok insts -> flow_ok insts (map snd acc) ->
  pl_loop rideal insts nrec fs prev acc evs = (insts', nrec', acc', evs', pk) ->
  pk = false /\ (exists more, insts' = insts ++ more) /\ pl_insts_ok insts' /\ flow_ok insts' (map snd acc').
Proof.
  induction fs as [|f t IH]; intros insts nrec prev acc evs insts' nrec' acc' evs' pk Hok Hacc H; simpl in H.
  - inversion H; subst. repeat split; try assumption. exists []. rewrite app_nil_r. reflexivity.
  - destruct (pl_one rideal insts nrec f (slookup (pf_name f) prev)) as [[[i1 n1] e1] pk1] eqn:O.
    destruct (pl_one_ideal _ _ _ _ _ _ _ _ Hok O) as [A [x [B C]]]. subst pk1 i1.
    assert (Hok' : pl_insts_ok (insts ++ [x])).
    { apply Forall_app; split; [exact Hok | constructor; [exact C | constructor]]. }
    assert (Hacc' : flow_ok (insts ++ [x]) (map snd (acc ++ [(pf_name f, Nat.pred (List.length (insts ++ [x])))]))).
    { unfold flow_ok. rewrite map_app. apply Forall_app; split.
      - eapply Forall_impl; [|exact Hacc]. intros a Ha. simpl in Ha. rewrite app_length; simpl. lia.
      - simpl. constructor; [|constructor]. rewrite app_length; simpl. lia. }
    destruct (IH _ _ _ _ _ _ _ _ _ _ Hok' Hacc' H) as [P [[more Q] [R S]]].
    repeat split; try assumption. exists ([x] ++ more). rewrite app_assoc. exact Q.
Qed.

Lemma flow_run_ok : forall insts flow evs, pl_insts_ok insts -> flow_ok insts flow ->
  snd (pl_flow_run insts flow evs) <> PPanic.
Proof.
  intros insts flow; induction flow as [|i t IH]; intros evs Hok Hf; simpl; [discriminate|].
  inversion Hf as [|? ? Hi Ht]; subst.
  destruct (nth_error insts i) as [p|] eqn:E.
  2:{ apply nth_error_None in E. lia. }
  assert (L : pi_lim p = true).
  { unfold pl_insts_ok in Hok. rewrite Forall_forall in Hok. apply Hok. eapply nth_error_In; exact E. }
  destruct (pi_kind p); try (apply IH; assumption).
  - rewrite L. apply IH; assumption.
  - simpl. discriminate.
Qed.

Lemma flow_run_app : forall insts more flow evs, flow_ok insts flow ->
  pl_flow_run (insts ++ more) flow evs = pl_flow_run insts flow evs.
Proof.
  intros insts more flow; induction flow as [|i t IH]; intros evs Hf; simpl; [reflexivity|].
  inversion Hf as [|? ? Hi Ht]; subst. rewrite nth_error_app1 by exact Hi.
  destruct (nth_error insts i) as [p|]; [|reflexivity].
  destruct (pi_kind p); try (apply IH; exact Ht); try reflexivity.
  destruct (pi_lim p); [apply IH; exact Ht | reflexivity].
Qed.

Definition obs_fine (ob : pl_obs) : Prop :=
  match ob with PoLife pk _ => pk = false | PoHandle _ r => r <> PPanic | PoBad => True end.

Lemma pl_reload_ideal : forall w fs prev w' evs pk,
  pl_wf w -> pl_reload rideal w fs prev = (w', evs, pk) ->
  pk = false /\ pl_wf w' /\ (exists more, pw_insts w' = pw_insts w ++ more) /\
  (exists g, pw_gens w' = pw_gens w ++ [g]).
Proof.
  intros w fs prev w' evs pk [Hok Hg] H. unfold pl_reload in H.
  destruct (pl_loop rideal (pw_insts w) (pw_nrec w) fs
             match prev with Some g => pg_filters g | None => [] end [] []) as [[[[i1 n1] a1] e1] pk1] eqn:L.
  assert (Hnil : flow_ok (pw_insts w) (map snd (@nil (string * nat)))) by constructor.
  destruct (pl_loop_ideal _ _ _ _ _ _ _ _ _ _ _ Hok Hnil L) as [A [[more B] [C D]]]. subst pk1.
  inversion H; subst. split; [reflexivity|]. split; [|split; [exists more; reflexivity | eexists; reflexivity]].
  split; simpl; [exact C|]. apply Forall_app; split.
  - eapply Forall_impl; [|exact Hg]. intros g Hfl. unfold flow_ok in *. eapply Forall_impl; [|exact Hfl].
    intros a Ha. simpl in Ha. rewrite app_length. lia.
  - constructor; [exact D | constructor].
Qed.

(** one operation on the ideal pipeline model: nothing panics, and every generation that existed
    before is still there and handles a request exactly as before (same filters visited, same
    result) - in particular the generation that has just been inherited from and closed *)
Theorem pl_ideal_step : forall specs w o w' ob,
  pl_wf w -> pl_step rideal specs w o = (w', ob) ->
  pl_wf w' /\ obs_fine ob /\
  forall g x, nth_error (pw_gens w) g = Some x ->
    nth_error (pw_gens w') g = Some x /\
    pl_flow_run (pw_insts w') (pg_flow x) [] = pl_flow_run (pw_insts w) (pg_flow x) [].
Proof.
  intros specs w o w' ob Hw H.
  assert (Frame : forall w2 evs pk fs prev, pl_reload rideal w fs prev = (w2, evs, pk) ->
            pk = false /\ pl_wf w2 /\ forall g x, nth_error (pw_gens w) g = Some x ->
              nth_error (pw_gens w2) g = Some x /\
              pl_flow_run (pw_insts w2) (pg_flow x) [] = pl_flow_run (pw_insts w) (pg_flow x) []).
  { intros w2 evs pk fs prev R. destruct (pl_reload_ideal _ _ _ _ _ _ Hw R) as [A [B [[more C] [g0 D]]]].
    split; [exact A|]. split; [exact B|]. intros g x Hx. rewrite D, C. split.
    - rewrite nth_error_app1 by (apply nth_error_Some; rewrite Hx; discriminate). exact Hx.
    - apply flow_run_app. destruct Hw as [_ Hg]. rewrite Forall_forall in Hg. apply Hg.
      eapply nth_error_In; exact Hx. }
  destruct o as [s | s from | g]; simpl in H.
  - destruct (pl_reload rideal w (nth s specs []) None) as [[w2 evs] pk] eqn:R. inversion H; subst.
    destruct (Frame _ _ _ _ _ R) as [A [B C]]. subst pk. split; [exact B | split; [reflexivity | exact C]].
  - destruct (nth_error (pw_gens w) from) as [pg|] eqn:E.
    2:{ inversion H; subst. split; [exact Hw | split; [exact I | intros g0 x0 Hx0; split; [exact Hx0 | reflexivity]]]. }
    destruct (pl_reload rideal w (nth s specs []) (Some pg)) as [[w2 evs] pk] eqn:R. inversion H; subst.
    destruct (Frame _ _ _ _ _ R) as [A [B C]]. subst pk. split; [exact B | split; [reflexivity | exact C]].
  - destruct (nth_error (pw_gens w) g) as [x|] eqn:E.
    2:{ inversion H; subst. split; [exact Hw | split; [exact I | intros g0 x0 Hx0; split; [exact Hx0 | reflexivity]]]. }
    destruct (pl_flow_run (pw_insts w) (pg_flow x) []) as [evs r] eqn:F. inversion H; subst.
    split; [exact Hw|]. split; [|intros g0 x0 Hx0; split; [exact Hx0 | reflexivity]].
    simpl. pose proof (flow_run_ok (pw_insts w') (pg_flow x) [] (proj1 Hw)) as NP.
    rewrite F in NP. apply NP. destruct Hw as [_ Hg]. rewrite Forall_forall in Hg. apply Hg.
    eapply nth_error_In; exact E.
Qed.

Lemma pl_wf0 : pl_wf pl_world0.
Proof. split; constructor. Qed.

Theorem pl_ideal_never_panics : forall specs ops w, pl_wf w -> Forall obs_fine (pl_run rideal specs w ops).
Proof.
  intros specs ops; induction ops as [|o t IH]; intros w Hw; simpl; [constructor|].
  destruct (pl_step rideal specs w o) as [w' ob] eqn:E.
  destruct (pl_ideal_step _ _ _ _ _ Hw E) as [A [B _]]. constructor; [exact B | apply IH; exact A].
Qed.

(** no operation of the ideal model ever modifies a filter instance that exists: instances are only
    appended.  A request that is half-way through the filters of a generation while an update
    happens therefore sees exactly the instances it would have seen (interleaving at filter
    granularity adds nothing to the atomic [pl_flow_run]). *)
Lemma pl_ideal_step_appends : forall specs w o w' ob,
  pl_wf w -> pl_step rideal specs w o = (w', ob) -> exists more, pw_insts w' = pw_insts w ++ more.
Proof.
  intros specs w o w' ob Hw H. destruct o as [s | s from | g]; simpl in H.
  - destruct (pl_reload rideal w (nth s specs []) None) as [[w2 evs] pk] eqn:R. inversion H; subst.
    destruct (pl_reload_ideal _ _ _ _ _ _ Hw R) as [_ [_ [M _]]]. exact M.
  - destruct (nth_error (pw_gens w) from) as [pg|]; [|inversion H; subst; exists []; rewrite app_nil_r; reflexivity].
    destruct (pl_reload rideal w (nth s specs []) (Some pg)) as [[w2 evs] pk] eqn:R. inversion H; subst.
    destruct (pl_reload_ideal _ _ _ _ _ _ Hw R) as [_ [_ [M _]]]. exact M.
  - destruct (nth_error (pw_gens w) g) as [x|]; [|inversion H; subst; exists []; rewrite app_nil_r; reflexivity].
    destruct (pl_flow_run (pw_insts w) (pg_flow x) []) as [evs r]. inversion H; subst.
    exists []; rewrite app_nil_r; reflexivity.
Qed.

Fixpoint pl_final (q : rquirks) (specs : list (list pl_fspec)) (w : pl_world) (ops : list pl_op) : pl_world :=
  match ops with
  | [] => w
  | o :: t => pl_final q specs (fst (pl_step q specs w o)) t
  end.

(** a request that holds generation [x]: whatever sequence of pipeline operations follows (updates
    inheriting from it - directly or transitively -, its Close, traffic on any generation), [x] is
    still generation [g], its instances are untouched and it handles the request as at the start *)
Theorem pl_ideal_held_generation : forall specs ops w g x,
  pl_wf w -> nth_error (pw_gens w) g = Some x ->
  nth_error (pw_gens (pl_final rideal specs w ops)) g = Some x /\
  (exists more, pw_insts (pl_final rideal specs w ops) = pw_insts w ++ more) /\
  pl_flow_run (pw_insts (pl_final rideal specs w ops)) (pg_flow x) [] = pl_flow_run (pw_insts w) (pg_flow x) [] /\
  snd (pl_flow_run (pw_insts w) (pg_flow x) []) <> PPanic.
Proof.
  intros specs ops; induction ops as [|o t IH]; intros w g x Hw Hx; simpl.
  - split; [exact Hx|]. split; [exists []; rewrite app_nil_r; reflexivity|]. split; [reflexivity|].
    apply flow_run_ok; [apply Hw|]. destruct Hw as [_ Hg]. rewrite Forall_forall in Hg. apply Hg.
    eapply nth_error_In; exact Hx.
  - destruct (pl_step rideal specs w o) as [w1 ob] eqn:E. simpl.
    destruct (pl_ideal_step _ _ _ _ _ Hw E) as [Hw1 [_ Fr]]. destruct (Fr g x Hx) as [Hx1 Eq1].
    destruct (pl_ideal_step_appends _ _ _ _ _ Hw E) as [m1 M1].
    destruct (IH w1 g x Hw1 Hx1) as [A [[m2 B] [C D]]].
    split; [exact A|]. split; [exists (m1 ++ m2); rewrite B, M1, app_assoc; reflexivity|].
    split; [rewrite C; exact Eq1 | rewrite <- Eq1; exact D].
Qed.

(** * Part 4: TrafficController *)

Lemma slookup_sset_same {A} : forall (l : list (string * A)) k v, slookup k (sset k v l) = Some v.
Proof.
  induction l as [|[k' v'] t IH]; intros k v; simpl.
  - rewrite String.eqb_refl. reflexivity.
  - destruct (String.eqb k k') eqn:E; simpl; [rewrite String.eqb_refl; reflexivity | rewrite E; apply IH].
Qed.

Lemma slookup_sset_other {A} : forall (l : list (string * A)) k k2 v, k <> k2 -> slookup k2 (sset k v l) = slookup k2 l.
Proof.
  induction l as [|[k' v'] t IH]; intros k k2 v N; simpl.
  - destruct (String.eqb k2 k) eqn:E; [apply String.eqb_eq in E; exfalso; apply N; symmetry; exact E | reflexivity].
  - destruct (String.eqb k k') eqn:E; simpl.
    + apply String.eqb_eq in E; subst k'.
      destruct (String.eqb k2 k) eqn:E2; [apply String.eqb_eq in E2; exfalso; apply N; symmetry; exact E2 | reflexivity].
    + destruct (String.eqb k2 k'); [reflexivity | apply IH; exact N].
Qed.

Lemma slookup_sdel_other {A} : forall (l : list (string * A)) k k2, k <> k2 -> slookup k2 (sdel k l) = slookup k2 l.
Proof.
  induction l as [|[k' v'] t IH]; intros k k2 N; simpl; [reflexivity|].
  destruct (String.eqb k k') eqn:E; simpl.
  - apply String.eqb_eq in E; subst k'.
    destruct (String.eqb k2 k) eqn:E2; [apply String.eqb_eq in E2; exfalso; apply N; symmetry; exact E2 | apply IH; exact N].
  - destruct (String.eqb k2 k'); [reflexivity | apply IH; exact N].
Qed.

Lemma slookup_sdel_same {A} : forall (l : list (string * A)) k, slookup k (sdel k l) = None.
Proof.
  induction l as [|[k' v'] t IH]; intros k; simpl; [reflexivity|].
  destruct (String.eqb k k') eqn:E; simpl; [apply IH | rewrite E; apply IH].
Qed.

Lemma sp_get_put_same : forall c s m, sp_get c (sp_put c s m) = m.
Proof. intros [] s m; reflexivity. Qed.
Lemma sp_get_put_other : forall c c' s m, c <> c' -> sp_get c' (sp_put c s m) = sp_get c' s.
Proof. intros [] [] s m N; try reflexivity; exfalso; apply N; reflexivity. Qed.

Lemma cat_dec : forall a b : tc_cat, {a = b} + {a <> b}.
Proof. decide equality. Qed.

(** C11_unchanged_apply_noop: applying a spec equal to the live one changes nothing, raises no
    lifecycle event (no Init, no Inherit, no Close) and returns the live entity *)
Theorem unchanged_apply_noop : forall st c ns name e,
  ns <> ""%string -> tc_lookup st c ns name = Some e ->
  tc_step st (TApply c ns name (e_tag e)) = (st, {| tr_err := false; tr_ret := e_id e; tr_evs := [] |}).
Proof.
  intros st c ns name e Hns H. unfold tc_lookup in H. simpl.
  destruct (String.eqb ns "") eqn:E; [apply String.eqb_eq in E; contradiction|].
  destruct (slookup ns (ts_spaces st)) as [s|]; [|discriminate].
  rewrite H. rewrite Z.eqb_refl. reflexivity.
Qed.

(** the state after storing an entity under (c, ns, name) - Create, Update, and Apply with a new or
    changed spec all end this way *)
Lemma lookup_after_put : forall spaces c ns name e s c' ns' name',
  (slookup ns spaces = Some s \/ (slookup ns spaces = None /\ s = sp_empty)) ->
  (c', ns', name') <> (c, ns, name) ->
  match slookup ns' (sset ns (sp_put c s (sset name e (sp_get c s))) spaces) with
  | None => None | Some s2 => slookup name' (sp_get c' s2) end =
  match slookup ns' spaces with None => None | Some s2 => slookup name' (sp_get c' s2) end.
Proof.
  intros spaces c ns name e s c' ns' name' Hs N.
  destruct (string_dec ns ns') as [<- | Nn].
  - rewrite slookup_sset_same. destruct (cat_dec c c') as [<- | Nc].
    + rewrite sp_get_put_same. assert (Nm : name <> name') by (intro; subst; apply N; reflexivity).
      rewrite slookup_sset_other by exact Nm.
      destruct Hs as [Hs | [Hs ->]]; rewrite Hs; [reflexivity | destruct c; reflexivity].
    + rewrite sp_get_put_other by exact Nc.
      destruct Hs as [Hs | [Hs ->]]; rewrite Hs; [reflexivity | destruct c'; reflexivity].
  - rewrite slookup_sset_other by exact Nn. reflexivity.
Qed.

Lemma sp_is_empty_get : forall s c, sp_is_empty s = true -> sp_get c s = [].
Proof. intros [g p] c H. unfold sp_is_empty in H; simpl in H. destruct g, p, c; try discriminate; reflexivity. Qed.

(** C11_other_objects_untouched (frame): an operation about one object leaves the live entity of
    every other (category, namespace, name) exactly as it was, and every lifecycle event it raises
    is about its own object; [Clean ns] touches namespace [ns] only. *)
Theorem other_objects_untouched : forall st o,
  (forall c ns name, tc_target o = Some (c, ns, name) ->
     (forall c' ns' name', (c', ns', name') <> (c, ns, name) ->
        tc_lookup (fst (tc_step st o)) c' ns' name' = tc_lookup st c' ns' name') /\
     Forall (fun e => match e with
                      | TInit c2 _ n _ | TInherit c2 _ n _ _ | TClose c2 _ n _ => c2 = c /\ n = name
                      | THandle _ n _ => c = CP /\ n = name
                      end) (tr_evs (snd (tc_step st o)))) /\
  (forall ns, o = TClean ns -> forall c' ns' name', ns' <> ns ->
     tc_lookup (fst (tc_step st o)) c' ns' name' = tc_lookup st c' ns' name').
Proof.
  intros st o. split.
  - intros c ns name Ht. destruct o as [c0 ns0 n0 tag | c0 ns0 n0 tag | c0 ns0 n0 tag | c0 ns0 n0 | ns0 | ns0 n0];
      simpl in Ht; inversion Ht; subst; clear Ht.
    + (* Create *)
      simpl. destruct (String.eqb ns "") eqn:E; simpl; [split; [reflexivity | constructor]|].
      split; [|constructor; [split; reflexivity | constructor]].
      intros c' ns' name' N. unfold tc_lookup; simpl. apply lookup_after_put; [|exact N].
      destruct (slookup ns (ts_spaces st)); [left; reflexivity | right; split; reflexivity].
    + (* Update *)
      simpl. destruct (slookup ns (ts_spaces st)) as [s|] eqn:E; simpl; [|split; [reflexivity | constructor]].
      destruct (slookup name (sp_get c s)) as [prev|] eqn:E2; simpl; [|split; [reflexivity | constructor]].
      split; [|constructor; [split; reflexivity | constructor]].
      intros c' ns' name' N. unfold tc_lookup; simpl. apply lookup_after_put; [left; exact E | exact N].
    + (* Apply *)
      simpl. destruct (String.eqb ns "") eqn:E; simpl; [split; [reflexivity | constructor]|].
      destruct (slookup ns (ts_spaces st)) as [s|] eqn:Es.
      * destruct (slookup name (sp_get c s)) as [prev|] eqn:E2; simpl.
        -- destruct (e_tag prev =? tag); simpl; [split; [reflexivity | constructor]|].
           split; [|constructor; [split; reflexivity | constructor]].
           intros c' ns' name' N. unfold tc_lookup; simpl. apply lookup_after_put; [left; exact Es | exact N].
        -- split; [|constructor; [split; reflexivity | constructor]].
           intros c' ns' name' N. unfold tc_lookup; simpl. apply lookup_after_put; [left; exact Es | exact N].
      * assert (E2 : slookup name (sp_get c sp_empty) = None) by (destruct c; reflexivity).
        rewrite E2; simpl. split; [|constructor; [split; reflexivity | constructor]].
        intros c' ns' name' N. unfold tc_lookup; simpl. apply lookup_after_put; [right; split; [exact Es | reflexivity] | exact N].
    + (* Delete *)
      simpl. destruct (slookup ns (ts_spaces st)) as [s|] eqn:Es; simpl; [|split; [reflexivity | constructor]].
      destruct (slookup name (sp_get c s)) as [e|] eqn:E2; simpl; [|split; [reflexivity | constructor]].
      split; [|constructor; [split; reflexivity | constructor]].
      intros c' ns' name' N. unfold tc_lookup; simpl.
      destruct (sp_is_empty (sp_put c s (sdel name (sp_get c s)))) eqn:Em.
      * destruct (string_dec ns ns') as [<- | Nn].
        -- rewrite slookup_sdel_same. rewrite Es. symmetry.
           pose proof (sp_is_empty_get _ c' Em) as G.
           destruct (cat_dec c c') as [<- | Nc].
           ++ rewrite sp_get_put_same in G. assert (Nm : name <> name') by (intro; subst; apply N; reflexivity).
              rewrite <- (slookup_sdel_other _ _ _ Nm). rewrite G. reflexivity.
           ++ rewrite sp_get_put_other in G by exact Nc. rewrite G. reflexivity.
        -- rewrite slookup_sdel_other by exact Nn. reflexivity.
      * destruct (string_dec ns ns') as [<- | Nn].
        -- rewrite slookup_sset_same. rewrite Es. destruct (cat_dec c c') as [<- | Nc].
           ++ rewrite sp_get_put_same. assert (Nm : name <> name') by (intro; subst; apply N; reflexivity).
              apply slookup_sdel_other. exact Nm.
           ++ rewrite sp_get_put_other by exact Nc. reflexivity.
        -- rewrite slookup_sset_other by exact Nn. reflexivity.
    + (* Get *)
      simpl. destruct (tc_lookup st CP ns name) as [e|]; simpl; split; try reflexivity; try constructor;
        try (split; reflexivity); constructor.
  - intros ns -> c' ns' name' N. simpl.
    destruct (slookup ns (ts_spaces st)) as [s|]; simpl; [|reflexivity].
    unfold tc_lookup; simpl. rewrite slookup_sdel_other by (intro; subst; apply N; reflexivity). reflexivity.
Qed.

(** an object is never unavailable because it is being updated: throughout Create-over / Update /
    Apply of ANY object - before, while the Init/Inherit callback runs ([tc_during]: the previous
    entity is still in the map), and after the new entity is published - every name that resolved
    before still resolves; while the callback runs it resolves to exactly the previous entity. *)
Lemma lookup_put_same : forall spaces c ns name e s,
  match slookup ns (sset ns (sp_put c s (sset name e (sp_get c s))) spaces) with
  | None => None | Some s2 => slookup name (sp_get c s2) end = Some e.
Proof. intros. rewrite slookup_sset_same, sp_get_put_same, slookup_sset_same. reflexivity. Qed.

Theorem update_never_unavailable : forall st o c ns name tag,
  o = TCreate c ns name tag \/ o = TUpdate c ns name tag \/ o = TApply c ns name tag ->
  forall c' ns' name' e, tc_lookup st c' ns' name' = Some e ->
    tc_lookup (tc_during st o) c' ns' name' = Some e /\
    tc_lookup (fst (tc_step st o)) c' ns' name' <> None.
Proof.
  intros st o c ns name tag Ho c' ns' name' e He.
  split; [destruct Ho as [-> | [-> | ->]]; exact He|].
  assert (Ht : tc_target o = Some (c, ns, name)) by (destruct Ho as [-> | [-> | ->]]; reflexivity).
  destruct (cat_dec c' c) as [-> | Nc].
  2:{ rewrite (proj1 (proj1 (other_objects_untouched st o) c ns name Ht)) by (intro X; inversion X; contradiction).
      rewrite He; discriminate. }
  destruct (string_dec ns' ns) as [-> | Nn].
  2:{ rewrite (proj1 (proj1 (other_objects_untouched st o) c ns name Ht)) by (intro X; inversion X; contradiction).
      rewrite He; discriminate. }
  destruct (string_dec name' name) as [-> | Nm].
  2:{ rewrite (proj1 (proj1 (other_objects_untouched st o) c ns name Ht)) by (intro X; inversion X; contradiction).
      rewrite He; discriminate. }
  (* the object being updated itself *)
  unfold tc_lookup in He.
  destruct (slookup ns (ts_spaces st)) as [s|] eqn:Es; [|discriminate].
  destruct Ho as [-> | [-> | ->]]; simpl.
  - destruct (String.eqb ns "") eqn:E; simpl; [unfold tc_lookup; rewrite Es, He; discriminate|].
    rewrite Es. unfold tc_lookup; simpl. rewrite lookup_put_same. discriminate.
  - rewrite Es, He. unfold tc_lookup; simpl. rewrite lookup_put_same. discriminate.
  - destruct (String.eqb ns "") eqn:E; simpl; [unfold tc_lookup; rewrite Es, He; discriminate|].
    rewrite Es, He. destruct (e_tag e =? tag); simpl.
    + unfold tc_lookup; rewrite Es, He; discriminate.
    + unfold tc_lookup; simpl. rewrite lookup_put_same. discriminate.
Qed.

(** an update that leaves the listener-relevant part of the spec alone - rules, server-level
    ipFilter, XFF, cache size, maxConnections may all change - never restarts the listener: keep-alive
    connections survive it *)
Lemma rt_listen_eqb_refl : forall a, rt_listen_eqb a a = true.
Proof.
  intros [p k t m g h]. unfold rt_listen_eqb; simpl.
  rewrite !Z.eqb_refl, !String.eqb_refl. destruct k, h; reflexivity.
Qed.

Theorem hot_update_no_restart : forall l h1 h2,
  need_restart {| rs_listen := l; rs_hot := h1 |} {| rs_listen := l; rs_hot := h2 |} = false /\
  rt_reload {| rs_listen := l; rs_hot := h1 |} {| rs_listen := l; rs_hot := h2 |} = (0, true).
Proof.
  intros l h1 h2. unfold rt_reload, need_restart; simpl. rewrite rt_listen_eqb_refl. split; reflexivity.
Qed.

(** an undecodable entry in a synchronisation round is invisible to every other object: for every
    name whose own entry is not undecodable, the event delivered to the watchers and the entity held
    afterwards are exactly those of the round without the undecodable entries *)
Lemma slookup_healthy : forall (snap : list (string * option string)) n,
  slookup n snap <> Some None -> slookup n (reg_healthy snap) = slookup n snap.
Proof.
  induction snap as [|[k v] t IH]; intros n H; simpl in *; [reflexivity|].
  destruct (String.eqb n k) eqn:E.
  - destruct v as [v|]; simpl; [rewrite E; reflexivity | exfalso; apply H; reflexivity].
  - destruct v as [v|]; simpl; [rewrite E|]; apply IH; exact H.
Qed.

Theorem registry_bad_entry_frame : forall ents snap n,
  slookup n snap <> Some None ->
  reg_event ents (reg_healthy snap) n = reg_event ents snap n /\
  reg_after ents (reg_healthy snap) n = reg_after ents snap n.
Proof.
  intros ents snap n H. unfold reg_event, reg_after. rewrite (slookup_healthy snap n H). split; reflexivity.
Qed.

(** however many generations are stored one after the other (an update storm), the live instance
    is the one stored last, and every stored generation was live exactly in the order of the stores:
    generations never go backwards *)
Lemma last_cons {A} : forall (t : list A) g d, last (g :: t) d = last t g.
Proof.
  induction t as [|m t IH]; intros g d; [reflexivity|].
  change (last (g :: m :: t) d) with (last (m :: t) d). rewrite (IH m d), (IH m g). reflexivity.
Qed.

Theorem update_storm_last_wins : forall g0 gs,
  mw_inst (mx_run (mx_init g0) (map LStore gs)) = last gs g0 /\
  mw_hist (mx_run (mx_init g0) (map LStore gs)) = rev gs ++ [g0].
Proof.
  intros g0 gs. unfold mx_run.
  assert (G : forall gs w, mw_inst (fold_left mx_step (map LStore gs) w) = last gs (mw_inst w) /\
                           mw_hist (fold_left mx_step (map LStore gs) w) = rev gs ++ mw_hist w).
  { clear gs. intro gs. induction gs as [|g t IH]; intro w; [split; reflexivity|].
    destruct (IH (mx_step w (LStore g))) as [A B]. cbn [map fold_left]. split.
    - rewrite A. cbn [mx_step mw_inst]. symmetry. apply last_cons.
    - rewrite B. cbn [mx_step mw_hist rev]. rewrite <- app_assoc. reflexivity. }
  destruct (G gs (mx_init g0)) as [A B]. split; assumption.
Qed.

(** * The composite statements registered in props/C11.v *)

Theorem old_generation_completes :
  (forall ops, Forall op_ok ops ->
     Forall (fun ob => ob <> OHandle FPanic /\ ob <> OInheritPanic) (frun ideal fworld0 ops)) /\
  (forall w s from now w' ob,
     fwf w -> spec_ok s -> fstep ideal w (FInherit s from now) = (w', ob) ->
     forall gi g, nth_error (w_gens w) gi = Some g ->
       nth_error (w_gens w') gi = Some g /\
       forall now' m, snd (flt_handle (w_heap w') g now' m) = snd (flt_handle (w_heap w) g now' m)).
Proof. split; [intros ops H; apply rl_ideal_never_panics; [exact fwf0 | exact H] | exact rl_inherit_frame]. Qed.

Theorem old_pipeline_generation_completes :
  (forall specs ops, Forall obs_fine (pl_run rideal specs pl_world0 ops)) /\
  (forall specs ops w g x, pl_wf w -> nth_error (pw_gens w) g = Some x ->
     nth_error (pw_gens (pl_final rideal specs w ops)) g = Some x /\
     (exists more, pw_insts (pl_final rideal specs w ops) = pw_insts w ++ more) /\
     pl_flow_run (pw_insts (pl_final rideal specs w ops)) (pg_flow x) [] = pl_flow_run (pw_insts w) (pg_flow x) [] /\
     snd (pl_flow_run (pw_insts w) (pg_flow x) []) <> PPanic).
Proof. split; [intros specs ops; apply pl_ideal_never_panics; exact pl_wf0 | exact pl_ideal_held_generation]. Qed.

(** * Refutations for the pinned code (closed witnesses) *)

Definition w_pol : fpolicy := {| fp_name := "p0"; fp_T := "0s"; fp_P := "1h"; fp_L := 2; fp_Tns := 0; fp_Pns := 3600000000000 |}.
Definition w_url : furl := {| fu_methods := []; fu_exact := ""; fu_prefix := "/"; fu_regex := ""; fu_ref := "" |}.
Definition w_spec : fspec := {| fs_policies := [w_pol]; fs_default := "p0"; fs_urls := [w_url] |}.
Definition w_ops : list fop :=
  [FInit w_spec 0; FHandle 0 1000 [true]; FInherit w_spec 0 1000; FHandle 0 2000 [true]].
Definition steals : RL.quirks := {| q_rl_inherit_steals_limiter := true |}.

Lemma w_spec_ok : spec_ok w_spec.
Proof. constructor; [|constructor]. unfold url_ok. vm_compute. discriminate. Qed.

(** with [prev.rl = nil] the superseded generation panics on its next matching request; the same
    history is fine without the quirk *)
Theorem refuted_rl_inherit :
  exists ops, Forall op_ok ops /\
    In (OHandle FPanic) (frun steals fworld0 ops) /\
    ~ In (OHandle FPanic) (frun ideal fworld0 ops).
Proof.
  exists w_ops. split; [|split].
  - unfold w_ops. constructor; [exact w_spec_ok | constructor; [exact I | constructor; [exact w_spec_ok | constructor; [exact I | constructor]]]].
  - vm_compute. right; right; right; left. reflexivity.
  - vm_compute. intros [H | [H | [H | [H | H]]]]; try discriminate; exact H.
Qed.

Definition w_pspecs : list (list pl_fspec) :=
  [[{| pf_name := "f0"; pf_kind := KRecA; pf_tag := 0 |}; {| pf_name := "f1"; pf_kind := KRecB; pf_tag := 0 |}];
   [{| pf_name := "f0"; pf_kind := KRecA; pf_tag := 0 |}; {| pf_name := "f1"; pf_kind := KRL; pf_tag := 0 |}]].
Definition foreign : rquirks := {| rq_steal := false; rq_foreign := true |}.

(** a pipeline update that changes a filter's kind to RateLimiter under the same name: Inherit
    panics, the stored generation has no flow - a request through it visits no filter at all *)
Theorem refuted_pipeline_foreign_kind :
  pl_run foreign w_pspecs pl_world0 [PlInit 0; PlInherit 1 0; PlHandle 1] =
    [PoLife false [EInit 0 "f0"; EInit 1 "f1"]; PoLife true [EInherit 2 "f0" 0]; PoHandle [] (PRes "" 0)] /\
  pl_run rideal w_pspecs pl_world0 [PlInit 0; PlInherit 1 0; PlHandle 1] =
    [PoLife false [EInit 0 "f0"; EInit 1 "f1"]; PoLife false [EInherit 2 "f0" 0; EClose 0 "f0"; EClose 1 "f1"];
     PoHandle [EHandle 2 "f0"] (PRes "" 0)].
Proof. split; vm_compute; reflexivity. Qed.

(** same at pipeline level for the stolen limiter: the old pipeline generation panics *)
Definition w_pspecs2 : list (list pl_fspec) :=
  [[{| pf_name := "f0"; pf_kind := KRecA; pf_tag := 0 |}; {| pf_name := "rl"; pf_kind := KRL; pf_tag := 1 |}];
   [{| pf_name := "f0"; pf_kind := KRecA; pf_tag := 1 |}; {| pf_name := "rl"; pf_kind := KRL; pf_tag := 1 |}]].

Theorem refuted_pipeline_rl_inherit :
  In (PoHandle [EHandle 0 "f0"] PPanic)
     (pl_run {| rq_steal := true; rq_foreign := false |} w_pspecs2 pl_world0 [PlInit 0; PlInherit 1 0; PlHandle 0]).
Proof. vm_compute. right; right; left. reflexivity. Qed.

(** * Non-vacuity *)

Definition nv_comp : mx_comp := {| c_code := 0; c_backend := "pA"; c_rpath := "/ra"; c_plimit := 0 |}.
Definition nv_gA : mx_gen := {| gn_mapper := "mA"; gn_xff := true; gn_limit := 20; gn_comp := [(0, nv_comp)] |}.
Definition nv_gB : mx_gen :=
  {| gn_mapper := "mB"; gn_xff := false; gn_limit := 200;
     gn_comp := [(0, {| c_code := 0; c_backend := "pB"; c_rpath := "/rb"; c_plimit := 0 |})] |}.
Definition nv_req : mx_req := {| rq_id := 0; rq_len := 5; rq_xff_off := ""; rq_xff_on := "10.1.2.3" |}.

(** a request that loaded A, with B stored in the middle of it, and a later request: the first is
    entirely A, the second entirely B *)
Example mux_nonvacuous :
  let w := mx_run (mx_init nv_gA)
             ([LSpawn nv_req; LStep 0; LStep 0; LStore nv_gB; LSpawn nv_req] ++ repeat (LStep 0) 6 ++ repeat (LStep 1) 8) in
  map t_out (mw_threads w) =
    [Some {| r_status := 200; r_handler := "mA/pA"; r_path := "/ra"; r_xff := "10.1.2.3"; r_size := 5 |};
     Some {| r_status := 200; r_handler := "mB/pB"; r_path := "/rb"; r_xff := ""; r_size := 5 |}].
Proof. vm_compute. reflexivity. Qed.

Example tc_nonvacuous :
  let st := fst (tc_step (fst (tc_step tc_state0 (TApply CP "n1" "a" 1))) (TApply CG "n1" "g" 0)) in
  tc_lookup st CP "n1" "a" = Some {| e_id := 1; e_tag := 1 |} /\
  snd (tc_step st (TApply CP "n1" "a" 1)) = {| tr_err := false; tr_ret := 1; tr_evs := [] |} /\
  tr_evs (snd (tc_step st (TApply CP "n1" "a" 2))) = [TInherit CP 3 "a" 2 1].
Proof. vm_compute. repeat split; reflexivity. Qed.
