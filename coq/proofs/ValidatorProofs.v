(** C06 - lemmas about the Validator model: injectivity of the canonical request,
    exact characterisations of the four methods, handle. *)
From EG.lib Require Import Base.
From EG.model Require Import Validator.
From EG.proofs Require Import ValidatorProofsStr.
Open Scope string_scope.

(** * the query line *)
Definition qline (kv : string * string) : string := qesc (fst kv) ++ "=" ++ qesc (snd kv).

Lemma qline_inj a b : qline a = qline b -> a = b.
Proof.
  destruct a as [k1 v1], b as [k2 v2]. unfold qline; cbn [fst snd append]. intro E.
  destruct (sep_inj "="%char _ _ _ _ (qesc_noeq k1) (qesc_noeq k2) E) as [Ek Ev].
  apply qesc_inj in Ek, Ev. congruence.
Qed.

Lemma qline_noamp a : nochar "&"%char (qline a).
Proof.
  unfold qline. apply nochar_app; split; [apply qesc_noamp|].
  cbn [append]. apply nochar_cons; split; [reflexivity|apply qesc_noamp].
Qed.

Lemma qline_nonl a : nonl (qline a).
Proof.
  unfold qline, nonl. apply nochar_app; split; [apply qesc_nonl|].
  cbn [append]. apply nochar_cons; split; [reflexivity|apply qesc_nonl].
Qed.

Lemma qline_nonempty a : qline a <> EmptyString.
Proof. unfold qline. destruct (qesc (fst a)); cbn; discriminate. Qed.

Lemma join_first_empty sep x t : join sep (x :: t) = EmptyString -> x = EmptyString.
Proof. destruct t; cbn; [auto|]. destruct x; [reflexivity|discriminate]. Qed.

Lemma map_inj {A B} (f : A -> B) : (forall a b, f a = f b -> a = b) -> forall l1 l2, map f l1 = map f l2 -> l1 = l2.
Proof.
  intros Hf l1; induction l1 as [|a l1 IH]; intros [|b l2] E; simpl in E; try discriminate; [reflexivity|].
  inversion E. f_equal; auto.
Qed.

Lemma encode_query_inj l1 l2 : encode_query l1 = encode_query l2 -> l1 = l2.
Proof.
  unfold encode_query. change (fun kv : string * string => qesc (fst kv) ++ "=" ++ qesc (snd kv)) with qline.
  intro E. destruct l1 as [|a l1], l2 as [|b l2]; [reflexivity| | |].
  - exfalso. symmetry in E. apply join_first_empty in E. exact (qline_nonempty _ E).
  - exfalso. apply join_first_empty in E. exact (qline_nonempty _ E).
  - apply (map_inj qline qline_inj).
    apply (join_inj "&"%char); try (simpl; discriminate); try assumption;
      apply Forall_forall; intros x Hx; apply in_map_iff in Hx as [kv [<- _]]; apply qline_noamp.
Qed.

Lemma encode_query_nonl l : nonl (encode_query l).
Proof.
  unfold encode_query. change (fun kv : string * string => qesc (fst kv) ++ "=" ++ qesc (snd kv)) with qline.
  apply (join_nochar _ "&"%char); [reflexivity|].
  apply Forall_forall; intros x Hx; apply in_map_iff in Hx as [kv [<- _]]; apply qline_nonl.
Qed.

(** * the canonical request *)
Record cov_wf (c : covered) : Prop := {
  wf_method : nonl (cv_method c);
  wf_uri : nonl (cv_uri c);
  wf_names : Forall (fun nv => nonl (fst nv) /\ nochar ";"%char (fst nv)) (cv_headers c);
  wf_values : Forall (fun nv => nonl (snd nv)) (cv_headers c);
  wf_body : nonl (cv_body c) }.

Lemma app_tail3_inj {A} (l1 l2 : list A) a b c a' b' c' :
  (l1 ++ [a; b; c] = l2 ++ [a'; b'; c'])%list -> l1 = l2 /\ a = a' /\ b = b' /\ c = c'.
Proof.
  change [a; b; c] with ([a] ++ [b] ++ [c])%list. change [a'; b'; c'] with ([a'] ++ [b'] ++ [c'])%list.
  rewrite !app_assoc. intro E.
  apply app_inj_tail in E as [E ->]. apply app_inj_tail in E as [E ->]. apply app_inj_tail in E as [-> ->].
  auto.
Qed.

Lemma header_lines_inj (h1 h2 : list (string * string)) :
  map fst h1 = map fst h2 -> map header_line h1 = map header_line h2 -> h1 = h2.
Proof.
  revert h2; induction h1 as [|[n v] h1 IH]; intros [|[n' v'] h2] E1 E2; simpl in *; try discriminate; [reflexivity|].
  inversion E1; subst. inversion E2 as [[E3 E4]]. unfold header_line in E3; cbn [fst snd] in E3.
  apply append_inv_head in E3. cbn [append] in E3. inversion E3; subst. f_equal. auto.
Qed.

Lemma cov_lines_nonl c : cov_wf c ->
  Forall nonl (cv_method c :: cv_uri c :: encode_query (cv_query c) ::
               (map header_line (cv_headers c) ++ [EmptyString; join ";" (map fst (cv_headers c)); cv_body c])).
Proof.
  intros [Hm Hu Hn Hv Hb].
  apply Forall_cons; [assumption|]. apply Forall_cons; [assumption|].
  apply Forall_cons; [apply encode_query_nonl|].
  apply Forall_app; split.
  - apply Forall_forall. intros x Hx. apply in_map_iff in Hx as [[n v] [<- Hin]].
    rewrite Forall_forall in Hn, Hv. specialize (Hn _ Hin). specialize (Hv _ Hin). cbn [fst snd] in *.
    unfold header_line, nonl; cbn [fst snd]. apply nochar_app; split; [tauto|].
    cbn [append]. apply nochar_cons; split; [reflexivity|assumption].
  - apply Forall_cons; [reflexivity|]. apply Forall_cons; [|apply Forall_cons; [assumption|apply Forall_nil]].
    apply (join_nochar _ ";"%char); [reflexivity|].
    apply Forall_forall. intros x Hx. apply in_map_iff in Hx as [nv [<- Hin]].
    rewrite Forall_forall in Hn. apply Hn. assumption.
Qed.

Theorem canonical_request_inj c1 c2 :
  cov_wf c1 -> cov_wf c2 -> canonical_request c1 = canonical_request c2 -> c1 = c2.
Proof.
  intros W1 W2 E. unfold canonical_request in E.
  apply (join_inj "010"%char) in E; try discriminate; try (apply cov_lines_nonl; assumption).
  injection E as Em Eu Eq Et.
  apply app_tail3_inj in Et as [Eh [_ [Es Eb]]].
  apply encode_query_inj in Eq.
  assert (En : map fst (cv_headers c1) = map fst (cv_headers c2)).
  { assert (Len : List.length (cv_headers c1) = List.length (cv_headers c2))
      by (rewrite <- (map_length header_line (cv_headers c1)), Eh, map_length; reflexivity).
    destruct (cv_headers c1) as [|x h1] eqn:H1, (cv_headers c2) as [|y h2] eqn:H2; try discriminate; [reflexivity|].
    apply (join_inj ";"%char); try (simpl; discriminate); try exact Es.
    - destruct W1 as [_ _ Hn _ _]. rewrite H1 in Hn. apply Forall_forall. intros s Hs.
      apply in_map_iff in Hs as [nv [<- Hin]]. rewrite Forall_forall in Hn. apply Hn, Hin.
    - destruct W2 as [_ _ Hn _ _]. rewrite H2 in Hn. apply Forall_forall. intros s Hs.
      apply in_map_iff in Hs as [nv [<- Hin]]. rewrite Forall_forall in Hn. apply Hn, Hin. }
  pose proof (header_lines_inj _ _ En Eh) as EH.
  destruct c1, c2; cbn in *; subst; reflexivity.
Qed.

(** * signature: unfolding of the decision *)
Lemma sig_ok_iff q o c r now :
  s_keys c <> [] ->
  (sig_ok q o c r now = true <->
   exists p secret,
     init_from_request o (s_lit c) r = Some p /\ time_ok c p now = true /\
     alookup (p_keyid p) (s_keys c) = Some secret /\
     p_tag p = expected_tag o (s_lit c) p secret (covered_of q o c p r)).
Proof.
  intro NE. unfold sig_ok, sig_stage_of.
  destruct (s_keys c) as [|k0 ks] eqn:K; [congruence|].
  destruct (init_from_request o (s_lit c) r) as [p|].
  2:{ split; [discriminate|]. intros (p & s & H & _). discriminate. }
  destruct (time_ok c p now) eqn:T; cbn [negb].
  2:{ split; [discriminate|]. intros (p' & s & H & T' & _). inversion H; subst. congruence. }
  destruct (alookup (p_keyid p) (k0 :: ks)) as [secret|] eqn:A.
  2:{ split; [discriminate|]. intros (p' & s & H & _ & A' & _). inversion H; subst. congruence. }
  rewrite String.eqb_eq. split.
  - intro E. exists p, secret. auto.
  - intros (p' & s & H & _ & A' & E). inversion H; subst. rewrite A in A'. inversion A'; subst. auto.
Qed.

(** * idealised cryptography and well-formed (HTTP-parsed) requests *)
Record oracle_ideal (o : oracle) : Prop := {
  mac_inj : forall k m k' m', o_mac o k m = o_mac o k' m' -> k = k' /\ m = m';
  sha_inj : forall a b, o_sha o a = o_sha o b -> a = b;
  sha_nonl : forall a, nonl (o_sha o a) }.

Record req_wf (r : request) : Prop := {
  rw_method : nonl (r_method r);
  rw_host : nonl (r_host r);
  rw_headers : forall k, Forall nonl (mget_all k (r_headers r)) }.

Lemma get_host_nonl r : req_wf r -> nonl (get_host r).
Proof.
  intros [_ Hh _]. unfold get_host.
  destruct (String.eqb (r_host r) EmptyString); [reflexivity|].
  destruct (Z.ltb _ _); [|assumption].
  destruct (String.eqb _ _); [|assumption]. apply nochar_stake. assumption.
Qed.

Lemma split_on_keeps_nochar c d s : nochar c s -> Forall (nochar c) (split_on d s).
Proof.
  induction s as [|a s IH]; intro H; simpl.
  - constructor; [reflexivity|constructor].
  - apply nochar_cons in H as [Ha Hs]. specialize (IH Hs).
    destruct (Ascii.eqb a d).
    + constructor; [reflexivity|assumption].
    + destruct (split_on d s) as [|h tl].
      * constructor; [apply nochar_cons; split; [assumption|reflexivity]|constructor].
      * inversion IH; subst. constructor; [apply nochar_cons; split; assumption|assumption].
Qed.

Lemma covered_of_wf q o c p r :
  oracle_ideal o -> req_wf r -> nonl (p_signed p) -> cov_wf (covered_of q o c p r).
Proof.
  intros O W S. constructor; cbn [covered_of cv_method cv_uri cv_headers cv_body].
  - apply W.
  - apply canonical_uri_nonl.
  - apply Forall_forall. intros nv H. apply in_map_iff in H as [n [<- Hn]]. cbn [fst]. split.
    + pose proof (split_on_keeps_nochar "010"%char ";"%char _ S) as F. rewrite Forall_forall in F. apply F, Hn.
    + pose proof (split_on_nochar ";"%char (p_signed p)) as F. rewrite Forall_forall in F. apply F, Hn.
  - apply Forall_forall. intros nv H. apply in_map_iff in H as [n [<- Hn]]. cbn [snd].
    unfold signed_header_value. destruct (String.eqb n "host"); [apply get_host_nonl; assumption|].
    apply canon_hvalue_nonl. apply W.
  - unfold body_hash. destruct (s_exclude_body c); [reflexivity|apply O].
Qed.

Lemma join4 a b c d : join nl [a; b; c; d] = (a ++ nl ++ b ++ nl ++ c) ++ String "010"%char d.
Proof. unfold join; cbn [String.concat]. rewrite !append_assoc. reflexivity. Qed.

(** two accepted requests carrying the same tag have the same covered tuple *)
Theorem sig_same_tag_same_covered o c r1 r2 now1 now2 p1 p2 :
  oracle_ideal o -> s_keys c <> [] -> req_wf r1 -> req_wf r2 ->
  init_from_request o (s_lit c) r1 = Some p1 -> init_from_request o (s_lit c) r2 = Some p2 ->
  nonl (p_signed p1) -> nonl (p_signed p2) ->
  sig_ok ideal o c r1 now1 = true -> sig_ok ideal o c r2 now2 = true ->
  p_tag p1 = p_tag p2 ->
  covered_of ideal o c p1 r1 = covered_of ideal o c p2 r2.
Proof.
  intros O NE W1 W2 I1 I2 S1 S2 A1 A2 T.
  apply (sig_ok_iff ideal o c r1 now1 NE) in A1 as (p1' & s1 & I1' & _ & _ & E1).
  apply (sig_ok_iff ideal o c r2 now2 NE) in A2 as (p2' & s2 & I2' & _ & _ & E2).
  rewrite I1 in I1'; inversion I1'; subst p1'. rewrite I2 in I2'; inversion I2'; subst p2'.
  rewrite E1, E2 in T. unfold expected_tag in T. apply hex_of_string_inj in T.
  apply (mac_inj o O) in T as [_ T]. unfold string_to_sign in T. rewrite !join4 in T.
  apply last_sep_inj in T as [_ T]; try apply (sha_nonl o O).
  apply (sha_inj o O) in T.
  apply canonical_request_inj in T; [assumption| |]; apply covered_of_wf; assumption.
Qed.

Lemma map_pair_ext {A B} (f g : A -> B) l :
  map (fun n => (n, f n)) l = map (fun n => (n, g n)) l -> forall n, In n l -> f n = g n.
Proof.
  induction l as [|a l IH]; intros E n H; [destruct H|]. simpl in E. inversion E.
  destruct H as [<-|H]; auto.
Qed.

(** what equality of the covered tuples means for the parts of the requests *)
Theorem covered_parts o c p1 r1 p2 r2 :
  oracle_ideal o ->
  covered_of ideal o c p1 r1 = covered_of ideal o c p2 r2 ->
  r_method r1 = r_method r2 /\
  (r_escpath r1 <> EmptyString -> r_escpath r2 <> EmptyString -> r_escpath r1 = r_escpath r2) /\
  norm_query (canon_query_map (s_lit c) p1 (r_query r1)) = norm_query (canon_query_map (s_lit c) p2 (r_query r2)) /\
  p_signed p1 = p_signed p2 /\
  (forall n, In n (split_on ";"%char (p_signed p1)) -> signed_header_value o r1 n = signed_header_value o r2 n) /\
  (s_exclude_body c = false -> r_payload r1 = r_payload r2).
Proof.
  intros O E. unfold covered_of in E. injection E as Em Eu Eq Eh Eb.
  assert (Es : p_signed p1 = p_signed p2).
  { apply (f_equal (map fst)) in Eh. rewrite !map_map in Eh. cbn [fst] in Eh. rewrite !map_id in Eh.
    rewrite <- (join_split ";"%char (p_signed p1)), <- (join_split ";"%char (p_signed p2)), Eh. reflexivity. }
  repeat split; try assumption.
  - intros N1 N2. unfold canonical_uri in Eu.
    destruct (r_escpath r1) eqn:P1; [congruence|]. destruct (r_escpath r2) eqn:P2; [congruence|].
    apply uri_escape_inj. assumption.
  - rewrite <- Es in Eh. apply map_pair_ext. assumption.
  - intro X. unfold body_hash in Eb. rewrite X in Eb. cbn in Eb. apply (sha_inj o O). assumption.
Qed.

(** * JWT *)
Definition time_valid (now : Z) (e i n : option Z) : Prop :=
  (forall x, e = Some x -> x = 0%Z \/ (now <= x)%Z) /\
  (forall x, i = Some x -> x = 0%Z \/ (x <= now)%Z) /\
  (forall x, n = Some x -> x = 0%Z \/ (x <= now)%Z).

Lemma exp_ok_iff now e : exp_ok now e = true <-> (forall x, e = Some x -> x = 0%Z \/ (now <= x)%Z).
Proof.
  unfold exp_ok. destruct e as [x|]; [|split; [intros _ y Hy; discriminate|reflexivity]].
  rewrite orb_true_iff, Z.eqb_eq, Z.leb_le. split.
  - intros H y Hy. inversion Hy; subst. assumption.
  - intro H. apply H. reflexivity.
Qed.

Lemma notbefore_ok_iff now e : notbefore_ok now e = true <-> (forall x, e = Some x -> x = 0%Z \/ (x <= now)%Z).
Proof.
  unfold notbefore_ok. destruct e as [x|]; [|split; [intros _ y Hy; discriminate|reflexivity]].
  rewrite orb_true_iff, Z.eqb_eq, Z.leb_le. split.
  - intros H y Hy. inversion Hy; subst. assumption.
  - intro H. apply H. reflexivity.
Qed.

Theorem jwt_token_ok_iff o c jnow tok :
  jwt_token_ok ideal o c jnow tok = true <->
  exists h cl s e i n,
    split_on "."%char tok = [h; cl; s] /\
    o_jhdr o h = Some (j_alg c) /\ is_hs (j_alg c) = true /\
    o_jclaims o cl = Some (e, i, n) /\ time_valid jnow (claim_value e) (claim_value i) (claim_value n) /\
    s = o_jmac o (j_alg c) (j_secret c) (h ++ "." ++ cl).
Proof.
  unfold jwt_token_ok, jwt_sig_ok, time_valid. cbn [ideal q_jwt_sig_lenient_b64].
  split.
  - intro H. destruct (split_on "."%char tok) as [|h [|cl [|s [|? ?]]]]; try discriminate.
    destruct (o_jhdr o h) as [alg|] eqn:Hh; [|discriminate].
    destruct (o_jclaims o cl) as [[[e i] n]|] eqn:Hc; [|discriminate].
    rewrite !andb_true_iff in H. destruct H as [[[[[H1 H2] H3] H4] H5] H6].
    apply String.eqb_eq in H2, H6. subst alg.
    exists h, cl, s, e, i, n. rewrite <- exp_ok_iff, <- !notbefore_ok_iff. repeat split; auto.
  - intros (h & cl & s & e & i & n & Hs & Hh & Ha & Hc & (T1 & T2 & T3) & Hm).
    rewrite Hs, Hh, Hc, Ha, String.eqb_refl. cbn [andb].
    apply exp_ok_iff in T1. apply notbefore_ok_iff in T2, T3. rewrite T1, T2, T3. cbn [andb].
    apply String.eqb_eq. assumption.
Qed.

Theorem jwt_ok_iff o c r jnow :
  jwt_ok ideal o c r jnow = true <-> exists tok, jwt_token c r = Some tok /\ jwt_token_ok ideal o c jnow tok = true.
Proof.
  unfold jwt_ok. destruct (jwt_token c r) as [tok|]; split.
  - intro H. exists tok. auto.
  - intros (t & E & H). inversion E; subst. assumption.
  - discriminate.
  - intros (t & E & _). discriminate.
Qed.

(** where the token is taken from *)
Theorem jwt_token_source c r tok :
  jwt_token c r = Some tok <->
  (j_cookie c <> EmptyString /\ r_cookie r = Some tok /\ tok <> EmptyString) \/
  ((j_cookie c = EmptyString \/ r_cookie r = None \/ r_cookie r = Some EmptyString) /\
   mget "Authorization" (r_headers r) = bearer ++ tok).
Proof.
  unfold jwt_token.
  destruct (String.eqb (j_cookie c) EmptyString) eqn:C.
  - apply String.eqb_eq in C. cbn [String.eqb negb]. split.
    + intro H. right. split; [auto|].
      destruct (String.prefix bearer _) eqn:P; [|discriminate]. inversion H; subst.
      apply prefix_app in P. exact P.
    + intros [[N _]|[_ E]]; [congruence|]. rewrite E, prefix_app_true.
      change 7%nat with (String.length bearer). rewrite sdrop_app. reflexivity.
  - apply String.eqb_neq in C. destruct (r_cookie r) as [v|].
    + destruct (String.eqb v EmptyString) eqn:V; cbn [negb].
      * apply String.eqb_eq in V; subst v. split.
        -- intro H. right. split; [auto|].
           destruct (String.prefix bearer _) eqn:P; [|discriminate]. inversion H; subst.
           apply prefix_app in P. exact P.
        -- intros [(_ & E & N)|[_ E]]; [inversion E; congruence|]. rewrite E, prefix_app_true.
           change 7%nat with (String.length bearer). rewrite sdrop_app. reflexivity.
      * apply String.eqb_neq in V. split.
        -- intro H. inversion H; subst. left. auto.
        -- intros [(_ & E & _)|[[E|[E|E]] _]]; try congruence; inversion E; congruence.
    + cbn [String.eqb negb]. split.
      * intro H. right. split; [auto|].
        destruct (String.prefix bearer _) eqn:P; [|discriminate]. inversion H; subst.
        apply prefix_app in P. exact P.
      * intros [(_ & E & _)|[_ E]]; [discriminate|]. rewrite E, prefix_app_true.
        change 7%nat with (String.length bearer). rewrite sdrop_app. reflexivity.
Qed.

(** an accepted token that keeps the signing input or keeps the signature text is the same token *)
Theorem jwt_mutation o c jnow tok tok' h cl s h' cl' s' :
  (forall alg k m m', o_jmac o alg k m = o_jmac o alg k m' -> m = m') ->
  jwt_token_ok ideal o c jnow tok = true -> jwt_token_ok ideal o c jnow tok' = true ->
  split_on "."%char tok = [h; cl; s] -> split_on "."%char tok' = [h'; cl'; s'] ->
  (h = h' /\ cl = cl') \/ s = s' -> tok = tok'.
Proof.
  intros MI A A' S S' D.
  apply jwt_token_ok_iff in A as (h0 & c0 & s0 & _ & _ & _ & S0 & _ & _ & _ & _ & M).
  apply jwt_token_ok_iff in A' as (h1 & c1 & s1 & _ & _ & _ & S1 & _ & _ & _ & _ & M').
  rewrite S in S0; injection S0 as <- <- <-. rewrite S' in S1; injection S1 as <- <- <-.
  assert (E : h = h' /\ cl = cl' /\ s = s').
  { destruct D as [[-> ->]|D].
    - rewrite M, M'. auto.
    - rewrite M, M' in D. apply MI in D. cbn [append] in D.
      pose proof (split_on_nochar "."%char tok) as F. rewrite S in F.
      pose proof (split_on_nochar "."%char tok') as F'. rewrite S' in F'.
      inversion F; inversion F'; subst.
      apply sep_inj in D as [-> ->]; auto. }
  destruct E as (-> & -> & ->).
  rewrite <- (join_split "."%char tok), <- (join_split "."%char tok'), S, S'. reflexivity.
Qed.

(** * Basic auth *)
Theorem basic_ok_iff o users r :
  basic_ok ideal o users r = true <->
  exists b64 u p,
    mget "Authorization" (r_headers r) = basic_prefix ++ b64 /\
    o_b64std o b64 = Some (u ++ ":" ++ p) /\ nochar ":"%char u /\ alookup u users = Some p.
Proof.
  unfold basic_ok, parse_credentials, user_match. cbn [ideal q_basic_split_all_colons]. split.
  - intro H. destruct (String.prefix basic_prefix _) eqn:P; [|discriminate].
    apply prefix_app in P. change (String.length basic_prefix) with 6%nat in P.
    destruct (o_b64std o _) as [creds|] eqn:B; [|discriminate].
    destruct (index_byte ":"%char creds) as [i|] eqn:I; [|discriminate].
    destruct (alookup (stake i creds) users) as [p'|] eqn:L; [|discriminate].
    apply String.eqb_eq in H. subst p'.
    apply index_byte_spec in I as [Ec Hn].
    exists (sdrop 6 (mget "Authorization" (r_headers r))), (stake i creds), (sdrop (S i) creds).
    cbn [append]. rewrite <- Ec. auto.
  - intros (b64 & u & p & E & B & N & L).
    rewrite E, prefix_app_true. change 6%nat with (String.length basic_prefix). rewrite sdrop_app, B.
    cbn [append]. rewrite (index_byte_app _ u p N), stake_app, L.
    change (String ":"%char p) with (":" ++ p). rewrite <- append_assoc.
    replace (S (String.length u)) with (String.length (u ++ ":")).
    + rewrite sdrop_app. apply String.eqb_refl.
    + clear. induction u; simpl; congruence.
Qed.

(** * header rules *)
Theorem headers_ok_iff o r rules :
  headers_ok o r rules = true <->
  forall h, In h rules ->
    exists v rest, mget_all (o_ck o (h_key h)) (r_headers r) = v :: rest /\
      (In v (h_values h) \/ (h_regexp h <> EmptyString /\ o_re o (h_regexp h) v = true)).
Proof.
  unfold headers_ok. rewrite forallb_forall. split; intros H h Hin; specialize (H h Hin); unfold hrule_ok in *.
  - destruct (mget_all _ _) as [|v rest]; [discriminate|]. exists v, rest. split; [reflexivity|].
    apply orb_true_iff in H as [H|H].
    + left. unfold in_list in H. apply existsb_exists in H as [x [Hx E]]. apply String.eqb_eq in E. subst. assumption.
    + right. apply andb_true_iff in H as [H1 H2]. split; [|assumption].
      intro E. rewrite E in H1. discriminate.
  - destruct H as (v & rest & E & D). rewrite E. apply orb_true_iff. destruct D as [D|[D1 D2]].
    + left. unfold in_list. apply existsb_exists. exists v. split; [assumption|apply String.eqb_refl].
    + right. apply andb_true_iff. split; [|assumption].
      apply negb_true_iff. apply String.eqb_neq. assumption.
Qed.

(** * handle *)
Definition configured {A} (x : option A) (P : A -> Prop) : Prop := forall a, x = Some a -> P a.

Definition gate {A} (x : option A) (f : A -> bool) : bool :=
  match x with Some a => f a | None => true end.

Lemma gate_true {A} (x : option A) f : gate x f = true <-> configured x (fun a => f a = true).
Proof.
  unfold gate, configured. destruct x as [a|]; split; intro H.
  - intros b E. inversion E; subst. assumption.
  - apply H. reflexivity.
  - intros b E. discriminate.
  - reflexivity.
Qed.

Lemma gate_false {A} (x : option A) f : gate x f = false <-> exists a, x = Some a /\ f a = false.
Proof.
  unfold gate. destruct x as [a|]; split; intro H.
  - exists a. auto.
  - destruct H as (b & E & H). inversion E; subst. assumption.
  - discriminate.
  - destruct H as (b & E & _). discriminate.
Qed.

Definition basic_part q o cfg r : outcome :=
  if gate (c_basic cfg) (fun users => basic_ok q o users r) then Pass else Reject 401 5.

(** normal form of [handle] *)
Lemma handle_eq q o cfg r now jnow :
  handle q o cfg r now jnow =
  if negb (gate (c_headers cfg) (headers_ok o r)) then Reject 400 1 else
  if negb (gate (c_jwt cfg) (fun c => jwt_ok q o c r jnow)) then Reject 401 2 else
  match c_sig cfg with
  | Some c => match s_keys c with
              | [] => Panic
              | _ => if sig_ok q o c r now then basic_part q o cfg r else Reject 401 3
              end
  | None => basic_part q o cfg r
  end.
Proof.
  unfold handle, basic_part, gate.
  destruct (c_headers cfg) as [rules|]; [destruct (headers_ok o r rules)|]; cbn [negb]; try reflexivity;
  (destruct (c_jwt cfg) as [jc|]; [destruct (jwt_ok q o jc r jnow)|]; cbn [negb]; try reflexivity);
  (destruct (c_sig cfg) as [sc|];
   [unfold sig_ok, sig_stage_of; destruct (s_keys sc); [reflexivity|];
    destruct (init_from_request o (s_lit sc) r); [|reflexivity];
    destruct (negb (time_ok sc s now)); [reflexivity|];
    destruct (alookup (p_keyid s) (p :: l)); [|reflexivity];
    destruct (String.eqb _ _); [|reflexivity]|]);
  (destruct (c_basic cfg) as [users|]; [destruct (basic_ok q o users r)|]; reflexivity).
Qed.

Theorem handle_pass_iff q o cfg r now jnow :
  configured (c_sig cfg) (fun c => s_keys c <> []) ->
  (handle q o cfg r now jnow = Pass <->
   configured (c_headers cfg) (fun rules => headers_ok o r rules = true) /\
   configured (c_jwt cfg) (fun c => jwt_ok q o c r jnow = true) /\
   configured (c_sig cfg) (fun c => sig_ok q o c r now = true) /\
   configured (c_basic cfg) (fun users => basic_ok q o users r = true)).
Proof.
  intro K. rewrite handle_eq. rewrite <- !gate_true. unfold basic_part.
  destruct (gate (c_headers cfg) (headers_ok o r)); cbn [negb];
    [|split; [discriminate|intros (X & _); discriminate]].
  destruct (gate (c_jwt cfg) _); cbn [negb];
    [|split; [discriminate|intros (_ & X & _); discriminate]].
  destruct (c_sig cfg) as [sc|]; cbn [gate].
  - specialize (K sc eq_refl). destruct (s_keys sc) eqn:KS; [congruence|].
    destruct (sig_ok q o sc r now); [|split; [discriminate|intros (_ & _ & X & _); discriminate]].
    destruct (gate (c_basic cfg) _); split; try discriminate; auto. intros (_ & _ & _ & X); discriminate.
  - destruct (gate (c_basic cfg) _); split; try discriminate; auto. intros (_ & _ & _ & X); discriminate.
Qed.

Theorem handle_reject_shape q o cfg r now jnow st b :
  handle q o cfg r now jnow = Reject st b ->
  (st = 400%Z /\ b = 1%N /\ exists rules, c_headers cfg = Some rules /\ headers_ok o r rules = false) \/
  (st = 401%Z /\ b = 2%N /\ exists c, c_jwt cfg = Some c /\ jwt_ok q o c r jnow = false) \/
  (st = 401%Z /\ b = 3%N /\ exists c, c_sig cfg = Some c /\ sig_ok q o c r now = false) \/
  (st = 401%Z /\ b = 5%N /\ exists u, c_basic cfg = Some u /\ basic_ok q o u r = false).
Proof.
  rewrite handle_eq. unfold basic_part.
  destruct (gate (c_headers cfg) (headers_ok o r)) eqn:G1; cbn [negb].
  2:{ intro H; inversion H; subst. left. apply gate_false in G1. auto. }
  destruct (gate (c_jwt cfg) _) eqn:G2; cbn [negb].
  2:{ intro H; inversion H; subst. right; left. apply gate_false in G2. auto. }
  assert (B : (if gate (c_basic cfg) (fun users => basic_ok q o users r) then Pass else Reject 401 5) = Reject st b ->
              st = 401%Z /\ b = 5%N /\ exists u, c_basic cfg = Some u /\ basic_ok q o u r = false).
  { destruct (gate (c_basic cfg) _) eqn:G4; [discriminate|]. intro H; inversion H; subst.
    apply gate_false in G4. auto. }
  destruct (c_sig cfg) as [sc|]; [|intro H; right; right; right; auto].
  destruct (s_keys sc); [discriminate|].
  destruct (sig_ok q o sc r now) eqn:G3; [intro H; right; right; right; auto|].
  intro H; inversion H; subst. right; right; left. repeat split. exists sc. auto.
Qed.

Theorem handle_never_miss q o cfg r now jnow : handle q o cfg r now jnow <> OracleMiss.
Proof.
  rewrite handle_eq. unfold basic_part.
  repeat (match goal with |- context [match ?x with _ => _ end] => destruct x end; try discriminate).
Qed.

Theorem handle_panic q o cfg r now jnow :
  handle q o cfg r now jnow = Panic -> exists c, c_sig cfg = Some c /\ s_keys c = [].
Proof.
  rewrite handle_eq. unfold basic_part.
  destruct (negb _); [discriminate|]. destruct (negb _); [discriminate|].
  destruct (c_sig cfg) as [sc|].
  - destruct (s_keys sc) eqn:K; [intros _; exists sc; auto|].
    destruct (sig_ok _ _ _ _ _); [|discriminate]. destruct (gate _ _); discriminate.
  - destruct (gate _ _); discriminate.
Qed.

(** * signature: soundness and completeness as separate statements *)
Lemma sig_sound q o c r now :
  sig_ok q o c r now = true ->
  exists p secret,
    init_from_request o (s_lit c) r = Some p /\ time_ok c p now = true /\
    alookup (p_keyid p) (s_keys c) = Some secret /\
    p_tag p = expected_tag o (s_lit c) p secret (covered_of q o c p r).
Proof.
  intro H. destruct (s_keys c) eqn:K.
  - unfold sig_ok, sig_stage_of in H. rewrite K in H. discriminate.
  - rewrite <- K. apply sig_ok_iff; [rewrite K; discriminate|assumption].
Qed.

Lemma sig_complete o c r now p secret :
  init_from_request o (s_lit c) r = Some p -> time_ok c p now = true ->
  alookup (p_keyid p) (s_keys c) = Some secret ->
  p_tag p = expected_tag o (s_lit c) p secret (covered_of ideal o c p r) ->
  sig_ok ideal o c r now = true.
Proof.
  intros I T A E.
  assert (NE : s_keys c <> []) by (intro K; rewrite K in A; discriminate).
  apply (proj2 (sig_ok_iff ideal o c r now NE)). exists p, secret. auto.
Qed.

Lemma reject_is_invalid_4xx q o cfg r now jnow :
  handle q o cfg r now jnow <> OracleMiss /\
  (handle q o cfg r now jnow = Panic -> exists c, c_sig cfg = Some c /\ s_keys c = []) /\
  forall st b, handle q o cfg r now jnow = Reject st b ->
    (st = 400%Z /\ b = 1%N /\ exists rules, c_headers cfg = Some rules /\ headers_ok o r rules = false) \/
    (st = 401%Z /\ b = 2%N /\ exists c, c_jwt cfg = Some c /\ jwt_ok q o c r jnow = false) \/
    (st = 401%Z /\ b = 3%N /\ exists c, c_sig cfg = Some c /\ sig_ok q o c r now = false) \/
    (st = 401%Z /\ b = 5%N /\ exists u, c_basic cfg = Some u /\ basic_ok q o u r = false).
Proof.
  split; [apply handle_never_miss|]. split; [apply handle_panic|]. intros st b. apply handle_reject_shape.
Qed.

(** * the SignedHeaders list of a header-mode request is newline free (it is part of a header value) *)
Lemma mget_nonl k m : (forall k, Forall nonl (mget_all k m)) -> nonl (mget k m).
Proof.
  intro H. unfold mget. specialize (H k). destruct (mget_all k m); [reflexivity|]. inversion H; assumption.
Qed.

Lemma header_mode_signed_nonl o l r p :
  req_wf r -> init_from_header o l r = Some p -> nonl (p_signed p).
Proof.
  intros W. unfold init_from_header.
  pose proof (mget_nonl "Authorization" _ (rw_headers r W)) as HA.
  destruct (index_byte " "%char _) as [idx|]; [|discriminate].
  destruct (negb (String.eqb _ _)); [discriminate|].
  pose proof (split_on_keeps_nochar "010"%char ","%char _ (nochar_sdrop _ (S idx) _ HA)) as F.
  destruct (split_on ","%char _) as [|a [|b [|c [|? ?]]]]; try discriminate.
  inversion F as [|? ? _ F1]; subst. inversion F1 as [|? ? Hb _]; subst.
  destruct (negb (String.prefix "Credential=" _)); [discriminate|].
  destruct (Nat.ltb _ _); [discriminate|].
  destruct (negb (String.prefix "SignedHeaders=" _)); [discriminate|].
  destruct (negb (String.prefix "Signature=" _)); [discriminate|].
  destruct (negb (String.prefix _ _)); [discriminate|].
  destruct (o_ptime o _); [|discriminate].
  intro E; injection E as <-.
  change (nochar "010"%char (sdrop 14 (trim_space b))).
  apply nochar_sdrop. unfold trim_space. apply nochar_strip_both. assumption.
Qed.

Lemma signed_nonl o l r p :
  req_wf r -> init_from_request o l r = Some p -> (p_presign p = true -> nonl (p_signed p)) -> nonl (p_signed p).
Proof.
  intros W I H. unfold init_from_request in I.
  destruct (negb (String.eqb _ _)).
  - eapply header_mode_signed_nonl; eassumption.
  - apply H. unfold init_from_query in I.
    destruct (negb (String.eqb _ _)); [discriminate|].
    destruct (Nat.ltb _ _); [discriminate|].
    destruct (negb (String.prefix _ _)); [discriminate|].
    destruct (o_ptime o _); [|discriminate]. destruct (o_puint o _); [|discriminate].
    injection I as <-; reflexivity.
Qed.

(** [sig_same_tag_same_covered] with the side condition only where it is not automatic (presigned URLs) *)
Theorem sig_mutation_rejected o c r1 r2 now1 now2 p1 p2 :
  oracle_ideal o -> s_keys c <> [] -> req_wf r1 -> req_wf r2 ->
  init_from_request o (s_lit c) r1 = Some p1 -> init_from_request o (s_lit c) r2 = Some p2 ->
  (p_presign p1 = true -> nonl (p_signed p1)) -> (p_presign p2 = true -> nonl (p_signed p2)) ->
  sig_ok ideal o c r1 now1 = true -> sig_ok ideal o c r2 now2 = true ->
  p_tag p1 = p_tag p2 ->
  covered_of ideal o c p1 r1 = covered_of ideal o c p2 r2.
Proof.
  intros O NE W1 W2 I1 I2 S1 S2 A1 A2 T.
  apply (sig_same_tag_same_covered o c r1 r2 now1 now2 p1 p2); try assumption.
  - exact (signed_nonl o (s_lit c) r1 p1 W1 I1 S1).
  - exact (signed_nonl o (s_lit c) r2 p2 W2 I2 S2).
Qed.

(** * users kept in etcd: a request is judged against the LATEST delivered user set *)
Lemma etcd_run_app q o alive init pre r post :
  etcd_run q o alive init (pre ++ EReq r :: post)%list =
  (etcd_run q o alive init pre ++
   handle q o (basic_cfg (current_users alive init pre)) r 0 0 ::
   etcd_run q o alive (current_users alive init pre) post)%list.
Proof.
  revert init; induction pre as [|op pre IH]; intro init; [reflexivity|].
  destruct op as [l|r'|]; cbn [app etcd_run current_users fold_left].
  - apply IH.
  - rewrite IH. reflexivity.
  - apply IH.
Qed.

Lemma current_users_last init pre l : current_users true init (pre ++ [EUpdate l])%list = users_of l.
Proof. unfold current_users. rewrite fold_left_app. reflexivity. Qed.

Lemma users_of_nil : users_of [] = [].
Proof. reflexivity. Qed.

Theorem basic_latest_users q o alive init pre r post :
  etcd_run q o alive init (pre ++ EReq r :: post)%list =
  (etcd_run q o alive init pre ++
   handle q o (basic_cfg (current_users alive init pre)) r 0 0 ::
   etcd_run q o alive (current_users alive init pre) post)%list /\
  (forall l, current_users true init (pre ++ [EUpdate l])%list = users_of l) /\
  (forall u, basic_ok q o [] u = false).
Proof.
  split; [apply etcd_run_app|]. split; [intro l; apply current_users_last|].
  intro u. unfold basic_ok. destruct (String.prefix _ _); [|reflexivity].
  destruct (o_b64std o _); [|reflexivity]. destruct (parse_credentials q s) as [[a b]|]; reflexivity.
Qed.

(** * which body hash enters the canonical request during verification: a function of the
      buffered payload (or the excludeBody marker) only - never of any header of the request *)
Lemma body_hash_of_payload q o c r r' :
  r_payload r = r_payload r' -> body_hash q o c r = body_hash q o c r'.
Proof. intro E. unfold body_hash, body_seen. rewrite E. reflexivity. Qed.

Lemma body_hash_ideal o c r :
  body_hash ideal o c r = if s_exclude_body c then "UNSIGNED-PAYLOAD" else o_sha o (r_payload r).
Proof. reflexivity. Qed.

(** * several instances: the verdict of a step is a function of that step alone; an admitted step's
      token carries the MAC under the secret and algorithm of the instance that admitted it *)
Lemma multi_run_app q o pre s post :
  multi_run q o (pre ++ s :: post)%list = (multi_run q o pre ++ step_outcome q o s :: multi_run q o post)%list.
Proof. unfold multi_run. rewrite map_app. reflexivity. Qed.

Theorem instances_independent o pre s post c :
  configured (c_sig (vs_cfg s)) (fun sc => s_keys sc <> []) ->
  multi_run ideal o (pre ++ s :: post)%list = (multi_run ideal o pre ++ step_outcome ideal o s :: multi_run ideal o post)%list /\
  (step_outcome ideal o s = Pass -> c_jwt (vs_cfg s) = Some c ->
   exists tok h cl sg,
     jwt_token c (vs_req s) = Some tok /\ split_on "."%char tok = [h; cl; sg] /\
     o_jhdr o h = Some (j_alg c) /\ sg = o_jmac o (j_alg c) (j_secret c) (h ++ "." ++ cl)).
Proof.
  intro K. split; [apply multi_run_app|].
  intros P J. unfold step_outcome in P. apply (handle_pass_iff ideal o _ _ _ _ K) in P as (_ & PJ & _).
  specialize (PJ c J). apply jwt_ok_iff in PJ as (tok & T & OK).
  apply jwt_token_ok_iff in OK as (h & cl & sg & e & i & n & S & H & _ & _ & _ & M).
  exists tok, h, cl, sg. auto.
Qed.
