(** C08: the burst shortcut of the "burst" group equals the unrolled fold. *)
From EG.lib Require Import Base.
From EG.model Require Import CB CBCheck.
From EG.proofs Require Import CBProofsWin.
From Coq Require Import ZifyBool.
Open Scope Z_scope.

Lemma list_set_twice {A} i (x y : A) l : list_set i x (list_set i y l) = list_set i x l.
Proof. revert i; induction l as [|h t IH]; intros [|i]; simpl; auto. now rewrite IH. Qed.

Lemma tw_add_add i a b w : (i < List.length (tw_bkt w))%nat ->
  tw_add i a (tw_add i b w) = tw_add i (b + a) w.
Proof.
  intro Hi. unfold tw_add. cbn [tw_bkt tw_total tw_slow tw_fail tw_begin tw_first].
  rewrite nth_list_set_eq by exact Hi. rewrite list_set_twice.
  cbn [tb_total tb_slow tb_fail]. f_equal; [lia|]. f_equal. f_equal. lia.
Qed.

Definition rec1 (pol : policy) (now id : Z) (c : cb) : cb := snd (cb_record pol now id RSucc c).

Lemma guard_step pol now id c w i :
  burst_guard pol now id c = Some (w, i) ->
  cb_record pol now id RSucc c = (false, set_win c (WT (tw_add i 1 w))) /\
  (i < List.length (tw_bkt w))%nat /\
  forall a, 0 <= a -> burst_guard pol now id (set_win c (WT (tw_add i a w))) = Some (tw_add i a w, i).
Proof.
  unfold burst_guard. destruct (c_state c) eqn:Es; try discriminate.
  destruct (c_win c) as [cw | w0] eqn:Ew; try discriminate.
  set (len := Z.of_nat (List.length (tw_bkt w0))). set (secs := (now - tw_begin w0) ÷ second).
  destruct (Z.eqb_spec id (c_id c)) as [Ei|]; [|discriminate].
  destruct (Z.eqb_spec (tw_fail w0) 0) as [Ef|]; [|discriminate].
  destruct (Z.eqb_spec (tw_slow w0) 0) as [Esl|]; [|discriminate].
  destruct (Z.ltb_spec 0 (tw_total w0)) as [Et|]; [|discriminate].
  destruct (Z.leb_spec 0 secs) as [S0|]; [|discriminate].
  destruct (Z.ltb_spec secs len) as [S1|]; [|discriminate].
  destruct (Z.leb_spec 1 (p_fthr pol)) as [F1|]; [|discriminate].
  destruct (Z.leb_spec 1 (p_sthr pol)) as [F2|]; [|discriminate].
  destruct (Z.ltb_spec 0 (p_slowdur pol)) as [F3|]; [|discriminate].
  cbn [andb]. intro E. injection E as <- <-.
  set (i := Z.to_nat (Z.rem (Z.of_nat (tw_first w0) + secs) len)).
  assert (R : 0 <= Z.rem (Z.of_nat (tw_first w0) + secs) len < len).
  { split; [apply Z.rem_nonneg; lia|]. apply Z.rem_bound_pos; lia. }
  assert (Hi : (i < List.length (tw_bkt w0))%nat) by (unfold i, len in *; lia).
  split; [|split; [exact Hi|]].
  - unfold cb_record. rewrite Ei, Z.eqb_refl, Ew. cbn [negb win_push].
    unfold tw_push, tw_evict. fold len secs.
    destruct (Z.ltb_spec secs len); [|lia].
    fold len secs. destruct (Z.eqb_spec len 0); [lia|].
    destruct (Z.ltb_spec (Z.rem (Z.of_nat (tw_first w0) + secs) len) 0); [lia|].
    fold i. cbn [option_map is_slow is_fail].
    assert (T : tw_add i 1 w0 =
      {| tw_total := tw_total w0 + 1; tw_slow := tw_slow w0 + 0; tw_fail := tw_fail w0 + 0;
         tw_begin := tw_begin w0; tw_first := tw_first w0;
         tw_bkt := list_set i {| tb_total := tb_total (nth i (tw_bkt w0) tb0) + 1;
                                 tb_slow := tb_slow (nth i (tw_bkt w0) tb0) + 0;
                                 tb_fail := tb_fail (nth i (tw_bkt w0) tb0) + 0 |} (tw_bkt w0) |}).
    { unfold tw_add. rewrite !Z.add_0_r. reflexivity. }
    rewrite <- T. cbn [win_total win_fail win_slow set_win c_win c_state].
    change (tw_total (tw_add i 1 w0)) with (tw_total w0 + 1).
    change (tw_fail (tw_add i 1 w0)) with (tw_fail w0).
    change (tw_slow (tw_add i 1 w0)) with (tw_slow w0).
    rewrite Es, Ef, Esl. cbn [min_calls].
    assert (Rt : rate 0 (tw_total w0 + 1) = Some 0).
    { unfold rate. destruct (Z.eqb_spec (tw_total w0 + 1) 0); [lia|]. reflexivity. }
    rewrite Rt.
    destruct (tw_total w0 + 1 <? p_min pol); [reflexivity|].
    destruct (Z.leb_spec (p_fthr pol) 0); [lia|]. destruct (Z.leb_spec (p_sthr pol) 0); [lia|].
    reflexivity.
  - intros a Ha. cbn [set_win c_state c_win c_id]. rewrite Es.
    unfold tw_add at 1 2 3 4 5 6. cbn [tw_bkt tw_begin tw_fail tw_slow tw_total tw_first].
    rewrite list_set_length. fold len secs.
    rewrite Ei, Z.eqb_refl, Ef, Esl. cbn [Z.eqb andb].
    destruct (Z.ltb_spec 0 (tw_total w0 + a)); [|lia].
    destruct (Z.leb_spec 0 secs); [|lia]. destruct (Z.ltb_spec secs len); [|lia].
    destruct (Z.leb_spec 1 (p_fthr pol)); [|lia]. destruct (Z.leb_spec 1 (p_sthr pol)); [|lia].
    destruct (Z.ltb_spec 0 (p_slowdur pol)); [|lia]. cbn [andb].
    change (tw_first (tw_add i a w0)) with (tw_first w0). change (tw_begin (tw_add i a w0)) with (tw_begin w0).
    replace (List.length (tw_bkt (tw_add i a w0))) with (List.length (tw_bkt w0)) by (unfold tw_add; cbn [tw_bkt]; now rewrite list_set_length).
    reflexivity.
Qed.

(** the shortcut used by [cb_bstep]: k+1 further successes = one [tw_add] of k+1 *)
Theorem burst_fold pol now id : forall (k : nat) c w i,
  burst_guard pol now id c = Some (w, i) ->
  Nat.iter (S k) (rec1 pol now id) c = set_win c (WT (tw_add i (Z.of_nat (S k)) w)).
Proof.
  induction k as [|k IH]; intros c w i G.
  - unfold Nat.iter; cbn [nat_rect]. unfold rec1. destruct (guard_step _ _ _ _ _ _ G) as [E _]. now rewrite E.
  - change (Nat.iter (S (S k)) (rec1 pol now id) c) with (rec1 pol now id (Nat.iter (S k) (rec1 pol now id) c)).
    rewrite (IH c w i G).
    destruct (guard_step _ _ _ _ _ _ G) as (_ & Hi & G').
    specialize (G' (Z.of_nat (S k)) ltac:(lia)).
    unfold rec1. destruct (guard_step _ _ _ _ _ _ G') as [E _]. rewrite E. cbn [snd].
    rewrite tw_add_add by exact Hi. unfold set_win. cbn [c_state c_id c_transit c_trials].
    f_equal. f_equal. f_equal. lia.
Qed.
