(** C17 proofs, part 3: the MQTT broker cap, documented resize behaviours (closed witnesses),
    refutations for the pinned defect sites, non-vacuity. *)
From EG.lib Require Import Base.
From EG.model Require Import Sem.
From EG.proofs Require Import SemProofs SemProofs2.
From Coq Require Import ZifyBool.
Open Scope Z_scope.

(** ** association lists *)

Notation keys l := (map fst l).

Lemma In_keys_aremove {A} k k' (l : list (string * A)) :
  In k' (keys (aremove k l)) <-> In k' (keys l) /\ k' <> k.
Proof.
  induction l as [|[a v] l IH]; [cbn; tauto|].
  cbn [aremove]. destruct (String.eqb k a) eqn:E.
  - apply String.eqb_eq in E. subst a. rewrite IH. cbn [map fst In].
    split; [tauto|]. intros [[->|H] N]; [congruence|tauto].
  - apply String.eqb_neq in E. cbn [map fst In]. rewrite IH. split.
    + intros [->|[H N]]; [split; [now left | congruence] | tauto].
    + tauto.
Qed.

Lemma NoDup_keys_aremove {A} k (l : list (string * A)) : NoDup (keys l) -> NoDup (keys (aremove k l)).
Proof.
  induction l as [|[a v] l IH]; cbn [aremove map]; auto. intros H. inversion H as [|? ? Hn Hd]; subst.
  destruct (String.eqb k a); [apply IH; auto|]. cbn [map fst]. constructor.
  - rewrite In_keys_aremove. cbn [fst] in Hn. tauto.
  - apply IH; auto.
Qed.

Lemma alookup_None {A} k (l : list (string * A)) : alookup k l = None <-> ~ In k (keys l).
Proof.
  induction l as [|[a v] l IH]; cbn [alookup map In fst]; [tauto|].
  destruct (String.eqb k a) eqn:E.
  - apply String.eqb_eq in E. subst. split; [discriminate | tauto].
  - apply String.eqb_neq in E. rewrite IH. split; [intros H [F|F]; [congruence|tauto] | tauto].
Qed.

Lemma aremove_notin {A} k (l : list (string * A)) : ~ In k (keys l) -> aremove k l = l.
Proof.
  induction l as [|[a v] l IH]; cbn [aremove map In fst]; auto. intros H.
  destruct (String.eqb k a) eqn:E.
  - apply String.eqb_eq in E. subst. tauto.
  - f_equal. apply IH. tauto.
Qed.

Lemma length_aremove_le {A} k (l : list (string * A)) : (List.length (aremove k l) <= List.length l)%nat.
Proof.
  induction l as [|[a v] l IH]; cbn [aremove List.length]; auto.
  destruct (String.eqb k a); cbn [List.length]; lia.
Qed.

Lemma length_aremove_in {A} k (l : list (string * A)) :
  NoDup (keys l) -> In k (keys l) -> S (List.length (aremove k l)) = List.length l.
Proof.
  induction l as [|[a v] l IH]; cbn [aremove map In fst List.length]; [tauto|].
  intros Hnd Hin. inversion Hnd as [|? ? Hn Hd]; subst.
  destruct (String.eqb k a) eqn:E.
  - apply String.eqb_eq in E. subst. now rewrite aremove_notin.
  - apply String.eqb_neq in E. cbn [List.length]. f_equal. apply IH; auto. destruct Hin; [congruence|auto].
Qed.

Lemma alookup_In {A} k v (l : list (string * A)) : NoDup (keys l) -> In (k, v) l -> alookup k l = Some v.
Proof.
  induction l as [|[a w] l IH]; cbn [alookup map In fst]; [tauto|].
  intros Hnd [H|H]; inversion Hnd as [|? ? Hn Hd]; subst.
  - inversion H; subst. now rewrite String.eqb_refl.
  - destruct (String.eqb k a) eqn:E; [|auto].
    apply String.eqb_eq in E. subst a. exfalso. apply Hn. exact (in_map fst _ _ H).
Qed.

Lemma alookup_Some_In {A} k v (l : list (string * A)) : alookup k l = Some v -> In (k, v) l.
Proof.
  induction l as [|[a w] l IH]; cbn [alookup In]; [discriminate|].
  destruct (String.eqb k a) eqn:E.
  - apply String.eqb_eq in E. intros H. inversion H; subst. now left.
  - intros H. right. auto.
Qed.

Lemma In_aremove {A} k (e : string * A) l : In e (aremove k l) -> In e l /\ fst e <> k.
Proof.
  induction l as [|[a w] l IH]; cbn [aremove In]; [tauto|].
  destruct (String.eqb k a) eqn:E.
  - intros H. apply IH in H. tauto.
  - apply String.eqb_neq in E. intros [H|H]; [subst; cbn; split; auto | apply IH in H; tauto].
Qed.

(** ** the cap of Broker.clients: any quirks, any label sequence *)

Record MInv (s : mstate) : Prop := {
  m_nodup : NoDup (keys (clients s));
  m_cap : 0 < mcap s -> clen s <= mcap s
}.

Lemma mcap_step q s l : mcap (fst (mstep q s l)) = mcap s.
Proof.
  destruct l as [k | k cid wfail | k | cid | cid | i]; cbn [mstep].
  - destruct (mem_N k (checked s) || _); [reflexivity|]. destruct (at_cap s); reflexivity.
  - destruct (negb (mem_N k (checked s))); [reflexivity|].
    destruct (negb _ && at_cap s); [reflexivity|]. destruct wfail; [|reflexivity].
    destruct (q_mqtt_connack_fail_leaks q); reflexivity.
  - destruct (live_cid k (live s)); reflexivity.
  - reflexivity.
  - reflexivity.
  - destruct (nth_error (dels s) i) as [[c o]|]; reflexivity.
Qed.

Lemma at_cap_false s : at_cap s = false -> 0 < mcap s -> clen s < mcap s.
Proof. unfold at_cap. lia. Qed.

Lemma minv_step q s l : MInv s -> MInv (fst (mstep q s l)).
Proof.
  intros [Hnd Hcap]. destruct l as [k | k cid wfail | k | cid | cid | i]; cbn [mstep]; unfold mset.
  - destruct (mem_N k (checked s) || _); [constructor; auto|]. destruct (at_cap s); constructor; auto.
  - destruct (negb (mem_N k (checked s))); [constructor; auto|].
    destruct (alookup cid (clients s)) as [k0|] eqn:L.
    + (* takeover: the entry is replaced *)
      cbn [negb andb].
      assert (Hin : In cid (keys (clients s))).
      { destruct (in_dec string_dec cid (keys (clients s))); auto. apply alookup_None in n. congruence. }
      pose proof (length_aremove_in _ _ Hnd Hin) as HL.
      assert (ND : NoDup (keys ((cid, k) :: aremove cid (clients s)))).
      { cbn [map fst]. constructor; [|now apply NoDup_keys_aremove].
        rewrite In_keys_aremove. tauto. }
      destruct wfail; [destruct (q_mqtt_connack_fail_leaks q)|]; cbn [fst clients mcap];
        constructor; unfold clen in *; cbn [clients mcap List.length aremove]; auto;
        rewrite ?String.eqb_refl; try (intros; specialize (Hcap ltac:(assumption)); lia).
      * apply NoDup_keys_aremove. now apply NoDup_keys_aremove.
      * intros Hc. specialize (Hcap Hc).
        pose proof (length_aremove_le cid (aremove cid (clients s))). lia.
    + cbn [negb andb]. destruct (at_cap s) eqn:AC; [constructor; auto|].
      pose proof (proj1 (alookup_None _ _) L) as Hnin. rewrite (aremove_notin _ _ Hnin).
      assert (ND : NoDup (keys ((cid, k) :: clients s))) by (cbn [map fst]; constructor; auto).
      destruct wfail; [destruct (q_mqtt_connack_fail_leaks q)|]; cbn [fst clients mcap];
        constructor; unfold clen in *; cbn [clients mcap List.length aremove]; auto;
        rewrite ?String.eqb_refl; try (intros Hc; pose proof (at_cap_false _ AC Hc); unfold clen in *; lia).
      * now apply NoDup_keys_aremove.
      * intros Hc. specialize (Hcap Hc). pose proof (length_aremove_le cid (clients s)). lia.
  - destruct (live_cid k (live s)) as [cid|]; [|constructor; auto]. cbn [fst clients mcap].
    unfold remove_own. destruct (alookup cid (clients s)) as [k'|]; [|constructor; auto].
    destruct (N.eqb k k'); [|constructor; auto].
    constructor; unfold clen in *; cbn [clients mcap]; [now apply NoDup_keys_aremove|].
    intros Hc. specialize (Hcap Hc). pose proof (length_aremove_le cid (clients s)). lia.
  - cbn [fst]. constructor; unfold clen in *; cbn [clients mcap]; [now apply NoDup_keys_aremove|].
    intros Hc. specialize (Hcap Hc). pose proof (length_aremove_le cid (clients s)). lia.
  - cbn [fst]. constructor; auto.
  - destruct (nth_error (dels s) i) as [[c o]|]; [|constructor; auto]. cbn [fst].
    destruct (optN_eqb (alookup c (clients s)) o); [|constructor; auto].
    constructor; unfold clen in *; cbn [clients mcap]; [now apply NoDup_keys_aremove|].
    intros Hc. specialize (Hcap Hc). pose proof (length_aremove_le c (clients s)). lia.
Qed.

Lemma minv_init cap : MInv (minit cap).
Proof. constructor; unfold clen; cbn; [constructor | lia]. Qed.

Lemma minv_run q : forall ls s, MInv s -> MInv (mrun q s ls).
Proof. induction ls as [|l ls IH]; intros s I; cbn [mrun]; auto. apply IH. now apply minv_step. Qed.

Lemma mcap_run q : forall ls s, mcap (mrun q s ls) = mcap s.
Proof. induction ls as [|l ls IH]; intros s; cbn [mrun]; auto. rewrite IH. apply mcap_step. Qed.

Theorem mqtt_cap q cap ls : 0 < cap -> clen (mrun q (minit cap) ls) <= cap.
Proof.
  intros Hc. pose proof (minv_run q ls _ (minv_init cap)) as [_ H].
  rewrite mcap_run in H. cbn [minit mcap] in H. auto.
Qed.

(** a takeover (the id is registered) succeeds whatever the count - in particular AT the cap -
    and leaves the count unchanged *)
Lemma takeover_at_cap q s k cid k0 :
  MInv s -> mem_N k (checked s) = true -> alookup cid (clients s) = Some k0 ->
  snd (mstep q s (MCommit k cid false)) = MAccepted /\
  clen (fst (mstep q s (MCommit k cid false))) = clen s /\
  alookup cid (clients (fst (mstep q s (MCommit k cid false)))) = Some k.
Proof.
  intros [Hnd _] Hk L. cbn [mstep]. rewrite Hk, L. unfold mset. cbn [negb andb fst snd clients].
  assert (Hin : In cid (keys (clients s))).
  { destruct (in_dec string_dec cid (keys (clients s))); auto. apply alookup_None in n. congruence. }
  pose proof (length_aremove_in _ _ Hnd Hin) as HL.
  unfold clen. cbn [clients List.length alookup]. rewrite String.eqb_refl. repeat split; lia.
Qed.

(** a new client id beyond the cap is refused with server-unavailable, nothing is registered *)
Lemma refused_beyond_cap q s k cid wfail :
  mem_N k (checked s) = true -> alookup cid (clients s) = None -> at_cap s = true ->
  snd (mstep q s (MCommit k cid wfail)) = MRefused /\
  clients (fst (mstep q s (MCommit k cid wfail))) = clients s.
Proof. intros Hk L AC. cbn [mstep]. rewrite Hk, L, AC. unfold mset. cbn. auto. Qed.

Lemma refused_early_at_cap q s k :
  mem_N k (checked s) = false -> live_cid k (live s) = None -> at_cap s = true ->
  mstep q s (MCheck k) = (s, MRefused).
Proof. intros H1 H2 AC. cbn [mstep]. rewrite H1, H2, AC. reflexivity. Qed.

(** below the cap a new client id is admitted *)
Lemma admitted_below_cap q s k cid :
  mem_N k (checked s) = true -> at_cap s = false ->
  snd (mstep q s (MCommit k cid false)) = MAccepted.
Proof.
  intros Hk AC. cbn [mstep]. rewrite Hk, AC. cbn [negb]. rewrite andb_false_r. reflexivity.
Qed.

(** ** released capacity (ideal): every registered client is a live connection *)

Lemma live_cid_remove_other k k' l : k' <> k -> live_cid k' (live_remove k l) = live_cid k' l.
Proof.
  intros Hne. induction l as [|[a c] l IH]; cbn [live_remove filter live_cid fst]; auto.
  destruct (N.eqb k a) eqn:E; cbn [negb].
  - apply N.eqb_eq in E. subst a. fold (live_remove k l). rewrite IH.
    destruct (N.eqb k' k) eqn:F; auto. apply N.eqb_eq in F. congruence.
  - cbn [live_cid]. fold (live_remove k l). rewrite IH. reflexivity.
Qed.

Lemma live_cid_remove_none k k' l : live_cid k' l = None -> live_cid k' (live_remove k l) = None.
Proof.
  intros H. induction l as [|[a c] l IH]; cbn [live_remove filter live_cid fst] in *; auto.
  destruct (N.eqb k' a) eqn:F; [discriminate|].
  destruct (N.eqb k a); cbn [negb live_cid]; fold (live_remove k l); [auto|]. rewrite F. auto.
Qed.

Record MLive (s : mstate) : Prop := {
  ml_entries : forall cid k, In (cid, k) (clients s) -> live_cid k (live s) = Some cid;
  ml_checked : forall k, In k (checked s) -> live_cid k (live s) = None
}.

Lemma mlive_step s l : MInv s -> MLive s -> MLive (fst (mstep ideal s l)).
Proof.
  intros [Hnd _] [He Hc]. destruct l as [k | k cid wfail | k | cid | cid | i]; cbn [mstep]; unfold mset.
  - destruct (mem_N k (checked s) || _) eqn:G; [constructor; auto|].
    apply orb_false_iff in G as [G1 G2].
    destruct (at_cap s); [constructor; auto|]. cbn [fst]. constructor; cbn [clients checked live]; auto.
    intros k' [<-|H]; auto. destruct (live_cid k (live s)); [discriminate|reflexivity].
  - destruct (mem_N k (checked s)) eqn:G; cbn [negb]; [|constructor; auto].
    apply mem_N_In in G.
    assert (Hch : forall k', In k' (remove_N k (checked s)) -> live_cid k' (live s) = None /\ k' <> k).
    { intros k' H. apply In_remove_N in H as [H N]. auto. }
    destruct (negb _ && at_cap s).
    + cbn [fst]. constructor; cbn [clients checked live]; auto. intros k' H. now apply Hch.
    + cbn [q_mqtt_connack_fail_leaks ideal]. destruct wfail; cbn [fst].
      * constructor; cbn [clients checked live].
        -- intros c' k' H. cbn [aremove] in H. rewrite String.eqb_refl in H.
           apply In_aremove in H as [H _]. apply In_aremove in H as [H _]. auto.
        -- intros k' H. now apply Hch.
      * constructor; cbn [clients checked live live_cid].
        -- intros c' k' [H|H].
           ++ inversion H; subst. now rewrite N.eqb_refl.
           ++ apply In_aremove in H as [H _]. pose proof (He _ _ H) as HL.
              destruct (N.eqb k' k) eqn:F; auto. apply N.eqb_eq in F. subst k'.
              rewrite (Hc _ G) in HL. discriminate.
        -- intros k' H. apply Hch in H as [H N]. destruct (N.eqb k' k) eqn:F; auto.
           apply N.eqb_eq in F. congruence.
  - destruct (live_cid k (live s)) as [cid|] eqn:L; [|constructor; auto]. cbn [fst].
    constructor; cbn [clients checked live].
    + intros c' k' H.
      assert (Hk' : In (c', k') (clients s) /\ k' <> k).
      { unfold remove_own in H. destruct (alookup cid (clients s)) as [k0|] eqn:A.
        - destruct (N.eqb k k0) eqn:F.
          + apply N.eqb_eq in F. subst k0. apply In_aremove in H as [H N]. cbn [fst] in N. split; auto.
            intros ->. pose proof (He _ _ H) as HL. rewrite L in HL. inversion HL. congruence.
          + split; auto. intros ->. pose proof (He _ _ H) as HL. rewrite L in HL. inversion HL; subst c'.
            rewrite (alookup_In _ _ _ Hnd H) in A. inversion A; subst. rewrite N.eqb_refl in F. discriminate.
        - split; auto. intros ->. pose proof (He _ _ H) as HL. rewrite L in HL. inversion HL; subst c'.
          rewrite (alookup_In _ _ _ Hnd H) in A. discriminate. }
      destruct Hk' as [Hin Hne]. rewrite live_cid_remove_other; auto.
    + intros k' H. apply live_cid_remove_none. auto.
  - cbn [fst]. constructor; cbn [clients checked live]; auto.
    intros c' k' H. apply In_aremove in H as [H _]. auto.
  - cbn [fst]. constructor; cbn [clients checked live]; auto.
  - destruct (nth_error (dels s) i) as [[c o]|]; [|constructor; auto]. cbn [fst].
    constructor; cbn [clients checked live]; auto.
    intros c' k' H. destruct (optN_eqb (alookup c (clients s)) o); auto.
    apply In_aremove in H as [H _]. auto.
Qed.

Lemma mlive_run : forall ls s, MInv s -> MLive s -> MLive (mrun ideal s ls).
Proof.
  induction ls as [|l ls IH]; intros s I Lv; cbn [mrun]; auto.
  apply IH; [now apply minv_step | now apply mlive_step].
Qed.

Theorem mqtt_entries_live cap ls cid k :
  In (cid, k) (clients (mrun ideal (minit cap) ls)) ->
  live_cid k (live (mrun ideal (minit cap) ls)) = Some cid.
Proof.
  assert (L0 : MLive (minit cap)) by (constructor; cbn; tauto).
  destruct (mlive_run ls _ (minv_init cap) L0) as [H _]. apply H.
Qed.

Corollary mqtt_all_gone_all_free cap ls :
  live (mrun ideal (minit cap) ls) = [] -> clients (mrun ideal (minit cap) ls) = [].
Proof.
  intros H. destruct (clients (mrun ideal (minit cap) ls)) as [|[cid k] t] eqn:E; auto.
  pose proof (mqtt_entries_live cap ls cid k) as F. rewrite E, H in F. specialize (F (or_introl eq_refl)).
  discriminate.
Qed.

(** ** documented resize behaviours (closed witnesses on the ideal model, maxCapacity = 20000000) *)

Definition MC : Z := 20000000.

Fixpoint accept_n (n : nat) (from : N) : list label :=
  match n with O => [] | S n' => LAcquire :: LGot from :: accept_n n' (from + 1)%N end.

(** (a) shrink-then-grow whose goroutines run in the opposite order: capacity 5 fully used,
    SetMaxCount(2); SetMaxCount(4); the grow runs first and two more connections get in:
    7 > every capacity ever configured. (b) the same without any re-ordering when an acceptor
    was already queued before the two calls. In both, [used <= applied_cap] (cap_general) is
    what still holds; the states are not [settled]. *)
Lemma resize_reordering :
  (let s := lrun ideal (linit ideal MC 5)
                 (accept_n 5 0 ++ [LSetMax 2; LSetMax 4; LRun 1; LAcquire; LAcquire; LRun 0]) in
   used s = 7 /\ real s = 4 /\ applied_cap s = 7 /\ settled s = false /\ wq (ws s) = [(WAdj, 3)]) /\
  (let s := lrun ideal (linit ideal MC 5)
                 (accept_n 5 0 ++ [LAcquire; LSetMax 2; LRun 0; LSetMax 4; LRun 0]) in
   used s = 6 /\ real s = 4 /\ applied_cap s = 7 /\ settled s = false /\ wq (ws s) = [(WAdj, 3)]) /\
  (* in order and with nobody queued beforehand the old cap is never exceeded *)
  (let s := lrun ideal (linit ideal MC 5)
                 (accept_n 5 0 ++ [LSetMax 2; LRun 0; LSetMax 4; LRun 0; LAcquire; LAcquire]) in
   used s = 5 /\ real s = 4 /\ wq (ws s) = [(WAdj, 3); (WAcc, 1); (WAcc, 1)]).
Proof. vm_compute. repeat split; reflexivity. Qed.

(** an acceptor queued BEFORE a shrink is served before it: one connection is accepted while
    the open count (1) equals the new capacity (1); the shrink has not been applied yet *)
Lemma queued_acceptor_precedes_shrink :
  let s0 := lrun ideal (linit ideal MC 2) (accept_n 2 0 ++ [LAcquire; LSetMax 1; LRun 0]) in
  let s1 := lstep ideal s0 (LClose 0) in
  wq (ws s0) = [(WAcc, 1); (WAdj, 1)] /\ used s0 = 2 /\ used s1 = 2 /\ real s1 = 1 /\ settled s1 = false.
Proof. vm_compute. repeat split; reflexivity. Qed.

(** ** refutations: each pinned defect site alone breaks a property clause *)

Definition q1 : quirks := {| q_newsem_unclamped := true; q_grow_release_unchecked := false; q_mqtt_connack_fail_leaks := false |}.
Definition q2 : quirks := {| q_newsem_unclamped := false; q_grow_release_unchecked := true; q_mqtt_connack_fail_leaks := false |}.
Definition q3 : quirks := {| q_newsem_unclamped := false; q_grow_release_unchecked := false; q_mqtt_connack_fail_leaks := true |}.

Lemma refuted_newsem_unclamped :
  exists n ls, 0 <= n /\ Forall label_ok ls /\
    panics (lrun q1 (linit q1 MC n) ls) = 1 /\ panics (lrun ideal (linit ideal MC n) ls) = 0.
Proof.
  exists (MC + 1), [LAcquire; LGot 0%N; LClose 0%N]. split; [unfold MC; lia|]. split.
  - repeat constructor.
  - vm_compute. split; reflexivity.
Qed.

Lemma refuted_grow_release_unchecked :
  exists ls, Forall label_ok ls /\
    crashed (lrun q2 (linit q2 MC 5) ls) = true /\ crashed (lrun ideal (linit ideal MC 5) ls) = false.
Proof.
  exists (accept_n 3 0 ++ [LSetMax 1; LRun 0; LSetMax MC; LRun 0]). split.
  - cbn [accept_n app]. repeat (constructor; try (cbn; unfold MC; lia)).
  - vm_compute. split; reflexivity.
Qed.

Lemma refuted_mqtt_connack_fail_leaks :
  exists ls,
    let s := mrun q3 (minit 1) ls in
    live s = [] /\ clients s <> [] /\ snd (mstep q3 s (MCheck 7)) = MRefused /\
    snd (mstep ideal (mrun ideal (minit 1) ls) (MCheck 7)) = MPassed.
Proof.
  exists [MCheck 0%N; MCommit 0%N "a" true]. vm_compute. repeat split; try reflexivity. discriminate.
Qed.

(** ** non-vacuity *)
Example http_nonvacuous :
  let s := lrun ideal (linit ideal MC 3)
                (accept_n 3 0 ++ [LAcquire; LSetMax 1; LRun 0; LClose 1; LClose 1; LClose 0; LClose 2]) in
  reachable s /\ settled s = true /\ used s = 1 /\ real s = 1 /\ opened s = [] /\ held s = 1.
Proof.
  cbv zeta. split.
  - exists MC, 3, (accept_n 3 0 ++ [LAcquire; LSetMax 1; LRun 0; LClose 1; LClose 1; LClose 0; LClose 2])%N.
    repeat split; try (unfold MC; lia). cbn [accept_n app]. repeat (constructor; try (cbn; lia)).
  - vm_compute. repeat split; reflexivity.
Qed.

Example shrink_head_nonvacuous :
  let s := lrun ideal (linit ideal MC 3) (accept_n 3 0 ++ [LSetMax 1; LRun 0]) in
  reachable s /\ only_shrinks (pend s) /\ shrink_at_head s /\ used s = 3 /\ real s = 1.
Proof.
  cbv zeta. split; [|split; [|split]].
  - exists MC, 3, (accept_n 3 0 ++ [LSetMax 1; LRun 0])%N.
    repeat split; try (unfold MC; lia). cbn [accept_n app]. repeat (constructor; try (cbn; lia)).
  - vm_compute. constructor.
  - exists 2, []. vm_compute. reflexivity.
  - vm_compute. split; reflexivity.
Qed.

Example mqtt_nonvacuous :
  let pre := [MCheck 0%N; MCheck 1%N; MCheck 2%N; MCommit 0%N "a" false; MCommit 1%N "b" false] in
  let ls := pre ++ [MCommit 2%N "a" false; MCheck 3%N; MTeardown 0%N; MTeardown 2%N; MCheck 4%N; MCommit 4%N "c" false] in
  let s := mrun ideal (minit 2) ls in
  map fst (clients s) = ["c"; "b"]%string /\ clen s = 2 /\
  (* takeover of "a" at the cap (2 registered) *)
  clen (mrun ideal (minit 2) pre) = 2 /\
  snd (mstep ideal (mrun ideal (minit 2) pre) (MCommit 2%N "a" false)) = MAccepted.
Proof. vm_compute. repeat split; reflexivity. Qed.

(** ** statements in closed form (explicit quantification over all label sequences) *)

Lemma reach_reachable sz n ls : 0 < sz -> 0 <= n -> Forall label_ok ls -> reachable (reach sz n ls).
Proof. intros. exists sz, n, ls. repeat split; auto. Qed.

Theorem T_sem_accounting : forall sz n ls, 0 < sz -> 0 <= n -> Forall label_ok ls ->
  let s := reach sz n ls in
  cur (ws s) = size (ws s) - applied_cap s + used s /\
  applied_cap s <= size (ws s) /\ 0 <= cur (ws s) <= size (ws s).
Proof.
  intros sz n ls H1 H2 H3 s. destruct (accounting _ (reach_reachable _ _ _ H1 H2 H3)) as (A & B & C & _).
  auto.
Qed.

Theorem T_never_panics : forall sz n ls, 0 < sz -> 0 <= n -> Forall label_ok ls ->
  let s := reach sz n ls in crashed s = false /\ panics s = 0 /\ doomed s = 0.
Proof.
  intros sz n ls H1 H2 H3 s. destruct (accounting _ (reach_reachable _ _ _ H1 H2 H3)) as (_ & _ & _ & D).
  exact D.
Qed.

Theorem T_http_cap : forall sz n ls, 0 < sz -> 0 <= n -> Forall label_ok ls ->
  let s := reach sz n ls in
  (* no capacity change outstanding: the cap holds *)
  (settled s = true -> used s <= real s) /\
  (* always: bounded by what the bookkeeping implements *)
  used s <= applied_cap s /\
  (* only shrinks outstanding and one of them heads the queue: over the new cap, and no step lets [used] grow *)
  (only_shrinks (pend s) -> shrink_at_head s ->
     real s < used s /\ forall l, used (lstep ideal s l) <= used s) /\
  (* FIFO: an acquirer arriving while a shrink waits is not served *)
  (0 < count_who WAdj (wq (ws s)) -> used (lstep ideal s LAcquire) = used s) /\
  (* once applied: at or above the cap nothing is accepted *)
  (settled s = true -> real s <= used s -> forall l, used (lstep ideal s l) <= used s) /\
  (* no established connection is dropped *)
  (forall l c, In c (opened s) -> l <> LClose c -> In c (opened (lstep ideal s l))).
Proof.
  intros sz n ls H1 H2 H3 s. pose proof (reach_reachable _ _ _ H1 H2 H3) as R. fold s in R.
  repeat split.
  - now apply cap_settled.
  - now apply cap_general.
  - now apply over_cap_at_shrink_head.
  - intros l. now apply no_growth_at_shrink_head.
  - intros Hq. apply later_acquirer_blocks; auto. exact (i_crash _ (reachable_Inv _ R)).
  - intros S F l. now apply no_accept_at_cap.
  - intros l c. apply no_drop.
Qed.

Theorem T_released_capacity_reusable : forall sz n ls, 0 < sz -> 0 <= n -> Forall label_ok ls ->
  let s := reach sz n ls in
  settled s = true ->
  (wq (ws s) <> [] -> used s = real s) /\
  (forall c t, In c (opened s) -> wq (ws s) = (WAcc, 1) :: t ->
     held (lstep ideal s (LClose c)) = held s + 1 /\ wq (ws (lstep ideal s (LClose c))) = t /\
     used (lstep ideal s (LClose c)) = used s) /\
  (forall c, In c (opened s) -> wq (ws s) = [] ->
     let s1 := lstep ideal s (LClose c) in
     used s1 = used s - 1 /\ held (lstep ideal s1 LAcquire) = held s1 + 1).
Proof.
  intros sz n ls H1 H2 H3 s S. pose proof (reach_reachable _ _ _ H1 H2 H3) as R. fold s in R.
  repeat split.
  - now apply no_waiter_while_free.
  - now apply (close_wakes_waiter s c t).
  - now apply (close_wakes_waiter s c t).
  - now apply (close_wakes_waiter s c t).
  - now apply (close_then_acquire s c).
  - now apply (close_then_acquire s c).
Qed.

Theorem T_close_releases_once :
  (forall q s c, lstep q (lstep q s (LClose c)) (LClose c) = lstep q s (LClose c)) /\
  (forall sz n ls c, 0 < sz -> 0 <= n -> Forall label_ok ls ->
     let s := reach sz n ls in
     (In c (closed s) -> lstep ideal s (LClose c) = s) /\
     (In c (opened s) ->
        exists wk, cur (ws (lstep ideal s (LClose c))) = cur (ws s) - 1 + wsum wk /\
                   wq (ws s) = wk ++ wq (ws (lstep ideal s (LClose c))))).
Proof.
  split; [exact close_idempotent|].
  intros sz n ls c H1 H2 H3 s. pose proof (reach_reachable _ _ _ H1 H2 H3) as R. fold s in R. split.
  - now apply close_of_closed_is_noop.
  - now apply close_releases_one.
Qed.

Theorem T_mqtt_cap :
  (forall q cap ls, 0 < cap -> clen (mrun q (minit cap) ls) <= cap) /\
  (forall q cap ls k cid k0, let s := mrun q (minit cap) ls in
     mem_N k (checked s) = true -> alookup cid (clients s) = Some k0 ->
     snd (mstep q s (MCommit k cid false)) = MAccepted /\
     clen (fst (mstep q s (MCommit k cid false))) = clen s /\
     alookup cid (clients (fst (mstep q s (MCommit k cid false)))) = Some k) /\
  (forall q s k cid wfail, mem_N k (checked s) = true -> alookup cid (clients s) = None -> at_cap s = true ->
     snd (mstep q s (MCommit k cid wfail)) = MRefused /\
     clients (fst (mstep q s (MCommit k cid wfail))) = clients s) /\
  (forall q s k, mem_N k (checked s) = false -> live_cid k (live s) = None -> at_cap s = true ->
     mstep q s (MCheck k) = (s, MRefused)) /\
  (forall q s k cid, mem_N k (checked s) = true -> at_cap s = false ->
     snd (mstep q s (MCommit k cid false)) = MAccepted).
Proof.
  split; [exact mqtt_cap|]. split.
  - intros q cap ls k cid k0 s. apply takeover_at_cap. apply minv_run, minv_init.
  - split; [exact refused_beyond_cap|]. split; [exact refused_early_at_cap | exact admitted_below_cap].
Qed.

Theorem T_mqtt_released_capacity : forall cap ls,
  let s := mrun ideal (minit cap) ls in
  (forall cid k, In (cid, k) (clients s) -> live_cid k (live s) = Some cid) /\
  (live s = [] -> clients s = []).
Proof.
  intros cap ls s. split.
  - intros cid k. apply mqtt_entries_live.
  - apply mqtt_all_gone_all_free.
Qed.
