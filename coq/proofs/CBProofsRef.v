(** C08: the concrete breaker (ring buffers, uint32/uint8 rate arithmetic) refines the
    contract automaton [spec] on every history with a non-decreasing clock. *)
From EG.lib Require Import Base.
From EG.model Require Import CB.
From EG.proofs Require Import CBProofsWin.
From Coq Require Import ZifyBool.
Open Scope Z_scope.

Definition bound : Z := 33554432. (* 2^25 *)

Definition win_rel (k : wkind) (w : window) (log : list (Z * res)) (t : Z) : Prop :=
  match k, w with
  | KCount n, WC c => cw_rel (Z.to_nat n) c (map snd log)
  | KTime n, WT tw => if n <=? 0 then tw_bkt tw = [] else tw_rel (Z.to_nat n) tw log t
  | _, _ => False
  end.

Definition rel (pol : policy) (t : Z) (c : cb) (s : spec) : Prop :=
  c_state c = s_state s /\ c_id c = s_id s /\ c_transit c = s_transit s /\ c_trials c = s_trials s /\
  (s_kind s = pol_kind pol \/ s_kind s = KCount (p_perm pol)) /\
  win_rel (s_kind s) (c_win c) (s_log s) t.

Lemma win_rel_mono k w log t t' : win_rel k w log t -> t <= t' -> win_rel k w log t'.
Proof.
  destruct k as [n | n], w as [c | tw]; cbn [win_rel]; auto.
  destruct (n <=? 0); auto. intros H Hle. eapply tw_rel_mono; eauto.
Qed.

Lemma rel_mono pol t t' c s : rel pol t c s -> t <= t' -> rel pol t' c s.
Proof.
  intros (H1 & H2 & H3 & H4 & H5 & H6) Hle. repeat split; auto. eapply win_rel_mono; eauto.
Qed.

Lemma win_rel_new pol now : win_rel (pol_kind pol) (new_window pol now) [] now.
Proof.
  unfold pol_kind, new_window. destruct (p_time pol); cbn [win_rel].
  - destruct (Z.leb_spec (p_size pol) 0) as [Hle | Hgt].
    + unfold tw_new. cbn [tw_bkt]. replace (Z.to_nat (p_size pol)) with O by lia. reflexivity.
    + apply tw_rel_new; lia.
  - apply cw_rel_new. reflexivity.
Qed.

Lemma rate_ok k t : 0 <= k <= t -> 0 < t < bound -> rate k t = Some (srate k t).
Proof.
  unfold bound. intros Hk Ht. unfold rate, srate, u32, u8.
  destruct (Z.eqb_spec t 0) as [E | _]; [lia|].
  f_equal. rewrite (Z.mod_small (k * 100)) by lia.
  assert (0 <= k * 100 / t <= 100).
  { split; [apply Z.div_pos; lia|]. apply Z.div_le_upper_bound; lia. }
  rewrite Z.mod_small by lia. f_equal. lia.
Qed.

Lemma filter_length_le' {A} (f : A -> bool) l : (List.length (filter f l) <= List.length l)%nat.
Proof. induction l as [|h t IH]; simpl; [lia|]. destruct (f h); simpl; lia. Qed.

Lemma tw_evict_nil now w : tw_bkt w = [] -> tw_bkt (tw_evict now w) = [].
Proof.
  intro H. unfold tw_evict. rewrite H. cbn [List.length].
  destruct ((now - tw_begin w) ÷ second <? Z.of_nat 0); [exact H|].
  replace (Z.to_nat (Z.min _ (Z.of_nat 0))) with O by lia.
  cbn [tw_evict_loop tw_bkt]. reflexivity.
Qed.

Lemma win_push_rel k w log t now r :
  win_rel k w log t -> t <= now ->
  if kind_size k <=? 0 then win_push now r w = None
  else exists w', win_push now r w = Some w' /\
         win_rel k w' ((sec_of now, r) :: log) now /\
         let v := view k (sec_of now) ((sec_of now, r) :: log) in
         win_total w' = Z.of_nat (List.length v) /\ win_slow w' = cnt is_slow v /\
         win_fail w' = cnt is_fail v /\ 1 <= Z.of_nat (List.length v) /\
         match k with
         | KCount n => Z.of_nat (List.length v) <= n
         | KTime _ => Z.of_nat (List.length v) <= Z.of_nat (List.length log) + 1
         end.
Proof.
  destruct k as [n | n], w as [c | tw]; cbn [win_rel kind_size]; try tauto; intros H Hle.
  - (* count based *)
    destruct (Z.leb_spec n 0) as [Hn | Hn].
    + cbn [win_push]. replace (Z.to_nat n) with O in H by lia.
      now rewrite (cw_rel_zero_panics _ _ r H).
    + destruct (Z.to_nat n) as [|m] eqn:Em; [lia|].
      destruct (cw_rel_push _ _ _ r H) as (w' & E & H').
      exists (WC w'). cbn [win_push]. rewrite E. split; [reflexivity|].
      split; [cbn [win_rel]; try rewrite Em; exact H'|].
      cbv zeta. cbn [win_total win_slow win_fail].
      destruct (cw_rel_totals _ _ _ H') as (T1 & T2 & T3).
      assert (V : view (KCount n) (sec_of now) ((sec_of now, r) :: log) = firstn (S m) (r :: map snd log)).
      { cbn [view]. try rewrite Em. rewrite <- firstn_map. reflexivity. }
      rewrite V. repeat split; auto.
      * cbn [firstn List.length]. lia.
      * rewrite firstn_length. cbn [List.length]. lia.
  - (* time based *)
    destruct (Z.leb_spec n 0) as [Hn | Hn].
    + cbn [win_push]. unfold tw_push. rewrite (tw_evict_nil _ _ H). reflexivity.
    + destruct (tw_rel_push _ _ _ _ _ r H Hle) as (w' & E & H' & Hv).
      exists (WT w'). cbn [win_push]. rewrite E. split; [reflexivity|].
      split; [cbn [win_rel]; destruct (Z.leb_spec n 0); [lia | exact H']|].
      rewrite Z2Nat.id in Hv by lia. cbv zeta in Hv |- *. cbn [win_total win_slow win_fail].
      destruct Hv as (T1 & T2 & T3). repeat split; auto.
      * cbn [view filter fst]. destruct (Z.ltb_spec (sec_of now - n) (sec_of now)); [|lia].
        cbn [map List.length]. lia.
      * cbn [view]. rewrite map_length.
        pose proof (filter_length_le' (fun e => sec_of now - n <? fst e) ((sec_of now, r) :: log)) as F.
        cbn [List.length] in F. lia.
Qed.

Lemma transit_rel pol t now target c s :
  rel pol t c s -> t <= now ->
  rel pol now (transit_to pol now target c) (sp_transit pol now target s).
Proof.
  intros H Hle. pose proof (rel_mono _ _ _ _ _ H Hle) as (H1 & H2 & H3 & H4 & H5 & H6).
  unfold transit_to, sp_transit. rewrite H1.
  destruct (st_eqb target (s_state s)); [repeat split; auto|].
  unfold rel. cbn [c_state c_id c_transit c_trials c_win s_state s_id s_transit s_trials s_kind s_log].
  split; [reflexivity|]. split; [lia|]. split; [reflexivity|].
  split; [destruct target; lia|]. split; [destruct target; auto|].
  destruct target; [apply win_rel_new | cbn [win_rel]; apply cw_rel_new; reflexivity | exact H6].
Qed.

Lemma half_acquire_rel pol t now c s :
  rel pol t c s -> t <= now ->
  fst (cb_half_acquire pol now c) = fst (sp_half_acquire pol now s) /\
  rel pol now (snd (cb_half_acquire pol now c)) (snd (sp_half_acquire pol now s)).
Proof.
  intros H Hle. pose proof H as (H1 & H2 & H3 & H4 & H5 & H6).
  unfold cb_half_acquire, sp_half_acquire. rewrite H3, H4.
  destruct (s_trials s <? p_perm pol).
  - cbn [fst snd]. split; [reflexivity|].
    pose proof (rel_mono _ _ _ _ _ H Hle) as (G1 & G2 & G3 & G4 & G5 & G6).
    repeat split; auto; cbn [c_trials set_trials s_trials sp_set_trials]; lia.
  - destruct ((0 <? p_maxwait pol) && (p_maxwait pol <? now - s_transit s)); cbn [fst snd].
    + split; [reflexivity | now apply transit_rel with (t := t)].
    + split; [reflexivity | now apply rel_mono with (t := t)].
Qed.

Lemma acquire_rel pol t now c s :
  rel pol t c s -> t <= now ->
  fst (cb_acquire pol now c) = fst (sp_acquire pol now s) /\
  rel pol now (snd (cb_acquire pol now c)) (snd (sp_acquire pol now s)).
Proof.
  intros H Hle. pose proof H as (H1 & H2 & H3 & H4 & H5 & H6).
  unfold cb_acquire, sp_acquire. rewrite H1, H3.
  destruct (s_state s).
  - cbn [fst snd]. split; [reflexivity | now apply rel_mono with (t := t)].
  - now apply half_acquire_rel with (t := t).
  - destruct (now - s_transit s <? p_wait pol).
    + cbn [fst snd]. split; [reflexivity | now apply rel_mono with (t := t)].
    + apply half_acquire_rel with (t := now); [|lia]. now apply transit_rel with (t := t).
Qed.

Definition kind_bounded (s : spec) : Prop :=
  match s_kind s with
  | KCount n => n < bound
  | KTime _ => Z.of_nat (List.length (s_log s)) + 1 < bound
  end.

Lemma record_rel pol t now id r c s :
  rel pol t c s -> t <= now -> kind_bounded s ->
  fst (cb_record pol now id r c) = fst (sp_record pol now id r s) /\
  rel pol now (snd (cb_record pol now id r c)) (snd (sp_record pol now id r s)).
Proof.
  intros H Hle Hkb. pose proof H as (H1 & H2 & H3 & H4 & H5 & H6).
  unfold cb_record, sp_record. rewrite H2.
  destruct (negb (id =? s_id s)).
  { cbn [fst snd]. split; [reflexivity | now apply rel_mono with (t := t)]. }
  pose proof (win_push_rel _ _ _ _ now r H6 Hle) as P.
  destruct (kind_size (s_kind s) <=? 0).
  { rewrite P. cbn [fst snd]. split; [reflexivity | now apply rel_mono with (t := t)]. }
  destruct P as (w' & E & Hw' & T1 & T2 & T3 & Tpos & Tk). rewrite E.
  set (log' := (sec_of now, r) :: s_log s) in *.
  set (v := view (s_kind s) (sec_of now) log') in *.
  assert (R1 : rel pol now (set_win c w') (sp_set_log s log')).
  { repeat split; auto. }
  rewrite T1, H1.
  destruct (Z.of_nat (List.length v) <? min_calls pol (s_state s)).
  { cbn [fst snd]. split; [reflexivity | exact R1]. }
  assert (Hb : Z.of_nat (List.length v) < bound).
  { unfold kind_bounded in Hkb. destruct (s_kind s); lia. }
  pose proof (cnt_bounds is_fail v is_fail_01) as Bf.
  pose proof (cnt_bounds is_slow v is_slow_01) as Bs.
  rewrite T2, T3, !rate_ok by lia.
  unfold trips. fold v.
  destruct (p_fthr pol <=? srate (cnt is_fail v) (Z.of_nat (List.length v))); cbn [orb].
  { cbn [fst snd]. split; [reflexivity | now apply transit_rel with (t := now); [|lia]]. }
  destruct (p_sthr pol <=? srate (cnt is_slow v) (Z.of_nat (List.length v))).
  { cbn [fst snd]. split; [reflexivity | now apply transit_rel with (t := now); [|lia]]. }
  destruct (s_state s); cbn [fst snd]; (split; [reflexivity|]); auto.
  now apply transit_rel with (t := now); [|lia].
Qed.

Lemma step_rel pol t o c s :
  rel pol t c s -> t <= op_now o -> kind_bounded s ->
  fst (cb_step pol o c) = fst (sp_step pol o s) /\
  rel pol (op_now o) (snd (cb_step pol o c)) (snd (sp_step pol o s)).
Proof.
  intros H Hle Hkb. destruct o as [now | now id err dur]; cbn [cb_step sp_step op_now] in *.
  - destruct (acquire_rel _ _ now _ _ H Hle) as [E R].
    destruct (cb_acquire pol now c) as [b c'], (sp_acquire pol now s) as [b' s'].
    cbn [fst snd] in *. subst b'. pose proof R as (R1 & R2 & _). split; [|assumption].
    now rewrite R1, R2.
  - destruct (record_rel _ _ now id (classify pol err dur) _ _ H Hle Hkb) as [E R].
    destruct (cb_record pol now id (classify pol err dur) c) as [b c'],
             (sp_record pol now id (classify pol err dur) s) as [b' s'].
    cbn [fst snd] in *. subst b'. pose proof R as (R1 & R2 & _). split; [|assumption].
    now rewrite R1, R2.
Qed.

(** how the spec's kind and log evolve in one step *)
Definition kinds_ok (pol : policy) (s : spec) : Prop :=
  s_kind s = pol_kind pol \/ s_kind s = KCount (p_perm pol).

Lemma sp_transit_log pol now target s :
  (List.length (s_log (sp_transit pol now target s)) <= List.length (s_log s))%nat.
Proof.
  unfold sp_transit. destruct (st_eqb target (s_state s)); [lia|].
  cbn [s_log]. destruct target; simpl; lia.
Qed.

Lemma sp_step_log pol o s :
  (List.length (s_log (snd (sp_step pol o s))) <= S (List.length (s_log s)))%nat.
Proof.
  destruct o as [now | now id err dur]; cbn [sp_step].
  - assert (G : forall s, (List.length (s_log (snd (sp_half_acquire pol now s))) <= List.length (s_log s))%nat).
    { intro s0. unfold sp_half_acquire. destruct (s_trials s0 <? p_perm pol); [cbn; lia|].
      destruct ((0 <? p_maxwait pol) && (p_maxwait pol <? now - s_transit s0)); cbn [snd]; [|lia].
      apply sp_transit_log. }
    destruct (sp_acquire pol now s) as [b s'] eqn:E. cbn [snd].
    replace s' with (snd (sp_acquire pol now s)) by now rewrite E.
    unfold sp_acquire. destruct (s_state s); cbn [snd]; try lia.
    + pose proof (G s). lia.
    + destruct (now - s_transit s <? p_wait pol); cbn [snd]; [lia|].
      pose proof (G (sp_transit pol now HalfOpen s)). pose proof (sp_transit_log pol now HalfOpen s). lia.
  - destruct (sp_record pol now id (classify pol err dur) s) as [b s'] eqn:E. cbn [snd].
    replace s' with (snd (sp_record pol now id (classify pol err dur) s)) by now rewrite E.
    unfold sp_record.
    destruct (negb (id =? s_id s)); cbn [snd]; [lia|].
    destruct (kind_size (s_kind s) <=? 0); cbn [snd]; [lia|].
    set (s1 := sp_set_log s _).
    assert (L1 : List.length (s_log s1) = S (List.length (s_log s))) by reflexivity.
    destruct (_ <? _); cbn [snd]; [lia|].
    destruct (trips pol _); cbn [snd].
    + pose proof (sp_transit_log pol now Open s1). lia.
    + destruct (s_state s); cbn [snd]; try lia.
      pose proof (sp_transit_log pol now Closed s1). lia.
Qed.

Theorem refines_spec_gen pol : forall ops t c s,
  rel pol t c s -> mono t ops ->
  p_perm pol < bound -> (p_time pol = false -> p_size pol < bound) ->
  (p_time pol = true -> Z.of_nat (List.length (s_log s)) + Z.of_nat (List.length ops) < bound) ->
  cb_run pol c ops = sp_run pol s ops.
Proof.
  induction ops as [|o ops IH]; intros t c s H Hm Hp Hs Hl; [reflexivity|].
  cbn [mono] in Hm. destruct Hm as [Hle Hm].
  assert (Hkb : kind_bounded s).
  { unfold kind_bounded. destruct H as (_ & _ & _ & _ & [K | K] & _); rewrite K; [|exact Hp].
    unfold pol_kind. destruct (p_time pol) eqn:Et; [|now apply Hs].
    specialize (Hl eq_refl). cbn [List.length] in Hl. lia. }
  destruct (step_rel _ _ o _ _ H Hle Hkb) as [E R].
  pose proof (sp_step_log pol o s) as L.
  cbn [cb_run sp_run].
  destruct (cb_step pol o c) as [ob c'], (sp_step pol o s) as [ob' s'].
  cbn [fst snd] in *. subst ob'. f_equal.
  apply (IH _ _ _ R Hm Hp Hs).
  intro Et. specialize (Hl Et). cbn [List.length] in Hl. lia.
Qed.

Lemma rel_new pol t0 : rel pol t0 (cb_new pol t0) (sp_new pol t0).
Proof.
  unfold cb_new, sp_new. repeat split; cbn; auto. apply win_rel_new.
Qed.

Theorem refines_spec : forall pol t0 ops,
  mono t0 ops ->
  p_perm pol < bound -> (p_time pol = false -> p_size pol < bound) ->
  (p_time pol = true -> Z.of_nat (List.length ops) < bound) ->
  cb_run pol (cb_new pol t0) ops = sp_run pol (sp_new pol t0) ops.
Proof.
  intros pol t0 ops Hm Hp Hs Hl.
  apply (refines_spec_gen pol ops t0 _ _ (rel_new pol t0) Hm Hp Hs).
  intro Et. specialize (Hl Et). cbn. lia.
Qed.
