(** C20 - lemmas, part 2: closed form of what one snapshot does to one name. *)
From EG.lib Require Import Base.
From EG.model Require Import Registry.
From EG.proofs Require Import RegistryProofs.
Open Scope N_scope.

Definition mk_ent (s : spec) (t : N) : ent := {| e_spec := s; e_born := t |}.

(** applyConfig's diff at one key *)
Definition diff_of (q : quirks) (t : N) (r : option ent) (cfgn : option spec) : option ent * trip :=
  match r, cfgn with
  | None, None => (None, trip0)
  | Some e, None => (None, set_del trip0 (Some e))
  | None, Some s => (Some (mk_ent s t), set_cre trip0 (Some (mk_ent s t)))
  | Some p, Some s =>
      if spec_eqb (e_spec p) s then (Some p, trip0)
      else if q_kind_change_as_update q || same_kind (e_spec p) s
           then (Some (mk_ent s t), set_upd trip0 (Some (mk_ent s t)))
           else (Some (mk_ent s t), set_cre (set_del trip0 (Some p)) (Some (mk_ent s t)))
  end.

Lemma stage_diff q t n cfgn c : c_diff c = trip0 ->
  cell_bodies [scan_entities; scan_config q t] n cfgn c =
  (set_diff (set_reg c (fst (diff_of q t (c_reg c) cfgn))) (snd (diff_of q t (c_reg c) cfgn)), []).
Proof.
  intros H. destruct c as [r d x0 e0 x1 e1 s g p]. cbn [c_diff] in H. subst d.
  rewrite !cell_bodies_cons, cell_bodies_nil.
  unfold scan_entities, scan_config, diff_of. cbn [c_reg c_diff].
  destruct r as [e|], cfgn as [sp|]; cbn [fst snd c_reg c_diff set_reg set_diff app]; try reflexivity.
  destruct (spec_eqb (e_spec e) sp); [reflexivity|].
  destruct (q_kind_change_as_update q || same_kind (e_spec e) sp); reflexivity.
Qed.

Lemma stage_w0 n cfgn c : c_ev0 c = trip0 ->
  cell_bodies [w0_del; w0_cre; w0_upd] n cfgn c =
  (set_w0 c (fst (watch_of cats0 (c_diff c) (c_w0 c))) (snd (watch_of cats0 (c_diff c) (c_w0 c))), []).
Proof.
  intros H. destruct c as [r d x0 e0 x1 e1 s g p]. cbn [c_ev0] in H. subst e0.
  rewrite !cell_bodies_cons, cell_bodies_nil.
  unfold w0_del, w0_cre, w0_upd, watch_of. cbn [c_diff c_w0 c_ev0].
  destruct d as [[a|] [b|] [u|]]; cbn -[wfilter];
    repeat (match goal with |- context [wfilter ?cs ?e] => destruct (wfilter cs e); cbn -[wfilter] end);
    reflexivity.
Qed.

Lemma stage_w1 n cfgn c : c_ev1 c = trip0 ->
  cell_bodies [w1_del; w1_cre; w1_upd] n cfgn c =
  (set_w1 c (fst (watch_of cats1 (c_diff c) (c_w1 c))) (snd (watch_of cats1 (c_diff c) (c_w1 c))), []).
Proof.
  intros H. destruct c as [r d x0 e0 x1 e1 s g p]. cbn [c_ev1] in H. subst e1.
  rewrite !cell_bodies_cons, cell_bodies_nil.
  unfold w1_del, w1_cre, w1_upd, watch_of. cbn [c_diff c_w1 c_ev1].
  destruct d as [[a|] [b|] [u|]]; cbn -[wfilter];
    repeat (match goal with |- context [wfilter ?cs ?e] => destruct (wfilter cs e); cbn -[wfilter] end);
    reflexivity.
Qed.

(** Supervisor.handleEvent at one key *)
Definition sup_of (pan : oracle) (t : N) (n : name) (ev : trip) (s : option inst) : option inst * list entry :=
  let '(s1, l1) := match t_del ev with
                   | Some _ => match s with Some i => (None, do_close 0 pan t n i) | None => (s, []) end
                   | None => (s, []) end in
  let '(s2, l2) := match t_cre ev with
                   | Some e => match s1 with
                               | Some _ => (s1, [])
                               | None => (Some (fst (do_init 0 pan t n e)), snd (do_init 0 pan t n e)) end
                   | None => (s1, []) end in
  let '(s3, l3) := match t_upd ev with
                   | Some e => match s2 with
                               | Some prev => (Some (fst (do_inherit 0 pan t n e prev)), snd (do_inherit 0 pan t n e prev))
                               | None => (s2, []) end
                   | None => (s2, []) end in
  (s3, l1 ++ l2 ++ l3).

Lemma stage_sup pan t n cfgn c :
  cell_bodies [sup_del pan t; sup_cre pan t; sup_upd pan t] n cfgn c =
  (set_sup c (fst (sup_of pan t n (c_ev0 c) (c_sup c))), snd (sup_of pan t n (c_ev0 c) (c_sup c))).
Proof.
  destruct c as [r d x0 e0 x1 e1 s g p].
  rewrite !cell_bodies_cons, cell_bodies_nil.
  unfold sup_del, sup_cre, sup_upd, sup_of, do_init, do_inherit, do_close. cbn [c_ev0 c_sup].
  destruct e0 as [[a|] [b|] [u|]], s as [i|]; cbn; rewrite ?app_nil_r; reflexivity.
Qed.

(** RawConfigTrafficController.handleEvent + TrafficController at one key *)
Definition tc_of (pan : oracle) (t : N) (n : name) (ev : trip) (g p : option inst)
  : option inst * option inst * list entry :=
  let '(g1, p1, l1) :=
    match t_del ev with
    | Some e => if is_pipe e
                then match p with Some i => (g, None, do_close 1 pan t n i) | None => (g, p, []) end
                else match g with Some i => (None, p, do_close 1 pan t n i) | None => (g, p, []) end
    | None => (g, p, []) end in
  let '(g2, p2, l2) :=
    match t_cre ev with
    | Some e => if is_pipe e
                then (g1, Some (fst (do_init 1 pan t n e)), snd (do_init 1 pan t n e))
                else (Some (fst (do_init 1 pan t n e)), p1, snd (do_init 1 pan t n e))
    | None => (g1, p1, []) end in
  let '(g3, p3, l3) :=
    match t_upd ev with
    | Some e => if is_pipe e
                then match p2 with
                     | Some prev => (g2, Some (fst (do_inherit 1 pan t n e prev)), snd (do_inherit 1 pan t n e prev))
                     | None => (g2, p2, []) end
                else match g2 with
                     | Some prev => (Some (fst (do_inherit 1 pan t n e prev)), p2, snd (do_inherit 1 pan t n e prev))
                     | None => (g2, p2, []) end
    | None => (g2, p2, []) end in
  (g3, p3, l1 ++ l2 ++ l3).

Lemma stage_tc pan t n cfgn c :
  cell_bodies [tc_del pan t; tc_cre pan t; tc_upd pan t] n cfgn c =
  (set_pipe (set_gate c (fst (fst (tc_of pan t n (c_ev1 c) (c_gate c) (c_pipe c)))))
            (snd (fst (tc_of pan t n (c_ev1 c) (c_gate c) (c_pipe c)))),
   snd (tc_of pan t n (c_ev1 c) (c_gate c) (c_pipe c))).
Proof.
  destruct c as [r d x0 e0 x1 e1 s g p].
  rewrite !cell_bodies_cons, cell_bodies_nil.
  unfold tc_del, tc_cre, tc_upd, tc_of, do_init, do_inherit, do_close. cbn [c_ev1 c_gate c_pipe].
  destruct e1 as [[a|] [b|] [u|]], g as [gi|], p as [pi|]; cbn -[is_pipe];
    repeat (match goal with |- context [is_pipe ?e] => destruct (is_pipe e); cbn -[is_pipe] end);
    rewrite ?app_nil_r; reflexivity.
Qed.

(** closed form of one snapshot at one name *)
Definition cell_step_cf (q : quirks) (pan : oracle) (t : N) (tcf : bool) (n : name) (cfgn : option spec) (c : cell)
  : cell * list entry :=
  let rd := diff_of q t (c_reg c) cfgn in
  let w0 := watch_of cats0 (snd rd) (c_w0 c) in
  let w1 := watch_of cats1 (snd rd) (c_w1 c) in
  let su := sup_of pan t n (snd w0) (c_sup c) in
  let tc := tc_of pan t n (snd w1) (c_gate c) (c_pipe c) in
  ({| c_reg := fst rd; c_diff := snd rd; c_w0 := fst w0; c_ev0 := snd w0; c_w1 := fst w1; c_ev1 := snd w1;
      c_sup := fst su; c_gate := fst (fst tc); c_pipe := snd (fst tc) |},
   if tcf then snd tc ++ snd su else snd su ++ snd tc).

Lemma cell_step_closed q pan t w1f tcf n cfgn c :
  cell_step q pan t w1f tcf n cfgn c = cell_step_cf q pan t tcf n cfgn c.
Proof.
  unfold cell_step, bodies, cell_step_cf.
  destruct c as [r d x0 e0 x1 e1 s g p].
  rewrite cell_bodies_app, stage_diff by reflexivity.
  rewrite cell_bodies_app.
  destruct w1f, tcf;
    change [w1_del; w1_cre; w1_upd; w0_del; w0_cre; w0_upd] with ([w1_del; w1_cre; w1_upd] ++ [w0_del; w0_cre; w0_upd]);
    change [w0_del; w0_cre; w0_upd; w1_del; w1_cre; w1_upd] with ([w0_del; w0_cre; w0_upd] ++ [w1_del; w1_cre; w1_upd]);
    change [tc_del pan t; tc_cre pan t; tc_upd pan t; sup_del pan t; sup_cre pan t; sup_upd pan t]
      with ([tc_del pan t; tc_cre pan t; tc_upd pan t] ++ [sup_del pan t; sup_cre pan t; sup_upd pan t]);
    change [sup_del pan t; sup_cre pan t; sup_upd pan t; tc_del pan t; tc_cre pan t; tc_upd pan t]
      with ([sup_del pan t; sup_cre pan t; sup_upd pan t] ++ [tc_del pan t; tc_cre pan t; tc_upd pan t]);
    rewrite !cell_bodies_app;
    repeat (first [rewrite stage_w0 by reflexivity | rewrite stage_w1 by reflexivity
                  | rewrite stage_sup | rewrite stage_tc]; cbn [fst snd]);
    cbn; rewrite ?app_nil_r; reflexivity.
Qed.
