(** C16: invariants of the per-client-id connection/session life cycle (ideal model),
    for every trace, with teardowns scheduled at any later point. *)
From EG.lib Require Import Base BrokerMap.
From EG.model Require Import Broker.
Open Scope Z_scope.

Notation zget_set_same := (aget_aset_same Z.eqb z_eqb_spec).
Notation zget_set_other := (aget_aset_other Z.eqb z_eqb_spec).
Notation sget_set_same := (aget_aset_same String.eqb string_eqb_spec).
Notation sget_set_other := (aget_aset_other String.eqb string_eqb_spec).

Definition tsub (a b : topics) : Prop := forall f q, sget f a = Some q -> sget f b = Some q.
Definition tempty (a : topics) : Prop := forall f, sget f a = None.
Definition ukeys (t : topics) : Prop := NoDup (map fst t).

(** ** topic maps *)
Lemma tsub_aset_all fs a b : tsub a b -> tsub (aset_all String.eqb fs a) (aset_all String.eqb fs b).
Proof.
  unfold aset_all. revert a b. induction fs as [|[k v] t IH]; intros a b H; simpl; [exact H|].
  apply IH. intros f q. destruct (string_dec f k) as [E|N].
  - subst. rewrite !sget_set_same. tauto.
  - rewrite !sget_set_other by exact N. apply H.
Qed.

Lemma tsub_adel_all ks a b : tsub a b -> tsub (adel_all String.eqb ks a) (adel_all String.eqb ks b).
Proof.
  intros H f q. rewrite !(aget_adel_all String.eqb string_eqb_spec).
  destruct (existsb (String.eqb f) ks); [discriminate | apply H].
Qed.

Lemma tempty_tsub a b : tempty a -> tsub a b.
Proof. intros E f q H. rewrite E in H. discriminate. Qed.

(** removing all keys of a map that contains [t] empties [t] *)
Lemma unsub_all_empty t tp : tsub t tp -> tempty (adel_all String.eqb (map fst tp) t).
Proof.
  intros H f. rewrite (aget_adel_all String.eqb string_eqb_spec).
  destruct (existsb (String.eqb f) (map fst tp)) eqn:E; [reflexivity|].
  destruct (sget f t) as [q|] eqn:G; [|reflexivity].
  apply H in G. apply (aget_some_key String.eqb) in G. congruence.
Qed.

Lemma unsub_keeps_empty t ks : tempty t -> tempty (adel_all String.eqb ks t).
Proof.
  intros H f. rewrite (aget_adel_all String.eqb string_eqb_spec). destruct (existsb _ _); [reflexivity | apply H].
Qed.

(** re-subscribing a session's topics over a trie that holds no foreign entry yields exactly them *)
Lemma resub_equiv t tp : ukeys tp -> tsub t tp -> forall f, sget f (aset_all String.eqb tp t) = sget f tp.
Proof.
  intros U H f. rewrite (aget_aset_all_ukeys String.eqb string_eqb_spec) by exact U.
  destruct (existsb (String.eqb f) (map fst tp)) eqn:E; [reflexivity|].
  destruct (sget f t) as [q|] eqn:G.
  - apply H in G. apply (aget_some_key String.eqb) in G. congruence.
  - destruct (sget f tp) as [q|] eqn:G2; [|reflexivity]. apply (aget_some_key String.eqb) in G2. congruence.
Qed.

(** ** fields after the primitive updates *)
Lemma upd_conn_fields k f cs :
  reg (upd_conn k f cs) = reg cs /\ smp (upd_conn k f cs) = smp cs /\ heap (upd_conn k f cs) = heap cs /\
  dbv (upd_conn k f cs) = dbv cs /\ tri (upd_conn k f cs) = tri cs.
Proof. unfold upd_conn. destruct (zget k (conns cs)); repeat split; reflexivity. Qed.

Lemma upd_conn_conns k f cs k' :
  zget k' (conns (upd_conn k f cs)) = if k' =? k then option_map f (zget k (conns cs)) else zget k' (conns cs).
Proof.
  unfold upd_conn. destruct (k' =? k) eqn:E.
  - apply Z.eqb_eq in E. subst. destruct (zget k (conns cs)) eqn:G; simpl; [apply zget_set_same | exact G].
  - apply Z.eqb_neq in E. destruct (zget k (conns cs)); simpl; [apply zget_set_other; exact E | reflexivity].
Qed.

Lemma get_sess_upd_conn k f cs sid : get_sess (upd_conn k f cs) sid = get_sess cs sid.
Proof. unfold get_sess. destruct (upd_conn_fields k f cs) as [_ [_ [H _]]]. rewrite H. reflexivity. Qed.

Lemma upd_sess_fields sid f cs :
  reg (upd_sess sid f cs) = reg cs /\ smp (upd_sess sid f cs) = smp cs /\ conns (upd_sess sid f cs) = conns cs /\
  dbv (upd_sess sid f cs) = dbv cs /\ tri (upd_sess sid f cs) = tri cs.
Proof. unfold upd_sess. destruct (zget sid (heap cs)); repeat split; reflexivity. Qed.

Lemma upd_sess_heap sid f cs sid' :
  zget sid' (heap (upd_sess sid f cs)) = if sid' =? sid then option_map f (zget sid (heap cs)) else zget sid' (heap cs).
Proof.
  unfold upd_sess. destruct (sid' =? sid) eqn:E.
  - apply Z.eqb_eq in E. subst. destruct (zget sid (heap cs)) eqn:G; simpl; [apply zget_set_same | exact G].
  - apply Z.eqb_neq in E. destruct (zget sid (heap cs)); simpl; [apply zget_set_other; exact E | reflexivity].
Qed.

(** ** the invariant *)
Record CInv (cs : cstate) : Prop := {
  iR : forall k, reg cs = Some k ->
       exists c, zget k (conns cs) = Some c /\ c_live c = true /\ c_torn c = false /\ smp cs = Some (c_sess c);
  iL : forall k c, zget k (conns cs) = Some c -> c_live c = true -> reg cs = Some k;
  iB : forall k c, zget k (conns cs) = Some c -> c_resub c = true;
  iS : forall sid, smp cs = Some sid ->
       (exists s, zget sid (heap cs) = Some s) /\ s_closed (get_sess cs sid) = false /\
       tsub (tri cs) (s_topics (get_sess cs sid));
  iN : smp cs = None -> tempty (tri cs);
  iF : forall k sid, reg cs = Some k -> smp cs = Some sid -> tsub (s_topics (get_sess cs sid)) (tri cs);
  iD : forall k sid, reg cs = Some k -> smp cs = Some sid ->
       dbv cs = Some (s_clean (get_sess cs sid), s_topics (get_sess cs sid));
  iU : forall sid s, zget sid (heap cs) = Some s -> ukeys (s_topics s);
  iUd : forall cl tp, dbv cs = Some (cl, tp) -> ukeys tp
}.

Lemma inv0 : CInv cstate0.
Proof.
  constructor; simpl; try discriminate; intros; try discriminate.
  intro f. reflexivity.
Qed.

(** the part of the invariant that [set_session] needs and re-establishes *)
Record SInv (cs : cstate) : Prop := {
  sS : forall sid, smp cs = Some sid ->
       (exists s, zget sid (heap cs) = Some s) /\ s_closed (get_sess cs sid) = false /\
       tsub (tri cs) (s_topics (get_sess cs sid));
  sN : smp cs = None -> tempty (tri cs);
  sU : forall sid s, zget sid (heap cs) = Some s -> ukeys (s_topics s);
  sUd : forall cl tp, dbv cs = Some (cl, tp) -> ukeys tp
}.

Lemma CInv_SInv cs : CInv cs -> SInv cs.
Proof. intros [? ? ? ? ? ? ? ? ?]. constructor; assumption. Qed.

Lemma SInv_upd_conn k f cs : SInv cs -> SInv (upd_conn k f cs).
Proof.
  intros [S N U Ud]. destruct (upd_conn_fields k f cs) as [_ [E2 [E3 [E4 E5]]]].
  constructor; try rewrite E2; try rewrite E3; try rewrite E4; try rewrite E5.
  - intros sid H. rewrite get_sess_upd_conn. apply S. exact H.
  - exact N.
  - exact U.
  - exact Ud.
Qed.

(** what the previous session of a client id is, as CONNECT will find it *)
Definition prev_sess (cs : cstate) : option (bool * topics) :=
  match smp cs with
  | Some sid => Some (s_clean (get_sess cs sid), s_topics (get_sess cs sid))
  | None => dbv cs
  end.

Lemma alloc_spec s cs :
  let '(sid, cs') := alloc_session s cs in
  smp cs' = Some sid /\ get_sess cs' sid = s /\ zget sid (heap cs') = Some s /\
  reg cs' = reg cs /\ conns cs' = conns cs /\ dbv cs' = dbv cs /\ tri cs' = tri cs /\
  (forall sid', sid' <> sid -> zget sid' (heap cs') = zget sid' (heap cs)).
Proof.
  unfold alloc_session. simpl. unfold get_sess. simpl. rewrite zget_set_same.
  repeat split; try reflexivity. intros sid' N. apply zget_set_other. exact N.
Qed.

(** Broker.setSession in the ideal model *)
Lemma set_session_spec clean cs :
  SInv cs ->
  let '(sid, cs') := set_session ideal clean cs in
  SInv cs' /\ smp cs' = Some sid /\ reg cs' = reg cs /\ conns cs' = conns cs /\ dbv cs' = dbv cs /\
  (clean = true -> s_topics (get_sess cs' sid) = [] /\ tempty (tri cs') /\ s_clean (get_sess cs' sid) = true) /\
  (forall tp, clean = false -> prev_sess cs = Some (false, tp) ->
              s_topics (get_sess cs' sid) = tp /\ s_clean (get_sess cs' sid) = false) /\
  (clean = false -> s_clean (get_sess cs' sid) = false).
Proof.
  intros [S N U Ud]. unfold set_session, sess_get, prev_sess.
  (* the session to discard (if any) and the state it is discarded from *)
  assert (forall p csx, SInv csx -> smp csx = Some p ->
            let '(sid, cs') := alloc_session (fresh_session clean)
                                 (tri_unsub (map fst (s_topics (get_sess csx p))) (upd_sess p close_sess csx)) in
            SInv cs' /\ smp cs' = Some sid /\ reg cs' = reg csx /\ conns cs' = conns csx /\ dbv cs' = dbv csx /\
            s_topics (get_sess cs' sid) = [] /\ tempty (tri cs') /\ s_clean (get_sess cs' sid) = clean) as DISCARD.
  { intros p csx [Sx Nx Ux Udx] P.
    destruct (Sx p P) as [[sp Hp] [Cp Tp]].
    set (csy := tri_unsub (map fst (s_topics (get_sess csx p))) (upd_sess p close_sess csx)).
    pose proof (alloc_spec (fresh_session clean) csy) as A.
    destruct (alloc_session (fresh_session clean) csy) as [sid cs'].
    destruct A as [A1 [A2 [A3 [A4 [A5 [A6 [A7 A8]]]]]]].
    destruct (upd_sess_fields p close_sess csx) as [F1 [F2 [F3 [F4 F5]]]].
    assert (tempty (tri cs')) as TE.
    { rewrite A7. unfold csy, tri_unsub. simpl. rewrite F5. apply unsub_all_empty. exact Tp. }
    assert (SInv cs') as I'.
    { constructor.
      - intros sid0 H. rewrite A1 in H. inversion H; subst sid0. split; [exists (fresh_session clean); exact A3|].
        rewrite A2. split; [reflexivity|]. apply tempty_tsub. exact TE.
      - rewrite A1. discriminate.
      - intros sid0 s0 H. destruct (Z.eq_dec sid0 sid) as [E|NE].
        + subst. rewrite A3 in H. inversion H; subst. constructor.
        + rewrite A8 in H by exact NE. unfold csy, tri_unsub in H. simpl in H.
          rewrite upd_sess_heap in H. destruct (sid0 =? p) eqn:E0.
          * rewrite Hp in H. simpl in H. inversion H; subst. simpl. exact (Ux _ _ Hp).
          * exact (Ux _ _ H).
      - intros cl tp H. rewrite A6 in H. unfold csy, tri_unsub in H. simpl in H. rewrite F4 in H. exact (Udx _ _ H). }
    split; [exact I'|]. split; [exact A1|].
    split; [rewrite A4; unfold csy, tri_unsub; simpl; exact F1|].
    split; [rewrite A5; unfold csy, tri_unsub; simpl; exact F3|].
    split; [rewrite A6; unfold csy, tri_unsub; simpl; exact F4|].
    split; [rewrite A2; reflexivity|]. split; [exact TE|]. rewrite A2; reflexivity. }
  assert (SInv cs) as I0 by (constructor; assumption).
  destruct (smp cs) as [p|] eqn:P.
  - (* a live session exists *)
    destruct (negb clean && negb (s_clean (get_sess cs p))) eqn:RE.
    + (* reuse *)
      apply andb_true_iff in RE as [R1 R2]. apply negb_true_iff in R1, R2.
      split; [exact I0|]. split; [exact P|].
      split; [reflexivity|]. split; [reflexivity|]. split; [reflexivity|].
      split; [intro C; rewrite R1 in C; discriminate|].
      split; [intros tp _ H; injection H as H1 H2; split; [exact H2 | exact R2]|].
      intros _. exact R2.
    + specialize (DISCARD p cs I0 P). cbn [q_takeover_teardown_unguarded ideal].
      destruct (alloc_session _ _) as [sid cs'].
      destruct DISCARD as [D1 [D2 [D3 [D4 [D5 [D6 [D7 D8]]]]]]].
      split; [exact D1|]. split; [exact D2|]. split; [exact D3|]. split; [exact D4|]. split; [exact D5|].
      split; [intro C; rewrite C in D8; tauto|]. split.
      * intros tp C H. injection H as H1 H2. rewrite C, H1 in RE. simpl in RE. discriminate.
      * intro C. rewrite C in D8. exact D8.
  - destruct (dbv cs) as [[cl tp]|] eqn:DB.
    + (* rebuilt from the store *)
      pose proof (alloc_spec {| s_clean := cl; s_topics := tp; s_closed := false |} cs) as A.
      destruct (alloc_session {| s_clean := cl; s_topics := tp; s_closed := false |} cs) as [p cs2].
      destruct A as [A1 [A2 [A3 [A4 [A5 [A6 [A7 A8]]]]]]].
      assert (SInv cs2) as I2.
      { constructor.
        - intros sid0 H. rewrite A1 in H. inversion H; subst sid0. split; [eexists; exact A3|].
          rewrite A2. simpl. split; [reflexivity|]. apply tempty_tsub. rewrite A7. exact (sN cs I0 P).
        - rewrite A1. discriminate.
        - intros sid0 s0 H. destruct (Z.eq_dec sid0 p) as [E|NE].
          + subst. rewrite A3 in H. inversion H; subst. simpl. exact (sUd cs I0 _ _ DB).
          + rewrite A8 in H by exact NE. exact (sU cs I0 _ _ H).
        - intros cl0 tp0 H. rewrite A6 in H. exact (sUd cs I0 _ _ H). }
      rewrite A2. cbn [s_clean s_topics q_takeover_teardown_unguarded ideal].
      destruct (negb clean && negb cl) eqn:RE.
      * apply andb_true_iff in RE as [R1 R2]. apply negb_true_iff in R1, R2. subst cl.
        split; [exact I2|]. split; [exact A1|]. split; [congruence|]. split; [congruence|]. split; [congruence|].
        rewrite A2. simpl. split; [rewrite R1; discriminate|]. split; [|reflexivity].
        intros tp0 _ H. inversion H; subst. tauto.
      * specialize (DISCARD p cs2 I2 A1). rewrite A2 in DISCARD. cbn [s_topics] in DISCARD.
        destruct (alloc_session _ _) as [sid cs'].
        destruct DISCARD as [D1 [D2 [D3 [D4 [D5 [D6 [D7 D8]]]]]]].
        split; [exact D1|]. split; [exact D2|]. split; [congruence|]. split; [congruence|]. split; [congruence|].
        split; [intro C; rewrite C in D8; tauto|]. split.
        -- intros tp0 C H. injection H as H1 H2. rewrite C, H1 in RE. simpl in RE. discriminate.
        -- intro C. rewrite C in D8. exact D8.
    + (* no previous session at all *)
      pose proof (alloc_spec (fresh_session clean) cs) as A.
      destruct (alloc_session (fresh_session clean) cs) as [sid cs'].
      destruct A as [A1 [A2 [A3 [A4 [A5 [A6 [A7 A8]]]]]]].
      assert (tempty (tri cs')) as TE by (rewrite A7; exact (sN cs I0 P)).
      split.
      { constructor.
        - intros sid0 H. rewrite A1 in H. inversion H; subst sid0. split; [eexists; exact A3|].
          rewrite A2. split; [reflexivity|]. apply tempty_tsub. exact TE.
        - rewrite A1. discriminate.
        - intros sid0 s0 H. destruct (Z.eq_dec sid0 sid) as [E|NE].
          + subst. rewrite A3 in H. inversion H; subst. constructor.
          + rewrite A8 in H by exact NE. exact (sU cs I0 _ _ H).
        - intros cl0 tp0 H. rewrite A6 in H. exact (sUd cs I0 _ _ H). }
      split; [exact A1|]. split; [congruence|]. split; [congruence|]. split; [congruence|].
      rewrite A2. simpl. split; [intro C; subst; tauto|]. split; [intros tp _ H; discriminate|].
      intro C. subst. reflexivity.
Qed.

Lemma prev_sess_upd_conn k f cs : prev_sess (upd_conn k f cs) = prev_sess cs.
Proof.
  unfold prev_sess. destruct (upd_conn_fields k f cs) as [_ [E2 [_ [E4 _]]]]. rewrite E2, E4.
  destruct (smp cs); [rewrite get_sess_upd_conn; reflexivity | reflexivity].
Qed.

(** ** CONNECT (ideal: locked section + re-subscription, atomically) *)
Definition kill_old (cs : cstate) : cstate :=
  match reg cs with Some old => upd_conn old mark_dead cs | None => cs end.

Lemma kill_old_conns cs k0 c : CInv cs ->
  zget k0 (conns (kill_old cs)) = Some c -> c_live c = true -> False.
Proof.
  intros I H L. unfold kill_old in H. destruct (reg cs) as [old|] eqn:R.
  - rewrite upd_conn_conns in H. destruct (k0 =? old) eqn:E.
    + destruct (zget old (conns cs)); simpl in H; [|discriminate]. inversion H; subst. simpl in L. discriminate.
    + apply Z.eqb_neq in E. pose proof (iL cs I _ _ H L) as X. congruence.
  - pose proof (iL cs I _ _ H L) as X. congruence.
Qed.

Lemma kill_old_resub cs k0 c : CInv cs -> zget k0 (conns (kill_old cs)) = Some c -> c_resub c = true.
Proof.
  intros I H. unfold kill_old in H. destruct (reg cs) as [old|].
  - rewrite upd_conn_conns in H. destruct (k0 =? old) eqn:E.
    + apply Z.eqb_eq in E. subst. destruct (zget old (conns cs)) eqn:G; simpl in H; [|discriminate].
      inversion H; subst. simpl. exact (iB cs I _ _ G).
    + exact (iB cs I _ _ H).
  - exact (iB cs I _ _ H).
Qed.

Lemma kill_old_SInv cs : CInv cs -> SInv (kill_old cs).
Proof. intro I. unfold kill_old. destruct (reg cs); [apply SInv_upd_conn|]; apply CInv_SInv; exact I. Qed.

Lemma kill_old_prev cs : prev_sess (kill_old cs) = prev_sess cs.
Proof. unfold kill_old. destruct (reg cs); [apply prev_sess_upd_conn | reflexivity]. Qed.

Lemma kill_old_fresh cs k : zget k (conns cs) = None -> zget k (conns (kill_old cs)) = None.
Proof.
  intro H. unfold kill_old. destruct (reg cs) as [old|]; [|exact H].
  rewrite upd_conn_conns. destruct (k =? old) eqn:E; [|exact H].
  apply Z.eqb_eq in E. subst. rewrite H. reflexivity.
Qed.

Definition new_conn (sid : Z) (resub : bool) : conn :=
  {| c_sess := sid; c_live := true; c_torn := false; c_resub := resub |}.

Lemma do_connect_ideal_eq k clean cs :
  let '(sid, cs3) := set_session ideal clean (kill_old cs) in
  let s := get_sess cs3 sid in
  do_connect ideal k clean cs =
  {| reg := Some k; smp := smp cs3; heap := heap cs3; dbv := Some (s_clean s, s_topics s);
     tri := aset_all String.eqb (s_topics s) (tri cs3);
     conns := zset k (new_conn sid true) (zset k (new_conn sid false) (conns cs3));
     next_sid := next_sid cs3 |}.
Proof.
  unfold do_connect. fold (kill_old cs). destruct (set_session ideal clean (kill_old cs)) as [sid cs3].
  simpl. unfold do_resubscribe. simpl. rewrite zget_set_same.
  unfold upd_conn. simpl. rewrite zget_set_same. simpl. reflexivity.
Qed.

Lemma connect_effect k clean cs :
  CInv cs -> zget k (conns cs) = None ->
  let cs' := do_connect ideal k clean cs in
  CInv cs' /\ reg cs' = Some k /\
  (exists sid, smp cs' = Some sid /\ zget k (conns cs') = Some (new_conn sid true) /\
               (clean = true -> s_topics (get_sess cs' sid) = [] /\ tempty (tri cs') /\ dbv cs' = Some (true, [])) /\
               (forall tp, clean = false -> prev_sess cs = Some (false, tp) ->
                           s_topics (get_sess cs' sid) = tp /\ (forall f, sget f (tri cs') = sget f tp) /\
                           dbv cs' = Some (false, tp))).
Proof.
  intros I FR. pose proof (do_connect_ideal_eq k clean cs) as EQ.
  pose proof (set_session_spec clean (kill_old cs) (kill_old_SInv cs I)) as SP.
  destruct (set_session ideal clean (kill_old cs)) as [sid cs3].
  destruct SP as [I3 [M [R3 [C3 [D3 [CL [RS NC]]]]]]].
  cbv zeta in EQ. cbv zeta. rewrite EQ. clear EQ.
  destruct (sS cs3 I3 sid M) as [[s0 H0] [CLs TS]].
  assert (get_sess cs3 sid = s0) as GS by (unfold get_sess; rewrite H0; reflexivity).
  pose proof (sU cs3 I3 _ _ H0) as UK. rewrite <- GS in UK.
  set (s := get_sess cs3 sid) in *.
  set (cs' := {| reg := Some k; smp := smp cs3; heap := heap cs3; dbv := Some (s_clean s, s_topics s);
                 tri := aset_all String.eqb (s_topics s) (tri cs3);
                 conns := zset k (new_conn sid true) (zset k (new_conn sid false) (conns cs3));
                 next_sid := next_sid cs3 |}).
  assert (forall x, get_sess cs' x = get_sess cs3 x) as GE by (intro x; reflexivity).
  assert (forall f, sget f (tri cs') = sget f (s_topics s)) as TE by (intro f; apply resub_equiv; assumption).
  assert (forall k0, k0 <> k -> zget k0 (conns cs') = zget k0 (conns (kill_old cs))) as CO.
  { intros k0 N. cbn [cs' conns]. rewrite !zget_set_other by exact N. rewrite C3. reflexivity. }
  split; [|split; [reflexivity|]].
  - constructor.
    + intros k0 H. cbn in H. inversion H; subst k0. exists (new_conn sid true).
      cbn [cs' conns smp]. rewrite zget_set_same. repeat split; try reflexivity. exact M.
    + intros k0 c H L. destruct (Z.eq_dec k0 k) as [E|N]; [subst; reflexivity|].
      rewrite CO in H by exact N. exfalso. exact (kill_old_conns cs k0 c I H L).
    + intros k0 c H. destruct (Z.eq_dec k0 k) as [E|N].
      * subst. cbn [cs' conns] in H. rewrite zget_set_same in H. inversion H; subst. reflexivity.
      * rewrite CO in H by exact N. exact (kill_old_resub cs k0 c I H).
    + intros sid0 H. cbn [cs' smp] in H. rewrite M in H. inversion H; subst sid0.
      split; [exists s0; exact H0|]. rewrite GE. split; [exact CLs|].
      intros f q X. rewrite TE in X. exact X.
    + cbn [cs' smp]. rewrite M. discriminate.
    + intros k0 sid0 _ H. cbn [cs' smp] in H. rewrite M in H. inversion H; subst sid0.
      rewrite GE. intros f q X. rewrite TE. exact X.
    + intros k0 sid0 _ H. cbn [cs' smp] in H. rewrite M in H. inversion H; subst sid0. rewrite GE. reflexivity.
    + intros sid0 s1 H. exact (sU cs3 I3 _ _ H).
    + intros cl tp H. cbn [cs' dbv] in H. inversion H; subst. exact UK.
  - exists sid. split; [exact M|]. split; [cbn [cs' conns]; apply zget_set_same|]. split.
    + intro C. destruct (CL C) as [T0 [TE0 SC]]. rewrite GE. split; [exact T0|]. split.
      * intro f. rewrite TE. fold s in T0. rewrite T0. reflexivity.
      * cbn [cs' dbv]. fold s in T0, SC. rewrite T0, SC. reflexivity.
    + intros tp C P. rewrite <- kill_old_prev in P. destruct (RS tp C P) as [T0 SC].
      rewrite GE. fold s in T0, SC. split; [exact T0|]. split.
      * intro f. rewrite TE, T0. reflexivity.
      * cbn [cs' dbv]. rewrite T0, SC. reflexivity.
Qed.

(** ** SUBSCRIBE / UNSUBSCRIBE on the live connection *)
Lemma modify_inv (g : topics -> topics) k c cs :
  (forall a b, tsub a b -> tsub (g a) (g b)) -> (forall a, ukeys a -> ukeys (g a)) ->
  CInv cs -> zget k (conns cs) = Some c -> c_live c = true ->
  let cs' := store_sess (c_sess c) (upd_sess (c_sess c) (upd_topics g) (set_tri (g (tri cs)) cs)) in
  CInv cs' /\ reg cs' = reg cs /\ smp cs' = smp cs /\ conns cs' = conns cs /\ tri cs' = g (tri cs) /\
  s_topics (get_sess cs' (c_sess c)) = g (s_topics (get_sess cs (c_sess c))).
Proof.
  intros MONO UK I H L. pose proof (iL cs I _ _ H L) as R.
  destruct (iR cs I _ R) as [c' [H' [_ [_ M]]]]. rewrite H in H'. inversion H'; subst c'. clear H'.
  set (sid := c_sess c) in *.
  destruct (iS cs I sid M) as [[s0 H0] [CL TS]].
  assert (get_sess cs sid = s0) as GS by (unfold get_sess; rewrite H0; reflexivity). rewrite GS in *.
  set (cs1 := set_tri (g (tri cs)) cs).
  assert (zget sid (heap cs1) = Some s0) as H1 by exact H0.
  destruct (upd_sess_fields sid (upd_topics g) cs1) as [F1 [F2 [F3 [F4 F5]]]].
  set (cs2 := upd_sess sid (upd_topics g) cs1) in *.
  assert (forall x, zget x (heap cs2) = if x =? sid then Some (upd_topics g s0) else zget x (heap cs)) as HP.
  { intro x. unfold cs2. rewrite upd_sess_heap. rewrite H1. reflexivity. }
  assert (get_sess cs2 sid = upd_topics g s0) as G2 by (unfold get_sess; rewrite HP, Z.eqb_refl; reflexivity).
  cbv zeta. unfold store_sess. fold cs1. fold cs2. rewrite G2.
  set (cs3 := set_dbv (Some (s_clean (upd_topics g s0), s_topics (upd_topics g s0))) cs2).
  assert (forall x, get_sess cs3 x = get_sess cs2 x) as G3 by (intro x; reflexivity).
  split; [|repeat split; try assumption; try (rewrite G3, G2; reflexivity)].
  constructor.
  - intros k0 X. change (reg cs3) with (reg cs2) in X. rewrite F1 in X. change (reg cs1) with (reg cs) in X.
    destruct (iR cs I _ X) as [c1 [A1 [A2 [A3 A4]]]]. exists c1.
    change (conns cs3) with (conns cs2). rewrite F3. change (smp cs3) with (smp cs2). rewrite F2. tauto.
  - intros k0 c0 X Y. change (conns cs3) with (conns cs2) in X. rewrite F3 in X.
    change (reg cs3) with (reg cs2). rewrite F1. exact (iL cs I _ _ X Y).
  - intros k0 c0 X. change (conns cs3) with (conns cs2) in X. rewrite F3 in X. exact (iB cs I _ _ X).
  - intros sid0 X. change (smp cs3) with (smp cs2) in X. rewrite F2 in X. change (smp cs1) with (smp cs) in X.
    rewrite M in X. inversion X; subst sid0. rewrite G3, G2.
    split; [exists (upd_topics g s0); change (heap cs3) with (heap cs2); rewrite HP, Z.eqb_refl; reflexivity|].
    split; [exact CL|]. change (tri cs3) with (tri cs2). rewrite F5. apply MONO. exact TS.
  - change (smp cs3) with (smp cs2). rewrite F2. change (smp cs1) with (smp cs). rewrite M. discriminate.
  - intros k0 sid0 X Y. change (smp cs3) with (smp cs2) in Y. rewrite F2 in Y. change (smp cs1) with (smp cs) in Y.
    rewrite M in Y. inversion Y; subst sid0. rewrite G3, G2. change (tri cs3) with (tri cs2). rewrite F5.
    apply MONO. pose proof (iF cs I _ _ R M) as X0. rewrite GS in X0. exact X0.
  - intros k0 sid0 X Y. change (smp cs3) with (smp cs2) in Y. rewrite F2 in Y. change (smp cs1) with (smp cs) in Y.
    rewrite M in Y. inversion Y; subst sid0. rewrite G3, G2. reflexivity.
  - intros sid0 s1 X. change (heap cs3) with (heap cs2) in X. rewrite HP in X. destruct (sid0 =? sid).
    + inversion X; subst. simpl. apply UK. exact (iU cs I _ _ H0).
    + exact (iU cs I _ _ X).
  - intros cl tp X. cbn in X. inversion X; subst. apply UK. exact (iU cs I _ _ H0).
Qed.

(** ** connections after a status update *)
Lemma upd_conn_trace k f cs k0 c0 :
  (forall c, c_resub (f c) = c_resub c) -> (forall c, c_live (f c) = false) ->
  zget k0 (conns (upd_conn k f cs)) = Some c0 ->
  exists c1, zget k0 (conns cs) = Some c1 /\ c_resub c0 = c_resub c1 /\
             (c_live c0 = true -> c_live c1 = true /\ k0 <> k).
Proof.
  intros FR FL H. rewrite upd_conn_conns in H. destruct (k0 =? k) eqn:E.
  - destruct (zget k (conns cs)) as [c1|] eqn:G; simpl in H; [|discriminate]. inversion H; subst c0.
    apply Z.eqb_eq in E. subst k0. exists c1. split; [exact G|]. split; [apply FR|].
    intro X. rewrite FL in X. discriminate.
  - apply Z.eqb_neq in E. exists c0. tauto.
Qed.

(** ** ADMIN DELETE *)
Lemma admin_effect q cs :
  let cs' := cstep q cs CAdminDelete in
  reg cs' = None /\ dbv cs' = None /\ smp cs' = smp cs /\ heap cs' = heap cs /\ tri cs' = tri cs /\
  (forall k, reg cs = Some k -> forall c, zget k (conns cs) = Some c ->
             exists c', zget k (conns cs') = Some c' /\ c_live c' = false) /\
  (forall k0 c0, zget k0 (conns cs') = Some c0 ->
     exists c1, zget k0 (conns cs) = Some c1 /\ c_resub c0 = c_resub c1 /\
                (c_live c0 = true -> c_live c1 = true /\ reg cs <> Some k0)).
Proof.
  cbv zeta. unfold cstep, delete_session. cbn [reg set_dbv].
  destruct (reg cs) as [j|] eqn:R.
  - destruct (upd_conn_fields j mark_dead (set_dbv None cs)) as [F1 [F2 [F3 [F4 F5]]]].
    cbn [reg dbv smp heap tri conns set_reg]. rewrite F2, F3, F4, F5. repeat split; try reflexivity.
    + intros k X c G. inversion X; subst k. rewrite upd_conn_conns, Z.eqb_refl. cbn [conns set_dbv]. rewrite G.
      simpl. eexists. split; reflexivity.
    + intros k0 c0 X. apply upd_conn_trace in X; [|reflexivity|reflexivity].
      destruct X as [c1 [A1 [A2 A3]]]. exists c1. split; [exact A1|]. split; [exact A2|].
      intro L. destruct (A3 L) as [B1 B2]. split; [exact B1 | congruence].
  - cbn [reg dbv smp heap tri conns set_dbv].
    split; [exact R|]. split; [reflexivity|]. split; [reflexivity|]. split; [reflexivity|]. split; [reflexivity|].
    split; [intros k X; discriminate|].
    intros k0 c0 X. exists c0. split; [exact X|]. split; [reflexivity|]. intro L. split; [exact L | discriminate].
Qed.

Lemma admin_inv cs : CInv cs -> CInv (cstep ideal cs CAdminDelete).
Proof.
  intro I. destruct (admin_effect ideal cs) as [R [D [M [H [T [_ TR]]]]]].
  set (cs' := cstep ideal cs CAdminDelete) in *.
  assert (forall x, get_sess cs' x = get_sess cs x) as GE by (intro x; unfold get_sess; rewrite H; reflexivity).
  constructor.
  - rewrite R. discriminate.
  - intros k0 c0 X L. destruct (TR _ _ X) as [c1 [A1 [A2 A3]]]. destruct (A3 L) as [B1 B2].
    exfalso. apply B2. exact (iL cs I _ _ A1 B1).
  - intros k0 c0 X. destruct (TR _ _ X) as [c1 [A1 [A2 _]]]. rewrite A2. exact (iB cs I _ _ A1).
  - intros sid X. rewrite M in X. rewrite H, T, GE. exact (iS cs I _ X).
  - rewrite M, T. exact (iN cs I).
  - rewrite R. discriminate.
  - rewrite R. discriminate.
  - rewrite H. exact (iU cs I).
  - rewrite D. discriminate.
Qed.

(** ** TEARDOWN *)
Lemma not_owner_reg k c cs :
  CInv cs -> zget k (conns cs) = Some c -> owner k c cs = false -> reg cs <> Some k.
Proof.
  intros I H O R. destruct (iR cs I _ R) as [c' [H' [_ [_ M]]]]. rewrite H in H'. inversion H'; subst c'.
  unfold owner in O. rewrite R, M, !Z.eqb_refl in O. discriminate.
Qed.

Lemma remove_client_noop cs :
  (forall j, reg cs = Some j -> exists cj, zget j (conns cs) = Some cj /\ c_live cj = true) ->
  remove_client cs = cs.
Proof.
  unfold remove_client. destruct (reg cs) as [j|]; [|reflexivity]. intro H.
  destruct (H j eq_refl) as [cj [G L]]. rewrite G, L. reflexivity.
Qed.

Lemma remove_client_fields cs :
  smp (remove_client cs) = smp cs /\ heap (remove_client cs) = heap cs /\ dbv (remove_client cs) = dbv cs /\
  tri (remove_client cs) = tri cs /\ conns (remove_client cs) = conns cs /\
  (reg (remove_client cs) = reg cs \/ reg (remove_client cs) = None).
Proof.
  unfold remove_client. destruct (reg cs) as [j|] eqn:R; [|rewrite R; tauto].
  destruct (zget j (conns cs)) as [cj|]; [|rewrite R; tauto].
  destruct (c_live cj); [rewrite R; tauto|]. cbn. tauto.
Qed.

(** the teardown of a connection that no longer owns the client id only marks that connection *)
Lemma teardown_nonowner k c cs :
  CInv cs -> zget k (conns cs) = Some c -> owner k c cs = false ->
  do_teardown ideal k c cs = upd_conn k mark_torn cs.
Proof.
  intros I H O. unfold do_teardown. cbn [q_takeover_teardown_unguarded ideal orb]. rewrite O.
  apply remove_client_noop. intros j R. destruct (upd_conn_fields k mark_torn cs) as [F1 _]. rewrite F1 in R.
  destruct (iR cs I _ R) as [cj [G [L _]]]. exists cj. split; [|exact L].
  rewrite upd_conn_conns. destruct (j =? k) eqn:E; [|exact G].
  apply Z.eqb_eq in E. subst. exfalso. exact (not_owner_reg k c cs I H O R).
Qed.

Lemma nonowner_inv k cs : CInv cs -> reg cs <> Some k -> CInv (upd_conn k mark_torn cs).
Proof.
  intros I NR. destruct (upd_conn_fields k mark_torn cs) as [F1 [F2 [F3 [F4 F5]]]].
  assert (forall x, get_sess (upd_conn k mark_torn cs) x = get_sess cs x) as GE by (intro x; apply get_sess_upd_conn).
  constructor.
  - intros k0 R. rewrite F1 in R. destruct (iR cs I _ R) as [c1 [A1 [A2 [A3 A4]]]]. exists c1.
    rewrite upd_conn_conns, F2. destruct (k0 =? k) eqn:E; [apply Z.eqb_eq in E; subst; contradiction|]. tauto.
  - intros k0 c0 X L. apply upd_conn_trace in X; [|reflexivity|reflexivity].
    destruct X as [c1 [A1 [_ A3]]]. destruct (A3 L) as [B1 _]. rewrite F1. exact (iL cs I _ _ A1 B1).
  - intros k0 c0 X. apply upd_conn_trace in X; [|reflexivity|reflexivity].
    destruct X as [c1 [A1 [A2 _]]]. rewrite A2. exact (iB cs I _ _ A1).
  - intros sid X. rewrite F2 in X. rewrite F3, F5, GE. exact (iS cs I _ X).
  - rewrite F2, F5. exact (iN cs I).
  - intros k0 sid R M. rewrite F1 in R. rewrite F2 in M. rewrite F5, GE. exact (iF cs I _ _ R M).
  - intros k0 sid R M. rewrite F1 in R. rewrite F2 in M. rewrite F4, GE. exact (iD cs I _ _ R M).
  - rewrite F3. exact (iU cs I).
  - rewrite F4. exact (iUd cs I).
Qed.

Lemma upd_sess_eq sid f cs s0 :
  zget sid (heap cs) = Some s0 -> upd_sess sid f cs = set_heap (zset sid (f s0) (heap cs)) cs.
Proof. intro H. unfold upd_sess. rewrite H. reflexivity. Qed.

Lemma delete_session_fields cs :
  smp (delete_session cs) = smp cs /\ heap (delete_session cs) = heap cs /\ dbv (delete_session cs) = dbv cs /\
  tri (delete_session cs) = tri cs /\ reg (delete_session cs) = None /\
  (forall k0 c0, zget k0 (conns (delete_session cs)) = Some c0 ->
     exists c1, zget k0 (conns cs) = Some c1 /\ c_resub c0 = c_resub c1 /\ (c_live c0 = true -> c_live c1 = true)) /\
  (forall k0 c1, zget k0 (conns cs) = Some c1 -> exists c0, zget k0 (conns (delete_session cs)) = Some c0).
Proof.
  unfold delete_session. destruct (reg cs) as [j|] eqn:R.
  - destruct (upd_conn_fields j mark_dead cs) as [F1 [F2 [F3 [F4 F5]]]]. cbn [smp heap dbv tri reg conns set_reg].
    split; [exact F2|]. split; [exact F3|]. split; [exact F4|]. split; [exact F5|]. split; [reflexivity|]. split.
    + intros k0 c0 X. apply upd_conn_trace in X; [|reflexivity|reflexivity].
      destruct X as [c1 [A1 [A2 A3]]]. exists c1. split; [exact A1|]. split; [exact A2|]. intro L. apply A3. exact L.
    + intros k0 c1 X. rewrite upd_conn_conns. destruct (k0 =? j) eqn:E; [|exists c1; exact X].
      apply Z.eqb_eq in E. subst. rewrite X. simpl. eexists. reflexivity.
  - split; [reflexivity|]. split; [reflexivity|]. split; [reflexivity|]. split; [reflexivity|]. split; [exact R|]. split.
    + intros k0 c0 X. exists c0. tauto.
    + intros k0 c1 X. exists c1. exact X.
Qed.

Lemma cleanup_fields c cs sid s0 :
  smp cs = Some sid -> c_sess c = sid -> zget sid (heap cs) = Some s0 ->
  let cs' := cleanup c cs in
  smp cs' = None /\ tri cs' = adel_all String.eqb (map fst (s_topics s0)) (tri cs) /\
  dbv cs' = (if s_clean s0 then None else dbv cs) /\
  reg cs' = (if s_clean s0 then None else reg cs) /\
  heap cs' = zset sid (close_sess s0) (heap cs) /\
  (forall k0 c0, zget k0 (conns cs') = Some c0 ->
     exists c1, zget k0 (conns cs) = Some c1 /\ c_resub c0 = c_resub c1 /\ (c_live c0 = true -> c_live c1 = true)) /\
  (forall k0 c1, zget k0 (conns cs) = Some c1 -> exists c0, zget k0 (conns cs') = Some c0).
Proof.
  intros M CS H0. cbv zeta. unfold cleanup. rewrite M, CS.
  rewrite (upd_sess_eq sid close_sess (set_smp None cs) s0 H0).
  set (cs1 := set_heap (zset sid (close_sess s0) (heap (set_smp None cs))) (set_smp None cs)).
  assert (get_sess cs1 sid = close_sess s0) as G1
      by (unfold get_sess, cs1; cbn [heap set_heap]; rewrite zget_set_same; reflexivity).
  rewrite G1. cbn [s_clean close_sess].
  destruct (s_clean s0) eqn:CL.
  - destruct (delete_session_fields (set_dbv None cs1)) as [D1 [D2 [D3 [D4 [D5 [D6 D7]]]]]].
    set (cs2 := delete_session (set_dbv None cs1)) in *.
    assert (get_sess cs2 sid = close_sess s0) as G2 by (unfold get_sess; rewrite D2; exact G1).
    rewrite G2. cbn [s_topics close_sess]. unfold tri_unsub. cbn [smp tri dbv reg heap conns set_tri].
    rewrite D1, D2, D3, D4, D5.
    split; [reflexivity|]. split; [reflexivity|]. split; [reflexivity|]. split; [reflexivity|]. split; [reflexivity|].
    split; [exact D6 | exact D7].
  - rewrite G1. cbn [s_topics close_sess]. unfold tri_unsub. cbn.
    split; [reflexivity|]. split; [reflexivity|]. split; [reflexivity|]. split; [reflexivity|]. split; [reflexivity|].
    split; [intros k0 c0 X; exists c0; tauto | intros k0 c1 X; exists c1; exact X].
Qed.

Lemma remove_client_reg cs :
  (forall j, reg cs = Some j -> exists cj, zget j (conns cs) = Some cj /\ c_live cj = false) ->
  reg (remove_client cs) = None.
Proof.
  unfold remove_client. destruct (reg cs) as [j|] eqn:R; [|intros _; exact R].
  intro H. destruct (H j eq_refl) as [cj [G L]]. rewrite G, L. reflexivity.
Qed.

(** the teardown of the owner ends the session: registration, session-map entry and subscriptions go;
    the stored copy goes iff the session was clean *)
Lemma owner_inv k c cs :
  CInv cs -> zget k (conns cs) = Some c -> owner k c cs = true ->
  let cs' := do_teardown ideal k c cs in
  CInv cs' /\ reg cs' = None /\ smp cs' = None /\ tempty (tri cs') /\
  dbv cs' = (if s_clean (get_sess cs (c_sess c)) then None else dbv cs) /\
  (forall k0, zget k0 (conns cs) = None -> zget k0 (conns cs') = None).
Proof.
  intros I H O. cbv zeta. unfold do_teardown. cbn [q_takeover_teardown_unguarded ideal orb]. rewrite O.
  unfold owner in O. apply andb_true_iff in O as [O1 O2].
  destruct (smp cs) as [sid|] eqn:M; [|discriminate]. apply Z.eqb_eq in O2.
  destruct (iS cs I sid M) as [[s0 H0] [CL TS]].
  assert (get_sess cs sid = s0) as GS by (unfold get_sess; rewrite H0; reflexivity).
  rewrite <- O2. rewrite GS in *.
  destruct (cleanup_fields c cs sid s0 M (eq_sym O2) H0) as [K1 [K2 [K3 [K4 [K5 [K6 K7]]]]]].
  set (cs3 := cleanup c cs) in *.
  destruct (upd_conn_fields k mark_torn cs3) as [F1 [F2 [F3 [F4 F5]]]].
  set (cs4 := upd_conn k mark_torn cs3) in *.
  destruct (remove_client_fields cs4) as [R2 [R3 [R4 [R5 [R6 _]]]]].
  assert (reg (remove_client cs4) = None) as RN.
  { apply remove_client_reg. intros j RJ. rewrite F1, K4 in RJ.
    destruct (s_clean s0); [discriminate|]. rewrite RJ in O1. apply Z.eqb_eq in O1. subst j.
    destruct (K7 _ _ H) as [c3 G3]. exists (mark_torn c3). split; [|reflexivity].
    unfold cs4. rewrite upd_conn_conns, Z.eqb_refl, G3. reflexivity. }
  set (cs5 := remove_client cs4) in *.
  assert (forall k0 c0, zget k0 (conns cs5) = Some c0 ->
            exists c1, zget k0 (conns cs) = Some c1 /\ c_resub c0 = c_resub c1 /\ c_live c0 = false) as DEAD.
  { intros k0 c0 X. rewrite R6 in X. apply upd_conn_trace in X; [|reflexivity|reflexivity].
    destruct X as [c3 [A1 [A2 A3]]]. destruct (K6 _ _ A1) as [c1 [B1 [B2 B3]]].
    exists c1. split; [exact B1|]. split; [congruence|].
    destruct (c_live c0) eqn:L; [|reflexivity]. exfalso.
    destruct (A3 eq_refl) as [L3 NE]. pose proof (iL cs I _ _ B1 (B3 L3)) as RR.
    rewrite RR in O1. apply Z.eqb_eq in O1. contradiction. }
  assert (tempty (tri cs5)) as TE by (rewrite R5, F5, K2; apply unsub_all_empty; exact TS).
  split; [|split; [exact RN|]; split; [rewrite R2, F2; exact K1|]; split; [exact TE|];
            split; [rewrite R4, F4; exact K3|];
            intros k0 X; destruct (zget k0 (conns cs5)) as [c0|] eqn:G; [|reflexivity];
            destruct (DEAD _ _ G) as [c1 [A1 _]]; congruence].
  constructor.
  - rewrite RN. discriminate.
  - intros k0 c0 X L. destruct (DEAD _ _ X) as [c1 [_ [_ D]]]. congruence.
  - intros k0 c0 X. destruct (DEAD _ _ X) as [c1 [A1 [A2 _]]]. rewrite A2. exact (iB cs I _ _ A1).
  - rewrite R2, F2, K1. discriminate.
  - intros _. exact TE.
  - rewrite RN. discriminate.
  - rewrite RN. discriminate.
  - intros x s1 X. rewrite R3, F3, K5 in X. destruct (Z.eq_dec x sid) as [E|N].
    + subst. rewrite zget_set_same in X. inversion X; subst. simpl. exact (iU cs I _ _ H0).
    + rewrite zget_set_other in X by exact N. exact (iU cs I _ _ X).
  - intros cl tp X. rewrite R4, F4, K3 in X. destruct (s_clean s0); [discriminate|]. exact (iUd cs I _ _ X).
Qed.

(** ** a foreign write of the stored session while nobody is registered *)
Lemma storeput_inv tp cs : CInv cs -> reg cs = None ->
  CInv (set_dbv (Some (false, aset_all String.eqb tp [])) cs).
Proof.
  intros I R. constructor; cbn [reg smp heap dbv tri conns set_dbv].
  - rewrite R. discriminate.
  - exact (iL cs I).
  - exact (iB cs I).
  - exact (iS cs I).
  - exact (iN cs I).
  - rewrite R. discriminate.
  - rewrite R. discriminate.
  - exact (iU cs I).
  - intros cl tp0 X. inversion X; subst. apply (NoDup_keys_aset_all String.eqb string_eqb_spec). constructor.
Qed.

(** ** every step preserves the invariant *)
Lemma cstep_inv cs e : CInv cs -> CInv (cstep ideal cs e).
Proof.
  intro I. destruct e as [k clean|k|k fs|k fs|k| |tp]; cbn [cstep].
  - destruct (zget k (conns cs)) eqn:G; [exact I|]. apply (connect_effect k clean cs I G).
  - destruct (zget k (conns cs)) as [c|] eqn:G; [|exact I]. rewrite (iB cs I _ _ G). exact I.
  - destruct (zget k (conns cs)) as [c|] eqn:G; [|exact I].
    destruct (c_live c && c_resub c && negb (c_torn c)) eqn:E; [|exact I].
    apply andb_true_iff in E as [E _]. apply andb_true_iff in E as [L _].
    apply (modify_inv (aset_all String.eqb fs) k c cs); try assumption.
    + intros a b. apply tsub_aset_all.
    + intros a. apply (NoDup_keys_aset_all String.eqb string_eqb_spec).
  - destruct (zget k (conns cs)) as [c|] eqn:G; [|exact I].
    destruct (c_live c && c_resub c && negb (c_torn c)) eqn:E; [|exact I].
    apply andb_true_iff in E as [E _]. apply andb_true_iff in E as [L _].
    apply (modify_inv (adel_all String.eqb fs) k c cs); try assumption.
    + intros a b. apply tsub_adel_all.
    + intros a. apply (NoDup_keys_adel_all String.eqb string_eqb_spec).
  - destruct (zget k (conns cs)) as [c|] eqn:G; [|exact I].
    destruct (c_resub c && negb (c_torn c)); [|exact I].
    destruct (owner k c cs) eqn:O.
    + apply (owner_inv k c cs I G O).
    + rewrite (teardown_nonowner k c cs I G O). apply nonowner_inv; [exact I|]. exact (not_owner_reg k c cs I G O).
  - apply admin_inv. exact I.
  - destruct (reg cs) as [j|] eqn:R; [exact I|]. apply storeput_inv; assumption.
Qed.

Theorem crun_inv es : forall cs, CInv cs -> CInv (crun ideal cs es).
Proof.
  unfold crun. induction es as [|e t IH]; intros cs I; simpl; [exact I|]. apply IH. apply cstep_inv. exact I.
Qed.

(** ** the property theorems (per client id) *)

Definition reachable (cs : cstate) : Prop := exists es, cs = crun ideal cstate0 es.

Lemma reachable_inv cs : reachable cs -> CInv cs.
Proof. intros [es E]. subst. apply crun_inv. exact inv0. Qed.

(** whatever happened before - takeovers, and teardowns of superseded connections at any point - the
    connection registered for the client id has its session in the session map, open, stored, and the
    trie holds exactly that session's subscriptions *)
Theorem current_connection_intact es :
  let cs := crun ideal cstate0 es in
  forall k, reg cs = Some k ->
  exists c s, zget k (conns cs) = Some c /\ c_live c = true /\ c_torn c = false /\
              smp cs = Some (c_sess c) /\ zget (c_sess c) (heap cs) = Some s /\ s_closed s = false /\
              (forall f, sget f (tri cs) = sget f (s_topics s)) /\
              dbv cs = Some (s_clean s, s_topics s).
Proof.
  cbv zeta. intros k R. pose proof (crun_inv es cstate0 inv0) as I. set (cs := crun ideal cstate0 es) in *.
  destruct (iR cs I _ R) as [c [G [L [T M]]]].
  destruct (iS cs I _ M) as [[s H] [CL TS]].
  assert (get_sess cs (c_sess c) = s) as GS by (unfold get_sess; rewrite H; reflexivity).
  pose proof (iF cs I _ _ R M) as TF. pose proof (iD cs I _ _ R M) as D. rewrite GS in *.
  exists c, s. repeat split; try assumption.
  intro f. destruct (sget f (tri cs)) as [q|] eqn:X.
  - symmetry. apply TS. exact X.
  - destruct (sget f (s_topics s)) as [q|] eqn:Y; [|reflexivity]. apply TF in Y. congruence.
Qed.

(** the teardown of a connection that does not own the client id any more changes nothing but that
    connection's own status *)
Theorem superseded_teardown_is_noop es k j :
  let cs := crun ideal cstate0 es in
  reg cs = Some j -> j <> k ->
  let cs' := cstep ideal cs (CTeardown k) in
  reg cs' = reg cs /\ smp cs' = smp cs /\ heap cs' = heap cs /\ dbv cs' = dbv cs /\ tri cs' = tri cs /\
  (forall k0, k0 <> k -> zget k0 (conns cs') = zget k0 (conns cs)).
Proof.
  cbv zeta. intros R N. pose proof (crun_inv es cstate0 inv0) as I. set (cs := crun ideal cstate0 es) in *.
  cbn [cstep]. destruct (zget k (conns cs)) as [c|] eqn:G; [|repeat split; reflexivity].
  destruct (c_resub c && negb (c_torn c)); [|repeat split; reflexivity].
  assert (owner k c cs = false) as O.
  { unfold owner. rewrite R. destruct (j =? k) eqn:E; [apply Z.eqb_eq in E; contradiction | reflexivity]. }
  rewrite (teardown_nonowner k c cs I G O).
  destruct (upd_conn_fields k mark_torn cs) as [F1 [F2 [F3 [F4 F5]]]].
  repeat split; try assumption.
  intros k0 NE. rewrite upd_conn_conns. destruct (k0 =? k) eqn:E; [apply Z.eqb_eq in E; contradiction | reflexivity].
Qed.

(** cleanSession=false: the previous subscriptions are back (both after a drop of the old connection and
    when taking it over while it is still registered) *)
Theorem reconnect_restores_subscriptions es k sid k' (drop_first : bool) :
  let cs := crun ideal cstate0 es in
  reg cs = Some k -> smp cs = Some sid -> s_clean (get_sess cs sid) = false ->
  zget k' (conns cs) = None ->
  let tp := s_topics (get_sess cs sid) in
  let cs1 := if drop_first then cstep ideal cs (CTeardown k) else cs in
  let cs2 := cstep ideal cs1 (CConnect k' false) in
  reg cs2 = Some k' /\ (forall f, sget f (tri cs2) = sget f tp) /\
  (exists sid', smp cs2 = Some sid' /\ s_topics (get_sess cs2 sid') = tp) /\ dbv cs2 = Some (false, tp).
Proof.
  cbv zeta. intros R M NC FR. pose proof (crun_inv es cstate0 inv0) as I. set (cs := crun ideal cstate0 es) in *.
  set (tp := s_topics (get_sess cs sid)).
  assert (forall cs1, CInv cs1 -> prev_sess cs1 = Some (false, tp) -> zget k' (conns cs1) = None ->
            let cs2 := cstep ideal cs1 (CConnect k' false) in
            reg cs2 = Some k' /\ (forall f, sget f (tri cs2) = sget f tp) /\
            (exists sid', smp cs2 = Some sid' /\ s_topics (get_sess cs2 sid') = tp) /\ dbv cs2 = Some (false, tp)) as GO.
  { intros cs1 I1 P1 F1. cbv zeta. cbn [cstep]. rewrite F1.
    destruct (connect_effect k' false cs1 I1 F1) as [_ [R2 [sid' [M2 [_ [_ RS]]]]]].
    destruct (RS tp eq_refl P1) as [T2 [E2 D2]].
    split; [exact R2|]. split; [exact E2|]. split; [exists sid'; tauto | exact D2]. }
  destruct drop_first.
  - destruct (iR cs I _ R) as [c [G [L [T MS]]]]. rewrite M in MS. inversion MS; subst sid.
    cbn [cstep]. rewrite G, (iB cs I _ _ G), T. cbn [negb andb].
    assert (owner k c cs = true) as O by (unfold owner; rewrite R, M, !Z.eqb_refl; reflexivity).
    destruct (owner_inv k c cs I G O) as [I1 [R1 [M1 [T1 [D1 C1]]]]].
    apply GO; [exact I1| |apply C1; exact FR].
    unfold prev_sess. rewrite M1, D1. fold tp. rewrite NC. rewrite (iD cs I _ _ R M), NC. reflexivity.
  - apply GO; [exact I| |exact FR]. unfold prev_sess. rewrite M, NC. reflexivity.
Qed.

(** with nobody connected and no live session object, a persistent session written into the storage (by another
    broker instance) is what the next cleanSession=false connect gets *)
Theorem reconnect_reads_store es tp k' :
  let cs := crun ideal cstate0 es in
  reg cs = None -> smp cs = None -> zget k' (conns cs) = None ->
  let cs2 := cstep ideal (cstep ideal cs (CStorePut tp)) (CConnect k' false) in
  reg cs2 = Some k' /\ (forall f, sget f (tri cs2) = sget f (aset_all String.eqb tp [])).
Proof.
  cbv zeta. intros R M FR. pose proof (crun_inv es cstate0 inv0) as I. set (cs := crun ideal cstate0 es) in *.
  pose proof (cstep_inv cs (CStorePut tp) I) as I1.
  assert (cstep ideal cs (CStorePut tp) = set_dbv (Some (false, aset_all String.eqb tp [])) cs) as E
      by (cbn [cstep]; rewrite R; reflexivity).
  rewrite E in *. set (cs1 := set_dbv (Some (false, aset_all String.eqb tp [])) cs) in *.
  assert (zget k' (conns cs1) = None) as F1 by exact FR.
  cbn [cstep]. rewrite F1.
  destruct (connect_effect k' false cs1 I1 F1) as [_ [R2 [sid' [_ [_ [_ RS]]]]]].
  assert (prev_sess cs1 = Some (false, aset_all String.eqb tp [])) as P by (unfold prev_sess; cbn [smp cs1 set_dbv dbv]; rewrite M; reflexivity).
  destruct (RS _ eq_refl P) as [_ [E2 _]]. split; [exact R2 | exact E2].
Qed.

(** cleanSession=true: the previous session is discarded - no subscription survives, whatever the state *)
Theorem clean_discards es k' :
  let cs := crun ideal cstate0 es in
  zget k' (conns cs) = None ->
  let cs' := cstep ideal cs (CConnect k' true) in
  reg cs' = Some k' /\ tempty (tri cs') /\ dbv cs' = Some (true, []) /\
  exists sid, smp cs' = Some sid /\ s_topics (get_sess cs' sid) = [].
Proof.
  cbv zeta. intro FR. pose proof (crun_inv es cstate0 inv0) as I. set (cs := crun ideal cstate0 es) in *.
  cbn [cstep]. rewrite FR.
  destruct (connect_effect k' true cs I FR) as [_ [R2 [sid [M2 [_ [CL _]]]]]].
  destruct (CL eq_refl) as [T0 [TE D]].
  split; [exact R2|]. split; [exact TE|]. split; [exact D|]. exists sid. tauto.
Qed.

(** deleting the session through the admin endpoint unregisters and closes the client (pinned code too) *)
Theorem admin_delete_disconnects q cs k c :
  reg cs = Some k -> zget k (conns cs) = Some c ->
  let cs' := cstep q cs CAdminDelete in
  reg cs' = None /\ dbv cs' = None /\ exists c', zget k (conns cs') = Some c' /\ c_live c' = false.
Proof.
  cbv zeta. intros R G. destruct (admin_effect q cs) as [A1 [A2 [_ [_ [_ [A3 _]]]]]].
  split; [exact A1|]. split; [exact A2|]. exact (A3 k R c G).
Qed.

(** the admin delete in two steps - close the connection that is registered now, later unregister - with the
    second step removing only the connection the first one looked up: a connection that took the id in between
    keeps its registration *)
Definition admin_begin (cs : cstate) : cstate :=
  match reg cs with
  | Some j => upd_conn j mark_dead (set_dbv None cs)
  | None => set_dbv None cs
  end.

Definition admin_end (looked_up : option Z) (cs : cstate) : cstate :=
  match looked_up, reg cs with
  | Some a, Some b => if a =? b then set_reg None cs else cs
  | _, _ => cs
  end.

Lemma admin_two_step q cs : cstep q cs CAdminDelete = admin_end (reg cs) (admin_begin cs).
Proof.
  cbn [cstep]. unfold delete_session, admin_begin, admin_end. cbn [reg set_dbv].
  destruct (reg cs) as [j|] eqn:R.
  - destruct (upd_conn_fields j mark_dead (set_dbv None cs)) as [F1 _]. rewrite F1. cbn [reg set_dbv].
    rewrite R, Z.eqb_refl. reflexivity.
  - cbn [reg set_dbv]. reflexivity.
Qed.

Theorem admin_unregister_guarded cs k looked_up :
  reg cs = Some k -> looked_up <> Some k -> admin_end looked_up cs = cs.
Proof.
  intros R N. unfold admin_end. rewrite R. destruct looked_up as [a|]; [|reflexivity].
  destruct (a =? k) eqn:E; [|reflexivity]. apply Z.eqb_eq in E. subst. contradiction.
Qed.

(** a registration ends only by the connection's own teardown, a later CONNECT for the id, or an admin delete *)
Theorem registration_survives es k e :
  let cs := crun ideal cstate0 es in
  reg cs = Some k ->
  e <> CTeardown k -> (forall k' cl, e <> CConnect k' cl) -> e <> CAdminDelete ->
  reg (cstep ideal cs e) = Some k.
Proof.
  cbv zeta. intros R N1 N2 N3. pose proof (crun_inv es cstate0 inv0) as I. set (cs := crun ideal cstate0 es) in *.
  destruct e as [k0 clean|k0|k0 fs|k0 fs|k0| |tp0]; cbn [cstep].
  - exfalso. exact (N2 k0 clean eq_refl).
  - destruct (zget k0 (conns cs)) as [c|] eqn:G; [|exact R]. rewrite (iB cs I _ _ G). exact R.
  - destruct (zget k0 (conns cs)) as [c|] eqn:G; [|exact R].
    destruct (c_live c && c_resub c && negb (c_torn c)) eqn:E; [|exact R].
    apply andb_true_iff in E as [E _]. apply andb_true_iff in E as [L _].
    destruct (modify_inv (aset_all String.eqb fs) k0 c cs) as [_ [R' _]]; try assumption.
    + intros a b. apply tsub_aset_all.
    + intros a. apply (NoDup_keys_aset_all String.eqb string_eqb_spec).
    + unfold tri_sub. rewrite R'. exact R.
  - destruct (zget k0 (conns cs)) as [c|] eqn:G; [|exact R].
    destruct (c_live c && c_resub c && negb (c_torn c)) eqn:E; [|exact R].
    apply andb_true_iff in E as [E _]. apply andb_true_iff in E as [L _].
    destruct (modify_inv (adel_all String.eqb fs) k0 c cs) as [_ [R' _]]; try assumption.
    + intros a b. apply tsub_adel_all.
    + intros a. apply (NoDup_keys_adel_all String.eqb string_eqb_spec).
    + unfold tri_unsub. rewrite R'. exact R.
  - assert (k <> k0) as NK by (intro X; subst; apply N1; reflexivity).
    destruct (superseded_teardown_is_noop es k0 k R NK) as [R' _]. cbn [cstep] in R'. fold cs in R'. rewrite R'. exact R.
  - exfalso. apply N3. reflexivity.
  - rewrite R. exact R.
Qed.

(** ** the broker is the product of the per-id machines *)
Fixpoint project (ow : list (Z * string)) (cid : string) (es : list ev) : list cev :=
  match es with
  | [] => []
  | e :: t =>
      let here (k : Z) (ce : cev) : list cev :=
        match zget k ow with
        | Some c => if String.eqb c cid then [ce] else []
        | None => []
        end in
      match e with
      | Connect k c clean =>
          match zget k ow with
          | Some _ => project ow cid t
          | None => (if String.eqb c cid then [CConnect k clean] else []) ++ project (zset k c ow) cid t
          end
      | Resubscribe k => here k (CResubscribe k) ++ project ow cid t
      | Subscribe k fs => here k (CSubscribe k fs) ++ project ow cid t
      | Unsubscribe k fs => here k (CUnsubscribe k fs) ++ project ow cid t
      | Teardown k => here k (CTeardown k) ++ project ow cid t
      | AdminDelete c => (if String.eqb c cid then [CAdminDelete] else []) ++ project ow cid t
      | StorePut c tp => (if String.eqb c cid then [CStorePut tp] else []) ++ project ow cid t
      | Publish _ => project ow cid t
      end
  end.

Lemma cget_at_cid q c e st cid :
  cget (at_cid q c e st) cid = if String.eqb c cid then cstep q (cget st cid) e else cget st cid.
Proof.
  unfold cget, at_cid. cbn [cids]. destruct (String.eqb c cid) eqn:E.
  - apply String.eqb_eq in E. subst. rewrite sget_set_same. reflexivity.
  - apply String.eqb_neq in E. rewrite sget_set_other by congruence. reflexivity.
Qed.

Theorem run_projection q cid es : forall st,
  cget (run q st es) cid = crun q (cget st cid) (project (owners st) cid es).
Proof.
  unfold run, crun. induction es as [|e t IH]; intro st; [reflexivity|].
  cbn [fold_left project].
  assert (forall k ce, cget (at_owner q k ce st) cid =
                       fold_left (cstep q) (match zget k (owners st) with
                                            | Some c => if String.eqb c cid then [ce] else []
                                            | None => [] end) (cget st cid)
                       /\ owners (at_owner q k ce st) = owners st) as AO.
  { intros k ce. unfold at_owner. destruct (zget k (owners st)) as [c|]; [|split; reflexivity].
    rewrite cget_at_cid. destruct (String.eqb c cid); split; reflexivity. }
  destruct e as [k c clean|k|k fs|k fs|k|c|c tp0|tp]; cbn [step].
  - destruct (zget k (owners st)) eqn:G; [apply IH|].
    rewrite IH. cbn [owners]. rewrite fold_left_app. f_equal.
    unfold cget. cbn [cids]. destruct (String.eqb c cid) eqn:E.
    + apply String.eqb_eq in E. subst. rewrite sget_set_same. reflexivity.
    + apply String.eqb_neq in E. rewrite sget_set_other by congruence. reflexivity.
  - rewrite IH. destruct (AO k (CResubscribe k)) as [A1 A2]. rewrite A2, fold_left_app, A1. reflexivity.
  - rewrite IH. destruct (AO k (CSubscribe k fs)) as [A1 A2]. rewrite A2, fold_left_app, A1. reflexivity.
  - rewrite IH. destruct (AO k (CUnsubscribe k fs)) as [A1 A2]. rewrite A2, fold_left_app, A1. reflexivity.
  - rewrite IH. destruct (AO k (CTeardown k)) as [A1 A2]. rewrite A2, fold_left_app, A1. reflexivity.
  - rewrite IH. cbn [owners at_cid]. rewrite fold_left_app. f_equal.
    rewrite cget_at_cid. destruct (String.eqb c cid); reflexivity.
  - rewrite IH. cbn [owners at_cid]. rewrite fold_left_app. f_equal.
    rewrite cget_at_cid. destruct (String.eqb c cid); reflexivity.
  - apply IH.
Qed.

(** ** the pinned code: shortest takeover trace after which the live connection receives nothing *)
Definition only_takeover : quirks :=
  {| q_mqtt_lowqos_return := false; q_mqtt_overlap_last_qos := false; q_takeover_teardown_unguarded := true |}.

Definition takeover_trace : list ev :=
  [Connect 1 "dev" false; Resubscribe 1; Subscribe 1 [("a/b", 1)]%string;
   Connect 2 "dev" false; Resubscribe 2; Teardown 1; Publish "a/b"]%string.

Theorem refuted_takeover :
  let m := fun f => String.eqb f "a/b" in
  let bad := run only_takeover state0 takeover_trace in
  let good := run ideal state0 takeover_trace in
  reg (cget bad "dev") = Some 2 /\ receivers m bad = [] /\ smp (cget bad "dev") = None /\
  reg (cget good "dev") = Some 2 /\ receivers m good = [2].
Proof. vm_compute. repeat split; reflexivity. Qed.

Example life_nonvacuous :
  let es := [CConnect 1 false; CSubscribe 1 [("a/b", 1); ("x/#", 0)]%string; CConnect 2 false; CTeardown 1;
             CUnsubscribe 2 ["x/#"]%string; CTeardown 2; CConnect 3 false] in
  let cs := crun ideal cstate0 es in
  reg cs = Some 3 /\ tri cs = [("a/b", 1)]%string /\ dbv cs = Some (false, [("a/b", 1)]%string).
Proof. vm_compute. repeat split; reflexivity. Qed.
