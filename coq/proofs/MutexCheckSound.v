(** C18: soundness of the trace-level property checkers of model/MutexCheck.v
    ([mx_prop], [api_prop] - the `prop` bit evaluated on the implementation's own
    observed histories) against declarative statements of the property over
    observed histories of any length.  The statements quantify explicitly over
    positions (splits [pre ++ e :: post] of the history) and attempts / requests;
    they do not mention the checker functions. *)
From EG.lib Require Import Base.
From EG.model Require Import Mutex MutexCheck.
From EG.proofs Require Import MutexProofs MutexProofsApi.
From Coq Require Import Permutation.
Open Scope Z_scope.

(** ** group mx: the event log of the cluster mutex *)

(** attempt [a] holds the lock after the prefix [pre] of the log: its acquisition is in [pre]
    and no release of [a] comes after it in [pre] *)
Definition holding (pre : list (Z * nat)) (a : nat) : Prop :=
  exists l1 l2, pre = l1 ++ (0, a) :: l2 /\ ~ In (1, a) l2.

(** the same relative to a holder [h] inherited from before the log (proof device only) *)
Definition holding_from (h : option nat) (pre : list (Z * nat)) (a : nat) : Prop :=
  (h = Some a /\ ~ In (1, a) pre) \/ holding pre a.

Definition ev_next (h : option nat) (e : Z * nat) : option nat :=
  if fst e =? 0 then Some (snd e) else if fst e =? 1 then None else h.

Lemma holding_nil a : ~ holding [] a.
Proof. intros (l1 & l2 & E & _). destruct l1; discriminate. Qed.

Lemma holding_cons e pre a : holding pre a -> holding (e :: pre) a.
Proof. intros (l1 & l2 & -> & H). exists (e :: l1), l2. split; [reflexivity|assumption]. Qed.

Lemma holding_cons_inv e pre a :
  holding (e :: pre) a -> (e = (0, a) /\ ~ In (1, a) pre) \/ holding pre a.
Proof.
  intros (l1 & l2 & E & H). destruct l1 as [|y l1]; cbn in E; inversion E; subst.
  - left. auto.
  - right. exists l1, l2. auto.
Qed.

Lemma holding_step c h code x rest :
  mx_prop_ev c h ((code, x) :: rest) = true ->
  mx_prop_ev c (ev_next h (code, x)) rest = true /\
  forall pre a, holding_from h ((code, x) :: pre) a <-> holding_from (ev_next h (code, x)) pre a.
Proof.
  unfold ev_next. cbn [mx_prop_ev fst snd]. intros H.
  destruct (code =? 0) eqn:E0.
  { apply Z.eqb_eq in E0. subst code. destruct h as [b|]; [discriminate|]. split; [exact H|].
    intros pre a. split.
    - intros [(Hh & _)|Hh]; [discriminate|].
      apply holding_cons_inv in Hh. destruct Hh as [(E & Hn)|Hh].
      + inversion E; subst. left. auto.
      + right. exact Hh.
    - intros [(Hh & Hn)|Hh].
      + inversion Hh; subst. right. exists [], pre. auto.
      + right. apply holding_cons. exact Hh. }
  destruct (code =? 1) eqn:E1.
  { apply Z.eqb_eq in E1. subst code. destruct h as [b|]; [|discriminate].
    apply andb_true_iff in H. destruct H as (Hx & H). apply Nat.eqb_eq in Hx. subst b. split; [exact H|].
    intros pre a. split.
    - intros [(Hh & Hn)|Hh].
      + inversion Hh; subst. exfalso. apply Hn. left. reflexivity.
      + apply holding_cons_inv in Hh. destruct Hh as [(E & _)|Hh]; [discriminate|]. right. exact Hh.
    - intros [(Hh & _)|Hh]; [discriminate|]. right. apply holding_cons. exact Hh. }
  assert (Hrest : mx_prop_ev c h rest = true).
  { destruct (code =? 2); [apply andb_true_iff in H; apply H|].
    destruct (code =? 3); [apply andb_true_iff in H; apply H|].
    destruct (code =? 5); [exact H|].
    destruct (code =? 6); [exact H|discriminate]. }
  split; [exact Hrest|].
  intros pre a. split.
  - intros [(Hh & Hn)|Hh].
    + left. split; [exact Hh|]. intros Hi. apply Hn. right. exact Hi.
    + apply holding_cons_inv in Hh. destruct Hh as [(E & _)|Hh].
      * inversion E; subst. discriminate.
      * right. exact Hh.
  - intros [(Hh & Hn)|Hh].
    + left. split; [exact Hh|]. intros [E|Hi]; [|exact (Hn Hi)]. inversion E; subst. discriminate.
    + right. apply holding_cons. exact Hh.
Qed.

(** after any prefix of an accepted log the checker's state is exactly the (unique) holder *)
Lemma holding_char c pre : forall h post,
  mx_prop_ev c h (pre ++ post) = true ->
  (forall a, fold_left ev_next pre h = Some a <-> holding_from h pre a) /\
  mx_prop_ev c (fold_left ev_next pre h) post = true.
Proof.
  induction pre as [|[code x] pre IH]; intros h post H; cbn [fold_left app] in *.
  - split; [|exact H]. intros a. split.
    + intros ->. left. auto.
    + intros [(Hh & _)|Hh]; [exact Hh|]. exfalso. exact (holding_nil _ Hh).
  - destruct (holding_step _ _ _ _ _ H) as (H' & Hiff).
    destruct (IH _ _ H') as (IH1 & IH2). split; [|exact IH2].
    intros a. rewrite IH1. symmetry. apply Hiff.
Qed.

Lemma fails_are_short c : forall ev h a,
  mx_prop_ev c h ev = true -> In (2, a) ev -> is_short c a = true.
Proof.
  induction ev as [|[code x] ev IH]; intros h a H Hin; [contradiction|].
  destruct (holding_step _ _ _ _ _ H) as (H' & _).
  destruct Hin as [E|Hin]; [|eapply IH; eassumption].
  inversion E; subst. cbn in H. apply andb_true_iff in H. apply H.
Qed.

Lemma keys_zero_free c : forall pre h n post,
  mx_prop_ev c h (pre ++ (3, n) :: post) = true ->
  n = O /\ fold_left ev_next pre h = None.
Proof.
  intros pre h n post H. destruct (holding_char c pre h _ H) as (_ & H').
  cbn in H'. apply andb_true_iff in H'. destruct H' as (H' & _).
  apply andb_true_iff in H'. destruct H' as (Hn & Hh). apply Nat.eqb_eq in Hn.
  split; [exact Hn|]. destruct (fold_left ev_next pre h); [discriminate|reflexivity].
Qed.

Lemma nodup_nat_sound l : nodup_nat l = true -> NoDup l.
Proof.
  induction l as [|x t IH]; cbn; intros H; constructor.
  - apply andb_true_iff in H. destruct H as (H & _). apply negb_true_iff in H.
    apply memb_false in H. exact H.
  - apply IH. apply andb_true_iff in H. apply H.
Qed.

Definition acqfail (e : Z * nat) : bool := let '(k, _) := e in (k =? 0) || (k =? 2).

Lemma acqfail_length ev :
  List.length (filter acqfail ev) = (count_code 0 ev + count_code 2 ev)%nat.
Proof.
  unfold count_code. induction ev as [|[k x] ev IH]; [reflexivity|].
  cbn [filter acqfail]. destruct (k =? 0) eqn:E0; destruct (k =? 2) eqn:E2; cbn [orb List.length]; try lia;
    apply Z.eqb_eq in E0; apply Z.eqb_eq in E2; lia.
Qed.

Lemma acqfail_In ev a : In a (map snd (filter acqfail ev)) <-> In (0, a) ev \/ In (2, a) ev.
Proof.
  rewrite in_map_iff. split.
  - intros ([k x] & E & Hin). cbn in E. subst x. apply filter_In in Hin. destruct Hin as (Hin & Hk).
    cbn in Hk. apply orb_true_iff in Hk. destruct Hk as [Hk|Hk]; apply Z.eqb_eq in Hk; subst; auto.
  - intros [H|H]; eexists; (split; [|apply filter_In; split; [exact H|reflexivity]]); reflexivity.
Qed.

Lemma pair_eq_dec (x y : Z * nat) : {x = y} + {x <> y}.
Proof. decide equality; [apply Nat.eq_dec|apply Z.eq_dec]. Qed.

(** *** soundness of [mx_prop] *)
Theorem mx_prop_sound c :
  mx_prop c = true ->
  let ev := x_ev c in
  (* (a) mutual exclusion: after every prefix of the history at most one attempt holds the lock ... *)
  (forall pre post a b, ev = pre ++ post -> holding pre a -> holding pre b -> a = b) /\
  (*     ... a release is by the attempt that holds, an acquisition happens while nobody holds *)
  (forall pre post a, ev = pre ++ (1, a) :: post -> holding pre a) /\
  (forall pre post a b, ev = pre ++ (0, a) :: post -> ~ holding pre b) /\
  (*     ... attempts are not confused: every attempt acquires or fails at most once; the harness'
         own counter of threads inside the critical section never exceeded one *)
  NoDup (map snd (filter acqfail ev)) /\
  (x_maxov c <= 1) /\
  (* (b) a failed Lock: only attempts with a short time-out fail; the failing attempt never holds the lock; *)
  (forall a, In (2, a) ev ->
     is_short c a = true /\ ~ In (0, a) ev /\ forall pre post, ev = pre ++ post -> ~ holding pre a) /\
  (*     the lock stays usable for the others: every attempt with an ample time-out - those after a failure
         included - did acquire it, and every acquisition was followed by its release *)
  (forall a, (a < List.length (x_thr c))%nat -> is_short c a = false -> In (0, a) ev) /\
  (forall l1 l2 a, ev = l1 ++ (0, a) :: l2 -> In (1, a) l2) /\
  (*     at every key-count snapshot (taken when all attempts of a phase have ended) and at the end of the
         history nobody holds the lock and etcd has no lock key *)
  (forall pre n post, ev = pre ++ (3, n) :: post -> n = O /\ forall a, ~ holding pre a) /\
  (forall a, ~ holding ev a) /\
  (* the members are distinct: names, lease keys, leases *)
  (forall l, In l (x_ids c) -> NoDup l).
Proof.
  unfold mx_prop. intros H.
  apply andb_true_iff in H; destruct H as (H & Hrange).
  apply andb_true_iff in H; destruct H as (H & Hnodup).
  apply andb_true_iff in H; destruct H as (H & Hrel).
  apply andb_true_iff in H; destruct H as (H & Hcount).
  apply andb_true_iff in H; destruct H as (H & Hnonempty).
  apply andb_true_iff in H; destruct H as (H & Hids).
  apply andb_true_iff in H; destruct H as (Hev & Hmax).
  cbv zeta.
  change (fun '(k, _) => (k =? 0) || (k =? 2)) with acqfail in *.
  assert (Hchar : forall pre post, x_ev c = pre ++ post ->
            forall a, fold_left ev_next pre None = Some a <-> holding pre a).
  { intros pre post E a. rewrite E in Hev. destruct (holding_char c pre None post Hev) as (Hc & _).
    rewrite Hc. unfold holding_from. split; [intros [(D & _)|D]; [discriminate|exact D]|auto]. }
  assert (Hnd : NoDup (map snd (filter acqfail (x_ev c)))) by (apply nodup_nat_sound; assumption).
  assert (Hend : forall a, ~ holding (x_ev c) a).
  { intros a Hh. apply (Hchar (x_ev c) [] (eq_sym (app_nil_r _))) in Hh.
    destruct (holding_char c (x_ev c) None []) as (_ & Hc); [rewrite app_nil_r; exact Hev|].
    rewrite Hh in Hc. discriminate. }
  assert (Hfail : forall a, In (2, a) (x_ev c) -> is_short c a = true /\ ~ In (0, a) (x_ev c)).
  { intros a Hin. split; [eapply fails_are_short; eassumption|].
    intros Hacq. apply in_split in Hin. destruct Hin as (l1 & l2 & E).
    rewrite E in Hnd, Hacq. rewrite filter_app, map_app in Hnd. cbn in Hnd.
    apply NoDup_remove_2 in Hnd. apply Hnd. rewrite <- map_app, <- filter_app.
    apply acqfail_In. left. apply in_app_iff in Hacq. apply in_app_iff.
    destruct Hacq as [Hacq|[Hacq|Hacq]]; auto. discriminate. }
  split; [|split; [|split; [|split; [|split; [|split; [|split; [|split; [|split; [|split]]]]]]]]].
  - intros pre post a b E Ha Hb. apply (Hchar _ _ E) in Ha. apply (Hchar _ _ E) in Hb. congruence.
  - intros pre post a E. apply (Hchar _ _ E). rewrite E in Hev.
    destruct (holding_char c pre None _ Hev) as (_ & Hc). cbn in Hc.
    destruct (fold_left ev_next pre None) as [b|]; [|discriminate].
    apply andb_true_iff in Hc. destruct Hc as (Hc & _). apply Nat.eqb_eq in Hc. congruence.
  - intros pre post a b E Hb. apply (Hchar _ _ E) in Hb. rewrite E in Hev.
    destruct (holding_char c pre None _ Hev) as (_ & Hc). cbn in Hc. rewrite Hb in Hc. discriminate.
  - exact Hnd.
  - apply Z.leb_le. assumption.
  - intros a Hin. destruct (Hfail a Hin) as (F1 & F2). split; [exact F1|]. split; [exact F2|].
    intros pre post E (l1 & l2 & E2 & _). apply F2. rewrite E, E2.
    apply in_app_iff. left. apply in_app_iff. right. left. reflexivity.
  - intros a Ha Hs.
    set (l := map snd (filter acqfail (x_ev c))) in *.
    assert (Hlen : List.length l = List.length (x_thr c)).
    { unfold l. rewrite map_length, acqfail_length. apply Nat.eqb_eq. assumption. }
    assert (Hincl : incl l (seq 0 (List.length (x_thr c)))).
    { intros x Hx. apply List.in_seq. rewrite forallb_forall in Hrange. specialize (Hrange x Hx).
      apply Nat.ltb_lt in Hrange. lia. }
    assert (Hin : In a l).
    { apply (@NoDup_length_incl _ l (seq 0 (List.length (x_thr c))) Hnd); auto.
      - rewrite seq_length. lia.
      - apply List.in_seq. lia. }
    apply acqfail_In in Hin. destruct Hin as [Hin|Hin]; [exact Hin|].
    destruct (Hfail a Hin) as (F1 & _). congruence.
  - intros l1 l2 a E. destruct (in_dec pair_eq_dec (1, a) l2) as [Hin|Hn]; [exact Hin|].
    exfalso. apply (Hend a). exists l1, l2. auto.
  - intros pre n post E. rewrite E in Hev. destruct (keys_zero_free c pre None n post Hev) as (Hn & Hf).
    split; [exact Hn|]. intros a Hh. apply (Hchar pre ((3, n) :: post) E) in Hh. congruence.
  - exact Hend.
  - intros l Hl. apply nodup_nat_sound. rewrite forallb_forall in Hids. apply Hids. exact Hl.
Qed.

(** ** group api: histories of admin-API requests *)

(** sequential replay of a sequence of requests that had an effect (successes; mutations that a failing
    cluster operation cut short after their object write) *)
Definition replay_ops (st : store) (l : list (nat * aop)) : store :=
  fold_left (fun s x => eff_apply s (snd x)) l st.

Definition succP (x : nat * aop) : bool := is_succ (snd x).

Lemma replay_ops_app st l1 l2 : replay_ops st (l1 ++ l2) = replay_ops (replay_ops st l1) l2.
Proof. apply fold_left_app. Qed.

Lemma ins_ver_perm x l : Permutation (ins_ver x l) (x :: l).
Proof.
  induction l as [|y t IH]; cbn; [reflexivity|].
  destruct (o_ver (snd x) <=? o_ver (snd y)); [reflexivity|].
  rewrite IH. apply perm_swap.
Qed.

Lemma sort_ver_perm l : Permutation (sort_ver l) l.
Proof.
  induction l as [|x t IH]; cbn; [reflexivity|].
  rewrite ins_ver_perm. constructor. exact IH.
Qed.

Lemma is_succ_not_part o : is_succ o = true -> is_part o = false.
Proof.
  unfold is_succ, is_part, is_err. intros H.
  apply andb_true_iff in H. destruct H as (_ & H). apply orb_true_iff in H.
  destruct (500 <=? o_status o) eqn:E; [|rewrite !andb_false_r; try reflexivity; destruct (o_hit o && negb (o_bad o) && is_mut (o_req o)); reflexivity].
  apply Z.leb_le in E. destruct H as [H|H]; apply Z.eqb_eq in H; lia.
Qed.

Lemma last_scan st l d : last (scan_states st l) d = replay_ops st l.
Proof.
  revert st. induction l as [|[i o] t IH]; intros st; [reflexivity|].
  cbn [scan_states]. change (replay_ops st ((i, o) :: t)) with (replay_ops (eff_apply st o) t).
  rewrite <- IH. destruct t as [|[j p] t]; reflexivity.
Qed.

Lemma succ_legal_split : forall l1 st x l2,
  succ_legal st (l1 ++ x :: l2) = true -> eff_legal (replay_ops st l1) (snd x) = true.
Proof.
  induction l1 as [|[i o] l1 IH]; intros st [j p] l2 H; cbn in H; apply andb_true_iff in H; destruct H as (H1 & H2).
  - exact H1.
  - apply (IH _ _ _ H2).
Qed.

Lemma nth_scan : forall l st i s',
  nth_error (scan_states st l) i = Some s' ->
  exists l1 l2, l = l1 ++ l2 /\ List.length l1 = i /\ s' = replay_ops st l1.
Proof.
  induction l as [|[j o] t IH]; intros st i s' H.
  - destruct i as [|i]; cbn in H; [|destruct i; discriminate]. inversion H; subst. exists [], []. auto.
  - destruct i as [|i]; cbn in H.
    + inversion H; subst. exists [], ((j, o) :: t). auto.
    + destruct (IH _ _ _ H) as (l1 & l2 & E & Hl & Hs). exists ((j, o) :: l1), l2.
      subst. repeat split; cbn; auto.
Qed.

Lemma find_pos_sound f lo hi : forall sts i0 j,
  find_pos sts f i0 lo hi = Some j ->
  exists st, nth_error sts (j - i0) = Some st /\ explains st f = true /\ (i0 <= j)%nat.
Proof.
  induction sts as [|st t IH]; intros i0 j H; cbn in H; [discriminate|].
  destruct (Nat.leb lo i0 && Nat.leb i0 hi && explains st f) eqn:E.
  - inversion H; subst. exists st. rewrite Nat.sub_diag. apply andb_true_iff in E. cbn. intuition.
  - destruct (IH _ _ H) as (st' & Hn & He & Hle). exists st'.
    replace (j - i0)%nat with (S (j - S i0)) by lia. cbn. intuition lia.
Qed.

(** a request outside the sequence that the checker accepted is explained by the state after some prefix *)
Lemma position_sound v0 seq st0 f j :
  position v0 seq (scan_states st0 seq) f = Some j ->
  exists l1 l2, seq = l1 ++ l2 /\ explains (replay_ops st0 l1) f = true.
Proof.
  unfold position. intros H.
  destruct (o_hit f || _); [|discriminate].
  destruct (find_pos_sound _ _ _ _ _ _ H) as (st & Hn & He & _).
  destruct (nth_scan _ _ _ _ Hn) as (l1 & l2 & E & _ & Hs). subst st. eauto.
Qed.

Lemma rt_ok_split : forall l1 x l2 y,
  rt_ok (l1 ++ x :: l2) = true -> In y l2 -> o_call (snd x) <= o_ret (snd y).
Proof.
  induction l1 as [|[i o] l1 IH]; intros [j p] l2 [k q] H Hin; cbn in H; apply andb_true_iff in H; destruct H as (H1 & H2).
  - rewrite forallb_forall in H1. specialize (H1 _ Hin). cbn in H1. apply negb_true_iff in H1.
    apply Z.ltb_ge in H1. exact H1.
  - eapply IH; eassumption.
Qed.

(** *** the candidate sequences: the successes in version order with the cut-short mutations inserted *)
Lemma all_inserts_In {A} (x : A) : forall l l', In l' (all_inserts x l) ->
  exists l1 l2, l = l1 ++ l2 /\ l' = l1 ++ x :: l2.
Proof.
  induction l as [|y t IH]; intros l' H; cbn in H.
  - destruct H as [<-|[]]. exists [], []. auto.
  - destruct H as [<-|H]; [exists [], (y :: t); auto|].
    apply in_map_iff in H. destruct H as (l'' & <- & H).
    destruct (IH _ H) as (l1 & l2 & -> & ->). exists (y :: l1), l2. auto.
Qed.

Section Cand.
Variable succ0 : list (nat * aop).
Variable P : nat * aop -> Prop.     (* membership in the pool the inserted elements come from *)

Definition cand_ok (seq : list (nat * aop)) : Prop :=
  filter succP seq = succ0 /\ forall x, In x seq -> In x succ0 \/ (succP x = false /\ P x).

Lemma cand_fold : forall parts acc,
  (forall p, In p parts -> succP p = false /\ P p) ->
  (forall s, In s acc -> cand_ok s) ->
  forall s, In s (fold_left (fun acc p => flat_map (all_inserts p) acc) parts acc) -> cand_ok s.
Proof.
  induction parts as [|p parts IH]; intros acc Hp Hacc s Hs; cbn in Hs; [auto|].
  eapply IH; [| |exact Hs].
  - intros q Hq. apply Hp. right. exact Hq.
  - intros s' Hs'. apply in_flat_map in Hs'. destruct Hs' as (s0 & Hs0 & Hins).
    destruct (all_inserts_In _ _ _ Hins) as (l1 & l2 & -> & ->).
    destruct (Hacc _ Hs0) as (Hf & Hm). destruct (Hp p (or_introl eq_refl)) as (Hps & HpP).
    split.
    + rewrite filter_app. cbn [filter]. rewrite Hps. rewrite <- filter_app. exact Hf.
    + intros x Hx. apply in_app_iff in Hx. destruct Hx as [Hx|[<-|Hx]].
      * apply Hm. apply in_app_iff. auto.
      * right. auto.
      * apply Hm. apply in_app_iff. auto.
Qed.
End Cand.

(** *** stores *)
Lemma alookup_In {A} n (o : list (string * A)) v : alookup n o = Some v -> In (n, v) o.
Proof.
  induction o as [|[k w] t IH]; cbn; [discriminate|].
  destruct (String.eqb_spec n k).
  - intros E. inversion E; subst. left. reflexivity.
  - intros E. right. apply IH. exact E.
Qed.

Lemma str_pair_eqb_eq a b : str_pair_eqb a b = true -> a = b.
Proof.
  destruct a, b. unfold str_pair_eqb. cbn. intros H. apply andb_true_iff in H. destruct H as (H1 & H2).
  apply String.eqb_eq in H1. apply String.eqb_eq in H2. congruence.
Qed.

Lemma objs_sub_lookup o1 o2 n kb : objs_sub o1 o2 = true -> alookup n o1 = Some kb -> alookup n o2 = Some kb.
Proof.
  unfold objs_sub. intros H E. apply alookup_In in E. rewrite forallb_forall in H.
  specialize (H _ E). cbn in H. destruct (alookup n o2) as [kb'|]; [|discriminate].
  apply str_pair_eqb_eq in H. congruence.
Qed.

(** two stores the checker considers equal hold the same object under every name *)
Lemma objs_eqb_sound o1 o2 : objs_eqb o1 o2 = true -> forall n, alookup n o1 = alookup n o2.
Proof.
  unfold objs_eqb. intros H n.
  apply andb_true_iff in H. destruct H as (H & H21).
  apply andb_true_iff in H. destruct H as (_ & H12).
  destruct (alookup n o1) as [kb|] eqn:E1.
  - symmetry. eapply objs_sub_lookup; eassumption.
  - destruct (alookup n o2) as [kb|] eqn:E2; [|reflexivity].
    rewrite (objs_sub_lookup _ _ _ _ H21 E2) in E1. discriminate.
Qed.

(** *** what legality of one element means *)
Lemma eff_legal_succ st o :
  is_part o = false -> eff_legal st o = true ->
  spec_result st (o_req o) = ROk (o_status o) (o_ver o) /\ o_ver o = snd st + 1 /\
  precheck (fst st) (o_req o) = None /\ is_mut (o_req o) = true /\
  eff_apply st o = (apply_objs (o_req o) (fst st), snd st + 1).
Proof.
  unfold eff_legal, eff_apply. intros -> H.
  destruct (spec_result st (o_req o)) as [cd v| | | |] eqn:E; try discriminate.
  apply andb_true_iff in H. destruct H as (H1 & H2). apply Z.eqb_eq in H1. apply Z.eqb_eq in H2. subst.
  destruct (is_mut (o_req o)) eqn:Hm.
  - pose proof (spec_result_mut st _ Hm) as Hs. destruct (precheck (fst st) (o_req o)).
    + destruct Hs as (Hs & _). congruence.
    + destruct Hs as (Hs1 & Hs2). rewrite Hs1 in E. inversion E. repeat split; auto.
  - exfalso. destruct (o_req o); try discriminate; cbn in E; discriminate.
Qed.

Lemma eff_legal_part st o :
  is_part o = true -> eff_legal st o = true ->
  precheck (fst st) (o_req o) = None /\ eff_apply st o = (apply_objs (o_req o) (fst st), snd st).
Proof.
  unfold eff_legal, eff_apply. intros -> H. destruct (precheck (fst st) (o_req o)); [discriminate|auto].
Qed.

(** the version after a legal sequence counts its successes *)
Lemma replay_ops_version : forall l st,
  succ_legal st l = true ->
  (forall x, In x l -> succP x = true \/ is_part (snd x) = true) ->
  snd (replay_ops st l) = snd st + Z.of_nat (List.length (filter succP l)).
Proof.
  induction l as [|[i o] l IH]; intros st H Hm; [cbn; lia|].
  cbn in H. apply andb_true_iff in H. destruct H as (H1 & H2).
  change (replay_ops st ((i, o) :: l)) with (replay_ops (eff_apply st o) l).
  rewrite (IH _ H2) by (intros x Hx; apply Hm; right; exact Hx).
  cbn [filter]. unfold succP at 2. cbn [snd].
  destruct (Hm (i, o) (or_introl eq_refl)) as [Hs|Hp]; unfold succP in *; cbn [snd] in *.
  - rewrite Hs. destruct (eff_legal_succ _ _ (is_succ_not_part _ Hs) H1) as (_ & _ & _ & _ & E).
    rewrite E. cbn [snd List.length]. lia.
  - destruct (eff_legal_part _ _ Hp H1) as (_ & E). rewrite E. cbn [snd].
    destruct (is_succ o) eqn:Hs; [apply is_succ_not_part in Hs; congruence|]. lia.
Qed.

(** without cut-short mutations the replay is the plain sequential one *)
Lemma replay_ops_plain : forall l st,
  (forall x, In x l -> is_part (snd x) = false) ->
  replay_ops st l = fold_left spec_apply (map (fun x => o_req (snd x)) l) st.
Proof.
  induction l as [|[i o] l IH]; intros st H; [reflexivity|].
  cbn [map fold_left]. change (replay_ops st ((i, o) :: l)) with (replay_ops (eff_apply st o) l).
  rewrite IH by (intros x Hx; apply H; right; exact Hx).
  unfold eff_apply. pose proof (H (i, o) (or_introl eq_refl)) as Hp. cbn [snd] in Hp. rewrite Hp. reflexivity.
Qed.

Lemma zseq_NoDup' a n : NoDup (zseq a n).
Proof. apply zseq_NoDup. Qed.

Lemma filter_all {A} (f : A -> bool) l : (forall x, In x l -> f x = true) -> filter f l = l.
Proof.
  induction l as [|x t IH]; intros H; [reflexivity|]. cbn. rewrite (H x (or_introl eq_refl)).
  f_equal. apply IH. intros y Hy. apply H. right. exact Hy.
Qed.

(** what an accepted answer of a request outside the sequence means at a state of the replay *)
Definition answer_explained (st : store) (f : aop) : Prop :=
  match spec_result st (o_req f) with
  | RFail code => o_status f = code /\ spec_apply st (o_req f) = st   (* 409 / 400 / 404: nothing changes *)
  | RRead None => o_status f = 404
  | RRead (Some (k, b)) => o_status f = 200 /\ o_rkind f = k /\ o_rbody f = b
  | RNoopDone => o_req f = RCustom \/ o_req f = RNoop
                 (* a request of the custom-data API, or a member purge: outside the replay sequence, so it
                    changed neither an object nor the version *)
  | _ => False
  end.

Lemma explains_sound st f : o_hit f = false -> explains st f = true -> answer_explained st f.
Proof.
  unfold explains, answer_explained. intros -> H.
  destruct (spec_result st (o_req f)) as [| code | [[k b]|] | |] eqn:E; try discriminate.
  - apply Z.eqb_eq in H. split; [exact H|]. eapply spec_apply_fail. exact E.
  - apply andb_true_iff in H. destruct H as (H & H3). apply andb_true_iff in H. destruct H as (H1 & H2).
    apply Z.eqb_eq in H1. apply String.eqb_eq in H2. apply String.eqb_eq in H3. auto.
  - apply Z.eqb_eq in H. exact H.
  - apply orb_true_iff in H. destruct H as [H|H]; apply andb_true_iff in H; destruct H as (H & _);
      destruct (o_req f); try discriminate; auto.
Qed.

(** *** soundness of [api_prop] *)
Theorem api_prop_sound c :
  api_prop c = true ->
  let ops := index_from 0 (a_ops c) in
  let st0 := (a_init c, a_v0 c) in
  let succ := api_succ c in
  (* exclusion against a member that sits in its critical section: no request that needs the cluster lock
     and was answered from inside it starts and completes between the stamps of such a hold *)
  (forall acq rel f, In (acq, rel) (a_holds c) -> In f (a_ops c) -> locked_done f = true ->
     ~ (acq < o_call f /\ o_ret f < rel)) /\
  (* the successful mutations, ordered by the version they returned, ... *)
  Permutation succ (filter succP ops) /\
  (* ... returned v0+1, v0+2, ...: strictly increasing by one, no gap, no duplicate *)
  map (fun x => o_ver (snd x)) succ = zseq (a_v0 c + 1) (List.length succ) /\
  NoDup (map (fun x => o_ver (snd x)) succ) /\
  exists seq,
    (* seq = those successes in version order, with the mutations that a failing cluster operation cut
       short after their object write (5xx answers of the fault-injection cases) somewhere in between *)
    filter succP seq = succ /\
    (forall x, In x seq -> In x ops /\ (is_succ (snd x) = true \/ is_part (snd x) = true)) /\
    ((forall x, In x ops -> is_part (snd x) = false) -> seq = succ) /\
    (* every element is legal where it stands in the sequential replay: a success passes the check, returns
       the code of the specification and the NEXT version, and changes the store as specified *)
    (forall l1 x l2, seq = l1 ++ x :: l2 ->
       let st := replay_ops st0 l1 in
       if is_part (snd x)
       then precheck (fst st) (o_req (snd x)) = None /\
            replay_ops st0 (l1 ++ [x]) = (apply_objs (o_req (snd x)) (fst st), snd st)
       else spec_result st (o_req (snd x)) = ROk (o_status (snd x)) (o_ver (snd x)) /\
            o_ver (snd x) = snd st + 1 /\
            replay_ops st0 (l1 ++ [x]) = (apply_objs (o_req (snd x)) (fst st), snd st + 1)) /\
    (* real-time order: what comes later in the replay did not return before the earlier one was called *)
    (forall l1 x l2 y, seq = l1 ++ x :: l2 -> In y l2 -> o_call (snd x) <= o_ret (snd y)) /\
    (* the final listing and the final version are the replay: nothing but the elements of seq changed the
       store, and the version grew by exactly one per successful mutation *)
    (forall n, alookup n (fst (replay_ops st0 seq)) = alookup n (a_final c)) /\
    snd (replay_ops st0 seq) = a_finalver c /\
    a_finalver c = a_v0 c + Z.of_nat (List.length succ) /\
    ((forall x, In x ops -> is_part (snd x) = false) ->
       replay_ops st0 seq = fold_left spec_apply (map (fun x => o_req (snd x)) succ) st0) /\
    (* every other request (409 / 400 / 404, reads) is answered as the specification answers at some point
       of the replay, where - for a failed mutation - it changes neither store nor version; malformed
       requests get 400; requests hit by an injected fault outside the sequence get 5xx *)
    (forall x, In x ops -> in_seq (snd x) = false -> no_thread (snd x) = false -> o_hit (snd x) = false ->
       exists l1 l2, seq = l1 ++ l2 /\ answer_explained (replay_ops st0 l1) (snd x)) /\
    (forall x, In x ops -> in_seq (snd x) = false -> o_hit (snd x) = true -> 500 <= o_status (snd x)) /\
    (forall x, In x ops -> in_seq (snd x) = false -> o_bad (snd x) = true -> o_hit (snd x) = false ->
       o_status (snd x) = 400).
Proof.
  unfold api_prop. intros H. apply andb_true_iff in H. destruct H as (H & Hex).
  apply andb_true_iff in H. destruct H as (Hholds & Hver). cbv zeta.
  split.
  { intros acq rel f Hh Hf Hl (H1 & H2). unfold holds_ok in Hholds. rewrite forallb_forall in Hholds.
    specialize (Hholds _ Hh). cbn in Hholds. rewrite forallb_forall in Hholds. specialize (Hholds _ Hf).
    rewrite Hl in Hholds. apply Z.ltb_lt in H1. apply Z.ltb_lt in H2. rewrite H1, H2 in Hholds. discriminate. }
  set (ops := index_from 0 (a_ops c)). set (st0 := (a_init c, a_v0 c)). set (succ := api_succ c) in *.
  apply (list_eqb_spec Z.eqb Z.eqb_eq) in Hver.
  assert (Hperm : Permutation succ (filter succP ops)) by apply sort_ver_perm.
  assert (Hsuccin : forall x, In x succ -> In x ops /\ succP x = true).
  { intros x Hx. apply (Permutation_in _ Hperm) in Hx. apply filter_In in Hx. exact Hx. }
  split; [exact Hperm|]. split; [exact Hver|]. split; [rewrite Hver; apply zseq_NoDup|].
  apply existsb_exists in Hex. destruct Hex as (seq & Hcand & Hchk). exists seq.
  assert (Hok : cand_ok succ (fun x => In x ops /\ is_part (snd x) = true) seq).
  { unfold candidates in Hcand. eapply cand_fold; [| |exact Hcand].
    - intros p Hp. unfold api_parts in Hp. apply filter_In in Hp. destruct Hp as (Hp1 & Hp2).
      apply andb_true_iff in Hp2. destruct Hp2 as (Hp2 & Hp3). apply negb_true_iff in Hp3. unfold succP. auto.
    - intros s [<-|[]]. split; [|auto]. apply filter_all. intros x Hx. apply Hsuccin. exact Hx. }
  destruct Hok as (Hfilt & Hmem).
  assert (Hmem' : forall x, In x seq -> In x ops /\ (is_succ (snd x) = true \/ is_part (snd x) = true)).
  { intros x Hx. destruct (Hmem x Hx) as [Hs|(_ & Ho & Hp)]; [destruct (Hsuccin x Hs); auto|auto]. }
  unfold seq_check in Hchk. fold ops st0 in Hchk. rewrite last_scan in Hchk.
  apply andb_true_iff in Hchk; destruct Hchk as (Hchk & Hall).
  apply andb_true_iff in Hchk; destruct Hchk as (Hchk & Hfv). apply Z.eqb_eq in Hfv.
  apply andb_true_iff in Hchk; destruct Hchk as (Hchk & Hobj).
  apply andb_true_iff in Hchk; destruct Hchk as (Hleg & Hrt).
  rewrite forallb_forall in Hall.
  assert (Hnopart : (forall x, In x ops -> is_part (snd x) = false) -> seq = succ).
  { intros Hn. rewrite <- Hfilt. symmetry. apply filter_all. intros x Hx.
    destruct (Hmem' x Hx) as (Ho & [Hs|Hp]); [exact Hs|]. rewrite (Hn x Ho) in Hp. discriminate. }
  assert (Hcount : snd (replay_ops st0 seq) = a_v0 c + Z.of_nat (List.length succ)).
  { rewrite (replay_ops_version seq st0 Hleg); [rewrite Hfilt; reflexivity|].
    intros x Hx. destruct (Hmem' x Hx) as (_ & Hd). exact Hd. }
  split; [exact Hfilt|]. split; [exact Hmem'|]. split; [exact Hnopart|].
  split.
  { intros l1 x l2 E. cbv zeta. rewrite E in Hleg. pose proof (succ_legal_split _ _ _ _ Hleg) as Hl.
    rewrite replay_ops_app. cbn [replay_ops fold_left]. fold (replay_ops st0 l1).
    destruct (is_part (snd x)) eqn:Hp.
    - destruct (eff_legal_part _ _ Hp Hl) as (A & B). auto.
    - destruct (eff_legal_succ _ _ Hp Hl) as (A & B & _ & _ & D). auto. }
  split.
  { intros l1 x l2 y E Hy. rewrite E in Hrt. eapply rt_ok_split; eassumption. }
  split; [apply objs_eqb_sound; exact Hobj|].
  split; [exact Hfv|].
  split; [rewrite <- Hfv; exact Hcount|].
  split.
  { intros Hn. rewrite (Hnopart Hn). apply replay_ops_plain. intros x Hx. apply Hn. apply Hsuccin. exact Hx. }
  split.
  { intros x Hx Hs Hnt Hh. specialize (Hall x Hx). cbv zeta in Hall. rewrite Hs, Hnt in Hall.
    destruct (position (a_v0 c) seq (scan_states st0 seq) (snd x)) as [j|] eqn:Ep; [|discriminate].
    destruct (position_sound _ _ _ _ _ Ep) as (l1 & l2 & E & He). exists l1, l2. split; [exact E|].
    apply explains_sound; assumption. }
  split.
  { intros x Hx Hs Hh. specialize (Hall x Hx). cbv zeta in Hall. rewrite Hs in Hall.
    destruct (no_thread (snd x)).
    - rewrite Hh in Hall. apply Z.leb_le. exact Hall.
    - destruct (position (a_v0 c) seq (scan_states st0 seq) (snd x)) as [j|] eqn:Ep; [|discriminate].
      destruct (position_sound _ _ _ _ _ Ep) as (l1 & l2 & E & He). unfold explains in He. rewrite Hh in He.
      apply andb_true_iff in He. destruct He as (He & _). apply Z.leb_le. exact He. }
  { intros x Hx Hs Hb Hh. specialize (Hall x Hx). cbv zeta in Hall. rewrite Hs in Hall.
    unfold no_thread in Hall. rewrite Hb, Hh in Hall. cbn in Hall. apply Z.eqb_eq. exact Hall. }
Qed.

(** *** non-vacuity: concrete non-trivial histories the checkers accept *)
Definition ex_mx_case : mx_case :=
  {| x_thr := [(0, 0, false); (1, 0, true); (1, 0, false); (2, 0, false)]%nat;
     x_ev := [(0, 0%nat); (5, 0%nat); (2, 1%nat); (1, 0%nat); (3, 0%nat); (0, 3%nat); (1, 3%nat); (0, 2%nat); (1, 2%nat); (3, 0%nat)];
     x_maxov := 1;
     x_ids := [[0; 1; 2]; [0; 1; 2]; [0; 1; 2]]%nat |}.

Example mx_prop_nonvacuous :
  mx_prop ex_mx_case = true /\ holding [(0, 0%nat); (5, 0%nat); (2, 1%nat)] 0%nat.
Proof.
  split; [vm_compute; reflexivity|]. exists [], [(5, 0%nat); (2, 1%nat)]. split; [reflexivity|].
  cbn. intros [E|[E|[]]]; discriminate.
Qed.

Definition ex_op (r : req) (call ret status ver : Z) : aop :=
  {| o_mem := O; o_req := r; o_bad := false; o_fk := O; o_hit := false; o_call := call; o_ret := ret;
     o_status := status; o_ver := ver; o_rkind := ""; o_rbody := "" |}.

(** two clients: create a (v8) | create a (409), update with another kind (400), update (v9) while a read
    runs, delete by the second member (v10), read (404) *)
Definition ex_api_case : api_case :=
  {| a_v0 := 7; a_init := [("b", ("K1", "keep"))]%string;
     a_ops := [ ex_op (RCreate "a" "K1" "x") 1 4 201 8;
                ex_op (RCreate "a" "K1" "y") 2 6 409 7;
                ex_op (RUpdate "a" "K2" "z") 7 8 400 8;
                ex_op (RUpdate "a" "K1" "w") 9 12 200 9;
                {| o_mem := 1%nat; o_req := RGet "a"; o_bad := false; o_fk := O; o_hit := false; o_call := 10; o_ret := 11;
                   o_status := 200; o_ver := 8; o_rkind := "K1"; o_rbody := "x" |};
                {| o_mem := 1%nat; o_req := RDelete "a"; o_bad := false; o_fk := O; o_hit := false; o_call := 13; o_ret := 14;
                   o_status := 200; o_ver := 10; o_rkind := ""; o_rbody := "" |};
                ex_op (RGet "a") 15 16 404 10 ];
     a_final := [("b", ("K1", "keep"))]%string; a_finalver := 10; a_conc := true; a_holds := [(0, 1)] |}.

Example api_prop_nonvacuous :
  api_prop ex_api_case = true /\
  map (fun x => (fst x, o_ver (snd x))) (api_succ ex_api_case) = [(0%nat, 8); (3%nat, 9); (5%nat, 10)].
Proof. vm_compute. split; reflexivity. Qed.
