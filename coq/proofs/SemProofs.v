(** C17 proofs, part 1: the weighted semaphore, the accounting invariant of the
    Semaphore/LimitListener transition system and its preservation by every step. *)
From EG.lib Require Import Base.
From EG.model Require Import Sem.
From Coq Require Import ZifyBool.
Open Scope Z_scope.

(** ** bookkeeping functions *)


Lemma count_who_cons x w l :
  count_who x (w :: l) = if who_eqb (fst w) x then count_who x l + 1 else count_who x l.
Proof. reflexivity. Qed.
Lemma qshr_cons w l : qshr (w :: l) = match fst w with WAdj => qshr l + snd w | WAcc => qshr l end.
Proof. reflexivity. Qed.
Lemma zsum_cons x l : zsum (x :: l) = x + zsum l.
Proof. reflexivity. Qed.
Lemma wsum_cons w l : wsum (w :: l) = snd w + wsum l.
Proof. reflexivity. Qed.
Lemma count_who_nil x : count_who x [] = 0. Proof. reflexivity. Qed.
Lemma qshr_nil : qshr [] = 0. Proof. reflexivity. Qed.
Lemma zsum_nil : zsum [] = 0. Proof. reflexivity. Qed.
Lemma wsum_nil : wsum [] = 0. Proof. reflexivity. Qed.

Lemma count_who_app x a b : count_who x (a ++ b) = count_who x a + count_who x b.
Proof.
  induction a as [|w a IH]; [rewrite count_who_nil; reflexivity|].
  rewrite <- app_comm_cons, !count_who_cons, IH. destruct (who_eqb (fst w) x); lia.
Qed.

Lemma qshr_app a b : qshr (a ++ b) = qshr a + qshr b.
Proof.
  induction a as [|w a IH]; [rewrite qshr_nil; reflexivity|].
  rewrite <- app_comm_cons, !qshr_cons, IH. destruct (fst w); lia.
Qed.

Lemma count_who_nonneg x l : 0 <= count_who x l.
Proof.
  induction l as [|w l IH]; [rewrite count_who_nil; lia|].
  rewrite count_who_cons. destruct (who_eqb (fst w) x); lia.
Qed.

Lemma zsum_app a b : zsum (a ++ b) = zsum a + zsum b.
Proof.
  induction a as [|x a IH]; [rewrite zsum_nil; reflexivity|].
  rewrite <- app_comm_cons, !zsum_cons, IH. lia.
Qed.

Lemma zsum_remove_nth : forall i l d, nth_error l i = Some d -> zsum (remove_nth i l) = zsum l - d.
Proof.
  induction i as [|i IH]; intros [|x l] d H; cbn in H; try discriminate.
  - inversion H; subst. cbn [remove_nth]. rewrite zsum_cons. lia.
  - cbn [remove_nth]. rewrite !zsum_cons, (IH _ _ H). lia.
Qed.

Lemma Forall_remove_nth {A} (P : A -> Prop) : forall i l, Forall P l -> Forall P (remove_nth i l).
Proof.
  induction i as [|i IH]; intros [|x l] H; cbn [remove_nth]; auto.
  - inversion H; auto.
  - inversion H; subst. constructor; auto.
Qed.

Lemma nth_error_Forall {A} (P : A -> Prop) : forall i l d, Forall P l -> nth_error l i = Some d -> P d.
Proof.
  induction i as [|i IH]; intros [|x l] d H E; cbn in E; try discriminate; inversion H; subst.
  - inversion E; subst; auto.
  - eauto.
Qed.

(** ** well-formed queues *)

Definition waiter_ok (sz : Z) (w : waiter) : Prop :=
  match fst w with WAcc => snd w = 1 | WAdj => 0 < snd w <= sz end.

Definition wq_ok (sz : Z) (q : list waiter) : Prop := Forall (waiter_ok sz) q.

Definition head_blocked (sz c : Z) (q : list waiter) : Prop :=
  match q with [] => True | w :: _ => sz - c < snd w end.

Lemma wsum_split sz q : wq_ok sz q -> wsum q = count_who WAcc q + qshr q.
Proof.
  induction 1 as [|w q Hw _ IH]; [reflexivity|].
  rewrite wsum_cons, count_who_cons, qshr_cons.
  unfold waiter_ok in Hw. destruct w as [x n]; cbn [fst snd] in *. destruct x; cbn [who_eqb]; lia.
Qed.

Lemma qshr_nonneg sz q : wq_ok sz q -> 0 <= qshr q.
Proof.
  induction 1 as [|w q Hw _ IH]; [rewrite qshr_nil; lia|]. rewrite qshr_cons.
  unfold waiter_ok in Hw. destruct (fst w); lia.
Qed.

Lemma count_adj_zero_qshr sz q : wq_ok sz q -> count_who WAdj q = 0 -> qshr q = 0.
Proof.
  induction 1 as [|w q Hw _ IH]; [reflexivity|].
  rewrite count_who_cons, qshr_cons. intro E.
  pose proof (count_who_nonneg WAdj q). destruct (fst w); cbn [who_eqb] in *; lia.
Qed.

(** ** notifyWaiters *)

Lemma notify_spec : forall q sz c c' wk rest,
  notify sz c q = (c', wk, rest) ->
  q = wk ++ rest /\ c' = c + wsum wk /\ head_blocked sz c' rest /\ (c <= sz -> c' <= sz).
Proof.
  induction q as [|[x n] t IH]; intros sz c c' wk rest H; cbn [notify] in H.
  - inversion H; subst. rewrite wsum_nil. cbn [app head_blocked]. repeat split; lia.
  - destruct (sz - c <? n) eqn:E.
    + inversion H; subst. rewrite wsum_nil. cbn [app head_blocked snd]. repeat split; lia.
    + destruct (notify sz (c + n) t) as [[c1 wk1] r1] eqn:N. inversion H; subst.
      destruct (IH _ _ _ _ _ N) as (Hq & Hc & Hh & Hle).
      rewrite wsum_cons. cbn [app snd]. repeat split.
      * now rewrite Hq.
      * lia.
      * exact Hh.
      * intros _. apply Hle. lia.
Qed.

(** everything that is woken fits into the free room *)
Lemma notify_room : forall q sz c c' wk rest,
  notify sz c q = (c', wk, rest) -> c <= sz -> wsum wk <= sz - c.
Proof.
  intros q sz c c' wk rest H Hc. destruct (notify_spec _ _ _ _ _ _ H) as (_ & Hc' & _ & Hle). lia.
Qed.

Lemma wq_ok_app sz a b : wq_ok sz (a ++ b) <-> wq_ok sz a /\ wq_ok sz b.
Proof. unfold wq_ok. apply Forall_app. Qed.

(** ** the invariant *)


Record Inv (s : lstate) : Prop := {
  i_size : 0 < size (ws s);
  i_crash : crashed s = false;
  i_pan : panics s = 0;
  i_doom : doomed s = 0;
  i_real : 0 <= real s <= size (ws s);
  i_held : 0 <= held s;
  i_acct : cur (ws s) = size (ws s) - applied_cap s + held s + olen s;
  i_cap : applied_cap s <= size (ws s);
  i_cur : cur (ws s) <= size (ws s);
  i_wq : wq_ok (size (ws s)) (wq (ws s));
  i_head : head_blocked (size (ws s)) (cur (ws s)) (wq (ws s));
  i_pend : Forall (fun d => - size (ws s) <= d <= size (ws s)) (pend s);
  i_nodup : NoDup (opened s);
  i_disj : forall c, In c (opened s) -> ~ In c (closed s)
}.

Lemma olen_nonneg s : 0 <= olen s.
Proof. unfold olen. lia. Qed.

Lemma inv_cur_nonneg s : Inv s -> 0 <= cur (ws s).
Proof. intros I. pose proof (i_acct s I). pose proof (i_cap s I). pose proof (i_held s I). pose proof (olen_nonneg s). lia. Qed.

Lemma inv_init sz n : 0 < sz -> 0 <= n -> Inv (linit ideal sz n).
Proof.
  intros Hs Hn. unfold linit. cbn [q_newsem_unclamped ideal].
  constructor; cbn [ws size cur wq real pend held opened closed ndone doomed panics crashed];
    unfold applied_cap, olen, wq_ok, head_blocked;
    cbn [ws size cur wq real pend held opened closed zsum qshr fold_right List.length];
    try lia; auto; try constructor.
Qed.

(** ** Release from a caller's thread, under the accounting of the state it leaves *)

Lemma l_release_inv s0 n :
  0 < size (ws s0) -> crashed s0 = false -> panics s0 = 0 -> doomed s0 = 0 ->
  0 <= real s0 <= size (ws s0) -> 0 <= held s0 -> 0 <= n ->
  cur (ws s0) - n = size (ws s0) - applied_cap s0 + held s0 + olen s0 ->
  applied_cap s0 <= size (ws s0) -> cur (ws s0) <= size (ws s0) ->
  wq_ok (size (ws s0)) (wq (ws s0)) ->
  Forall (fun d => - size (ws s0) <= d <= size (ws s0)) (pend s0) ->
  NoDup (opened s0) -> (forall c, In c (opened s0) -> ~ In c (closed s0)) ->
  Inv (l_release s0 n).
Proof.
  intros Hsz Hcr Hpa Hdo Hre Hhe Hn Hacct Hcap Hcur Hwq Hpe Hnd Hdj.
  unfold l_release.
  pose proof (olen_nonneg s0) as Hol.
  destruct (cur (ws s0) - n <? 0) eqn:E; [lia|].
  destruct (notify (size (ws s0)) (cur (ws s0) - n) (wq (ws s0))) as [[c' wk] rest] eqn:N.
  destruct (notify_spec _ _ _ _ _ _ N) as (Hq & Hc' & Hh & Hle).
  rewrite Hq in Hwq. apply wq_ok_app in Hwq as [Hwk Hrest].
  pose proof (wsum_split _ _ Hwk) as Hws.
  pose proof (count_who_nonneg WAcc wk) as Hca.
  assert (Happ : applied_cap s0 = real s0 - zsum (pend s0) + qshr wk + qshr rest).
  { unfold applied_cap. rewrite Hq, qshr_app. lia. }
  pose proof (qshr_nonneg _ _ Hwk) as Hqk.
  unfold wake, set_ws.
  constructor; cbn [ws size cur wq real pend held opened closed ndone doomed panics crashed];
    unfold applied_cap, olen in *;
    cbn [ws size cur wq real pend held opened closed ndone doomed panics crashed] in *;
    auto; try lia.
Qed.

(** [remove_N] on duplicate-free lists *)
Lemma mem_N_In x l : mem_N x l = true <-> In x l.
Proof.
  unfold mem_N. rewrite existsb_exists. split.
  - intros (y & Hy & E). apply N.eqb_eq in E. now subst.
  - intros H. exists x. split; [auto | apply N.eqb_refl].
Qed.

Lemma In_remove_N x c l : In x (remove_N c l) <-> In x l /\ x <> c.
Proof.
  unfold remove_N. rewrite filter_In. split.
  - intros [H E]. split; auto. intros ->. rewrite N.eqb_refl in E. discriminate.
  - intros [H E]. split; auto. destruct (N.eqb c x) eqn:F; auto. apply N.eqb_eq in F. congruence.
Qed.

Lemma NoDup_remove_N c l : NoDup l -> NoDup (remove_N c l).
Proof. intros H. unfold remove_N. now apply NoDup_filter. Qed.

Lemma remove_N_notin c l : ~ In c l -> remove_N c l = l.
Proof.
  induction l as [|y l IH]; intros H; [reflexivity|]. cbn [remove_N filter].
  destruct (N.eqb c y) eqn:E.
  - apply N.eqb_eq in E. subst. exfalso. apply H. now left.
  - cbn [negb]. fold (remove_N c l). rewrite IH; auto. intro. apply H. now right.
Qed.

Lemma length_remove_N c l : NoDup l -> In c l ->
  Z.of_nat (List.length (remove_N c l)) = Z.of_nat (List.length l) - 1.
Proof.
  induction l as [|y l IH]; intros Hnd Hin; [inversion Hin|].
  inversion Hnd as [|? ? Hny Hnd']; subst. cbn [remove_N filter].
  destruct (N.eqb c y) eqn:E.
  - apply N.eqb_eq in E. subst y. cbn [negb].
    fold (remove_N c l). rewrite (remove_N_notin _ _ Hny). cbn [List.length]. lia.
  - cbn [negb List.length]. fold (remove_N c l).
    destruct Hin as [->|Hin]; [rewrite N.eqb_refl in E; discriminate|].
    rewrite Nat2Z.inj_succ, (IH Hnd' Hin). cbn [List.length]. lia.
Qed.

(** ** every step preserves the invariant *)

Lemma size_l_release s n : size (ws (l_release s n)) = size (ws s).
Proof.
  unfold l_release. destruct (cur (ws s) - n <? 0); [reflexivity|].
  destruct (notify _ _ _) as [[c' wk] rest]. reflexivity.
Qed.

Lemma acquire_cases (w : wsem) x n :
  (w_acquire w x n = ({| size := size w; cur := cur w + n; wq := wq w |}, Acquired)
     /\ n <= size w - cur w /\ wq w = []) \/
  (w_acquire w x n = (w, Doomed) /\ size w < n /\ (size w - cur w < n \/ wq w <> [])) \/
  (w_acquire w x n = ({| size := size w; cur := cur w; wq := wq w ++ [(x, n)] |}, Queued)
     /\ n <= size w /\ (size w - cur w < n \/ wq w <> [])).
Proof.
  unfold w_acquire. destruct (n <=? size w - cur w) eqn:E1; cbn [andb].
  - destruct (wq w) eqn:Q; cbn [is_nil].
    + left. repeat split; auto. lia.
    + destruct (size w <? n) eqn:E2; [right; left | right; right]; repeat split; auto; try lia;
        right; discriminate.
  - destruct (size w <? n) eqn:E2; [right; left | right; right]; repeat split; auto; lia.
Qed.

Lemma head_blocked_snoc sz c q w :
  head_blocked sz c q -> (sz - c < snd w \/ q <> []) -> head_blocked sz c (q ++ [w]).
Proof.
  destruct q as [|h t]; cbn [app head_blocked]; intros H [E|E]; auto; congruence.
Qed.

Lemma inv_step s l : Inv s -> label_ok l -> Inv (lstep ideal s l).
Proof.
  intros I Hl. unfold lstep. rewrite (i_crash s I).
  pose proof (olen_nonneg s) as Hol.
  destruct I as [Hsz Hcr Hpa Hdo Hre Hhe Hacct Hcap Hcur Hwq Hhd Hpe Hnd Hdj].
  destruct l as [ | c | | c | n | i].
  - (* LAcquire *)
    destruct (acquire_cases (ws s) WAcc 1) as [(E & H1 & H2) | [(E & H1 & H2) | (E & H1 & H2)]]; rewrite E.
    + constructor; cbn [ws size cur wq real pend held opened closed ndone doomed panics crashed];
        unfold applied_cap, olen in *;
        cbn [ws size cur wq real pend held opened closed ndone doomed panics crashed] in *;
        rewrite ?H2 in *; auto; try lia; try (cbn; auto; fail).
    + lia.
    + unfold set_ws.
      constructor; cbn [ws size cur wq real pend held opened closed ndone doomed panics crashed];
        unfold applied_cap, olen in *;
        cbn [ws size cur wq real pend held opened closed ndone doomed panics crashed] in *;
        rewrite ?qshr_app; cbn [qshr fold_right fst snd]; auto; try lia.
      * apply wq_ok_app. split; auto. constructor; [|constructor]. unfold waiter_ok. cbn. reflexivity.
      * apply head_blocked_snoc; auto.
  - (* LGot *)
    destruct ((0 <? held s) && negb (mem_N c (opened s)) && negb (mem_N c (closed s))) eqn:G.
    + apply andb_true_iff in G as [G G3]. apply andb_true_iff in G as [G1 G2].
      apply negb_true_iff in G2, G3.
      assert (N2 : ~ In c (opened s)) by (rewrite <- mem_N_In; congruence).
      assert (N3 : ~ In c (closed s)) by (rewrite <- mem_N_In; congruence).
      constructor; cbn [ws size cur wq real pend held opened closed ndone doomed panics crashed];
        unfold applied_cap, olen in *;
        cbn [ws size cur wq real pend held opened closed ndone doomed panics crashed List.length] in *;
        auto; try lia.
      * constructor; auto.
      * intros c' [->|Hc']; auto.
    + constructor; auto.
  - (* LFail *)
    destruct (0 <? held s) eqn:G; [|constructor; auto].
    apply l_release_inv; cbn [ws size cur wq real pend held opened closed ndone doomed panics crashed];
      unfold applied_cap, olen in *;
      cbn [ws size cur wq real pend held opened closed ndone doomed panics crashed] in *; auto; lia.
  - (* LClose *)
    destruct (mem_N c (opened s)) eqn:G; [|constructor; auto].
    apply mem_N_In in G. pose proof (length_remove_N c _ Hnd G) as HL.
    apply l_release_inv; cbn [ws size cur wq real pend held opened closed ndone doomed panics crashed];
      unfold applied_cap, olen in *;
      cbn [ws size cur wq real pend held opened closed ndone doomed panics crashed] in *; auto; try lia.
    + now apply NoDup_remove_N.
    + intros c' Hc' [->|Hin].
      * apply In_remove_N in Hc'. tauto.
      * apply In_remove_N in Hc' as [Hc' _]. exact (Hdj _ Hc' Hin).
  - (* LSetMax *)
    cbn [label_ok] in Hl.
    constructor; cbn [ws size cur wq real pend held opened closed ndone doomed panics crashed];
      unfold applied_cap, olen in *;
      cbn [ws size cur wq real pend held opened closed ndone doomed panics crashed] in *;
      rewrite ?zsum_app; cbn [zsum fold_right]; auto; try lia.
    apply Forall_app. split; auto. constructor; [lia|constructor].
  - (* LRun *)
    destruct (nth_error (pend s) i) as [d|] eqn:Ei; [|constructor; auto].
    pose proof (zsum_remove_nth _ _ _ Ei) as Hz.
    pose proof (nth_error_Forall _ _ _ _ Hpe Ei) as Hd. cbn beta in Hd.
    pose proof (Forall_remove_nth _ i _ Hpe) as Hpe'.
    cbn [q_grow_release_unchecked ideal].
    destruct (0 <? d) eqn:Dp.
    + (* grow, guarded by the pool *)
      destruct (pool s <? d) eqn:Pg; [constructor; auto|].
      unfold pool in Pg.
      assert (IR : Inv (l_release (set_pend s (remove_nth i (pend s))) d)).
      { apply l_release_inv; unfold set_pend;
          cbn [ws size cur wq real pend held opened closed ndone doomed panics crashed];
          unfold applied_cap, olen in *;
          cbn [ws size cur wq real pend held opened closed ndone doomed panics crashed] in *; auto; lia. }
      destruct IR. constructor; cbn [ws size cur wq real pend held opened closed ndone doomed panics crashed];
        unfold applied_cap, olen in *;
        cbn [ws size cur wq real pend held opened closed ndone doomed panics crashed] in *; auto.
    + destruct (d <? 0) eqn:Dn.
      * (* shrink *)
        unfold set_pend at 1. cbn [ws].
        destruct (acquire_cases (ws s) WAdj (- d)) as [(E & H1 & H2) | [(E & H1 & H2) | (E & H1 & H2)]]; rewrite E.
        -- constructor; unfold set_pend;
             cbn [ws size cur wq real pend held opened closed ndone doomed panics crashed];
             unfold applied_cap, olen in *;
             cbn [ws size cur wq real pend held opened closed ndone doomed panics crashed] in *;
             rewrite ?H2 in *; auto; try lia; try (cbn; auto; fail).
        -- lia.
        -- unfold set_ws, set_pend.
           constructor; cbn [ws size cur wq real pend held opened closed ndone doomed panics crashed];
             unfold applied_cap, olen in *;
             cbn [ws size cur wq real pend held opened closed ndone doomed panics crashed] in *;
             rewrite ?qshr_app; cbn [qshr fold_right fst snd]; auto; try lia.
           ++ apply wq_ok_app. split; auto. constructor; [|constructor]. unfold waiter_ok. cbn. lia.
           ++ apply head_blocked_snoc; auto.
      * (* zero delta *)
        assert (d = 0) by lia. subst d.
        constructor; unfold set_pend;
          cbn [ws size cur wq real pend held opened closed ndone doomed panics crashed];
          unfold applied_cap, olen in *;
          cbn [ws size cur wq real pend held opened closed ndone doomed panics crashed] in *; auto; lia.
Qed.

Lemma inv_run : forall ls s, Inv s -> Forall label_ok ls -> Inv (lrun ideal s ls).
Proof.
  induction ls as [|l ls IH]; intros s I H; cbn [lrun fold_left]; auto.
  inversion H; subst. apply IH; auto. now apply inv_step.
Qed.

Theorem reachable_inv sz n ls :
  0 < sz -> 0 <= n -> Forall label_ok ls -> Inv (lrun ideal (linit ideal sz n) ls).
Proof. intros. apply inv_run; auto. now apply inv_init. Qed.
