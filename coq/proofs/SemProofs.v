(** C17 proofs (placeholder, filled below). *)
From EG.lib Require Import Base.
From EG.model Require Import Sem.
Open Scope Z_scope.

Lemma sem_accounting_init : forall sz n, 0 <= n -> 0 < sz ->
  cur (ws (linit ideal sz n)) = sz - real (linit ideal sz n).
Proof. intros; reflexivity. Qed.
